(* Shared lemmas for the proofs about Model/Balance.v (C18): slices, Aggregate, gcd,
   histories. *)
From Coq Require Import List ZArith Bool Lia.
From HV Require Import Model.Balance.
Import ListNotations.
Open Scope Z_scope.

(* ---- the result monad ------------------------------------------------ *)
Lemma bind_ok {A B} (r : res A) (f : A -> res B) b :
  bind r f = Ok b -> exists a, r = Ok a /\ f a = Ok b.
Proof. destruct r; cbn; intros H; try discriminate. eauto. Qed.

(* ---- upd_nth ---------------------------------------------------------- *)
Lemma upd_nth_length {A} (l : list A) : forall n x, length (upd_nth n x l) = length l.
Proof. induction l as [|y l IH]; intros [|n] x; cbn; auto. Qed.

Lemma nth_error_upd_nth_same {A} (l : list A) : forall n x,
  (n < length l)%nat -> nth_error (upd_nth n x l) n = Some x.
Proof.
  induction l as [|y l IH]; intros n x Hn; [cbn in Hn; lia|].
  destruct n; cbn; [reflexivity|]. apply IH. cbn in Hn. lia.
Qed.

Lemma nth_error_upd_nth_other {A} (l : list A) : forall n m x,
  n <> m -> nth_error (upd_nth n x l) m = nth_error l m.
Proof.
  induction l as [|y l IH]; intros n m x Hnm; [destruct n; reflexivity|].
  destruct n, m; cbn; try reflexivity; try congruence. apply IH. congruence.
Qed.

Lemma nth_error_ext {A} (l l' : list A) :
  (forall n, nth_error l n = nth_error l' n) -> l = l'.
Proof.
  revert l'; induction l as [|x l IH]; intros [|y l'] H; auto.
  - specialize (H O); discriminate.
  - specialize (H O); discriminate.
  - pose proof (H O) as H0; cbn in H0; injection H0 as ->. f_equal.
    apply IH. intros n. exact (H (S n)).
Qed.

Lemma in_range_spec n i : in_range n i = true <-> 0 <= i < n.
Proof. unfold in_range. rewrite andb_true_iff, Z.leb_le, Z.ltb_lt. tauto. Qed.

Lemma url_at_ok n i k : url_at n i = Ok k -> (k < n)%nat /\ i = Z.of_nat k.
Proof.
  unfold url_at. destruct (in_range (Z.of_nat n) i) eqn:E; [|discriminate].
  apply in_range_spec in E. intros H. injection H as <-. split; lia.
Qed.

Lemma url_at_nat_ok n i k : url_at_nat n i = Ok k -> (k < n)%nat /\ k = i.
Proof.
  unfold url_at_nat. destruct (Nat.ltb i n) eqn:E; [|discriminate].
  apply Nat.ltb_lt in E. intros H. injection H as <-. split; auto.
Qed.

Lemma rand_intn_cases n r :
  match rand_intn n r with
  | Ok i => (i < n)%nat /\ r = Z.of_nat i
  | Panic => n = O
  | BadScript => n <> O /\ ~ (0 <= r < Z.of_nat n)
  | OutOfFuel => False
  end.
Proof.
  unfold rand_intn. destruct (Nat.eqb n 0) eqn:E.
  - apply Nat.eqb_eq in E. exact E.
  - apply Nat.eqb_neq in E. destruct (in_range (Z.of_nat n) r) eqn:R.
    + apply in_range_spec in R. split; lia.
    + split; [exact E|]. intros H. apply in_range_spec in H. congruence.
Qed.

(* ---- Sum / Min / Max --------------------------------------------------- *)
Definition lsum (l : list Z) : Z := fold_right Z.add 0 l.

Lemma fold_left_add r : forall x, fold_left Z.add r x = x + lsum r.
Proof. induction r as [|y r IH]; intros x; cbn [fold_left]; [unfold lsum; cbn; lia|]. rewrite IH. unfold lsum. cbn. lia. Qed.

Lemma zsum_lsum l : zsum l = lsum l.
Proof. destruct l as [|x r]; [reflexivity|]. unfold zsum, aggregate. rewrite fold_left_add. reflexivity. Qed.

Lemma lsum_app a b : lsum (a ++ b) = lsum a + lsum b.
Proof. induction a as [|x a IH]; unfold lsum in *; cbn; lia. Qed.

Lemma lsum_nonneg l : Forall (fun x => 0 <= x) l -> 0 <= lsum l.
Proof. induction 1; cbn; unfold lsum in *; cbn; lia. Qed.

Lemma lsum_pos l : l <> [] -> Forall (fun x => 0 < x) l -> 0 < lsum l.
Proof.
  destruct l as [|x l]; [congruence|]. intros _ H. inversion H as [|? ? Hx Hl]; subst.
  assert (0 <= lsum l) by (apply lsum_nonneg; eapply Forall_impl; [|exact Hl]; cbn; intros; lia).
  unfold lsum in *. cbn. lia.
Qed.

Lemma fold_left_min2 r : forall x,
  In (fold_left min2 r x) (x :: r) /\ forall y, In y (x :: r) -> fold_left min2 r x <= y.
Proof.
  induction r as [|z r IH]; intros x; cbn [fold_left].
  - split; [left; reflexivity|]. intros y [<-|[]]. lia.
  - destruct (IH (min2 x z)) as [Hin Hle]. split.
    + destruct Hin as [E|Hin]; [|right; right; exact Hin].
      rewrite <- E. unfold min2. destruct (x >? z); [right; left|left]; reflexivity.
    + intros y Hy. assert (Hm : fold_left min2 r (min2 x z) <= min2 x z) by (apply Hle; left; reflexivity).
      assert (Hxz : min2 x z <= x /\ min2 x z <= z).
      { unfold min2. destruct (x >? z) eqn:E; [rewrite Z.gtb_ltb, Z.ltb_lt in E|rewrite Z.gtb_ltb, Z.ltb_ge in E]; lia. }
      destruct Hy as [<-|[<-|Hy]]; [lia|lia|]. apply Hle. right. exact Hy.
Qed.

Lemma zmin_spec l : l <> [] -> In (zmin l) l /\ forall y, In y l -> zmin l <= y.
Proof. destruct l as [|x r]; [congruence|]. intros _. exact (fold_left_min2 r x). Qed.

Lemma fold_left_max2 r : forall x,
  In (fold_left max2 r x) (x :: r) /\ forall y, In y (x :: r) -> y <= fold_left max2 r x.
Proof.
  induction r as [|z r IH]; intros x; cbn [fold_left].
  - split; [left; reflexivity|]. intros y [<-|[]]. lia.
  - destruct (IH (max2 x z)) as [Hin Hle]. split.
    + destruct Hin as [E|Hin]; [|right; right; exact Hin].
      rewrite <- E. unfold max2. destruct (x >? z); [left|right; left]; reflexivity.
    + intros y Hy. assert (Hm : max2 x z <= fold_left max2 r (max2 x z)) by (apply Hle; left; reflexivity).
      assert (Hxz : x <= max2 x z /\ z <= max2 x z).
      { unfold max2. destruct (x >? z) eqn:E; [rewrite Z.gtb_ltb, Z.ltb_lt in E|rewrite Z.gtb_ltb, Z.ltb_ge in E]; lia. }
      destruct Hy as [<-|[<-|Hy]]; [lia|lia|]. apply Hle. right. exact Hy.
Qed.

Lemma zmax_spec l : l <> [] -> In (zmax l) l /\ forall y, In y l -> y <= zmax l.
Proof. destruct l as [|x r]; [congruence|]. intros _. exact (fold_left_max2 r x). Qed.

(* ---- gcd ---------------------------------------------------------------- *)
Lemma gcd_loop_spec : forall fuel x y,
  0 <= x -> 0 <= y -> (Z.to_nat y < fuel)%nat -> gcd_loop fuel x y = Ok (Z.gcd x y).
Proof.
  induction fuel as [|f IH]; intros x y Hx Hy Hf; [lia|].
  cbn [gcd_loop]. destruct (y =? 0) eqn:E.
  - apply Z.eqb_eq in E. subst y. rewrite Z.gcd_0_r, Z.abs_eq by lia. reflexivity.
  - apply Z.eqb_neq in E.
    pose proof (Z.rem_bound_pos x y Hx ltac:(lia)) as Hb.
    rewrite IH by lia. f_equal.
    rewrite (Z.gcd_comm y), Z.gcd_rem by lia. apply Z.gcd_comm.
Qed.

(* the loop budget of gcd suffices, and gcd computes the mathematical gcd *)
Lemma go_gcd_spec x y : 0 <= x -> 0 <= y -> go_gcd x y = Ok (Z.gcd x y).
Proof.
  intros Hx Hy. unfold go_gcd. destruct (x <? y) eqn:E.
  - rewrite gcd_loop_spec by lia. f_equal. apply Z.gcd_comm.
  - apply gcd_loop_spec; lia.
Qed.

Definition lgcd (l : list Z) : Z := fold_right Z.gcd 0 l.

Lemma lgcd_nonneg l : 0 <= lgcd l.
Proof. destruct l; cbn; [lia|apply Z.gcd_nonneg]. Qed.

Lemma fold_left_gcd r : forall x, 0 <= x -> Forall (fun w => 0 <= w) r ->
  fold_left (fun acc y => bind acc (fun a => go_gcd a y)) r (Ok x) = Ok (Z.gcd x (lgcd r)).
Proof.
  induction r as [|y r IH]; intros x Hx Hr; cbn [fold_left lgcd fold_right].
  - rewrite Z.gcd_0_r, Z.abs_eq by lia. reflexivity.
  - inversion Hr as [|? ? Hy Hr']; subst. cbn [bind]. rewrite go_gcd_spec by lia.
    rewrite IH by (auto; apply Z.gcd_nonneg). f_equal. fold (lgcd r). symmetry. apply Z.gcd_assoc.
Qed.

Lemma zgcd_spec l : Forall (fun w => 0 <= w) l -> zgcd l = Ok (lgcd l).
Proof.
  destruct l as [|x r]; intros H; [reflexivity|]. inversion H; subst.
  unfold zgcd. rewrite fold_left_gcd by auto. reflexivity.
Qed.

Lemma lgcd_divides l : forall w, In w l -> (lgcd l | w).
Proof.
  induction l as [|x l IH]; intros w [].
  - subst. cbn. apply Z.gcd_divide_l.
  - cbn. eapply Z.divide_trans; [apply Z.gcd_divide_r|]. apply IH. assumption.
Qed.

Lemma lgcd_greatest l d : (forall w, In w l -> (d | w)) -> (d | lgcd l).
Proof.
  induction l as [|x l IH]; intros H; cbn.
  - apply Z.divide_0_r.
  - apply Z.gcd_greatest; [apply H; left; reflexivity|]. apply IH. intros w Hw. apply H. right. exact Hw.
Qed.

Lemma lgcd_pos l : l <> [] -> Forall (fun w => 0 < w) l -> 0 < lgcd l.
Proof.
  destruct l as [|x l]; [congruence|]. intros _ H. inversion H as [|? ? Hx _]; subst.
  pose proof (lgcd_nonneg (x :: l)) as Hn.
  destruct (Z.eq_dec (lgcd (x :: l)) 0) as [E|E]; [|lia].
  exfalso. cbn in E. apply Z.gcd_eq_0_l in E. lia.
Qed.

(* ---- constructor -------------------------------------------------------- *)
Lemma mk_weighted_ok ws w : mk_weighted ws = Ok w -> w = ws /\ Forall (fun x => 0 < x) ws.
Proof.
  unfold mk_weighted. destruct (forallb (fun w0 => 0 <? w0) ws) eqn:E; [|discriminate].
  intros H. injection H as <-. split; [reflexivity|].
  rewrite forallb_forall in E. apply Forall_forall. intros x Hx. apply E in Hx. apply Z.ltb_lt in Hx. exact Hx.
Qed.

Lemma mk_weighted_pos ws : Forall (fun x => 0 < x) ws -> mk_weighted ws = Ok ws.
Proof.
  intros H. unfold mk_weighted.
  assert (E : forallb (fun w => 0 <? w) ws = true).
  { apply forallb_forall. intros x Hx. rewrite Forall_forall in H. apply Z.ltb_lt. auto. }
  rewrite E. reflexivity.
Qed.

(* a weight <= 0 makes the constructor panic *)
Lemma mk_weighted_panics ws : Exists (fun x => x <= 0) ws -> mk_weighted ws = Panic.
Proof.
  intros H. unfold mk_weighted.
  destruct (forallb (fun w => 0 <? w) ws) eqn:E; [|reflexivity].
  exfalso. rewrite forallb_forall in E. apply Exists_exists in H. destruct H as (x & Hx & Hle).
  apply E in Hx. apply Z.ltb_lt in Hx. lia.
Qed.

(* ---- the call table of a history ---------------------------------------- *)
Definition calls_lt (n : nat) (calls : list (option nat)) : Prop :=
  forall k i, nth_error calls k = Some (Some i) -> (i < n)%nat.

Lemma calls_lt_nil n : calls_lt n [].
Proof. intros [|k] i H; discriminate. Qed.

Lemma calls_lt_app n calls i : calls_lt n calls -> (i < n)%nat -> calls_lt n (calls ++ [Some i]).
Proof.
  intros Hc Hi k j H. destruct (Nat.lt_ge_cases k (length calls)) as [Hk|Hk].
  - rewrite nth_error_app1 in H by exact Hk. eapply Hc; eauto.
  - rewrite nth_error_app2 in H by exact Hk. destruct (k - length calls)%nat as [|[|q]]; cbn in H; try discriminate.
    injection H as <-. exact Hi.
Qed.

Lemma calls_lt_upd n calls k : calls_lt n calls -> calls_lt n (upd_nth k None calls).
Proof.
  intros Hc q j H. destruct (Nat.eq_dec k q) as [<-|Hkq].
  - destruct (Nat.lt_ge_cases k (length calls)) as [Hk|Hk].
    + rewrite nth_error_upd_nth_same in H by exact Hk. discriminate.
    + assert (E : nth_error (upd_nth k None calls) k = None)
        by (apply nth_error_None; rewrite upd_nth_length; exact Hk).
      congruence.
  - rewrite nth_error_upd_nth_other in H by exact Hkq. eapply Hc; eauto.
Qed.

(* number of calls in flight on server j *)
Fixpoint cnt (j : nat) (calls : list (option nat)) : nat :=
  match calls with
  | [] => O
  | Some i :: r => ((if Nat.eqb i j then 1 else 0) + cnt j r)%nat
  | None :: r => cnt j r
  end.

Lemma cnt_app j a b : cnt j (a ++ b) = (cnt j a + cnt j b)%nat.
Proof. induction a as [|[i|] a IH]; cbn; auto. rewrite IH. lia. Qed.

Lemma cnt_upd_none j : forall calls k i, nth_error calls k = Some (Some i) ->
  (cnt j calls = cnt j (upd_nth k None calls) + (if Nat.eqb i j then 1 else 0))%nat.
Proof.
  induction calls as [|c calls IH]; intros [|k] i H; cbn in H; try discriminate.
  - injection H as ->. cbn. lia.
  - cbn [upd_nth]. destruct c as [q|]; cbn [cnt]; rewrite (IH k i H); lia.
Qed.

Definition all_finished (calls : list (option nat)) : Prop := Forall (fun c => c = None) calls.

Lemma cnt_all_finished j calls : all_finished calls -> cnt j calls = O.
Proof. induction 1 as [|c calls Hc _ IH]; cbn; auto. subst c. exact IH. Qed.

(* ---- invariants over all histories -------------------------------------- *)
Section Run.
  Context {S : Type} (m : machine S).
  Variable I : S -> list (option nat) -> Prop.
  Variable n : nat.

  Hypothesis pick_safe : forall s calls r, I s calls ->
    match m_pick m s r with
    | Ok (i, s') => (i < n)%nat /\ I s' (calls ++ [Some i])
    | BadScript => True
    | _ => False
    end.
  Hypothesis settle_safe : forall s calls k i o, I s calls -> nth_error calls k = Some (Some i) ->
    match m_settle m s i o with
    | Ok s' => I s' (upd_nth k None calls)
    | BadScript => True
    | _ => False
    end.

  (* No history makes the balancer panic or run out of fuel, every pick is in range, and the
     invariant holds at the end. *)
  Lemma run_safe : forall h s calls, I s calls ->
    match run m s calls h with
    | Ok (ps, (s', calls')) => Forall (fun i => (i < n)%nat) ps /\ I s' calls'
    | BadScript => True
    | _ => False
    end.
  Proof.
    induction h as [|e h IH]; intros s calls HI; cbn [run].
    - split; [constructor|exact HI].
    - destruct e as [r|k o].
      + pose proof (pick_safe s calls r HI) as Hp.
        destruct (m_pick m s r) as [[i s1]| | |]; cbn [bind]; try exact Hp.
        destruct Hp as [Hi HI1]. cbn [fst snd].
        specialize (IH s1 (calls ++ [Some i]) HI1).
        destruct (run m s1 (calls ++ [Some i]) h) as [[ps [s2 c2]]| | |]; cbn [bind]; try exact IH.
        destruct IH as [Hps HI2]. cbn [fst snd]. split; [constructor; assumption|exact HI2].
      + destruct (nth_error calls k) as [[i|]|] eqn:Hk; try exact Logic.I.
        pose proof (settle_safe s calls k i o HI Hk) as Hs.
        destruct (m_settle m s i o) as [s1| | |]; cbn [bind]; try exact Hs.
        apply IH. exact Hs.
  Qed.
End Run.

(* splitting a history *)
Lemma run_app {S} (m : machine S) : forall h1 h2 s calls,
  run m s calls (h1 ++ h2) =
  bind (run m s calls h1) (fun x =>
  bind (run m (fst (snd x)) (snd (snd x)) h2) (fun y => Ok (fst x ++ fst y, snd y))).
Proof.
  induction h1 as [|e h1 IH]; intros h2 s calls; cbn [app run bind fst snd].
  - destruct (run m s calls h2) as [[ps sc]| | |]; reflexivity.
  - destruct e as [r|k o].
    + destruct (m_pick m s r) as [[i s1]| | |]; cbn [bind fst snd]; try reflexivity.
      rewrite IH. destruct (run m s1 (calls ++ [Some i]) h1) as [[ps [s2 c2]]| | |]; cbn [bind fst snd]; try reflexivity.
      destruct (run m s2 c2 h2) as [[ps' sc']| | |]; reflexivity.
    + destruct (nth_error calls k) as [[i|]|]; try reflexivity.
      destruct (m_settle m s i o) as [s1| | |]; cbn [bind]; try reflexivity. apply IH.
Qed.

(* ---- counting picks ------------------------------------------------------ *)
Definition count (i : nat) (tr : list nat) : Z := Z.of_nat (count_occ Nat.eq_dec tr i).

Lemma count_app i a b : count i (a ++ b) = count i a + count i b.
Proof. unfold count. rewrite count_occ_app. lia. Qed.

Lemma count_cons i x tr : count i (x :: tr) = (if Nat.eqb x i then 1 else 0) + count i tr.
Proof.
  unfold count. cbn [count_occ]. destruct (Nat.eq_dec x i) as [E|E].
  - apply Nat.eqb_eq in E. rewrite E. lia.
  - apply Nat.eqb_neq in E. rewrite E. lia.
Qed.

Lemma count_nil i : count i [] = 0.
Proof. reflexivity. Qed.

(* occurrences of i in the consecutive numbers a, a+1, .., a+len-1 *)
Lemma count_seq i : forall len a,
  ((a <= i < a + len)%nat -> count i (seq a len) = 1) /\
  (~ (a <= i < a + len)%nat -> count i (seq a len) = 0).
Proof.
  induction len as [|len IH]; intros a; cbn [seq].
  - split; intros H; [lia|reflexivity].
  - rewrite count_cons. destruct (IH (S a)) as [IH1 IH2].
    destruct (Nat.eqb_spec a i) as [E|E].
    + subst a. split; intros H; [|lia]. rewrite IH2 by lia. reflexivity.
    + split; intros H.
      * rewrite IH1 by lia. reflexivity.
      * rewrite IH2 by lia. reflexivity.
Qed.

(* A deterministic picker that returns to its start state after P picks serves every window
   of P consecutive picks like the first one. *)
Section Periodic.
  Context {S : Type}.
  Variable runk : nat -> S -> res (list nat * S).
  Hypothesis runk_add : forall a b s,
    runk (a + b) s = bind (runk a s) (fun x => bind (runk b (snd x)) (fun y => Ok (fst x ++ fst y, snd y))).

  Lemma periodic_window P s0 lp :
    runk P s0 = Ok (lp, s0) ->
    forall a l1 s1, runk a s0 = Ok (l1, s1) ->
    exists l2, runk P s1 = Ok (l2, s1) /\ forall i, count i l2 = count i lp.
  Proof.
    intros HP a l1 s1 Ha.
    pose proof (runk_add P a s0) as E1. rewrite HP in E1. cbn [bind fst snd] in E1. rewrite Ha in E1.
    cbn [bind fst snd] in E1.
    pose proof (runk_add a P s0) as E2. rewrite Ha in E2. cbn [bind fst snd] in E2.
    replace (a + P)%nat with (P + a)%nat in E2 by lia. rewrite E1 in E2.
    destruct (runk P s1) as [[l2 s2]| | |]; cbn [bind fst snd] in E2; try discriminate.
    injection E2 as El Es. subst s2. exists l2. split; [reflexivity|].
    intros i. assert (Hc : count i (lp ++ l1) = count i (l1 ++ l2)) by (rewrite El; reflexivity).
    rewrite !count_app in Hc. lia.
  Qed.
End Periodic.

(* ---- k-fold picking ------------------------------------------------------ *)
Lemma pick_run_add {S} (pick : S -> res (nat * S)) : forall a b s,
  pick_run pick (a + b) s =
  bind (pick_run pick a s) (fun x =>
  bind (pick_run pick b (snd x)) (fun y => Ok (fst x ++ fst y, snd y))).
Proof.
  induction a as [|a IH]; intros b s; cbn [Nat.add pick_run bind fst snd].
  - destruct (pick_run pick b s) as [[l s']| | |]; reflexivity.
  - destruct (pick s) as [[i s1]| | |]; cbn [bind fst snd]; try reflexivity.
    rewrite IH. destruct (pick_run pick a s1) as [[l s2]| | |]; cbn [bind fst snd]; try reflexivity.
    destruct (pick_run pick b s2) as [[l' s3]| | |]; reflexivity.
Qed.

Lemma pick_run_ext {S} (p q : S -> res (nat * S)) :
  (forall s, p s = q s) -> forall k s, pick_run p k s = pick_run q k s.
Proof.
  intros H. induction k as [|k IH]; intros s; cbn [pick_run]; [reflexivity|].
  rewrite H. destruct (q s) as [[i s1]| | |]; cbn [bind]; try reflexivity. rewrite IH. reflexivity.
Qed.

(* a picker that never fails on states satisfying an invariant can be run for ever *)
Lemma pick_run_total {S} (pick : S -> res (nat * S)) (I : S -> Prop) (n : nat) :
  (forall s, I s -> exists i s', pick s = Ok (i, s') /\ (i < n)%nat /\ I s') ->
  forall k s, I s -> exists l s', pick_run pick k s = Ok (l, s') /\ I s' /\ length l = k /\
                                Forall (fun i => (i < n)%nat) l.
Proof.
  intros Hp. induction k as [|k IH]; intros s Hs; cbn [pick_run].
  - exists [], s. repeat split; auto.
  - destruct (Hp s Hs) as (i & s1 & E & Hi & Hs1). rewrite E. cbn [bind fst snd].
    destruct (IH s1 Hs1) as (l & s2 & E2 & Hs2 & Hl & Hall). rewrite E2. cbn [bind fst snd].
    exists (i :: l), s2. repeat split; auto. cbn. lia.
Qed.
