(* Proofs about the call model (Model/Call.v): a remote call is the composition
   client codec -> transport -> service codec -> lookup -> execute -> service codec -> transport -> client codec,
   so its theorems are compositions of C07's (Proofs/CodecProofs.v) with the transport premises
   (C12: the handler runs exactly once on exactly the bytes sent; C09: the caller receives the response
   produced for its own request). *)
From Coq Require Import String.
From Coq Require Import List Arith NArith ZArith Lia Strings.Byte Bool.
From HV Require Import Lib.Dec Lib.Utf8 Model.Wire Model.WireSem Model.Enc Model.Codec Model.Call
                       Proofs.WireProofs Proofs.EncProofs Proofs.CodecProofs.
Import ListNotations.
Open Scope N_scope.

(* ---- lookup: case-insensitive, then the missing-method handler ------------------------------------ *)

Lemma lookup_case_insensitive lower svc n1 n2 : lower n1 = lower n2 -> lookup lower svc n1 = lookup lower svc n2.
Proof. intros H. unfold lookup. rewrite H. reflexivity. Qed.

Lemma lookup_registered lower svc m : m_missing m = false ->
  lookup lower (radd lower m svc) (m_name m) = Some m.
Proof.
  intros Hm. unfold lookup, radd. rewrite Hm. cbn [rfind]. rewrite beqb_refl. reflexivity.
Qed.

Lemma lookup_other_spelling lower svc m name : m_missing m = false -> lower name = lower (m_name m) ->
  lookup lower (radd lower m svc) name = Some m.
Proof. intros Hm Hl. rewrite (lookup_case_insensitive lower _ name (m_name m) Hl). apply lookup_registered; exact Hm. Qed.

Lemma lookup_falls_back lower svc name : rfind (lower name) svc = None -> lookup lower svc name = rfind star svc.
Proof. intros H. unfold lookup. rewrite H. reflexivity. Qed.

(* ---- proxies ----------------------------------------------------------------------------------------- *)

Lemma proxy_in_flattens front vs :
  proxy_in true (front ++ [AVal (GSlice vs)]) = front ++ map AVal vs.
Proof. unfold proxy_in. rewrite rev_app_distr. cbn [rev app]. rewrite rev_involutive. reflexivity. Qed.

Lemma proxy_in_no_tail front : proxy_in true (front ++ [AVal GNil]) = front.
Proof. unfold proxy_in. rewrite rev_app_distr. cbn [rev app slice_elems]. rewrite rev_involutive, app_nil_r. reflexivity. Qed.

Lemma proxy_in_plain ins : proxy_in false ins = ins.
Proof. reflexivity. Qed.

Lemma strip_ctx_leading args : strip_ctx (ACtx :: args) = args.
Proof. reflexivity. Qed.

Lemma plain_vals vs : plain (map AVal vs) = Some vs.
Proof. induction vs as [|v vs IH]; [reflexivity|]. cbn [map plain]. rewrite IH. reflexivity. Qed.

Lemma mangle_plain field : mangle [] [] field = dots_to_underscores field.
Proof. reflexivity. Qed.

(* ---- the method table entry ------------------------------------------------------------------------- *)

Lemma make_method_error_slot id name ctx params velem outs r :
  implements_error r = true ->
  m_err (make_method id name ctx params velem (outs ++ [r])) = true /\
  m_results (make_method id name ctx params velem (outs ++ [r])) = map rdesc_type outs.
Proof.
  intros H. unfold make_method. rewrite rev_app_distr. cbn [rev app]. rewrite H.
  cbn [m_err m_results]. rewrite removelast_last. split; reflexivity.
Qed.

Lemma make_method_no_error_slot id name ctx params velem outs t :
  m_err (make_method id name ctx params velem (outs ++ [RPlain t])) = false /\
  m_results (make_method id name ctx params velem (outs ++ [RPlain t])) = map rdesc_type (outs ++ [RPlain t]).
Proof.
  unfold make_method. rewrite rev_app_distr. cbn [rev app implements_error m_err m_results]. split; reflexivity.
Qed.

Section C08.
Variable fuel : nat.
Variable hp : heap.
Variable lower : bytes -> bytes.
Variable io_dec : dopts -> bool -> pty -> wire -> option gval.
Variable io_dec_hdrs : dopts -> bool -> wire -> option headers.
Variable zero : pty -> gval.
Variable convert : dopts -> pty -> gval -> gval.
Variable fits : gval -> pty -> Prop.
Variable impl : N -> list gval -> fout.
Variable stack : bytes.
Variable dec_err_text : bytes.
Variable tr_req : bytes -> list bytes.
Variable tr_resp : bytes -> bytes.

(* C07's value-level premises: C01 *)
Hypothesis Hval : C01_value hp io_dec convert fits.
Hypothesis Htuple : C01_tuple hp io_dec convert fits.
Hypothesis Hhdrs : C01_headers hp io_dec_hdrs convert fits.
Hypothesis Hbool : C01_bool convert.
(* the transport: C12 (exactly the bytes sent reach the handler, once) and C09 (own response) *)
Definition C12_delivers : Prop := forall b, tr_req b = [b].
Definition C09_own_response : Prop := forall b, tr_resp b = b.
Hypothesis H12 : C12_delivers.
Hypothesis H09 : C09_own_response.

Notation handle' := (handle fuel hp lower io_dec io_dec_hdrs impl stack dec_err_text).
Notation invoke' := (invoke fuel hp lower io_dec io_dec_hdrs zero impl stack dec_err_text tr_req tr_resp).
Notation execute' := (execute impl stack).

(* what the arguments look like when the function is entered *)
Definition entered_args (so : sopts) (m : method) (name : bytes) (args : list gval) : list gval :=
  if m_missing m then [GString name; GSlice (expected_args convert (s_dec so) m args)]
  else expected_args convert (s_dec so) m args.

(* the call conforms to the signature: the right number of arguments (anything goes for the missing-method handler) *)
Definition conforms (m : method) (args : list gval) : Prop :=
  m_missing m = true \/ arity m (length args) = Eq.

Lemma expected_args_length so m args : m_missing m = false ->
  length (expected_args convert (s_dec so) m args) = length args.
Proof.
  intros Hm. unfold expected_args. destruct args as [|a args]; [reflexivity|]. rewrite Hm.
  rewrite zipconv_length, param_types_length. apply Nat.min_id.
Qed.

Lemma execute_conforming so m name args : conforms m args ->
  execute' m name (expected_args convert (s_dec so) m args) =
  of_fout stack (m_id m) (entered_args so m name args) (impl (m_id m) (entered_args so m name args)).
Proof.
  intros Hc. unfold execute, entered_args. destruct (m_missing m) eqn:Hm; [reflexivity|].
  destruct Hc as [Hx|Ha]; [congruence|].
  rewrite (expected_args_length so m args Hm), Ha. reflexivity.
Qed.

(* the request premises of C07, bundled *)
Record request_ok (co : copts) (svc : registry) (name : bytes) (args : list gval) (h : headers) (m : method) : Prop := {
  rk_heap : heap_ok hp = true;
  rk_args : values_ok args;
  rk_hdrs : values_ok (map snd h);
  rk_reserved : hfind s_simple_key h = None;
  rk_hfit : Forall (fun kv => fits (snd kv) TIface) h;
  rk_bool : c_simple co = true -> fits (GBool true) TIface;
  rk_lookup : lookup lower svc name = Some m;
  rk_fit : args_fit fits m args
}.

Definition outcome_of (x : xres) : gval + errv := match x with XRes vs => inl (shape vs) | XErr e => inr e end.

Lemma handle_request co so svc rh name args h ops m :
  request_ok co svc name args h m ->
  client_encode fuel hp co name args h = CEOk ops ->
  handle' so svc rh (emit_ops ops) =
  let '(x, l) := execute' m name (expected_args convert (s_dec so) m args) in
  (match service_encode fuel hp so (outcome_of x) rh with
   | CEOk ops' => Some (emit_ops ops')
   | CEFail _ => None
   end, l).
Proof.
  intros [Hh Ha Hv Hres Hfit Hfb Hlk Haf] He. unfold handle.
  rewrite (request_roundtrip fuel hp lower io_dec io_dec_hdrs convert fits Hval Htuple Hhdrs Hbool
             co so svc name args h ops m Hh Ha Hv Hres Hfit Hfb Hlk Haf He).
  cbn [rq_method rq_name rq_args].
  destruct (execute' m name (expected_args convert (s_dec so) m args)) as [x l].
  destruct x; cbn [outcome_of];
    match goal with |- context [service_encode ?a ?b ?c ?d ?e] => destruct (service_encode a b c d e) end; reflexivity.
Qed.

(* every request of a batch is answered as if it were alone *)
Lemma serve_all_independent so svc rh reqs i req :
  nth_error reqs i = Some req ->
  nth_error (serve_all fuel hp lower io_dec io_dec_hdrs impl stack dec_err_text so svc rh reqs) i = Some (handle' so svc rh req).
Proof. intros H. unfold serve_all. rewrite nth_error_map, H. reflexivity. Qed.

(* one remote call, up to the point where the client decodes *)
Lemma invoke_steps co so svc rh rts name args h ops m :
  request_ok co svc name args h m ->
  client_encode fuel hp co name args h = CEOk ops ->
  invoke' co so svc rh rts name args h =
  let '(x, l) := execute' m name (expected_args convert (s_dec so) m args) in
  match service_encode fuel hp so (outcome_of x) rh with
  | CEFail _ => (RFail, l)
  | CEOk ops' =>
      match fst (client_decode io_dec io_dec_hdrs zero co rts (emit_ops ops')) with
      | CDRes _ vs => (RRes vs, l)
      | CDErr _ msg t => (RErr msg t, l)
      | CDDecodeError | CDInvalid => (RFail, l)
      end
  end.
Proof.
  intros Hok He. unfold invoke. rewrite He, H12.
  rewrite (handle_request co so svc rh name args h ops m Hok He).
  destruct (execute' m name (expected_args convert (s_dec so) m args)) as [x l].
  cbn [flat_map]. rewrite app_nil_r.
  destruct (service_encode fuel hp so (outcome_of x) rh) as [ops'|]; [|reflexivity].
  rewrite H09. reflexivity.
Qed.

(* the response premises of C07, bundled *)
Record response_ok (so : sopts) (rh : headers) : Prop := {
  pk_hdrs : values_ok (map snd rh);
  pk_reserved : hfind s_simple_key rh = None;
  pk_hfit : Forall (fun kv => fits (snd kv) TIface) rh;
  pk_bool : s_simple so = true -> fits (GBool true) TIface
}.

(* ---- exactly once ---------------------------------------------------------------------------------- *)

Theorem exactly_once : forall co so svc rh rts name args h ops m,
  request_ok co svc name args h m -> conforms m args ->
  client_encode fuel hp co name args h = CEOk ops ->
  snd (invoke' co so svc rh rts name args h) = [(m_id m, entered_args so m name args)].
Proof.
  intros co so svc rh rts name args h ops m Hok Hc He.
  rewrite (invoke_steps co so svc rh rts name args h ops m Hok He).
  rewrite (execute_conforming so m name args Hc).
  destruct (impl (m_id m) (entered_args so m name args)) as [vs [e|]|p]; cbn [of_fout outcome_of];
    match goal with
    | |- snd (match ?X with _ => _ end) = _ => destruct X as [ops'|]; [|reflexivity]
    end;
    match goal with
    | |- snd (match ?X with _ => _ end) = _ => destruct X; reflexivity
    end.
Qed.

(* ---- remote = local ---------------------------------------------------------------------------------- *)

Theorem equals_local : forall co so svc rh rts name args h ops m vs ops',
  request_ok co svc name args h m -> conforms m args -> response_ok so rh ->
  client_encode fuel hp co name args h = CEOk ops ->
  impl (m_id m) (entered_args so m name args) = FRet vs None ->
  gval_ok (shape vs) = true -> is_error_value (shape vs) = false -> results_fit fits rts vs ->
  service_encode fuel hp so (inl (shape vs)) rh = CEOk ops' ->
  invoke' co so svc rh rts name args h =
  (RRes (expected_results zero convert (c_dec co) rts vs), [(m_id m, entered_args so m name args)]).
Proof.
  intros co so svc rh rts name args h ops m vs ops' Hok Hc [Pv Pr Pf Pb] He Hi Hg Hne Hrf Hse.
  rewrite (invoke_steps co so svc rh rts name args h ops m Hok He).
  rewrite (execute_conforming so m name args Hc), Hi. cbn [of_fout outcome_of]. rewrite Hse.
  rewrite (response_roundtrip_values fuel hp io_dec io_dec_hdrs zero convert fits Hval Htuple Hhdrs Hbool
             so co rts vs rh ops' (rk_heap _ _ _ _ _ _ Hok) Hg Pv Pr Pf Pb Hne Hrf Hse).
  reflexivity.
Qed.

(* ---- errors and panics reach the caller as errors with the same message ------------------------------ *)

Theorem error_propagates : forall co so svc rh rts name args h ops m vs e ops',
  request_ok co svc name args h m -> conforms m args -> response_ok so rh ->
  client_encode fuel hp co name args h = CEOk ops ->
  impl (m_id m) (entered_args so m name args) = FRet vs (Some e) ->
  service_encode fuel hp so (inr (EPlain e)) rh = CEOk ops' ->
  invoke' co so svc rh rts name args h =
  (RErr e (bytes_eqb e s_timeout), [(m_id m, entered_args so m name args)]).
Proof.
  intros co so svc rh rts name args h ops m vs e ops' Hok Hc [Pv Pr Pf Pb] He Hi Hse.
  rewrite (invoke_steps co so svc rh rts name args h ops m Hok He).
  rewrite (execute_conforming so m name args Hc), Hi. cbn [of_fout outcome_of]. rewrite Hse.
  rewrite (response_roundtrip_error fuel hp io_dec io_dec_hdrs zero convert fits Hhdrs Hbool
             so co rts (EPlain e) rh ops' (rk_heap _ _ _ _ _ _ Hok) Pv Pr Pf Pb Hse).
  reflexivity.
Qed.

Theorem panic_propagates : forall co so svc rh rts name args h ops m p ops',
  request_ok co svc name args h m -> conforms m args -> response_ok so rh ->
  client_encode fuel hp co name args h = CEOk ops ->
  impl (m_id m) (entered_args so m name args) = FPanic p ->
  service_encode fuel hp so (inr (EPanicE p stack)) rh = CEOk ops' ->
  invoke' co so svc rh rts name args h =
  (RErr (error_text (s_debug so) (EPanicE p stack)) (bytes_eqb (error_text (s_debug so) (EPanicE p stack)) s_timeout),
   [(m_id m, entered_args so m name args)]).
Proof.
  intros co so svc rh rts name args h ops m p ops' Hok Hc [Pv Pr Pf Pb] He Hi Hse.
  rewrite (invoke_steps co so svc rh rts name args h ops m Hok He).
  rewrite (execute_conforming so m name args Hc), Hi. cbn [of_fout outcome_of]. rewrite Hse.
  rewrite (response_roundtrip_error fuel hp io_dec io_dec_hdrs zero convert fits Hhdrs Hbool
             so co rts (EPanicE p stack) rh ops' (rk_heap _ _ _ _ _ _ Hok) Pv Pr Pf Pb Hse).
  reflexivity.
Qed.

(* a call that does not conform to the signature never enters the function and is an error for the caller *)
Theorem arity_mismatch_is_an_error : forall co so svc rh rts name args h ops m ops',
  request_ok co svc name args h m -> response_ok so rh -> m_missing m = false ->
  arity m (length args) <> Eq ->
  client_encode fuel hp co name args h = CEOk ops ->
  (forall msg, service_encode fuel hp so (inr (EPanicE msg stack)) rh = CEOk (ops' msg)) ->
  exists msg t, invoke' co so svc rh rts name args h = (RErr msg t, []).
Proof.
  intros co so svc rh rts name args h ops m ops' Hok [Pv Pr Pf Pb] Hm Ha He Hse.
  rewrite (invoke_steps co so svc rh rts name args h ops m Hok He).
  unfold execute. rewrite Hm, (expected_args_length so m args Hm).
  destruct (arity m (length args)) eqn:Ea; [contradiction| |]; cbn [outcome_of]; rewrite Hse;
    rewrite (response_roundtrip_error fuel hp io_dec io_dec_hdrs zero convert fits Hhdrs Hbool
               so co rts _ rh _ (rk_heap _ _ _ _ _ _ Hok) Pv Pr Pf Pb (Hse _));
    eexists; eexists; reflexivity.
Qed.

(* ---- through a proxy ------------------------------------------------------------------------------- *)

Theorem proxy_equals_local : forall co so svc rh s ns tag field ins args h ops m vs ops',
  plain (strip_ctx (proxy_in (p_variadic s) ins)) = Some args ->
  request_ok co svc (mangle ns tag field) args h m -> conforms m args -> response_ok so rh ->
  client_encode fuel hp co (mangle ns tag field) args h = CEOk ops ->
  impl (m_id m) (entered_args so m (mangle ns tag field) args) = FRet vs None ->
  gval_ok (shape vs) = true -> is_error_value (shape vs) = false -> results_fit fits (p_outs s) vs ->
  service_encode fuel hp so (inl (shape vs)) rh = CEOk ops' ->
  proxy_call fuel hp lower io_dec io_dec_hdrs zero impl stack dec_err_text tr_req tr_resp co so svc rh s ns tag field ins h =
  (let r := expected_results zero convert (c_dec co) (p_outs s) vs in
   let k := Nat.min (length r) (length (p_outs s)) in
   PRet (firstn k r ++ map zero (skipn k (p_outs s))) None,
   [(m_id m, entered_args so m (mangle ns tag field) args)]).
Proof.
  intros co so svc rh s ns tag field ins args h ops m vs ops' Hp Hok Hc Hr He Hi Hg Hne Hrf Hse.
  unfold proxy_call. rewrite Hp.
  rewrite (equals_local co so svc rh (p_outs s) (mangle ns tag field) args h ops m vs ops' Hok Hc Hr He Hi Hg Hne Hrf Hse).
  reflexivity.
Qed.

Theorem proxy_error_propagates : forall co so svc rh s ns tag field ins args h ops m vs e ops',
  plain (strip_ctx (proxy_in (p_variadic s) ins)) = Some args ->
  request_ok co svc (mangle ns tag field) args h m -> conforms m args -> response_ok so rh ->
  client_encode fuel hp co (mangle ns tag field) args h = CEOk ops ->
  impl (m_id m) (entered_args so m (mangle ns tag field) args) = FRet vs (Some e) ->
  service_encode fuel hp so (inr (EPlain e)) rh = CEOk ops' ->
  proxy_call fuel hp lower io_dec io_dec_hdrs zero impl stack dec_err_text tr_req tr_resp co so svc rh s ns tag field ins h =
  ((if p_err s then PRet (map zero (p_outs s)) (Some e) else PPanic e),
   [(m_id m, entered_args so m (mangle ns tag field) args)]).
Proof.
  intros co so svc rh s ns tag field ins args h ops m vs e ops' Hp Hok Hc Hr He Hi Hse.
  unfold proxy_call. rewrite Hp.
  rewrite (error_propagates co so svc rh (p_outs s) (mangle ns tag field) args h ops m vs e ops' Hok Hc Hr He Hi Hse).
  reflexivity.
Qed.

End C08.

(* a nil argument for an interface{} parameter is an ordinary argument: the function is entered with it *)
Theorem nil_interface_argument_enters : forall impl stack m name,
  m_missing m = false -> m_velem m = None -> m_params m = [TIface] ->
  execute impl stack m name [GNil] = of_fout stack (m_id m) [GNil] (impl (m_id m) [GNil]).
Proof.
  intros impl stack m name Hm Hv Hp. unfold execute, arity. rewrite Hm, Hv, Hp. reflexivity.
Qed.

(* a nil result in an interface{} result slot of a proxy is returned as nil *)
Theorem nil_interface_result_returns : forall zero err,
  proxy_out zero {| p_variadic := false; p_outs := [TIface]; p_err := err |} (RRes [GNil]) = PRet [GNil] None.
Proof. reflexivity. Qed.
