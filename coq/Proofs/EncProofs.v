(* Proofs about the encoder model: its output is token-legal, hence readable by the
   independent reader as exactly one value. *)
From Coq Require Import List Arith NArith ZArith Lia Strings.Byte Bool.
From Coq Require Import ZifyN ZifyNat ZifyBool.
From HV Require Import Lib.Dec Lib.Utf8 Model.Wire Model.WireSem Model.Enc Proofs.WireProofs.
Import ListNotations.
Open Scope Z_scope.

(* ---- which values the statement is about ---------------------------------------------
   Oracle premises on the texts produced by the standard library (float syntax, uuid form)
   and on clock fields; strings are either strict UTF-8 or not UTF-8 even structurally
   (the remaining gap is the refuted case below). *)

Definition str_ok (s : bytes) : bool := strict_utf8 s || (go_utf16Length s <? 0).

(* since utf16Length is strict (fix in io/encode.go) every Go string is fine: it is either
   UTF-8 (string tags) or rejected by the scan (written as bytes) *)
Lemma str_ok_all s : str_ok s = true.
Proof.
  unfold str_ok. destruct (strict_utf8 s) eqn:E; [reflexivity|].
  rewrite (go_utf16Length_nonstrict s E). reflexivity.
Qed.

Definition fval_ok (f : fval) : bool := match f with FFin txt => dbl_ok txt | _ => true end.

Fixpoint gval_ok (v : gval) : bool :=
  match v with
  | GFloat f => fval_ok f
  | GComplex re im _ => fval_ok re && fval_ok im
  | GSlice vs | GList vs => forallb gval_ok vs
  | GMap kvs => forallb gval_ok kvs && Nat.even (length kvs)
  | GStruct name fields vs => strict_utf8 name && forallb strict_utf8 fields && forallb gval_ok vs
  | GAnon fields vs => forallb gval_ok vs && (length fields =? length vs)%nat
  | GTime y mo d h mi s ns utc =>
      (0 <=? h) && (h <? 100) && (0 <=? mi) && (mi <? 100) && (0 <=? s) && (s <? 100) &&
      (0 <=? ns) && (ns <? 1000000000)
  | GUuid txt => guid_ok txt
  | GBigFloat txt => dbl_ok txt
  | _ => true
  end.

Definition heap_ok (hp : heap) : bool := forallb (fun av => gval_ok (snd av)) hp.

Lemma hlookup_ok hp a v : heap_ok hp = true -> hlookup hp a = Some v -> gval_ok v = true.
Proof.
  unfold heap_ok. induction hp as [|[a' v'] hp IH]; cbn; [discriminate|].
  intros H. apply andb_prop in H. destruct H as [Hv Hr].
  destruct (N.eqb a a'); [intros E; inversion E; subst; exact Hv | apply IH; exact Hr].
Qed.

(* ---- strings --------------------------------------------------------------------------- *)

Lemma string_wire_ok s : str_ok s = true -> tok_ok (string_wire s) = true.
Proof.
  unfold str_ok, string_wire. intros H. destruct (go_utf16Length s <? 0) eqn:E; [reflexivity|].
  cbn [orb] in H. rewrite orb_false_r in H. exact H.
Qed.

Lemma units_one cs : valid_chars cs -> units cs = 1%N -> exists c, cs = [(c, 1%N)].
Proof.
  intros Hv Hu. destruct cs as [|[c u] cs]; [cbn in Hu; lia|].
  inversion Hv as [|x l Hc Hcs]; subst. cbn [fst snd] in Hc.
  destruct (next_char_shape _ _ _ _ Hc) as (_ & _ & Hu1 & _).
  cbn [units fold_right snd] in Hu. fold (units cs) in Hu.
  destruct cs as [|[c2 u2] cs].
  - cbn in Hu. exists c. f_equal. f_equal. lia.
  - exfalso. inversion Hcs as [|x l Hc2 _]; subst. cbn [fst snd] in Hc2.
    destruct (next_char_shape _ _ _ _ Hc2) as (_ & _ & Hu2 & _).
    cbn [units fold_right snd] in Hu. lia.
Qed.

Lemma char_wire_ok s : str_ok s = true -> go_utf16Length s = 1 -> tok_ok (WChar s) = true.
Proof.
  unfold str_ok. intros H H1. rewrite H1 in H. cbn in H. rewrite orb_false_r in H.
  destruct (strict_chars s H) as (cs & Hcs & Hv & Hcat).
  pose proof (go_utf16Length_strict s cs Hcs) as Hl. rewrite H1 in Hl.
  destruct (units_one cs Hv) as [c Ec]; [lia|]. subst cs.
  inversion Hv as [|x l Hc _]; subst. cbn [fst snd] in Hc.
  unfold cat in Hc |- *. cbn [map concat fst]. rewrite app_nil_r. cbn [tok_ok].
  unfold one_char in Hc. rewrite Hc. reflexivity.
Qed.

Section Mode.
Variable simple : bool.

Lemma enc_string_ok st s st' w : str_ok s = true -> enc_string simple st s = (st', w) -> tok_ok w = true.
Proof.
  unfold enc_string. intros Hs.
  destruct (go_utf16Length s =? 0) eqn:E0; [intros H; inversion H; reflexivity|].
  destruct (go_utf16Length s =? 1) eqn:E1.
  { intros H; inversion H; subst. apply char_wire_ok; [exact Hs | lia]. }
  destruct (lookup_str simple st s); intros H; inversion H; subst; [reflexivity|].
  apply string_wire_ok; exact Hs.
Qed.

Lemma enc_int_ok k z : tok_ok (enc_int k z) = true.
Proof.
  assert (A : forall z, tok_ok (w_int32 z) = true).
  { intros z0. unfold w_int32. destruct ((0 <=? z0) && (z0 <=? 9)) eqn:E; [|reflexivity]. cbn [tok_ok]. lia. }
  assert (B : forall z, 0 <= z -> tok_ok (w_uint16 z) = true).
  { intros z0 Hz. unfold w_uint16. destruct (z0 <=? 9) eqn:E; [|reflexivity]. cbn [tok_ok]. lia. }
  destruct k; cbn [enc_int]; try apply A; try reflexivity.
  - destruct (_ || _); [reflexivity|apply A].
  - destruct (_ >? _); [reflexivity|apply A].
  - unfold w_uint16. destruct (z <=? 9) eqn:E; [|reflexivity]. cbn [tok_ok].
    destruct z; cbn; try reflexivity; lia.
  - unfold w_uint16. destruct (z <=? 9) eqn:E; [|reflexivity]. cbn [tok_ok].
    destruct z; cbn; try reflexivity; lia.
  - destruct (_ >? _); [reflexivity|apply A].
Qed.

Lemma enc_float_ok f : fval_ok f = true -> tok_ok (enc_float f) = true.
Proof. destruct f; cbn; auto. Qed.

Lemma frac_groups_ok ns : 0 <= ns < 1000000000 ->
  (length (frac_groups ns) <= 3)%nat /\ forallb (fun g => (g <? 1000)%N) (frac_groups ns) = true.
Proof.
  intros H. unfold frac_groups. destruct (ns =? 0); [split; [cbn; lia | reflexivity]|].
  set (q1 := ns / 1000000). set (r1 := ns - q1 * 1000000).
  assert (0 <= q1 < 1000) by (unfold q1; split; [apply Z.div_pos; lia | apply Z.div_lt_upper_bound; lia]).
  assert (0 <= r1 < 1000000).
  { unfold r1, q1. pose proof (Z.div_mod ns 1000000 ltac:(lia)). pose proof (Z.mod_pos_bound ns 1000000 ltac:(lia)). lia. }
  destruct (r1 =? 0); [split; [cbn; lia | cbn; rewrite andb_true_r; lia]|].
  set (q2 := r1 / 1000). set (r2 := r1 - q2 * 1000).
  assert (0 <= q2 < 1000) by (unfold q2; split; [apply Z.div_pos; lia | apply Z.div_lt_upper_bound; lia]).
  assert (0 <= r2 < 1000).
  { unfold r2, q2. pose proof (Z.div_mod r1 1000 ltac:(lia)). pose proof (Z.mod_pos_bound r1 1000 ltac:(lia)). lia. }
  destruct (r2 =? 0); split; cbn; try lia.
Qed.

Lemma enc_time_ok y mo d h mi s ns utc w :
  gval_ok (GTime y mo d h mi s ns utc) = true -> enc_time y mo d h mi s ns utc = Some w -> tok_ok w = true.
Proof.
  cbn [gval_ok]. intros H.
  repeat (apply andb_prop in H; destruct H as [H ?]).
  destruct (frac_groups_ok ns ltac:(lia)) as [Hl Hg].
  assert (Ht : time_ok (Z.to_N h) (Z.to_N mi) (Z.to_N s) (frac_groups ns) = true).
  { unfold time_ok. rewrite Hg. apply Nat.leb_le in Hl. rewrite Hl.
    replace (Z.to_N h <? 100)%N with true by lia. replace (Z.to_N mi <? 100)%N with true by lia.
    replace (Z.to_N s <? 100)%N with true by lia. reflexivity. }
  unfold enc_time.
  destruct ((h =? 0) && (mi =? 0) && (s =? 0) && (ns =? 0)).
  - destruct (date_in_range y mo d) eqn:Ed; [|discriminate]. intros E; inversion E; subst.
    unfold date_in_range in Ed. repeat (apply andb_prop in Ed; destruct Ed as [Ed ?]).
    cbn [tok_ok]. replace (Z.to_N y <? 10000)%N with true by lia.
    replace (Z.to_N mo <? 100)%N with true by lia. replace (Z.to_N d <? 100)%N with true by lia. reflexivity.
  - destruct ((y =? 1970) && (mo =? 1) && (d =? 1)).
    + intros E; inversion E; subst. cbn [tok_ok]. exact Ht.
    + destruct (date_in_range y mo d) eqn:Ed; [|discriminate]. intros E; inversion E; subst.
      unfold date_in_range in Ed. repeat (apply andb_prop in Ed; destruct Ed as [Ed ?]).
      cbn [tok_ok]. replace (Z.to_N y <? 10000)%N with true by lia.
      replace (Z.to_N mo <? 100)%N with true by lia. replace (Z.to_N d <? 100)%N with true by lia.
      cbn [andb]. exact Ht.
Qed.

(* ---- sequences ---------------------------------------------------------------------------- *)

Definition rec_ok (rec : estate -> gval -> eres) : Prop :=
  forall st v st' w, gval_ok v = true -> rec st v = EOk st' w -> tok_ok w = true.

Lemma enc_seq_ok rec : rec_ok rec -> forall vs st st' ws,
  forallb gval_ok vs = true -> enc_seq rec st vs = inl (Some (st', ws)) ->
  forallb tok_ok ws = true /\ length ws = length vs.
Proof.
  intros Hrec. induction vs as [|v vs IH]; intros st st' ws Hok H; cbn [enc_seq] in H.
  - inversion H; subst. split; reflexivity.
  - cbn [forallb] in Hok. apply andb_prop in Hok. destruct Hok as [Hv Hvs].
    destruct (rec st v) as [st1 w| |] eqn:E; try discriminate.
    destruct (enc_seq rec st1 vs) as [[[st2 ws']|]|] eqn:E2; try discriminate.
    inversion H; subst. destruct (IH _ _ _ Hvs E2) as [IH1 IH2].
    cbn [forallb length]. rewrite (Hrec _ _ _ _ Hv E), IH1, IH2. split; reflexivity.
Qed.

Lemma enc_seq_inr rec : forall vs st e, enc_seq rec st vs = inr e -> forall st' w, e <> EOk st' w.
Proof.
  induction vs as [|v vs IH]; intros st e H st' w; cbn [enc_seq] in H; [discriminate|].
  destruct (rec st v) as [st1 w1| |] eqn:E.
  - destruct (enc_seq rec st1 vs) as [[[st2 ws']|]|] eqn:E2; try discriminate.
    inversion H; subst. eapply IH; eauto.
  - inversion H; subst. discriminate.
  - inversion H; subst. discriminate.
Qed.

Lemma enc_anon_inr rec : forall fields vs st e,
  enc_anon_fields simple rec st fields vs = inr e -> forall st' w, e <> EOk st' w.
Proof.
  induction fields as [|f fields IH]; intros vs st e H st' w; [destruct vs; discriminate|].
  destruct vs as [|v vs]; [discriminate|]. cbn [enc_anon_fields] in H.
  destruct (enc_string simple st f) as [st1 wf].
  destruct (rec st1 v) as [st2 w2| |] eqn:E.
  - destruct (enc_anon_fields simple rec st2 fields vs) as [[[st3 ws']|]|] eqn:E2; try discriminate.
    inversion H; subst. eapply IH; eauto.
  - inversion H; subst. discriminate.
  - inversion H; subst. discriminate.
Qed.

Lemma enc_anon_ok rec : rec_ok rec -> forall fields vs st st' ws,
  forallb gval_ok vs = true -> length fields = length vs ->
  enc_anon_fields simple rec st fields vs = inl (Some (st', ws)) ->
  forallb tok_ok ws = true /\ Nat.even (length ws) = true.
Proof.
  intros Hrec. induction fields as [|f fields IH]; intros vs st st' ws Hv Hl H.
  - destruct vs; [|discriminate]. cbn in H. inversion H; subst. split; reflexivity.
  - destruct vs as [|v vs]; [discriminate|]. cbn [enc_anon_fields] in H.
    cbn [forallb] in Hv. pose proof (str_ok_all f) as Hf1.
    apply andb_prop in Hv. destruct Hv as [Hv1 Hv2].
    destruct (enc_string simple st f) as [st1 wf] eqn:Es.
    destruct (rec st1 v) as [st2 w| |] eqn:E; try discriminate.
    destruct (enc_anon_fields simple rec st2 fields vs) as [[[st3 ws']|]|] eqn:E2; try discriminate.
    inversion H; subst. cbn [length] in Hl.
    destruct (IH _ _ _ _ Hv2 ltac:(lia) E2) as [IH1 IH2].
    cbn [forallb length]. rewrite (enc_string_ok _ _ _ _ Hf1 Es), (Hrec _ _ _ _ Hv1 E), IH1.
    split; [reflexivity|]. exact IH2.
Qed.

Variable hp : heap.

Lemma enc_body_ok rec r : rec_ok rec -> forall st v st' w,
  gval_ok v = true -> enc_body simple rec r st v = EOk st' w -> tok_ok w = true.
Proof.
  intros Hrec st v st' w Hok H. destruct v; cbn [enc_body] in H; try discriminate.
  - inversion H; reflexivity.
  - destruct (length rows =? 0)%nat; inversion H; subst; [reflexivity|].
    cbn [tok_ok]. clear. induction rows as [|[b|] rows IH]; cbn; auto.
  - cbn [gval_ok] in Hok.
    destruct (enc_seq rec (register simple st r) vs) as [[[st2 ws]|]|] eqn:E; try discriminate.
    + inversion H; subst. cbn [tok_ok]. apply (enc_seq_ok rec Hrec _ _ _ _ Hok E).
    + exfalso. eapply enc_seq_inr; eauto.
  - cbn [gval_ok] in Hok. apply andb_prop in Hok. destruct Hok as [Hok Hev].
    destruct (enc_seq rec (register simple st r) kvs) as [[[st2 ws]|]|] eqn:E; try discriminate.
    + inversion H; subst. cbn [tok_ok]. destruct (enc_seq_ok rec Hrec _ _ _ _ Hok E) as [H1 H2].
      rewrite H1, H2, Hev. reflexivity.
    + exfalso. eapply enc_seq_inr; eauto.
  - cbn [gval_ok] in Hok. apply andb_prop in Hok. destruct Hok as [Hok Hvs].
    apply andb_prop in Hok. destruct Hok as [Hname Hfields].
    destruct (class_lookup st name) as [k|].
    + destruct (enc_seq rec (register simple st r) vs) as [[[st3 ws]|]|] eqn:E; try discriminate.
      * inversion H; subst. cbn [tok_ok]. apply (enc_seq_ok rec Hrec _ _ _ _ Hvs E).
      * exfalso. eapply enc_seq_inr; eauto.
    + destruct (class_define simple st name (N.of_nat (length fields))) as [s' k] eqn:Ec.
      destruct (enc_seq rec (register simple s' r) vs) as [[[st3 ws]|]|] eqn:E; try discriminate.
      * inversion H; subst. cbn [tok_ok]. rewrite Hname, Hfields.
        destruct (enc_seq_ok rec Hrec _ _ _ _ Hvs E) as [H1 _]. rewrite H1. reflexivity.
      * exfalso. eapply enc_seq_inr; eauto.
  - cbn [gval_ok] in Hok. apply andb_prop in Hok. destruct Hok as [Hvs Hl]. apply Nat.eqb_eq in Hl.
    destruct (enc_anon_fields simple rec (register simple st r) fields vs) as [[[st2 ws]|]|] eqn:E; try discriminate.
    + inversion H; subst. cbn [tok_ok]. destruct (enc_anon_ok rec Hrec _ _ _ _ _ Hvs Hl E) as [H1 H2].
      rewrite H1, H2. reflexivity.
    + exfalso. eapply enc_anon_inr; eauto.
  - destruct (enc_time y mo d h mi s ns utc) as [w0|] eqn:E; [|discriminate].
    inversion H; subst. eapply enc_time_ok; eauto.
  - inversion H; subst. cbn [tok_ok]. exact Hok.
  - cbn [gval_ok] in Hok.
    destruct (enc_seq rec (register simple st r) vs) as [[[st2 ws]|]|] eqn:E; try discriminate.
    + inversion H; subst. cbn [tok_ok]. apply (enc_seq_ok rec Hrec _ _ _ _ Hok E).
    + exfalso. eapply enc_seq_inr; eauto.
Qed.

Lemma enc_step_ok rec : heap_ok hp = true -> rec_ok rec -> rec_ok (enc_step simple hp rec).
Proof.
  intros Hh Hrec st v st' w Hok H.
  destruct v; cbn [enc_step] in H;
    try (eapply enc_body_ok; [exact Hrec | exact Hok | exact H]).
  - inversion H; reflexivity.
  - inversion H; subst. destruct b; reflexivity.
  - inversion H; subst. apply enc_int_ok.
  - inversion H; subst. apply enc_float_ok. exact Hok.
  - cbn [gval_ok] in Hok. apply andb_prop in Hok. destruct Hok as [Hre Him].
    destruct im_zero; inversion H; subst; [apply enc_float_ok; exact Hre|].
    cbn [tok_ok forallb]. rewrite (enc_float_ok _ Hre), (enc_float_ok _ Him). reflexivity.
  - destruct (enc_string simple st s) as [st1 w1] eqn:E. inversion H; subst.
    eapply enc_string_ok; [apply str_ok_all | eauto].
  - inversion H; reflexivity.
  - inversion H; subst. cbn [tok_ok]. exact Hok.
  - destruct num; inversion H; subst; [reflexivity|]. apply string_wire_ok. apply str_ok_all.
  - inversion H; subst. cbn [tok_ok]. apply string_wire_ok. apply str_ok_all.
  - destruct (hlookup hp addr) as [pv|] eqn:El; [|discriminate].
    pose proof (hlookup_ok _ _ _ Hh El) as Hpv.
    destruct (tracked pv).
    + destruct (lookup_ptr simple st addr); [inversion H; reflexivity|].
      eapply enc_body_ok; [exact Hrec | exact Hpv | exact H].
    + eapply Hrec; eauto.
Qed.

Theorem enc_tok_ok : forall fuel st v st' w,
  gval_ok v = true -> heap_ok hp = true ->
  enc simple hp fuel st v = EOk st' w -> tok_ok w = true.
Proof.
  intros fuel st v st' w Hok Hh. revert st v st' w Hok.
  induction fuel as [|f IH]; intros st v st' w Hok H; [discriminate|].
  cbn [enc] in H. eapply (enc_step_ok (enc simple hp f) Hh); [|exact Hok|exact H].
  intros st0 v0 st0' w0 Hv0 H0. eapply IH; eauto.
Qed.

Theorem enc_parse_all : forall fuel st v st' w,
  gval_ok v = true -> heap_ok hp = true ->
  enc simple hp fuel st v = EOk st' w -> parse_all (emit w) = Some w.
Proof.
  intros. apply parse_all_emit. eapply enc_tok_ok; eauto.
Qed.

(* the Write entry point: same guarantees (the value is written out instead of looked up) *)
Lemma write_step_ok rec wrec : heap_ok hp = true -> rec_ok rec -> rec_ok wrec ->
  rec_ok (write_step simple hp rec wrec).
Proof.
  intros Hh Hrec Hwrec st v st' w Hok H.
  destruct v; try exact (enc_step_ok rec Hh Hrec st _ st' w Hok H).
  - cbn [write_step] in H. unfold write_string in H. inversion H; subst.
    apply string_wire_ok. apply str_ok_all.
  - cbn [write_step] in H.
    destruct (hlookup hp addr) as [pv|] eqn:El; [|discriminate].
    pose proof (hlookup_ok _ _ _ Hh El) as Hpv.
    destruct (tracked pv).
    + eapply enc_body_ok; [exact Hrec | exact Hpv | exact H].
    + eapply Hwrec; eauto.
Qed.

Theorem enc_write_tok_ok : forall fuel st v st' w,
  gval_ok v = true -> heap_ok hp = true ->
  enc_write simple hp fuel st v = EOk st' w -> tok_ok w = true.
Proof.
  intros fuel st v st' w Hok Hh. revert st v st' w Hok.
  induction fuel as [|f IH]; intros st v st' w Hok H; [discriminate|].
  cbn [enc_write] in H. eapply (write_step_ok (enc simple hp f) (enc_write simple hp f) Hh); [| |exact Hok|exact H].
  - intros st0 v0 st0' w0 Hv0 H0. eapply enc_tok_ok; eauto.
  - intros st0 v0 st0' w0 Hv0 H0. eapply IH; eauto.
Qed.

Theorem enc_write_parse_all : forall fuel st v st' w,
  gval_ok v = true -> heap_ok hp = true ->
  enc_write simple hp fuel st v = EOk st' w -> parse_all (emit w) = Some w.
Proof.
  intros. apply parse_all_emit. eapply enc_write_tok_ok; eauto.
Qed.

End Mode.

(* every Go string goes out either under a string tag with strict UTF-8 content or as bytes *)
Lemma string_tags_only_utf8 simple st s st' w :
  enc_string simple st s = (st', w) -> tok_ok w = true.
Proof. apply enc_string_ok. apply str_ok_all. Qed.

(* ---- encoding is total: the only failure of the encoder model on a closed heap is the
   year-out-of-range time (site 1: Encoder.Error since the fix, a panic before) ------------- *)

Fixpoint ptrs_ok (hp : heap) (v : gval) : bool :=
  match v with
  | GPtr a => match hlookup hp a with Some _ => true | None => false end
  | GSlice vs | GList vs | GMap vs | GStruct _ _ vs | GAnon _ vs => forallb (ptrs_ok hp) vs
  | _ => true
  end.

Definition heap_closed (hp : heap) : bool := forallb (fun av => ptrs_ok hp (snd av)) hp.

Lemma hlookup_closed_gen hp0 : forall hp a v,
  forallb (fun av => ptrs_ok hp0 (snd av)) hp = true -> hlookup hp a = Some v -> ptrs_ok hp0 v = true.
Proof.
  induction hp as [|[a' v'] hp IH]; intros a v H; cbn in *; [discriminate|].
  apply andb_prop in H. destruct H as [Hv Hr].
  destruct (N.eqb a a'); [intros E; inversion E; subst; exact Hv | apply IH; exact Hr].
Qed.

Lemma hlookup_closed hp a v : heap_closed hp = true -> hlookup hp a = Some v -> ptrs_ok hp v = true.
Proof. apply hlookup_closed_gen. Qed.

Section Total.
Variable simple : bool.
Variable hp : heap.

Definition rec_total (rec : estate -> gval -> eres) : Prop :=
  forall st v s, ptrs_ok hp v = true -> rec st v = EPanic s -> s = 1%N.

Lemma enc_seq_total rec : rec_total rec -> forall vs st s,
  forallb (ptrs_ok hp) vs = true -> enc_seq rec st vs = inr (EPanic s) -> s = 1%N.
Proof.
  intros Hrec. induction vs as [|v vs IH]; intros st s Hok H; cbn [enc_seq] in H; [discriminate|].
  cbn [forallb] in Hok. apply andb_prop in Hok. destruct Hok as [Hv Hvs].
  destruct (rec st v) as [st1 w| s1 |] eqn:E.
  - destruct (enc_seq rec st1 vs) as [[[st2 ws']|]|] eqn:E2; try discriminate.
    inversion H; subst. eapply IH; eauto.
  - inversion H; subst. eapply Hrec; eauto.
  - discriminate.
Qed.

Lemma enc_anon_total rec : rec_total rec -> forall fields vs st s,
  forallb (ptrs_ok hp) vs = true -> enc_anon_fields simple rec st fields vs = inr (EPanic s) -> s = 1%N.
Proof.
  intros Hrec. induction fields as [|f fields IH]; intros vs st s Hok H; [destruct vs; discriminate|].
  destruct vs as [|v vs]; [discriminate|]. cbn [enc_anon_fields] in H.
  cbn [forallb] in Hok. apply andb_prop in Hok. destruct Hok as [Hv Hvs].
  destruct (enc_string simple st f) as [st1 wf].
  destruct (rec st1 v) as [st2 w2| s1 |] eqn:E.
  - destruct (enc_anon_fields simple rec st2 fields vs) as [[[st3 ws']|]|] eqn:E2; try discriminate.
    inversion H; subst. eapply IH; eauto.
  - inversion H; subst. eapply Hrec; eauto.
  - discriminate.
Qed.

Lemma enc_body_total rec r : rec_total rec -> forall st v s,
  tracked v = true -> ptrs_ok hp v = true -> enc_body simple rec r st v = EPanic s -> s = 1%N.
Proof.
  intros Hrec st v s Ht Hok H. destruct v; cbn [tracked] in Ht; try discriminate; cbn [enc_body] in H; cbn [ptrs_ok] in Hok.
  - destruct (length rows =? 0)%nat; discriminate.
  - destruct (enc_seq rec (register simple st r) vs) as [[[st2 ws]|]|] eqn:E; try discriminate.
    subst e. eapply enc_seq_total; eauto.
  - destruct (enc_seq rec (register simple st r) kvs) as [[[st2 ws]|]|] eqn:E; try discriminate.
    subst e. eapply enc_seq_total; eauto.
  - destruct (class_lookup st name) as [k|].
    + destruct (enc_seq rec (register simple st r) vs) as [[[st3 ws]|]|] eqn:E; try discriminate.
      subst e. eapply enc_seq_total; eauto.
    + destruct (class_define simple st name (N.of_nat (length fields))) as [s' k].
      destruct (enc_seq rec (register simple s' r) vs) as [[[st3 ws]|]|] eqn:E; try discriminate.
      subst e. eapply enc_seq_total; eauto.
  - destruct (enc_anon_fields simple rec (register simple st r) fields vs) as [[[st2 ws]|]|] eqn:E; try discriminate.
    subst e. eapply enc_anon_total; eauto.
  - destruct (enc_time y mo d h mi s0 ns utc); [discriminate|]. inversion H; reflexivity.
  - destruct (enc_seq rec (register simple st r) vs) as [[[st2 ws]|]|] eqn:E; try discriminate.
    subst e. eapply enc_seq_total; eauto.
Qed.

Lemma enc_step_total rec : heap_closed hp = true -> rec_total rec -> rec_total (enc_step simple hp rec).
Proof.
  intros Hh Hrec st v s Hok H.
  destruct v as [ | b | k z | fv | re im imz | str | bs | rows | vs | kvs | name fields vs | fields vs
                 | y mo d h mi sec ns utc | txt | z | txt | num txt | vs | msg | addr ];
    cbn [enc_step] in H;
    try (match type of H with enc_body _ _ _ _ ?v0 = _ => exact (enc_body_total rec ByCount Hrec st v0 s eq_refl Hok H) end);
    try discriminate.
  - destruct imz; discriminate.
  - destruct (enc_string simple st str); discriminate.
  - destruct num; discriminate.
  - cbn [ptrs_ok] in Hok. destruct (hlookup hp addr) as [pv|] eqn:El; [|discriminate].
    pose proof (hlookup_closed _ _ _ Hh El) as Hpv.
    destruct (tracked pv) eqn:Ht.
    + destruct (lookup_ptr simple st addr); [discriminate|].
      eapply enc_body_total; eauto.
    + eapply Hrec; eauto.
Qed.

Theorem enc_total : forall fuel st v s,
  heap_closed hp = true -> ptrs_ok hp v = true ->
  enc simple hp fuel st v = EPanic s -> s = 1%N.
Proof.
  intros fuel st v s Hh. revert st v s.
  induction fuel as [|f IH]; intros st v s Hok H; [discriminate|].
  cbn [enc] in H. eapply (enc_step_total (enc simple hp f) Hh); [|exact Hok|exact H].
  intros st0 v0 s0 Hv0 H0. eapply IH; eauto.
Qed.

Lemma write_step_total rec wrec : heap_closed hp = true -> rec_total rec -> rec_total wrec ->
  rec_total (write_step simple hp rec wrec).
Proof.
  intros Hh Hrec Hwrec st v s Hok H.
  destruct v; try exact (enc_step_total rec Hh Hrec st _ s Hok H).
  - cbn [write_step] in H. unfold write_string in H. discriminate.
  - cbn [write_step] in H. cbn [ptrs_ok] in Hok.
    destruct (hlookup hp addr) as [pv|] eqn:El; [|discriminate].
    pose proof (hlookup_closed _ _ _ Hh El) as Hpv.
    destruct (tracked pv) eqn:Ht.
    + exact (enc_body_total rec (ByPtr addr) Hrec st pv s Ht Hpv H).
    + eapply Hwrec; eauto.
Qed.

Theorem enc_write_total : forall fuel st v s,
  heap_closed hp = true -> ptrs_ok hp v = true ->
  enc_write simple hp fuel st v = EPanic s -> s = 1%N.
Proof.
  intros fuel st v s Hh. revert st v s.
  induction fuel as [|f IH]; intros st v s Hok H; [discriminate|].
  cbn [enc_write] in H.
  eapply (write_step_total (enc simple hp f) (enc_write simple hp f) Hh); [| |exact Hok|exact H].
  - intros st0 v0 s0 Hv0 H0. eapply enc_total; eauto.
  - intros st0 v0 s0 Hv0 H0. eapply IH; eauto.
Qed.

End Total.
