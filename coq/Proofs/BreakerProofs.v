(* Proofs about Model/Breaker.v (C20). *)
From Coq Require Import List ZArith Bool Lia.
From HV Require Import Model.Breaker.
Import ListNotations.
Open Scope Z_scope.
Local Arguments Z.shiftr : simpl never.

Lemma gtb_spec (a b : Z) : (a >? b) = true <-> a > b.
Proof. rewrite Z.gtb_ltb, Z.ltb_lt. lia. Qed.

Lemma gtb_false (a b : Z) : (a >? b) = false <-> a <= b.
Proof. rewrite Z.gtb_ltb, Z.ltb_ge. lia. Qed.

(* --- single-step facts ------------------------------------------------ *)

Lemma open_rejects c s n0 n1 o :
  fail s > threshold c -> n0 - last s < recover c ->
  io_step c s n0 n1 o = (s, Rejected).
Proof.
  intros Hf Ht. unfold io_step.
  apply gtb_spec in Hf. apply Z.ltb_lt in Ht. rewrite Hf, Ht. reflexivity.
Qed.

Lemma closed_forwards c s n0 n1 o :
  fail s <= threshold c -> snd (io_step c s n0 n1 o) = Forwarded o.
Proof.
  intros Hf. unfold io_step. apply gtb_false in Hf. rewrite Hf. cbn.
  destruct o; reflexivity.
Qed.

Lemma recovers c s n0 n1 o :
  fail s > threshold c -> recover c <= n0 - last s ->
  snd (io_step c s n0 n1 o) = Forwarded o.
Proof.
  intros Hf Ht. unfold io_step. apply gtb_spec in Hf. apply Z.ltb_ge in Ht.
  rewrite Hf, Ht. cbn. destruct o; reflexivity.
Qed.

Lemma rejected_iff c s n0 n1 o :
  snd (io_step c s n0 n1 o) = Rejected <->
  (fail s > threshold c /\ n0 - last s < recover c).
Proof.
  unfold io_step. destruct (fail s >? threshold c) eqn:Hf; cbn.
  - destruct (n0 - last s <? recover c) eqn:Ht; cbn.
    + apply gtb_spec in Hf. apply Z.ltb_lt in Ht. tauto.
    + apply Z.ltb_ge in Ht. split; [destruct o; discriminate | lia].
  - apply gtb_false in Hf. split; [destruct o; discriminate | lia].
Qed.

Lemma rejected_state_unchanged c s n0 n1 o :
  snd (io_step c s n0 n1 o) = Rejected -> fst (io_step c s n0 n1 o) = s.
Proof.
  intros H. apply rejected_iff in H. destruct H as [Hf Ht].
  rewrite (open_rejects c s n0 n1 o Hf Ht). reflexivity.
Qed.

Lemma success_resets c s n0 n1 :
  snd (io_step c s n0 n1 OOk) = Forwarded OOk -> fail (fst (io_step c s n0 n1 OOk)) = 0.
Proof.
  unfold io_step. destruct (_ && _); cbn; [discriminate | reflexivity].
Qed.

Lemma failure_counts c s n0 n1 o :
  o <> OOk -> fail s <= threshold c ->
  io_step c s n0 n1 o = ({| fail := fail s + 1; last := n1 |}, Forwarded o).
Proof.
  intros Ho Hf. unfold io_step. apply gtb_false in Hf. rewrite Hf. cbn.
  destruct o; [congruence | reflexivity | reflexivity].
Qed.

(* --- k consecutive failures from a closed breaker -------------------- *)

Definition fail_event (e : event) : Prop := snd e <> OOk.

Lemma consecutive_failures c : forall (h : list event) s,
  Forall fail_event h -> fail s + Z.of_nat (length h) <= threshold c + 1 ->
  let '(ds, s') := run_dec c s h in
  ds = map (fun e => Forwarded (snd e)) h /\
  fail s' = fail s + Z.of_nat (length h).
Proof.
  induction h as [|[[n0 n1] o] h IH]; intros s HF Hlen.
  - cbn. split; [reflexivity | lia].
  - cbn [run_dec]. inversion HF as [|e l Hfe HF']; subst.
    unfold fail_event in Hfe; cbn in Hfe.
    cbn [length] in Hlen.
    rewrite (failure_counts c s n0 n1 o Hfe) by lia.
    specialize (IH {| fail := fail s + 1; last := n1 |} HF').
    cbn [fail] in IH.
    destruct (run_dec c {| fail := fail s + 1; last := n1 |} h) as [ds s'].
    destruct IH as [IH1 IH2]; [lia|].
    split; [cbn; f_equal; exact IH1 | cbn [length]; lia].
Qed.

Lemma opens_after c (h : list event) :
  0 <= threshold c -> Forall fail_event h ->
  Z.of_nat (length h) <= threshold c + 1 ->
  let '(ds, s') := run_dec c init h in
  ds = map (fun e => Forwarded (snd e)) h /\
  fail s' = Z.of_nat (length h) /\
  ((fail s' >? threshold c) = (Z.of_nat (length h) >? threshold c)).
Proof.
  intros Ht HF Hlen.
  pose proof (consecutive_failures c h init HF) as H. cbn [fail init] in H.
  destruct (run_dec c init h) as [ds s']. destruct H as [H1 H2]; [lia|].
  split; [exact H1|]. split; [lia|]. rewrite H2. reflexivity.
Qed.

(* --- refinement of the specification machine -------------------------- *)

Lemma step_refines c s n0 n1 o :
  0 <= threshold c ->
  let '(s', d) := io_step c s n0 n1 o in
  spec_step c (abs c s) n0 n1 o = (abs c s', d).
Proof.
  intros Ht. unfold io_step, abs.
  destruct (fail s >? threshold c) eqn:Hf; cbn [andb spec_step].
  - destruct (n0 - last s <? recover c) eqn:Hr.
    + rewrite Hf. reflexivity.
    + destruct o; cbn [fail last].
      * assert (H0 : (0 >? threshold c) = false) by (apply gtb_false; lia).
        rewrite H0. reflexivity.
      * unfold spec_after_fail. destruct (_ >? _); reflexivity.
      * unfold spec_after_fail. destruct (_ >? _); reflexivity.
  - destruct o; cbn [fail last].
    + assert (H0 : (0 >? threshold c) = false) by (apply gtb_false; lia).
      rewrite H0. reflexivity.
    + unfold spec_after_fail. destruct (_ >? _); reflexivity.
    + unfold spec_after_fail. destruct (_ >? _); reflexivity.
Qed.

Lemma run_refines c : 0 <= threshold c -> forall h s,
  let '(ds, s') := run_dec c s h in
  spec_run c (abs c s) h = (ds, abs c s').
Proof.
  intros Ht. induction h as [|[[n0 n1] o] h IH]; intros s.
  - reflexivity.
  - cbn [run_dec spec_run].
    pose proof (step_refines c s n0 n1 o Ht) as Hs.
    destruct (io_step c s n0 n1 o) as [s1 d]. rewrite Hs.
    specialize (IH s1). destruct (run_dec c s1 h) as [ds s2]. rewrite IH. reflexivity.
Qed.

(* --- the spec machine itself says what the property says -------------- *)

(* Open: reject exactly while the recovery time has not elapsed *)
Lemma spec_open_rejects c since n0 n1 o :
  n0 - since < recover c -> spec_step c (Open since) n0 n1 o = (Open since, Rejected).
Proof. intros H. cbn. apply Z.ltb_lt in H. rewrite H. reflexivity. Qed.

Lemma spec_closed_forwards c k n0 n1 o :
  snd (spec_step c (Closed k) n0 n1 o) = Forwarded o.
Proof. destruct o; reflexivity. Qed.

(* --- mock service ----------------------------------------------------- *)

Lemma mock_iff_break c s n0 n1 o :
  let r := snd (call c s n0 n1 o) in
  (r = RMock <-> has_mock c = true /\ snd (io_step c s n0 n1 o) = Rejected) /\
  (r = RBreak <-> has_mock c = false /\ snd (io_step c s n0 n1 o) = Rejected) /\
  (forall o', r = RDown o' <-> snd (io_step c s n0 n1 o) = Forwarded o').
Proof.
  unfold call. destruct (io_step c s n0 n1 o) as [s' d]. cbn.
  destruct d as [|o0]; destruct (has_mock c); cbn;
    repeat split; intros; try congruence; try tauto;
    try (destruct H; congruence).
Qed.

Lemma run_dec_call c : forall h s,
  fst (run c s h) =
  map (fun d => match d with
                | Rejected => if has_mock c then RMock else RBreak
                | Forwarded o => RDown o end) (fst (run_dec c s h))
  /\ snd (run c s h) = snd (run_dec c s h).
Proof.
  induction h as [|[[n0 n1] o] h IH]; intros s; [split; reflexivity|].
  cbn [run run_dec]. unfold call.
  destruct (io_step c s n0 n1 o) as [s1 d].
  specialize (IH s1). destruct (run c s1 h) as [rs s2]. destruct (run_dec c s1 h) as [ds s3].
  cbn in *. destruct IH as [-> ->]. split; reflexivity.
Qed.

(* the downstream handler is invoked exactly for the forwarded calls *)
Definition invocations (ds : list decision) : nat :=
  length (filter (fun d => match d with Forwarded _ => true | _ => false end) ds).

(* --- fail counter is never negative ----------------------------------- *)
Lemma fail_nonneg c s n0 n1 o :
  0 <= threshold c -> 0 <= fail s -> 0 <= fail (fst (io_step c s n0 n1 o)).
Proof.
  intros Ht Hs. unfold io_step.
  destruct (fail s >? threshold c) eqn:Hf; cbn [andb].
  - destruct (_ <? _); cbn; [exact Hs|].
    pose proof (proj2 (Z.shiftr_nonneg (threshold c) 1) Ht).
    destruct o; cbn [fst fail]; lia.
  - destruct o; cbn; lia.
Qed.

(* --- concurrent callers ------------------------------------------------ *)

(* Every rejection is justified by what the rejected thread itself read:
   at its first step the shared counter exceeded the threshold, and at its
   second step the recovery time had not elapsed since the stored last
   failure time.  Proved for every schedule by an invariant over the pcs. *)

Definition pc_ok (c : cfg) (t : thread) : Prop :=
  match tpc t with
  | PDone (Forwarded o) => o = tout t
  | PSettleOk => tout t = OOk
  | _ => True
  end.

Lemma tstep_pc_ok c s t now s' t' :
  pc_ok c t -> tstep c s t now = Some (s', t') -> pc_ok c t' /\ tout t' = tout t.
Proof.
  unfold tstep, pc_ok. intros Hok H.
  destruct (tpc t) eqn:E; inversion H; subst; clear H; cbn; split; try reflexivity; try exact I.
  - destruct (_ >? _); exact I.
  - destruct (_ <? _); exact I.
  - destruct (tout t); try exact I; reflexivity.
  - symmetry; exact Hok.
Qed.

Lemma nth_error_upd_nth_same {A} (l : list A) : forall n x,
  (n < length l)%nat -> nth_error (upd_nth n x l) n = Some x.
Proof.
  induction l as [|y l IH]; intros n x Hn; [cbn in Hn; lia|].
  destruct n; cbn; [reflexivity|]. apply IH. cbn in Hn. lia.
Qed.

Lemma nth_error_upd_nth_other {A} (l : list A) : forall n m x,
  n <> m -> nth_error (upd_nth n x l) m = nth_error l m.
Proof.
  induction l as [|y l IH]; intros n m x Hnm; [destruct n; reflexivity|].
  destruct n, m; cbn; try reflexivity; try congruence. apply IH. congruence.
Qed.

Lemma cstep_preserves c cs i now cs' :
  Forall (pc_ok c) (threads cs) -> cstep c cs i now = Some cs' ->
  Forall (pc_ok c) (threads cs').
Proof.
  unfold cstep. intros Hall H.
  destruct (nth_error (threads cs) i) as [t|] eqn:Hn; [|discriminate].
  destruct (tstep c (shared cs) t now) as [[s' t']|] eqn:Ht; [|discriminate].
  inversion H; subst; clear H. cbn.
  assert (Hok : pc_ok c t).
  { rewrite Forall_forall in Hall. apply Hall. eapply nth_error_In; eauto. }
  destruct (tstep_pc_ok c _ _ _ _ _ Hok Ht) as [Hok' _].
  clear Hn Ht Hok. revert i. induction Hall as [|x l Hx Hl IH]; intros i;
    [destruct i; constructor|].
  destruct i; cbn; constructor; auto.
Qed.

Lemma crun_preserves c : forall sched cs cs',
  Forall (pc_ok c) (threads cs) -> crun c cs sched = Some cs' ->
  Forall (pc_ok c) (threads cs').
Proof.
  induction sched as [|[i now] r IH]; intros cs cs' Hall H; cbn in H.
  - inversion H; subst; exact Hall.
  - destruct (cstep c cs i now) as [cs1|] eqn:E; [|discriminate].
    eapply IH; [|exact H]. eapply cstep_preserves; eauto.
Qed.

(* the shared counter never goes negative under any schedule *)
Lemma tstep_fail_nonneg c s t now s' t' :
  0 <= threshold c -> 0 <= fail s -> tstep c s t now = Some (s', t') -> 0 <= fail s'.
Proof.
  intros Ht Hs H. unfold tstep in H.
  pose proof (proj2 (Z.shiftr_nonneg (threshold c) 1) Ht).
  destruct (tpc t); inversion H; subst; clear H; cbn [fail]; lia.
Qed.

Lemma crun_fail_nonneg c : 0 <= threshold c -> forall sched cs cs',
  0 <= fail (shared cs) -> crun c cs sched = Some cs' -> 0 <= fail (shared cs').
Proof.
  intros Ht. induction sched as [|[i now] r IH]; intros cs cs' Hs H; cbn in H.
  - inversion H; subst; exact Hs.
  - unfold cstep in H.
    destruct (nth_error (threads cs) i) as [t|]; [|discriminate].
    destruct (tstep c (shared cs) t now) as [[s1 t1]|] eqn:E; [|discriminate].
    eapply IH; [|exact H]. cbn. eapply tstep_fail_nonneg; eauto.
Qed.

(* A single thread run alone (no interleaving) takes exactly the sequential step:
   the LTS is a refinement of [io_step] into its atomic operations. *)
Fixpoint trun (c : cfg) (s : st) (t : thread) (n0 n1 : Z) (fuel : nat) : st * thread :=
  match fuel with
  | O => (s, t)
  | S k =>
      let now := match tpc t with PSettleFailTime => n1 | _ => n0 end in
      match tstep c s t now with
      | None => (s, t)
      | Some (s', t') => trun c s' t' n0 n1 k
      end
  end.

Lemma solo_is_sequential c s n0 n1 o :
  let '(s', t') := trun c s {| tpc := PStart; tout := o |} n0 n1 7 in
  let '(s2, d) := io_step c s n0 n1 o in
  tpc t' = PDone d /\ s' = s2.
Proof.
  unfold io_step. cbn [trun tstep tpc tout].
  destruct (fail s >? threshold c) eqn:Hf; cbn [trun tstep tpc tout andb].
  - destruct (n0 - last s <? recover c) eqn:Hr; cbn [trun tstep tpc tout].
    + split; reflexivity.
    + destruct o; cbn [trun tstep tpc tout fail last]; split; try reflexivity.
  - destruct o; cbn [trun tstep tpc tout fail last]; split; try reflexivity;
      destruct s; reflexivity.
Qed.

(* The clock arithmetic of the model is over Z; the code computes [now - lastFailTime] in int64.
   For clock readings in the int64 range with [last <= now] (lastFailTime is an earlier reading of
   the same clock, or 0) the subtraction cannot wrap, so the int64 result IS the model's. *)
Definition wrap64 (z : Z) : Z := (z + 2^63) mod 2^64 - 2^63.

Lemma interval_does_not_wrap : forall now lastf,
  0 <= lastf <= now -> now < 2^63 -> wrap64 (now - lastf) = now - lastf.
Proof.
  intros now lastf H Hn. unfold wrap64.
  rewrite Z.mod_small; lia.
Qed.

(* the alternative formulation [now < last + recover] (an absolute deadline) is NOT safe in int64 *)
Lemma deadline_form_wraps : exists now lastf rec,
  0 <= lastf <= now /\ now < 2^63 /\ 0 <= rec < 2^63 /\
  (now - lastf <? rec) = true /\ (now <? wrap64 (lastf + rec)) = false.
Proof.
  exists 1000, 1000, (2^63 - 1). vm_compute. repeat split; congruence.
Qed.
