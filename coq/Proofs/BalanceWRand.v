(* WeightedRandom (C18): the rand value r selects server i exactly when r lies in i's
   interval of length eff_i; index validity and effective-weight bounds for every history. *)
From Coq Require Import List ZArith Bool Lia.
From HV Require Import Model.Balance Proofs.BalanceBase Proofs.BalanceEff.
Import ListNotations.
Open Scope Z_scope.

Lemma in_firstn {A} : forall p (l : list A) y, In y (firstn p l) -> In y l.
Proof.
  induction p as [|p IH]; intros [|x l] y H; cbn in H; try contradiction.
  destruct H as [<-|H]; [left; reflexivity|right; apply IH; exact H].
Qed.

Lemma lsum_firstn_le : forall (l : list Z) p, Forall (fun x => 0 <= x) l -> lsum (firstn p l) <= lsum l.
Proof.
  induction l as [|x l IH]; intros [|p] H; cbn [firstn]; unfold lsum in *; cbn [fold_right]; try lia.
  - inversion H; subst. assert (0 <= lsum l) by (apply lsum_nonneg; assumption). unfold lsum in *. lia.
  - inversion H; subst. specialize (IH p ltac:(assumption)). lia.
Qed.

Lemma lsum_firstn_succ : forall (l : list Z) p e, nth_error l p = Some e -> Forall (fun x => 0 <= x) l ->
  lsum (firstn p l) + e <= lsum l.
Proof.
  induction l as [|x l IH]; intros [|p] e He H; cbn in He; try discriminate; inversion H; subst.
  - injection He as ->. cbn [firstn]. assert (0 <= lsum l) by (apply lsum_nonneg; assumption).
    unfold lsum in *. cbn [fold_right]. lia.
  - cbn [firstn]. specialize (IH p e He ltac:(assumption)). unfold lsum in *. cbn [fold_right]. lia.
Qed.

(* the scan of getIndex *)
Lemma wr_scan_hit : forall eff i0 cw d, Forall (fun x => 0 <= x) eff -> 0 <= cw < lsum eff ->
  exists p e, nth_error eff p = Some e /\ wr_scan eff i0 cw d = (i0 + p)%nat /\
              lsum (firstn p eff) <= cw < lsum (firstn p eff) + e.
Proof.
  induction eff as [|x eff IH]; intros i0 cw d H Hc.
  - unfold lsum in Hc. cbn in Hc. lia.
  - inversion H; subst. cbn [wr_scan]. destruct (cw - x <? 0) eqn:E; [apply Z.ltb_lt in E|apply Z.ltb_ge in E].
    + exists O, x. split; [reflexivity|]. split; [lia|]. cbn [firstn]. unfold lsum. cbn. lia.
    + destruct (IH (S i0) (cw - x) d ltac:(assumption)) as (p & e & He & Hs & Hi).
      { unfold lsum in *. cbn [fold_right] in Hc. lia. }
      exists (S p), e. split; [exact He|]. split; [lia|]. cbn [firstn]. unfold lsum in *. cbn [fold_right]. lia.
Qed.

Lemma wr_scan_interval : forall eff i0 cw d p e, Forall (fun x => 0 <= x) eff ->
  nth_error eff p = Some e -> lsum (firstn p eff) <= cw < lsum (firstn p eff) + e ->
  wr_scan eff i0 cw d = (i0 + p)%nat.
Proof.
  induction eff as [|x eff IH]; intros i0 cw d [|p] e H He Hc; cbn in He; try discriminate; inversion H; subst.
  - injection He as ->. cbn [firstn] in Hc. unfold lsum in Hc. cbn in Hc. cbn [wr_scan].
    assert (E : (cw - e <? 0) = true) by (apply Z.ltb_lt; lia). rewrite E. lia.
  - cbn [firstn] in Hc. unfold lsum in Hc. cbn [fold_right] in Hc. fold (lsum (firstn p eff)) in Hc.
    assert (0 <= lsum (firstn p eff)).
    { apply lsum_nonneg. apply Forall_forall. intros y Hy. rewrite Forall_forall in H3. apply H3.
      eapply in_firstn. exact Hy. }
    cbn [wr_scan]. assert (E : (cw - x <? 0) = false) by (apply Z.ltb_ge; lia). rewrite E.
    rewrite (IH (S i0) (cw - x) d p e); [lia|assumption|exact He|lia].
Qed.

(* ---- getIndex ------------------------------------------------------------------ *)
Definition nonneg (eff : list Z) : Prop := Forall (fun x => 0 <= x) eff.

Lemma eff_ok_nonneg W eff : eff_ok W eff -> nonneg eff.
Proof.
  intros [Hl Hb]. apply Forall_forall. intros x Hx. destruct (In_nth_error _ _ Hx) as [j Hj].
  destruct (nth_error W j) as [w|] eqn:Ew.
  - specialize (Hb j x w Hj Ew). lia.
  - apply nth_error_None in Ew. assert (j < length eff)%nat by (apply nth_error_Some; congruence). lia.
Qed.

(* With a positive total, the value r drawn by rand.Int63n(total) selects server i exactly
   when it falls in the interval [eff_0+..+eff_(i-1), eff_0+..+eff_i): an interval of length
   eff_i, so the share of server i is eff_i / total. *)
Lemma wr_get_interval eff r : nonneg eff -> 0 < lsum eff -> 0 <= r < lsum eff ->
  exists i e, wr_get eff r = Ok i /\ nth_error eff i = Some e /\
              lsum (firstn i eff) <= r < lsum (firstn i eff) + e.
Proof.
  intros Hn Ht Hr. unfold wr_get. rewrite zsum_lsum.
  assert (E1 : (lsum eff <=? 0) = false) by (apply Z.leb_gt; lia). rewrite E1.
  assert (E2 : in_range (lsum eff) r = true) by (apply in_range_spec; lia). rewrite E2.
  destruct (wr_scan_hit eff 0 r (length eff - 1) Hn Hr) as (p & e & He & Hs & Hi).
  exists p, e. rewrite Hs. auto.
Qed.

Lemma wr_get_of_interval eff r i e : nonneg eff -> nth_error eff i = Some e ->
  lsum (firstn i eff) <= r < lsum (firstn i eff) + e -> wr_get eff r = Ok i.
Proof.
  intros Hn He Hr.
  assert (0 <= lsum (firstn i eff)).
  { apply lsum_nonneg. apply Forall_forall. intros y Hy. unfold nonneg in Hn. rewrite Forall_forall in Hn.
    apply Hn. eapply in_firstn. exact Hy. }
  pose proof (lsum_firstn_succ eff i e He Hn) as Hle.
  unfold wr_get. rewrite zsum_lsum.
  assert (E1 : (lsum eff <=? 0) = false) by (apply Z.leb_gt; lia). rewrite E1.
  assert (E2 : in_range (lsum eff) r = true) by (apply in_range_spec; lia). rewrite E2.
  rewrite (wr_scan_interval eff 0 r _ i e Hn He Hr). reflexivity.
Qed.

(* ---- admissible set: sound and complete ------------------------------------------ *)
Lemma in_positive_indexes eff i : In i (positive_indexes eff) <-> exists e, nth_error eff i = Some e /\ 0 < e.
Proof.
  unfold positive_indexes. rewrite filter_In, in_seq. split.
  - intros [_ H]. destruct (nth_error eff i) as [e|]; [|discriminate]. exists e. split; [reflexivity|].
    apply Z.ltb_lt. exact H.
  - intros (e & He & Hp). split.
    + split; [lia|]. cbn. apply nth_error_Some. congruence.
    + rewrite He. apply Z.ltb_lt. exact Hp.
Qed.

Lemma wr_pick_sound eff r : nonneg eff -> (1 <= length eff)%nat ->
  match wr_pick eff r with
  | Ok (i, eff') => eff' = eff /\ (i < length eff)%nat /\
                    exists adm, wr_admissible eff = Ok adm /\ In i adm
  | BadScript => True
  | _ => False
  end.
Proof.
  intros Hn Hl. unfold wr_pick.
  destruct (Z_le_gt_dec (lsum eff) 0) as [Hle|Hgt].
  - unfold wr_get, wr_admissible. rewrite zsum_lsum.
    assert (E1 : (lsum eff <=? 0) = true) by (apply Z.leb_le; lia). rewrite E1.
    pose proof (rand_intn_cases (length eff) r) as H.
    destruct (rand_intn (length eff) r) as [i| | |]; cbn [bind]; try exact I; try lia; try exact H.
    destruct H as [Hi _]. unfold url_at_nat. apply Nat.ltb_lt in Hi. rewrite Hi. apply Nat.ltb_lt in Hi.
    cbn [bind]. split; [reflexivity|]. split; [exact Hi|].
    assert (E0 : Nat.eqb (length eff) 0 = false) by (apply Nat.eqb_neq; lia). rewrite E0.
    eexists. split; [reflexivity|]. apply in_seq. lia.
  - destruct (Z_lt_le_dec r 0) as [Hr0|Hr0]; [|destruct (Z_lt_le_dec r (lsum eff)) as [Hr1|Hr1]].
    + unfold wr_get. rewrite zsum_lsum.
      assert (E1 : (lsum eff <=? 0) = false) by (apply Z.leb_gt; lia). rewrite E1.
      assert (E2 : in_range (lsum eff) r = false).
      { destruct (in_range (lsum eff) r) eqn:E; [apply in_range_spec in E; lia|reflexivity]. }
      rewrite E2. exact I.
    + destruct (wr_get_interval eff r Hn ltac:(lia) ltac:(lia)) as (i & e & Hg & He & Hi).
      rewrite Hg. cbn [bind]. assert (Hlt : (i < length eff)%nat) by (apply nth_error_Some; congruence).
      unfold url_at_nat. apply Nat.ltb_lt in Hlt. rewrite Hlt. apply Nat.ltb_lt in Hlt. cbn [bind].
      split; [reflexivity|]. split; [exact Hlt|]. unfold wr_admissible. rewrite zsum_lsum.
      assert (E1 : (lsum eff <=? 0) = false) by (apply Z.leb_gt; lia). rewrite E1.
      eexists. split; [reflexivity|]. apply in_positive_indexes. exists e. split; [exact He|lia].
    + unfold wr_get. rewrite zsum_lsum.
      assert (E1 : (lsum eff <=? 0) = false) by (apply Z.leb_gt; lia). rewrite E1.
      assert (E2 : in_range (lsum eff) r = false).
      { destruct (in_range (lsum eff) r) eqn:E; [apply in_range_spec in E; lia|reflexivity]. }
      rewrite E2. exact I.
Qed.

Lemma wr_pick_complete eff adm i : nonneg eff -> wr_admissible eff = Ok adm -> In i adm ->
  wr_pick eff (wr_oracle eff i) = Ok (i, eff).
Proof.
  intros Hn Ha Hi. unfold wr_admissible, wr_oracle, wr_pick in *. rewrite zsum_lsum in *.
  destruct (lsum eff <=? 0) eqn:E1.
  - destruct (Nat.eqb (length eff) 0) eqn:E0; [discriminate|]. injection Ha as <-.
    apply in_seq in Hi. unfold wr_get. rewrite zsum_lsum, E1. unfold rand_intn. rewrite E0.
    assert (E2 : in_range (Z.of_nat (length eff)) (Z.of_nat i) = true) by (apply in_range_spec; lia).
    rewrite E2, Nat2Z.id. cbn [bind]. unfold url_at_nat.
    assert (E3 : Nat.ltb i (length eff) = true) by (apply Nat.ltb_lt; lia). rewrite E3. reflexivity.
  - injection Ha as <-. apply in_positive_indexes in Hi. destruct Hi as (e & He & Hp).
    rewrite (wr_get_of_interval eff _ i e Hn He) by (unfold lsum; lia). cbn [bind]. unfold url_at_nat.
    assert (E3 : Nat.ltb i (length eff) = true) by (apply Nat.ltb_lt; apply nth_error_Some; congruence).
    rewrite E3. reflexivity.
Qed.

(* ---- every history ------------------------------------------------------------------ *)
Lemma wrand_history_valid ws : ws <> [] -> Forall (fun w => 0 < w) ws -> forall h,
  match run (wrand_machine ws) ws [] h with
  | Ok (ps, (eff, _)) => Forall (fun i => (i < length ws)%nat) ps /\ eff_ok ws eff
  | BadScript => True
  | _ => False
  end.
Proof.
  intros Hne Hpos h.
  assert (Hn : (1 <= length ws)%nat) by (destruct ws; [congruence|cbn; lia]).
  pose proof (run_safe (wrand_machine ws) (fun eff calls => eff_ok ws eff /\ calls_lt (length ws) calls) (length ws)) as R.
  specialize (R ltac:(
    intros eff calls r [HI Hc]; cbn [m_pick wrand_machine];
    pose proof (wr_pick_sound eff r (eff_ok_nonneg ws eff HI) ltac:(destruct HI as [Hl _]; lia)) as H;
    destruct (wr_pick eff r) as [[i eff']| | |]; try exact H;
    destruct H as (-> & Hi & _); destruct HI as [Hl Hb];
    split; [lia|]; split; [split; assumption|apply calls_lt_app; [exact Hc|lia]])).
  specialize (R ltac:(
    intros eff calls k i o [HI Hc] Hk; cbn [m_settle wrand_machine]; unfold wr_settle;
    destruct (eff_update_ok ws eff i o HI (Hc k i Hk)) as (e & w & eff' & _ & _ & E & HI' & _); rewrite E;
    split; [exact HI'|apply calls_lt_upd; exact Hc])).
  specialize (R h ws [] ltac:(split; [apply eff_ok_init; exact Hpos|apply calls_lt_nil])).
  destruct (run _ _ [] h) as [[ps [eff c]]| | |]; try exact R.
  destruct R as [R1 [R2 _]]. split; assumption.
Qed.
