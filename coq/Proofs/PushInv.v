(* C19: the structural invariant of the responder hand-over.
   A responder channel is, at any time, in exactly one of these situations: owned by its
   poll (before it is registered, or after its poll is over), registered in b.responders,
   popped by exactly one worker, or filled.  While it is registered or popped it is empty
   and its poll is waiting (or has timed out: a stale responder). *)
From Coq Require Import List ZArith Bool Arith Lia.
From HV Require Import Model.Push Proofs.PushBase.
Import ListNotations.

Ltac sproj := cbn [fixed ids table caches resp sigs polls chans works sigch accepted delivered
                   set_ids set_table set_caches set_resp set_sigs set_polls set_chans set_works
                   set_sigch set_accepted set_delivered set_poll set_work spawn_hb add_work close_sig] in *.

Ltac upd_cases H :=
  let H1 := fresh "Heq" in let H2 := fresh "Hx" in let H3 := fresh "Hlt" in
  apply nth_error_upd in H; destruct H as [(H1 & H2 & H3)|(H1 & H)]; [subst|].

Ltac snoc_cases H :=
  let H1 := fresh "Hlt" in let H2 := fresh "Hx" in
  apply nth_error_snoc in H; destruct H as [(H1 & H)|(H1 & H2)]; [|subst].

(* waiting or stale *)
Definition wos (pc : lpc) : Prop := pc = LWait \/ pc = LTimedOut \/ pc = LDone RTimeout.

Definition nohold (ws : list work) (r : nat) : Prop :=
  forall w wk sb, nth_error ws w = Some wk -> wsub wk = Some sb -> sresp sb <> r.

Definition pc_req (chs : list cval) (p id : nat) (pc : lpc) : Prop :=
  match pc with
  | LPopOld | LPopSig | LSend | LUpsert => nth_error chs p = Some VEmpty
  | LSending sb => nth_error chs p = Some VEmpty /\ sid sb = id /\ sresp sb = p /\ spc sb <> RPutBack
  | LRecv => exists v, nth_error chs p = Some v /\ v <> VEmpty
  | _ => True
  end.

Record Inv1 (s : state) : Prop := {
  i_len : length (chans s) = length (polls s);
  i_reg : forall id r, resp s id = Some r ->
      exists pl, nth_error (polls s) r = Some pl /\ pid pl = id /\ wos (ppc pl)
                 /\ nth_error (chans s) r = Some VEmpty /\ nohold (works s) r;
  i_held : forall w wk sb, nth_error (works s) w = Some wk -> wsub wk = Some sb ->
      exists pl, nth_error (polls s) (sresp sb) = Some pl /\ pid pl = sid sb /\ wos (ppc pl)
                 /\ nth_error (chans s) (sresp sb) = Some VEmpty
                 /\ (forall w' wk' sb', nth_error (works s) w' = Some wk' -> wsub wk' = Some sb' ->
                                        sresp sb' = sresp sb -> w' = w);
  i_pc : forall p pl, nth_error (polls s) p = Some pl -> pc_req (chans s) p (pid pl) (ppc pl);
  i_uniq : forall p1 p2 pl1 pl2, nth_error (polls s) p1 = Some pl1 -> nth_error (polls s) p2 = Some pl2 ->
      pid pl1 = pid pl2 -> poll_active pl1 = true -> poll_active pl2 = true -> p1 = p2
}.

Lemma Inv1_init b : Inv1 (init_of b).
Proof.
  constructor; cbn; intros; try discriminate; try reflexivity.
  - destruct w; discriminate.
  - destruct p; discriminate.
  - destruct p1; discriminate.
Qed.

Lemma wos_not (pc : lpc) : wos pc -> pc <> LPopOld /\ pc <> LPopSig /\ pc <> LSend /\ pc <> LUpsert /\ pc <> LRecv
                                   /\ (forall sb, pc <> LSending sb).
Proof. intros [->|[->| ->]]; repeat split; try discriminate; intros; discriminate. Qed.

(* a registered responder is not popped, a popped one is not registered *)
Lemma held_not_reg s : Inv1 s -> forall w wk sb, nth_error (works s) w = Some wk -> wsub wk = Some sb ->
  resp s (sid sb) <> Some (sresp sb).
Proof.
  intros HI w wk sb Hw Hs Hr. destruct (i_reg s HI _ _ Hr) as (pl & _ & _ & _ & _ & Hn).
  exact (Hn w wk sb Hw Hs eq_refl).
Qed.

(* ---- the effect of one step of send on what this invariant looks at *)
Lemma sub_rel_eff s sb s1 o : sub_rel s sb s1 o ->
  polls s1 = polls s /\ resp s1 = resp s /\
  (works s1 = works s \/ exists sg, works s1 = works s ++ [ {| wf := WHb (sid sb) sg HbUpsert; wsub := None |} ]) /\
  ((chans s1 = chans s /\ (o = SFin true -> False)) \/
   (exists v, nth_error (chans s) (sresp sb) = Some VEmpty /\ chans s1 = upd (sresp sb) v (chans s)
              /\ v <> VEmpty /\ o = SFin true)) /\
  (forall sb', o = SCont sb' -> sid sb' = sid sb /\ sresp sb' = sresp sb /\ spc sb' <> RPutBack).
Proof.
  intros H. inversion H; subst; sproj;
    (split; [reflexivity|]); (split; [reflexivity|]);
    (split; [try (left; reflexivity); try (right; eexists; reflexivity)|]);
    (split; [|intros sb' Hc; try discriminate; inversion Hc; subst; cbn; repeat split; auto; discriminate]);
    try (left; split; [reflexivity|discriminate]);
    try (right; eexists; repeat split; eauto; discriminate).
Qed.

(* ---- frame conditions *)

Lemma nohold_frame ws w wk f' r :
  nth_error ws w = Some wk -> wsub wk = None ->
  nohold ws r -> nohold (upd w {| wf := f'; wsub := None |} ws) r.
Proof.
  intros Hw Hs Hn w' wk' sb' Hw' Hs'. upd_cases Hw'; [discriminate|eauto].
Qed.

Lemma nohold_snoc ws f r : nohold ws r -> nohold (ws ++ [ {| wf := f; wsub := None |} ]) r.
Proof.
  intros Hn w' wk' sb' Hw' Hs'. snoc_cases Hw'; [eauto|discriminate].
Qed.

(* a worker without a pending send changes its frame; nothing else that matters changes *)
Lemma Inv1_frame s s' w wk f' :
  Inv1 s -> nth_error (works s) w = Some wk -> wsub wk = None ->
  resp s' = resp s -> polls s' = polls s -> chans s' = chans s ->
  works s' = upd w {| wf := f'; wsub := None |} (works s) -> Inv1 s'.
Proof.
  intros HI Hw Hs Er Ep Ec Ew. destruct HI as [H1 H2 H3 H4 H5].
  constructor; rewrite ?Er, ?Ep, ?Ec, ?Ew.
  - exact H1.
  - intros id r Hr. destruct (H2 id r Hr) as (pl & A & B & C & D & E).
    exists pl. repeat split; auto. eapply nohold_frame; eauto.
  - intros w0 wk0 sb0 Hw0 Hs0. upd_cases Hw0; [discriminate|].
    destruct (H3 w0 wk0 sb0 Hw0 Hs0) as (pl & A & B & C & D & E).
    exists pl. repeat split; auto.
    intros w' wk' sb' Hw' Hs' Hr. upd_cases Hw'; [discriminate|]. eauto.
  - exact H4.
  - exact H5.
Qed.

Lemma Inv1_snoc s s' f :
  Inv1 s -> resp s' = resp s -> polls s' = polls s -> chans s' = chans s ->
  works s' = works s ++ [ {| wf := f; wsub := None |} ] -> Inv1 s'.
Proof.
  intros HI Er Ep Ec Ew. destruct HI as [H1 H2 H3 H4 H5].
  constructor; rewrite ?Er, ?Ep, ?Ec, ?Ew.
  - exact H1.
  - intros id r Hr. destruct (H2 id r Hr) as (pl & A & B & C & D & E).
    exists pl. repeat split; auto. apply nohold_snoc; auto.
  - intros w0 wk0 sb0 Hw0 Hs0. snoc_cases Hw0; [|discriminate].
    destruct (H3 w0 wk0 sb0 Hw0 Hs0) as (pl & A & B & C & D & E).
    exists pl. repeat split; auto.
    intros w' wk' sb' Hw' Hs' Hr. snoc_cases Hw'; [|discriminate]. eauto.
  - exact H4.
  - exact H5.
Qed.

(* responder r is neither registered nor popped *)
Definition free (s : state) (r : nat) : Prop := (forall id, resp s id <> Some r) /\ nohold (works s) r.

Lemma free_of_nonempty s r v : Inv1 s -> nth_error (chans s) r = Some v -> v <> VEmpty -> free s r.
Proof.
  intros HI Hc Hv. split.
  - intros id Hr. destruct (i_reg s HI _ _ Hr) as (pl & _ & _ & _ & D & _). congruence.
  - intros w wk sb Hw Hs Heq. destruct (i_held s HI _ _ _ Hw Hs) as (pl & _ & _ & _ & D & _).
    rewrite Heq in D. congruence.
Qed.

Lemma free_of_pc s r pl : Inv1 s -> nth_error (polls s) r = Some pl -> ~ wos (ppc pl) -> free s r.
Proof.
  intros HI Hp Hn. split.
  - intros id Hr. destruct (i_reg s HI _ _ Hr) as (pl0 & A & _ & C & _). congruence.
  - intros w wk sb Hw Hs Heq. destruct (i_held s HI _ _ _ Hw Hs) as (pl0 & A & _ & C & _).
    rewrite Heq in A. congruence.
Qed.

(* poll p moves to another pc; its channel, the map and the workers stay *)
Lemma Inv1_pc s s' p pl pc' :
  Inv1 s -> nth_error (polls s) p = Some pl ->
  (wos pc' \/ free s p) ->
  (poll_active {| pid := pid pl; ppc := pc' |} = true -> poll_active pl = true) ->
  pc_req (chans s) p (pid pl) pc' ->
  resp s' = resp s -> chans s' = chans s -> works s' = works s ->
  polls s' = upd p {| pid := pid pl; ppc := pc' |} (polls s) -> Inv1 s'.
Proof.
  intros HI Hp Hwos Hact Hreq Er Ec Ew Ep. destruct HI as [H1 H2 H3 H4 H5].
  assert (Hlt : p < length (polls s)) by (eapply nth_error_lt; eauto).
  constructor; rewrite ?Er, ?Ep, ?Ec, ?Ew.
  - rewrite length_upd. exact H1.
  - intros id r Hr. destruct (H2 id r Hr) as (pl0 & A & B & C & D & E).
    destruct (Nat.eq_dec p r) as [->|Hne].
    + rewrite nth_error_upd_eq by exact Hlt. rewrite Hp in A. inversion A; subst.
      destruct Hwos as [Hwos|[Hf _]]; [|elim (Hf _ Hr)].
      eexists. split; [reflexivity|]. cbn. auto.
    + rewrite nth_error_upd_neq by exact Hne. eauto 10.
  - intros w0 wk0 sb0 Hw0 Hs0.
    destruct (H3 w0 wk0 sb0 Hw0 Hs0) as (pl0 & A & B & C & D & E).
    destruct (Nat.eq_dec p (sresp sb0)) as [Heq|Hne].
    + rewrite <- Heq in *. rewrite nth_error_upd_eq by exact Hlt. rewrite Hp in A. inversion A; subst.
      destruct Hwos as [Hwos|[_ Hf]]; [|elim (Hf _ _ _ Hw0 Hs0); auto].
      eexists. split; [reflexivity|]. cbn. auto.
    + rewrite nth_error_upd_neq by exact Hne. eauto 10.
  - intros p0 pl0 Hp0. upd_cases Hp0; [cbn; exact Hreq|auto].
  - intros p1 p2 pl1 pl2 Hp1 Hp2 Hid Ha1 Ha2.
    upd_cases Hp1; upd_cases Hp2; auto.
    + cbn in Hid. apply (H5 p1 p2 pl pl2); auto.
    + cbn in Hid. apply (H5 p1 p2 pl1 pl); auto.
    + eapply H5; eauto.
Qed.

Lemma pc_req_other chs r v p id pc : r <> p -> pc_req chs p id pc -> pc_req (upd r v chs) p id pc.
Proof.
  intros Hne. unfold pc_req. destruct pc; rewrite ?nth_error_upd_neq by exact Hne; auto.
Qed.

(* a value is written into (or taken out of) a channel that is neither registered nor popped *)
Lemma Inv1_chan_free s s' r v pl :
  Inv1 s -> free s r -> nth_error (polls s) r = Some pl ->
  pc_req (upd r v (chans s)) r (pid pl) (ppc pl) ->
  resp s' = resp s -> polls s' = polls s -> works s' = works s ->
  chans s' = upd r v (chans s) -> Inv1 s'.
Proof.
  intros HI [Hf1 Hf2] Hp Hreq Er Ep Ew Ec. destruct HI as [H1 H2 H3 H4 H5].
  constructor; rewrite ?Er, ?Ep, ?Ec, ?Ew.
  - rewrite length_upd. exact H1.
  - intros id r0 Hr. destruct (H2 id r0 Hr) as (pl0 & A & B & C & D & E).
    assert (r <> r0) by (intros ->; elim (Hf1 _ Hr)).
    rewrite nth_error_upd_neq by auto. eauto 10.
  - intros w0 wk0 sb0 Hw0 Hs0.
    destruct (H3 w0 wk0 sb0 Hw0 Hs0) as (pl0 & A & B & C & D & E).
    assert (r <> sresp sb0) by (intros Heq; apply (Hf2 _ _ _ Hw0 Hs0); auto).
    rewrite nth_error_upd_neq by auto. eauto 10.
  - intros p0 pl0 Hp0. destruct (Nat.eq_dec r p0) as [->|Hne].
    + rewrite Hp in Hp0. inversion Hp0; subst. exact Hreq.
    + apply pc_req_other; auto.
  - exact H5.
Qed.

(* an entry of b.responders is removed *)
Lemma Inv1_unreg s s' id :
  Inv1 s -> (forall x, resp s' x = if Nat.eqb x id then None else resp s x) ->
  polls s' = polls s -> works s' = works s -> chans s' = chans s -> Inv1 s'.
Proof.
  intros HI Er Ep Ew Ec. destruct HI as [H1 H2 H3 H4 H5].
  constructor; rewrite ?Ep, ?Ec, ?Ew; auto.
  intros x r Hr. rewrite Er in Hr. destruct (Nat.eqb x id); [discriminate|]. auto.
Qed.

Lemma unreg_free s s' id r :
  Inv1 s -> resp s id = Some r -> (forall x, resp s' x = if Nat.eqb x id then None else resp s x) ->
  works s' = works s -> free s' r.
Proof.
  intros HI Hr Er Ew. destruct (i_reg s HI _ _ Hr) as (pl & A & B & C & D & E). split.
  - intros x Hx. rewrite Er in Hx. destruct (Nat.eqb x id) eqn:Ex; [discriminate|].
    destruct (i_reg s HI _ _ Hx) as (pl' & A' & B' & _). rewrite A in A'. injection A' as <-.
    rewrite <- B', B, Nat.eqb_refl in Ex. discriminate.
  - rewrite Ew. exact E.
Qed.

(* a free, empty responder of a waiting (or stale) poll is put into b.responders *)
Lemma Inv1_reg s s' r pl :
  Inv1 s -> free s r -> nth_error (polls s) r = Some pl -> wos (ppc pl) ->
  nth_error (chans s) r = Some VEmpty ->
  (forall x, resp s' x = if Nat.eqb x (pid pl) then Some r else resp s x) ->
  polls s' = polls s -> works s' = works s -> chans s' = chans s -> Inv1 s'.
Proof.
  intros HI [Hf1 Hf2] Hp Hw Hc Er Ep Ew Ec. destruct HI as [H1 H2 H3 H4 H5].
  constructor; rewrite ?Ep, ?Ec, ?Ew; auto.
  intros x r0 Hr. rewrite Er in Hr. destruct (Nat.eqb x (pid pl)) eqn:Ex; [|auto].
  apply Nat.eqb_eq in Ex. inversion Hr; subst. exists pl. auto.
Qed.

(* worker w, which has no pending send, pops responder r of client id *)
Lemma Inv1_pop s s' w wk f' id r :
  Inv1 s -> nth_error (works s) w = Some wk -> wsub wk = None -> resp s id = Some r ->
  (forall x, resp s' x = if Nat.eqb x id then None else resp s x) ->
  polls s' = polls s -> chans s' = chans s ->
  works s' = upd w {| wf := f'; wsub := Some (sub0 id r) |} (works s) -> Inv1 s'.
Proof.
  intros HI Hw Hs Hr Er Ep Ec Ew.
  destruct (i_reg s HI _ _ Hr) as (pl & A & B & C & D & E).
  destruct HI as [H1 H2 H3 H4 H5].
  constructor; rewrite ?Ep, ?Ec, ?Ew; auto.
  - intros x r0 Hx. rewrite Er in Hx. destruct (Nat.eqb x id) eqn:Ex; [discriminate|].
    destruct (H2 x r0 Hx) as (pl0 & A0 & B0 & C0 & D0 & E0).
    exists pl0. repeat split; auto.
    intros w' wk' sb' Hw' Hs'. upd_cases Hw'.
    + cbn in Hs'. inversion Hs'; subst. cbn. intros ->.
      rewrite A in A0. inversion A0; subst. rewrite Nat.eqb_refl in Ex. discriminate.
    + eauto.
  - intros w0 wk0 sb0 Hw0 Hs0. upd_cases Hw0.
    + cbn in Hs0. inversion Hs0; subst. cbn.
      exists pl. repeat split; auto.
      intros w' wk' sb' Hw' Hs' Hq. upd_cases Hw'; [reflexivity|].
      elim (E _ _ _ Hw' Hs' Hq).
    + destruct (H3 w0 wk0 sb0 Hw0 Hs0) as (pl0 & A0 & B0 & C0 & D0 & E0).
      exists pl0. repeat split; auto.
      intros w' wk' sb' Hw' Hs' Hq. upd_cases Hw'; [|eauto].
      cbn in Hs'. inversion Hs'; subst. cbn in Hq.
      elim (E _ _ _ Hw0 Hs0). auto.
Qed.

(* worker w lets go of the responder it had popped *)
Lemma Inv1_release s s' w wk sb f' :
  Inv1 s -> nth_error (works s) w = Some wk -> wsub wk = Some sb ->
  resp s' = resp s -> polls s' = polls s -> chans s' = chans s ->
  works s' = upd w {| wf := f'; wsub := None |} (works s) ->
  Inv1 s' /\ free s' (sresp sb).
Proof.
  intros HI Hw Hs Er Ep Ec Ew.
  pose proof (held_not_reg s HI _ _ _ Hw Hs) as Hnr.
  destruct (i_held s HI _ _ _ Hw Hs) as (pl & A & B & C & D & E).
  assert (Hfree : free s' (sresp sb)).
  { split.
    - rewrite Er. intros x Hx. destruct (i_reg s HI _ _ Hx) as (pl0 & A0 & B0 & _).
      rewrite A in A0. injection A0 as <-. apply Hnr. rewrite <- B, B0. exact Hx.
    - rewrite Ew. intros w' wk' sb' Hw' Hs' Hq. upd_cases Hw'; [discriminate|].
      pose proof (E _ _ _ Hw' Hs' Hq). congruence. }
  split; [|exact Hfree].
  destruct HI as [H1 H2 H3 H4 H5].
  constructor; rewrite ?Er, ?Ep, ?Ec, ?Ew; auto.
  - intros x r0 Hx. destruct (H2 x r0 Hx) as (pl0 & A0 & B0 & C0 & D0 & E0).
    exists pl0. repeat split; auto.
    intros w' wk' sb' Hw' Hs'. upd_cases Hw'; [discriminate|eauto].
  - intros w0 wk0 sb0 Hw0 Hs0. upd_cases Hw0; [discriminate|].
    destruct (H3 w0 wk0 sb0 Hw0 Hs0) as (pl0 & A0 & B0 & C0 & D0 & E0).
    exists pl0. repeat split; auto.
    intros w' wk' sb' Hw' Hs' Hq. upd_cases Hw'; [discriminate|eauto].
Qed.

(* worker w's pending send makes a step that keeps the responder *)
Lemma Inv1_subupd s s' w wk sb sb' f' :
  Inv1 s -> nth_error (works s) w = Some wk -> wsub wk = Some sb ->
  sid sb' = sid sb -> sresp sb' = sresp sb ->
  resp s' = resp s -> polls s' = polls s -> chans s' = chans s ->
  works s' = upd w {| wf := f'; wsub := Some sb' |} (works s) -> Inv1 s'.
Proof.
  intros HI Hw Hs Eid Ers Er Ep Ec Ew.
  destruct (i_held s HI _ _ _ Hw Hs) as (pl & A & B & C & D & E).
  destruct HI as [H1 H2 H3 H4 H5].
  constructor; rewrite ?Er, ?Ep, ?Ec, ?Ew; auto.
  - intros x r0 Hx. destruct (H2 x r0 Hx) as (pl0 & A0 & B0 & C0 & D0 & E0).
    exists pl0. repeat split; auto.
    intros w' wk' sb0 Hw' Hs'. upd_cases Hw'; [|eauto].
    cbn in Hs'. inversion Hs'; subst. rewrite Ers. eauto.
  - intros w0 wk0 sb0 Hw0 Hs0. upd_cases Hw0.
    + cbn in Hs0. inversion Hs0; subst. rewrite Ers, Eid.
      exists pl. repeat split; auto.
      intros w' wk' sb1 Hw' Hs' Hq. upd_cases Hw'; [reflexivity|]. eauto.
    + destruct (H3 w0 wk0 sb0 Hw0 Hs0) as (pl0 & A0 & B0 & C0 & D0 & E0).
      exists pl0. repeat split; auto.
      intros w' wk' sb1 Hw' Hs' Hq. upd_cases Hw'; [|eauto].
      cbn in Hs'. inversion Hs'; subst. rewrite Ers in Hq.
      eapply E0; eauto.
Qed.

(* a new poll *)
Lemma Inv1_spawn_poll s s' id :
  Inv1 s -> busy id (polls s) = false ->
  resp s' = resp s -> works s' = works s ->
  polls s' = polls s ++ [ {| pid := id; ppc := LPopOld |} ] -> chans s' = chans s ++ [VEmpty] -> Inv1 s'.
Proof.
  intros HI Hb Er Ew Ep Ec. destruct HI as [H1 H2 H3 H4 H5].
  constructor; rewrite ?Er, ?Ep, ?Ec, ?Ew.
  - rewrite !app_length. cbn. lia.
  - intros x r Hx. destruct (H2 x r Hx) as (pl0 & A0 & B0 & C0 & D0 & E0).
    exists pl0. repeat split; auto using nth_error_snoc_old.
  - intros w0 wk0 sb0 Hw0 Hs0.
    destruct (H3 w0 wk0 sb0 Hw0 Hs0) as (pl0 & A0 & B0 & C0 & D0 & E0).
    exists pl0. repeat split; auto using nth_error_snoc_old.
  - intros p0 pl0 Hp0. snoc_cases Hp0.
    + pose proof (H4 _ _ Hp0) as Hq. unfold pc_req in *.
      assert (Hl : p0 < length (chans s)) by lia.
      destruct (ppc pl0); rewrite ?nth_error_app1 by exact Hl; auto.
    + cbn. rewrite <- H1. apply nth_error_snoc_new.
  - assert (Hnb : forall p pl, nth_error (polls s) p = Some pl -> pid pl = id -> poll_active pl = true -> False).
    { intros p pl Hp Hid Ha. unfold busy in Hb.
      assert (existsb (fun pl => Nat.eqb (pid pl) id && poll_active pl) (polls s) = true); [|congruence].
      apply existsb_exists. exists pl. split; [eapply nth_error_In; eauto|].
      rewrite Hid, Nat.eqb_refl, Ha. reflexivity. }
    intros p1 p2 pl1 pl2 Hp1 Hp2 Hid Ha1 Ha2.
    snoc_cases Hp1; snoc_cases Hp2; auto.
    + eapply H5; eauto.
    + cbn in Hid. elim (Hnb _ _ Hp1); auto.
    + cbn in Hid. elim (Hnb _ _ Hp2); auto.
Qed.

Lemma free_ext s s' r : resp s' = resp s -> works s' = works s -> free s r -> free s' r.
Proof. unfold free. intros -> ->. auto. Qed.

Lemma upd_snoc {A} (l : list A) w x h : w < length l -> upd w x (l ++ [h]) = upd w x l ++ [h].
Proof.
  revert w. induction l as [|y l IH]; intros w Hw; [cbn in Hw; lia|].
  destruct w; cbn; [reflexivity|]. rewrite IH; [reflexivity|]. cbn in Hw. lia.
Qed.

(* a free channel gets a value (or loses it) while its poll moves on *)
Lemma Inv1_chan_pc s s' r v pl pc' :
  Inv1 s -> free s r -> nth_error (polls s) r = Some pl ->
  (poll_active {| pid := pid pl; ppc := pc' |} = true -> poll_active pl = true) ->
  pc_req (upd r v (chans s)) r (pid pl) pc' ->
  resp s' = resp s -> works s' = works s ->
  polls s' = upd r {| pid := pid pl; ppc := pc' |} (polls s) ->
  chans s' = upd r v (chans s) -> Inv1 s'.
Proof.
  intros HI [Hf1 Hf2] Hp Hact Hreq Er Ew Ep Ec. destruct HI as [H1 H2 H3 H4 H5].
  assert (Hlt : r < length (polls s)) by (eapply nth_error_lt; eauto).
  constructor; rewrite ?Er, ?Ep, ?Ec, ?Ew.
  - rewrite !length_upd. exact H1.
  - intros id r0 Hr. destruct (H2 id r0 Hr) as (pl0 & A & B & C & D & E).
    assert (r <> r0) by (intros ->; elim (Hf1 _ Hr)).
    rewrite !nth_error_upd_neq by auto. eauto 10.
  - intros w0 wk0 sb0 Hw0 Hs0.
    destruct (H3 w0 wk0 sb0 Hw0 Hs0) as (pl0 & A & B & C & D & E).
    assert (r <> sresp sb0) by (intros Hq; apply (Hf2 _ _ _ Hw0 Hs0); auto).
    rewrite !nth_error_upd_neq by auto. eauto 10.
  - intros p0 pl0 Hp0. upd_cases Hp0; [cbn; exact Hreq|]. apply pc_req_other; auto.
  - intros p1 p2 pl1 pl2 Hp1 Hp2 Hid Ha1 Ha2.
    upd_cases Hp1; upd_cases Hp2; auto.
    + cbn in Hid. apply (H5 p1 p2 pl pl2); auto.
    + cbn in Hid. apply (H5 p1 p2 pl1 pl); auto.
    + eapply H5; eauto.
Qed.

Lemma pc_req_wos chs p id pc : wos pc -> pc_req chs p id pc.
Proof. intros [->|[->| ->]]; exact I. Qed.

Lemma not_wos_LPopOld : ~ wos LPopOld. Proof. intros [H|[H|H]]; discriminate. Qed.
Lemma not_wos_LPopSig : ~ wos LPopSig. Proof. intros [H|[H|H]]; discriminate. Qed.
Lemma not_wos_LSend : ~ wos LSend. Proof. intros [H|[H|H]]; discriminate. Qed.
Lemma not_wos_LUpsert : ~ wos LUpsert. Proof. intros [H|[H|H]]; discriminate. Qed.
Lemma not_wos_LRecv : ~ wos LRecv. Proof. intros [H|[H|H]]; discriminate. Qed.
Lemma not_wos_LSending sb : ~ wos (LSending sb). Proof. intros [H|[H|H]]; discriminate. Qed.
#[export] Hint Resolve not_wos_LPopOld not_wos_LPopSig not_wos_LSend not_wos_LUpsert not_wos_LRecv not_wos_LSending : wosdb.

Lemma Inv1_poll_step s p pl t s' :
  Inv1 s -> nth_error (polls s) p = Some pl -> poll_rel s p pl t s' -> Inv1 s'.
Proof.
  intros HI Hp Hr. pose proof (i_pc s HI _ _ Hp) as Hreq.
  inversion Hr; subst; clear Hr.
  - (* popold_none *)
    rewrite H in Hreq. eapply (Inv1_pc s _ p pl LPopSig); eauto; try reflexivity; try (intros _; unfold poll_active; rewrite H; reflexivity).
    right. eapply free_of_pc; eauto. rewrite H. auto with wosdb.
  - (* popold_some *)
    rewrite H in Hreq. cbn in Hreq.
    destruct (i_reg s HI _ _ H0) as (plr & A & B & C & D & E).
    set (s1 := set_resp s (fupd (resp s) (pid pl) None)).
    assert (I1 : Inv1 s1) by (eapply (Inv1_unreg s s1 (pid pl)); eauto; reflexivity).
    assert (F1 : free s1 r) by (eapply (unreg_free s s1); eauto; reflexivity).
    set (s2 := set_chans s1 (upd r VNil (chans s))).
    assert (I2 : Inv1 s2).
    { eapply (Inv1_chan_free s1 s2 r VNil plr); eauto; try reflexivity; try (intros _; unfold poll_active; rewrite H; reflexivity). apply pc_req_wos; auto. }
    assert (Hne : r <> p).
    { intros ->. rewrite Hp in A. inversion A; subst. rewrite H in C. revert C. auto with wosdb. }
    eapply (Inv1_pc s2 _ p pl LPopSig); eauto; try reflexivity; try (intros _; unfold poll_active; rewrite H; reflexivity).
    + right. eapply free_of_pc; eauto. rewrite H. auto with wosdb.
    + cbn. unfold s2. sproj. rewrite nth_error_upd_neq by exact Hne. exact Hreq.
  - (* popsig *)
    rewrite H in Hreq. eapply (Inv1_pc s _ p pl LSend); eauto; try reflexivity; try (intros _; unfold poll_active; rewrite H; reflexivity).
    right. eapply free_of_pc; eauto. rewrite H. auto with wosdb.
  - (* send *)
    rewrite H in Hreq. eapply (Inv1_pc s _ p pl (LSending (sub0 (pid pl) p))); eauto; try reflexivity; try (intros _; unfold poll_active; rewrite H; reflexivity).
    + right. eapply free_of_pc; eauto. rewrite H. auto with wosdb.
    + cbn. repeat split; auto. discriminate.
  - (* sending *)
    rewrite H in Hreq. cbn in Hreq. destruct Hreq as (Hc & Hsid & Hrs & Hpb).
    destruct (sub_rel_eff _ _ _ _ H0) as (Ep & Er & Ew & Ec & Eo).
    assert (Hfree : free s p) by (eapply free_of_pc; eauto; rewrite H; auto with wosdb).
    set (pc' := match o with SCont sb' => LSending sb' | SFin true => LRecv | SFin false => LUpsert end).
    (* first the channel and the pc, then the spawned heartbeat *)
    assert (IA : exists sA, Inv1 sA /\ resp sA = resp s /\ works sA = works s /\
                            polls sA = upd p {| pid := pid pl; ppc := pc' |} (polls s) /\ chans sA = chans s1).
    { destruct Ec as [(Ec & Ho)|(v & Hc' & Ec & Hv & Ho)].
      - exists (set_poll s p (pid pl) pc'). split; [|sproj; repeat split; auto].
        eapply (Inv1_pc s _ p pl pc'); eauto; try reflexivity; try (intros _; unfold poll_active; rewrite H; reflexivity).
        unfold pc'. destruct o as [sb'|[|]]; cbn;
          [destruct (Eo sb' eq_refl) as (A & B & C); repeat split; congruence
          |elim Ho; reflexivity|exact Hc].
      - rewrite Hrs in *. exists (set_poll (set_chans s (upd p v (chans s))) p (pid pl) pc').
        split; [|sproj; repeat split; auto].
        eapply (Inv1_chan_pc s _ p v pl pc'); eauto; try reflexivity; try (intros _; unfold poll_active; rewrite H; reflexivity).
        unfold pc'. rewrite Ho. cbn. exists v. split; [|exact Hv].
        apply nth_error_upd_eq. eapply nth_error_lt; eauto. }
    destruct IA as (sA & IA & ErA & EwA & EpA & EcA).
    destruct Ew as [Ew|(f & Ew)].
    + destruct IA as [H1 H2 H3 H4 H5].
      constructor; sproj; rewrite ?Ep, ?Er, ?Ew, <- ?EpA, <- ?EcA, <- ?ErA, <- ?EwA; auto.
    + eapply (Inv1_snoc sA _ (WHb (sid sb) f HbUpsert)); eauto; sproj; congruence.
  - (* recv_nil *)
    assert (Hfree : free s p) by (eapply free_of_nonempty; eauto; discriminate).
    eapply (Inv1_chan_pc s _ p VEmpty pl (LDone RNil)); eauto; try reflexivity; try (intros _; unfold poll_active; rewrite H; reflexivity).
    cbn. discriminate.
  - (* recv_batch *)
    assert (Hfree : free s p) by (eapply free_of_nonempty; eauto; discriminate).
    eapply (Inv1_chan_pc s _ p VEmpty pl (LDone (RBatch b))); eauto; try reflexivity; try (intros _; unfold poll_active; rewrite H; reflexivity).
    cbn. discriminate.
  - (* upsert_none *)
    rewrite H in Hreq. cbn in Hreq.
    assert (Hfree : free s p) by (eapply free_of_pc; eauto; rewrite H; auto with wosdb).
    set (s1 := set_poll s p (pid pl) LWait).
    assert (I1 : Inv1 s1) by (eapply (Inv1_pc s s1 p pl LWait); eauto; try reflexivity; try (intros _; unfold poll_active; rewrite H; reflexivity); cbn; auto).
    assert (Hlt : p < length (polls s)) by (eapply nth_error_lt; eauto).
    eapply (Inv1_reg s1 _ p {| pid := pid pl; ppc := LWait |}); eauto; try reflexivity; try (intros _; unfold poll_active; rewrite H; reflexivity).
    + unfold s1; sproj. apply nth_error_upd_eq; auto.
    + left; reflexivity.
  - (* upsert_some *)
    rewrite H in Hreq. cbn in Hreq.
    destruct (i_reg s HI _ _ H0) as (plr & A & B & C & D & E).
    set (s1 := set_resp s (fupd (resp s) (pid pl) None)).
    assert (I1 : Inv1 s1) by (eapply (Inv1_unreg s s1 (pid pl)); eauto; reflexivity).
    assert (F1 : free s1 r) by (eapply (unreg_free s s1); eauto; reflexivity).
    set (s2 := set_chans s1 (upd r VNil (chans s))).
    assert (I2 : Inv1 s2).
    { eapply (Inv1_chan_free s1 s2 r VNil plr); eauto; try reflexivity; try (intros _; unfold poll_active; rewrite H; reflexivity). apply pc_req_wos; auto. }
    assert (Hne : r <> p).
    { intros ->. rewrite Hp in A. inversion A; subst. rewrite H in C. revert C. auto with wosdb. }
    assert (Hfree : free s2 p) by (eapply free_of_pc; eauto; rewrite H; auto with wosdb).
    set (s3 := set_poll s2 p (pid pl) LWait).
    assert (I3 : Inv1 s3) by (eapply (Inv1_pc s2 s3 p pl LWait); eauto; try reflexivity; try (intros _; unfold poll_active; rewrite H; reflexivity); cbn; auto).
    assert (Hlt : p < length (polls s)) by (eapply nth_error_lt; eauto).
    eapply (Inv1_reg s3 _ p {| pid := pid pl; ppc := LWait |}); eauto; try reflexivity; try (intros _; unfold poll_active; rewrite H; reflexivity).
    + unfold s3, s2, s1; sproj. apply nth_error_upd_eq; auto.
    + left; reflexivity.
    + unfold s3, s2, s1; sproj. rewrite nth_error_upd_neq by exact Hne. exact Hreq.
    + intros x. unfold s3, s2, s1; sproj. unfold fupd. cbn [pid]. destruct (Nat.eqb x (pid pl)); reflexivity.
  - (* timeout *)
    set (s1 := set_poll s p (pid pl) (LDone RTimeout)).
    assert (I1 : Inv1 s1).
    { eapply (Inv1_pc s s1 p pl (LDone RTimeout)); eauto; try reflexivity; try (intros _; unfold poll_active; rewrite H; reflexivity); cbn; auto;
        try discriminate. left. right. right. reflexivity. }
    eapply (Inv1_snoc s1 _ (WHb (pid pl) (length (sigch s)) HbUpsert)); eauto; reflexivity.
  - (* timer (fixed) *)
    eapply (Inv1_pc s _ p pl LTimedOut); eauto; try reflexivity; try (intros _; unfold poll_active; rewrite H; reflexivity);
      try exact I.
    left. right. left. reflexivity.
  - (* withdraw (fixed) *)
    destruct (i_reg s HI _ _ H0) as (plr & A & B & C & D & E).
    set (s1 := set_resp s (fupd (resp s) (pid pl) None)).
    assert (I1 : Inv1 s1) by (eapply (Inv1_unreg s s1 (pid pl)); eauto; reflexivity).
    set (s2 := set_poll s1 p (pid pl) (LDone RTimeout)).
    assert (I2 : Inv1 s2).
    { eapply (Inv1_pc s1 s2 p pl (LDone RTimeout)); eauto; try reflexivity; cbn; auto; try discriminate.
      left. right. right. reflexivity. }
    eapply (Inv1_snoc s2 _ (WHb (pid pl) (length (sigch s)) HbUpsert)); eauto; reflexivity.
Qed.

Lemma Inv1_work_step s w wk t s' :
  Inv1 s -> nth_error (works s) w = Some wk -> work_rel s w wk t s' -> Inv1 s'.
Proof.
  intros HI Hw Hr.
  assert (Hlt : w < length (works s)) by (eapply nth_error_lt; eauto).
  inversion Hr; subst; clear Hr;
    try solve [eapply (Inv1_frame s _ w wk); eauto; reflexivity].
  - (* putback_set *)
    destruct (i_held s HI _ _ _ Hw H) as (pl & A & B & C & D & E).
    set (s1 := set_work s w (wf wk) None).
    destruct (Inv1_release s s1 w wk sb (wf wk) HI Hw H eq_refl eq_refl eq_refl eq_refl) as (I1 & F1).
    eapply (Inv1_reg s1 _ (sresp sb) pl); eauto; try reflexivity.
    intros x. sproj. unfold fupd. rewrite B. reflexivity.
  - (* putback_nil *)
    destruct (i_held s HI _ _ _ Hw H) as (pl & A & B & C & D & E).
    set (s1 := set_work s w (wf wk) None).
    destruct (Inv1_release s s1 w wk sb (wf wk) HI Hw H eq_refl eq_refl eq_refl eq_refl) as (I1 & F1).
    eapply (Inv1_chan_free s1 _ (sresp sb) VNil pl); eauto; try reflexivity.
    apply pc_req_wos; auto.
  - (* sub *)
    destruct (i_held s HI _ _ _ Hw H) as (pl & A & B & C & D & E).
    destruct (sub_rel_eff _ _ _ _ H1) as (Ep & Er & Ew & Ec & Eo).
    set (sbo := match o with SCont sb' => Some sb' | SFin true => None | SFin false => Some (with_spc sb RPutBack) end).
    (* the worker's own record and the channel first, the spawned heartbeat last *)
    assert (IA : exists sA, Inv1 sA /\ resp sA = resp s /\ polls sA = polls s /\ chans sA = chans s1 /\
                            works sA = upd w {| wf := wf wk; wsub := sbo |} (works s)).
    { destruct Ec as [(Ec & Ho)|(v & Hc' & Ec & Hv & Ho)].
      - exists (set_work s w (wf wk) sbo). split; [|sproj; repeat split; auto].
        unfold sbo. destruct o as [sb'|[|]].
        + destruct (Eo sb' eq_refl) as (X & Y & Z).
          eapply (Inv1_subupd s _ w wk sb sb'); eauto; reflexivity.
        + elim Ho; reflexivity.
        + eapply (Inv1_subupd s _ w wk sb (with_spc sb RPutBack)); eauto; reflexivity.
      - subst o. unfold sbo.
        set (sR := set_work s w (wf wk) None).
        destruct (Inv1_release s sR w wk sb (wf wk) HI Hw H eq_refl eq_refl eq_refl eq_refl) as (I1 & F1).
        exists (set_chans sR (upd (sresp sb) v (chans s))). split; [|sproj; repeat split; auto].
        eapply (Inv1_chan_free sR _ (sresp sb) v pl); eauto; try reflexivity.
        apply pc_req_wos; auto. }
    destruct IA as (sA & IA & ErA & EpA & EcA & EwA).
    destruct Ew as [Ew|(f & Ew)].
    + destruct IA as [H1' H2 H3 H4 H5].
      constructor; sproj; rewrite ?Ep, ?Er, ?Ew, <- ?EpA, <- ?EcA, <- ?ErA, <- ?EwA; auto.
    + eapply (Inv1_snoc sA _ (WHb (sid sb) f HbUpsert)); eauto; sproj; try congruence.
      rewrite Ew, EwA. apply upd_snoc; auto.
  - (* resp_some *)
    eapply (Inv1_pop s _ w wk f' id r); eauto; reflexivity.
Qed.

Lemma Inv1_step s t s' : Inv1 s -> step_rel s t s' -> Inv1 s'.
Proof.
  intros HI H. inversion H; subst.
  - eapply (Inv1_snoc s _ f); eauto; reflexivity.
  - eapply (Inv1_spawn_poll s _ id); eauto; reflexivity.
  - eapply Inv1_poll_step; eauto.
  - eapply Inv1_work_step; eauto.
Qed.

Lemma Inv1_reach s : reach s -> Inv1 s.
Proof. induction 1; [apply Inv1_init|eapply Inv1_step; eauto]. Qed.
