(* Proofs about Lib/Crc32.v: byte/bit conversions, GF(2)-linearity of the CRC register
   for messages of every length, and detection of every single-bit error. *)
From Coq Require Import List NArith ZArith Bool Lia Init.Byte Strings.Byte.
From HV Require Import Lib.Crc32.
Import ListNotations.

(* ---- bytes and numbers --------------------------------------------------------- *)

Lemma byte_of_N_to_N (n : N) : Byte.to_N (byte_of_N n) = (n mod 256)%N.
Proof.
  unfold byte_of_N. destruct (Byte.of_N (n mod 256)) as [b|] eqn:E.
  - apply Byte.to_of_N; exact E.
  - apply Byte.of_N_None_iff in E.
    pose proof (N.mod_upper_bound n 256 ltac:(discriminate)). lia.
Qed.

Lemma byte_of_N_of_byte (b : byte) : byte_of_N (Byte.to_N b) = b.
Proof.
  unfold byte_of_N. pose proof (Byte.to_N_bounded b) as Hb.
  rewrite N.mod_small by lia. rewrite Byte.of_to_N. reflexivity.
Qed.

Lemma Z_of_byte_range (b : byte) : (0 <= Z_of_byte b < 256)%Z.
Proof. unfold Z_of_byte. pose proof (Byte.to_N_bounded b). lia. Qed.

Lemma Z_of_byte_of_Z (z : Z) : Z_of_byte (byte_of_Z z) = (z mod 256)%Z.
Proof.
  unfold Z_of_byte, byte_of_Z. rewrite byte_of_N_to_N.
  pose proof (Z.mod_pos_bound z 256 ltac:(lia)) as Hm.
  rewrite N.mod_small by lia. lia.
Qed.

Lemma byte_of_Z_of_byte (b : byte) : byte_of_Z (Z_of_byte b) = b.
Proof.
  unfold byte_of_Z. pose proof (Z_of_byte_range b) as Hr.
  rewrite Z.mod_small by lia. unfold Z_of_byte. rewrite N2Z.id. apply byte_of_N_of_byte.
Qed.

Lemma Z_of_byte_inj (a b : byte) : Z_of_byte a = Z_of_byte b -> a = b.
Proof. intros H. rewrite <- (byte_of_Z_of_byte a), <- (byte_of_Z_of_byte b), H. reflexivity. Qed.

(* ---- bytes and bits ------------------------------------------------------------ *)

Lemma bits_of_byte_length (b : byte) : length (bits_of_byte b) = 8.
Proof.
  unfold bits_of_byte.
  destruct (Byte.to_bits b) as (b0 & b1 & b2 & b3 & b4 & b5 & b6 & b7). reflexivity.
Qed.

Lemma bits_of_bytes_length (l : list byte) : length (bits_of_bytes l) = 8 * length l.
Proof.
  induction l as [|b l IH]; cbn [bits_of_bytes flat_map length]; [reflexivity|].
  rewrite app_length, bits_of_byte_length. fold (bits_of_bytes l). lia.
Qed.

Lemma bits_of_bytes_app (a b : list byte) :
  bits_of_bytes (a ++ b) = bits_of_bytes a ++ bits_of_bytes b.
Proof. apply flat_map_app. Qed.

Lemma bytes_of_bits_cons (b : byte) (bs : list bool) :
  bytes_of_bits (bits_of_byte b ++ bs) = b :: bytes_of_bits bs.
Proof.
  unfold bits_of_byte.
  destruct (Byte.to_bits b) as (b0 & b1 & b2 & b3 & b4 & b5 & b6 & b7) eqn:E.
  cbn [app bytes_of_bits]. rewrite <- E, Byte.of_bits_to_bits. reflexivity.
Qed.

Lemma bytes_of_bits_of_bytes (l : list byte) : bytes_of_bits (bits_of_bytes l) = l.
Proof.
  induction l as [|b l IH]; [reflexivity|].
  cbn [bits_of_bytes flat_map]. fold (bits_of_bytes l).
  rewrite bytes_of_bits_cons, IH. reflexivity.
Qed.

Lemma bits_of_byte_of_bits b0 b1 b2 b3 b4 b5 b6 b7 :
  bits_of_byte (Byte.of_bits (b0, (b1, (b2, (b3, (b4, (b5, (b6, b7)))))))) =
  [b0; b1; b2; b3; b4; b5; b6; b7].
Proof. unfold bits_of_byte. rewrite Byte.to_bits_of_bits. reflexivity. Qed.

(* a bit string whose length is a multiple of 8 survives the trip through bytes *)
Lemma bits_of_bytes_of_bits : forall (n : nat) (bs : list bool),
  length bs = 8 * n -> bits_of_bytes (bytes_of_bits bs) = bs.
Proof.
  induction n as [|n IH]; intros bs H.
  - destruct bs; [reflexivity|discriminate].
  - destruct bs as [|b0 [|b1 [|b2 [|b3 [|b4 [|b5 [|b6 [|b7 r]]]]]]]]; cbn [length] in H; try lia.
    cbn [bytes_of_bits bits_of_bytes flat_map]. fold (bits_of_bytes (bytes_of_bits r)).
    rewrite bits_of_byte_of_bits, IH by lia. reflexivity.
Qed.

Lemma bits_of_bytes_inj (a b : list byte) : bits_of_bytes a = bits_of_bytes b -> a = b.
Proof.
  intros H. rewrite <- (bytes_of_bits_of_bytes a), <- (bytes_of_bits_of_bytes b), H. reflexivity.
Qed.

(* ---- flipping one bit ---------------------------------------------------------- *)

Lemma flip_nth_length : forall k bs, length (flip_nth k bs) = length bs.
Proof.
  intros k bs; revert k; induction bs as [|b r IH]; intros [|k]; cbn [flip_nth length]; auto.
Qed.

Lemma flip_nth_ne : forall k bs, k < length bs -> flip_nth k bs <> bs.
Proof.
  intros k bs; revert k; induction bs as [|b r IH]; intros [|k] Hk; cbn [length flip_nth] in *; try lia.
  - intros E. injection E as E. destruct b; discriminate.
  - intros E. injection E as E. apply (IH k); [lia|exact E].
Qed.

Lemma flip_nth_app : forall k a b,
  flip_nth k (a ++ b) =
  if Nat.ltb k (length a) then flip_nth k a ++ b else a ++ flip_nth (k - length a) b.
Proof.
  intros k a; revert k; induction a as [|x a IH]; intros k b.
  - cbn [app length]. destruct (Nat.ltb_spec k 0); [lia|]. rewrite Nat.sub_0_r. reflexivity.
  - destruct k as [|k]; cbn [app flip_nth length].
    + reflexivity.
    + rewrite IH. cbn [Nat.sub].
      destruct (Nat.ltb_spec k (length a)), (Nat.ltb_spec (S k) (S (length a))); try lia; reflexivity.
Qed.

Lemma unit_bits_length n k : length (unit_bits n k) = n.
Proof. unfold unit_bits. rewrite map_length, seq_length. reflexivity. Qed.

(* flipping bit k = xor with the k-th unit vector *)
Lemma flip_nth_xor_gen : forall bs k s, k < length bs ->
  flip_nth k bs = xor_bits bs (map (fun i => Nat.eqb i (s + k)) (seq s (length bs))).
Proof.
  induction bs as [|b r IH]; intros k s Hk; cbn [length] in Hk; [lia|].
  cbn [length seq map xor_bits]. destruct k as [|k]; cbn [flip_nth].
  - rewrite Nat.add_0_r, Nat.eqb_refl. f_equal; try (destruct b; reflexivity).
    clear IH Hk. generalize (S s) (Nat.lt_succ_diag_r s). intros t Ht.
    revert t Ht; induction r as [|c r IHr]; intros t Ht; [reflexivity|].
    cbn [length seq map xor_bits]. destruct (Nat.eqb_spec t s); [lia|].
    rewrite xorb_false_r. f_equal. apply IHr. lia.
  - destruct (Nat.eqb_spec s (s + S k)); [lia|]. rewrite xorb_false_r. f_equal.
    replace (s + S k) with (S s + k) by lia. apply IH. lia.
Qed.

Lemma flip_nth_xor bs k : k < length bs ->
  flip_nth k bs = xor_bits bs (unit_bits (length bs) k).
Proof. intros Hk. unfold unit_bits. apply (flip_nth_xor_gen bs k 0 Hk). Qed.

Lemma flip_bit_length k l : length (flip_bit k l) = length l.
Proof.
  unfold flip_bit.
  assert (H : length (bits_of_bytes (bytes_of_bits (flip_nth k (bits_of_bytes l)))) = 8 * length l).
  { rewrite (bits_of_bytes_of_bits (length l)); rewrite flip_nth_length, bits_of_bytes_length; reflexivity. }
  rewrite bits_of_bytes_length in H. lia.
Qed.

Lemma bits_of_flip_bit k l : bits_of_bytes (flip_bit k l) = flip_nth k (bits_of_bytes l).
Proof.
  unfold flip_bit. apply (bits_of_bytes_of_bits (length l)).
  rewrite flip_nth_length, bits_of_bytes_length. reflexivity.
Qed.

Lemma flip_bit_ne k l : k < 8 * length l -> flip_bit k l <> l.
Proof.
  intros Hk E. apply (f_equal bits_of_bytes) in E. rewrite bits_of_flip_bit in E.
  revert E. apply flip_nth_ne. rewrite bits_of_bytes_length. exact Hk.
Qed.

Lemma flip_bit_app k a b :
  flip_bit k (a ++ b) =
  if Nat.ltb k (8 * length a) then flip_bit k a ++ b else a ++ flip_bit (k - 8 * length a) b.
Proof.
  apply bits_of_bytes_inj. rewrite bits_of_flip_bit, bits_of_bytes_app, flip_nth_app.
  rewrite bits_of_bytes_length.
  destruct (Nat.ltb (k) (8 * length a)); rewrite bits_of_bytes_app, bits_of_flip_bit; reflexivity.
Qed.

(* ---- linearity of the CRC register over GF(2) ----------------------------------- *)

Local Open Scope N_scope.

Ltac xor_solve :=
  apply N.bits_inj; let n := fresh "n" in intro n; rewrite ?N.lxor_spec, ?N.bits_0;
  repeat match goal with |- context[N.testbit ?x n] => destruct (N.testbit x n) end; reflexivity.

Lemma step_bit_lin s s' b b' :
  step_bit (N.lxor s s') (xorb b b') = N.lxor (step_bit s b) (step_bit s' b').
Proof.
  unfold step_bit. rewrite N.shiftr_lxor.
  replace (N.odd (N.lxor s s')) with (xorb (N.odd s) (N.odd s')).
  2:{ rewrite <- !N.bit0_odd. rewrite N.lxor_spec. reflexivity. }
  generalize (N.shiftr s 1) (N.shiftr s' 1); intros u v.
  destruct (N.odd s), (N.odd s'), b, b'; cbn [xorb]; xor_solve.
Qed.

(* for messages of every length *)
Lemma feed_lin : forall bits bits' s s', length bits = length bits' ->
  feed (N.lxor s s') (xor_bits bits bits') = N.lxor (feed s bits) (feed s' bits').
Proof.
  unfold feed.
  induction bits as [|b bits IH]; intros [|b' bits'] s s' H; cbn [length] in H; try discriminate.
  - reflexivity.
  - cbn [xor_bits fold_left]. rewrite step_bit_lin. apply IH. lia.
Qed.

(* the difference of the checksums of a message and of the message with an error
   pattern added depends on the error pattern only *)
Lemma crc_error_syndrome bm be : length bm = length be ->
  N.lxor (N.lxor (feed 0xFFFFFFFF (xor_bits bm be)) 0xFFFFFFFF)
         (N.lxor (feed 0xFFFFFFFF bm) 0xFFFFFFFF) = feed 0 be.
Proof.
  intros H. replace 0xFFFFFFFF with (N.lxor 0xFFFFFFFF 0) at 1 by reflexivity.
  rewrite feed_lin by auto. generalize (feed 0xFFFFFFFF bm) (feed 0 be). intros u v. xor_solve.
Qed.

Lemma crc32_linear (a e : list byte) : length a = length e ->
  N.lxor (crc32 (bytes_of_bits (xor_bits (bits_of_bytes a) (bits_of_bytes e)))) (crc32 a) =
  feed 0 (bits_of_bytes e).
Proof.
  intros H. unfold crc32.
  assert (Hx : forall x y : list bool, length x = length y -> length (xor_bits x y) = length x).
  { induction x as [|b x IHx]; intros [|c y] Hxy; cbn [length xor_bits] in *; try discriminate; auto. }
  rewrite (bits_of_bytes_of_bits (length a)).
  - apply crc_error_syndrome. rewrite !bits_of_bytes_length. lia.
  - rewrite Hx; rewrite !bits_of_bytes_length; lia.
Qed.

(* every single-bit error of an n-byte message changes the checksum, provided the n*8
   single-bit syndromes are non-zero (a finite computation for each n) *)
Lemma crc32_flip_ne (l : list byte) (k : nat) :
  syndromes_nonzero (8 * length l) = true -> (k < 8 * length l)%nat ->
  crc32 (flip_bit k l) <> crc32 l.
Proof.
  intros Hs Hk E.
  unfold syndromes_nonzero in Hs. rewrite forallb_forall in Hs.
  specialize (Hs k). rewrite in_seq in Hs. specialize (Hs ltac:(lia)).
  apply negb_true_iff, N.eqb_neq in Hs. apply Hs. clear Hs.
  unfold syndrome.
  rewrite <- (crc_error_syndrome (bits_of_bytes l) (unit_bits (8 * length l) k)).
  2:{ rewrite bits_of_bytes_length, unit_bits_length. reflexivity. }
  rewrite <- (bits_of_bytes_length l) at 1.
  rewrite <- flip_nth_xor by (rewrite bits_of_bytes_length; exact Hk).
  rewrite <- bits_of_flip_bit. fold (crc32 (flip_bit k l)). fold (crc32 l).
  rewrite E. apply N.lxor_nilpotent.
Qed.

Lemma syndromes_nonzero_64 : syndromes_nonzero 64 = true.
Proof. vm_compute. reflexivity. Qed.

Lemma syndromes_nonzero_32 : syndromes_nonzero 32 = true.
Proof. vm_compute. reflexivity. Qed.

(* ---- the register stays within 32 bits ------------------------------------------ *)

Definition hi_clear (x : N) : Prop := forall i, 32 <= i -> N.testbit x i = false.

Lemma hi_clear_lt x : hi_clear x -> x < 2 ^ 32.
Proof.
  intros H. destruct (N.lt_ge_cases x (2 ^ 32)) as [|Hge]; [assumption|exfalso].
  assert (Hx : x <> 0) by (intros ->; cbv in Hge; congruence).
  pose proof (N.bit_log2 x Hx) as Hb.
  assert (32 <= N.log2 x) by (apply N.log2_le_pow2; [lia|exact Hge]).
  rewrite H in Hb by assumption. discriminate.
Qed.

Lemma lt_hi_clear x : x < 2 ^ 32 -> hi_clear x.
Proof.
  intros H i Hi. destruct (N.eq_dec x 0) as [->|Hx]; [apply N.bits_0|].
  apply N.bits_above_log2. apply N.log2_lt_pow2 in H; lia.
Qed.

Lemma step_bit_hi_clear s b : hi_clear s -> hi_clear (step_bit s b).
Proof.
  intros H i Hi. unfold step_bit. rewrite N.lxor_spec, N.shiftr_spec by lia.
  rewrite H by lia.
  destruct (xorb (N.odd s) b); [|rewrite N.bits_0; reflexivity].
  rewrite (lt_hi_clear POLY) by (cbv; reflexivity || assumption). reflexivity.
Qed.

Lemma feed_hi_clear bits : forall s, hi_clear s -> hi_clear (feed s bits).
Proof.
  unfold feed. induction bits as [|b bits IH]; intros s H; cbn [fold_left]; [exact H|].
  apply IH, step_bit_hi_clear, H.
Qed.

Lemma crc32_lt (l : list byte) : crc32 l < 2 ^ 32.
Proof.
  apply hi_clear_lt. unfold crc32. intros i Hi. rewrite N.lxor_spec.
  rewrite (feed_hi_clear _ 0xFFFFFFFF) by (apply lt_hi_clear; reflexivity) || exact Hi.
  - rewrite (lt_hi_clear 0xFFFFFFFF) by (reflexivity || exact Hi). reflexivity.
Qed.

(* ---- check value ---------------------------------------------------------------- *)

Lemma crc32_check_value :
  crc32 [x31; x32; x33; x34; x35; x36; x37; x38; x39] (* "123456789" *) = 0xCBF43926.
Proof. vm_compute. reflexivity. Qed.

Lemma crc32_empty : crc32 [] = 0.
Proof. vm_compute. reflexivity. Qed.
