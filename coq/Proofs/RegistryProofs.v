(* Lemmas about Model/Registry.v (C14): typing invariant of the registry machine over all
   schedules, linearizability with the lock / with warm types / with serialised first uses,
   deadlock freedom of the locked variant, and why same-goroutine recursion is safe. *)
From Coq Require Import List Arith Bool Lia.
From HV Require Import Model.Registry.
Import ListNotations.

(* ------------------------------------------------------------------------------------- *)
(* list helpers                                                                          *)
(* ------------------------------------------------------------------------------------- *)
Lemma nth_error_set_nth {A} (x : A) : forall n l k,
  nth_error (set_nth n x l) k =
  if Nat.eqb k n then match nth_error l n with Some _ => Some x | None => None end else nth_error l k.
Proof.
  induction n as [|n IH]; intros l k; destruct l as [|y r]; cbn [set_nth].
  - destruct k; cbn; reflexivity.
  - destruct k; cbn; reflexivity.
  - destruct k; cbn; [reflexivity|]. destruct (Nat.eqb k n); reflexivity.
  - destruct k; cbn [nth_error Nat.eqb]; [reflexivity|]. apply IH.
Qed.

Lemma set_nth_length {A} (x : A) : forall n l, length (set_nth n x l) = length l.
Proof. induction n; intros [|y r]; cbn; auto. Qed.

Lemma firstn_app_len {A} (a b : list A) n : length a = n -> firstn n (a ++ b) = a.
Proof. intros <-. rewrite firstn_app, Nat.sub_diag, firstn_all. cbn. apply app_nil_r. Qed.

Lemma skipn_app_len {A} (a b : list A) n : length a = n -> skipn n (a ++ b) = b.
Proof. intros <-. rewrite skipn_app, Nat.sub_diag, skipn_all. reflexivity. Qed.

Lemma Forall2_firstn {A B} (R : A -> B -> Prop) : forall n l1 l2,
  Forall2 R l1 l2 -> Forall2 R (firstn n l1) (firstn n l2).
Proof.
  induction n; intros l1 l2 H; cbn; [constructor|].
  inversion H; subst; constructor; auto.
Qed.

Lemma Forall2_skipn {A B} (R : A -> B -> Prop) : forall n l1 l2,
  Forall2 R l1 l2 -> Forall2 R (skipn n l1) (skipn n l2).
Proof.
  induction n; intros l1 l2 H; cbn; [exact H|].
  inversion H; subst; [constructor|auto].
Qed.

Lemma Forall2_rev' {A B} (R : A -> B -> Prop) : forall l1 l2,
  Forall2 R l1 l2 -> Forall2 R (rev l1) (rev l2).
Proof.
  induction 1; cbn; [constructor|]. apply Forall2_app; [assumption|]. constructor; [assumption|constructor].
Qed.

Lemma Forall2_nth {A B} (R : A -> B -> Prop) : forall l1 l2 n b,
  Forall2 R l1 l2 -> nth_error l2 n = Some b -> exists a, nth_error l1 n = Some a /\ R a b.
Proof.
  intros l1 l2 n b H. revert n. induction H; intros n Hn; destruct n; cbn in *; try discriminate.
  - inversion Hn; subst. eauto.
  - auto.
Qed.

Lemma Forall_set_nth {A} (P : A -> Prop) x : forall n l, Forall P l -> P x -> Forall P (set_nth n x l).
Proof.
  induction n; intros [|y r] H Hx; cbn; try constructor; inversion H; subst; auto.
Qed.

Lemma Forall2_set_nth_l {A B} (R : A -> B -> Prop) x : forall n l1 l2 b,
  Forall2 R l1 l2 -> nth_error l2 n = Some b -> R x b -> Forall2 R (set_nth n x l1) l2.
Proof.
  induction n; intros l1 l2 b H Hn Hx; inversion H; subst; cbn in *; try discriminate.
  - inversion Hn; subst. constructor; assumption.
  - constructor; [assumption|]. eapply IHn; eassumption.
Qed.

Ltac invs H :=
  match type of H with Some (?a, ?b) = Some (?c, ?d) => injection H as ? ?; subst c d end.

(* ------------------------------------------------------------------------------------- *)
(* typing of the machine                                                                 *)
(* ------------------------------------------------------------------------------------- *)
Definition etype (h : list encobj) (e : eid) (t : tid) : Prop :=
  exists o, nth_error h e = Some o /\ eo_type o = t.

Definition hext (h h' : list encobj) : Prop := forall e t, etype h e t -> etype h' e t.

Definition heap_ok (te : tenv) (h : list encobj) : Prop :=
  forall e o hs, nth_error h e = Some o -> eo_fields o = Some hs ->
                 Forall2 (etype h) hs (fields_of te (eo_type o)).

Definition map_ok (h : list encobj) (m : list (tid * eid)) : Prop :=
  Forall (fun p => etype h (snd p) (fst p)) m.

Fixpoint code_ok (te : tenv) (h : list encobj) (vs : list tid) (c : list instr) {struct c} : Prop :=
  match c with
  | [] => True
  | CGet t :: k => t < length te /\ code_ok te h (t :: vs) k
  | CNew t :: k => t < length te /\ code_ok te h (t :: vs) k
  | CHandler u :: k => u < length te /\ code_ok te h (u :: vs) k
  | CAssign t e n :: k =>
      n = length (fields_of te t) /\ etype h e t /\ firstn n vs = rev (fields_of te t) /\
      code_ok te h (skipn n vs) k
  | CPublish t e :: k => etype h e t /\ code_ok te h (t :: vs) k
  | CWriteTop v :: k =>
      wf_val te v /\ match vs with t :: r => t = ty_of v /\ code_ok te h r k | [] => False end
  | CWrite e v :: k => wf_val te v /\ etype h e (ty_of v) /\ code_ok te h vs k
  | CStuck :: k => False
  end.

Definition thread_ok (te : tenv) (h : list encobj) (th : thread) : Prop :=
  exists vs, Forall2 (etype h) (vst th) vs /\ code_ok te h vs (code th).

Definition shared_ok (te : tenv) (s : shared) : Prop :=
  heap_ok te (heap s) /\ map_ok (heap s) (named s) /\ map_ok (heap s) (complete s).

Definition state_ok (te : tenv) (st : state) : Prop :=
  shared_ok te (sh st) /\ Forall (thread_ok te (heap (sh st))) (threads st).

Lemma hext_refl h : hext h h.
Proof. intros e t H; exact H. Qed.

Lemma hext_app h o : hext h (h ++ [o]).
Proof.
  intros e t (o' & Hn & Ht). exists o'. split; [|exact Ht].
  rewrite nth_error_app1; [exact Hn|]. apply nth_error_Some. congruence.
Qed.

Lemma hext_assign h e hs : hext h (assign h e hs).
Proof.
  intros e' t (o' & Hn & Ht). unfold assign, etype. destruct (nth_error h e) as [o|] eqn:E; [|exists o'; auto].
  rewrite nth_error_set_nth. destruct (Nat.eqb e' e) eqn:Q.
  - apply Nat.eqb_eq in Q; subst e'. rewrite E. eexists; split; [reflexivity|]. cbn. congruence.
  - exists o'. auto.
Qed.

Lemma etype_Forall2_mono h h' l1 l2 : hext h h' -> Forall2 (etype h) l1 l2 -> Forall2 (etype h') l1 l2.
Proof. intros Hx H. induction H; constructor; auto. Qed.

Lemma code_ok_mono te h h' : hext h h' -> forall c vs, code_ok te h vs c -> code_ok te h' vs c.
Proof.
  intros Hx. induction c as [|i k IH]; intros vs H; [exact I|].
  destruct i; cbn [code_ok] in *.
  - destruct H; split; auto.
  - destruct H; split; auto.
  - destruct H; split; auto.
  - destruct H as (? & ? & ? & ?); repeat split; auto.
  - destruct H; split; auto.
  - destruct H as [? H]; split; [assumption|]. destruct vs; [exact H|]. destruct H; split; auto.
  - destruct H as (? & ? & ?); repeat split; auto.
  - exact H.
Qed.

Lemma thread_ok_mono te h h' th : hext h h' -> thread_ok te h th -> thread_ok te h' th.
Proof.
  intros Hx (vs & H1 & H2). exists vs. split; [eapply etype_Forall2_mono; eassumption|eapply code_ok_mono; eassumption].
Qed.

Lemma map_ok_mono h h' m : hext h h' -> map_ok h m -> map_ok h' m.
Proof. intros Hx H. unfold map_ok in *. eapply Forall_impl; [|exact H]. intros p Hp. apply Hx. exact Hp. Qed.

Lemma lookup_ok h m t e : map_ok h m -> lookup m t = Some e -> etype h e t.
Proof.
  unfold map_ok. induction m as [|[t' e'] r IH]; intros H L; cbn in L; [discriminate|].
  inversion H; subst. destruct (Nat.eqb t t') eqn:Q.
  - apply Nat.eqb_eq in Q; subst. inversion L; subst. assumption.
  - auto.
Qed.

Lemma code_ok_handlers te h rest : forall todo vs,
  Forall (fun u => u < length te) todo ->
  code_ok te h (rev todo ++ vs) rest -> code_ok te h vs (map CHandler todo ++ rest).
Proof.
  induction todo as [|u r IH]; intros vs Hf H; cbn [map app rev] in *; [exact H|].
  inversion Hf; subst. cbn [code_ok]. split; [assumption|].
  apply IH; [assumption|]. rewrite <- app_assoc in H. exact H.
Qed.

Lemma heap_ok_app te h o : heap_ok te h -> eo_fields o = None -> heap_ok te (h ++ [o]).
Proof.
  intros H Ho e o' hs Hn Hf.
  destruct (Nat.lt_ge_cases e (length h)) as [L|G].
  - rewrite nth_error_app1 in Hn by assumption.
    eapply etype_Forall2_mono; [apply hext_app|]. eapply H; eassumption.
  - rewrite nth_error_app2 in Hn by assumption. destruct (e - length h) as [|k]; cbn in Hn.
    + inversion Hn; subst. congruence.
    + destruct k; discriminate.
Qed.

Lemma heap_ok_assign te h e o hs :
  heap_ok te h -> nth_error h e = Some o -> Forall2 (etype h) hs (fields_of te (eo_type o)) ->
  heap_ok te (assign h e hs).
Proof.
  intros H He Hhs e' o' hs' Hn Hf. unfold assign in *. rewrite He in *.
  rewrite nth_error_set_nth in Hn. destruct (Nat.eqb e' e) eqn:Q.
  - rewrite He in Hn. inversion Hn; subst o'. cbn in Hf. inversion Hf; subst hs'. cbn [eo_type].
    eapply etype_Forall2_mono; [|exact Hhs].
    pose proof (hext_assign h e hs) as X. unfold assign in X. rewrite He in X. exact X.
  - eapply etype_Forall2_mono; [|eapply H; eassumption].
    pose proof (hext_assign h e hs) as X. unfold assign in X. rewrite He in X. exact X.
Qed.

Lemma wf_kids te t kids : wf_val te (SV t kids) ->
  t < length te /\
  Forall (fun p => nth_error (fields_of te t) (fst p) = Some (ty_of (snd p)) /\ wf_val te (snd p)) kids.
Proof.
  cbn [wf_val]. intros [Ht H]. split; [exact Ht|].
  induction kids as [|[i k] r IH]; [constructor|].
  destruct H as (H1 & H2 & H3). constructor; [split; assumption|]. apply IH. exact H3.
Qed.

Definition wf_tenv' (te : tenv) : Prop := forall t, Forall (fun u => u < length te) (fields_of te t).

Lemma wf_tenv_fields te : wf_tenv te -> wf_tenv' te.
Proof.
  intros H t. unfold fields_of. unfold wf_tenv in H.
  destruct (nth_error te t) as [fs|] eqn:E.
  - rewrite (nth_error_nth _ _ _ E). rewrite Forall_forall in H. apply H. eapply nth_error_In; eassumption.
  - rewrite nth_overflow; [constructor|]. apply nth_error_None. exact E.
Qed.

(* the calls made by structEncoder.Write through well-typed handlers *)
Definition calls_of (hs : list eid) (kids : list (nat * sval)) : list instr :=
  map (fun p : nat * sval => match nth_error hs (fst p) with
                             | Some h => CWrite h (snd p)
                             | None => CStuck
                             end) kids.

Lemma calls_ok te h hs t : Forall2 (etype h) hs (fields_of te t) ->
  forall kids vs k,
  Forall (fun p => nth_error (fields_of te t) (fst p) = Some (ty_of (snd p)) /\ wf_val te (snd p)) kids ->
  code_ok te h vs k -> code_ok te h vs (calls_of hs kids ++ k).
Proof.
  intros Hhs. induction kids as [|[i v] r IH]; intros vs k Hk Hc; cbn [calls_of map app]; [exact Hc|].
  inversion Hk as [|? ? [Hi Hv] Hr]; subst. cbn [fst snd] in *.
  destruct (Forall2_nth _ _ _ _ _ Hhs Hi) as (a & Ha & Hta). rewrite Ha. cbn [code_ok].
  repeat split; try assumption. apply IH; assumption.
Qed.

(* one step of one goroutine preserves the typing, in either variant, under any shared state *)
Lemma tstep_ok te locked i s th s' th' :
  wf_tenv' te -> shared_ok te s -> thread_ok te (heap s) th ->
  tstep te locked i s th = Some (s', th') ->
  shared_ok te s' /\ thread_ok te (heap s') th' /\ hext (heap s) (heap s').
Proof.
  intros Hte (Hh & Hn & Hc) (vs & Hv & Hco) Hs. unfold tstep in Hs.
  destruct (code th) as [|ins k] eqn:Ecode; [discriminate|].
  destruct ins; cbn [code_ok] in Hco.
  - (* CGet *)
    destruct Hco as [Ht Hk]. destruct (lookup (complete s) t) as [e|] eqn:L; invs Hs.
    + split; [repeat split; assumption|]. split; [|apply hext_refl].
      exists (t :: vs). cbn [vst code]. split; [|exact Hk]. constructor; [|exact Hv]. eapply lookup_ok; [exact Hc|exact L].
    + split; [repeat split; assumption|]. split; [|apply hext_refl].
      exists vs. cbn [vst code code_ok]. auto.
  - (* CNew *)
    destruct Hco as [Ht Hk]. invs Hs. cbn [heap named complete vst code].
    set (o := mk_encobj t i None). set (h' := heap s ++ [o]).
    assert (Hx : hext (heap s) h') by apply hext_app.
    assert (He : etype h' (length (heap s)) t).
    { exists o. split; [|reflexivity]. unfold h'. rewrite nth_error_app2 by lia. rewrite Nat.sub_diag. reflexivity. }
    split; [|split; [|exact Hx]].
    + repeat split.
      * apply heap_ok_app; [exact Hh|reflexivity].
      * constructor; [exact He|]. eapply map_ok_mono; eassumption.
      * eapply map_ok_mono; eassumption.
    + exists vs. split; [eapply etype_Forall2_mono; eassumption|].
      apply code_ok_handlers; [apply Hte|]. cbn [code_ok].
      split; [reflexivity|]. split; [exact He|].
      split; [apply firstn_app_len; apply rev_length|].
      rewrite skipn_app_len by apply rev_length. split; [exact He|]. eapply code_ok_mono; eassumption.
  - (* CHandler *)
    destruct Hco as [Ht Hk]. destruct (lookup (named s) u) as [e|] eqn:L; invs Hs.
    + split; [repeat split; assumption|]. split; [|apply hext_refl].
      exists (u :: vs). cbn [vst code]. split; [|exact Hk]. constructor; [|exact Hv]. eapply lookup_ok; [exact Hn|exact L].
    + split; [repeat split; assumption|]. split; [|apply hext_refl].
      exists vs. cbn [vst code code_ok]. auto.
  - (* CAssign *)
    destruct Hco as (Hnn & (o & Ho & Hot) & Hfirst & Hk). subst n t. invs Hs. cbn [heap named complete vst code].
    set (hs := rev (firstn (length (fields_of te (eo_type o))) (vst th))).
    assert (Hhs : Forall2 (etype (heap s)) hs (fields_of te (eo_type o))).
    { pose proof (Forall2_firstn _ (length (fields_of te (eo_type o))) _ _ Hv) as F.
      rewrite Hfirst in F. apply Forall2_rev' in F. rewrite rev_involutive in F. exact F. }
    assert (Hx : hext (heap s) (assign (heap s) e hs)) by apply hext_assign.
    split; [|split; [|exact Hx]].
    + repeat split.
      * eapply heap_ok_assign; eassumption.
      * eapply map_ok_mono; eassumption.
      * eapply map_ok_mono; eassumption.
    + exists (skipn (length (fields_of te (eo_type o))) vs). split.
      * eapply etype_Forall2_mono; [exact Hx|]. apply Forall2_skipn. exact Hv.
      * eapply code_ok_mono; eassumption.
  - (* CPublish *)
    destruct Hco as [He Hk]. invs Hs. cbn [heap named complete vst code].
    split; [|split; [|apply hext_refl]].
    + repeat split; try assumption. constructor; assumption.
    + exists (t :: vs). split; [constructor; assumption|exact Hk].
  - (* CWriteTop *)
    destruct Hco as [Hw Hk]. destruct vs as [|t r]; [contradiction|]. destruct Hk as [Ht Hk].
    inversion Hv as [|e ? vr ? He Hvr Evst]; subst. rewrite <- Evst in Hs. invs Hs.
    split; [repeat split; assumption|]. split; [|apply hext_refl].
    exists r. cbn [vst code code_ok]. repeat split; assumption.
  - (* CWrite *)
    destruct Hco as (Hw & (o & Ho & Hot) & Hk). destruct v as [t kids]. rewrite Ho in Hs.
    destruct (eo_fields o) as [hs|] eqn:Ef.
    + invs Hs. split; [repeat split; assumption|]. split; [|apply hext_refl].
      exists vs. cbn [vst code]. split; [exact Hv|].
      destruct (wf_kids te t kids Hw) as [_ Hkids]. cbn [ty_of] in Hot. subst t.
      apply (calls_ok te (heap s) hs (eo_type o)); [eapply Hh; eassumption|exact Hkids|exact Hk].
    + destruct locked; [discriminate|]. invs Hs.
      split; [repeat split; assumption|]. split; [|apply hext_refl].
      exists vs. cbn [vst code]. auto.
  - contradiction.
Qed.

Lemma step_ok te locked st i st' :
  wf_tenv' te -> state_ok te st -> step te locked st i = Some st' -> state_ok te st'.
Proof.
  intros Hte [Hs Ht] H. unfold step in H.
  destruct (nth_error (threads st) i) as [th|] eqn:E; [|discriminate].
  destruct (tstep te locked i (sh st) th) as [[s' th']|] eqn:T; [|discriminate].
  inversion H; subst; clear H. cbn [sh threads].
  assert (Hth : thread_ok te (heap (sh st)) th).
  { rewrite Forall_forall in Ht. apply Ht. eapply nth_error_In; eassumption. }
  destruct (tstep_ok te locked i (sh st) th s' th' Hte Hs Hth T) as (H1 & H2 & H3).
  split; [exact H1|]. apply Forall_set_nth; [|exact H2].
  eapply Forall_impl; [|exact Ht]. intros a Ha. eapply thread_ok_mono; eassumption.
Qed.

Lemma run_ok te locked : forall sched st st',
  wf_tenv' te -> state_ok te st -> run te locked st sched = Some st' -> state_ok te st'.
Proof.
  induction sched as [|i r IH]; intros st st' Hte Hok H; cbn [run] in H.
  - inversion H; subst; exact Hok.
  - destruct (step te locked st i) as [st1|] eqn:E; [|discriminate].
    eapply IH; [exact Hte| |exact H]. eapply step_ok; eassumption.
Qed.

Lemma marshal_ok te h v : wf_val te v -> thread_ok te h (marshal v).
Proof.
  intros Hw. exists []. unfold marshal. cbn [vst code code_ok]. split; [constructor|]. destruct v as [t kids].
  destruct (wf_kids te t kids Hw) as [Ht _]. cbn [ty_of]. split; [exact Ht|]. split; [exact Hw|]. split; [reflexivity|exact I].
Qed.

Lemma marshal_threads_ok te h vs : Forall (wf_val te) vs -> Forall (thread_ok te h) (map marshal vs).
Proof. induction 1; cbn; constructor; auto using marshal_ok. Qed.

Lemma init_ok te vs : Forall (wf_val te) vs -> state_ok te (init vs).
Proof.
  intros H. split.
  - repeat split; cbn; try constructor. intros e o hs Hn. destruct e; discriminate.
  - apply marshal_threads_ok. exact H.
Qed.

(* ------------------------------------------------------------------------------------- *)
(* outputs                                                                               *)
(* ------------------------------------------------------------------------------------- *)
Fixpoint pend (c : list instr) : list tok :=
  match c with
  | [] => []
  | CWriteTop v :: k => seq_out v ++ pend k
  | CWrite _ v :: k => seq_out v ++ pend k
  | _ :: k => pend k
  end.

Lemma pend_app a b : pend (a ++ b) = pend a ++ pend b.
Proof.
  induction a as [|i k IH]; [reflexivity|]. destruct i; cbn [app pend]; rewrite ?IH, ?app_assoc; reflexivity.
Qed.

Lemma pend_handlers l : pend (map CHandler l) = [].
Proof. induction l; cbn; auto. Qed.

Lemma pend_calls te h hs t : Forall2 (etype h) hs (fields_of te t) ->
  forall kids,
  Forall (fun p => nth_error (fields_of te t) (fst p) = Some (ty_of (snd p)) /\ wf_val te (snd p)) kids ->
  pend (calls_of hs kids) = flat_map (fun p : nat * sval => seq_out (snd p)) kids.
Proof.
  intros Hhs. induction kids as [|[i v] r IH]; intros Hk; [reflexivity|].
  inversion Hk as [|? ? [Hi Hv] Hr]; subst. cbn [fst snd] in *. cbn [calls_of map flat_map].
  destruct (Forall2_nth _ _ _ _ _ Hhs Hi) as (a & Ha & _). cbn [fst snd]. rewrite Ha. cbn [pend].
  f_equal. apply IH. exact Hr.
Qed.

(* the step that writes through a half-built coder *)
Definition halfstep (s : shared) (th : thread) : bool :=
  match code th with
  | CWrite e _ :: _ =>
      match nth_error (heap s) e with
      | Some o => match eo_fields o with None => true | Some _ => false end
      | None => false
      end
  | _ => false
  end.

Definition total (th : thread) : list tok := out th ++ pend (code th).

(* every other step keeps "already written ++ still to write" unchanged *)
Lemma tstep_total te locked i s th s' th' :
  shared_ok te s -> thread_ok te (heap s) th -> halfstep s th = false ->
  tstep te locked i s th = Some (s', th') -> total th' = total th.
Proof.
  intros (Hh & Hn & Hc) (vs & Hv & Hco) Hhalf Hs. unfold tstep in Hs. unfold halfstep in Hhalf. unfold total.
  destruct (code th) as [|ins k] eqn:Ecode; [discriminate|].
  destruct ins; cbn [code_ok] in Hco.
  - destruct (lookup (complete s) t); invs Hs; reflexivity.
  - invs Hs. cbn [out code]. rewrite pend_app, pend_handlers. reflexivity.
  - destruct (lookup (named s) u); invs Hs; reflexivity.
  - invs Hs; reflexivity.
  - invs Hs; reflexivity.
  - destruct Hco as [Hw Hk]. destruct vs as [|t r]; [contradiction|].
    inversion Hv as [|e ? vr ? He Hvr Evst]; subst. rewrite <- Evst in Hs. invs Hs; reflexivity.
  - destruct Hco as (Hw & (o & Ho & Hot) & Hk). destruct v as [t kids]. rewrite Ho in Hs, Hhalf.
    destruct (eo_fields o) as [hs|] eqn:Ef; [|discriminate].
    invs Hs. cbn [out code].
    destruct (wf_kids te t kids Hw) as [_ Hkids]. cbn [ty_of] in Hot. subst t.
    fold (calls_of hs kids). rewrite pend_app.
    rewrite (pend_calls te (heap s) hs (eo_type o)); [|eapply Hh; eassumption|exact Hkids].
    cbn [pend seq_out]. rewrite <- !app_assoc. reflexivity.
  - contradiction.
Qed.

(* per-state output invariant: thread k still totals the sequential output of its value *)
Definition outs_ok (vs : list sval) (ths : list thread) : Prop :=
  Forall2 (fun th v => total th = seq_out v) ths vs.

Lemma init_outs vs : outs_ok vs (map marshal vs).
Proof.
  induction vs as [|v r IH]; cbn; constructor; [|exact IH].
  unfold total. cbn. apply app_nil_r.
Qed.

Lemma outs_set_nth vs ths i th th' :
  outs_ok vs ths -> nth_error ths i = Some th -> total th' = total th -> outs_ok vs (set_nth i th' ths).
Proof.
  intros H. revert i. induction H as [|a v l1 l2 Ha Hr IH]; intros i Hn Ht; destruct i; cbn in *; try discriminate.
  - inversion Hn; subst. constructor; [congruence|assumption].
  - constructor; [assumption|]. apply IH; assumption.
Qed.

(* ------------------------------------------------------------------------------------- *)
(* phases and owners                                                                     *)
(* ------------------------------------------------------------------------------------- *)
Definition is_build (i : instr) : bool :=
  match i with CGet _ | CNew _ | CHandler _ | CAssign _ _ _ | CPublish _ _ => true | _ => false end.
Definition is_write (i : instr) : bool :=
  match i with CWrite _ _ | CStuck => true | _ => false end.

Definition phase_ok (c : list instr) : Prop :=
  (exists b v, c = b ++ [CWriteTop v] /\ forallb is_build b = true) \/ forallb is_write c = true.

Definition pending_assign (c : list instr) (e : eid) : bool :=
  existsb (fun i => match i with CAssign _ e' _ => Nat.eqb e e' | _ => false end) c.

Lemma write_no_pending c e : forallb is_write c = true -> pending_assign c e = false.
Proof.
  induction c as [|i k IH]; intros H; [reflexivity|]. cbn in H. apply andb_prop in H as [Hi Hk].
  cbn. destruct i; try discriminate; cbn; auto.
Qed.

Lemma pending_app a b e : pending_assign (a ++ b) e = pending_assign a e || pending_assign b e.
Proof. unfold pending_assign. apply existsb_app. Qed.

Lemma pending_handlers l e : pending_assign (map CHandler l) e = false.
Proof. induction l; cbn; auto. Qed.

Lemma calls_write hs kids : forallb is_write (calls_of hs kids) = true.
Proof. induction kids as [|[i v] r IH]; cbn; [reflexivity|]. destruct (nth_error hs i); cbn; exact IH. Qed.

Lemma handlers_build l : forallb is_build (map CHandler l) = true.
Proof. induction l; cbn; auto. Qed.

(* every coder that is published but not assigned is being built by its owner *)
Definition owners_ok (st : state) : Prop :=
  forall e o, nth_error (heap (sh st)) e = Some o -> eo_fields o = None ->
    exists th, nth_error (threads st) (eo_owner o) = Some th /\ pending_assign (code th) e = true.

Definition phases_ok (st : state) : Prop := Forall (fun th => phase_ok (code th)) (threads st).

Lemma tstep_phase te locked i s th s' th' :
  phase_ok (code th) -> tstep te locked i s th = Some (s', th') -> phase_ok (code th').
Proof.
  intros Hp Hs. unfold tstep in Hs. destruct (code th) as [|ins k] eqn:Ecode; [discriminate|].
  destruct Hp as [(b & v & Eb & Hb)|Hw].
  - (* build phase *)
    destruct b as [|ib b'].
    + cbn in Eb. inversion Eb; subst ins k.
      destruct (vst th) as [|e r]; invs Hs; right; reflexivity.
    + cbn in Eb. inversion Eb; subst ins k. cbn in Hb. apply andb_prop in Hb as [Hib Hb'].
      destruct ib; try discriminate.
      * destruct (lookup (complete s) t); invs Hs; left; cbn [code].
        -- exists b', v. auto.
        -- exists (CNew t :: b'), v. split; [reflexivity|exact Hb'].
      * invs Hs; left; cbn [code].
        exists (map CHandler (fields_of te t) ++ CAssign t (length (heap s)) (length (fields_of te t)) :: CPublish t (length (heap s)) :: b'), v.
        split; [rewrite <- app_assoc; reflexivity|]. rewrite forallb_app, handlers_build. cbn. exact Hb'.
      * destruct (lookup (named s) u); invs Hs; left; cbn [code].
        -- exists b', v. auto.
        -- exists (CGet u :: b'), v. split; [reflexivity|exact Hb'].
      * invs Hs; left; cbn [code]. exists b', v. auto.
      * invs Hs; left; cbn [code]. exists b', v. auto.
  - (* write phase *)
    cbn in Hw. apply andb_prop in Hw as [Hi Hk]. destruct ins; try discriminate.
    + destruct v as [t kids]. destruct (nth_error (heap s) e) as [o|]; [|invs Hs; right; exact Hk].
      destruct (eo_fields o) as [hs|].
      * invs Hs; right; cbn [code]. fold (calls_of hs kids). rewrite forallb_app, calls_write. exact Hk.
      * destruct locked; [discriminate|]. invs Hs; right; exact Hk.
    + invs Hs; right; exact Hk.
Qed.

Lemma marshal_phase v : phase_ok (code (marshal v)).
Proof. left. exists [CGet (ty_of v)], v. split; reflexivity. Qed.

(* effect of a step on the heap, as far as unassigned coders are concerned *)
Lemma tstep_heap te locked i s th s' th' :
  tstep te locked i s th = Some (s', th') ->
  (* either the heap is unchanged ... *)
  (heap s' = heap s /\ (forall e, pending_assign (code th) e = true -> pending_assign (code th') e = true))
  (* ... or one placeholder owned by i was added, with its assignment pending ... *)
  \/ (exists t, heap s' = heap s ++ [mk_encobj t i None] /\
                pending_assign (code th') (length (heap s)) = true /\
                (forall e, pending_assign (code th) e = true -> pending_assign (code th') e = true))
  (* ... or the coder e was assigned *)
  \/ (exists e hs, heap s' = assign (heap s) e hs /\
                   (forall e', e' <> e -> pending_assign (code th) e' = true -> pending_assign (code th') e' = true)).
Proof.
  intros Hs. unfold tstep in Hs. destruct (code th) as [|ins k] eqn:Ecode; [discriminate|].
  destruct ins.
  - left. destruct (lookup (complete s) t); invs Hs; split; auto.
  - right; left. invs Hs. exists t. cbn [heap code]. split; [reflexivity|]. split.
    + rewrite pending_app, pending_handlers. cbn. rewrite Nat.eqb_refl. reflexivity.
    + intros e He. cbn in He. rewrite pending_app. cbn. rewrite He. rewrite !orb_true_r. reflexivity.
  - left. destruct (lookup (named s) u); invs Hs; split; auto.
  - right; right. invs Hs. exists e, (rev (firstn n (vst th))). cbn [heap code]. split; [reflexivity|].
    intros e' Hne He. cbn in He. destruct (Nat.eqb e' e) eqn:Q; [apply Nat.eqb_eq in Q; contradiction|]. exact He.
  - left. invs Hs; split; auto.
  - left. destruct (vst th); invs Hs; split; auto.
  - left. destruct v as [t kids]. destruct (nth_error (heap s) e) as [o|]; [|invs Hs; split; auto].
    destruct (eo_fields o) as [hs|].
    + invs Hs; split; [reflexivity|]. intros e' He. cbn [code]. unfold pending_assign in *. cbn in He.
      rewrite existsb_app, He. apply orb_true_r.
    + destruct locked; [discriminate|]. invs Hs; split; auto.
  - left. invs Hs; split; auto.
Qed.

Lemma nth_error_assign h e hs k o :
  nth_error (assign h e hs) k = Some o ->
  (k = e /\ eo_fields o = Some hs /\ exists o0, nth_error h e = Some o0) \/ (nth_error h k = Some o).
Proof.
  unfold assign. destruct (nth_error h e) as [o0|] eqn:E; [|auto].
  rewrite nth_error_set_nth. destruct (Nat.eqb k e) eqn:Q.
  - apply Nat.eqb_eq in Q; subst. rewrite E. intros H; inversion H; subst. left. cbn. eauto.
  - auto.
Qed.

Lemma step_owners te locked st i st' :
  i < length (threads st) -> owners_ok st -> step te locked st i = Some st' -> owners_ok st'.
Proof.
  intros Hi Ho H. unfold step in H.
  destruct (nth_error (threads st) i) as [th|] eqn:E; [|discriminate].
  destruct (tstep te locked i (sh st) th) as [[s' th']|] eqn:T; [|discriminate].
  inversion H; subst; clear H. unfold owners_ok in *. cbn [sh threads].
  assert (Hget : forall j tj, nth_error (threads st) j = Some tj ->
            exists tj', nth_error (set_nth i th' (threads st)) j = Some tj' /\
                        (j <> i -> tj' = tj) /\ (j = i -> tj' = th')).
  { intros j tj Hj. rewrite nth_error_set_nth. destruct (Nat.eqb j i) eqn:Q.
    - apply Nat.eqb_eq in Q; subst j. rewrite E. eexists; split; [reflexivity|]. split; [congruence|auto].
    - apply Nat.eqb_neq in Q. exists tj. split; [exact Hj|]. split; [auto|congruence]. }
  destruct (tstep_heap te locked i (sh st) th s' th' T) as [[Hh Hp]|[(t & Hh & Hnew & Hp)|(e0 & hs & Hh & Hp)]].
  - intros e o Hn Hf. rewrite Hh in Hn. destruct (Ho e o Hn Hf) as (tj & Hj & Hpj).
    destruct (Hget _ _ Hj) as (tj' & Hj' & Hne & Heq). exists tj'. split; [exact Hj'|].
    destruct (Nat.eq_dec (eo_owner o) i) as [Q|Q].
    + rewrite (Heq Q). apply Hp. rewrite Q in Hj. congruence.
    + rewrite (Hne Q). exact Hpj.
  - intros e o Hn Hf. rewrite Hh in Hn.
    destruct (Nat.lt_ge_cases e (length (heap (sh st)))) as [L|G].
    + rewrite nth_error_app1 in Hn by assumption. destruct (Ho e o Hn Hf) as (tj & Hj & Hpj).
      destruct (Hget _ _ Hj) as (tj' & Hj' & Hne & Heq). exists tj'. split; [exact Hj'|].
      destruct (Nat.eq_dec (eo_owner o) i) as [Q|Q].
      * rewrite (Heq Q). apply Hp. rewrite Q in Hj. congruence.
      * rewrite (Hne Q). exact Hpj.
    + rewrite nth_error_app2 in Hn by assumption.
      destruct (e - length (heap (sh st))) as [|d] eqn:D; [|destruct d; discriminate].
      cbn in Hn. inversion Hn; subst o. cbn [eo_owner].
      destruct (Hget _ _ E) as (tj' & Hj' & _ & Heq). exists tj'. split; [exact Hj'|].
      rewrite (Heq eq_refl). assert (e = length (heap (sh st))) as -> by lia. exact Hnew.
  - intros e o Hn Hf. rewrite Hh in Hn.
    destruct (nth_error_assign _ _ _ _ _ Hn) as [(Ek & Hf' & _)|Hold]; [congruence|].
    destruct (Ho e o Hold Hf) as (tj & Hj & Hpj).
    destruct (Hget _ _ Hj) as (tj' & Hj' & Hne & Heq). exists tj'. split; [exact Hj'|].
    destruct (Nat.eq_dec (eo_owner o) i) as [Q|Q].
    + rewrite (Heq Q). apply Hp.
      * intros ->. unfold assign in Hn. destruct (nth_error (heap (sh st)) e0) as [o0|] eqn:E0.
        -- rewrite nth_error_set_nth, Nat.eqb_refl, E0 in Hn. inversion Hn; subst o. discriminate.
        -- congruence.
      * rewrite Q in Hj. congruence.
    + rewrite (Hne Q). exact Hpj.
Qed.

Lemma step_phases te locked st i st' :
  phases_ok st -> step te locked st i = Some st' -> phases_ok st'.
Proof.
  intros Hp H. unfold step in H.
  destruct (nth_error (threads st) i) as [th|] eqn:E; [|discriminate].
  destruct (tstep te locked i (sh st) th) as [[s' th']|] eqn:T; [|discriminate].
  inversion H; subst; clear H. unfold phases_ok in *. cbn [threads].
  apply Forall_set_nth; [exact Hp|]. eapply tstep_phase; [|exact T].
  rewrite Forall_forall in Hp. apply Hp. eapply nth_error_In; eassumption.
Qed.

Lemma step_length te locked st i st' : step te locked st i = Some st' -> length (threads st') = length (threads st).
Proof.
  intros H. unfold step in H. destruct (nth_error (threads st) i); [|discriminate].
  destruct (tstep te locked i (sh st) t) as [[? ?]|]; [|discriminate]. inversion H; subst. cbn. apply set_nth_length.
Qed.

Lemma step_lt te locked st i st' : step te locked st i = Some st' -> i < length (threads st).
Proof.
  intros H. unfold step in H. destruct (nth_error (threads st) i) eqn:E; [|discriminate].
  apply nth_error_Some. congruence.
Qed.

(* ------------------------------------------------------------------------------------- *)
(* the combined invariant and the three linearizability results                          *)
(* ------------------------------------------------------------------------------------- *)
Record inv (te : tenv) (vs : list sval) (st : state) : Prop := mk_inv {
  inv_ok : state_ok te st;
  inv_owners : owners_ok st;
  inv_phases : phases_ok st;
  inv_outs : outs_ok vs (threads st)
}.

Lemma init_inv te vs : Forall (wf_val te) vs -> inv te vs (init vs).
Proof.
  intros H. constructor.
  - apply init_ok; exact H.
  - intros e o Hn. destruct e; discriminate.
  - unfold phases_ok. cbn. induction vs; cbn; constructor; auto using marshal_phase.
    apply IHvs. inversion H; assumption.
  - apply init_outs.
Qed.

(* a step that is not a half step preserves everything *)
Lemma step_inv te locked vs st i st' th :
  wf_tenv' te -> inv te vs st -> nth_error (threads st) i = Some th -> halfstep (sh st) th = false ->
  step te locked st i = Some st' -> inv te vs st'.
Proof.
  intros Hte [Hok Hown Hph Hout] Hth Hhalf Hs. constructor.
  - eapply step_ok; eassumption.
  - eapply step_owners; [eapply step_lt; eassumption|exact Hown|exact Hs].
  - eapply step_phases; eassumption.
  - unfold step in Hs. rewrite Hth in Hs.
    destruct (tstep te locked i (sh st) th) as [[s' th']|] eqn:T; [|discriminate].
    inversion Hs; subst st'; clear Hs. cbn [threads]. eapply outs_set_nth; [exact Hout|exact Hth|].
    destruct Hok as [Hsok Htok].
    eapply tstep_total; [exact Hsok| |exact Hhalf|exact T].
    rewrite Forall_forall in Htok. apply Htok. eapply nth_error_In; eassumption.
Qed.

(* with the lock, a half step is simply not enabled *)
Lemma locked_not_half te i s th r : tstep te true i s th = Some r -> halfstep s th = false.
Proof.
  unfold tstep, halfstep. destruct (code th) as [|ins k]; [discriminate|]. destruct ins; try reflexivity.
  destruct v as [t kids]. destruct (nth_error (heap s) e) as [o|]; [|reflexivity].
  destruct (eo_fields o); [reflexivity|discriminate].
Qed.

Lemma locked_run_inv te vs : wf_tenv' te -> forall sched st st',
  inv te vs st -> run te true st sched = Some st' -> inv te vs st'.
Proof.
  intros Hte. induction sched as [|i r IH]; intros st st' Hinv H; cbn [run] in H.
  - inversion H; subst; exact Hinv.
  - destruct (step te true st i) as [st1|] eqn:E; [|discriminate].
    eapply IH; [|exact H].
    pose proof E as E'. unfold step in E'. destruct (nth_error (threads st) i) as [th|] eqn:Eth; [|discriminate].
    destruct (tstep te true i (sh st) th) as [rr|] eqn:T; [|discriminate].
    eapply step_inv; [exact Hte|exact Hinv|exact Eth| |exact E].
    eapply locked_not_half; exact T.
Qed.

Lemma finished_total st : finished st = true -> Forall (fun th => total th = out th) (threads st).
Proof.
  unfold finished. intros H. rewrite forallb_forall in H. apply Forall_forall. intros th Hin.
  specialize (H th Hin). unfold total. destruct (code th); [cbn; apply app_nil_r|discriminate].
Qed.

Lemma outs_finished vs st : outs_ok vs (threads st) -> finished st = true ->
  map out (threads st) = map seq_out vs.
Proof.
  intros H Hf. pose proof (finished_total st Hf) as Ht. revert Ht.
  induction H as [|th v l1 l2 Ha Hr IH]; intros Ht; [reflexivity|].
  inversion Ht; subst. cbn [map]. f_equal; [congruence|auto].
Qed.

(* (1) decoder side / encoder with the proposed lock: every schedule *)
Lemma locked_linearizable te vs sched st :
  wf_tenv te -> Forall (wf_val te) vs -> run te true (init vs) sched = Some st ->
  outs_ok vs (threads st) /\ (finished st = true -> map out (threads st) = map seq_out vs).
Proof.
  intros Hte Hv H. pose proof (locked_run_inv te vs (wf_tenv_fields te Hte) sched _ _ (init_inv te vs Hv) H) as [_ _ _ Ho].
  split; [exact Ho|]. apply outs_finished. exact Ho.
Qed.

(* (1b) and it cannot deadlock: while somebody is not done, somebody can move *)
Lemma build_head_enabled te locked i s th :
  (exists b v, code th = b ++ [CWriteTop v] /\ forallb is_build b = true) -> tstep te locked i s th <> None.
Proof.
  intros (b & v & Eb & Hb). unfold tstep. rewrite Eb. destruct b as [|ib b']; cbn [app].
  - destruct (vst th); discriminate.
  - cbn in Hb. apply andb_prop in Hb as [Hib _]. destruct ib; try discriminate.
    + destruct (lookup (complete s) t); discriminate.
    + destruct (lookup (named s) u); discriminate.
Qed.

Lemma locked_deadlock_free te vs sched st :
  wf_tenv te -> Forall (wf_val te) vs -> run te true (init vs) sched = Some st ->
  finished st = false -> exists i, step te true st i <> None.
Proof.
  intros Hte Hv H Hnf.
  pose proof (locked_run_inv te vs (wf_tenv_fields te Hte) sched _ _ (init_inv te vs Hv) H) as [Hok Hown Hph _].
  unfold finished in Hnf.
  assert (exists j th, nth_error (threads st) j = Some th /\ code th <> []) as (j & th & Hj & Hc).
  { clear - Hnf. induction (threads st) as [|a l IH]; cbn in Hnf; [discriminate|].
    destruct (code a) eqn:Ea.
    - cbn in Hnf. destruct (IH Hnf) as (j & th & Hj & Hc). exists (S j), th. auto.
    - exists 0, a. split; [reflexivity|congruence]. }
  assert (Hpj : phase_ok (code th)).
  { unfold phases_ok in Hph. rewrite Forall_forall in Hph. apply Hph. eapply nth_error_In; eassumption. }
  destruct Hpj as [Hb|Hw].
  - exists j. unfold step. rewrite Hj. pose proof (build_head_enabled te true j (sh st) th Hb) as X.
    destruct (tstep te true j (sh st) th) as [[? ?]|]; [discriminate|contradiction].
  - destruct (code th) as [|ins k] eqn:Ecode; [contradiction|]. cbn in Hw. apply andb_prop in Hw as [Hi Hk].
    destruct ins; try discriminate.
    + (* CWrite e v: enabled unless e is unassigned; then its owner is building and can move *)
      destruct v as [t kids]. destruct (nth_error (heap (sh st)) e) as [o|] eqn:Ee.
      * destruct (eo_fields o) as [hs|] eqn:Ef.
        -- exists j. unfold step. rewrite Hj. unfold tstep. rewrite Ecode, Ee, Ef. discriminate.
        -- destruct (Hown e o Ee Ef) as (tk & Hk' & Hpend).
           assert (Hpk : phase_ok (code tk)).
           { unfold phases_ok in Hph. rewrite Forall_forall in Hph. apply Hph. eapply nth_error_In; eassumption. }
           destruct Hpk as [Hb|Hw'].
           ++ exists (eo_owner o). unfold step. rewrite Hk'.
              pose proof (build_head_enabled te true (eo_owner o) (sh st) tk Hb) as X.
              destruct (tstep te true (eo_owner o) (sh st) tk) as [[? ?]|]; [discriminate|contradiction].
           ++ rewrite (write_no_pending _ e Hw') in Hpend. discriminate.
      * exists j. unfold step. rewrite Hj. unfold tstep. rewrite Ecode, Ee. discriminate.
    + exists j. unfold step. rewrite Hj. unfold tstep. rewrite Ecode. discriminate.
Qed.

(* (2) unlocked encoder, first uses serialised: a goroutine moves only while every unassigned
   coder is its own *)
Lemma isolated_not_half st i th :
  owners_ok st -> phases_ok st -> nth_error (threads st) i = Some th ->
  others_built (sh st) i = true -> halfstep (sh st) th = false.
Proof.
  intros Hown Hph Hth Hoth. unfold halfstep.
  destruct (code th) as [|ins k] eqn:Ecode; [reflexivity|]. destruct ins; try reflexivity.
  destruct (nth_error (heap (sh st)) e) as [o|] eqn:Ee; [|reflexivity].
  destruct (eo_fields o) eqn:Ef; [reflexivity|]. exfalso.
  unfold others_built in Hoth. rewrite forallb_forall in Hoth.
  specialize (Hoth o (nth_error_In _ _ Ee)). rewrite Ef in Hoth. apply Nat.eqb_eq in Hoth.
  destruct (Hown e o Ee Ef) as (tk & Hk & Hpend). rewrite Hoth, Hth in Hk. inversion Hk; subst tk.
  assert (Hp : phase_ok (code th)).
  { unfold phases_ok in Hph. rewrite Forall_forall in Hph. apply Hph. eapply nth_error_In; eassumption. }
  destruct Hp as [(b & v' & Eb & Hb)|Hw].
  - rewrite Ecode in Eb. destruct b as [|ib b']; cbn in Eb; inversion Eb; subst. cbn in Hb. discriminate.
  - rewrite (write_no_pending _ e Hw) in Hpend. discriminate.
Qed.

Lemma isolated_run_inv te vs : wf_tenv' te -> forall sched st st',
  inv te vs st -> isolated te st sched = true -> run te false st sched = Some st' -> inv te vs st'.
Proof.
  intros Hte. induction sched as [|i r IH]; intros st st' Hinv Hiso H; cbn [run] in H.
  - inversion H; subst; exact Hinv.
  - cbn [isolated] in Hiso. apply andb_prop in Hiso as [Hoth Hrest].
    destruct (step te false st i) as [st1|] eqn:E; [|discriminate].
    eapply IH; [|exact Hrest|exact H].
    pose proof E as E'. unfold step in E'. destruct (nth_error (threads st) i) as [th|] eqn:Eth; [|discriminate].
    eapply step_inv; [exact Hte|exact Hinv|exact Eth| |exact E].
    destruct Hinv as [_ Hown Hph _]. eapply isolated_not_half; eassumption.
Qed.

Lemma isolated_linearizable te vs sched st :
  wf_tenv te -> Forall (wf_val te) vs -> isolated te (init vs) sched = true ->
  run te false (init vs) sched = Some st ->
  outs_ok vs (threads st) /\ (finished st = true -> map out (threads st) = map seq_out vs).
Proof.
  intros Hte Hv Hiso H.
  pose proof (isolated_run_inv te vs (wf_tenv_fields te Hte) sched _ _ (init_inv te vs Hv) Hiso H) as [_ _ _ Ho].
  split; [exact Ho|]. apply outs_finished. exact Ho.
Qed.

(* (2b) a single goroutine is always isolated: this is why publishing the placeholder early is
   safe for recursion on the SAME goroutine: the handler stored for a recursive field is only a
   pointer to the placeholder; fields is read when Write runs, and Write runs after the
   goroutine has left every newNamedStructEncoder it entered (phase invariant), i.e. after
   all of its own placeholders were assigned *)
Definition owned_by (i : thr) (s : shared) : Prop := Forall (fun o => eo_owner o = i) (heap s).

Lemma owned_others_built i s : owned_by i s -> others_built s i = true.
Proof.
  unfold owned_by, others_built. intros H. apply forallb_forall. intros o Hin.
  rewrite Forall_forall in H. rewrite (H o Hin). destruct (eo_fields o); [reflexivity|apply Nat.eqb_refl].
Qed.

Lemma assign_owned i h e hs : Forall (fun o => eo_owner o = i) h -> Forall (fun o => eo_owner o = i) (assign h e hs).
Proof.
  intros H. unfold assign. destruct (nth_error h e) as [o|] eqn:E; [|exact H].
  apply Forall_set_nth; [exact H|]. cbn. rewrite Forall_forall in H. apply H. eapply nth_error_In; eassumption.
Qed.

Lemma step_owned te locked st st' : length (threads st) = 1 -> forall i,
  owned_by 0 (sh st) -> step te locked st i = Some st' -> owned_by 0 (sh st').
Proof.
  intros Hlen i Ho H. pose proof (step_lt _ _ _ _ _ H) as Hi. assert (i = 0) by lia. subst i.
  unfold step in H. destruct (nth_error (threads st) 0) as [th|]; [|discriminate].
  destruct (tstep te locked 0 (sh st) th) as [[s' th']|] eqn:T; [|discriminate]. inversion H; subst. cbn [sh].
  unfold owned_by in *.
  destruct (tstep_heap te locked 0 (sh st) th s' th' T) as [[Hh _]|[(t & Hh & _)|(e0 & hs & Hh & _)]]; rewrite Hh.
  - exact Ho.
  - apply Forall_app. split; [exact Ho|]. constructor; [reflexivity|constructor].
  - apply assign_owned. exact Ho.
Qed.

Lemma single_isolated te : forall sched st st',
  length (threads st) = 1 -> owned_by 0 (sh st) -> run te false st sched = Some st' ->
  isolated te st sched = true.
Proof.
  induction sched as [|i r IH]; intros st st' Hlen Ho H; cbn [isolated]; [reflexivity|].
  cbn [run] in H. destruct (step te false st i) as [st1|] eqn:E; [|discriminate].
  pose proof (step_lt _ _ _ _ _ E) as Hi. assert (i = 0) by lia. subst i.
  rewrite (owned_others_built 0 _ Ho). cbn. eapply IH; [| |exact H].
  - rewrite (step_length _ _ _ _ _ E). exact Hlen.
  - eapply step_owned; eassumption.
Qed.

Lemma sequential_recursion_safe te v sched st :
  wf_tenv te -> wf_val te v -> run te false (init [v]) sched = Some st -> finished st = true ->
  map out (threads st) = [seq_out v].
Proof.
  intros Hte Hv H Hf.
  assert (Hiso : isolated te (init [v]) sched = true).
  { eapply single_isolated; [reflexivity| |exact H]. constructor. }
  destruct (isolated_linearizable te [v] sched st Hte (Forall_cons _ Hv (Forall_nil _)) Hiso H) as [_ X].
  exact (X Hf).
Qed.

(* (3) unlocked encoder, warm types: every type already has a complete coder in structEncoderMap
   and no coder is half built: every schedule *)
Definition warm_code (c : list instr) : bool :=
  forallb (fun i => match i with CNew _ | CHandler _ | CAssign _ _ _ | CPublish _ _ => false | _ => true end) c.

Definition warm (te : tenv) (s : shared) : Prop :=
  assigned_all s = true /\ forall t, t < length te -> lookup (complete s) t <> None.

Lemma warm_tstep te i s th s' th' :
  shared_ok te s -> thread_ok te (heap s) th -> warm te s -> warm_code (code th) = true ->
  tstep te false i s th = Some (s', th') ->
  s' = s /\ warm_code (code th') = true /\ halfstep s th = false.
Proof.
  intros (Hh & Hn & Hc) (vs & Hv & Hco) [Hall Hlook] Hw Hs. unfold tstep in Hs. unfold halfstep.
  destruct (code th) as [|ins k] eqn:Ecode; [discriminate|].
  cbn in Hw. apply andb_prop in Hw as [Hi Hk].
  destruct ins; try discriminate; cbn [code_ok] in Hco.
  - destruct Hco as [Ht _]. destruct (lookup (complete s) t) as [e|] eqn:L.
    + invs Hs. auto.
    + exfalso. exact (Hlook t Ht L).
  - destruct (vst th); invs Hs; auto.
  - destruct Hco as (Hwf & (o & Ho & Hot) & _). destruct v as [t kids]. rewrite Ho in *.
    unfold assigned_all in Hall. rewrite forallb_forall in Hall.
    specialize (Hall o (nth_error_In _ _ Ho)).
    destruct (eo_fields o) as [hs|]; [|discriminate].
    invs Hs. split; [reflexivity|]. split; [|reflexivity]. cbn [code].
    unfold warm_code. rewrite forallb_app. apply andb_true_intro. split; [|exact Hk].
    clear. induction kids as [|[j v] r IH]; cbn; [reflexivity|]. destruct (nth_error hs j); cbn; exact IH.
  - invs Hs; auto.
Qed.

Record winv (te : tenv) (vs : list sval) (s0 : shared) (st : state) : Prop := mk_winv {
  winv_sh : sh st = s0;
  winv_ok : Forall (thread_ok te (heap s0)) (threads st);
  winv_code : Forall (fun th => warm_code (code th) = true) (threads st);
  winv_outs : outs_ok vs (threads st)
}.

Lemma warm_run te vs s0 : wf_tenv' te -> shared_ok te s0 -> warm te s0 -> forall sched st st',
  winv te vs s0 st -> run te false st sched = Some st' -> winv te vs s0 st'.
Proof.
  intros Hte Hs0 Hw. induction sched as [|i r IH]; intros st st' Hinv H; cbn [run] in H.
  - inversion H; subst; exact Hinv.
  - destruct (step te false st i) as [st1|] eqn:E; [|discriminate]. eapply IH; [|exact H].
    destruct Hinv as [Hsh Hok Hcode Hout]. unfold step in E.
    destruct (nth_error (threads st) i) as [th|] eqn:Eth; [|discriminate].
    destruct (tstep te false i (sh st) th) as [[s' th']|] eqn:T; [|discriminate].
    inversion E; subst st1; clear E. rewrite Hsh in T.
    assert (Hth : thread_ok te (heap s0) th).
    { rewrite Forall_forall in Hok. apply Hok. eapply nth_error_In; eassumption. }
    assert (Hcth : warm_code (code th) = true).
    { rewrite Forall_forall in Hcode. apply (Hcode th). eapply nth_error_In; eassumption. }
    destruct (warm_tstep te i s0 th s' th' Hs0 Hth Hw Hcth T) as (Es & Hc' & Hhalf). subst s'.
    destruct (tstep_ok te false i s0 th s0 th' Hte Hs0 Hth T) as (_ & Hth' & _).
    constructor; cbn [sh threads].
    + reflexivity.
    + apply Forall_set_nth; assumption.
    + apply Forall_set_nth; assumption.
    + eapply outs_set_nth; [exact Hout|exact Eth|]. eapply tstep_total; eassumption.
Qed.

Lemma warm_linearizable te s0 vs sched st :
  wf_tenv te -> shared_ok te s0 -> warm te s0 -> Forall (wf_val te) vs ->
  run te false (mk_state s0 (map marshal vs)) sched = Some st ->
  outs_ok vs (threads st) /\ (finished st = true -> map out (threads st) = map seq_out vs).
Proof.
  intros Hte Hs0 Hw Hv H.
  assert (Hi : winv te vs s0 (mk_state s0 (map marshal vs))).
  { constructor; cbn [sh threads].
    - reflexivity.
    - apply marshal_threads_ok. exact Hv.
    - clear. induction vs; cbn; constructor; auto.
    - apply init_outs. }
  destruct (warm_run te vs s0 (wf_tenv_fields te Hte) Hs0 Hw sched _ _ Hi H) as [_ _ _ Ho].
  split; [exact Ho|]. apply outs_finished. exact Ho.
Qed.

(* warm states exist: the shared state reached by any run from the cold start is well-formed *)
Lemma reachable_shared_ok te locked vs sched st :
  wf_tenv te -> Forall (wf_val te) vs -> run te locked (init vs) sched = Some st -> shared_ok te (sh st).
Proof.
  intros Hte Hv H. destruct (run_ok te locked sched _ _ (wf_tenv_fields te Hte) (init_ok te vs Hv) H) as [X _]. exact X.
Qed.

(* the typing invariant itself: no schedule, locked or not, ever reaches a Stuck token *)
Lemma reachable_state_ok te locked vs sched st :
  wf_tenv te -> Forall (wf_val te) vs -> run te locked (init vs) sched = Some st -> state_ok te st.
Proof.
  intros Hte Hv H. exact (run_ok te locked sched _ _ (wf_tenv_fields te Hte) (init_ok te vs Hv) H).
Qed.

(* ------------------------------------------------------------------------------------- *)
(* the unlocked encoder with fresh types is NOT linearizable: two schedule shapes         *)
(* ------------------------------------------------------------------------------------- *)
(* shape 1 (enclosing type): types 0 = Inner{}, 1 = Outer{In Inner; P *Inner}.
   goroutine 0: Marshal(Inner{})  -- Load miss, Store placeholder ............ then preempted
   goroutine 1: Marshal(Outer{..}) -- builds Outer: both handlers are the placeholder; writes:
                                      Outer in full, Inner twice through the half-built coder *)
Definition te_enclosing : tenv := [[]; [0; 0]].
Definition vs_enclosing : list sval := [SV 0 []; SV 1 [(0, SV 0 []); (1, SV 0 [])]].
Definition sched_enclosing : list thr := [0; 0] ++ repeat 1 10 ++ repeat 0 4.

Lemma refuted_enclosing :
  exists st, run te_enclosing false (init vs_enclosing) sched_enclosing = Some st /\
             finished st = true /\
             map out (threads st) = [[Full 0]; [Full 1; Half 0; Half 0]] /\
             map out (threads st) <> map seq_out vs_enclosing.
Proof. eexists. split; [vm_compute; reflexivity|]. split; [reflexivity|]. split; [reflexivity|]. vm_compute. discriminate. Qed.

(* shape 2 (mutual recursion through a COMPLETE coder): types 0 = A{B *B}, 1 = B{A *A}.
   goroutine 0: Marshal(A{..}) builds A: placeholder A; handler of B: builds B completely (its
                handler of A is A's placeholder) and publishes B in structEncoderMap ... preempted
                before A.fields is assigned
   goroutine 1: Marshal(B{A: &A{}}) finds the complete B, writes B, then A through the placeholder.
   goroutine 1 never loads A from namedStructEncoderMap itself. *)
Definition te_mutual : tenv := [[1]; [0]].
Definition vs_mutual : list sval := [SV 0 [(0, SV 1 [])]; SV 1 [(0, SV 0 [])]].
Definition sched_mutual : list thr := repeat 0 8 ++ repeat 1 4 ++ repeat 0 5.

Lemma refuted_mutual :
  exists st, run te_mutual false (init vs_mutual) sched_mutual = Some st /\
             finished st = true /\
             map out (threads st) = [[Full 0; Full 1]; [Full 1; Half 0]] /\
             map out (threads st) <> map seq_out vs_mutual.
Proof. eexists. split; [vm_compute; reflexivity|]. split; [reflexivity|]. split; [reflexivity|]. vm_compute. discriminate. Qed.

Lemma wf_enclosing : wf_tenv te_enclosing /\ Forall (wf_val te_enclosing) vs_enclosing.
Proof.
  split.
  - repeat constructor.
  - repeat constructor; cbn; lia.
Qed.

Lemma wf_mutual : wf_tenv te_mutual /\ Forall (wf_val te_mutual) vs_mutual.
Proof.
  split.
  - repeat constructor.
  - repeat constructor; cbn; lia.
Qed.

(* the same two schedules with the lock: the reader blocks, the run cannot take that step *)
Lemma locked_blocks_enclosing : run te_enclosing true (init vs_enclosing) sched_enclosing = None.
Proof. vm_compute. reflexivity. Qed.

(* shape 3 (the same recursive type built twice at once): type 0 = D{Self *D}.
   goroutine 0: Load miss, Store placeholder e0
   goroutine 1: Load miss, Store placeholder e1            (overwrites e0 in namedStructEncoderMap)
   goroutine 0: the handler of Self loads e1 -- the OTHER goroutine's placeholder --, assigns e0, writes:
                D in full through e0, the inner D through e1: class already defined, ZERO fields:
                well-formed output that silently drops the inner value's fields *)
Definition te_same : tenv := [[0]].
Definition vs_same : list sval := [SV 0 [(0, SV 0 [])]; SV 0 [(0, SV 0 [])]].
Definition sched_same : list thr := [0; 0; 1; 1] ++ repeat 0 6 ++ repeat 1 6.

Lemma refuted_same :
  exists st, run te_same false (init vs_same) sched_same = Some st /\
             finished st = true /\
             map out (threads st) = [[Full 0; Half 0]; [Full 0; Full 0]] /\
             map out (threads st) <> map seq_out vs_same.
Proof. eexists. split; [vm_compute; reflexivity|]. split; [reflexivity|]. split; [reflexivity|]. vm_compute. discriminate. Qed.

Lemma wf_same : wf_tenv te_same /\ Forall (wf_val te_same) vs_same.
Proof.
  split.
  - repeat constructor.
  - repeat constructor; cbn; lia.
Qed.

(* with the lock (the tree as repaired) none of the three schedules can take the fatal step, and
   letting the blocked reader wait gives every call its sequential output *)
Lemma locked_blocks_mutual : run te_mutual true (init vs_mutual) sched_mutual = None.
Proof. vm_compute. reflexivity. Qed.
Lemma locked_blocks_same : run te_same true (init vs_same) sched_same = None.
Proof. vm_compute. reflexivity. Qed.

Lemma locked_enclosing_completes :
  exists st, run te_enclosing true (init vs_enclosing) ([0; 0] ++ repeat 1 8 ++ repeat 0 4 ++ repeat 1 2) = Some st /\
             finished st = true /\ map out (threads st) = map seq_out vs_enclosing.
Proof. eexists. split; [vm_compute; reflexivity|]. split; reflexivity. Qed.
