(* Lemmas about Model/DecStream.v (C05). *)
From Coq Require Import List ZArith NArith Bool Lia Init.Byte Arith.
From Coq Require Import ZifyBool ZifyNat ZifyN.
From HV Require Import Model.DecStream.
Import ListNotations.

(* ------------------------------------------------------------------ *)
(* Well-formed decoder states and basic facts about the window. *)

Definition wf (d : dst) : Prop :=
  head d <= tail d /\ tail d <= length (buf d) /\
  (isreader d = true -> 1 <= length (buf d)) /\
  (isreader d = false -> pending d = []).

Ltac splits := repeat match goal with |- _ /\ _ => split end.

Definition mu (p : list (list byte)) : nat := length p + length (concat p).

Lemma slice_ok : forall b lo hi, lo <= hi -> hi <= length b ->
  slice b lo hi = Some (firstn (hi - lo) (skipn lo b)).
Proof.
  intros b lo hi H1 H2. unfold slice.
  destruct (lo <=? hi) eqn:E1; [|apply Nat.leb_gt in E1; lia].
  destruct (hi <=? length b) eqn:E2; [|apply Nat.leb_gt in E2; lia].
  reflexivity.
Qed.

Lemma window_slice : forall d, wf d -> slice (buf d) (head d) (tail d) = Some (window d).
Proof. intros d (H1 & H2 & _). unfold window. apply slice_ok; lia. Qed.

Lemma length_window : forall d, wf d -> length (window d) = tail d - head d.
Proof.
  intros d (H1 & H2 & _). unfold window.
  rewrite firstn_length, skipn_length. lia.
Qed.

Lemma skipn_skipn' : forall (A : Type) (b a : nat) (l : list A), skipn a (skipn b l) = skipn (b + a) l.
Proof.
  intros A b. induction b as [|b IH]; intros a l; [reflexivity|].
  destruct l as [|x l]; [rewrite !skipn_nil; reflexivity|]. cbn [skipn Nat.add]. apply IH.
Qed.

Lemma nth_error_skipn' : forall (A : Type) (n i : nat) (l : list A),
  nth_error (skipn n l) i = nth_error l (n + i).
Proof.
  intros A n. induction n as [|n IH]; intros i l; [reflexivity|].
  destruct l as [|x l]; [destruct i; reflexivity|]. cbn [skipn Nat.add nth_error]. apply IH.
Qed.

Lemma firstn_skipn_shift : forall (A : Type) (l : list A) h k n,
  firstn n (skipn h l) = firstn k (firstn n (skipn h l)) ++ firstn (n - k) (skipn (h + k) l).
Proof.
  intros A l h k n.
  rewrite <- (firstn_skipn k (firstn n (skipn h l))) at 1.
  f_equal. rewrite skipn_firstn_comm, skipn_skipn'. reflexivity.
Qed.

(* taking k bytes off the front of the window *)
Lemma window_split : forall d k, wf d -> k <= tail d - head d ->
  slice (buf d) (head d) (head d + k) = Some (firstn k (window d)) /\
  window d = firstn k (window d) ++ window (set_head d (head d + k)) /\
  wf (set_head d (head d + k)).
Proof.
  intros d k Hwf Hk. destruct Hwf as (H1 & H2 & H3 & H4).
  split; [|split].
  - rewrite slice_ok by lia. f_equal. unfold window.
    rewrite firstn_firstn. f_equal. lia.
  - unfold window at 1. cbn [set_head window buf head tail].
    rewrite (firstn_skipn_shift _ (buf d) (head d) k (tail d - head d)).
    f_equal. unfold window. cbn [set_head buf head tail]. f_equal. lia.
  - unfold wf. cbn. repeat split; try assumption; lia.
Qed.

Lemma window_skip : forall d k, wf d -> k <= tail d - head d ->
  window (set_head d (head d + k)) = skipn k (window d).
Proof.
  intros d k Hwf Hk. destruct (window_split d k Hwf Hk) as (_ & Hw & _).
  pose proof (length_window d Hwf) as Hl.
  rewrite Hw at 1. rewrite skipn_app, firstn_length.
  rewrite skipn_all2 by (rewrite firstn_length; lia).
  replace (k - Nat.min k (length (window d))) with 0 by lia. reflexivity.
Qed.

Lemma remaining_set_head : forall d h, remaining (set_head d h) = window (set_head d h) ++ concat (pending d).
Proof. reflexivity. Qed.

Lemma window_cons : forall d, wf d -> head d < tail d ->
  exists b, nth_error (buf d) (head d) = Some b /\
            window d = b :: window (set_head d (S (head d))) /\
            wf (set_head d (S (head d))).
Proof.
  intros d Hwf Hlt.
  destruct (window_split d 1 Hwf ltac:(lia)) as (Hs & Hw & Hwf').
  replace (head d + 1) with (S (head d)) in * by lia.
  pose proof (length_window d Hwf) as Hlen.
  destruct (window d) as [|b w] eqn:Ew; [cbn in Hlen; lia|].
  exists b. cbn [firstn] in Hw. cbn [app] in Hw. split; [|split; assumption].
  unfold window in Ew.
  destruct Hwf as (H1 & H2 & _).
  assert (Hn : nth_error (skipn (head d) (buf d)) 0 = Some b).
  { destruct (skipn (head d) (buf d)) eqn:Es.
    - destruct (tail d - head d); discriminate.
    - destruct (tail d - head d) eqn:E; [lia|]. cbn in Ew. inversion Ew. reflexivity. }
  rewrite nth_error_skipn' in Hn. rewrite Nat.add_0_r in Hn. exact Hn.
Qed.

(* ------------------------------------------------------------------ *)
(* The reader, loadMore and the prologue. *)

Lemma deliver_none : forall cap p, deliver cap p = None -> concat p = [].
Proof.
  intros cap p. induction p as [|c r IH]; intros H; [reflexivity|].
  destruct c as [|b c]; cbn [deliver] in H.
  - cbn. apply IH. exact H.
  - destruct (length (b :: c) <=? cap); discriminate.
Qed.

Lemma deliver_some : forall cap p c p', 1 <= cap -> deliver cap p = Some (c, p') ->
  c <> [] /\ length c <= cap /\ concat p = c ++ concat p' /\ mu p' < mu p.
Proof.
  intros cap p. induction p as [|x r IH]; intros c p' Hcap H; [discriminate|].
  destruct x as [|b x]; cbn [deliver] in H.
  - destruct (IH c p' Hcap H) as (A & B & C & D).
    split; [exact A|]. split; [exact B|]. split; [exact C|]. unfold mu in *. cbn [concat app length]. lia.
  - destruct (length (b :: x) <=? cap) eqn:E; inversion H; subst; clear H.
    + apply Nat.leb_le in E. split; [discriminate|]. split; [exact E|]. split; [reflexivity|].
      unfold mu. cbn [concat length]. rewrite app_length. cbn [length]. lia.
    + apply Nat.leb_gt in E. split; [|split; [|split]].
      * destruct cap; [lia|]. discriminate.
      * rewrite firstn_length. lia.
      * cbn [concat]. rewrite app_assoc, firstn_skipn. reflexivity.
      * unfold mu. cbn [concat length]. rewrite !app_length, skipn_length. cbn [length] in *. lia.
Qed.

Lemma overwrite_length : forall b c, length c <= length b -> length (overwrite b c) = length b.
Proof. intros b c H. unfold overwrite. rewrite app_length, skipn_length. lia. Qed.

Lemma overwrite_firstn : forall b c, firstn (length c - 0) (skipn 0 (overwrite b c)) = c.
Proof.
  intros b c. unfold overwrite. cbn [skipn]. rewrite Nat.sub_0_r.
  rewrite firstn_app, firstn_all, Nat.sub_diag. cbn [firstn]. apply app_nil_r.
Qed.

Lemma concat_nil_mu : forall p : list (list byte), concat p <> [] -> 0 < mu p.
Proof. intros p H. unfold mu. destruct p; [contradiction|cbn; lia]. Qed.

(* what loadMore does, in terms of the bytes still to come *)
Lemma loadMore_spec : forall d, wf d ->
  match loadMore d with
  | Ok (true, d') =>
      wf d' /\ head d' = 0 /\ 0 < tail d' /\ remaining d' = concat (pending d) /\
      err d' = err d /\ mu (pending d') < mu (pending d) /\ isreader d' = isreader d /\
      length (buf d') = length (buf d) /\ concat (pending d) <> [] /\
      deliver (length (buf d)) (pending d) = Some (window d', pending d')
  | Ok (false, d') =>
      wf d' /\ head d' = tail d' /\ remaining d' = [] /\ concat (pending d) = [] /\
      err d' = or_err (err d) EEOF /\ pending d' = [] /\ isreader d' = isreader d /\
      length (buf d') = length (buf d)
  | _ => False
  end.
Proof.
  intros d (H1 & H2 & H3 & H4). unfold loadMore.
  destruct (isreader d) eqn:Er.
  - specialize (H3 eq_refl).
    destruct (length (buf d)) as [|n] eqn:El; [lia|]. rewrite <- El in *.
    destruct (deliver (length (buf d)) (pending d)) as [[c p']|] eqn:Ed.
    + destruct (deliver_some _ _ _ _ H3 Ed) as (A & B & C & D).
      assert (Hl : length (overwrite (buf d) c) = length (buf d)) by (apply overwrite_length; lia).
      assert (Hw : window (mk (overwrite (buf d) c) 0 (length c) p' true (err d)) = c).
      { unfold window. cbn [buf head tail]. apply overwrite_firstn. }
      assert (Hc : 0 < length c) by (destruct c; [contradiction|cbn; lia]).
      unfold wf. cbn [buf head tail pending isreader err].
      splits; try lia; try reflexivity; try discriminate; try exact D.
      * unfold remaining. rewrite Hw. cbn [pending]. symmetry. exact C.
      * rewrite C. destruct c; [contradiction|discriminate].
      * rewrite Hw. reflexivity.
    + pose proof (deliver_none _ _ Ed) as Hn.
      unfold wf. cbn [buf head tail pending isreader err].
      splits; try lia; try reflexivity; try discriminate; try exact Hn.
  - specialize (H4 eq_refl).
    unfold wf. cbn [buf head tail pending isreader err].
    splits; try lia; try reflexivity; try discriminate; try exact H4; try (intros _; exact H4).
    + unfold remaining, window. cbn [buf head tail pending]. rewrite Nat.sub_diag, H4. reflexivity.
    + rewrite H4. reflexivity.
Qed.

Lemma window_nil_iff : forall d, wf d -> (window d = [] <-> head d = tail d).
Proof.
  intros d Hwf. pose proof (length_window d Hwf) as Hl. destruct Hwf as (H1 & _).
  split; intros H.
  - rewrite H in Hl. cbn in Hl. lia.
  - apply length_zero_iff_nil. lia.
Qed.

(* the prologue (dec.head == dec.tail) && !dec.loadMore() *)
Lemma ensure_spec : forall d, wf d ->
  match ensure d with
  | Ok (true, d') =>
      wf d' /\ head d' < tail d' /\ remaining d' = remaining d /\ remaining d <> [] /\
      err d' = err d /\ mu (pending d') <= mu (pending d) /\ isreader d' = isreader d /\
      length (buf d') = length (buf d)
  | Ok (false, d') =>
      wf d' /\ head d' = tail d' /\ remaining d' = [] /\ remaining d = [] /\
      err d' = or_err (err d) EEOF /\ pending d' = [] /\ isreader d' = isreader d /\
      length (buf d') = length (buf d)
  | _ => False
  end.
Proof.
  intros d Hwf. unfold ensure.
  destruct (head d =? tail d) eqn:E.
  - apply Nat.eqb_eq in E.
    assert (Hw : window d = []) by (apply window_nil_iff; assumption).
    assert (Hr : remaining d = concat (pending d)) by (unfold remaining; rewrite Hw; reflexivity).
    rewrite Hr.
    pose proof (loadMore_spec d Hwf) as H.
    destruct (loadMore d) as [[[|] d']| |]; try contradiction.
    + destruct H as (A & B & C & D & F & G & I & J & K & L).
      splits; try assumption; try lia.
    + destruct H as (A & B & C & D & F & G & I & J).
      splits; assumption.
  - apply Nat.eqb_neq in E. pose proof Hwf as (H1 & _).
    splits; try assumption; try lia; try reflexivity.
    unfold remaining. intros Hn. apply app_eq_nil in Hn. destruct Hn as (Hn & _).
    apply window_nil_iff in Hn; [lia|assumption].
Qed.

(* ------------------------------------------------------------------ *)
(* Refinement of each primitive: the result, the rest of the stream and the sticky error
   are those of the specification function applied to (remaining d, err d). *)

Definition rel {A : Type} (r : res (A * dst)) (s : A * sst) : Prop :=
  match r with
  | Ok (v, d') => wf d' /\ (v, abs d') = s
  | _ => False
  end.

Lemma abs_eq : forall d r e, remaining d = r -> err d = e -> abs d = (r, e).
Proof. intros d r e H1 H2. unfold abs. rewrite H1, H2. reflexivity. Qed.

Lemma nextByte_refines : forall d, wf d -> rel (nextByte d) (s_nextByte (abs d)).
Proof.
  intros d Hwf. unfold nextByte, rel. pose proof (ensure_spec d Hwf) as H.
  destruct (ensure d) as [[[|] d1]| |]; try contradiction.
  - destruct H as (A & B & C & D & E & _).
    destruct (window_cons d1 A B) as (b & Hn & Hw & Hwf').
    rewrite Hn. split; [exact Hwf'|].
    unfold s_nextByte, abs. cbn [fst snd]. rewrite <- C.
    unfold remaining at 2. rewrite Hw. cbn [app].
    rewrite remaining_set_head. cbn [set_head err]. rewrite E. reflexivity.
  - destruct H as (A & B & C & D & E & _).
    split; [exact A|]. unfold s_nextByte, abs. cbn [fst snd]. rewrite D, C, E. reflexivity.
Qed.

Definition rel1 (r : res dst) (s : sst) : Prop :=
  match r with Ok d' => wf d' /\ abs d' = s | _ => False end.

Lemma skip_refines : forall d, wf d -> rel1 (skip d) (s_skip (abs d)).
Proof.
  intros d Hwf. unfold skip, rel1, s_skip. pose proof (ensure_spec d Hwf) as H.
  destruct (ensure d) as [[[|] d1]| |]; try contradiction.
  - destruct H as (A & B & C & D & E & _).
    destruct (window_cons d1 A B) as (b & Hn & Hw & Hwf').
    split; [exact Hwf'|].
    unfold s_nextByte, abs. cbn [fst snd]. rewrite <- C.
    unfold remaining at 2. rewrite Hw. cbn [app snd].
    rewrite remaining_set_head. cbn [set_head err]. rewrite E. reflexivity.
  - destruct H as (A & B & C & D & E & _).
    split; [exact A|]. unfold s_nextByte, abs. cbn [fst snd]. rewrite D, C, E. reflexivity.
Qed.

(* list facts used for the loops that cross refills *)
Lemma firstn_app_le : forall (A : Type) n (a b : list A), n <= length a -> firstn n (a ++ b) = firstn n a.
Proof.
  intros A n a b H. rewrite firstn_app. replace (n - length a) with 0 by lia.
  cbn [firstn]. apply app_nil_r.
Qed.

Lemma firstn_app_ge : forall (A : Type) n (a b : list A), length a <= n ->
  firstn n (a ++ b) = a ++ firstn (n - length a) b.
Proof. intros A n a b H. rewrite firstn_app, firstn_all2 by lia. reflexivity. Qed.

Lemma skipn_app_le : forall (A : Type) n (a b : list A), n <= length a -> skipn n (a ++ b) = skipn n a ++ b.
Proof.
  intros A n a b H. rewrite skipn_app. replace (n - length a) with 0 by lia. reflexivity.
Qed.

Lemma skipn_app_ge : forall (A : Type) n (a b : list A), length a <= n ->
  skipn n (a ++ b) = skipn (n - length a) b.
Proof. intros A n a b H. rewrite skipn_app, skipn_all2 by lia. reflexivity. Qed.

Definition nosafe {A : Type} (r : res (A * bool * dst)) : res (A * dst) :=
  match r with Ok (x, _, d) => Ok (x, d) | Panic s => Panic s | OutOfFuel => OutOfFuel end.

Definition relr {A : Type} (r : res (A * dst)) (s : res (A * sst)) : Prop :=
  match r, s with
  | Ok (v, d'), Ok (v', s') => wf d' /\ v = v' /\ abs d' = s'
  | Panic _, Panic _ => True
  | _, _ => False
  end.

Lemma next_loop_spec : forall fuel d n data, wf d -> mu (pending d) < fuel -> 0 < n ->
  match next_loop fuel d n data with
  | Ok (dt, d') =>
      wf d' /\
      let r := concat (pending d) in
      if n <=? length r
      then dt = data ++ firstn n r /\ remaining d' = skipn n r /\ err d' = err d
      else dt = data ++ r /\ remaining d' = [] /\ err d' = or_err (err d) EEOF
  | _ => False
  end.
Proof.
  induction fuel as [|f IH]; intros d n data Hwf Hmu Hn; [lia|].
  cbn [next_loop]. pose proof (loadMore_spec d Hwf) as H.
  destruct (loadMore d) as [[[|] d1]| |]; try contradiction.
  - destruct H as (A & B & C & D & E & F & G & I & J & K).
    pose proof (length_window d1 A) as Hlw. rewrite B, Nat.sub_0_r in Hlw.
    assert (Hr : concat (pending d) = window d1 ++ concat (pending d1)) by (rewrite <- D; reflexivity).
    destruct (n <=? tail d1) eqn:En.
    + apply Nat.leb_le in En.
      destruct (window_split d1 n A ltac:(lia)) as (Hs & Hw & Hwf').
      rewrite B in Hs, Hw, Hwf'. cbn [Nat.add] in Hs, Hw, Hwf'. rewrite Hs.
      split; [exact Hwf'|]. cbn zeta.
      assert (Hle : n <= length (concat (pending d))) by (rewrite Hr, app_length; lia).
      apply Nat.leb_le in Hle. rewrite Hle.
      rewrite Hr at 1 2. rewrite firstn_app_le, skipn_app_le by lia.
      split; [reflexivity|]. split; [|exact E].
      rewrite remaining_set_head. f_equal.
      rewrite Hw at 1. rewrite skipn_app_ge by (rewrite firstn_length; lia).
      rewrite firstn_length. replace (n - Nat.min n (length (window d1))) with 0 by lia. reflexivity.
    + apply Nat.leb_gt in En.
      pose proof (window_slice d1 A) as Hs. rewrite B in Hs. rewrite Hs.
      specialize (IH d1 (n - tail d1) (data ++ window d1) A ltac:(lia) ltac:(lia)).
      destruct (next_loop f d1 (n - tail d1) (data ++ window d1)) as [[dt d2]| |]; try contradiction.
      destruct IH as (Hwf2 & IH). split; [exact Hwf2|]. cbn zeta in *.
      rewrite Hr, app_length, Hlw.
      destruct (n - tail d1 <=? length (concat (pending d1))) eqn:E2.
      * apply Nat.leb_le in E2. assert (E3 : n <=? tail d1 + length (concat (pending d1)) = true) by (apply Nat.leb_le; lia).
        rewrite E3. destruct IH as (I1 & I2 & I3).
        rewrite firstn_app_ge, skipn_app_ge by lia. rewrite Hlw.
        split; [rewrite I1, <- app_assoc; reflexivity|]. split; [exact I2|]. rewrite I3. exact E.
      * apply Nat.leb_gt in E2. assert (E3 : n <=? tail d1 + length (concat (pending d1)) = false) by (apply Nat.leb_gt; lia).
        rewrite E3. destruct IH as (I1 & I2 & I3).
        split; [rewrite I1, <- app_assoc; reflexivity|]. split; [exact I2|]. rewrite I3, E. reflexivity.
  - destruct H as (A & B & C & D & E & F & G & I).
    split; [exact A|]. cbn zeta. rewrite D. cbn [length].
    destruct (n <=? 0) eqn:E0; [apply Nat.leb_le in E0; lia|].
    split; [symmetry; apply app_nil_r|]. split; assumption.
Qed.

Lemma next_refines : forall n d, wf d -> relr (nosafe (next n d)) (s_next n (abs d)).
Proof.
  intros n d Hwf. unfold next, relr, nosafe, s_next. pose proof (ensure_spec d Hwf) as H.
  destruct (ensure d) as [[[|] d1]| |]; try contradiction.
  - destruct H as (A & B & C & D & E & F & G & J).
    pose proof (length_window d1 A) as Hlw.
    unfold abs. cbn [fst snd]. rewrite <- C. rewrite <- C in D.
    destruct (remaining d1) as [|b0 r0] eqn:Er; [contradiction|]. rewrite <- Er.
    destruct (n <? 0)%Z eqn:En.
    + split; [exact A|]. split; [reflexivity|].
      apply abs_eq; [reflexivity|]. cbn [set_err err]. rewrite E. reflexivity.
    + destruct (n <=? Z.of_nat (tail d1) - Z.of_nat (head d1))%Z eqn:Ec.
      * destruct (window_split d1 (Z.to_nat n) A ltac:(lia)) as (Hs & Hw & Hwf').
        rewrite Hs.
        assert (Hle : Z.to_nat n <= length (remaining d1)) by (unfold remaining; rewrite app_length; lia).
        apply Nat.leb_le in Hle. rewrite Hle.
        split; [exact Hwf'|]. split.
        { f_equal. unfold remaining. rewrite firstn_app_le by lia. reflexivity. }
        apply abs_eq; [|cbn [set_head err]; exact E].
        rewrite remaining_set_head. unfold remaining. rewrite skipn_app_le by lia. f_equal.
                apply window_skip; [exact A|lia].
      * assert (Hc : (Z.of_nat (tail d1) - Z.of_nat (head d1) <? 0)%Z = false) by (destruct A; lia).
        rewrite Hc, (window_slice d1 A).
        pose proof (next_loop_spec (fuel_of d1) d1 (Z.to_nat (n - (Z.of_nat (tail d1) - Z.of_nat (head d1)))) (window d1) A
                      ltac:(unfold fuel_of, mu; lia) ltac:(lia)) as HL.
        destruct (next_loop (fuel_of d1) d1 _ (window d1)) as [[dt d2]| |]; try contradiction.
        destruct HL as (Hwf2 & HL). cbn zeta in HL.
        unfold remaining at 1. rewrite app_length, Hlw.
        destruct (Z.to_nat (n - (Z.of_nat (tail d1) - Z.of_nat (head d1))) <=? length (concat (pending d1))) eqn:E2.
        -- apply Nat.leb_le in E2.
           assert (E3 : Z.to_nat n <=? tail d1 - head d1 + length (concat (pending d1)) = true) by (apply Nat.leb_le; lia).
           rewrite E3. destruct HL as (I1 & I2 & I3). split; [exact Hwf2|].
           unfold remaining. rewrite firstn_app_ge, skipn_app_ge by lia. rewrite Hlw.
           replace (Z.to_nat n - (tail d1 - head d1)) with (Z.to_nat (n - (Z.of_nat (tail d1) - Z.of_nat (head d1)))) by lia.
           split; [rewrite I1; reflexivity|]. apply abs_eq; [exact I2|]. rewrite I3. exact E.
        -- apply Nat.leb_gt in E2.
           assert (E3 : Z.to_nat n <=? tail d1 - head d1 + length (concat (pending d1)) = false) by (apply Nat.leb_gt; lia).
           rewrite E3. destruct HL as (I1 & I2 & I3). split; [exact Hwf2|].
           split; [rewrite I1; reflexivity|]. apply abs_eq; [exact I2|]. rewrite I3, E. reflexivity.
  - destruct H as (A & B & C & D & E & _).
    unfold abs. cbn [fst snd]. rewrite D. split; [exact A|]. split; [reflexivity|].
    apply abs_eq; assumption.
Qed.

Lemma index_byte_lt : forall a c i, index_byte a c = Some i -> i < length a.
Proof.
  induction a as [|x a IH]; intros c i H; [discriminate|].
  cbn [index_byte] in H. destruct (Byte.eqb x c).
  - inversion H. cbn. lia.
  - destruct (index_byte a c) as [j|] eqn:E; [|discriminate].
    cbn in H. inversion H. specialize (IH c j E). cbn. lia.
Qed.

Lemma index_byte_app : forall a b c,
  index_byte (a ++ b) c =
  match index_byte a c with
  | Some i => Some i
  | None => option_map (fun j => length a + j) (index_byte b c)
  end.
Proof.
  induction a as [|x a IH]; intros b c.
  - cbn. destruct (index_byte b c); reflexivity.
  - cbn [app index_byte]. destruct (Byte.eqb x c); [reflexivity|].
    rewrite IH. destruct (index_byte a c); [reflexivity|].
    destruct (index_byte b c); reflexivity.
Qed.

Lemma until_loop_spec : forall delim fuel d data, wf d -> mu (pending d) < fuel ->
  match until_loop fuel delim d data with
  | Ok (dt, d') =>
      wf d' /\
      let r := concat (pending d) in
      match index_byte r delim with
      | Some i => dt = data ++ window d ++ firstn i r /\ remaining d' = skipn (S i) r /\ err d' = err d
      | None => dt = data ++ window d ++ r /\ remaining d' = [] /\ err d' = or_err (err d) EEOF
      end
  | _ => False
  end.
Proof.
  intros delim. induction fuel as [|f IH]; intros d data Hwf Hmu; [lia|].
  cbn [until_loop]. rewrite (window_slice d Hwf).
  pose proof (loadMore_spec d Hwf) as H.
  destruct (loadMore d) as [[[|] d1]| |]; try contradiction.
  - destruct H as (A & B & C & D & E & F & G & J & K & L).
    pose proof (length_window d1 A) as Hlw.
    assert (Hr : concat (pending d) = window d1 ++ concat (pending d1)) by (rewrite <- D; reflexivity).
    rewrite (window_slice d1 A). cbn zeta. rewrite Hr, index_byte_app.
    destruct (index_byte (window d1) delim) as [i|] eqn:Ei.
    + pose proof (index_byte_lt _ _ _ Ei) as Hi.
      destruct (window_split d1 i A ltac:(lia)) as (Hs & _ & _). rewrite Hs.
      destruct (window_split d1 (i + 1) A ltac:(lia)) as (_ & _ & Hwf').
      rewrite Nat.add_assoc in Hwf'. split; [exact Hwf'|].
      rewrite firstn_app_le by lia. split; [rewrite <- app_assoc; reflexivity|].
      split; [|exact E].
      rewrite remaining_set_head. rewrite <- Nat.add_assoc, window_skip by (try assumption; lia).
      rewrite skipn_app_le by lia. f_equal. f_equal. lia.
    + specialize (IH d1 (data ++ window d) A ltac:(lia)).
      destruct (until_loop f delim d1 (data ++ window d)) as [[dt d2]| |]; try contradiction.
      destruct IH as (Hwf2 & IH). split; [exact Hwf2|]. cbn zeta in IH.
      destruct (index_byte (concat (pending d1)) delim) as [j|] eqn:Ej; cbn [option_map].
      * destruct IH as (I1 & I2 & I3).
        rewrite firstn_app_ge by lia.
        replace (length (window d1) + j - length (window d1)) with j by lia.
        split; [rewrite I1, <- !app_assoc; reflexivity|].
        split; [|rewrite I3; exact E].
        rewrite I2. replace (S (length (window d1) + j)) with (length (window d1) + S j) by lia.
        rewrite skipn_app_ge by lia. f_equal. lia.
      * destruct IH as (I1 & I2 & I3).
        split; [rewrite I1, <- !app_assoc; reflexivity|].
        split; [exact I2|rewrite I3, E; reflexivity].
  - destruct H as (A & B & C & D & E & F & G & J).
    split; [exact A|]. cbn zeta. rewrite D. cbn [index_byte].
    split; [rewrite app_nil_r; reflexivity|]. split; assumption.
Qed.

Lemma until_refines : forall c d, wf d -> rel (nosafe (until c d)) (s_until c (abs d)).
Proof.
  intros c d Hwf. unfold until, rel, nosafe, s_until. pose proof (ensure_spec d Hwf) as H.
  destruct (ensure d) as [[[|] d1]| |]; try contradiction.
  - destruct H as (A & B & C & D & E & F & G & J).
    pose proof (length_window d1 A) as Hlw.
    unfold abs. cbn [fst snd]. rewrite <- C. rewrite <- C in D.
    destruct (remaining d1) as [|b0 r0] eqn:Er; [contradiction|]. rewrite <- Er.
    rewrite (window_slice d1 A).
    assert (Hrem : remaining d1 = window d1 ++ concat (pending d1)) by reflexivity.
    rewrite Hrem. rewrite index_byte_app.
    destruct (index_byte (window d1) c) as [i|] eqn:Ei.
    + pose proof (index_byte_lt _ _ _ Ei) as Hi.
      destruct (window_split d1 i A ltac:(lia)) as (Hs & _ & _). rewrite Hs.
      destruct (window_split d1 (i + 1) A ltac:(lia)) as (_ & _ & Hwf').
      rewrite Nat.add_assoc in Hwf'. split; [exact Hwf'|].
      rewrite firstn_app_le by lia. f_equal.
      apply abs_eq; [|cbn [set_head err]; exact E].
      rewrite remaining_set_head. rewrite <- Nat.add_assoc, window_skip by (try assumption; lia).
      rewrite skipn_app_le by lia. f_equal. f_equal. lia.
    + pose proof (until_loop_spec c (fuel_of d1) d1 [] A ltac:(unfold fuel_of, mu; lia)) as HL.
      destruct (until_loop (fuel_of d1) c d1 []) as [[dt d2]| |]; try contradiction.
      destruct HL as (Hwf2 & HL). cbn zeta in HL. split; [exact Hwf2|].
      destruct (index_byte (concat (pending d1)) c) as [j|] eqn:Ej; cbn [option_map].
      * destruct HL as (I1 & I2 & I3).
        rewrite firstn_app_ge by lia.
        replace (length (window d1) + j - length (window d1)) with j by lia.
        f_equal; [rewrite I1; reflexivity|].
        apply abs_eq; [|rewrite I3; exact E].
        rewrite I2. replace (S (length (window d1) + j)) with (length (window d1) + S j) by lia.
        rewrite skipn_app_ge by lia. f_equal. lia.
      * destruct HL as (I1 & I2 & I3).
        f_equal; [rewrite I1; reflexivity|].
        apply abs_eq; [exact I2|rewrite I3, E; reflexivity].
  - destruct H as (A & B & C & D & E & _).
    unfold abs. cbn [fst snd]. rewrite D. split; [exact A|]. f_equal. apply abs_eq; assumption.
Qed.

Lemma remains_loop_spec : forall fuel d data, wf d -> mu (pending d) < fuel ->
  match remains_loop fuel d data with
  | Ok (dt, d') =>
      wf d' /\ dt = data ++ remaining d /\ remaining d' = [] /\ err d' = or_err (err d) EEOF
  | _ => False
  end.
Proof.
  induction fuel as [|f IH]; intros d data Hwf Hmu; [lia|].
  cbn [remains_loop]. rewrite (window_slice d Hwf).
  pose proof (loadMore_spec d Hwf) as H.
  destruct (loadMore d) as [[[|] d1]| |]; try contradiction.
  - destruct H as (A & B & C & D & E & F & G & J & K & L).
    specialize (IH d1 (data ++ window d) A ltac:(lia)).
    destruct (remains_loop f d1 (data ++ window d)) as [[dt d2]| |]; try contradiction.
    destruct IH as (Hwf2 & I1 & I2 & I3). split; [exact Hwf2|].
    split; [|split; [exact I2|rewrite I3, E; reflexivity]].
    rewrite I1, D, <- app_assoc. reflexivity.
  - destruct H as (A & B & C & D & E & F & G & J).
    split; [exact A|]. split; [|split; assumption].
    unfold remaining. rewrite D, app_nil_r. reflexivity.
Qed.

Definition relo {A : Type} (r : res (A * dst)) (s : A * sst) : Prop := rel r s.

Lemma remains_refines : forall d, wf d -> rel (remains d) (s_remains (abs d)).
Proof.
  intros d Hwf. unfold remains, rel, s_remains. pose proof (ensure_spec d Hwf) as H.
  destruct (ensure d) as [[[|] d1]| |]; try contradiction.
  - destruct H as (A & B & C & D & E & F & G & J).
    unfold abs. cbn [fst snd]. rewrite <- C. rewrite <- C in D.
    pose proof (remains_loop_spec (fuel_of d1) d1 [] A ltac:(unfold fuel_of, mu; lia)) as HL.
    destruct (remains_loop (fuel_of d1) d1 []) as [[dt d2]| |]; try contradiction.
    destruct HL as (Hwf2 & I1 & I2 & I3). split; [exact Hwf2|].
    destruct (remaining d1) as [|b0 r0] eqn:Er; [contradiction|].
    rewrite I1. cbn [app]. f_equal. apply abs_eq; [exact I2|rewrite I3, E; reflexivity].
  - destruct H as (A & B & C & D & E & _).
    unfold abs. cbn [fst snd]. rewrite D. split; [exact A|]. f_equal. apply abs_eq; assumption.
Qed.

(* ---------------------------------------------------------------- numbers *)

Lemma scan_digits_lt : forall a v v' k, scan_digits a v = (v', Some k) -> k < length a.
Proof.
  induction a as [|x a IH]; intros v v' k H; [discriminate|].
  cbn [scan_digits] in H. destruct (digit x) as [i|].
  - destruct (scan_digits a (wrap64 (v * 10 + i))) as [v2 [j|]] eqn:E; cbn in H; inversion H; subst.
    specialize (IH _ _ _ E). cbn. lia.
  - inversion H. cbn. lia.
Qed.

Lemma scan_digits_app : forall a b v,
  scan_digits (a ++ b) v =
  match scan_digits a v with
  | (v', Some k) => (v', Some k)
  | (v', None) => let '(v2, k) := scan_digits b v' in (v2, option_map (fun j => length a + j) k)
  end.
Proof.
  induction a as [|x a IH]; intros b v.
  - cbn. destruct (scan_digits b v) as [v2 [k|]]; reflexivity.
  - cbn [app scan_digits]. destruct (digit x) as [i|]; [|reflexivity].
    rewrite IH. destruct (scan_digits a (wrap64 (v * 10 + i))) as [v1 [k|]]; [reflexivity|].
    destruct (scan_digits b v1) as [v2 [k|]]; reflexivity.
Qed.

Lemma uint_loop_spec : forall fuel d v, wf d -> mu (pending d) < fuel ->
  match uint_loop fuel d v with
  | Ok (v', d') =>
      wf d' /\
      match scan_digits (remaining d) v with
      | (v2, Some k) => v' = v2 /\ remaining d' = skipn (S k) (remaining d) /\ err d' = err d
      | (v2, None) => v' = v2 /\ remaining d' = [] /\ err d' = or_err (err d) EEOF
      end
  | _ => False
  end.
Proof.
  induction fuel as [|f IH]; intros d v Hwf Hmu; [lia|].
  cbn [uint_loop].
  assert (Hht : tail d <? head d = false) by (destruct Hwf; apply Nat.ltb_ge; lia).
  rewrite Hht, (window_slice d Hwf).
  pose proof (length_window d Hwf) as Hlw.
  assert (Hrem : remaining d = window d ++ concat (pending d)) by reflexivity.
  rewrite Hrem, scan_digits_app.
  destruct (scan_digits (window d) v) as [v1 [k|]] eqn:Es.
  - pose proof (scan_digits_lt _ _ _ _ Es) as Hk.
    destruct (window_split d (k + 1) Hwf ltac:(lia)) as (_ & _ & Hwf').
    rewrite Nat.add_assoc in Hwf'. split; [exact Hwf'|]. split; [reflexivity|].
    split; [|reflexivity].
    rewrite remaining_set_head, <- Nat.add_assoc, window_skip by (try assumption; lia).
    rewrite skipn_app_le by lia. f_equal. f_equal. lia.
  - pose proof (loadMore_spec d Hwf) as H.
    destruct (loadMore d) as [[[|] d1]| |]; try contradiction.
    + destruct H as (A & B & C & D & E & F & G & J & K & L).
      specialize (IH d1 v1 A ltac:(lia)).
      destruct (uint_loop f d1 v1) as [[v' d2]| |]; try contradiction.
      destruct IH as (Hwf2 & IH). split; [exact Hwf2|]. rewrite D in IH.
      destruct (scan_digits (concat (pending d)) v1) as [v2 [j|]]; cbn [option_map].
      * destruct IH as (I1 & I2 & I3). split; [exact I1|]. split; [|rewrite I3; exact E].
        rewrite I2. replace (S (length (window d) + j)) with (length (window d) + S j) by lia.
        rewrite skipn_app_ge by lia. f_equal. lia.
      * destruct IH as (I1 & I2 & I3). split; [exact I1|]. split; [exact I2|rewrite I3, E; reflexivity].
    + destruct H as (A & B & C & D & E & F & G & J).
      split; [exact A|]. rewrite D. cbn [scan_digits option_map].
      split; [reflexivity|]. split; assumption.
Qed.

Lemma readUint64_refines : forall c d, wf d -> rel (readUint64 c d) (s_readUint64 c (abs d)).
Proof.
  intros c d Hwf. unfold readUint64, s_readUint64, rel.
  destruct (digit c) as [i|]; [|split; [exact Hwf|reflexivity]].
  pose proof (uint_loop_spec (S (fuel_of d)) d i Hwf ltac:(unfold fuel_of, mu; lia)) as H.
  destruct (uint_loop (S (fuel_of d)) d i) as [[v' d']| |]; try contradiction.
  destruct H as (Hwf' & H). split; [exact Hwf'|].
  unfold abs at 2 3 4. cbn [fst snd].
  destruct (scan_digits (remaining d) i) as [v2 [k|]]; destruct H as (I1 & I2 & I3);
    rewrite I1; f_equal; apply abs_eq; assumption.
Qed.

Ltac chain H lem :=
  pose proof lem as H; unfold rel in H;
  match type of H with
  | match ?x with _ => _ end =>
      let v := fresh "v" in let d := fresh "d" in
      destruct x as [[v d]| |]; try contradiction
  end.

Lemma readInt64_refines : forall d, wf d -> rel (readInt64 d) (s_readInt64 (abs d)).
Proof.
  intros d Hwf. unfold readInt64, s_readInt64.
  chain H1 (nextByte_refines d Hwf). destruct H1 as (W1 & Q1). rewrite <- Q1.
  destruct (Byte.eqb v minus).
  - chain H2 (nextByte_refines d0 W1). destruct H2 as (W2 & Q2). rewrite <- Q2.
    chain H3 (readUint64_refines v0 d1 W2). destruct H3 as (W3 & Q3). rewrite <- Q3.
    unfold rel. split; [exact W3|reflexivity].
  - chain H3 (readUint64_refines v d0 W1). destruct H3 as (W3 & Q3). rewrite <- Q3.
    unfold rel. split; [exact W3|reflexivity].
Qed.

Lemma readUint64Top_refines : forall d, wf d -> rel (readUint64Top d) (s_readUint64Top (abs d)).
Proof.
  intros d Hwf. unfold readUint64Top, s_readUint64Top.
  chain H1 (nextByte_refines d Hwf). destruct H1 as (W1 & Q1). rewrite <- Q1.
  destruct (Byte.eqb v minus).
  - chain H2 (nextByte_refines d0 W1). destruct H2 as (W2 & Q2). rewrite <- Q2.
    chain H3 (readUint64_refines v0 d1 W2). destruct H3 as (W3 & Q3). rewrite <- Q3.
    unfold rel. split; [exact W3|reflexivity].
  - chain H3 (readUint64_refines v d0 W1). destruct H3 as (W3 & Q3). rewrite <- Q3.
    unfold rel. split; [exact W3|reflexivity].
Qed.

Lemma readDigits_refines : forall k acc d, wf d -> rel (readDigits k acc d) (s_readDigits k acc (abs d)).
Proof.
  induction k as [|k IH]; intros acc d Hwf.
  - cbn. split; [exact Hwf|reflexivity].
  - cbn [readDigits s_readDigits].
    chain H1 (nextByte_refines d Hwf). destruct H1 as (W1 & Q1). rewrite <- Q1.
    apply IH. exact W1.
Qed.

Ltac step H W Q lem :=
  chain H lem; destruct H as (W & Q); rewrite <- Q; cbn [bind]; cbv beta iota.

Ltac finish W := unfold rel; split; [exact W|reflexivity].

Lemma readNsec_refines : forall d, wf d -> rel (readNsec d) (s_readNsec (abs d)).
Proof.
  intros d Hwf. unfold readNsec, s_readNsec, read3Digit, read2Digit.
  step H1 W1 Q1 (readDigits_refines 3 0%N d Hwf).
  step H2 W2 Q2 (nextByte_refines d0 W1).
  destruct (digit v0); [|finish W2].
  step H3 W3 Q3 (readDigits_refines 2 0%N d1 W2).
  step H4 W4 Q4 (nextByte_refines d2 W3).
  destruct (digit v2); [|finish W4].
  step H5 W5 Q5 (readDigits_refines 2 0%N d3 W4).
  step H6 W6 Q6 (nextByte_refines d4 W5).
  finish W6.
Qed.

Lemma readHMS_refines : forall d, wf d -> rel (readHMS d) (s_readHMS (abs d)).
Proof.
  intros d Hwf. unfold readHMS, s_readHMS, read2Digit.
  step H1 W1 Q1 (readDigits_refines 2 0%N d Hwf).
  step H2 W2 Q2 (readDigits_refines 2 0%N d0 W1).
  step H3 W3 Q3 (readDigits_refines 2 0%N d1 W2).
  step H4 W4 Q4 (nextByte_refines d2 W3).
  destruct (Byte.eqb v2 tagPoint); [|finish W4].
  step H5 W5 Q5 (readNsec_refines d3 W4).
  destruct v3 as [ns tg]. finish W5.
Qed.

Lemma readDateTime_refines : forall d, wf d -> rel (readDateTime d) (s_readDateTime (abs d)).
Proof.
  intros d Hwf. unfold readDateTime, s_readDateTime, read4Digit, read2Digit.
  step H1 W1 Q1 (readDigits_refines 4 0%N d Hwf).
  step H2 W2 Q2 (readDigits_refines 2 0%N d0 W1).
  step H3 W3 Q3 (readDigits_refines 2 0%N d1 W2).
  step H4 W4 Q4 (nextByte_refines d2 W3).
  destruct (Byte.eqb v2 tagTime); [|finish W4].
  step H5 W5 Q5 (readHMS_refines d3 W4).
  destruct v3 as [l tg]. finish W5.
Qed.

Lemma readBytes_refines : forall d, wf d -> relr (readBytes d) (s_readBytes (abs d)).
Proof.
  intros d Hwf. unfold readBytes, s_readBytes.
  step H1 W1 Q1 (readInt64_refines d Hwf).
  pose proof (next_refines v d0 W1) as H2. unfold relr, nosafe in H2.
  destruct (next v d0) as [[[x sf] d1]| |]; destruct (s_next v (abs d0)) as [[x' s1]| |];
    try contradiction; cbn [bind]; [|exact Logic.I].
  destruct H2 as (W2 & Qx & Qs). subst x'. rewrite <- Qs.
  pose proof (skip_refines d1 W2) as H3. unfold rel1 in H3.
  destruct (skip d1) as [d2| |]; try contradiction. destruct H3 as (W3 & Q3).
  cbn [bind]. unfold relr. split; [exact W3|]. split; [reflexivity|exact Q3].
Qed.

(* ---------------------------------------------------------------- strings *)

Lemma lead_cases : forall b w u, lead b = Some (w, u) ->
  (w = 1 /\ u = 1%Z) \/ (w = 2 /\ u = 1%Z) \/ (w = 3 /\ u = 1%Z) \/ (w = 4 /\ u = 2%Z).
Proof.
  intros b w u H. destruct b; vm_compute in H; inversion H; subst; auto.
Qed.

Lemma firstn_add : forall (A : Type) a b (l : list A),
  firstn (a + b) l = firstn a l ++ firstn b (skipn a l).
Proof.
  intros A a. induction a as [|a IH]; intros b l; [reflexivity|].
  destruct l as [|x l]; [cbn; rewrite firstn_nil; reflexivity|].
  cbn [Nat.add firstn skipn app]. f_equal. apply IH.
Qed.

Lemma skipn_nth : forall (A : Type) off (w : list A), off < length w ->
  exists b, nth_error w off = Some b /\ skipn off w = b :: skipn (S off) w.
Proof.
  intros A off. induction off as [|off IH]; intros w H.
  - destruct w as [|x w]; [cbn in H; lia|]. exists x. split; reflexivity.
  - destruct w as [|x w]; [cbn in H; lia|]. cbn [length] in H.
    destruct (IH w ltac:(lia)) as (b & H1 & H2). exists b. split; [exact H1|].
    cbn [skipn] in *. exact H2.
Qed.

(* paying the owed continuation bytes first *)
Lemma scan_skip_le : forall bs k n, k <= length bs ->
  scan bs k n = let '(c, s, m, v) := scan (skipn k bs) 0 n in (k + c, s, m, v).
Proof.
  induction bs as [|x bs IH]; intros k n H.
  - cbn in H. assert (k = 0) by lia. subst. reflexivity.
  - destruct k as [|k].
    + cbn [skipn Nat.add]. destruct (scan (x :: bs) 0 n) as [[[c s] m] v]. reflexivity.
    + cbn [scan skipn]. cbn [length] in H. rewrite IH by lia.
      destruct (scan (skipn k bs) 0 n) as [[[c s] m] v]. reflexivity.
Qed.

Lemma scan_skip_ge : forall bs k n, length bs <= k ->
  scan bs k n = (length bs, k - length bs, n, true).
Proof.
  induction bs as [|x bs IH]; intros k n H.
  - cbn. rewrite Nat.sub_0_r. reflexivity.
  - cbn [length] in H. destruct k as [|k]; [lia|].
    cbn [scan]. rewrite IH by lia. reflexivity.
Qed.

Lemma scan_app : forall a b sk n,
  scan (a ++ b) sk n =
  let '(c, s, m, v) := scan a sk n in
  if v && (c =? length a)
  then let '(c2, s2, m2, v2) := scan b s m in (c + c2, s2, m2, v2)
  else (c, s, m, v).
Proof.
  induction a as [|x a IH]; intros b sk n.
  - cbn [app scan length]. cbn. destruct (scan b sk n) as [[[c2 s2] m2] v2]. reflexivity.
  - cbn [app scan]. destruct sk as [|k].
    + destruct (n <=? 0)%Z; [reflexivity|].
      destruct (lead x) as [[w u]|]; [|reflexivity].
      rewrite IH. destruct (scan a (w - 1) (n - u)) as [[[c s] m] v].
      cbn [length]. replace (S c =? S (length a)) with (c =? length a) by reflexivity.
      destruct (v && (c =? length a)); [|reflexivity].
      destruct (scan b s m) as [[[c2 s2] m2] v2]. reflexivity.
    + rewrite IH. destruct (scan a k n) as [[[c s] m] v].
      cbn [length]. replace (S c =? S (length a)) with (c =? length a) by reflexivity.
      destruct (v && (c =? length a)); [|reflexivity].
      destruct (scan b s m) as [[[c2 s2] m2] v2]. reflexivity.
Qed.

Lemma scan_le : forall bs sk n c s m v, scan bs sk n = (c, s, m, v) -> c <= length bs /\ (m <= n)%Z.
Proof.
  induction bs as [|x bs IH]; intros sk n c s m v H.
  - cbn in H. inversion H; subst. cbn. lia.
  - cbn [scan] in H. destruct sk as [|k].
    + destruct (n <=? 0)%Z; [inversion H; subst; cbn; lia|].
      destruct (lead x) as [[w u]|] eqn:El; [|inversion H; subst; cbn; lia].
      destruct (scan bs (w - 1) (n - u)) as [[[c1 s1] m1] v1] eqn:E. inversion H; subst.
      destruct (IH _ _ _ _ _ _ E) as (I1 & I2). cbn [length].
      destruct (lead_cases _ _ _ El) as [(?&?)|[(?&?)|[(?&?)|(?&?)]]]; subst; lia.
    + destruct (scan bs k n) as [[[c1 s1] m1] v1] eqn:E. inversion H; subst.
      destruct (IH _ _ _ _ _ _ E) as (I1 & I2). cbn [length]. lia.
Qed.

(* stopping before the end of the bytes means the string is complete *)
Lemma scan_early : forall bs sk n c s m, scan bs sk n = (c, s, m, true) -> c < length bs ->
  s = 0 /\ (m <= 0)%Z.
Proof.
  induction bs as [|x bs IH]; intros sk n c s m H Hc.
  - cbn in Hc. lia.
  - cbn [scan] in H. destruct sk as [|k].
    + destruct (n <=? 0)%Z eqn:En; [inversion H; subst; lia|].
      destruct (lead x) as [[w u]|]; [|discriminate].
      destruct (scan bs (w - 1) (n - u)) as [[[c1 s1] m1] v1] eqn:E. inversion H; subst.
      cbn [length] in Hc. apply (IH _ _ _ _ _ E). lia.
    + destruct (scan bs k n) as [[[c1 s1] m1] v1] eqn:E. inversion H; subst.
      cbn [length] in Hc. apply (IH _ _ _ _ _ E). lia.
Qed.

(* n UTF-16 units never take more than 3n bytes *)
Lemma scan_bound : forall bs sk n c s m v, scan bs sk n = (c, s, m, v) ->
  (Z.of_nat c + Z.of_nat s <= Z.of_nat sk + 3 * (n - m))%Z.
Proof.
  induction bs as [|x bs IH]; intros sk n c s m v H.
  - cbn in H. inversion H; subst. lia.
  - cbn [scan] in H. destruct sk as [|k].
    + destruct (n <=? 0)%Z; [inversion H; subst; lia|].
      destruct (lead x) as [[w u]|] eqn:El; [|inversion H; subst; lia].
      destruct (scan bs (w - 1) (n - u)) as [[[c1 s1] m1] v1] eqn:E. inversion H; subst.
      specialize (IH _ _ _ _ _ _ E).
      destruct (lead_cases _ _ _ El) as [(?&?)|[(?&?)|[(?&?)|(?&?)]]]; subst; lia.
    + destruct (scan bs k n) as [[[c1 s1] m1] v1] eqn:E. inversion H; subst.
      specialize (IH _ _ _ _ _ _ E). lia.
Qed.

(* the index-jumping inner loop of the slow path computes scan over the window *)
Lemma slow_inner_scan : forall fuel w off n, off <= length w -> length w - off < fuel ->
  slow_inner fuel w off n (Z.of_nat (length w)) =
  let '(c, s, m, v) := scan (skipn off w) 0 n in Ok (off + c + s, m, v).
Proof.
  induction fuel as [|f IH]; intros w off n Hoff Hf; [lia|].
  cbn [slow_inner].
  destruct (Nat.eq_dec off (length w)) as [He|Hne].
  - subst off. rewrite skipn_all. cbn [scan].
    replace (Z.of_nat (length w) <? Z.of_nat (length w))%Z with false by lia.
    rewrite andb_false_r. rewrite !Nat.add_0_r. reflexivity.
  - assert (Hlt : off < length w) by lia.
    destruct (skipn_nth _ off w Hlt) as (b & Hn & Hs). rewrite Hs. cbn [scan].
    replace (Z.of_nat off <? Z.of_nat (length w))%Z with true by lia. rewrite andb_true_r.
    destruct (0 <? n)%Z eqn:En.
    + replace (n <=? 0)%Z with false by lia. rewrite Hn.
      destruct (lead b) as [[k u]|] eqn:El; [|rewrite !Nat.add_0_r; reflexivity].
      assert (Hk : 1 <= k) by (destruct (lead_cases _ _ _ El) as [(?&?)|[(?&?)|[(?&?)|(?&?)]]]; lia).
      destruct (Nat.le_gt_cases (off + k) (length w)) as [Hle|Hgt].
      * rewrite IH by lia.
        rewrite (scan_skip_le (skipn (S off) w) (k - 1) (n - u)) by (rewrite skipn_length; lia).
        rewrite skipn_skipn'. replace (S off + (k - 1)) with (off + k) by lia.
        destruct (scan (skipn (off + k) w) 0 (n - u)) as [[[c s] m] v].
        f_equal. f_equal. f_equal. lia.
      * rewrite (scan_skip_ge (skipn (S off) w) (k - 1) (n - u)) by (rewrite skipn_length; lia).
        rewrite skipn_length.
        destruct f as [|f']; [lia|]. cbn [slow_inner].
        replace (Z.of_nat (off + k) <? Z.of_nat (length w))%Z with false by lia.
        rewrite andb_false_r. f_equal. f_equal. f_equal. lia.
    + replace (n <=? 0)%Z with true by lia. rewrite !Nat.add_0_r. reflexivity.
Qed.

(* the unchecked loop of the fast path, when the string lies entirely in the window *)
Lemma fast_loop_scan : forall fuel w off n c m, off <= length w -> length w - off < fuel ->
  scan (skipn off w) 0 n = (c, 0, m, true) -> (m <= 0)%Z ->
  fast_loop fuel w off n = Ok (Some (off + c)).
Proof.
  induction fuel as [|f IH]; intros w off n c m Hoff Hf Hs Hm; [lia|].
  cbn [fast_loop].
  destruct (0 <? n)%Z eqn:En.
  - destruct (Nat.eq_dec off (length w)) as [He|Hne].
    { subst off. rewrite skipn_all in Hs. cbn in Hs. inversion Hs; subst. lia. }
    assert (Hlt : off < length w) by lia.
    destruct (skipn_nth _ off w Hlt) as (b & Hn & Hsk). rewrite Hsk in Hs. cbn [scan] in Hs.
    replace (n <=? 0)%Z with false in Hs by lia. rewrite Hn.
    destruct (lead b) as [[k u]|] eqn:El; [|discriminate].
    assert (Hk : 1 <= k) by (destruct (lead_cases _ _ _ El) as [(?&?)|[(?&?)|[(?&?)|(?&?)]]]; lia).
    destruct (Nat.le_gt_cases (off + k) (length w)) as [Hle|Hgt].
    + rewrite (scan_skip_le (skipn (S off) w) (k - 1) (n - u)) in Hs by (rewrite skipn_length; lia).
      rewrite skipn_skipn' in Hs. replace (S off + (k - 1)) with (off + k) in Hs by lia.
      destruct (scan (skipn (off + k) w) 0 (n - u)) as [[[c1 s1] m1] v1] eqn:E.
      inversion Hs; subst.
      rewrite (IH w (off + k) (n - u)%Z c1 m ltac:(lia) ltac:(lia) E Hm). f_equal. f_equal. lia.
    + rewrite (scan_skip_ge (skipn (S off) w) (k - 1) (n - u)) in Hs by (rewrite skipn_length; lia).
      rewrite skipn_length in Hs. inversion Hs. lia.
  - destruct (skipn off w) as [|x r]; cbn [scan] in Hs.
    + inversion Hs. rewrite Nat.add_0_r. reflexivity.
    + replace (n <=? 0)%Z with true in Hs by lia. inversion Hs. rewrite Nat.add_0_r. reflexivity.
Qed.

(* what the string reader should deliver from the contiguous rest [r], after [dt] *)
Definition str_out (dt r : list byte) (e : option errk) (n : Z) : list byte * sst :=
  let '(c, s, m, v) := scan r 0 n in
  if (s =? 0) && (m <=? 0)%Z then (dt ++ firstn c r, (skipn c r, e))
  else (dt ++ r, ([], or_err e EEOF)).

Lemma or_err_idem : forall e k, or_err (or_err e EEOF) k = or_err e EEOF.
Proof. intros [x|] k; reflexivity. Qed.

Lemma wf_set_err : forall d k, wf d -> wf (set_err d k).
Proof. intros d k H. exact H. Qed.


Lemma scan_done : forall bs m, (m <= 0)%Z -> scan bs 0 m = (0, 0, m, true).
Proof.
  intros bs m H. destruct bs as [|x bs]; [reflexivity|]. cbn [scan].
  replace (m <=? 0)%Z with true by lia. reflexivity.
Qed.

(* on the fast path the whole string lies in the window *)
Lemma scan_fast : forall w P n c s m,
  scan (w ++ P) 0 n = (c, s, m, true) -> (0 <= m)%Z -> (n * 3 <= Z.of_nat (length w))%Z ->
  scan w 0 n = (c, 0, m, true) /\ s = 0 /\ (m <= 0)%Z /\ c <= length w.
Proof.
  intros w P n c s m H Hm Hn. rewrite scan_app in H.
  destruct (scan w 0 n) as [[[cw sw] mw] vw] eqn:Ew.
  destruct (scan_le _ _ _ _ _ _ _ Ew) as (Hcw & Hmw).
  destruct vw; cbn [andb] in H; [|inversion H].
  destruct (cw =? length w) eqn:Ec.
  - apply Nat.eqb_eq in Ec. subst cw.
    destruct (scan P sw mw) as [[[c2 s2] m2] v2] eqn:E2. inversion H; subst c s m v2. clear H.
    destruct (scan_le _ _ _ _ _ _ _ E2) as (Hc2 & Hm2).
    pose proof (scan_bound _ _ _ _ _ _ _ Ew) as Hb.
    assert (sw = 0) by lia. assert (mw = 0%Z) by lia. subst sw mw.
    rewrite scan_done in E2 by lia. inversion E2; subst.
    rewrite Nat.add_0_r. repeat split; lia.
  - apply Nat.eqb_neq in Ec. inversion H; subst c s m. clear H.
    destruct (scan_early _ _ _ _ _ _ Ew ltac:(lia)) as (Hs0 & Hm0). subst sw.
    repeat split; lia.
Qed.


(* the refill loop: keep reading until the bytes the split character still owes are in the window *)
Lemma refill_loop_spec : forall fuel d rem data, wf d -> head d = 0 -> mu (pending d) < fuel ->
  (rem <= 0)%Z ->
  match refill_loop fuel d rem data with
  | Ok (true, dt, rem', d') =>
      wf d' /\ head d' = 0 /\ (rem' <= 0)%Z /\ Z.to_nat (- rem') <= tail d' /\
      dt ++ firstn (Z.to_nat (- rem')) (window d') = data ++ firstn (Z.to_nat (- rem)) (remaining d) /\
      skipn (Z.to_nat (- rem')) (remaining d') = skipn (Z.to_nat (- rem)) (remaining d) /\
      Z.to_nat (- rem) <= length (remaining d) /\
      err d' = err d /\ mu (pending d') <= mu (pending d) /\ length (buf d') = length (buf d)
  | Ok (false, dt, _, d') =>
      wf d' /\ length (remaining d) < Z.to_nat (- rem) /\ dt = data ++ remaining d /\
      remaining d' = [] /\ err d' = or_err (err d) EEOF
  | _ => False
  end.
Proof.
  induction fuel as [|f IH]; intros d rem data Hwf Hh Hmu Hrem; [lia|].
  cbn [refill_loop].
  pose proof (length_window d Hwf) as Hlw. rewrite Hh, Nat.sub_0_r in Hlw.
  assert (Hr : remaining d = window d ++ concat (pending d)) by reflexivity.
  destruct (Z.of_nat (tail d) <? - rem)%Z eqn:Et.
  - pose proof (window_slice d Hwf) as Hs. rewrite Hh in Hs. rewrite Hs.
    pose proof (loadMore_spec d Hwf) as H.
    destruct (loadMore d) as [[[|] d1]| |]; try contradiction.
    + destruct H as (A & B & C & D & E & F & G & J & K & L).
      specialize (IH d1 (rem + Z.of_nat (tail d))%Z (data ++ window d) A B ltac:(lia) ltac:(lia)).
      destruct (refill_loop f d1 (rem + Z.of_nat (tail d)) (data ++ window d)) as [[[[[|] dt] rem'] d2]| |];
        try contradiction.
      * destruct IH as (I1 & I2 & I3 & I4 & I5 & I6 & I7 & I8 & I9 & I10).
        rewrite D in I5, I6, I7.
        splits; try assumption; try lia.
        -- rewrite I5, Hr, firstn_app_ge by lia. rewrite <- app_assoc. f_equal. f_equal. f_equal. lia.
        -- rewrite I6, Hr, skipn_app_ge by lia. f_equal. lia.
        -- rewrite Hr, app_length. lia.
        -- rewrite I8. exact E.
      * destruct IH as (I1 & I2 & I3 & I4 & I5). rewrite D in I2, I3.
        splits; try assumption.
        -- rewrite Hr, app_length. lia.
        -- rewrite I3, Hr, <- app_assoc. reflexivity.
        -- rewrite I5, E. reflexivity.
    + destruct H as (A & B & C & D & E & F & G & J).
      rewrite Hr, D, app_nil_r. splits.
      * apply wf_set_err. exact A.
      * lia.
      * reflexivity.
      * exact C.
      * cbn [set_err err]. rewrite E. apply or_err_idem.
  - splits; try assumption; try lia; try reflexivity.
    + rewrite Hr, firstn_app_le by lia. reflexivity.
    + rewrite Hr, app_length. lia.
Qed.

Lemma slow_loop_spec : forall fuel d n data safe c s m,
  wf d -> mu (pending d) < fuel ->
  scan (remaining d) 0 n = (c, s, m, true) -> (0 <= m)%Z ->
  match slow_loop fuel d n (Z.of_nat (tail d) - Z.of_nat (head d)) data safe with
  | Ok (Some x, _, d') =>
      wf d' /\
      (x, abs d') = str_out (match data with Some v => v | None => [] end) (remaining d) (err d) n
  | _ => False
  end.
Proof.
  induction fuel as [|f IH]; intros d n data safe c s m Hwf Hmu Hscan Hm; [lia|].
  cbn [slow_loop]. rewrite (window_slice d Hwf).
  pose proof (length_window d Hwf) as Hlw.
  assert (Hlen : (Z.of_nat (tail d) - Z.of_nat (head d))%Z = Z.of_nat (length (window d)))
    by (destruct Hwf; lia).
  rewrite Hlen.
  rewrite (slow_inner_scan (S (length (window d))) (window d) 0 n ltac:(lia) ltac:(lia)).
  cbn [skipn Nat.add].
  assert (Hrem : remaining d = window d ++ concat (pending d)) by reflexivity.
  unfold str_out. rewrite Hscan.
  rewrite Hrem, scan_app in Hscan.
  destruct (scan (window d) 0 n) as [[[cw sw] mw] vw] eqn:Ew.
  destruct (scan_le _ _ _ _ _ _ _ Ew) as (Hcw & Hmw).
  destruct vw; cbn [andb] in Hscan; [|inversion Hscan].
  assert (Hres : forall k dt, k <= length (window d) ->
            (dt ++ firstn k (window d), abs (set_head d (head d + k))) =
            (dt ++ firstn k (window d ++ concat (pending d)),
             (skipn k (window d ++ concat (pending d)), err d))).
  { intros k dt Hk. rewrite firstn_app_le, skipn_app_le by lia. f_equal.
    apply abs_eq; [|reflexivity].
    rewrite remaining_set_head, window_skip by (try assumption; lia). reflexivity. }
  destruct (cw =? length (window d)) eqn:Ecw.
  - (* the window is used up *)
    apply Nat.eqb_eq in Ecw. subst cw.
    destruct (scan (concat (pending d)) sw mw) as [[[c2 s2] m2] v2] eqn:E2.
    inversion Hscan; subst c s m v2. clear Hscan.
    destruct (scan_le _ _ _ _ _ _ _ E2) as (Hc2 & Hm2).
    replace (0 <? Z.of_nat (length (window d)) - Z.of_nat (length (window d) + sw))%Z with false by lia.
    cbn [orb].
    destruct ((Z.of_nat (length (window d)) - Z.of_nat (length (window d) + sw) =? 0)%Z && (mw <=? 0)%Z) eqn:Eret.
    + (* the string ends exactly with the window: return without a refill *)
      apply andb_prop in Eret. destruct Eret as (Es0 & Em0).
      assert (sw = 0) by lia. subst sw. assert (Hmw0 : (mw <= 0)%Z) by lia.
      rewrite scan_done in E2 by lia. inversion E2; subst c2 s2 m2. clear E2.
      rewrite !Nat.add_0_r.
      destruct (window_split d (length (window d)) Hwf ltac:(lia)) as (Hs1 & _ & Hwf1).
      rewrite Hs1.
      replace ((0 =? 0) && (mw <=? 0)%Z) with true by (cbn; lia).
      rewrite Hrem.
      destruct data as [dt|]; (split; [exact Hwf1|]); [apply Hres | apply (Hres _ [])]; lia.
    + replace (negb safe && (mw * 3 <? 0)%Z) with false by (destruct safe; cbn; lia).
      pose proof (loadMore_spec d Hwf) as H.
      destruct (loadMore d) as [[[|] d1]| |]; try contradiction.
      * destruct H as (A & B & C & D & E & F & G & J & K & L).
        assert (HP : remaining d1 = concat (pending d)) by exact D.
        pose proof (refill_loop_spec (fuel_of d1) d1
                      (Z.of_nat (length (window d)) - Z.of_nat (length (window d) + sw))%Z
                      (match data with Some x => x | None => [] end ++ window d)
                      A B ltac:(unfold fuel_of, mu; lia) ltac:(lia)) as HR.
        replace (Z.to_nat (- (Z.of_nat (length (window d)) - Z.of_nat (length (window d) + sw)))) with sw in HR by lia.
        destruct (refill_loop (fuel_of d1) d1 _ _) as [[[[[|] data3] rem2] d2]| |]; try contradiction.
        -- destruct HR as (R1 & R2 & R3 & R4 & R5 & R6 & R7 & R8 & R9 & R10).
           rewrite HP in R5, R6, R7.
           pose proof (length_window d2 R1) as Hlw2. rewrite R2, Nat.sub_0_r in Hlw2.
           destruct (window_split d2 (Z.to_nat (- rem2)) R1 ltac:(lia)) as (Hs2 & _ & Hwf3).
           rewrite Hs2.
           set (d3 := set_head d2 (head d2 + Z.to_nat (- rem2))) in *.
           assert (Hr3 : remaining d3 = skipn sw (concat (pending d))).
           { unfold d3. rewrite remaining_set_head, window_skip by (try assumption; lia).
             rewrite <- R6. unfold remaining. rewrite skipn_app_le by lia. reflexivity. }
           rewrite (scan_skip_le _ _ _ R7) in E2.
           destruct (scan (skipn sw (concat (pending d))) 0 mw) as [[[c3 s3] m3] v3] eqn:E3.
           inversion E2; subst c2 s2 m2 v3. clear E2.
           specialize (IH d3 mw (Some (data3 ++ firstn (Z.to_nat (- rem2)) (window d2))) true
                          c3 s3 m3 Hwf3 ltac:(unfold d3; cbn [set_head pending]; lia)
                          ltac:(rewrite Hr3; exact E3) Hm).
           destruct (slow_loop f d3 mw (Z.of_nat (tail d3) - Z.of_nat (head d3)) _ true) as [[[[x|] sf] d4]| |];
             try contradiction.
           destruct IH as (Hwf4 & IH). split; [exact Hwf4|].
           rewrite IH. unfold str_out. rewrite Hr3, E3.
           assert (Herr : err d3 = err d) by (unfold d3; cbn [set_head err]; rewrite R8; exact E).
           rewrite Herr, R5, Hrem.
           destruct ((s3 =? 0) && (m3 <=? 0)%Z).
           ++ f_equal.
              ** rewrite firstn_app_ge by lia.
                 replace (length (window d) + (sw + c3) - length (window d)) with (sw + c3) by lia.
                 rewrite firstn_add, <- !app_assoc. reflexivity.
              ** f_equal. rewrite skipn_app_ge by lia.
                 replace (length (window d) + (sw + c3) - length (window d)) with (sw + c3) by lia.
                 rewrite skipn_skipn'. reflexivity.
           ++ f_equal. rewrite <- !app_assoc. f_equal. f_equal.
              rewrite <- (firstn_skipn sw (concat (pending d))) at 3. reflexivity.
        -- (* the input ends inside the split character *)
           destruct HR as (R1 & R2 & R3 & R4 & R5). rewrite HP in R2, R3.
           rewrite (scan_skip_ge (concat (pending d)) sw mw ltac:(lia)) in E2. inversion E2; subst c2 s2 m2. clear E2.
           replace ((sw - length (concat (pending d)) =? 0) && (mw <=? 0)%Z) with false
             by (symmetry; apply andb_false_iff; left; apply Nat.eqb_neq; lia).
           split; [exact R1|]. rewrite Hrem, R3, <- app_assoc. f_equal.
           apply abs_eq; [exact R4|rewrite R5, E; reflexivity].
      * destruct H as (A & B & C & D & E & F & G & J).
        rewrite D in E2. cbn [scan] in E2. inversion E2; subst c2 s2 m2. clear E2.
        rewrite D, app_nil_r in *. rewrite Hrem.
        assert (Hb : (sw =? 0) && (mw <=? 0)%Z = false).
        { apply andb_false_iff. apply andb_false_iff in Eret. destruct Eret as [X|X]; [left|right]; lia. }
        rewrite Hb.
        set (d1' := if (Z.of_nat (length (window d)) - Z.of_nat (length (window d) + sw) <? 0)%Z
                    then set_err d1 EInvalidUTF8 else d1).
        assert (Hd1' : wf d1' /\ remaining d1' = [] /\ err d1' = or_err (err d) EEOF).
        { unfold d1'. destruct (_ <? 0)%Z.
          - split; [apply wf_set_err; exact A|]. split; [exact C|].
            cbn [set_err err]. rewrite E. apply or_err_idem.
          - split; [exact A|]. split; assumption. }
        destruct Hd1' as (W & R & Er). split; [exact W|].
        f_equal. apply abs_eq; assumption.
  - (* the string ends inside the window *)
    apply Nat.eqb_neq in Ecw. assert (Hlt : cw < length (window d)) by lia.
    inversion Hscan; subst c s m. clear Hscan.
    destruct (scan_early _ _ _ _ _ _ Ew Hlt) as (Hs0 & Hm0). subst sw.
    rewrite Nat.add_0_r.
    replace (0 <? Z.of_nat (length (window d)) - Z.of_nat cw)%Z with true by lia. cbn [orb].
    destruct (window_split d cw Hwf ltac:(lia)) as (Hs1 & Hw1 & Hwf1).
    rewrite Hs1.
    replace ((0 =? 0) && (mw <=? 0)%Z) with true by (cbn; lia).
    rewrite Hrem.
    destruct data as [dt|]; (split; [exact Hwf1|]); [apply Hres | apply (Hres _ [])]; lia.
Qed.



Lemma str_refines : forall n d, wf d -> str_ok n (remaining d) = true ->
  rel (readStringAsSafeBytes n d) (s_str n (abs d)).
Proof.
  intros n d Hwf Hg. unfold readStringAsSafeBytes, readStringAsBytes, s_str, rel.
  unfold str_ok in Hg.
  destruct (n =? 0)%Z eqn:En; [cbn [bind]; split; [exact Hwf|reflexivity]|].
  cbn [orb] in Hg.
  pose proof (ensure_spec d Hwf) as H.
  destruct (ensure d) as [[[|] d1]| |]; try contradiction.
  - destruct H as (A & B & C & D & E & F & G & J).
    pose proof (length_window d1 A) as Hlw.
    assert (Hlen : (Z.of_nat (tail d1) - Z.of_nat (head d1))%Z = Z.of_nat (length (window d1)))
      by (destruct A; lia).
    unfold abs. cbn [fst snd]. rewrite <- C. rewrite <- C in D, Hg.
    destruct (remaining d1) as [|b0 r0] eqn:Er; [contradiction|]. rewrite <- Er. rewrite <- Er in Hg. clear D.
    destruct (scan (remaining d1) 0 n) as [[[c s] m] v] eqn:Es.
    destruct v; cbn [andb negb] in Hg; [|discriminate].
    rewrite Hlen. cbn [negb].
    destruct (n * 3 <=? Z.of_nat (length (window d1)))%Z eqn:Ef.
    + (* fast path *)
      assert (Hrem : remaining d1 = window d1 ++ concat (pending d1)) by reflexivity.
      rewrite Hrem in Es.
      destruct (scan_fast _ _ _ _ _ _ Es ltac:(lia) ltac:(lia)) as (Hw & Hs0 & Hm0 & Hc).
      subst s. rewrite (window_slice d1 A).
      rewrite (fast_loop_scan (S (length (window d1))) (window d1) 0 n c m ltac:(lia) ltac:(lia) Hw Hm0).
      cbn [Nat.add].
      replace (length (window d1) <? c) with false by (symmetry; apply Nat.ltb_ge; lia).
      destruct (window_split d1 c A ltac:(lia)) as (Hs1 & _ & Hwf1). rewrite Hs1. cbn [bind].
      replace ((0 =? 0) && (m <=? 0)%Z) with true by (cbn; lia).
      split; [exact Hwf1|]. rewrite Hrem. rewrite firstn_app_le, skipn_app_le by lia.
      f_equal. apply abs_eq; [|cbn [set_head err]; exact E].
      rewrite remaining_set_head, window_skip by (try assumption; lia). reflexivity.
    + (* slow path *)
      pose proof (slow_loop_spec (S (fuel_of d1)) d1 n None false c s m A
                    ltac:(unfold fuel_of, mu; lia) Es ltac:(lia)) as HL.
      rewrite Hlen in HL.
      destruct (slow_loop (S (fuel_of d1)) d1 n (Z.of_nat (length (window d1))) None false)
        as [[[[x|] sf] d2]| |]; try contradiction.
      destruct HL as (Hwf2 & HL). cbn [bind]. split; [exact Hwf2|].
      unfold str_out in HL. rewrite Es in HL. cbn [app] in HL. rewrite E in HL.
      destruct ((s =? 0) && (m <=? 0)%Z); inversion HL; destruct sf; reflexivity.
  - destruct H as (A & B & C & D & E & _).
    unfold abs. cbn [fst snd bind]. rewrite D. split; [exact A|]. f_equal. apply abs_eq; assumption.
Qed.

Lemma readStringAsBytesTop_refines : forall d, wf d -> cmd_guard CReadStringAsBytes d = true ->
  rel (readStringAsBytesTop d) (s_readStringAsBytesTop (abs d)).
Proof.
  intros d Hwf Hg. unfold readStringAsBytesTop, s_readStringAsBytesTop.
  unfold cmd_guard, s_cmd_guard in Hg.
  chain H1 (readInt64_refines d Hwf). destruct H1 as (W1 & Q1). rewrite <- Q1 in *. cbn [bind]. cbv beta iota.
  cbv beta iota in Hg. unfold abs at 1 in Hg. cbn [fst] in Hg.
  chain H2 (str_refines v d0 W1 Hg). destruct H2 as (W2 & Q2). rewrite <- Q2. cbn [bind]. cbv beta iota.
  pose proof (skip_refines d1 W2) as H3. unfold rel1 in H3.
  destruct (skip d1) as [d2| |]; try contradiction. destruct H3 as (W3 & Q3).
  cbn [bind]. unfold rel. split; [exact W3|]. rewrite Q3. reflexivity.
Qed.

(* ------------------------------------------------------------------ *)
(* Every command, then every program. *)

Ltac fin3 W := split; [exact W|split; [reflexivity|first [reflexivity|assumption]]].

Lemma rel_relr : forall (A B : Type) (f : A -> B) (r : res (A * dst)) (s : A * sst),
  rel r s ->
  relr (bind r (fun '(x, d1) => Ok (f x, d1))) (let '(x, s1) := s in Ok (f x, s1)).
Proof.
  intros A B f r [x s1] H. unfold rel in H. destruct r as [[v d']| |]; try contradiction.
  destruct H as (W & Q). inversion Q; subst. cbn [bind]. unfold relr. fin3 W.
Qed.

Lemma exec_refines : forall c d, wf d -> cmd_guard c d = true ->
  relr (exec c d) (s_exec c (abs d)).
Proof.
  intros c d Hwf Hg. destruct c; cbn [exec s_exec].
  - apply (rel_relr _ _ VByte). apply nextByte_refines. exact Hwf.
  - pose proof (skip_refines d Hwf) as H. unfold rel1 in H.
    destruct (skip d) as [d1| |]; try contradiction. destruct H as (W & Q).
    cbn [bind]. unfold relr. fin3 W.
  - pose proof (next_refines n d Hwf) as H. unfold relr, nosafe in H.
    destruct (next n d) as [[[x sf] d1]| |]; destruct (s_next n (abs d)) as [[x' s1]| |];
      try contradiction; cbn [bind]; unfold relr; [|exact Logic.I].
    destruct H as (W & Qx & Qs). subst. fin3 W.
  - pose proof (until_refines delim d Hwf) as H. unfold rel, nosafe in H.
    destruct (until delim d) as [[[x sf] d1]| |]; try contradiction.
    destruct H as (W & Q). rewrite <- Q. cbn [bind]. unfold relr. fin3 W.
  - apply (rel_relr _ _ VBytes). apply remains_refines. exact Hwf.
  - apply (rel_relr _ _ VNum). apply readInt64_refines. exact Hwf.
  - apply (rel_relr _ _ VNum). apply readUint64Top_refines. exact Hwf.
  - apply (rel_relr _ _ (fun v => VNum (Z.of_N v))). apply readDigits_refines. exact Hwf.
  - apply (rel_relr _ _ (fun v => VNum (Z.of_N v))). apply readDigits_refines. exact Hwf.
  - apply (rel_relr _ _ (fun v => VNum (Z.of_N v))). apply readDigits_refines. exact Hwf.
  - pose proof (readHMS_refines d Hwf) as H. unfold rel in H. unfold readTime.
    destruct (readHMS d) as [[[l t] d1]| |]; try contradiction.
    destruct H as (W & Q). rewrite <- Q. cbn [bind]. unfold relr. fin3 W.
  - pose proof (readDateTime_refines d Hwf) as H. unfold rel in H.
    destruct (readDateTime d) as [[[l t] d1]| |]; try contradiction.
    destruct H as (W & Q). rewrite <- Q. cbn [bind]. unfold relr. fin3 W.
  - pose proof (readBytes_refines d Hwf) as H. unfold relr in H.
    destruct (readBytes d) as [[x d1]| |]; destruct (s_readBytes (abs d)) as [[x' s1]| |];
      try contradiction; cbn [bind]; unfold relr; [|exact Logic.I].
    destruct H as (W & Qx & Qs). subst. fin3 W.
  - apply (rel_relr _ _ VBytes). apply str_refines; assumption.
  - apply (rel_relr _ _ VBytes). apply readStringAsBytesTop_refines; assumption.
Qed.

Definition obs_run (x : list value * res dst) : list value * option (option sst) :=
  (fst x, match snd x with Ok d => Some (Some (abs d)) | Panic _ => Some None | OutOfFuel => None end).
Definition obs_srun (x : list value * res sst) : list value * option (option sst) :=
  (fst x, match snd x with Ok s => Some (Some s) | Panic _ => Some None | OutOfFuel => None end).

Lemma run_refines : forall p d, wf d -> s_guarded p (abs d) ->
  obs_run (run p d) = obs_srun (s_run p (abs d)) /\ snd (obs_run (run p d)) <> None.
Proof.
  induction p as [|c k IH]; intros d Hwf Hg.
  - cbn. split; [reflexivity|discriminate].
  - cbn [run s_run]. cbn [s_guarded] in Hg. destruct Hg as (Hc & Hk).
    pose proof (exec_refines c d Hwf Hc) as H. unfold relr in H.
    destruct (exec c d) as [[v d1]| |]; destruct (s_exec c (abs d)) as [[v' s1]| |]; try contradiction.
    + destruct H as (W & Qv & Qs). subst v' s1.
      specialize (IH v d1 W Hk). destruct IH as (I1 & I2).
      destruct (run (k v) d1) as [l e]. destruct (s_run (k v) (abs d1)) as [l' e'].
      unfold obs_run, obs_srun in *. cbn [fst snd] in *. inversion I1; subst.
      split; [f_equal; assumption|assumption].
    + cbn. split; [reflexivity|discriminate].
Qed.

Lemma wf_reader_mode : forall cap chunks, 1 <= cap -> wf (reader_mode cap chunks).
Proof.
  intros cap chunks H. unfold wf, reader_mode. cbn [head tail buf isreader pending].
  rewrite repeat_length. splits; try lia; try discriminate.
Qed.

Lemma wf_bytes_mode : forall l, wf (bytes_mode l).
Proof.
  intros l. unfold wf, bytes_mode. cbn [head tail buf isreader pending].
  splits; try lia; try discriminate; try reflexivity.
Qed.

Lemma abs_reader_mode : forall cap chunks, abs (reader_mode cap chunks) = (concat chunks, None).
Proof. intros. reflexivity. Qed.

Lemma abs_bytes_mode : forall l, abs (bytes_mode l) = (l, None).
Proof.
  intros l. unfold abs, remaining, window, bytes_mode. cbn [head tail buf pending err concat skipn].
  rewrite Nat.sub_0_r, firstn_all, app_nil_r. reflexivity.
Qed.

(* any decoder program: a fragmenting reader and the contiguous slice give the same
   values, the same error and the same rest of the stream *)
Lemma fragmentation_independent : forall p cap chunks, 1 <= cap ->
  s_guarded p (concat chunks, None) ->
  obs_run (run p (reader_mode cap chunks)) = obs_run (run p (bytes_mode (concat chunks))) /\
  snd (obs_run (run p (reader_mode cap chunks))) <> None.
Proof.
  intros p cap chunks Hcap G.
  destruct (run_refines p _ (wf_reader_mode cap chunks Hcap) ltac:(rewrite abs_reader_mode; exact G)) as (R1 & N1).
  destruct (run_refines p _ (wf_bytes_mode (concat chunks)) ltac:(rewrite abs_bytes_mode; exact G)) as (R2 & N2).
  rewrite abs_reader_mode in R1. rewrite abs_bytes_mode in R2.
  split; [rewrite R1, R2; reflexivity|exact N1].
Qed.

(* programs that never read a string need no guard *)
Definition cmd_nostr (c : cmd) : bool :=
  match c with CStr _ | CReadStringAsBytes => false | _ => true end.

Inductive nostr : prog -> Prop :=
| nostr_done : nostr Done
| nostr_step : forall c k, cmd_nostr c = true -> (forall v, nostr (k v)) -> nostr (Step c k).

Lemma nostr_guarded : forall p, nostr p -> forall s, s_guarded p s.
Proof.
  induction 1 as [|c k Hc Hk IH]; intros s; cbn [s_guarded]; [exact Logic.I|].
  split; [destruct c; try reflexivity; discriminate|].
  destruct (s_exec c s) as [[v s1]| |]; try exact Logic.I. apply IH.
Qed.

Lemma fragmentation_independent_nostr : forall p cap chunks, 1 <= cap -> nostr p ->
  obs_run (run p (reader_mode cap chunks)) = obs_run (run p (bytes_mode (concat chunks))) /\
  snd (obs_run (run p (reader_mode cap chunks))) <> None.
Proof.
  intros p cap chunks Hcap Hn.
  apply fragmentation_independent; [exact Hcap|]. apply nostr_guarded. exact Hn.
Qed.


(* ------------------------------------------------------------------ *)
(* Historical: readStringAsBytes as it was before commit 8eb4ed7 ("fix: readStringAsBytes
   handles characters split over several reads and strings ending at end of input").  Kept
   only to record the two behaviours this development found in it. *)

Fixpoint slow_loop_pinned (fuel : nat) (d : dst) (n length_ : Z) (data : option (list byte)) (safe : bool)
  : res (option (list byte) * bool * dst) :=
  match fuel with
  | O => OutOfFuel
  | S f =>
    match slice (buf d) (head d) (tail d) with
    | None => Panic PStrWindow
    | Some w =>
      match slow_inner (S (length w)) w 0 n length_ with
      | Panic s => Panic s
      | OutOfFuel => OutOfFuel
      | Ok (off, n1, false) => Ok (data, safe, set_err d EInvalidUTF8)
      | Ok (off, n1, true) =>
        let rem := (length_ - Z.of_nat off)%Z in
        if (0 <? rem)%Z then
          match slice (buf d) (head d) (head d + off) with      (* buf[:off], cap(buf) = cap - head *)
          | None => Panic PSlice
          | Some pre =>
            let d1 := set_head d (head d + off) in
            match data with
            | None => Ok (Some pre, false, d1)
            | Some dt => Ok (Some (dt ++ pre), safe, d1)
            end
          end
        else
          if negb safe && (n1 * 3 <? 0)%Z then Panic PStrMake else
          let dt := match data with Some x => x | None => [] end in
          let data2 := dt ++ w in
          match loadMore d with
          | Panic s => Panic s
          | OutOfFuel => OutOfFuel
          | Ok (false, d1) => Ok (Some data2, true, if (rem <? 0)%Z then set_err d1 EInvalidUTF8 else d1)
          | Ok (true, d1) =>
            let k := Z.to_nat (- rem) in
            match slice (buf d1) (head d1) (head d1 + k) with
            | None => Panic PStrExtra
            | Some extra =>
              let d2 := set_head d1 (head d1 + k) in
              slow_loop_pinned f d2 n1 (Z.of_nat (tail d2) - Z.of_nat (head d2))%Z (Some (data2 ++ extra)) true
            end
          end
      end
    end
  end.

Definition readStringAsBytes_pinned (n : Z) (d : dst) : res (option (list byte) * bool * dst) :=
  if (n =? 0)%Z then Ok (None, true, d) else
  match ensure d with
  | Panic s => Panic s
  | OutOfFuel => OutOfFuel
  | Ok (false, d1) => Ok (None, true, d1)
  | Ok (true, d1) =>
    let length_ := (Z.of_nat (tail d1) - Z.of_nat (head d1))%Z in
    if (n * 3 <=? length_)%Z then
      match slice (buf d1) (head d1) (tail d1) with
      | None => Panic PSlice
      | Some w =>
        match fast_loop (S (length w)) w 0 n with
        | Panic s => Panic s
        | OutOfFuel => OutOfFuel
        | Ok None => Ok (None, false, set_err d1 EInvalidUTF8)
        | Ok (Some off) =>
          match slice (buf d1) (head d1) (head d1 + off) with
          | None => Panic PStrFast
          | Some x => Ok (Some x, false, set_head d1 (head d1 + off))
          end
        end
      end
    else slow_loop_pinned (S (fuel_of d1)) d1 n length_ None false
  end.


Definition readStringAsSafeBytes_pinned (n : Z) (d : dst) : res (option (list byte) * dst) :=
  bind (readStringAsBytes_pinned n d) (fun '(x, safe, d1) =>
  Ok (if safe then x else Some (match x with Some v => v | None => [] end), d1)).

Definition euro : list byte := [xe2; x82; xac].
Definition quote : byte := x22.

(* a 3-byte character handed over 1+1+1: the old slow path sliced dec.buf[2:1] *)
Lemma pinned_split3_panicked :
  readStringAsSafeBytes_pinned 1 (reader_mode 8 [[xe2]; [x82]; [xac]; [quote]]) = Panic PStrWindow /\
  fst (run_list [CStr 1] (reader_mode 8 [[xe2]; [x82]; [xac]; [quote]])) = [(VBytes (Some euro), None)].
Proof. split; vm_compute; reflexivity. Qed.

(* a 3-byte character ending the input, split 2+1: the old code reported io.EOF *)
Lemma pinned_end_eof :
  (exists d1, readStringAsSafeBytes_pinned 1 (reader_mode 8 [[xe2; x82]; [xac]]) = Ok (Some euro, d1) /\
              err d1 = Some EEOF) /\
  fst (run_list [CStr 1] (reader_mode 8 [[xe2; x82]; [xac]])) = [(VBytes (Some euro), None)].
Proof. split; [eexists; split; vm_compute; reflexivity|vm_compute; reflexivity]. Qed.
