(* Proofs about Model/Mux.v (C09). *)
From Coq Require Import List ZArith Bool Lia.
From HV Require Import Model.Mux.
Import ListNotations.
Open Scope Z_scope.

(* ------------------------------------------------------------------ association lists *)
Section AssocFacts.
  Variables (K A : Type) (eqb : K -> K -> bool).
  Hypothesis eqb_spec : forall x y, eqb x y = true <-> x = y.

  Lemma eqb_refl x : eqb x x = true.
  Proof. apply eqb_spec. reflexivity. Qed.

  Lemma eqb_neq x y : x <> y -> eqb x y = false.
  Proof. intros H. destruct (eqb x y) eqn:E; [|reflexivity]. apply eqb_spec in E. contradiction. Qed.

  Lemma a_find_In k (l : list (K * A)) a : a_find eqb k l = Some a -> In (k, a) l.
  Proof.
    induction l as [|[j b] r IH]; cbn [a_find]; [discriminate|].
    destruct (eqb k j) eqn:E; intros H.
    - apply eqb_spec in E. inversion H; subst. left. reflexivity.
    - right. apply IH. exact H.
  Qed.

  Lemma a_find_remove k j (l : list (K * A)) :
    a_find eqb k (a_remove eqb j l) = if eqb k j then None else a_find eqb k l.
  Proof.
    induction l as [|[i b] r IH]; cbn [a_find a_remove]; [destruct (eqb k j); reflexivity|].
    destruct (eqb j i) eqn:Eji.
    - apply eqb_spec in Eji. subst i. rewrite IH. destruct (eqb k j); reflexivity.
    - cbn [a_find]. rewrite IH. destruct (eqb k i) eqn:Eki; [|reflexivity].
      apply eqb_spec in Eki. subst i. rewrite eqb_neq; [reflexivity|].
      intros ->. rewrite eqb_refl in Eji. discriminate.
  Qed.

  Lemma a_find_set k j a (l : list (K * A)) :
    a_find eqb k (a_set eqb j a l) = if eqb k j then Some a else a_find eqb k l.
  Proof.
    unfold a_set. cbn [a_find]. destruct (eqb k j) eqn:E; [reflexivity|].
    rewrite a_find_remove, E. reflexivity.
  Qed.

  Lemma a_remove_absent j (l : list (K * A)) : a_find eqb j l = None -> a_remove eqb j l = l.
  Proof.
    induction l as [|[i b] r IH]; cbn [a_find a_remove]; [reflexivity|].
    destruct (eqb j i); [discriminate|]. intros H. rewrite IH by exact H. reflexivity.
  Qed.

  Lemma a_find_upd k j f (l : list (K * A)) :
    a_find eqb k (a_upd eqb j f l) =
    if eqb k j then option_map f (a_find eqb j l) else a_find eqb k l.
  Proof.
    induction l as [|[i b] r IH]; cbn [a_find a_upd]; [destruct (eqb k j); reflexivity|].
    destruct (eqb j i) eqn:Eji.
    - apply eqb_spec in Eji. subst i. cbn [a_find]. destruct (eqb k j); reflexivity.
    - cbn [a_find]. rewrite IH. destruct (eqb k j) eqn:Ekj; [|reflexivity].
      apply eqb_spec in Ekj. subst k. rewrite Eji. reflexivity.
  Qed.

  Lemma In_a_upd k j f (l : list (K * A)) a' :
    In (k, a') (a_upd eqb j f l) -> exists a, In (k, a) l /\ (a' = a \/ (k = j /\ a' = f a)).
  Proof.
    induction l as [|[i b] r IH]; cbn [a_upd]; [intros []|].
    destruct (eqb j i) eqn:Eji.
    - apply eqb_spec in Eji. subst i. intros [H|H].
      + inversion H; subst. exists b. split; [left; reflexivity|right; split; reflexivity].
      + exists a'. split; [right; exact H|left; reflexivity].
    - intros [H|H].
      + inversion H; subst. exists a'. split; [left; reflexivity|left; reflexivity].
      + destruct (IH H) as (a & Ha & Hc). exists a. split; [right; exact Ha|exact Hc].
  Qed.
End AssocFacts.

Lemma zeqb_spec : forall x y : Z, Z.eqb x y = true <-> x = y.
Proof. intros. apply Z.eqb_eq. Qed.

Lemma keqb_spec : forall x y : key, keqb x y = true <-> x = y.
Proof.
  intros [a b] [a' b']. unfold keqb. cbn [fst snd]. rewrite andb_true_iff, !Z.eqb_eq.
  split; [intros [-> ->]; reflexivity|intros H; inversion H; auto].
Qed.

(* specialised forms *)
Lemma c_find_upd k j f st :
  c_find k (upd_caller j f st) = if k =? j then option_map f (c_find j st) else c_find k st.
Proof. unfold c_find, upd_caller, set_callers. cbn [callers]. apply (a_find_upd _ _ _ zeqb_spec). Qed.

Lemma t_find_store i j k t : t_find i (t_store j k t) = if keqb i j then Some k else t_find i t.
Proof. apply (a_find_set _ _ _ keqb_spec). Qed.

Lemma t_find_delete i j t : t_find i (t_delete j t) = if keqb i j then None else t_find i t.
Proof. apply (a_find_remove _ _ _ keqb_spec). Qed.

Lemma keqb_refl i : keqb i i = true.
Proof. apply keqb_spec. reflexivity. Qed.

Lemma keqb_false i j : i <> j -> keqb i j = false.
Proof. apply (eqb_neq _ _ keqb_spec). Qed.

(* ------------------------------------------------------------------ small list facts *)
Lemma take_nth_In {X} : forall n (l : list X) x rest,
  take_nth n l = Some (x, rest) ->
  In x l /\ (forall y, In y rest -> In y l) /\ (forall y, In y l -> y = x \/ In y rest).
Proof.
  induction n as [|n IH]; intros [|a l] x rest H; cbn [take_nth] in H; try discriminate.
  - inversion H; subst. split; [left; reflexivity|]. split; [intros y Hy; right; exact Hy|].
    intros y [->|Hy]; [left; reflexivity|right; exact Hy].
  - destruct (take_nth n l) as [[y r']|] eqn:E; [|discriminate]. inversion H; subst.
    destruct (IH _ _ _ E) as (H1 & H2 & H3).
    split; [right; exact H1|]. split.
    + intros z [->|Hz]; [left; reflexivity|right; apply H2; exact Hz].
    + intros z [->|Hz]; [right; left; reflexivity|]. destruct (H3 z Hz) as [->|Hr]; [left; reflexivity|right; right; exact Hr].
Qed.

Lemma mem_z_remove k j l : mem_z k (remove_z j l) = true -> mem_z k l = true.
Proof.
  induction l as [|x r IH]; cbn [remove_z mem_z]; [auto|].
  destruct (x =? j); cbn [mem_z]; intros H.
  - rewrite (IH H). apply orb_true_r.
  - apply orb_true_iff in H. destruct H as [H|H]; [rewrite H; reflexivity|rewrite (IH H); apply orb_true_r].
Qed.

Lemma has_reply_for_In k fl : has_reply_for k fl = true <-> exists i, In (i, Some k) fl.
Proof.
  unfold has_reply_for. rewrite existsb_exists. split.
  - intros ([i [k'|]] & Hin & H); cbn [snd] in H; [|discriminate].
    apply Z.eqb_eq in H. subst k'. exists i. exact Hin.
  - intros (i & Hin). exists (i, Some k). split; [exact Hin|]. cbn [snd]. apply Z.eqb_refl.
Qed.

Lemma has_reply_for_false_In k fl : has_reply_for k fl = false -> forall i, ~ In (i, Some k) fl.
Proof.
  intros H i Hin. assert (E : has_reply_for k fl = true) by (apply has_reply_for_In; exists i; exact Hin).
  rewrite E in H. discriminate.
Qed.

Section AssocIn.
  Variables (K A : Type) (eqb : K -> K -> bool).
  Hypothesis eqb_spec : forall x y, eqb x y = true <-> x = y.

  Lemma In_a_remove k j (l : list (K * A)) a : In (j, a) (a_remove eqb k l) -> In (j, a) l /\ j <> k.
  Proof.
    induction l as [|[i b] r IH]; cbn [a_remove]; [intros []|].
    destruct (eqb k i) eqn:E.
    - intros H. destruct (IH H). split; [right; assumption|assumption].
    - intros [H|H].
      + inversion H; subst. split; [left; reflexivity|]. intros ->.
        rewrite (eqb_refl _ eqb eqb_spec) in E. discriminate.
      + destruct (IH H). split; [right; assumption|assumption].
  Qed.

  Lemma In_a_set k v j (l : list (K * A)) a :
    In (j, a) (a_set eqb k v l) -> (j = k /\ a = v) \/ (In (j, a) l /\ j <> k).
  Proof.
    unfold a_set. intros [H|H].
    - inversion H; subst. left. split; reflexivity.
    - right. apply In_a_remove. exact H.
  Qed.
End AssocIn.

Definition holder_in (k : Z) (t : table) : bool := existsb (fun e => snd e =? k) t.

Lemma holder_in_In k t : holder_in k t = true -> exists i, In (i, k) t.
Proof.
  unfold holder_in. rewrite existsb_exists. intros ([i h] & Hin & H). cbn [snd] in H.
  apply Z.eqb_eq in H. subst h. exists i. exact Hin.
Qed.

(* rangeAndClean fills exactly the channels of the holders of the entries *)
Lemma fail_all_find : forall t cs k,
  a_find Z.eqb k (fail_all t cs) =
  option_map (fun cr => if holder_in k t then with_box (Some OErr) cr else cr) (a_find Z.eqb k cs).
Proof.
  induction t as [|[i h] r IH]; intros cs k; cbn [fail_all].
  - cbn. destruct (a_find Z.eqb k cs); reflexivity.
  - rewrite IH, (a_find_upd _ _ _ zeqb_spec). unfold holder_in. cbn [existsb snd]. fold (holder_in k r).
    destruct (k =? h) eqn:E.
    + apply Z.eqb_eq in E. subst h. rewrite Z.eqb_refl. cbn [orb].
      destruct (a_find Z.eqb k cs) as [cr|]; [|reflexivity]. cbn [option_map].
      destruct (holder_in k r); reflexivity.
    + rewrite Z.eqb_sym, E. cbn [orb]. reflexivity.
Qed.

Lemma fail_all_In : forall t cs k cr',
  In (k, cr') (fail_all t cs) -> exists cr, In (k, cr) cs /\ ckey cr' = ckey cr /\ cdraw cr' = cdraw cr /\ cstat cr' = cstat cr.
Proof.
  induction t as [|[i h] r IH]; intros cs k cr' H; cbn [fail_all] in H.
  - exists cr'. auto.
  - destruct (IH _ _ _ H) as (cr1 & Hin & Hk & Hd & Hs).
    destruct (In_a_upd _ _ _ zeqb_spec _ _ _ _ _ Hin) as (cr & Hin' & [->|[_ ->]]).
    + exists cr. auto.
    + exists cr. cbn in *. auto.
Qed.

(* ------------------------------------------------------------------ the invariant *)
Record inv (c : cfg) (st : mstate) : Prop := {
  i_pend : forall i k, In (i, k) (pending st) ->
           exists cr, c_find k st = Some cr /\ ckey cr = i /\ cstat cr = SStored /\ cbox cr = None;
  i_infl : forall i k, In (i, Some k) (inflight st) ->
           exists cr, c_find k st = Some cr /\ ckey cr = i /\ cenq cr = true;
  i_answ : forall k, mem_z k (answerable st) = true -> exists cr, c_find k st = Some cr /\ cenq cr = true;
  i_alloc : forall k cr, c_find k st = Some cr -> cstat cr = SAlloc -> cbox cr = None;
  i_ids : forall k cr, In (k, cr) (callers st) ->
          0 < k <= counter st /\ 0 < cdraw cr <= counter st /\ snd (ckey cr) = index_of (cdraw cr) (mask c);
  i_cnt : 0 <= counter st
}.

(* two calls that drew the same index are never both past the harmless stage *)
Definition distinct (st : mstate) : Prop :=
  forall k1 k2 c1 c2, c_find k1 st = Some c1 -> c_find k2 st = Some c2 -> k1 <> k2 ->
    ckey c1 = ckey c2 -> harmless st k1 c1 = true \/ harmless st k2 c2 = true.

Definition own (st : mstate) : Prop :=
  forall k cr k', c_find k st = Some cr ->
    (cbox cr = Some (OResp (Some k')) \/ cstat cr = SDone (OResp (Some k'))) -> k' = k.

Lemma inv_init c : inv c init.
Proof. split; cbn; try discriminate; try contradiction; try lia. Qed.

Lemma distinct_init : distinct init.
Proof. intros k1 k2 c1 c2 H. discriminate. Qed.

Lemma own_init : own init.
Proof. intros k cr k' H. discriminate. Qed.

Lemma c_find_In k st cr : c_find k st = Some cr -> In (k, cr) (callers st).
Proof. apply (a_find_In _ _ _ zeqb_spec). Qed.

Lemma t_find_In i t k : t_find i t = Some k -> In (i, k) t.
Proof. apply (a_find_In _ _ _ keqb_spec). Qed.

Lemma c_find_le c st k cr : inv c st -> c_find k st = Some cr -> 0 < k <= counter st.
Proof. intros I H. apply (i_ids c st I k cr). apply c_find_In. exact H. Qed.

Local Arguments index_of : simpl never.
Local Arguments Z.eqb : simpl never.
Local Arguments Z.add : simpl never.

(* a step that only rewrites caller k's record with f (keeping key and draw; table and replies shrink
   or stay) *)
Lemma inv_upd_generic c st k cr f t' fl' ans' :
  inv c st -> c_find k st = Some cr ->
  (forall x, ckey (f x) = ckey x) -> (forall x, cdraw (f x) = cdraw x) ->
  (forall x, cenq x = true -> cenq (f x) = true) ->
  (cstat (f cr) = SAlloc -> cbox (f cr) = None) ->
  (forall i k', In (i, k') t' ->
     (In (i, k') (pending st) /\ (k' = k -> cstat (f cr) = SStored /\ cbox (f cr) = None)) \/
     (k' = k /\ i = ckey cr /\ cstat (f cr) = SStored /\ cbox (f cr) = None)) ->
  (forall i k', In (i, Some k') fl' -> In (i, Some k') (inflight st)) ->
  (forall k', mem_z k' ans' = true -> mem_z k' (answerable st) = true \/ (k' = k /\ cenq (f cr) = true)) ->
  inv c {| counter := counter st; pending := t'; callers := a_upd Z.eqb k f (callers st);
           answerable := ans'; inflight := fl' |}.
Proof.
  intros I Hk Hkey Hdraw Henq Hal Ht Hfl Hans.
  assert (Hfind : forall k', c_find k' {| counter := counter st; pending := t'; callers := a_upd Z.eqb k f (callers st);
                                      answerable := ans'; inflight := fl' |}
                         = if k' =? k then Some (f cr) else c_find k' st).
  { intros k'. unfold c_find. cbn [callers]. rewrite (a_find_upd _ _ _ zeqb_spec).
    destruct (k' =? k); [|reflexivity]. unfold c_find in Hk. rewrite Hk. reflexivity. }
  split; cbn [pending inflight counter answerable].
  - intros i k' Hin. destruct (Ht i k' Hin) as [(Hin0 & Hsame)|(-> & -> & Hs & Hb)].
    + destruct (i_pend _ _ I i k' Hin0) as (cr' & Hc & Hki & Hs & Hb).
      rewrite Hfind. destruct (k' =? k) eqn:E.
      * apply Z.eqb_eq in E. subst k'. rewrite Hk in Hc. inversion Hc; subst cr'.
        destruct (Hsame eq_refl). exists (f cr). repeat split; auto. rewrite Hkey. exact Hki.
      * exists cr'. auto.
    + rewrite Hfind, Z.eqb_refl. exists (f cr). repeat split; auto.
  - intros i k' Hin. rewrite Hfind. destruct (i_infl _ _ I i k' (Hfl _ _ Hin)) as (cr' & Hc & Hki & He).
    destruct (k' =? k) eqn:E.
    + apply Z.eqb_eq in E. subst k'. rewrite Hk in Hc. inversion Hc; subst cr'.
      exists (f cr). split; [reflexivity|]. rewrite Hkey. auto.
    + exists cr'. auto.
  - intros k' Hm. rewrite Hfind. destruct (Hans _ Hm) as [Hm0|(-> & He)].
    + destruct (i_answ _ _ I _ Hm0) as (cr' & Hc & He). destruct (k' =? k) eqn:E.
      * apply Z.eqb_eq in E. subst k'. rewrite Hk in Hc. inversion Hc; subst cr'. exists (f cr). auto.
      * exists cr'. auto.
    + rewrite Z.eqb_refl. exists (f cr). auto.
  - intros k' cr'. rewrite Hfind. destruct (k' =? k).
    + intros Hc. inversion Hc; subst. exact Hal.
    + apply (i_alloc _ _ I).
  - cbn [callers]. intros k' cr' Hin.
    destruct (In_a_upd _ _ _ zeqb_spec _ _ _ _ _ Hin) as (cr0 & Hin0 & [->|[-> ->]]).
    + apply (i_ids _ _ I _ _ Hin0).
    + rewrite Hkey, Hdraw. apply (i_ids _ _ I _ _ Hin0).
  - apply (i_cnt _ _ I).
Qed.

(* the states built by [step] for caller updates are convertible to the record above *)
Lemma upd_caller_eta k f st :
  upd_caller k f st = {| counter := counter st; pending := pending st;
                         callers := a_upd Z.eqb k f (callers st);
                         answerable := answerable st; inflight := inflight st |}.
Proof. reflexivity. Qed.

Lemma mem_z_cons k x l : mem_z k (x :: l) = (x =? k) || mem_z k l.
Proof. reflexivity. Qed.

Lemma inv_step_preserved c st l st' : inv c st -> step c st l = Some st' -> inv c st'.
Proof.
  intros I H. destruct l as [dest|k|k|k|k|i|n|k|k|].
  - (* LAlloc *)
    cbn [step] in H. injection H as <-.
    assert (Hnew : forall k cr, c_find k st = Some cr -> (k =? counter st + 1) = false).
    { intros k cr Hk. pose proof (c_find_le _ _ _ _ I Hk). apply Z.eqb_neq. lia. }
    split; cbn [pending inflight callers counter answerable].
    + intros i k Hf. destruct (i_pend _ _ I i k Hf) as (cr & Hc & Hr).
      exists cr. split; [|exact Hr]. unfold c_find. cbn [callers a_find].
      rewrite (Hnew _ _ Hc). exact Hc.
    + intros i k Hin. destruct (i_infl _ _ I i k Hin) as (cr & Hc & Hr).
      exists cr. split; [|exact Hr]. unfold c_find. cbn [callers a_find].
      rewrite (Hnew _ _ Hc). exact Hc.
    + intros k Hm. destruct (i_answ _ _ I k Hm) as (cr & Hc & Hr).
      exists cr. split; [|exact Hr]. unfold c_find. cbn [callers a_find].
      rewrite (Hnew _ _ Hc). exact Hc.
    + intros k cr. unfold c_find. cbn [callers a_find].
      destruct (k =? counter st + 1) eqn:E.
      * intros Hc _. inversion Hc; subst. reflexivity.
      * apply (i_alloc _ _ I).
    + intros k cr [Hh|Hin].
      * inversion Hh; subst. cbn [ckey cdraw snd]. pose proof (i_cnt _ _ I). repeat split; try lia.
      * destruct (i_ids _ _ I k cr Hin) as (H1 & H2 & H3). repeat split; try lia; try exact H3.
    + pose proof (i_cnt _ _ I). lia.
  - (* LStore *)
    cbn [step] in H. destruct (c_find k st) as [cr|] eqn:E; [|discriminate].
    destruct (cstat cr) eqn:Es; try discriminate.
    destruct (skip_pending c && _) eqn:Esk.
    + (* refused: redraw *)
      destruct (cenq cr) eqn:Eq; [discriminate|]. injection H as <-.
      assert (Hfind : forall k', c_find k' {| counter := counter st + 1; pending := pending st;
                                          callers := a_upd Z.eqb k (with_draw (counter st + 1) (mask c)) (callers st);
                                          answerable := answerable st; inflight := inflight st |}
                             = if k' =? k then Some (with_draw (counter st + 1) (mask c) cr) else c_find k' st).
      { intros k'. unfold c_find. cbn [callers]. rewrite (a_find_upd _ _ _ zeqb_spec).
        destruct (k' =? k); [|reflexivity]. unfold c_find in E. rewrite E. reflexivity. }
      split; cbn [pending inflight counter answerable].
      * intros i k' Hin. destruct (i_pend _ _ I i k' Hin) as (cr' & Hc & Hr). rewrite Hfind.
        destruct (k' =? k) eqn:Ek; [|exists cr'; auto].
        apply Z.eqb_eq in Ek. subst k'. rewrite E in Hc. inversion Hc; subst cr'. destruct Hr as (_ & Hs & _). congruence.
      * intros i k' Hin. destruct (i_infl _ _ I i k' Hin) as (cr' & Hc & Hr). rewrite Hfind.
        destruct (k' =? k) eqn:Ek; [|exists cr'; auto].
        apply Z.eqb_eq in Ek. subst k'. rewrite E in Hc. inversion Hc; subst cr'. destruct Hr as (_ & He). congruence.
      * intros k' Hm. destruct (i_answ _ _ I k' Hm) as (cr' & Hc & He). rewrite Hfind.
        destruct (k' =? k) eqn:Ek; [|exists cr'; auto].
        apply Z.eqb_eq in Ek. subst k'. rewrite E in Hc. inversion Hc; subst cr'. congruence.
      * intros k' cr'. rewrite Hfind. destruct (k' =? k).
        -- intros Hc _. inversion Hc; subst. cbn. apply (i_alloc _ _ I k cr E Es).
        -- apply (i_alloc _ _ I).
      * cbn [callers]. intros k' cr' Hin.
        destruct (In_a_upd _ _ _ zeqb_spec _ _ _ _ _ Hin) as (cr0 & Hin0 & [->|[-> ->]]);
          destruct (i_ids _ _ I _ _ Hin0) as (H1 & H2 & H3); pose proof (i_cnt _ _ I).
        -- repeat split; try lia; try exact H3.
        -- cbn [with_draw ckey cdraw snd]. repeat split; try lia.
      * pose proof (i_cnt _ _ I). lia.
    + injection H as <-.
      apply (inv_upd_generic c st k cr (with_stat SStored) _ _ _ I E); cbn; auto; try discriminate.
      intros i k' Hin. apply (In_a_set _ _ _ keqb_spec) in Hin. destruct Hin as [(-> & ->)|(Hin & Hne)].
      * right. repeat split; auto. apply (i_alloc _ _ I k cr E Es).
      * left. split; [exact Hin|]. intros ->. split; [reflexivity|]. apply (i_alloc _ _ I k cr E Es).
  - (* LEnq *)
    cbn [step] in H. destruct (c_find k st) as [cr|] eqn:E; [|discriminate].
    destruct (_ && _) eqn:Er; [|discriminate]. injection H as <-.
    apply (inv_upd_generic c st k cr with_enq _ _ _ I E); cbn; auto.
    + apply (i_alloc _ _ I k cr E).
    + intros i k' Hin. left. split; [exact Hin|]. intros ->.
      destruct (i_pend _ _ I _ _ Hin) as (cr' & Hc & _ & Hs & Hb). rewrite E in Hc. inversion Hc; subst. auto.
    + intros k' Hm. cbn [mem_z] in Hm. apply orb_true_iff in Hm. destruct Hm as [Hm|Hm]; [|left; exact Hm].
      apply Z.eqb_eq in Hm. subst k'. right. auto.
  - (* LAnswer *)
    cbn [step] in H. destruct (mem_z k (answerable st)) eqn:Em; [|discriminate].
    destruct (c_find k st) as [cr|] eqn:E; [|discriminate]. injection H as <-.
    split; cbn [pending inflight callers counter answerable]; try apply I.
    intros i k' Hin. apply in_app_or in Hin. destruct Hin as [Hin|[Hin|[]]].
    + apply (i_infl _ _ I _ _ Hin).
    + inversion Hin; subst. destruct (i_answ _ _ I _ Em) as (cr' & Hc & He). rewrite E in Hc. inversion Hc; subst.
      exists cr'. auto.
  - (* LForget *)
    cbn [step] in H. injection H as <-. split; cbn [pending inflight callers counter answerable]; try apply I.
    intros k' Hm. apply (i_answ _ _ I). apply (mem_z_remove _ _ _ Hm).
  - (* LStray *)
    cbn [step] in H. injection H as <-. split; cbn [pending inflight callers counter answerable]; try apply I.
    intros i' k' Hin. apply in_app_or in Hin. destruct Hin as [Hin|[Hin|[]]]; [|discriminate].
    apply (i_infl _ _ I _ _ Hin).
  - (* LDeliver *)
    cbn [step] in H. destruct (take_nth n (inflight st)) as [[[i prov] rest]|] eqn:Et; [|discriminate].
    destruct (take_nth_In _ _ _ _ Et) as (Hx & Hsub & _).
    unfold t_load_delete in H.
    destruct (a_find keqb i (pending st)) as [h|] eqn:Eh; injection H as <-.
    + destruct (i_pend _ _ I i h (t_find_In _ _ _ Eh)) as (crh & Hch & Hkh & Hsh & Hbh).
      rewrite upd_caller_eta. cbn [counter pending callers answerable inflight].
      apply (inv_upd_generic c st h crh (with_box (Some (OResp prov))) _ _ _ I Hch); cbn; auto.
      * congruence.
      * intros i' k' Hin. apply (In_a_remove _ _ _ keqb_spec) in Hin. destruct Hin as [Hin Hne].
        left. split; [exact Hin|]. intros ->.
        destruct (i_pend _ _ I _ _ Hin) as (cr' & Hc & Hk' & _). rewrite Hch in Hc. inversion Hc; subst. contradiction.
    + split; cbn [pending inflight callers counter answerable].
      * intros i' k' Hin. apply (In_a_remove _ _ _ keqb_spec) in Hin. destruct Hin as [Hin Hne].
        apply (i_pend _ _ I _ _ Hin).
      * intros i' k' Hin. apply (i_infl _ _ I i' k' (Hsub _ Hin)).
      * apply (i_answ _ _ I).
      * apply (i_alloc _ _ I).
      * apply (i_ids _ _ I).
      * apply (i_cnt _ _ I).
  - (* LTake *)
    cbn [step] in H. destruct (c_find k st) as [cr|] eqn:E; [|discriminate].
    destruct (cstat cr) eqn:Es; try discriminate. destruct (cbox cr) as [o|] eqn:Eb; [|discriminate].
    injection H as <-.
    apply (inv_upd_generic c st k cr (fun x => with_stat (SDone o) (with_box None x)) _ _ _ I E); cbn; auto; try discriminate.
    intros i k' Hin. left. split; [exact Hin|]. intros ->.
    destruct (i_pend _ _ I _ _ Hin) as (cr' & Hc & _ & _ & Hb). rewrite E in Hc. inversion Hc; subst. congruence.
  - (* LCancel *)
    cbn [step] in H. destruct (c_find k st) as [cr|] eqn:E; [|discriminate].
    destruct (cstat cr) eqn:Es; try discriminate. injection H as <-.
    apply (inv_upd_generic c st k cr (with_stat (SDone OCancel)) _ _ _ I E); cbn; auto; try discriminate.
    intros i k' Hin. apply (In_a_remove _ _ _ keqb_spec) in Hin. destruct Hin as [Hin Hne].
    left. split; [exact Hin|]. intros ->.
    destruct (i_pend _ _ I _ _ Hin) as (cr' & Hc & Hk' & _). rewrite E in Hc. inversion Hc; subst. contradiction.
  - (* LClose *)
    cbn [step] in H. injection H as <-.
    split; cbn [pending inflight callers counter answerable set_pending set_callers].
    + intros i k [].
    + intros i k Hin. destruct (i_infl _ _ I i k Hin) as (cr & Hc & Hk & He).
      unfold c_find in *. cbn [callers set_pending set_callers]. rewrite fail_all_find, Hc. cbn [option_map].
      eexists. split; [reflexivity|]. destruct (holder_in k (pending st)); auto.
    + intros k Hm. destruct (i_answ _ _ I k Hm) as (cr & Hc & He).
      unfold c_find in *. cbn [callers set_pending set_callers]. rewrite fail_all_find, Hc. cbn [option_map].
      eexists. split; [reflexivity|]. destruct (holder_in k (pending st)); auto.
    + intros k cr'. unfold c_find. cbn [callers set_pending set_callers]. rewrite fail_all_find.
      destruct (a_find Z.eqb k (callers st)) as [cr|] eqn:Ec; [|discriminate].
      cbn [option_map]. intros Hc Hs. inversion Hc; subst cr'. clear Hc.
      destruct (holder_in k (pending st)) eqn:Eh.
      * destruct (holder_in_In _ _ Eh) as (i & Hin).
        destruct (i_pend _ _ I _ _ Hin) as (cr' & Hc & _ & Hs' & _).
        unfold c_find in Hc. rewrite Ec in Hc. inversion Hc; subst cr'. cbn in Hs. congruence.
      * apply (i_alloc _ _ I k cr Ec Hs).
    + intros k cr' Hin. destruct (fail_all_In _ _ _ _ Hin) as (cr & Hin0 & Hk & Hd & _).
      rewrite Hk, Hd. apply (i_ids _ _ I _ _ Hin0).
    + apply (i_cnt _ _ I).
Qed.

(* ------------------------------------------------------------------ deadness only grows *)
Definition dead_c (ans : list Z) (fl : list (key * option Z)) (k : Z) (s : status) : bool :=
  match s with
  | SDone _ => negb (mem_z k ans) && negb (has_reply_for k fl)
  | _ => false
  end.

Lemma dead_eq st k cr : dead st k cr = dead_c (answerable st) (inflight st) k (cstat cr).
Proof. reflexivity. Qed.

Lemma dead_c_mono ans fl ans' fl' k s s' :
  (s = s' \/ (forall o, s <> SDone o)) ->
  (mem_z k ans' = true -> mem_z k ans = true) ->
  (has_reply_for k fl' = true -> has_reply_for k fl = true) ->
  dead_c ans' fl' k s' = false -> dead_c ans fl k s = false.
Proof.
  intros Hs Ha Hf H. unfold dead_c in *. destruct s as [| |o]; try reflexivity.
  destruct Hs as [<-|Hs]; [|exfalso; apply (Hs o); reflexivity].
  apply andb_false_iff in H. apply andb_false_iff.
  destruct H as [H|H]; apply negb_false_iff in H; [left|right]; apply negb_false_iff; auto.
Qed.

Lemma has_reply_for_app k fl x :
  has_reply_for k (fl ++ [x]) = has_reply_for k fl || match snd x with Some k' => k' =? k | None => false end.
Proof. unfold has_reply_for. rewrite existsb_app. cbn [existsb]. rewrite orb_false_r. reflexivity. Qed.

Lemma has_reply_for_sub k fl fl' :
  (forall y, In y fl' -> In y fl) -> has_reply_for k fl' = true -> has_reply_for k fl = true.
Proof.
  intros Hsub H. apply has_reply_for_In in H. destruct H as (i & Hin).
  apply has_reply_for_In. exists i. apply Hsub. exact Hin.
Qed.

Definition harmless_c (ans : list Z) (fl : list (key * option Z)) (k : Z) (s : status) (e : bool) : bool :=
  match s with SAlloc => negb e | _ => false end || dead_c ans fl k s.

Lemma harmless_eq st k cr : harmless st k cr = harmless_c (answerable st) (inflight st) k (cstat cr) (cenq cr).
Proof. reflexivity. Qed.

Lemma harmless_c_back ans fl ans' fl' k s e :
  (mem_z k ans' = true -> mem_z k ans = true) ->
  (has_reply_for k fl' = true -> has_reply_for k fl = true) ->
  harmless_c ans' fl' k s e = false -> harmless_c ans fl k s e = false.
Proof.
  intros Ha Hf H. unfold harmless_c in *. apply orb_false_iff in H. destruct H as [H1 H2].
  rewrite H1. cbn [orb]. apply (dead_c_mono _ _ _ _ _ _ _ (or_introl eq_refl) Ha Hf H2).
Qed.

Lemma dead_harmless st k cr : dead st k cr = true -> harmless st k cr = true.
Proof. intros H. unfold harmless. rewrite H. apply orb_true_r. Qed.

(* every caller past the harmless stage after a step was so before it, under the same key -- or it is the
   caller that this very step registers (LStore) or hands to the provider before registration (LEnq) *)
Lemma nh_back c st l st' k cr' :
  step c st l = Some st' -> c_find k st' = Some cr' -> harmless st' k cr' = false ->
  exists cr, c_find k st = Some cr /\ ckey cr = ckey cr' /\
    (harmless st k cr = false \/
     (cstat cr = SAlloc /\ cenq cr = false /\ ((l = LStore k /\ registers c st cr = true) \/ l = LEnq k))).
Proof.
  intros H Hc Hd. rewrite harmless_eq in Hd.
  destruct l as [dest|k0|k0|k0|k0|i|n|k0|k0|].
  - cbn [step] in H. injection H as <-. unfold c_find in Hc. cbn [callers a_find] in Hc.
    cbn [answerable inflight] in Hd.
    destruct (k =? counter st + 1) eqn:E.
    + inversion Hc; subst cr'. cbn in Hd. discriminate.
    + exists cr'. auto.
  - cbn [step] in H. destruct (c_find k0 st) as [cr|] eqn:E; [|discriminate].
    destruct (cstat cr) eqn:Es; try discriminate.
    destruct (skip_pending c && _) eqn:Esk.
    + destruct (cenq cr) eqn:Eq; [discriminate|]. injection H as <-.
      unfold c_find in Hc. cbn [callers] in Hc. rewrite (a_find_upd _ _ _ zeqb_spec) in Hc.
      cbn [answerable inflight] in Hd.
      destruct (k =? k0) eqn:Ek.
      * apply Z.eqb_eq in Ek. subst k0. unfold c_find in E. rewrite E in Hc. cbn in Hc. inversion Hc; subst cr'.
        cbn in Hd. rewrite Es, Eq in Hd. discriminate.
      * exists cr'. auto.
    + injection H as <-.
      change (c_find k (upd_caller k0 (with_stat SStored) st) = Some cr') in Hc.
      rewrite c_find_upd in Hc. cbn [answerable inflight set_pending upd_caller set_callers] in Hd.
      destruct (k =? k0) eqn:Ek.
      * apply Z.eqb_eq in Ek. subst k0. rewrite E in Hc. inversion Hc; subst cr'.
        exists cr. repeat split; auto. destruct (cenq cr) eqn:Eq.
        -- left. rewrite harmless_eq. unfold harmless_c. rewrite Es, Eq. reflexivity.
        -- right. repeat split; auto. left. split; [reflexivity|]. unfold registers. rewrite Esk. reflexivity.
      * exists cr'. auto.
  - cbn [step] in H. destruct (c_find k0 st) as [cr|] eqn:E; [|discriminate].
    destruct (_ && _) eqn:Er; [|discriminate]. injection H as <-.
    change (c_find k (upd_caller k0 with_enq st) = Some cr') in Hc.
    rewrite c_find_upd in Hc. cbn [answerable inflight upd_caller set_callers] in Hd.
    destruct (k =? k0) eqn:Ek.
    + apply Z.eqb_eq in Ek. subst k0. rewrite E in Hc. inversion Hc; subst cr'.
      exists cr. repeat split; auto.
      apply andb_true_iff in Er. destruct Er as [Er Eq]. apply negb_true_iff in Eq.
      destruct (cstat cr) eqn:Es; [|left; rewrite harmless_eq; unfold harmless_c; rewrite Es; reflexivity|discriminate].
      right. auto.
    + exists cr'. repeat split; auto. left. rewrite harmless_eq.
      refine (harmless_c_back _ _ _ _ _ _ _ _ _ Hd); [|auto].
      cbn [mem_z]. rewrite Z.eqb_sym, Ek. auto.
  - cbn [step] in H. destruct (mem_z k0 (answerable st)) eqn:Em; [|discriminate].
    destruct (c_find k0 st) as [cr|] eqn:E; [|discriminate]. injection H as <-.
    change (c_find k st = Some cr') in Hc. cbn [answerable inflight] in Hd.
    exists cr'. repeat split; auto. left. rewrite harmless_eq.
    destruct (k =? k0) eqn:Ek.
    + apply Z.eqb_eq in Ek. subst k0. unfold harmless_c in *. apply orb_false_iff in Hd. destruct Hd as [H1 _].
      rewrite H1. cbn [orb]. unfold dead_c. destruct (cstat cr'); try reflexivity. rewrite Em. reflexivity.
    + refine (harmless_c_back _ _ _ _ _ _ _ _ _ Hd); [auto|].
      rewrite has_reply_for_app. cbn [snd]. rewrite Z.eqb_sym, Ek, orb_false_r. auto.
  - cbn [step] in H. injection H as <-. change (c_find k st = Some cr') in Hc.
    cbn [answerable inflight] in Hd. exists cr'. repeat split; auto. left. rewrite harmless_eq.
    refine (harmless_c_back _ _ _ _ _ _ _ _ _ Hd); [|auto]. apply mem_z_remove.
  - cbn [step] in H. injection H as <-. change (c_find k st = Some cr') in Hc.
    cbn [answerable inflight] in Hd. exists cr'. repeat split; auto. left. rewrite harmless_eq.
    refine (harmless_c_back _ _ _ _ _ _ _ _ _ Hd); [auto|].
    rewrite has_reply_for_app. cbn [snd]. rewrite orb_false_r. auto.
  - cbn [step] in H. destruct (take_nth n (inflight st)) as [[[i prov] rest]|] eqn:Et; [|discriminate].
    destruct (take_nth_In _ _ _ _ Et) as (_ & Hsub & _).
    unfold t_load_delete in H.
    destruct (a_find keqb i (pending st)) as [h|] eqn:Eh; injection H as <-.
    + rewrite upd_caller_eta in Hc, Hd. cbn [answerable inflight] in Hd.
      unfold c_find in Hc. cbn [callers] in Hc. rewrite (a_find_upd _ _ _ zeqb_spec) in Hc.
      destruct (k =? h) eqn:Ek.
      * destruct (a_find Z.eqb h (callers st)) as [crh|] eqn:Ech; [|discriminate].
        apply Z.eqb_eq in Ek. subst h. cbn in Hc. inversion Hc; subst cr'. cbn [cstat cenq with_box ckey] in *.
        exists crh. repeat split; auto. left. rewrite harmless_eq.
        refine (harmless_c_back _ _ _ _ _ _ _ _ _ Hd); [auto|]. apply has_reply_for_sub. exact Hsub.
      * exists cr'. repeat split; auto. left. rewrite harmless_eq.
        refine (harmless_c_back _ _ _ _ _ _ _ _ _ Hd); [auto|]. apply has_reply_for_sub. exact Hsub.
    + change (c_find k st = Some cr') in Hc. cbn [answerable inflight] in Hd.
      exists cr'. repeat split; auto. left. rewrite harmless_eq.
      refine (harmless_c_back _ _ _ _ _ _ _ _ _ Hd); [auto|]. apply has_reply_for_sub. exact Hsub.
  - cbn [step] in H. destruct (c_find k0 st) as [cr|] eqn:E; [|discriminate].
    destruct (cstat cr) eqn:Es; try discriminate. destruct (cbox cr) as [o|] eqn:Eb; [|discriminate].
    injection H as <-.
    change (c_find k (upd_caller k0 (fun x => with_stat (SDone o) (with_box None x)) st) = Some cr') in Hc.
    rewrite c_find_upd in Hc. cbn [answerable inflight upd_caller set_callers] in Hd.
    destruct (k =? k0) eqn:Ek.
    + apply Z.eqb_eq in Ek. subst k0. rewrite E in Hc. inversion Hc; subst cr'.
      exists cr. repeat split; auto. left. rewrite harmless_eq. unfold harmless_c. rewrite Es. reflexivity.
    + exists cr'. auto.
  - cbn [step] in H. destruct (c_find k0 st) as [cr|] eqn:E; [|discriminate].
    destruct (cstat cr) eqn:Es; try discriminate. injection H as <-.
    change (c_find k (upd_caller k0 (with_stat (SDone OCancel)) st) = Some cr') in Hc.
    rewrite c_find_upd in Hc. cbn [answerable inflight set_pending upd_caller set_callers] in Hd.
    destruct (k =? k0) eqn:Ek.
    + apply Z.eqb_eq in Ek. subst k0. rewrite E in Hc. inversion Hc; subst cr'.
      exists cr. repeat split; auto. left. rewrite harmless_eq. unfold harmless_c. rewrite Es. reflexivity.
    + exists cr'. auto.
  - cbn [step] in H. injection H as <-.
    unfold c_find in Hc. cbn [callers set_pending set_callers] in Hc. rewrite fail_all_find in Hc.
    cbn [answerable inflight set_pending set_callers] in Hd.
    destruct (a_find Z.eqb k (callers st)) as [cr|] eqn:Ec; [|discriminate]. cbn in Hc.
    exists cr. split; [exact Ec|].
    inversion Hc; subst cr'. destruct (holder_in k (pending st)); cbn [ckey cstat cenq with_box] in *; auto.
Qed.

Lemma others_harmless_spec st k cr k2 c2 :
  others_harmless st k cr = true -> c_find k2 st = Some c2 -> k2 <> k -> ckey c2 = ckey cr ->
  harmless st k2 c2 = true.
Proof.
  unfold others_harmless. rewrite forallb_forall. intros G H2 Hne Hk.
  specialize (G (k2, c2) (c_find_In _ _ _ H2)). cbn [fst snd] in G.
  rewrite Hk, keqb_refl in G. cbn [negb orb] in G.
  destruct (k2 =? k) eqn:E; [apply Z.eqb_eq in E; contradiction|]. exact G.
Qed.

Lemma distinct_preserved c st l st' :
  distinct st -> no_reuse_step c st l = true -> step c st l = Some st' -> distinct st'.
Proof.
  intros D G H k1 k2 c1 c2 H1 H2 Hne Hkey.
  destruct (harmless st' k1 c1) eqn:E1; [left; reflexivity|].
  destruct (harmless st' k2 c2) eqn:E2; [right; reflexivity|]. exfalso.
  destruct (nh_back _ _ _ _ _ _ H H1 E1) as (o1 & Ho1 & Hk1 & R1).
  destruct (nh_back _ _ _ _ _ _ H H2 E2) as (o2 & Ho2 & Hk2 & R2).
  assert (Hkk : ckey o1 = ckey o2) by congruence.
  destruct R1 as [R1|(S1 & Q1 & L1)]; destruct R2 as [R2|(S2 & Q2 & L2)].
  - destruct (D k1 k2 o1 o2 Ho1 Ho2 Hne Hkk) as [X|X]; congruence.
  - (* k2 is registered / handed over by this step; k1 was already past the harmless stage *)
    assert (X : harmless st k1 o1 = true); [|congruence].
    destruct L2 as [[-> Hr]| ->]; cbn [no_reuse_step] in G; rewrite Ho2 in G.
    + rewrite Hr in G. apply (others_harmless_spec _ _ _ _ _ G Ho1 Hne Hkk).
    + rewrite S2 in G. apply (others_harmless_spec _ _ _ _ _ G Ho1 Hne Hkk).
  - assert (X : harmless st k2 o2 = true); [|congruence].
    destruct L1 as [[-> Hr]| ->]; cbn [no_reuse_step] in G; rewrite Ho1 in G.
    + rewrite Hr in G. apply (others_harmless_spec _ _ _ _ _ G Ho2 (not_eq_sym Hne) (eq_sym Hkk)).
    + rewrite S1 in G. apply (others_harmless_spec _ _ _ _ _ G Ho2 (not_eq_sym Hne) (eq_sym Hkk)).
  - destruct L1 as [[-> _]| ->]; destruct L2 as [[L2 _]|L2]; inversion L2; contradiction.
Qed.

Lemma own_preserved c st l st' :
  inv c st -> distinct st -> own st -> step c st l = Some st' -> own st'.
Proof.
  intros I D O H k cr' k' Hc Hr.
  destruct l as [dest|k0|k0|k0|k0|i|n|k0|k0|].
  - cbn [step] in H. injection H as <-. unfold c_find in Hc. cbn [callers a_find] in Hc.
    destruct (k =? counter st + 1).
    + inversion Hc; subst cr'. cbn in Hr. destruct Hr; discriminate.
    + apply (O k cr' k' Hc Hr).
  - cbn [step] in H. destruct (c_find k0 st) as [cr|] eqn:E; [|discriminate].
    destruct (cstat cr) eqn:Es; try discriminate.
    destruct (skip_pending c && _) eqn:Esk.
    + destruct (cenq cr) eqn:Eq; [discriminate|]. injection H as <-.
      unfold c_find in Hc. cbn [callers] in Hc. rewrite (a_find_upd _ _ _ zeqb_spec) in Hc.
      destruct (k =? k0) eqn:Ek; [|apply (O k cr' k' Hc Hr)].
      apply Z.eqb_eq in Ek. subst k0. unfold c_find in E. rewrite E in Hc. cbn in Hc. inversion Hc; subst cr'. cbn in Hr.
      rewrite Es in Hr. destruct Hr as [Hr|Hr]; [|discriminate]. apply (O k cr k'); [exact E|left; exact Hr].
    + injection H as <-.
      change (c_find k (upd_caller k0 (with_stat SStored) st) = Some cr') in Hc. rewrite c_find_upd in Hc.
      destruct (k =? k0) eqn:Ek; [|apply (O k cr' k' Hc Hr)].
      apply Z.eqb_eq in Ek. subst k0. rewrite E in Hc. inversion Hc; subst cr'. cbn in Hr.
      destruct Hr as [Hr|Hr]; [|discriminate]. apply (O k cr k' E). left. exact Hr.
  - cbn [step] in H. destruct (c_find k0 st) as [cr|] eqn:E; [|discriminate].
    destruct (_ && _) eqn:Er; [|discriminate]. injection H as <-.
    change (c_find k (upd_caller k0 with_enq st) = Some cr') in Hc. rewrite c_find_upd in Hc.
    destruct (k =? k0) eqn:Ek; [|apply (O k cr' k' Hc Hr)].
    apply Z.eqb_eq in Ek. subst k0. rewrite E in Hc. inversion Hc; subst cr'. cbn in Hr.
    apply (O k cr k' E Hr).
  - cbn [step] in H. destruct (mem_z k0 (answerable st)); [|discriminate].
    destruct (c_find k0 st); [|discriminate]. injection H as <-. apply (O k cr' k' Hc Hr).
  - cbn [step] in H. injection H as <-. apply (O k cr' k' Hc Hr).
  - cbn [step] in H. injection H as <-. apply (O k cr' k' Hc Hr).
  - cbn [step] in H. destruct (take_nth n (inflight st)) as [[[i prov] rest]|] eqn:Et; [|discriminate].
    destruct (take_nth_In _ _ _ _ Et) as (Hx & _ & _).
    unfold t_load_delete in H.
    destruct (a_find keqb i (pending st)) as [h|] eqn:Eh; injection H as <-; [|apply (O k cr' k' Hc Hr)].
    rewrite upd_caller_eta in Hc. unfold c_find in Hc. cbn [callers] in Hc.
    rewrite (a_find_upd _ _ _ zeqb_spec) in Hc.
    destruct (k =? h) eqn:Ek; [|apply (O k cr' k' Hc Hr)].
    apply Z.eqb_eq in Ek. subst h.
    destruct (i_pend _ _ I i k (t_find_In _ _ _ Eh)) as (crk & Hck & Hkk & Hsk & Hbk).
    unfold c_find in Hck. rewrite Hck in Hc. cbn in Hc. inversion Hc; subst cr'. cbn in Hr.
    destruct Hr as [Hr|Hr]; [|rewrite Hsk in Hr; discriminate].
    inversion Hr; subst prov.
    (* the reply was produced for request k', which drew the same index and is still alive *)
    destruct (i_infl _ _ I i k' Hx) as (cr2 & Hc2 & Hk2 & He2).
    destruct (Z.eq_dec k' k) as [|Hne]; [assumption|]. exfalso.
    destruct (D k' k cr2 crk Hc2 Hck Hne) as [X|X]; [congruence| |].
    + rewrite harmless_eq in X. unfold harmless_c, dead_c in X. rewrite He2 in X.
      destruct (cstat cr2); try discriminate. cbn in X.
      apply andb_true_iff in X. destruct X as [_ X]. apply negb_true_iff in X.
      apply (has_reply_for_false_In _ _ X i Hx).
    + rewrite harmless_eq in X. unfold harmless_c, dead_c in X. rewrite Hsk in X. discriminate.
  - cbn [step] in H. destruct (c_find k0 st) as [cr|] eqn:E; [|discriminate].
    destruct (cstat cr) eqn:Es; try discriminate. destruct (cbox cr) as [o|] eqn:Eb; [|discriminate].
    injection H as <-.
    change (c_find k (upd_caller k0 (fun x => with_stat (SDone o) (with_box None x)) st) = Some cr') in Hc.
    rewrite c_find_upd in Hc.
    destruct (k =? k0) eqn:Ek; [|apply (O k cr' k' Hc Hr)].
    apply Z.eqb_eq in Ek. subst k0. rewrite E in Hc. inversion Hc; subst cr'. cbn in Hr.
    destruct Hr as [Hr|Hr]; [discriminate|]. inversion Hr; subst o. apply (O k cr k' E). left. exact Eb.
  - cbn [step] in H. destruct (c_find k0 st) as [cr|] eqn:E; [|discriminate].
    destruct (cstat cr) eqn:Es; try discriminate. injection H as <-.
    change (c_find k (upd_caller k0 (with_stat (SDone OCancel)) st) = Some cr') in Hc.
    rewrite c_find_upd in Hc.
    destruct (k =? k0) eqn:Ek; [|apply (O k cr' k' Hc Hr)].
    apply Z.eqb_eq in Ek. subst k0. rewrite E in Hc. inversion Hc; subst cr'. cbn in Hr.
    destruct Hr as [Hr|Hr]; [|discriminate]. apply (O k cr k' E). left. exact Hr.
  - cbn [step] in H. injection H as <-.
    unfold c_find in Hc. cbn [callers set_pending set_callers] in Hc. rewrite fail_all_find in Hc.
    destruct (a_find Z.eqb k (callers st)) as [cr|] eqn:Ec; [|discriminate]. cbn in Hc.
    inversion Hc; subst cr'. destruct (holder_in k (pending st)); cbn in Hr.
    + destruct Hr as [Hr|Hr]; [discriminate|]. apply (O k cr k' Ec). right. exact Hr.
    + apply (O k cr k' Ec Hr).
Qed.

(* ------------------------------------------------------------------ runs *)
Lemma run_inv c : forall tr st st', inv c st -> run c st tr = Some st' -> inv c st'.
Proof.
  induction tr as [|l tr IH]; intros st st' I H; cbn [run] in H.
  - inversion H; subst. exact I.
  - destruct (step c st l) as [st1|] eqn:E; [|discriminate].
    apply (IH st1 st' (inv_step_preserved _ _ _ _ I E) H).
Qed.

Lemma own_response_from c : forall tr st st',
  inv c st -> distinct st -> own st ->
  run c st tr = Some st' -> no_reuse c st tr = true -> own st'.
Proof.
  induction tr as [|l tr IH]; intros st st' I D O H G; cbn [run] in H.
  - inversion H; subst. exact O.
  - destruct (step c st l) as [st1|] eqn:E; [|discriminate].
    unfold no_reuse in G. cbn [guarded] in G. rewrite E in G. apply andb_true_iff in G. destruct G as [G1 G2].
    apply (IH st1 st'); auto.
    + apply (inv_step_preserved _ _ _ _ I E).
    + apply (distinct_preserved _ _ _ _ D G1 E).
    + apply (own_preserved _ _ _ _ I D O E).
Qed.

(* C09_own_response *)
Theorem own_response : forall c tr st,
  run c init tr = Some st -> no_reuse c init tr = true ->
  forall k cr k', c_find k st = Some cr ->
    (cbox cr = Some (OResp (Some k')) \/ cstat cr = SDone (OResp (Some k'))) -> k' = k.
Proof.
  intros c tr st H G. apply (own_response_from c tr init st (inv_init c) distinct_init own_init H G).
Qed.

(* ------------------------------------------------------------------ the bound *)
Lemma index_differs n a b :
  0 <= n -> 0 < b - a <= 2 ^ n - 1 -> index_of a (2 ^ n - 1) <> index_of b (2 ^ n - 1).
Proof.
  intros Hn Hd. unfold index_of.
  replace (2 ^ n - 1) with (Z.ones n) by (rewrite Z.ones_equiv; lia).
  rewrite !Z.land_ones by exact Hn. intros E.
  assert (P : 0 < 2 ^ n) by (apply Z.pow_pos_nonneg; lia).
  assert (M : (b - a) mod 2 ^ n = 0).
  { rewrite Zminus_mod, E, Z.sub_diag. apply Z.mod_0_l. lia. }
  rewrite Z.mod_small in M by lia. lia.
Qed.

Lemma others_near_harmless c n st k cr :
  mask c = 2 ^ n - 1 -> 0 <= n -> inv c st -> c_find k st = Some cr ->
  others_near c st k cr = true -> others_harmless st k cr = true.
Proof.
  intros Hm Hn I Hk W. unfold others_near, others_harmless in *. rewrite forallb_forall in *.
  intros [k2 c2] Hin. specialize (W _ Hin). cbn [fst snd] in *.
  destruct (k2 =? k); [reflexivity|]. cbn [orb] in *.
  destruct (harmless st k2 c2); [apply orb_true_r|]. rewrite orb_false_r in *.
  apply andb_true_iff in W. destruct W as [W1 W2]. apply Z.ltb_lt in W1. apply Z.leb_le in W2.
  destruct (i_ids _ _ I _ _ Hin) as (_ & _ & Hi2).
  destruct (i_ids _ _ I _ _ (c_find_In _ _ _ Hk)) as (_ & _ & Hi).
  apply negb_true_iff. apply keqb_false. intros E.
  assert (E2 : snd (ckey c2) = snd (ckey cr)) by (rewrite E; reflexivity).
  rewrite Hi, Hi2, Hm in E2. revert E2.
  destruct (Z_lt_le_dec (cdraw c2) (cdraw cr)).
  - apply index_differs; [exact Hn|lia].
  - intros E2. symmetry in E2. revert E2. apply index_differs; [exact Hn|lia].
Qed.

Lemma window_step_no_reuse c n st l :
  mask c = 2 ^ n - 1 -> 0 <= n -> inv c st ->
  window_step c st l = true -> no_reuse_step c st l = true.
Proof.
  intros Hm Hn I W. destruct l; try reflexivity; cbn [window_step no_reuse_step] in *;
    destruct (c_find k st) as [cr|] eqn:E; try reflexivity.
  - destruct (registers c st cr); [|reflexivity]. apply (others_near_harmless c n st k cr Hm Hn I E W).
  - destruct (cstat cr); try reflexivity. apply (others_near_harmless c n st k cr Hm Hn I E W).
Qed.

Lemma window_no_reuse_from c n : mask c = 2 ^ n - 1 -> 0 <= n ->
  forall tr st, inv c st -> window c st tr = true -> no_reuse c st tr = true.
Proof.
  intros Hm Hn. induction tr as [|l tr IH]; intros st I W; [reflexivity|].
  unfold window, no_reuse in *. cbn [guarded] in *. apply andb_true_iff in W. destruct W as [W1 W2].
  rewrite (window_step_no_reuse c n st l Hm Hn I W1). cbn [andb].
  destruct (step c st l) as [st1|] eqn:E; [|reflexivity].
  apply IH; [apply (inv_step_preserved _ _ _ _ I E)|exact W2].
Qed.

(* C09_no_reuse_bound *)
Theorem no_reuse_bound : forall c n tr,
  mask c = 2 ^ n - 1 -> 0 <= n -> window c init tr = true -> no_reuse c init tr = true.
Proof. intros c n tr Hm Hn. apply (window_no_reuse_from c n Hm Hn tr init (inv_init c)). Qed.

(* ------------------------------------------------------------------ strays and duplicates *)
(* C09_stray_dup_dropped, first half: a reply whose index is not pending changes neither the
   table nor any caller *)
Theorem stray_dropped : forall c st n i p rest,
  take_nth n (inflight st) = Some ((i, p), rest) -> t_find i (pending st) = None ->
  exists st', step c st (LDeliver n) = Some st' /\
              callers st' = callers st /\ pending st' = pending st /\ counter st' = counter st.
Proof.
  intros c st n i p rest Ht Hf. cbn [step]. rewrite Ht. unfold t_load_delete.
  unfold t_find in Hf. rewrite Hf. eexists. split; [reflexivity|]. cbn.
  rewrite (a_remove_absent _ _ _ i (pending st) Hf). auto.
Qed.

(* second half: once a reply with index i has been handled, index i is not pending, so a second
   copy of it (handled before the index is registered again) is dropped by the first half *)
Theorem delivered_index_not_pending : forall c st n i p rest st',
  take_nth n (inflight st) = Some ((i, p), rest) -> step c st (LDeliver n) = Some st' ->
  t_find i (pending st') = None /\ inflight st' = rest.
Proof.
  intros c st n i p rest st' Ht H. cbn [step] in H. rewrite Ht in H. unfold t_load_delete in H.
  assert (X : t_find i (a_remove keqb i (pending st)) = None).
  { unfold t_find. rewrite (a_find_remove _ _ _ keqb_spec), keqb_refl. reflexivity. }
  destruct (a_find keqb i (pending st)); injection H as <-; cbn; auto.
Qed.

Theorem duplicate_dropped : forall c st n i p rest st1 m p' rest',
  take_nth n (inflight st) = Some ((i, p), rest) -> step c st (LDeliver n) = Some st1 ->
  take_nth m (inflight st1) = Some ((i, p'), rest') ->
  exists st2, step c st1 (LDeliver m) = Some st2 /\
              callers st2 = callers st1 /\ pending st2 = pending st1.
Proof.
  intros c st n i p rest st1 m p' rest' Ht H Ht'.
  destruct (delivered_index_not_pending _ _ _ _ _ _ _ Ht H) as [Hf _].
  destruct (stray_dropped c st1 m i p' rest' Ht' Hf) as (st2 & Hs & Hc & Hp & _).
  exists st2. auto.
Qed.

(* ------------------------------------------------------------------ the unguarded statement fails on UDP *)
Definition swapped (st : mstate) : Prop :=
  exists k cr k', c_find k st = Some cr /\ cstat cr = SDone (OResp (Some k')) /\ k' <> k.

Definition swapped_at (st : mstate) (k : Z) : bool :=
  match c_find k st with
  | Some cr => match cstat cr with SDone (OResp (Some k')) => negb (k' =? k) | _ => false end
  | None => false
  end.

Lemma swapped_at_sound st k : swapped_at st k = true -> swapped st.
Proof.
  unfold swapped_at. destruct (c_find k st) as [cr|] eqn:Ec; [|discriminate].
  destruct (cstat cr) as [| |[[k'|]| |]] eqn:Es; try discriminate.
  intros H. apply negb_true_iff, Z.eqb_neq in H. exists k, cr, k'. auto.
Qed.

Definition refuted_check (c : cfg) (tr : list label) (b a : Z) : bool :=
  match run c init tr with
  | Some st => swapped_at st b && orphan_b st a
  | None => false
  end.

Lemma refuted_check_sound c tr b a : refuted_check c tr b a = true ->
  exists st, run c init tr = Some st /\ swapped st /\ orphan_b st a = true.
Proof.
  unfold refuted_check. destruct (run c init tr) as [st|]; [|discriminate].
  intros H. apply andb_true_iff in H. destruct H as [H1 H2].
  exists st. split; [reflexivity|]. split; [apply (swapped_at_sound _ _ H1)|exact H2].
Qed.

(* C09_full_refuted_udp_old: the allocation of rpc/udp before 7acbe6f (store overwrites): one pending call
   and mask+1 = 32768 further calls on the connection: the last of them returns the response to
   request 1, and caller 1 is left waiting with no table entry *)
Theorem full_refuted_udp_old :
  exists st, run cfg_udp_old init (wrap_witness (Z.to_nat mask15)) = Some st /\ swapped st /\
             orphan_b st 1 = true.
Proof. apply (refuted_check_sound cfg_udp_old _ 32769 1). vm_compute. reflexivity. Qed.

(* the other face: the late call is answered first; the reply to request 1 is then dropped
   although caller 1 is still waiting *)
Definition lost_check (c : cfg) (tr : list label) (a : Z) : bool :=
  match run c init tr with
  | Some st => orphan_b st a && mem_z a (answerable st) && (length (inflight st) =? 0)%nat
  | None => false
  end.

Theorem lost_response_udp_old :
  lost_check cfg_udp_old (wrap_witness_lost (Z.to_nat mask15)) 1 = true.
Proof. vm_compute. reflexivity. Qed.

(* ------------------------------------------------------------------ the repaired allocation *)
(* with skip_pending a store never replaces or removes an entry: every entry of the table is still there,
   under the same holder, after any LStore -- for every state, guard or no guard *)
Theorem store_keeps_entries : forall c st k st' i h,
  skip_pending c = true -> step c st (LStore k) = Some st' ->
  t_find i (pending st) = Some h -> t_find i (pending st') = Some h.
Proof.
  intros c st k st' i h Hs H Hf. cbn [step] in H.
  destruct (c_find k st) as [cr|]; [|discriminate]. destruct (cstat cr); try discriminate.
  rewrite Hs in H. cbn [andb] in H.
  destruct (t_find (ckey cr) (pending st)) as [h'|] eqn:Ek.
  - destruct (cenq cr); [discriminate|]. injection H as <-. exact Hf.
  - injection H as <-. cbn [pending set_pending]. rewrite t_find_store.
    destruct (keqb i (ckey cr)) eqn:E; [|exact Hf]. apply keqb_spec in E. subst i. congruence.
Qed.

(* ... so the caller that registered it keeps it until the entry is consumed by a delivery, deleted by a
   cancellation or failed by Close: a registering LStore finds its index free *)
Theorem store_registers_on_free_index : forall c st k cr st',
  skip_pending c = true -> c_find k st = Some cr -> step c st (LStore k) = Some st' ->
  (t_find (ckey cr) (pending st) = None /\ t_find (ckey cr) (pending st') = Some k) \/
  (exists h, t_find (ckey cr) (pending st) = Some h /\ pending st' = pending st /\ counter st' = counter st + 1).
Proof.
  intros c st k cr st' Hs Hk H. cbn [step] in H. rewrite Hk in H. destruct (cstat cr); try discriminate.
  rewrite Hs in H. cbn [andb] in H.
  destruct (t_find (ckey cr) (pending st)) as [h'|] eqn:Ek.
  - destruct (cenq cr); [discriminate|]. injection H as <-. right. exists h'. auto.
  - injection H as <-. left. split; [reflexivity|]. cbn [pending set_pending]. rewrite t_find_store, keqb_refl. reflexivity.
Qed.

(* the schedule of the old refutation against the repaired allocation: the late call's first store is
   refused, it registers under the next index, and both callers get their own replies *)
Definition new_alloc_check (n : nat) : bool :=
  match run cfg_udp init (wrap_witness_new n) with
  | Some st =>
      own_b st && negb (orphan_b st 1) &&
      match c_find 1 st, c_find (2 + Z.of_nat n) st with
      | Some a, Some b =>
          match cstat a, cstat b with
          | SDone (OResp (Some 1)), SDone (OResp (Some k)) => (k =? 2 + Z.of_nat n) && (snd (ckey b) =? 2)
          | _, _ => false
          end
      | _, _ => false
      end
  | None => false
  end.

Theorem wrap_schedule_repaired : new_alloc_check (Z.to_nat mask15) = true.
Proof. vm_compute. reflexivity. Qed.

(* with one call fewer the same schedule is covered by the guard (on a small mask, so that
   the guard can be evaluated) *)
Definition cfg_tiny : cfg := {| mask := 3; early_enq := false; skip_pending := false |}.

Lemma tiny_window_ok : window cfg_tiny init ([LAlloc 0; LStore 1; LEnq 1] ++ quick_calls 2 3) = true.
Proof. vm_compute. reflexivity. Qed.

Lemma tiny_window_fails : window cfg_tiny init (wrap_witness 3) = false /\ no_reuse cfg_tiny init (wrap_witness 3) = false.
Proof. split; vm_compute; reflexivity. Qed.

(* ------------------------------------------------------------------ used by the replay driver *)
(* the guards quantify (... || harmless) over all callers and dead callers are harmless: restricting the
   state to the callers that are not dead does not change their value (extract/drv_c09.ml evaluates
   them that way) *)
Definition restrict_live (st : mstate) : mstate :=
  set_callers st (filter (fun kc => negb (dead st (fst kc) (snd kc))) (callers st)).

Lemma forallb_filter_skip {A} (f p : A -> bool) l :
  (forall x, p x = false -> f x = true) -> forallb f (filter p l) = forallb f l.
Proof.
  intros H. induction l as [|x l IH]; [reflexivity|]. cbn [filter forallb].
  destruct (p x) eqn:E; cbn [forallb]; rewrite IH; [reflexivity|]. rewrite (H x E). reflexivity.
Qed.

Lemma guards_ignore_dead c st k cr :
  others_harmless (restrict_live st) k cr = others_harmless st k cr /\
  others_near c (restrict_live st) k cr = others_near c st k cr /\
  registers c (restrict_live st) cr = registers c st cr.
Proof.
  split; [|split; [|reflexivity]].
  - unfold others_harmless, restrict_live. cbn [callers set_callers].
    change (forallb (fun kc => (fst kc =? k) || negb (keqb (ckey (snd kc)) (ckey cr)) || harmless st (fst kc) (snd kc))
                    (filter (fun kc => negb (dead st (fst kc) (snd kc))) (callers st)) =
            forallb (fun kc => (fst kc =? k) || negb (keqb (ckey (snd kc)) (ckey cr)) || harmless st (fst kc) (snd kc)) (callers st)).
    apply forallb_filter_skip. intros x Hx. apply negb_false_iff in Hx. rewrite (dead_harmless _ _ _ Hx). apply orb_true_r.
  - unfold others_near, restrict_live. cbn [callers set_callers].
    change (forallb (fun kc => (fst kc =? k) || ((0 <? Z.abs (cdraw cr - cdraw (snd kc))) && (Z.abs (cdraw cr - cdraw (snd kc)) <=? mask c)) || harmless st (fst kc) (snd kc))
                    (filter (fun kc => negb (dead st (fst kc) (snd kc))) (callers st)) =
            forallb (fun kc => (fst kc =? k) || ((0 <? Z.abs (cdraw cr - cdraw (snd kc))) && (Z.abs (cdraw cr - cdraw (snd kc)) <=? mask c)) || harmless st (fst kc) (snd kc)) (callers st)).
    apply forallb_filter_skip. intros x Hx. apply negb_false_iff in Hx. rewrite (dead_harmless _ _ _ Hx). apply orb_true_r.
Qed.

(* with skip_pending the guard is never about a call that is still pending in the table: when a store
   registers, its index is free, so no other call holds it *)
Theorem registering_store_meets_no_pending_holder : forall c st cr k2,
  skip_pending c = true -> registers c st cr = true -> t_find (ckey cr) (pending st) <> Some k2.
Proof.
  intros c st cr k2 Hs Hr. unfold registers in Hr. rewrite Hs in Hr. cbn [andb] in Hr.
  destruct (t_find (ckey cr) (pending st)); [discriminate|discriminate].
Qed.
