(* Proofs about Model/CallLife.v (C10), third part: the transports as repaired by 576bf91 (onExit always
   cancels) and 8ffdf9e (store after Close fills the caller's channel with the close error). *)
From Coq Require Import List ZArith Bool Lia PeanoNat.
From HV Require Import Model.Mux.
From HV Require Proofs.MuxProofs.
From HV Require Import Model.CallLife Proofs.CallLifeBase Proofs.CallLifeProofs.
Import ListNotations.
Open Scope Z_scope.
Local Opaque index_of.

(* ------------------------------------------------------------------ whoever cleans has closed the socket *)
Record sock_ok (st : state) : Prop := {
  s_cleaned : forall c cn, nth_error (conns st) c = Some cn -> kcleaned cn = true -> ksock cn = true;
  s_thread : forall c cn, nth_error (conns st) c = Some cn ->
             (ksender cn = SExit EClean \/ kreceiver cn = RExit EClean) -> ksock cn = true;
  s_abort : forall c, In (c, EClean) (aborters st) -> exists cn, nth_error (conns st) c = Some cn /\ ksock cn = true
}.

Lemma sock_cleaned_step g st l st' : sock_ok st -> step g st l = Some st' ->
  forall xc xcn, nth_error (conns st') xc = Some xcn -> kcleaned xcn = true -> ksock xcn = true.
Proof.
  intros I H. destruct l; try destruct w; step_cases' H; intros xc xcn Hc Hk; unfold exit_update in *; norm.
  all: try (apply (s_cleaned _ I _ _ Hc Hk); fail).
  all: try (match goal with E : nth_error (conns _) _ = Some ?cn |- _ => apply (s_cleaned _ I _ _ E Hk) end; fail).
  all: try reflexivity.
  all: try discriminate.
  all: try (match goal with E : nth_error (conns _) _ = Some ?cn |- ksock ?cn = true =>
              first [ apply (s_thread _ I _ _ E); tauto
                    | match goal with Ea : nth_error (aborters _) _ = Some _ |- _ =>
                        destruct (s_abort _ I _ (nth_error_In _ _ Ea)) as (? & ? & ?); congruence end ] end).
Qed.

Lemma sock_thread_step g st l st' : sock_ok st -> step g st l = Some st' ->
  forall xc xcn, nth_error (conns st') xc = Some xcn ->
             (ksender xcn = SExit EClean \/ kreceiver xcn = RExit EClean) -> ksock xcn = true.
Proof.
  intros I H. destruct l; try destruct w; step_cases' H; intros xc xcn Hc Ht; unfold exit_update in *; norm.
  all: try (apply (s_thread _ I _ _ Hc Ht); fail).
  all: try reflexivity.
  all: try (match goal with E : nth_error (conns _) _ = Some ?cn |- _ => apply (s_thread _ I _ _ E); tauto end; fail).
  all: try (destruct Ht as [Ht|Ht]; try discriminate Ht; try (inversion Ht; fail);
            match goal with E : nth_error (conns _) _ = Some ?cn |- _ =>
              apply (s_thread _ I _ _ E); first [left; congruence | right; congruence] end; fail).
Qed.

Lemma sock_abort_step g st l st' : sock_ok st -> step g st l = Some st' ->
  forall xc, In (xc, EClean) (aborters st') -> exists cn, nth_error (conns st') xc = Some cn /\ ksock cn = true.
Proof.
  intros I H. destruct l; try destruct w; step_cases' H; intros xc Hin; unfold exit_update in *; norm.
  all: try (destruct (s_abort _ I _ Hin) as (cn & H1 & H2); fin; fail).
  all: try (apply In_upd_nth in Hin; destruct Hin as [Hin|Hin]; [inversion Hin; subst; clear Hin|]).
  all: try (apply in_app_or in Hin; destruct Hin as [Hin|[Hin|[]]]; [|inversion Hin]).
  all: try (destruct (s_abort _ I _ Hin) as (cn & H1 & H2)).
  all: norm; try (eexists; split; [reflexivity|]; proj_simpl; first [assumption|reflexivity]).
  all: try (eexists; split; [eassumption|assumption]).
  - exfalso. rewrite nth_len_none in H1. discriminate.
  - exfalso. apply Eq. reflexivity.
Qed.

Lemma sock_ok_step g st l st' : sock_ok st -> step g st l = Some st' -> sock_ok st'.
Proof.
  intros I H. split.
  - apply (sock_cleaned_step g st l st' I H).
  - apply (sock_thread_step g st l st' I H).
  - apply (sock_abort_step g st l st' I H).
Qed.

Lemma sock_ok_init ts : sock_ok (init ts).
Proof. split; [intros c cn H; destruct c; discriminate|intros c cn H; destruct c; discriminate|intros c []]. Qed.

(* ------------------------------------------------------------------ C10_prompt_on_close, repaired: no guard *)
Lemma clean_ok_fixed_step g st l st' : fix_store g = true ->
  sock_ok st -> clean_ok st -> step g st l = Some st' -> clean_ok st'.
Proof.
  intros F S I H.
  destruct l; try (match type of H with step _ _ ?lab = _ => exact (clean_ok_step g st lab st' I eq_refl H) end).
  (* LStore: a connection that has been cleaned has its socket closed, so nothing is registered *)
  unfold clean_ok in *. step_cases' H; intros xc xcn Hc Hk; norm.
  all: try (apply (I _ _ Hc Hk); fail).
  all: try (match goal with E : nth_error (conns _) _ = Some ?cn |- _ => apply (I _ _ E Hk) end; fail).
  exfalso. match goal with E : nth_error (conns _) _ = Some ?cn, Eb : fix_store g && ksock ?cn = false |- _ =>
    rewrite F, (s_cleaned _ S _ _ E Hk) in Eb; discriminate end.
Qed.

Record inv_fixed (st : state) : Prop := {
  f_leak : inv_leak st;
  f_watch : inv_watch st;
  f_refs : refs_ok st;
  f_dist : dist_ok st;
  f_entry : entry_ok st;
  f_clean : clean_ok st;
  f_sock : sock_ok st
}.

Lemma inv_fixed_init ts : inv_fixed (init ts).
Proof.
  destruct (inv_all_init ts) as [L W R D E C]. split; auto. apply sock_ok_init.
Qed.

Lemma inv_fixed_step g st l st' : fix_store g = true ->
  inv_fixed st -> no_reuse_step g st l = true -> step g st l = Some st' -> inv_fixed st'.
Proof.
  intros F [L W R D E C S] G H. split.
  - apply (inv_leak_step _ _ _ _ L H).
  - apply (inv_watch_step _ _ _ _ W H).
  - apply (refs_ok_step _ _ _ _ R H).
  - apply (dist_ok_step _ _ _ _ R D G H).
  - apply (entry_ok_step _ _ _ _ L D E H).
  - apply (clean_ok_fixed_step _ _ _ _ F S C H).
  - apply (sock_ok_step _ _ _ _ S H).
Qed.

Lemma inv_fixed_run g : fix_store g = true -> forall tr st st', inv_fixed st ->
  guarded (no_reuse_step g) g st tr = true -> run g st tr = Some st' -> inv_fixed st'.
Proof.
  intros F. induction tr as [|l tr IH]; intros st st' I G H; cbn [run] in H.
  - inversion H; subst. exact I.
  - destruct (step g st l) as [st1|] eqn:E; [|discriminate].
    cbn [guarded] in G. rewrite E in G. apply andb_true_iff in G. destruct G as [G1 G2].
    apply (IH st1 st' (inv_fixed_step _ _ _ _ F I G1 E) G2 H).
Qed.

(* prompt on close needs neither guard: only sock_ok and clean_ok, which every step preserves *)
Lemma prompt_inv_run g : fix_store g = true -> forall tr st st', sock_ok st -> clean_ok st ->
  run g st tr = Some st' -> sock_ok st' /\ clean_ok st'.
Proof.
  intros F. induction tr as [|l tr IH]; intros st st' S C H; cbn [run] in H.
  - inversion H; subst. auto.
  - destruct (step g st l) as [st1|] eqn:E; [|discriminate].
    apply (IH st1 st' (sock_ok_step _ _ _ _ S E) (clean_ok_fixed_step _ _ _ _ F S C E) H).
Qed.

(* C10_prompt_on_close: every schedule, no guard *)
Theorem prompt_on_close : forall g ts tr st, fix_store g = true ->
  run g (init ts) tr = Some st ->
  forall c cn, nth_error (conns st) c = Some cn -> kcleaned cn = true -> ktab cn = [].
Proof.
  intros g ts tr st F H. apply (proj2 (prompt_inv_run g F tr _ _ (sock_ok_init ts) (clean_ok_init ts) H)).
Qed.

(* C10_no_stuck_caller: only the index guard is left *)
Theorem no_stuck_caller : forall g ts tr st, fix_store g = true ->
  run g (init ts) tr = Some st -> guarded (no_reuse_step g) g (init ts) tr = true ->
  forall k cl c i, nth_error (callers st) k = Some cl -> waiting_at (pc cl) = Some (c, i) ->
    box cl <> None \/ cancelled cl = true \/
    exists cn, nth_error (conns st) c = Some cn /\ In (i, k) (ktab cn) /\
               (closer_pending st c cn = true \/ listening cn = true).
Proof.
  intros g ts tr st F H G k cl c i Hk Hw.
  pose proof (inv_fixed_run g F tr _ _ (inv_fixed_init ts) G H) as [L W R D E C S].
  destruct (box cl) as [r|] eqn:Eb; [left; discriminate|]. right. right.
  destruct (E _ _ _ _ Hk Hw Eb) as (cn & Hc & Hin). exists cn. split; [exact Hc|]. split; [exact Hin|].
  apply (w_watch _ W _ _ Hc). destruct (kcleaned cn) eqn:Ec; [|reflexivity].
  rewrite (C _ _ Hc Ec) in Hin. destruct Hin.
Qed.

(* ------------------------------------------------------------------ goroutines of closed connections, repaired *)
(* with fix_cancel, whoever has run onExit has cancelled the context of Send and Receive *)
Definition cancel_ok (st : state) : Prop :=
  forall c cn e, nth_error (conns st) c = Some cn ->
    (ksender cn = SExit e \/ kreceiver cn = RExit e) -> past_onexit e = true -> kcancel cn = true.

Lemma cancel_ok_step g st l st' : fix_cancel g = true -> cancel_ok st -> step g st l = Some st' -> cancel_ok st'.
Proof.
  intros F I H. unfold cancel_ok in *.
  destruct l; try destruct w; step_cases' H; intros xc xcn xe Hc Ht Hp; unfold exit_update in *; norm.
  all: try (apply (I _ _ _ Hc Ht Hp); fail).
  all: try rewrite F; try rewrite !orb_true_r; try reflexivity.
  all: try (match goal with E : nth_error (conns _) _ = Some ?cn |- kcancel ?cn = true =>
              first [ eapply (I _ _ _ E); [left; eassumption|first [assumption|reflexivity]]
                    | eapply (I _ _ _ E); [right; eassumption|first [assumption|reflexivity]] ] end; fail).
  all: destruct Ht as [Ht|Ht]; try (inversion Ht; subst; clear Ht); try discriminate Hp.
  all: try (match goal with E : nth_error (conns _) _ = Some ?cn |- kcancel ?cn = true =>
              first [ eapply (I _ _ _ E); [left; eassumption|first [assumption|reflexivity]]
                    | eapply (I _ _ _ E); [right; eassumption|first [assumption|reflexivity]] ] end; fail).
  all: rewrite orb_false_r.
  - apply (I _ _ _ E0 (or_introl H0) Hp).
  - match goal with Hr : kreceiver c = RExit xe |- _ => apply (I _ _ _ E0 (or_intror Hr) Hp) end.
Qed.

Lemma cancel_ok_run g : fix_cancel g = true -> forall tr st st', cancel_ok st -> run g st tr = Some st' -> cancel_ok st'.
Proof.
  intros F. induction tr as [|l tr IH]; intros st st' I H; cbn [run] in H.
  - inversion H; subst. exact I.
  - destruct (step g st l) as [st1|] eqn:E; [|discriminate]. apply (IH st1 st' (cancel_ok_step _ _ _ _ F I E) H).
Qed.

(* C10_threads_exit: in every reachable state of the repaired transports, for every connection: if Receive has
   gone past onExit the context is cancelled (so Send, if it sits in its select, can leave at once); otherwise
   Receive is still there and will run onExit when its read fails.  In particular no Send is parked for ever. *)
Theorem threads_exit : forall g ts tr st, fix_cancel g = true -> run g (init ts) tr = Some st ->
  forall c cn, nth_error (conns st) c = Some cn ->
    (kcancel cn = true \/ kreceiver cn = RHead \/ kreceiver cn = RRead \/ exists b, kreceiver cn = RExit (EOnExit b)) /\
    sender_parked_forever st c = false /\
    (kcancel cn = true -> ksender cn = SIdle -> exists st', step g st (LSendCtx c) = Some st').
Proof.
  intros g ts tr st F H c cn Hc.
  assert (I : cancel_ok st).
  { apply (cancel_ok_run g F tr (init ts) st); [|exact H]. intros c0 cn0 e H0. destruct c0; discriminate. }
  assert (A : kcancel cn = true \/ kreceiver cn = RHead \/ kreceiver cn = RRead \/ exists b, kreceiver cn = RExit (EOnExit b)).
  { destruct (kreceiver cn) as [| |[b| | |]] eqn:Er; auto.
    - right. right. right. exists b. reflexivity.
    - left. apply (I _ _ ECloseSock Hc); [right; exact Er|reflexivity].
    - left. apply (I _ _ EClean Hc); [right; exact Er|reflexivity].
    - left. apply (I _ _ EDone Hc); [right; exact Er|reflexivity]. }
  split; [exact A|]. split.
  - unfold sender_parked_forever. rewrite Hc.
    destruct (ksender cn); try reflexivity. cbn [andb].
    destruct (kcancel cn) eqn:Ek; [reflexivity|]. cbn [negb andb].
    destruct (kunpooled cn); [|reflexivity]. cbn [andb].
    destruct (kreceiver cn) as [| |[b| | |]] eqn:Er; try reflexivity.
    exfalso. assert (X : kcancel cn = true) by (apply (I _ _ EDone Hc); [right; exact Er|reflexivity]). congruence.
  - intros Hk Hs. cbn [step]. rewrite Hc, Hs, Hk. eexists. reflexivity.
Qed.

(* ------------------------------------------------------------------ the old witnesses, run on the repaired transports *)
(* the schedule of C10_prompt_on_close_old_refuted: the late store fills the caller's channel with the close error,
   nothing is registered, the caller takes the error and returns *)
Lemma late_store_witness_repaired :
  match run g31 (init [false]) (late_store_witness ++ [LTake 0; LEnd 0]) with
  | Some st => map pc (callers st) = [CDone RErr] /\ pending_total st = 0%nat /\ stuck_b st 0 = false /\ cancels st = []
  | None => False
  end.
Proof. vm_compute. repeat split; reflexivity. Qed.

(* the schedule of C10_threads_exit_old_refuted: Receive's onExit now cancels the context although Abort had
   emptied the pool, and Send leaves *)
Lemma abort_leak_witness_repaired :
  match run g31 (init [false]) (abort_leak_witness ++ [LSendCtx 0; LOnExit (WS 0)]) with
  | Some st => sender_parked_forever st 0 = false /\
               match nth_error (conns st) 0 with Some cn => ksender cn = SExit EDone /\ kreceiver cn = RExit EDone | None => False end
  | None => False
  end.
Proof. vm_compute. repeat split; reflexivity. Qed.

(* ------------------------------------------------------------------ Client.Abort reaches every pending call *)
(* every call between LBegin and LEnd is registered in Client.cancelFuncs, or its context is already done *)
Definition reg_ok (st : state) : Prop :=
  forall k cl, nth_error (callers st) k = Some cl -> started (pc cl) = true ->
    mem_nat k (cancels st) = true \/ cancelled cl = true.

Lemma mem_nat_remove_other k j l : k <> j -> mem_nat k (remove_nat j l) = mem_nat k l.
Proof.
  intros Hne. induction l as [|x r IH]; [reflexivity|]. cbn [remove_nat mem_nat].
  destruct (Nat.eqb x j) eqn:E.
  - apply Nat.eqb_eq in E. subst x. rewrite IH.
    destruct (Nat.eqb j k) eqn:E2; [apply Nat.eqb_eq in E2; congruence|reflexivity].
  - cbn [mem_nat]. rewrite IH. reflexivity.
Qed.

Lemma reg_ok_step g st l st' : reg_ok st -> step g st l = Some st' -> reg_ok st'.
Proof.
  intros I H. unfold reg_ok in *.
  destruct l; try destruct w; step_cases' H; intros xk xcl Hc Hs; unfold exit_update in *; norm; from_inv.
  all: try (apply (I _ _ Hc Hs); fail).
  all: pc_rw; proj_simpl; try discriminate.
  all: try (right; reflexivity).
  all: try (match goal with E : nth_error (callers _) _ = Some ?c |- _ => apply (I _ _ E); pc_rw; reflexivity end; fail).
  1: { left. cbn [mem_nat]. rewrite Nat.eqb_refl. reflexivity. }
  1: { destruct (I _ _ Hc Hs) as [X|X]; [left; cbn [mem_nat]; rewrite X; apply orb_true_r|right; exact X]. }
  all: try (match goal with E : nth_error (callers _) _ = Some ?c |- _ \/ cancelled ?c = true =>
              apply (I _ _ E); destruct (pc c); try discriminate; reflexivity end).
  1: { rewrite (mem_nat_remove_other _ _ _ Eq). apply (I _ _ Hc Hs). }
  1-3: (rewrite H0; apply (I _ _ Hc Hs)).
  right. destruct H2 as [[H2 Hm]|[H2 _]]; [|exact H2]. cbn [Nat.add] in Hm.
  destruct (I _ _ Hc Hs) as [X|X]; congruence.
Qed.

Lemma reg_ok_run g : forall tr st st', reg_ok st -> run g st tr = Some st' -> reg_ok st'.
Proof.
  induction tr as [|l tr IH]; intros st st' I H; cbn [run] in H.
  - inversion H; subst. exact I.
  - destruct (step g st l) as [st1|] eqn:E; [|discriminate]. apply (IH st1 st' (reg_ok_step _ _ _ _ I E) H).
Qed.

Lemma reg_ok_init ts : reg_ok (init ts).
Proof. intros k cl H S. cbn in H. apply nth_map_init in H. destruct H as [H _]. rewrite H in S. discriminate. Qed.

(* C10_abort_cancels_every_pending_call: whatever the schedule, right after the first half of Client.Abort the
   context of EVERY call between Client.Transport's registration and its deferred removal is done, and the list
   of cancel functions is empty *)
Theorem abort_cancels_every_pending_call : forall g ts tr st st',
  run g (init ts) tr = Some st -> step g st LAbortCancel = Some st' ->
  cancels st' = [] /\
  forall k cl, nth_error (callers st') k = Some cl -> started (pc cl) = true -> cancelled cl = true.
Proof.
  intros g ts tr st st' H S. pose proof (reg_ok_run g tr _ _ (reg_ok_init ts) H) as I.
  cbn [step] in S. injection S as <-. split; [reflexivity|].
  intros k cl Hc Hs. proj_simpl. apply cancel_from_inv in Hc.
  destruct Hc as (ocl & Hc & Hp & _ & _ & [[Hx Hm]|[Hx _]]); [|exact Hx].
  cbn [Nat.add] in Hm. rewrite Hp in Hs. destruct (I _ _ Hc Hs) as [X|X]; congruence.
Qed.

(* ... and a call whose context is done has a completing step enabled, on every kind of transport: *)
Theorem cancelled_call_can_return : forall g st k cl,
  refs_ok st -> nth_error (callers st) k = Some cl -> cancelled cl = true ->
  (pc cl = CDirect -> exists st', step g st (LDirectCancel k) = Some st') /\
  (forall c i, waiting_at (pc cl) = Some (c, i) -> exists st', step g st (LCancelDel k) = Some st').
Proof.
  intros g st k cl R Hk Hc. split.
  - intros Hp. cbn [step]. rewrite Hk, Hp, Hc. eexists. reflexivity.
  - intros c i Hw. cbn [step]. rewrite Hk, Hw, Hc.
    assert (Hl : (c < length (conns st))%nat) by (apply (R _ _ c i Hk); apply (waiting_active _ _ _ Hw)).
    destruct (nth_error (conns st) c) as [cn|] eqn:E; [eexists; reflexivity|].
    apply nth_error_None in E. lia.
Qed.

Lemma refs_ok_run g : forall tr st st', refs_ok st -> run g st tr = Some st' -> refs_ok st'.
Proof.
  induction tr as [|l tr IH]; intros st st' I H; cbn [run] in H.
  - inversion H; subst. exact I.
  - destruct (step g st l) as [st1|] eqn:E; [|discriminate]. apply (IH st1 st' (refs_ok_step _ _ _ _ I E) H).
Qed.

Lemma refs_ok_init ts : refs_ok (init ts).
Proof. intros k cl c i H A. cbn in H. apply nth_map_init in H. destruct H as [H _]. rewrite H in A. discriminate. Qed.

(* ------------------------------------------------------------------ the pool identity rule *)
(* onExit of connection c removes c and nothing else from the pool *)
Theorem onexit_spares_other_connections : forall g st w c c' st',
  step g st (LOnExit w) = Some st' -> who_conn st w = Some c -> pool st = Some c' -> c' <> c -> pool st' = Some c'.
Proof.
  intros g st w c c' st' H Hw Hp Hne.
  destruct w as [x|x|j]; cbn [step] in H; [| |discriminate];
    cbn [who_conn] in Hw; inversion Hw; subst x;
    destruct (who_pc st _) as [[err| | |]|]; try discriminate;
    cbn [who_conn] in H; destruct (nth_error (conns st) c) as [cn|]; try discriminate;
    rewrite Hp in H; (destruct (Nat.eqb c' c) eqn:E; [apply Nat.eqb_eq in E; contradiction|]);
    injection H as <-; unfold exit_update; proj_simpl; exact Hp.
Qed.

(* the pooled connection is intact: never unpooled, its socket not closed by the client, its context not cancelled *)
Theorem pooled_connection_is_intact : forall g ts tr st c cn,
  run g (init ts) tr = Some st -> pool st = Some c -> nth_error (conns st) c = Some cn ->
  kunpooled cn = false /\ ksock cn = false /\ kcancel cn = false.
Proof.
  intros g ts tr st c cn H Hp Hc. pose proof (inv_pool_run g tr _ _ (inv_pool_init ts) H) as I.
  destruct (p_pool _ I _ Hp) as (cn' & Hc' & Hu). rewrite Hc in Hc'. inversion Hc'; subst cn'.
  destruct (p_sock _ I _ _ Hc) as [S1 S2]. repeat split; [exact Hu| |].
  - destruct (ksock cn); [rewrite S1 in Hu by reflexivity; discriminate|reflexivity].
  - destruct (kcancel cn); [rewrite S2 in Hu by reflexivity; discriminate|reflexivity].
Qed.

(* ------------------------------------------------------------------ every connection that left the pool gets closed *)
Definition unpooled_ok (st : state) : Prop :=
  forall c cn, nth_error (conns st) c = Some cn -> kunpooled cn = true ->
    ksock cn = true \/ closer_pending st c cn = true.

Lemma unpooled_ok_step g st l st' : inv_watch st -> inv_pool st -> sock_ok st -> unpooled_ok st -> step g st l = Some st' -> unpooled_ok st'.
Proof.
  intros W P S I H. unfold unpooled_ok in *.
  destruct l; try destruct w; step_cases' H; intros xc xcn Hc Hu; unfold exit_update in *; norm.
  all: try (apply (I _ _ Hc Hu); fail).
  all: try discriminate.
  all: try (left; reflexivity).
  all: try (match goal with E : nth_error (conns _) _ = Some ?cn |- _ =>
              pose proof (w_ctx _ W _ _ E) as Wc; pose proof (proj2 (p_sock _ P _ _ E)) as Ps;
              pose proof (I _ _ E) as U; unfold closer_pending in *; proj_simpl;
              repeat match goal with Ex : ksender _ = _ |- _ => rewrite Ex in * end;
              repeat match goal with Ex : kreceiver _ = _ |- _ => rewrite Ex in * end;
              repeat match goal with Ex : kunpooled _ = _ |- _ => rewrite Ex in * end;
              cbn [is_closer negb andb orb] in *;
              match goal with |- context [existsb ?f (aborters ?s)] => destruct (existsb f (aborters s)) | _ => idtac end;
              destruct (kcancel cn); destruct (kunpooled cn); destruct (ksock cn);
              destruct (ksender cn) as [| |[[]| | |]]; destruct (kreceiver cn) as [| |[[]| | |]];
              cbn in *; try discriminate; intuition (try discriminate; try congruence) end; fail).
  - destruct (I _ _ Hc Hu) as [X|X]; [left; exact X|right]. unfold closer_pending in *. proj_simpl.
    apply orb_true_iff in X. apply orb_true_iff. destruct X as [X|X]; [left; exact X|right].
    eapply existsb_upd_nth_other; [eassumption| |exact X]. cbn.
    destruct (Nat.eqb n xc) eqn:Y; [apply Nat.eqb_eq in Y; congruence|reflexivity].
  - left. apply (s_thread _ S _ _ E1). left. assumption.
  - left. apply (s_thread _ S _ _ E1). right. assumption.
  - left. destruct (s_abort _ S _ (nth_error_In _ _ En)) as (cn' & Hc' & Hs'). congruence.
  - destruct (I _ _ Hc Hu) as [X|X]; [left; exact X|right]. unfold closer_pending in *. proj_simpl.
    apply orb_true_iff in X. apply orb_true_iff. destruct X as [X|X]; [left; exact X|right].
    eapply existsb_upd_nth_other; [eassumption| |exact X]. cbn.
    destruct (Nat.eqb n xc) eqn:Y; [apply Nat.eqb_eq in Y; congruence|reflexivity].
  - right. unfold closer_pending. proj_simpl. rewrite existsb_app. cbn. rewrite Nat.eqb_refl. cbn. rewrite !orb_true_r. reflexivity.
  - destruct (I _ _ Hc Hu) as [X|X]; [left; exact X|right]. unfold closer_pending in *. proj_simpl.
    apply orb_true_iff in X. apply orb_true_iff. destruct X as [X|X]; [left; exact X|right].
    rewrite existsb_app, X. reflexivity.
Qed.

(* C10_unpooled_gets_closed: a connection that is no longer pooled has had its socket closed by the client, or somebody
   is on the way to closing it: nothing that left the pool stays open *)
Theorem unpooled_gets_closed : forall g ts tr st,
  run g (init ts) tr = Some st ->
  forall c cn, nth_error (conns st) c = Some cn -> kunpooled cn = true -> ksock cn = true \/ closer_pending st c cn = true.
Proof.
  intros g ts tr. revert ts.
  assert (X : forall tr st st', inv_watch st -> inv_pool st -> sock_ok st -> unpooled_ok st -> run g st tr = Some st' -> unpooled_ok st').
  { clear tr. induction tr as [|l tr IH]; intros st st' W P S I H; cbn [run] in H.
    - inversion H; subst. exact I.
    - destruct (step g st l) as [st1|] eqn:E; [|discriminate].
      apply (IH st1 st' (inv_watch_step _ _ _ _ W E) (inv_pool_step _ _ _ _ P E) (sock_ok_step _ _ _ _ S E)
                (unpooled_ok_step _ _ _ _ W P S I E) H). }
  intros ts st H. apply (X tr (init ts) st (inv_watch_init ts) (inv_pool_init ts) (sock_ok_init ts)); [|exact H].
  intros c cn Hc. destruct c; discriminate.
Qed.

(* ------------------------------------------------------------------ a failed call returns from either select *)
(* a caller whose channel holds a result can take it whether its request is still queued (first select: registered,
   not yet handed to Send) or already sent (second select) *)
Theorem failed_call_can_return : forall g st k cl r,
  nth_error (callers st) k = Some cl -> box cl = Some r ->
  (forall c i, pc cl = CStored c i \/ pc cl = CEnq c i ->
     exists st', step g st (LTake k) = Some st' /\
                 exists cl', nth_error (callers st') k = Some cl' /\ pc cl' = CRet r).
Proof.
  intros g st k cl r Hk Hb c i Hp. cbn [step]. rewrite Hk, Hb.
  assert (Hw : waiting_at (pc cl) = Some (c, i)) by (destruct Hp as [Hp|Hp]; rewrite Hp; reflexivity).
  rewrite Hw. eexists. split; [reflexivity|]. proj_simpl.
  rewrite nth_upd, Nat.eqb_refl, Hk. eexists. split; reflexivity.
Qed.

(* rangeAndClean fails every registered caller of the connection, queued or sent, and each of them can then return
   the error at once *)
Theorem clean_fails_queued_and_sent : forall g st w c cn i k cl,
  who_pc st w = Some EClean -> who_conn st w = Some c -> nth_error (conns st) c = Some cn ->
  In (i, k) (ktab cn) -> nth_error (callers st) k = Some cl -> (pc cl = CStored c i \/ pc cl = CEnq c i) ->
  exists st1 st2, step g st (LCleanTake w) = Some st1 /\ step g st1 (LTake k) = Some st2 /\
                  exists cl2, nth_error (callers st2) k = Some cl2 /\ pc cl2 = CRet RErr.
Proof.
  intros g st w c cn i k cl Hp Hw Hc Hin Hk Hpc.
  destruct (clean_take_fails g st w c cn i k cl Hp Hw Hc Hin Hk) as (st1 & S1 & cl1 & Hk1 & Hb1 & Hpc1).
  assert (Hpc' : pc cl1 = CStored c i \/ pc cl1 = CEnq c i) by (rewrite Hpc1; exact Hpc).
  destruct (failed_call_can_return g st1 k cl1 RErr Hk1 Hb1 c i Hpc') as (st2 & S2 & R2).
  exists st1, st2. auto.
Qed.
