(* Decoder half of C01 on sequences: a slice or an array of scalar values, of any length, written by the
   encoder model in simple mode, is decoded by the decoder model into the same elements.  The proof is a frame
   argument over the decoder model's heap: the header cell, the backing-array cell (reallocated by
   UnsafeGrow beyond the 16 preallocated elements), and the cells left behind by earlier reallocations. *)
From Coq Require Import List Arith NArith ZArith Strings.Byte Bool Lia.
From HV Require Import Lib.Dec Lib.Utf8 Model.Wire Model.WireSem Model.Enc Model.DecAct Model.DecVal Model.DecSpec
                       Proofs.WireProofs Proofs.EncProofs Proofs.DecValProofs Proofs.RoundTripProofs.
Import ListNotations.
Open Scope nat_scope.

(* ---- lists and memory --------------------------------------------------------------------- *)

Lemma upd_nth_mid {A} (a : list A) y b x : upd_nth (length a) x (a ++ y :: b) = Some (a ++ x :: b).
Proof. induction a as [|h a IH]; cbn; [reflexivity|]. rewrite IH. reflexivity. Qed.

Lemma nth_error_mid {A} (a : list A) y b : nth_error (a ++ y :: b) (length a) = Some y.
Proof. induction a; cbn; auto. Qed.

Lemma upd_nth_spec {A} (l : list A) : forall i y x, nth_error l i = Some y ->
  exists l', upd_nth i x l = Some l' /\ nth_error l' i = Some x /\
             (forall j, j <> i -> nth_error l' j = nth_error l j) /\ length l' = length l.
Proof.
  induction l as [|h l IH]; intros i y x H; destruct i; cbn in H; try discriminate.
  - inversion H; subst. eexists. cbn. split; [reflexivity|]. split; [reflexivity|]. split; [|reflexivity].
    intros j Hj. destruct j; [contradiction|reflexivity].
  - destruct (IH i y x H) as (l' & E & Hn & Ho & Hl). exists (h :: l'). cbn. rewrite E.
    split; [reflexivity|]. split; [exact Hn|]. split; [|cbn; rewrite Hl; reflexivity].
    intros j Hj. destruct j; [reflexivity|]. cbn. apply Ho. lia.
Qed.

(* writing a whole cell *)
Lemma wrp_top (st : dstate) h y x : nth_error (mem st) h = Some y ->
  exists st', wr_or_panic st (h, []) x = DOk st' /\ nth_error (mem st') h = Some x /\
              (forall j, j <> h -> nth_error (mem st') j = nth_error (mem st) j) /\
              length (mem st') = length (mem st).
Proof.
  intros H. destruct (upd_nth_spec (mem st) h y x H) as (m' & E & Hn & Ho & Hl).
  unfold wr_or_panic, st_wr, wr. cbn [fst snd]. rewrite H. cbn [wr_path]. rewrite E.
  eexists. split; [reflexivity|]. cbn [mem]. auto.
Qed.

(* writing one element of an array cell *)
Lemma wrp_elem (st : dstate) c a y b x : nth_error (mem st) c = Some (XArr (a ++ y :: b)) ->
  exists st', wr_or_panic st (c, [length a]) x = DOk st' /\ nth_error (mem st') c = Some (XArr (a ++ x :: b)) /\
              (forall j, j <> c -> nth_error (mem st') j = nth_error (mem st) j) /\
              length (mem st') = length (mem st).
Proof.
  intros H. destruct (upd_nth_spec (mem st) c _ (XArr (a ++ x :: b)) H) as (m' & E & Hn & Ho & Hl).
  unfold wr_or_panic, st_wr, wr. cbn [fst snd]. rewrite H. cbn [wr_path]. rewrite nth_error_mid, upd_nth_mid, E.
  eexists. split; [reflexivity|]. cbn [mem]. auto.
Qed.

Lemma wrp_mem_irrel (st st0 : dstate) pl x : mem st0 = mem st ->
  match wr_or_panic st0 pl x, wr_or_panic st pl x with
  | DOk a, DOk b => mem a = mem b
  | DPanic _, DPanic _ => True
  | _, _ => False
  end.
Proof. intros H. unfold wr_or_panic, st_wr. rewrite H. destruct (wr (mem st) pl x); cbn; auto. Qed.

Lemma grow_cap_ge fuel : forall cap expected, expected <= grow_cap fuel cap expected.
Proof.
  induction fuel as [|f IH]; intros cap expected; cbn [grow_cap]; [lia|].
  destruct (Nat.leb expected cap) eqn:E; [apply Nat.leb_le in E; exact E | apply IH].
Qed.

Lemma calc_new_cap_ge cap expected : expected <= calc_new_cap cap expected.
Proof. unfold calc_new_cap. destruct (Nat.eqb cap 0); [lia | apply grow_cap_ge]. Qed.

Lemma repeat_S_sub {A} (z : A) cap i : i < cap -> repeat z (cap - i) = z :: repeat z (cap - S i).
Proof. intros H. replace (cap - i) with (S (cap - S i)) by lia. reflexivity. Qed.

(* ---- what decoding one element does --------------------------------------------------------- *)

Definition elem_dec (rec : route -> gtype -> wire -> place -> dstate -> dres) (e : gtype) (w : wire) (x : xval) : Prop :=
  plain x = true /\
  forall pl st, exists st0, mem st0 = mem st /\ rec RElem e w pl st = wr_or_panic st0 pl x.

Lemma arm_rt_elem_dec orc opts te f e w v : arm_rt orc te e w v ->
  exists x, elem_dec (dec orc opts te (S f)) e w x /\ same x v = true.
Proof.
  intros (s & x & Hsc & Hs & Hr & Hp & Hsame). exists (post te s e x). split; [|exact Hsame]. split; [exact Hp|].
  intros pl st. exists (add_tok_ref opts st w). split; [apply mem_add_tok_ref|].
  destruct (scalar_leaf RElem e s Hsc Hs) as [Hl Hni].
  cbn [dec]. unfold dec_step. rewrite Hl. apply (dec_scalar_value orc opts te _ s e w pl st x Hni Hr Hp).
Qed.

(* ---- slices ---------------------------------------------------------------------------------- *)

(* header cell 0 = slice header (backing cell c, length n); backing cell = the elements decoded so far,
   then zero values up to the capacity *)
Definition sinv (m : list xval) (c n cap : nat) (done : list xval) (z : xval) : Prop :=
  nth_error m 0 = Some (XSliceH c n) /\ c <> 0 /\
  nth_error m c = Some (XArr (done ++ repeat z (cap - length done))) /\
  length done <= n /\ n <= cap.

Lemma slice_grow_full te e st c cap done :
  sinv (mem st) c (length done) cap done (zero_of te e) ->
  exists st1 c1 cap1, fst (slice_grow te e (0, []) (S (length done)) st) = DOk st1 /\
                      sinv (mem st1) c1 (S (length done)) cap1 done (zero_of te e).
Proof.
  intros (Hh & Hc & Hb & Hl & Hn). unfold slice_grow, st_rd, rd. cbn [fst snd]. rewrite Hh. cbn [rd_path]. rewrite Hb.
  rewrite app_length, repeat_length. replace (length done + (cap - length done)) with cap by lia.
  destruct (Nat.leb (S (length done)) cap) eqn:E.
  - apply Nat.leb_le in E. cbn [fst].
    destruct (wrp_top st 0 _ (XSliceH c (S (length done))) Hh) as (st1 & Ew & Hn1 & Ho & _).
    exists st1, c, cap. split; [exact Ew|]. split; [exact Hn1|]. split; [exact Hc|]. split; [rewrite (Ho c Hc); exact Hb|]. lia.
  - apply Nat.leb_gt in E. assert (cap = length done) by lia. subst cap.
    rewrite Nat.sub_diag. cbn [repeat]. rewrite app_nil_r, firstn_all.
    set (newcap := calc_new_cap (length done) (S (length done))).
    pose proof (calc_new_cap_ge (length done) (S (length done))) as Hge. fold newcap in Hge.
    unfold st_alloc. cbn [fst].
    set (st0 := {| mem := mem st ++ [XArr (done ++ repeat (zero_of te e) (newcap - length done))]; refs := refs st; clss := clss st |}).
    assert (Hh0 : nth_error (mem st0) 0 = Some (XSliceH c (length done))).
    { unfold st0. cbn [mem]. rewrite nth_error_app1; [exact Hh|]. apply nth_error_Some. rewrite Hh. discriminate. }
    destruct (wrp_top st0 0 _ (XSliceH (length (mem st)) (S (length done))) Hh0) as (st1 & Ew & Hn1 & Ho & _).
    exists st1, (length (mem st)), newcap. split; [exact Ew|].
    assert (Hne : length (mem st) <> 0).
    { intros E0. apply length_zero_iff_nil in E0. rewrite E0 in Hh. discriminate. }
    split; [exact Hn1|]. split; [exact Hne|]. split; [|lia].
    rewrite (Ho _ Hne). unfold st0. cbn [mem]. rewrite nth_error_app2 by lia. rewrite Nat.sub_diag. reflexivity.
Qed.

Lemma slice_elems_ok te rec e ws xs : Forall2 (elem_dec rec e) ws xs ->
  forall done n cap c st,
  sinv (mem st) c n cap done (zero_of te e) ->
  exists st' c' cap',
    slice_elems te rec e ws (0, []) (length done) n st = DOk st' /\
    sinv (mem st') c' (length (done ++ xs)) cap' (done ++ xs) (zero_of te e).
Proof.
  induction 1 as [|w x ws xs Hx Hall IH]; intros done n cap c st Hinv.
  - cbn [slice_elems]. unfold slice_set_len, rd_or, st_rd, rd. cbn [fst snd].
    destruct Hinv as (Hh & Hc & Hb & Hl & Hn). rewrite Hh. cbn [rd_path].
    destruct (wrp_top st 0 _ (XSliceH c (length done)) Hh) as (st1 & Ew & Hn1 & Ho & _).
    exists st1, c, cap. rewrite app_nil_r. split; [exact Ew|]. split; [exact Hn1|]. split; [exact Hc|].
    split; [rewrite (Ho c Hc); exact Hb|]. lia.
  - cbn [slice_elems].
    assert (Hg : exists st1 c1 cap1 n1,
              (if Nat.leb n (length done) then (fst (slice_grow te e (0, []) (S (length done)) st), S (length done)) else (DOk st, n))
              = (DOk st1, n1) /\ sinv (mem st1) c1 n1 cap1 done (zero_of te e) /\ length done < n1).
    { destruct (Nat.leb n (length done)) eqn:E.
      - apply Nat.leb_le in E. assert (n = length done) by (destruct Hinv as (_ & _ & _ & ? & _); lia). subst n.
        destruct (slice_grow_full te e st c cap done Hinv) as (st1 & c1 & cap1 & Eg & Hi).
        exists st1, c1, cap1, (S (length done)). rewrite Eg. split; [reflexivity|]. split; [exact Hi|lia].
      - apply Nat.leb_gt in E. exists st, c, cap, n. split; [reflexivity|]. split; [exact Hinv|exact E]. }
    destruct Hg as (st1 & c1 & cap1 & n1 & Eg & (Hh & Hc & Hb & Hl & Hn) & Hlt). rewrite Eg. cbn [bindd].
    unfold rd_or, st_rd, rd. cbn [fst snd]. rewrite Hh. cbn [rd_path].
    destruct Hx as [Hpx Hdx]. destruct (Hdx (c1, [length done]) st1) as (st0 & Hm0 & Ed). rewrite Ed.
    rewrite (repeat_S_sub _ cap1 (length done)) in Hb by lia.
    assert (Hb0 : nth_error (mem st0) c1 = Some (XArr (done ++ zero_of te e :: repeat (zero_of te e) (cap1 - S (length done)))))
      by (rewrite Hm0; exact Hb).
    destruct (wrp_elem st0 c1 done _ _ x Hb0) as (st2 & Ew & Hn2 & Ho & _). rewrite Ew. cbn [bindd].
    assert (Hinv2 : sinv (mem st2) c1 n1 cap1 (done ++ [x]) (zero_of te e)).
    { split; [rewrite (Ho 0 (not_eq_sym Hc)), Hm0; exact Hh|]. split; [exact Hc|].
      rewrite app_length. cbn [length]. replace (length done + 1) with (S (length done)) by lia.
      split; [rewrite <- app_assoc; exact Hn2 | lia]. }
    destruct (IH (done ++ [x]) n1 cap1 c1 st2 Hinv2) as (st' & c' & cap' & Es & Hi').
    rewrite app_length in Es. cbn [length] in Es. replace (length done + 1) with (S (length done)) in Es by lia.
    exists st', c', cap'. split; [exact Es|]. rewrite <- app_assoc in Hi'. exact Hi'.
Qed.

(* ---- the encoder side: in simple mode scalar values leave the state alone ---------------------- *)

Lemma enc_simple_state orc t v fuel st st' w :
  has_type orc t v = true -> enc true [] fuel st v = EOk st' w -> st' = st.
Proof.
  intros Ht He. destruct fuel as [|fuel]; [discriminate|]. rewrite enc_scalar_step in He.
  destruct t; destruct v; try discriminate; cbn [has_type] in Ht; cbn [enc_step enc_body register add_count] in He;
    try (inversion He; reflexivity).
  - destruct im_zero; [inversion He; reflexivity | discriminate].
  - destruct im_zero; [inversion He; reflexivity | discriminate].
  - unfold enc_string, lookup_str, set_str in He.
    destruct (Z.eqb (go_utf16Length s) 0); [inversion He; reflexivity|].
    destruct (Z.eqb (go_utf16Length s) 1); inversion He; reflexivity.
  - destruct num; inversion He; reflexivity.
  - destruct (enc_time y mo d h mi s ns utc); inversion He; reflexivity.
Qed.

Lemma enc_seq_inr_not_ok enc1 : forall vs st e, enc_seq enc1 st vs = inr e -> forall s w, e <> EOk s w.
Proof.
  induction vs as [|v vs IH]; intros st e H s w; cbn [enc_seq] in H; [discriminate|].
  destruct (enc1 st v) as [st1 w1| |] eqn:E1.
  - destruct (enc_seq enc1 st1 vs) as [[[st3 ws']|]|e'] eqn:E2; try discriminate. inversion H; subst. apply (IH st1 e E2).
  - inversion H; subst. discriminate.
  - inversion H; subst. discriminate.
Qed.

Lemma enc_seq_scalars orc te e fuel : forall vs st st2 ws,
  forallb (has_type orc e) vs = true ->
  enc_seq (enc true [] fuel) st vs = inl (Some (st2, ws)) ->
  Forall2 (arm_rt orc te e) ws vs.
Proof.
  induction vs as [|v vs IH]; intros st st2 ws Hall He; cbn [enc_seq] in He.
  - inversion He; subst. constructor.
  - cbn [forallb] in Hall. apply andb_prop in Hall. destruct Hall as [Hv Hall].
    destruct (enc true [] fuel st v) as [st1 w| |] eqn:E1; try discriminate.
    pose proof (enc_simple_state orc e v fuel st st1 w Hv E1) as Es. subst st1.
    destruct (enc_seq (enc true [] fuel) st vs) as [[[st3 ws']|]|] eqn:E2; try discriminate.
    inversion He; subst. constructor.
    + apply (roundtrip_scalar_arm orc te true e v fuel st st w); [intros s; reflexivity | exact Hv | exact E1].
    + eapply IH; eassumption.
Qed.

Lemma elems_of_arms orc opts te f e ws vs : Forall2 (arm_rt orc te e) ws vs ->
  exists xs, Forall2 (elem_dec (dec orc opts te (S f)) e) ws xs /\ Forall2 (fun x v => same x v = true) xs vs.
Proof.
  induction 1 as [|w v ws vs H _ IH]; [exists []; split; constructor|].
  destruct IH as (xs & Hd & Hs). destruct (arm_rt_elem_dec orc opts te f e w v H) as (x & Hx & Hsx).
  exists (x :: xs). split; constructor; assumption.
Qed.

Lemma map_unfold_plain m f rec e ws xs : Forall2 (elem_dec rec e) ws xs -> map (unfold m (S f) []) xs = xs.
Proof.
  induction 1 as [|w x ws xs [Hp _] _ IH]; [reflexivity|]. cbn [map]. rewrite IH, (unfold_plain m f [] x Hp). reflexivity.
Qed.

Lemma unfold_slice m f stack c len vs : nth_error m c = Some (XArr vs) ->
  unfold m (S f) stack (XSliceH c len) = XSlice (map (unfold m f stack) (firstn len vs)).
Proof. intros H. cbn [unfold]. rewrite H. reflexivity. Qed.

Lemma unfold_arr m f stack vs : unfold m (S f) stack (XArr vs) = XArr (map (unfold m f stack) vs).
Proof. reflexivity. Qed.

(* ---- slices, top level --------------------------------------------------------------------- *)

Definition same_seq (y : xval) (vs : list gval) : Prop :=
  (vs = [] /\ y = XNil) \/ exists ys, y = XSlice ys /\ Forall2 (fun a v => same a v = true) ys vs.

Definition elem_type (e : gtype) : bool :=
  is_scalar_type e && negb (gtype_eqb e (TInt KUint8)).

Lemma slice_leaf e : elem_type e = true -> leaf_of RTop (TSlice e) = LSlice e.
Proof. destruct e; try discriminate; try reflexivity. destruct k; try discriminate; reflexivity. Qed.

Theorem roundtrip_slice orc opts te e vs fuel st' w f :
  elem_type e = true ->
  forallb (has_type orc e) vs = true ->
  enc true [] fuel einit (GSlice vs) = EOk st' w ->
  exists y, dec_top orc opts te (S (S f)) (TSlice e) w = OOk y /\ same_seq y vs.
Proof.
  intros He Hall Henc. destruct fuel as [|fuel]; [discriminate|]. rewrite enc_scalar_step in Henc.
  cbn [enc_step enc_body register add_count] in Henc.
  destruct (enc_seq (enc true [] fuel) einit vs) as [[[st2 ws]|]|] eqn:Eseq; try discriminate; [|exfalso; apply (enc_seq_inr_not_ok _ _ _ _ Eseq _ _ Henc)].
  inversion Henc; subst st' w. clear Henc.
  pose proof (enc_seq_scalars orc te e fuel vs einit st2 ws Hall Eseq) as Harms.
  destruct (elems_of_arms orc opts te f e ws vs Harms) as (xs & Hdec & Hsame).
  unfold dec_top. change (zero_val te fuel_zero (TSlice e)) with XNil. unfold st_alloc, dinit. cbn [mem refs clss length app].
  change (dec orc opts te (S (S f))) with (dec_step orc opts te (dec orc opts te (S f))).
  unfold dec_step at 1. rewrite (slice_leaf e He).
  unfold dec_slice. change (sw_lookup (model_switch RtSlice) (tag_of (WList ws))) with (ACall FSliceList).
  cbv iota beta.
  destruct ws as [|w0 ws].
  - inversion Hdec; subst. inversion Hsame; subst. exists XNil. split; [|left; split; reflexivity].
    cbn [length Nat.min]. unfold slice_grow, st_rd, rd. cbn [fst snd mem nth_error rd_path Nat.eqb].
    cbn [slice_elems]. unfold slice_set_len, rd_or, st_rd, rd, add_ref.
    destruct (o_simple opts); cbn [fst snd mem st_addref nth_error rd_path unfold]; reflexivity.
  - cbn [length min_prealloc Nat.min].
    unfold slice_grow, st_rd, rd. cbn [fst snd mem nth_error rd_path Nat.eqb]. unfold calc_new_cap. cbn [Nat.eqb].
    set (n0 := S (Nat.min (length ws) 15)).
    unfold st_alloc. cbn [mem refs clss length app Nat.sub]. rewrite Nat.sub_0_r.
    set (st0 := {| mem := [XNil; XArr (repeat (zero_of te e) n0)]; refs := []; clss := [] |}).
    destruct (wrp_top st0 0 XNil (XSliceH 1 n0) eq_refl) as (st1 & Ew & Hn1 & Ho & _).
    change (@nil xval ++ repeat (zero_of te e) n0) with (repeat (zero_of te e) n0).
    fold st0. rewrite Ew.
    set (st1r := add_ref opts st1 _ _).
    assert (Hm : mem st1r = mem st1) by (unfold st1r, add_ref; destruct (o_simple opts); reflexivity).
    assert (Hinv : sinv (mem st1r) 1 n0 n0 [] (zero_of te e)).
    { rewrite Hm. split; [exact Hn1|]. split; [discriminate|]. split; [|cbn [length]; lia].
      rewrite (Ho 1 ltac:(discriminate)). cbn [length app]. rewrite Nat.sub_0_r. reflexivity. }
    destruct (slice_elems_ok te _ e (w0 :: ws) xs Hdec [] n0 n0 1 st1r Hinv) as (st' & c' & cap' & Es & (Hh & Hc & Hb & _ & _)).
    cbn [length app] in Es, Hh, Hb. rewrite Es. change (match mem st' with [] => None | x :: _ => Some x end) with (nth_error (mem st') 0). rewrite Hh.
    exists (XSlice xs). split; [|right; exists xs; split; [reflexivity|exact Hsame]].
    rewrite (unfold_slice _ _ _ _ _ _ Hb). rewrite firstn_app, firstn_all, Nat.sub_diag. cbn [firstn]. rewrite app_nil_r.
    rewrite (map_unfold_plain _ f _ e _ xs Hdec). reflexivity.
Qed.

(* ---- arrays ---------------------------------------------------------------------------------- *)

Lemma dec_elems_ok rec e ws xs : Forall2 (elem_dec rec e) ws xs ->
  forall done rest st,
  nth_error (mem st) 0 = Some (XArr (done ++ rest)) -> length ws <= length rest ->
  exists st', dec_elems rec e ws (sub (0, [])) (length done) st = DOk st' /\
              nth_error (mem st') 0 = Some (XArr (done ++ xs ++ skipn (length ws) rest)).
Proof.
  induction 1 as [|w x ws xs Hx Hall IH]; intros done rest st Hc Hlen.
  - exists st. split; [reflexivity|]. exact Hc.
  - destruct rest as [|y rest]; [cbn in Hlen; lia|]. cbn [length] in Hlen.
    cbn [dec_elems]. change (sub (0, []) (length done)) with (0, [length done]).
    destruct Hx as [Hpx Hdx]. destruct (Hdx (0, [length done]) st) as (st0 & Hm0 & Ed). rewrite Ed.
    assert (Hc0 : nth_error (mem st0) 0 = Some (XArr (done ++ y :: rest))) by (rewrite Hm0; exact Hc).
    destruct (wrp_elem st0 0 done y rest x Hc0) as (st2 & Ew & Hn2 & _ & _). rewrite Ew. cbn [bindd].
    assert (Hc2 : nth_error (mem st2) 0 = Some (XArr ((done ++ [x]) ++ rest))) by (rewrite <- app_assoc; exact Hn2).
    destruct (IH (done ++ [x]) rest st2 Hc2 ltac:(lia)) as (st' & Es & Hf).
    rewrite app_length in Es. cbn [length] in Es. replace (length done + 1) with (S (length done)) in Es by lia.
    exists st'. split; [exact Es|]. rewrite <- app_assoc in Hf. exact Hf.
Qed.

Lemma array_leaf n e : elem_type e = true -> leaf_of RTop (TArray n e) = LArray n e.
Proof. destruct e; try discriminate; try reflexivity. destruct k; try discriminate; reflexivity. Qed.

Lemma Forall2_length' {A B} (R : A -> B -> Prop) l1 l2 : Forall2 R l1 l2 -> length l1 = length l2.
Proof. induction 1; cbn; auto. Qed.

Theorem roundtrip_array orc opts te e vs fuel st' w f :
  elem_type e = true ->
  forallb (has_type orc e) vs = true ->
  enc true [] fuel einit (GSlice vs) = EOk st' w ->
  exists ys, dec_top orc opts te (S (S f)) (TArray (length vs) e) w = OOk (XArr ys) /\
             Forall2 (fun a v => same a v = true) ys vs.
Proof.
  intros He Hall Henc. destruct fuel as [|fuel]; [discriminate|]. rewrite enc_scalar_step in Henc.
  cbn [enc_step enc_body register add_count] in Henc.
  destruct (enc_seq (enc true [] fuel) einit vs) as [[[st2 ws]|]|] eqn:Eseq; try discriminate;
    [|exfalso; apply (enc_seq_inr_not_ok _ _ _ _ Eseq _ _ Henc)].
  inversion Henc; subst st' w. clear Henc.
  pose proof (enc_seq_scalars orc te e fuel vs einit st2 ws Hall Eseq) as Harms.
  destruct (elems_of_arms orc opts te f e ws vs Harms) as (xs & Hdec & Hsame).
  pose proof (Forall2_length' _ _ _ Harms) as Hlw. pose proof (Forall2_length' _ _ _ Hsame) as Hlx.
  exists xs. split; [|exact Hsame]. rewrite <- Hlw.
  unfold dec_top.
  change (zero_val te fuel_zero (TArray (length ws) e)) with (XArr (repeat (zero_val te 63 e) (length ws))).
  unfold st_alloc, dinit. cbn [mem refs clss length app].
  change (dec orc opts te (S (S f))) with (dec_step orc opts te (dec orc opts te (S f))).
  unfold dec_step at 1. rewrite (array_leaf _ e He).
  unfold dec_array. change (sw_lookup (model_switch RtArray) (tag_of (WList ws))) with (ACall FArrayList).
  cbv iota beta. unfold dec_array_list. rewrite Nat.min_id, firstn_all, Nat.ltb_irrefl.
  set (st0 := add_ref opts _ _ _).
  assert (Hc : nth_error (mem st0) 0 = Some (XArr ([] ++ repeat (zero_val te 63 e) (length ws))))
    by (unfold st0, add_ref; destruct (o_simple opts); reflexivity).
  destruct (dec_elems_ok _ e ws xs Hdec [] _ st0 Hc ltac:(rewrite repeat_length; lia)) as (st' & Es & Hf).
  cbn [length] in Es. rewrite Es. cbn [bindd].
  unfold st_rd, rd. cbn [fst snd]. rewrite Hf. cbn [rd_path app].
  rewrite skipn_all2 by (rewrite repeat_length; lia). rewrite app_nil_r, unfold_arr.
  rewrite (map_unfold_plain _ f _ e _ xs Hdec). reflexivity.
Qed.
