(* Decoder half of C01 on sequences: a slice or an array of scalar values, of any length, written by the
   encoder model in simple mode, is decoded by the decoder model into the same elements.  The proof is a frame
   argument over the decoder model's heap: the header cell, the backing-array cell (reallocated by
   UnsafeGrow beyond the 16 preallocated elements), and the cells left behind by earlier reallocations. *)
From Coq Require Import List Arith NArith ZArith Strings.Byte Bool Lia.
From HV Require Import Lib.Dec Lib.Utf8 Model.Wire Model.WireSem Model.Enc Model.DecAct Model.DecVal Model.DecSpec
                       Proofs.WireProofs Proofs.EncProofs Proofs.DecValProofs Proofs.RoundTripProofs.
Import ListNotations.
Open Scope nat_scope.

(* ---- lists and memory --------------------------------------------------------------------- *)

Lemma upd_nth_mid {A} (a : list A) y b x : upd_nth (length a) x (a ++ y :: b) = Some (a ++ x :: b).
Proof. induction a as [|h a IH]; cbn; [reflexivity|]. rewrite IH. reflexivity. Qed.

Lemma nth_error_mid {A} (a : list A) y b : nth_error (a ++ y :: b) (length a) = Some y.
Proof. induction a; cbn; auto. Qed.

Lemma upd_nth_spec {A} (l : list A) : forall i y x, nth_error l i = Some y ->
  exists l', upd_nth i x l = Some l' /\ nth_error l' i = Some x /\
             (forall j, j <> i -> nth_error l' j = nth_error l j) /\ length l' = length l.
Proof.
  induction l as [|h l IH]; intros i y x H; destruct i; cbn in H; try discriminate.
  - inversion H; subst. eexists. cbn. split; [reflexivity|]. split; [reflexivity|]. split; [|reflexivity].
    intros j Hj. destruct j; [contradiction|reflexivity].
  - destruct (IH i y x H) as (l' & E & Hn & Ho & Hl). exists (h :: l'). cbn. rewrite E.
    split; [reflexivity|]. split; [exact Hn|]. split; [|cbn; rewrite Hl; reflexivity].
    intros j Hj. destruct j; [reflexivity|]. cbn. apply Ho. lia.
Qed.

(* writing a whole cell *)
Lemma wrp_top (st : dstate) h y x : nth_error (mem st) h = Some y ->
  exists st', wr_or_panic st (h, []) x = DOk st' /\ nth_error (mem st') h = Some x /\
              (forall j, j <> h -> nth_error (mem st') j = nth_error (mem st) j) /\
              length (mem st') = length (mem st).
Proof.
  intros H. destruct (upd_nth_spec (mem st) h y x H) as (m' & E & Hn & Ho & Hl).
  unfold wr_or_panic, st_wr, wr. cbn [fst snd]. rewrite H. cbn [wr_path]. rewrite E.
  eexists. split; [reflexivity|]. cbn [mem]. auto.
Qed.

(* writing one element of an array cell *)
Lemma wrp_elem (st : dstate) c a y b x : nth_error (mem st) c = Some (XArr (a ++ y :: b)) ->
  exists st', wr_or_panic st (c, [length a]) x = DOk st' /\ nth_error (mem st') c = Some (XArr (a ++ x :: b)) /\
              (forall j, j <> c -> nth_error (mem st') j = nth_error (mem st) j) /\
              length (mem st') = length (mem st).
Proof.
  intros H. destruct (upd_nth_spec (mem st) c _ (XArr (a ++ x :: b)) H) as (m' & E & Hn & Ho & Hl).
  unfold wr_or_panic, st_wr, wr. cbn [fst snd]. rewrite H. cbn [wr_path]. rewrite nth_error_mid, upd_nth_mid, E.
  eexists. split; [reflexivity|]. cbn [mem]. auto.
Qed.

Lemma wrp_mem_irrel (st st0 : dstate) pl x : mem st0 = mem st ->
  match wr_or_panic st0 pl x, wr_or_panic st pl x with
  | DOk a, DOk b => mem a = mem b
  | DPanic _, DPanic _ => True
  | _, _ => False
  end.
Proof. intros H. unfold wr_or_panic, st_wr. rewrite H. destruct (wr (mem st) pl x); cbn; auto. Qed.

Lemma grow_cap_ge fuel : forall cap expected, expected <= grow_cap fuel cap expected.
Proof.
  induction fuel as [|f IH]; intros cap expected; cbn [grow_cap]; [lia|].
  destruct (Nat.leb expected cap) eqn:E; [apply Nat.leb_le in E; exact E | apply IH].
Qed.

Lemma calc_new_cap_ge cap expected : expected <= calc_new_cap cap expected.
Proof. unfold calc_new_cap. destruct (Nat.eqb cap 0); [lia | apply grow_cap_ge]. Qed.

Lemma repeat_S_sub {A} (z : A) cap i : i < cap -> repeat z (cap - i) = z :: repeat z (cap - S i).
Proof. intros H. replace (cap - i) with (S (cap - S i)) by lia. reflexivity. Qed.

(* ---- what decoding one element does --------------------------------------------------------- *)

Definition elem_dec (rec : route -> gtype -> wire -> place -> dstate -> dres) (e : gtype) (w : wire) (x : xval) : Prop :=
  plain x = true /\
  forall pl st, exists st0, mem st0 = mem st /\ rec RElem e w pl st = wr_or_panic st0 pl x.

Lemma arm_rt_elem_dec orc opts te f e w v : arm_rt orc te e w v ->
  exists x, elem_dec (dec orc opts te (S f)) e w x /\ same x v = true.
Proof.
  intros (s & x & Hsc & Hs & Hr & Hp & Hsame). exists (post te s e x). split; [|exact Hsame]. split; [exact Hp|].
  intros pl st. exists (add_tok_ref opts st w). split; [apply mem_add_tok_ref|].
  destruct (scalar_leaf RElem e s Hsc Hs) as [Hl Hni].
  cbn [dec]. unfold dec_step. rewrite Hl. apply (dec_scalar_value orc opts te _ s e w pl st x Hni Hr Hp).
Qed.

(* ---- slices ---------------------------------------------------------------------------------- *)

(* header cell 0 = slice header (backing cell c, length n); backing cell = the elements decoded so far,
   then zero values up to the capacity *)
Definition sinv (m : list xval) (c n cap : nat) (done : list xval) (z : xval) : Prop :=
  nth_error m 0 = Some (XSliceH c n) /\ c <> 0 /\
  nth_error m c = Some (XArr (done ++ repeat z (cap - length done))) /\
  length done <= n /\ n <= cap.

Lemma slice_grow_full te e st c cap done :
  sinv (mem st) c (length done) cap done (zero_of te e) ->
  exists st1 c1 cap1, fst (slice_grow te e (0, []) (S (length done)) st) = DOk st1 /\
                      sinv (mem st1) c1 (S (length done)) cap1 done (zero_of te e).
Proof.
  intros (Hh & Hc & Hb & Hl & Hn). unfold slice_grow, st_rd, rd. cbn [fst snd]. rewrite Hh. cbn [rd_path]. rewrite Hb.
  rewrite app_length, repeat_length. replace (length done + (cap - length done)) with cap by lia.
  destruct (Nat.leb (S (length done)) cap) eqn:E.
  - apply Nat.leb_le in E. cbn [fst].
    destruct (wrp_top st 0 _ (XSliceH c (S (length done))) Hh) as (st1 & Ew & Hn1 & Ho & _).
    exists st1, c, cap. split; [exact Ew|]. split; [exact Hn1|]. split; [exact Hc|]. split; [rewrite (Ho c Hc); exact Hb|]. lia.
  - apply Nat.leb_gt in E. assert (cap = length done) by lia. subst cap.
    rewrite Nat.sub_diag. cbn [repeat]. rewrite app_nil_r, firstn_all.
    set (newcap := calc_new_cap (length done) (S (length done))).
    pose proof (calc_new_cap_ge (length done) (S (length done))) as Hge. fold newcap in Hge.
    unfold st_alloc. cbn [fst].
    set (st0 := {| mem := mem st ++ [XArr (done ++ repeat (zero_of te e) (newcap - length done))]; refs := refs st; clss := clss st |}).
    assert (Hh0 : nth_error (mem st0) 0 = Some (XSliceH c (length done))).
    { unfold st0. cbn [mem]. rewrite nth_error_app1; [exact Hh|]. apply nth_error_Some. rewrite Hh. discriminate. }
    destruct (wrp_top st0 0 _ (XSliceH (length (mem st)) (S (length done))) Hh0) as (st1 & Ew & Hn1 & Ho & _).
    exists st1, (length (mem st)), newcap. split; [exact Ew|].
    assert (Hne : length (mem st) <> 0).
    { intros E0. apply length_zero_iff_nil in E0. rewrite E0 in Hh. discriminate. }
    split; [exact Hn1|]. split; [exact Hne|]. split; [|lia].
    rewrite (Ho _ Hne). unfold st0. cbn [mem]. rewrite nth_error_app2 by lia. rewrite Nat.sub_diag. reflexivity.
Qed.

Lemma slice_elems_ok te rec e ws xs : Forall2 (elem_dec rec e) ws xs ->
  forall done n cap c st,
  sinv (mem st) c n cap done (zero_of te e) ->
  exists st' c' cap',
    slice_elems te rec e ws (0, []) (length done) n st = DOk st' /\
    sinv (mem st') c' (length (done ++ xs)) cap' (done ++ xs) (zero_of te e).
Proof.
  induction 1 as [|w x ws xs Hx Hall IH]; intros done n cap c st Hinv.
  - cbn [slice_elems]. unfold slice_set_len, rd_or, st_rd, rd. cbn [fst snd].
    destruct Hinv as (Hh & Hc & Hb & Hl & Hn). rewrite Hh. cbn [rd_path].
    destruct (wrp_top st 0 _ (XSliceH c (length done)) Hh) as (st1 & Ew & Hn1 & Ho & _).
    exists st1, c, cap. rewrite app_nil_r. split; [exact Ew|]. split; [exact Hn1|]. split; [exact Hc|].
    split; [rewrite (Ho c Hc); exact Hb|]. lia.
  - cbn [slice_elems].
    assert (Hg : exists st1 c1 cap1 n1,
              (if Nat.leb n (length done) then (fst (slice_grow te e (0, []) (S (length done)) st), S (length done)) else (DOk st, n))
              = (DOk st1, n1) /\ sinv (mem st1) c1 n1 cap1 done (zero_of te e) /\ length done < n1).
    { destruct (Nat.leb n (length done)) eqn:E.
      - apply Nat.leb_le in E. assert (n = length done) by (destruct Hinv as (_ & _ & _ & ? & _); lia). subst n.
        destruct (slice_grow_full te e st c cap done Hinv) as (st1 & c1 & cap1 & Eg & Hi).
        exists st1, c1, cap1, (S (length done)). rewrite Eg. split; [reflexivity|]. split; [exact Hi|lia].
      - apply Nat.leb_gt in E. exists st, c, cap, n. split; [reflexivity|]. split; [exact Hinv|exact E]. }
    destruct Hg as (st1 & c1 & cap1 & n1 & Eg & (Hh & Hc & Hb & Hl & Hn) & Hlt). rewrite Eg. cbn [bindd].
    unfold rd_or, st_rd, rd. cbn [fst snd]. rewrite Hh. cbn [rd_path].
    destruct Hx as [Hpx Hdx]. destruct (Hdx (c1, [length done]) st1) as (st0 & Hm0 & Ed). rewrite Ed.
    rewrite (repeat_S_sub _ cap1 (length done)) in Hb by lia.
    assert (Hb0 : nth_error (mem st0) c1 = Some (XArr (done ++ zero_of te e :: repeat (zero_of te e) (cap1 - S (length done)))))
      by (rewrite Hm0; exact Hb).
    destruct (wrp_elem st0 c1 done _ _ x Hb0) as (st2 & Ew & Hn2 & Ho & _). rewrite Ew. cbn [bindd].
    assert (Hinv2 : sinv (mem st2) c1 n1 cap1 (done ++ [x]) (zero_of te e)).
    { split; [rewrite (Ho 0 (not_eq_sym Hc)), Hm0; exact Hh|]. split; [exact Hc|].
      rewrite app_length. cbn [length]. replace (length done + 1) with (S (length done)) by lia.
      split; [rewrite <- app_assoc; exact Hn2 | lia]. }
    destruct (IH (done ++ [x]) n1 cap1 c1 st2 Hinv2) as (st' & c' & cap' & Es & Hi').
    rewrite app_length in Es. cbn [length] in Es. replace (length done + 1) with (S (length done)) in Es by lia.
    exists st', c', cap'. split; [exact Es|]. rewrite <- app_assoc in Hi'. exact Hi'.
Qed.

(* ---- the encoder side: in simple mode scalar values leave the state alone ---------------------- *)

Lemma enc_simple_state orc t v fuel st st' w :
  has_type orc t v = true -> enc true [] fuel st v = EOk st' w -> st' = st.
Proof.
  intros Ht He. destruct fuel as [|fuel]; [discriminate|]. rewrite enc_scalar_step in He.
  destruct t; destruct v; try discriminate; cbn [has_type] in Ht; cbn [enc_step enc_body register add_count] in He;
    try (inversion He; reflexivity).
  - destruct im_zero; [inversion He; reflexivity | discriminate].
  - destruct im_zero; [inversion He; reflexivity | discriminate].
  - unfold enc_string, lookup_str, set_str in He.
    destruct (Z.eqb (go_utf16Length s) 0); [inversion He; reflexivity|].
    destruct (Z.eqb (go_utf16Length s) 1); inversion He; reflexivity.
  - destruct num; inversion He; reflexivity.
  - destruct (enc_time y mo d h mi s ns utc); inversion He; reflexivity.
Qed.

Lemma enc_seq_inr_not_ok enc1 : forall vs st e, enc_seq enc1 st vs = inr e -> forall s w, e <> EOk s w.
Proof.
  induction vs as [|v vs IH]; intros st e H s w; cbn [enc_seq] in H; [discriminate|].
  destruct (enc1 st v) as [st1 w1| |] eqn:E1.
  - destruct (enc_seq enc1 st1 vs) as [[[st3 ws']|]|e'] eqn:E2; try discriminate. inversion H; subst. apply (IH st1 e E2).
  - inversion H; subst. discriminate.
  - inversion H; subst. discriminate.
Qed.

Lemma enc_seq_scalars orc te e fuel : forall vs st st2 ws,
  forallb (has_type orc e) vs = true ->
  enc_seq (enc true [] fuel) st vs = inl (Some (st2, ws)) ->
  Forall2 (arm_rt orc te e) ws vs.
Proof.
  induction vs as [|v vs IH]; intros st st2 ws Hall He; cbn [enc_seq] in He.
  - inversion He; subst. constructor.
  - cbn [forallb] in Hall. apply andb_prop in Hall. destruct Hall as [Hv Hall].
    destruct (enc true [] fuel st v) as [st1 w| |] eqn:E1; try discriminate.
    pose proof (enc_simple_state orc e v fuel st st1 w Hv E1) as Es. subst st1.
    destruct (enc_seq (enc true [] fuel) st vs) as [[[st3 ws']|]|] eqn:E2; try discriminate.
    inversion He; subst. constructor.
    + apply (roundtrip_scalar_arm orc te true e v fuel st st w); [intros s; reflexivity | exact Hv | exact E1].
    + eapply IH; eassumption.
Qed.

Lemma elems_of_arms orc opts te f e ws vs : Forall2 (arm_rt orc te e) ws vs ->
  exists xs, Forall2 (elem_dec (dec orc opts te (S f)) e) ws xs /\ Forall2 (fun x v => same x v = true) xs vs.
Proof.
  induction 1 as [|w v ws vs H _ IH]; [exists []; split; constructor|].
  destruct IH as (xs & Hd & Hs). destruct (arm_rt_elem_dec orc opts te f e w v H) as (x & Hx & Hsx).
  exists (x :: xs). split; constructor; assumption.
Qed.

Lemma map_unfold_plain m f rec e ws xs : Forall2 (elem_dec rec e) ws xs -> map (unfold m (S f) []) xs = xs.
Proof.
  induction 1 as [|w x ws xs [Hp _] _ IH]; [reflexivity|]. cbn [map]. rewrite IH, (unfold_plain m f [] x Hp). reflexivity.
Qed.

Lemma unfold_slice m f stack c len vs : nth_error m c = Some (XArr vs) ->
  unfold m (S f) stack (XSliceH c len) = XSlice (map (unfold m f stack) (firstn len vs)).
Proof. intros H. cbn [unfold]. rewrite H. reflexivity. Qed.

Lemma unfold_arr m f stack vs : unfold m (S f) stack (XArr vs) = XArr (map (unfold m f stack) vs).
Proof. reflexivity. Qed.

Lemma unfold_arr_struct m f stack n vs : unfold m (S f) stack (XStruct n vs) = XStruct n (map (unfold m f stack) vs).
Proof. reflexivity. Qed.

(* ---- slices, top level --------------------------------------------------------------------- *)

Definition same_seq (y : xval) (vs : list gval) : Prop :=
  (vs = [] /\ y = XNil) \/ exists ys, y = XSlice ys /\ Forall2 (fun a v => same a v = true) ys vs.

Definition elem_type (e : gtype) : bool :=
  is_scalar_type e && negb (gtype_eqb e (TInt KUint8)).

Lemma slice_leaf e : elem_type e = true -> leaf_of RTop (TSlice e) = LSlice e.
Proof. destruct e; try discriminate; try reflexivity. destruct k; try discriminate; reflexivity. Qed.

Theorem roundtrip_slice orc opts te e vs fuel st' w f :
  elem_type e = true ->
  forallb (has_type orc e) vs = true ->
  enc true [] fuel einit (GSlice vs) = EOk st' w ->
  exists y, dec_top orc opts te (S (S f)) (TSlice e) w = OOk y /\ same_seq y vs.
Proof.
  intros He Hall Henc. destruct fuel as [|fuel]; [discriminate|]. rewrite enc_scalar_step in Henc.
  cbn [enc_step enc_body register add_count] in Henc.
  destruct (enc_seq (enc true [] fuel) einit vs) as [[[st2 ws]|]|] eqn:Eseq; try discriminate; [|exfalso; apply (enc_seq_inr_not_ok _ _ _ _ Eseq _ _ Henc)].
  inversion Henc; subst st' w. clear Henc.
  pose proof (enc_seq_scalars orc te e fuel vs einit st2 ws Hall Eseq) as Harms.
  destruct (elems_of_arms orc opts te f e ws vs Harms) as (xs & Hdec & Hsame).
  unfold dec_top. change (zero_val te fuel_zero (TSlice e)) with XNil. unfold st_alloc, dinit. cbn [mem refs clss length app].
  change (dec orc opts te (S (S f))) with (dec_step orc opts te (dec orc opts te (S f))).
  unfold dec_step at 1. rewrite (slice_leaf e He).
  unfold dec_slice. change (sw_lookup (model_switch RtSlice) (tag_of (WList ws))) with (ACall FSliceList).
  cbv iota beta.
  destruct ws as [|w0 ws].
  - inversion Hdec; subst. inversion Hsame; subst. exists XNil. split; [|left; split; reflexivity].
    cbn [length Nat.min]. unfold slice_grow, st_rd, rd. cbn [fst snd mem nth_error rd_path Nat.eqb].
    cbn [slice_elems]. unfold slice_set_len, rd_or, st_rd, rd, add_ref.
    destruct (o_simple opts); cbn [fst snd mem st_addref nth_error rd_path unfold]; reflexivity.
  - cbn [length min_prealloc Nat.min].
    unfold slice_grow, st_rd, rd. cbn [fst snd mem nth_error rd_path Nat.eqb]. unfold calc_new_cap. cbn [Nat.eqb].
    set (n0 := S (Nat.min (length ws) 15)).
    unfold st_alloc. cbn [mem refs clss length app Nat.sub]. rewrite Nat.sub_0_r.
    set (st0 := {| mem := [XNil; XArr (repeat (zero_of te e) n0)]; refs := []; clss := [] |}).
    destruct (wrp_top st0 0 XNil (XSliceH 1 n0) eq_refl) as (st1 & Ew & Hn1 & Ho & _).
    change (@nil xval ++ repeat (zero_of te e) n0) with (repeat (zero_of te e) n0).
    fold st0. rewrite Ew.
    set (st1r := add_ref opts st1 _ _).
    assert (Hm : mem st1r = mem st1) by (unfold st1r, add_ref; destruct (o_simple opts); reflexivity).
    assert (Hinv : sinv (mem st1r) 1 n0 n0 [] (zero_of te e)).
    { rewrite Hm. split; [exact Hn1|]. split; [discriminate|]. split; [|cbn [length]; lia].
      rewrite (Ho 1 ltac:(discriminate)). cbn [length app]. rewrite Nat.sub_0_r. reflexivity. }
    destruct (slice_elems_ok te _ e (w0 :: ws) xs Hdec [] n0 n0 1 st1r Hinv) as (st' & c' & cap' & Es & (Hh & Hc & Hb & _ & _)).
    cbn [length app] in Es, Hh, Hb. rewrite Es. change (match mem st' with [] => None | x :: _ => Some x end) with (nth_error (mem st') 0). rewrite Hh.
    exists (XSlice xs). split; [|right; exists xs; split; [reflexivity|exact Hsame]].
    rewrite (unfold_slice _ _ _ _ _ _ Hb). rewrite firstn_app, firstn_all, Nat.sub_diag. cbn [firstn]. rewrite app_nil_r.
    rewrite (map_unfold_plain _ f _ e _ xs Hdec). reflexivity.
Qed.

(* ---- arrays ---------------------------------------------------------------------------------- *)

Lemma dec_elems_ok rec e ws xs : Forall2 (elem_dec rec e) ws xs ->
  forall done rest st,
  nth_error (mem st) 0 = Some (XArr (done ++ rest)) -> length ws <= length rest ->
  exists st', dec_elems rec e ws (sub (0, [])) (length done) st = DOk st' /\
              nth_error (mem st') 0 = Some (XArr (done ++ xs ++ skipn (length ws) rest)).
Proof.
  induction 1 as [|w x ws xs Hx Hall IH]; intros done rest st Hc Hlen.
  - exists st. split; [reflexivity|]. exact Hc.
  - destruct rest as [|y rest]; [cbn in Hlen; lia|]. cbn [length] in Hlen.
    cbn [dec_elems]. change (sub (0, []) (length done)) with (0, [length done]).
    destruct Hx as [Hpx Hdx]. destruct (Hdx (0, [length done]) st) as (st0 & Hm0 & Ed). rewrite Ed.
    assert (Hc0 : nth_error (mem st0) 0 = Some (XArr (done ++ y :: rest))) by (rewrite Hm0; exact Hc).
    destruct (wrp_elem st0 0 done y rest x Hc0) as (st2 & Ew & Hn2 & _ & _). rewrite Ew. cbn [bindd].
    assert (Hc2 : nth_error (mem st2) 0 = Some (XArr ((done ++ [x]) ++ rest))) by (rewrite <- app_assoc; exact Hn2).
    destruct (IH (done ++ [x]) rest st2 Hc2 ltac:(lia)) as (st' & Es & Hf).
    rewrite app_length in Es. cbn [length] in Es. replace (length done + 1) with (S (length done)) in Es by lia.
    exists st'. split; [exact Es|]. rewrite <- app_assoc in Hf. exact Hf.
Qed.

Lemma array_leaf n e : elem_type e = true -> leaf_of RTop (TArray n e) = LArray n e.
Proof. destruct e; try discriminate; try reflexivity. destruct k; try discriminate; reflexivity. Qed.

Lemma Forall2_length' {A B} (R : A -> B -> Prop) l1 l2 : Forall2 R l1 l2 -> length l1 = length l2.
Proof. induction 1; cbn; auto. Qed.

Lemma zero_val_array te f n e : zero_val te (S f) (TArray n e) = XArr (repeat (zero_val te f e) n).
Proof. reflexivity. Qed.

Theorem roundtrip_array orc opts te e vs fuel st' w f :
  elem_type e = true ->
  forallb (has_type orc e) vs = true ->
  enc true [] fuel einit (GSlice vs) = EOk st' w ->
  exists ys, dec_top orc opts te (S (S f)) (TArray (length vs) e) w = OOk (XArr ys) /\
             Forall2 (fun a v => same a v = true) ys vs.
Proof.
  intros He Hall Henc. destruct fuel as [|fuel]; [discriminate|]. rewrite enc_scalar_step in Henc.
  cbn [enc_step enc_body register add_count] in Henc.
  destruct (enc_seq (enc true [] fuel) einit vs) as [[[st2 ws]|]|] eqn:Eseq; try discriminate;
    [|exfalso; apply (enc_seq_inr_not_ok _ _ _ _ Eseq _ _ Henc)].
  inversion Henc; subst st' w. clear Henc.
  pose proof (enc_seq_scalars orc te e fuel vs einit st2 ws Hall Eseq) as Harms.
  destruct (elems_of_arms orc opts te f e ws vs Harms) as (xs & Hdec & Hsame).
  pose proof (Forall2_length' _ _ _ Harms) as Hlw. pose proof (Forall2_length' _ _ _ Hsame) as Hlx.
  exists xs. split; [|exact Hsame]. rewrite <- Hlw.
  unfold dec_top.
  unfold fuel_zero. rewrite zero_val_array. set (z := zero_val te 63 e).
  unfold st_alloc, dinit. cbn [mem refs clss length app].
  change (dec orc opts te (S (S f))) with (dec_step orc opts te (dec orc opts te (S f))).
  unfold dec_step at 1. rewrite (array_leaf _ e He).
  unfold dec_array. change (sw_lookup (model_switch RtArray) (tag_of (WList ws))) with (ACall FArrayList).
  cbv iota beta. unfold dec_array_list. rewrite Nat.min_id, firstn_all, Nat.ltb_irrefl.
  set (st0 := add_ref opts _ _ _).
  assert (Hc : nth_error (mem st0) 0 = Some (XArr ([] ++ repeat z (length ws))))
    by (unfold st0, add_ref; destruct (o_simple opts); reflexivity).
  destruct (dec_elems_ok _ e ws xs Hdec [] _ st0 Hc ltac:(rewrite repeat_length; lia)) as (st' & Es & Hf).
  cbn [length] in Es. rewrite Es. cbn [bindd].
  unfold st_rd, rd. cbn [fst snd]. rewrite Hf. cbn [rd_path app].
  rewrite skipn_all2 by (rewrite repeat_length; lia). rewrite app_nil_r, unfold_arr.
  rewrite (map_unfold_plain _ f _ e _ xs Hdec). reflexivity.
Qed.

(* ---- maps ------------------------------------------------------------------------------------ *)

Definition flat_pairs {A} (ps : list (A * A)) : list A := flat_map (fun p => [fst p; snd p]) ps.

(* key types of Go maps among the scalar types (comparable, and hashable for the decoder) *)
Definition key_type (t : gtype) : bool :=
  match t with TBool | TInt _ | TF32 | TF64 | TC64 | TC128 | TString | TTime | TUuid => true | _ => false end.

Definition kv_fold (acc : list (xval * xval)) (xps : list (xval * xval)) : list (xval * xval) :=
  fold_left (fun a p => kv_set a (fst p) (snd p)) xps acc.

Definition pair_typed (orc : bytes -> bytes -> option bytes) (k v : gtype) (p : gval * gval) : bool :=
  has_type orc k (fst p) && has_type orc v (snd p).

Lemma enc_seq_pairs orc te k v fuel : forall ps st st2 ws,
  forallb (pair_typed orc k v) ps = true ->
  enc_seq (enc true [] fuel) st (flat_pairs ps) = inl (Some (st2, ws)) ->
  exists wps, ws = flat_pairs wps /\
              Forall2 (fun wp p => arm_rt orc te k (fst wp) (fst p) /\ arm_rt orc te v (snd wp) (snd p)) wps ps.
Proof.
  induction ps as [|[a b] ps IH]; intros st st2 ws Hall He.
  - cbn in He. inversion He; subst. exists []. split; [reflexivity|constructor].
  - cbn [forallb] in Hall. apply andb_prop in Hall. destruct Hall as [Hp Hall].
    unfold pair_typed in Hp. cbn [fst snd] in Hp. apply andb_prop in Hp. destruct Hp as [Ha Hb].
    change (flat_pairs ((a, b) :: ps)) with (a :: b :: flat_pairs ps) in He. cbn [enc_seq] in He.
    destruct (enc true [] fuel st a) as [st1 wa| |] eqn:E1; try discriminate.
    pose proof (enc_simple_state orc k a fuel st st1 wa Ha E1) as Es. subst st1.
    destruct (enc true [] fuel st b) as [st1 wb| |] eqn:E2; try discriminate.
    pose proof (enc_simple_state orc v b fuel st st1 wb Hb E2) as Es. subst st1.
    destruct (enc_seq (enc true [] fuel) st (flat_pairs ps)) as [[[st3 ws']|]|] eqn:E3; try discriminate.
    inversion He; subst. destruct (IH st st2 ws' Hall E3) as (wps & Ew & Hf).
    exists ((wa, wb) :: wps). split; [rewrite Ew; reflexivity|]. constructor; [|exact Hf]. cbn [fst snd]. split.
    + apply (roundtrip_scalar_arm orc te true k a fuel st st wa); [intros s; reflexivity | exact Ha | exact E1].
    + apply (roundtrip_scalar_arm orc te true v b fuel st st wb); [intros s; reflexivity | exact Hb | exact E2].
Qed.

Lemma key_hashable orc k a x : key_type k = true -> has_type orc k a = true -> same x a = true -> hashable x = true.
Proof. destruct k; try discriminate; intros _; destruct a; try discriminate; intros _; destruct x; try discriminate; reflexivity. Qed.

Definition pair_dec rec (k v : gtype) (wp : wire * wire) (xp : xval * xval) : Prop :=
  elem_dec rec k (fst wp) (fst xp) /\ elem_dec rec v (snd wp) (snd xp) /\ hashable (fst xp) = true.

Lemma pairs_of_arms orc opts te f k v wps ps :
  key_type k = true -> forallb (pair_typed orc k v) ps = true ->
  Forall2 (fun wp p => arm_rt orc te k (fst wp) (fst p) /\ arm_rt orc te v (snd wp) (snd p)) wps ps ->
  exists xps, Forall2 (pair_dec (dec orc opts te (S f)) k v) wps xps /\
              Forall2 (fun xp p => same (fst xp) (fst p) = true /\ same (snd xp) (snd p) = true) xps ps.
Proof.
  intros Hk Hall H. induction H as [|wp p wps ps [Ha Hb] _ IH]; [exists []; split; constructor|].
  cbn [forallb] in Hall. apply andb_prop in Hall. destruct Hall as [Hp Hall]. apply andb_prop in Hp. destruct Hp as [Hta Htb].
  destruct (IH Hall) as (xps & Hd & Hs).
  destruct (arm_rt_elem_dec orc opts te f k _ _ Ha) as (xa & Hxa & Hsa).
  destruct (arm_rt_elem_dec orc opts te f v _ _ Hb) as (xb & Hxb & Hsb).
  exists ((xa, xb) :: xps). split; constructor; try assumption.
  - split; [exact Hxa|]. split; [exact Hxb|]. cbn [fst]. apply (key_hashable orc k (fst p) xa Hk Hta Hsa).
  - split; assumption.
Qed.

Lemma wrp_top_lt (st : dstate) h x : h < length (mem st) ->
  exists st', wr_or_panic st (h, []) x = DOk st' /\ nth_error (mem st') h = Some x /\
              (forall j, j <> h -> nth_error (mem st') j = nth_error (mem st) j) /\
              length (mem st') = length (mem st).
Proof.
  intros H. destruct (nth_error (mem st) h) as [y|] eqn:E; [apply (wrp_top st h y x E)|].
  apply nth_error_None in E. lia.
Qed.

(* cell 0: the map header; cell mc: the entries; cells kp, vp: the temporaries the entries are decoded into *)
Definition minv (m : list xval) (mc kp vp : nat) (acc : list (xval * xval)) : Prop :=
  nth_error m 0 = Some (XMapH mc) /\ nth_error m mc = Some (XMap acc) /\
  kp < length m /\ vp < length m /\ mc <> 0 /\ kp <> 0 /\ vp <> 0 /\ kp <> mc /\ vp <> mc /\ kp <> vp.

Lemma next_temp_key te t first m mc kp vp acc st : mem st = m -> minv m mc kp vp acc ->
  exists sta kp', next_temp te t first kp st = (sta, kp') /\ minv (mem sta) mc kp' vp acc.
Proof.
  intros Hm (H0 & Hc & Hk & Hv & N1 & N2 & N3 & N4 & N5 & N6). unfold next_temp.
  assert (Hmc : mc < length m) by (apply nth_error_Some; rewrite Hc; discriminate).
  assert (H0l : 0 < length m) by (apply nth_error_Some; rewrite H0; discriminate).
  destruct (negb first && needs_fresh t).
  - unfold st_alloc. eexists. eexists. split; [reflexivity|]. cbn [mem]. rewrite Hm.
    unfold minv. rewrite !nth_error_app1 by assumption. rewrite app_length. cbn [length].
    repeat split; try assumption; lia.
  - exists st, kp. split; [reflexivity|]. rewrite Hm. unfold minv. repeat split; assumption.
Qed.

Lemma next_temp_val te t first m mc kp vp acc st : mem st = m -> minv m mc kp vp acc ->
  exists sta vp', next_temp te t first vp st = (sta, vp') /\ minv (mem sta) mc kp vp' acc.
Proof.
  intros Hm (H0 & Hc & Hk & Hv & N1 & N2 & N3 & N4 & N5 & N6). unfold next_temp.
  assert (Hmc : mc < length m) by (apply nth_error_Some; rewrite Hc; discriminate).
  assert (H0l : 0 < length m) by (apply nth_error_Some; rewrite H0; discriminate).
  destruct (negb first && needs_fresh t).
  - unfold st_alloc. eexists. eexists. split; [reflexivity|]. cbn [mem]. rewrite Hm.
    unfold minv. rewrite !nth_error_app1 by assumption. rewrite app_length. cbn [length].
    repeat split; try assumption; lia.
  - exists st, vp. split; [reflexivity|]. rewrite Hm. unfold minv. repeat split; assumption.
Qed.

Lemma map_pairs_ok te rec k v wps xps : key_type k = true ->
  Forall2 (pair_dec rec k v) wps xps ->
  forall first mc kp vp acc st,
  minv (mem st) mc kp vp acc ->
  exists st' kp' vp',
    map_pairs te rec k v mc kp vp first (flat_pairs wps) st = DOk st' /\
    minv (mem st') mc kp' vp' (kv_fold acc xps).
Proof.
  intros Hkt. induction 1 as [|[kw vw] [kx vx] wps xps (Hdk & Hdv & Hh) Hall IH]; intros first mc kp vp acc st Hinv.
  - exists st, kp, vp. split; [reflexivity|exact Hinv].
  - change (flat_pairs ((kw, vw) :: wps)) with (kw :: vw :: flat_pairs wps). cbn [map_pairs]. cbn [fst snd] in Hdk, Hdv, Hh.
    destruct (next_temp_key te k first _ mc kp vp acc st eq_refl Hinv) as (sta & kp1 & Ea & Ia). rewrite Ea.
    destruct (next_temp_val te v first _ mc kp1 vp acc sta eq_refl Ia) as (stb & vp1 & Eb & Ib). rewrite Eb.
    destruct Ib as (H0 & Hc & Hk & Hv & N1 & N2 & N3 & N4 & N5 & N6).
    destruct Hdk as [Hpk Hdk]. destruct (Hdk (kp1, []) stb) as (s0 & Hm0 & Ed). rewrite Ed.
    destruct (wrp_top_lt s0 kp1 kx ltac:(rewrite Hm0; exact Hk)) as (st1 & Ew & Hn1 & Ho1 & Hl1). rewrite Ew. cbn [bindd].
    destruct Hdv as [Hpv Hdv]. destruct (Hdv (vp1, []) st1) as (s1 & Hm1 & Ed1). rewrite Ed1.
    destruct (wrp_top_lt s1 vp1 vx ltac:(rewrite Hm1, Hl1, Hm0; exact Hv)) as (st2 & Ew2 & Hn2 & Ho2 & Hl2). rewrite Ew2. cbn [bindd].
    unfold rd_or, st_rd, rd. cbn [fst snd].
    rewrite (Ho2 kp1 N6), Hm1, Hn1. cbn [rd_path]. rewrite Hn2. cbn [rd_path].
    replace (match k with TIface => negb (hashable_dyn te kx) | _ => false end) with false
      by (destruct k; try discriminate; reflexivity).
    unfold map_set. rewrite Hh.
    assert (Hc2 : nth_error (mem st2) mc = Some (XMap acc)).
    { rewrite (Ho2 mc (not_eq_sym N5)), Hm1, (Ho1 mc (not_eq_sym N4)), Hm0. exact Hc. }
    rewrite Hc2.
    destruct (wrp_top st2 mc _ (XMap (kv_set acc kx vx)) Hc2) as (st3 & Ew3 & Hn3 & Ho3 & Hl3). rewrite Ew3. cbn [bindd].
    assert (I3 : minv (mem st3) mc kp1 vp1 (kv_set acc kx vx)).
    { unfold minv. rewrite Hl3, Hl2, Hm1, Hl1, Hm0.
      split; [rewrite (Ho3 0 (not_eq_sym N1)), (Ho2 0 (not_eq_sym N3)), Hm1, (Ho1 0 (not_eq_sym N2)), Hm0; exact H0|].
      split; [exact Hn3|]. repeat split; assumption. }
    destruct (IH false mc kp1 vp1 _ st3 I3) as (st' & kp' & vp' & Es & I').
    exists st', kp', vp'. split; [exact Es|exact I'].
Qed.

Lemma unfold_map m f stack c kvs : nth_error m c = Some (XMap kvs) ->
  unfold m (S f) stack (XMapH c) = XMap (map (fun kv => (unfold m f stack (fst kv), unfold m f stack (snd kv))) kvs).
Proof. intros H. cbn [unfold]. rewrite H. reflexivity. Qed.

Definition plain_pair (kv : xval * xval) : Prop := plain (fst kv) = true /\ plain (snd kv) = true.

Lemma kv_set_plain acc k v : Forall plain_pair acc -> plain_pair (k, v) -> Forall plain_pair (kv_set acc k v).
Proof.
  intros Ha Hp. induction acc as [|[k' v'] acc IH]; cbn [kv_set]; [constructor; [exact Hp|constructor]|].
  inversion Ha; subst. destruct (key_eqb k k'); constructor; auto.
Qed.

Lemma kv_fold_plain rec k v wps xps : Forall2 (pair_dec rec k v) wps xps ->
  forall acc, Forall plain_pair acc -> Forall plain_pair (kv_fold acc xps).
Proof.
  induction 1 as [|wp [kx vx] wps xps ([Hpk _] & [Hpv _] & _) _ IH]; intros acc Ha; [exact Ha|].
  unfold kv_fold. cbn [fold_left fst snd]. apply IH. apply kv_set_plain; [exact Ha|]. split; assumption.
Qed.

Lemma map_unfold_plain_pairs m f kvs : Forall plain_pair kvs ->
  map (fun kv => (unfold m (S f) [] (fst kv), unfold m (S f) [] (snd kv))) kvs = kvs.
Proof.
  induction 1 as [|[a b] kvs [Ha Hb] _ IH]; [reflexivity|]. cbn [map fst snd] in *.
  rewrite IH, (unfold_plain m f [] a Ha), (unfold_plain m f [] b Hb). reflexivity.
Qed.

Theorem roundtrip_map orc opts te k v ps fuel st' w f :
  key_type k = true ->
  forallb (pair_typed orc k v) ps = true ->
  enc true [] fuel einit (GMap (flat_pairs ps)) = EOk st' w ->
  exists xps, dec_top orc opts te (S (S f)) (TMap k v) w = OOk (XMap (kv_fold [] xps)) /\
              Forall2 (fun xp p => same (fst xp) (fst p) = true /\ same (snd xp) (snd p) = true) xps ps.
Proof.
  intros Hk Hall Henc. destruct fuel as [|fuel]; [discriminate|]. rewrite enc_scalar_step in Henc.
  cbn [enc_step enc_body register add_count] in Henc.
  destruct (enc_seq (enc true [] fuel) einit (flat_pairs ps)) as [[[st2 ws]|]|] eqn:Eseq; try discriminate;
    [|exfalso; apply (enc_seq_inr_not_ok _ _ _ _ Eseq _ _ Henc)].
  inversion Henc; subst st' w. clear Henc.
  destruct (enc_seq_pairs orc te k v fuel ps einit st2 ws Hall Eseq) as (wps & Ews & Harms). subst ws.
  destruct (pairs_of_arms orc opts te f k v wps ps Hk Hall Harms) as (xps & Hdec & Hsame).
  exists xps. split; [|exact Hsame].
  unfold dec_top. change (zero_val te fuel_zero (TMap k v)) with XNil. unfold st_alloc at 1, dinit. cbn [mem refs clss length app].
  change (dec orc opts te (S (S f))) with (dec_step orc opts te (dec orc opts te (S f))).
  unfold dec_step at 1. change (leaf_of RTop (TMap k v)) with (LMap k v). cbv iota beta.
  unfold dec_map. change (sw_lookup (model_switch RtMap) (tag_of (WMap (flat_pairs wps)))) with (ACall FMap).
  cbv iota beta. unfold new_map, st_alloc. cbn [mem refs clss length app fst snd].
  set (s0 := {| mem := [XNil; XMap []]; refs := []; clss := [] |}).
  destruct (wrp_top s0 0 XNil (XMapH 1) eq_refl) as (s1 & Ew & Hn1 & Ho1 & Hl1). rewrite Ew.
  set (s2 := add_ref opts s1 _ _).
  assert (Hm2 : mem s2 = mem s1) by (unfold s2, add_ref; destruct (o_simple opts); reflexivity).
  rewrite Hm2, Hl1. cbn [mem s0 length].
  set (s4 := {| mem := (mem s1 ++ [zero_of te k]) ++ [zero_of te v]; refs := refs s2; clss := clss s2 |}).
  assert (Hlen : length (mem s1) = 2) by (rewrite Hl1; reflexivity).
  replace (length (mem s1 ++ [zero_of te k])) with 3 by (rewrite app_length, Hlen; reflexivity).
  assert (Hinv : minv (mem s4) 1 2 3 []).
  { unfold s4. cbn [mem]. unfold minv. rewrite !app_length, Hlen. cbn [length Nat.add].
    rewrite <- app_assoc. rewrite !nth_error_app1 by lia. rewrite Hn1, (Ho1 1 ltac:(discriminate)).
    repeat split; try lia; try discriminate. }
  destruct (map_pairs_ok te _ k v wps xps Hk Hdec true 1 2 3 [] s4 Hinv) as (st' & kp' & vp' & Es & (H0 & Hc & _)).
  rewrite Es. unfold st_rd, rd. cbn [fst snd]. rewrite H0. cbn [rd_path].
  rewrite (unfold_map _ _ _ _ _ Hc).
  rewrite (map_unfold_plain_pairs _ f _ (kv_fold_plain _ k v wps xps Hdec [] (Forall_nil _))). reflexivity.
Qed.

(* keys that are pairwise different (as Go compares them) come back in the written order, one entry each *)
Fixpoint distinct_keys (l : list (xval * xval)) : bool :=
  match l with
  | [] => true
  | p :: r => forallb (fun q => negb (key_eqb (fst q) (fst p))) r && distinct_keys r
  end.

Lemma kv_set_new acc k v : forallb (fun a => negb (key_eqb k (fst a))) acc = true -> kv_set acc k v = acc ++ [(k, v)].
Proof.
  induction acc as [|[k' v'] acc IH]; intros H; cbn [kv_set]; [reflexivity|].
  cbn [forallb fst] in H. apply andb_prop in H. destruct H as [H1 H2].
  destruct (key_eqb k k'); [discriminate|]. rewrite (IH H2). reflexivity.
Qed.

Lemma distinct_keys_app acc p r : distinct_keys (acc ++ p :: r) = true ->
  forallb (fun a => negb (key_eqb (fst p) (fst a))) acc = true /\ distinct_keys ((acc ++ [p]) ++ r) = true.
Proof.
  intros H. split; [|rewrite <- app_assoc; exact H].
  induction acc as [|a acc IH]; [reflexivity|]. cbn [app distinct_keys] in H. apply andb_prop in H. destruct H as [H1 H2].
  cbn [forallb]. rewrite (IH H2), andb_true_r. rewrite forallb_app in H1. apply andb_prop in H1. destruct H1 as [_ H1].
  cbn [forallb] in H1. apply andb_prop in H1. destruct H1 as [H1 _]. exact H1.
Qed.

Lemma kv_fold_distinct xps : forall acc, distinct_keys (acc ++ xps) = true -> kv_fold acc xps = acc ++ xps.
Proof.
  induction xps as [|[k v] xps IH]; intros acc H; [cbn; rewrite app_nil_r; reflexivity|].
  destruct (distinct_keys_app acc (k, v) xps H) as [Hn Hd]. unfold kv_fold. cbn [fold_left fst snd].
  rewrite (kv_set_new acc k v Hn). fold (kv_fold (acc ++ [(k, v)]) xps). rewrite (IH _ Hd), <- app_assoc. reflexivity.
Qed.

(* ---- structs --------------------------------------------------------------------------------- *)

(* writing one field of a struct cell *)
Lemma wrp_field (st : dstate) c n a y b x : nth_error (mem st) c = Some (XStruct n (a ++ y :: b)) ->
  exists st', wr_or_panic st (c, [length a]) x = DOk st' /\ nth_error (mem st') c = Some (XStruct n (a ++ x :: b)) /\
              (forall j, j <> c -> nth_error (mem st') j = nth_error (mem st) j) /\
              length (mem st') = length (mem st).
Proof.
  intros H. destruct (upd_nth_spec (mem st) c _ (XStruct n (a ++ x :: b)) H) as (m' & E & Hn & Ho & Hl).
  unfold wr_or_panic, st_wr, wr. cbn [fst snd]. rewrite H. cbn [wr_path]. rewrite nth_error_mid, upd_nth_mid, E.
  eexists. split; [reflexivity|]. cbn [mem]. auto.
Qed.

(* field aliases pairwise different *)
Fixpoint distinct_aliases (l : list bytes) : bool :=
  match l with
  | [] => true
  | a :: r => forallb (fun b => negb (bytes_eqb a b)) r && distinct_aliases r
  end.

Lemma find_field_mid pre a t suf : forall i,
  forallb (fun p => negb (bytes_eqb (fst p) a)) pre = true ->
  find_field (pre ++ (a, t) :: suf) a i = Some (i + length pre, t).
Proof.
  induction pre as [|[a' t'] pre IH]; intros i H; cbn [app find_field].
  - rewrite bytes_eqb_refl. cbn [length]. rewrite Nat.add_0_r. reflexivity.
  - cbn [forallb fst] in H. apply andb_prop in H. destruct H as [H1 H2].
    destruct (bytes_eqb a' a); [discriminate|]. rewrite (IH (S i) H2). cbn [length]. f_equal. f_equal. lia.
Qed.

Lemma distinct_aliases_mid pre a suf : distinct_aliases (pre ++ a :: suf) = true ->
  forallb (fun p => negb (bytes_eqb p a)) pre = true.
Proof.
  induction pre as [|p pre IH]; intros H; [reflexivity|]. cbn [app distinct_aliases] in H.
  apply andb_prop in H. destruct H as [H1 H2]. cbn [forallb]. rewrite (IH H2), andb_true_r.
  rewrite forallb_app in H1. apply andb_prop in H1. destruct H1 as [_ H1]. cbn [forallb] in H1.
  apply andb_prop in H1. destruct H1 as [H1 _]. exact H1.
Qed.

Fixpoint fields_typed (orc : bytes -> bytes -> option bytes) (d : sdef) (vs : list gval) : bool :=
  match d, vs with
  | [], [] => true
  | at_ :: d', v :: vs' => has_type orc (snd at_) v && fields_typed orc d' vs'
  | _, _ => false
  end.

Inductive fields_rt (orc : bytes -> bytes -> option bytes) (te : tenv) : sdef -> list wire -> list gval -> Prop :=
| frt_nil : fields_rt orc te [] [] []
| frt_cons at_ w v d ws vs : arm_rt orc te (snd at_) w v -> fields_rt orc te d ws vs ->
                             fields_rt orc te (at_ :: d) (w :: ws) (v :: vs).

Inductive fields_dec (rec : route -> gtype -> wire -> place -> dstate -> dres) : sdef -> list wire -> list xval -> Prop :=
| fd_nil : fields_dec rec [] [] []
| fd_cons at_ w x d ws xs : elem_dec rec (snd at_) w x -> fields_dec rec d ws xs ->
                            fields_dec rec (at_ :: d) (w :: ws) (x :: xs).

Lemma enc_seq_fields orc te fuel : forall d vs st st2 ws,
  fields_typed orc d vs = true ->
  enc_seq (enc true [] fuel) st vs = inl (Some (st2, ws)) ->
  fields_rt orc te d ws vs.
Proof.
  induction d as [|at_ d IH]; intros vs st st2 ws Hall He; destruct vs as [|v vs]; try discriminate.
  - cbn in He. inversion He; subst. constructor.
  - cbn [fields_typed] in Hall. apply andb_prop in Hall. destruct Hall as [Hv Hall]. cbn [enc_seq] in He.
    destruct (enc true [] fuel st v) as [st1 w| |] eqn:E1; try discriminate.
    pose proof (enc_simple_state orc _ v fuel st st1 w Hv E1) as Es. subst st1.
    destruct (enc_seq (enc true [] fuel) st vs) as [[[st3 ws']|]|] eqn:E2; try discriminate.
    inversion He; subst. constructor.
    + apply (roundtrip_scalar_arm orc te true _ v fuel st st w); [intros s; reflexivity | exact Hv | exact E1].
    + eapply IH; eassumption.
Qed.

Lemma fields_of_arms orc opts te f d ws vs : fields_rt orc te d ws vs ->
  exists xs, fields_dec (dec orc opts te (S f)) d ws xs /\ Forall2 (fun x v => same x v = true) xs vs.
Proof.
  induction 1 as [|at_ w v d ws vs H _ IH]; [exists []; split; constructor|].
  destruct IH as (xs & Hd & Hs). destruct (arm_rt_elem_dec orc opts te f _ w v H) as (x & Hx & Hsx).
  exists (x :: xs). split; constructor; assumption.
Qed.

Lemma fields_dec_plain m f rec d ws xs : fields_dec rec d ws xs -> map (unfold m (S f) []) xs = xs.
Proof.
  induction 1 as [|at_ w x d ws xs [Hp _] _ IH]; [reflexivity|]. cbn [map]. rewrite IH, (unfold_plain m f [] x Hp). reflexivity.
Qed.

Lemma fields_dec_length rec d ws xs : fields_dec rec d ws xs -> length d = length xs.
Proof. induction 1; cbn; auto. Qed.

Lemma decode_fields_ok rec name d0 : forall suf ws xs, fields_dec rec suf ws xs ->
  forall pre done rest st,
  d0 = pre ++ suf -> distinct_aliases (map fst d0) = true -> length done = length pre ->
  nth_error (mem st) 0 = Some (XStruct name (done ++ rest)) -> length suf <= length rest ->
  exists st', decode_fields rec d0 (0, []) (map fst suf) ws st = DOk st' /\
              nth_error (mem st') 0 = Some (XStruct name (done ++ xs ++ skipn (length suf) rest)).
Proof.
  induction 1 as [|[a t] w x suf ws xs Hx Hall IH]; intros pre done rest st Hd Hdist Hlen Hc Hlr.
  - exists st. split; [reflexivity|]. exact Hc.
  - destruct rest as [|y rest]; [cbn in Hlr; lia|]. cbn [length] in Hlr.
    cbn [map fst decode_fields]. unfold decode_field.
    assert (Hf : find_field d0 a 0 = Some (length pre, t)).
    { rewrite Hd. rewrite (find_field_mid pre a t suf 0); [reflexivity|].
      rewrite Hd, map_app in Hdist. cbn [map fst] in Hdist.
      pose proof (distinct_aliases_mid _ _ _ Hdist) as Hm. rewrite forallb_forall in Hm. apply forallb_forall.
      intros p Hp. apply Hm. apply in_map. exact Hp. }
    rewrite Hf. change (sub (0, []) (length pre)) with (0, [length pre]). rewrite <- Hlen.
    destruct Hx as [Hpx Hdx]. cbn [snd] in Hdx. destruct (Hdx (0, [length done]) st) as (st0 & Hm0 & Ed). rewrite Ed.
    assert (Hc0 : nth_error (mem st0) 0 = Some (XStruct name (done ++ y :: rest))) by (rewrite Hm0; exact Hc).
    destruct (wrp_field st0 0 name done y rest x Hc0) as (st2 & Ew & Hn2 & _ & _). rewrite Ew. cbn [bindd].
    assert (Hc2 : nth_error (mem st2) 0 = Some (XStruct name ((done ++ [x]) ++ rest))) by (rewrite <- app_assoc; exact Hn2).
    destruct (IH (pre ++ [(a, t)]) (done ++ [x]) rest st2) as (st' & Es & Hfin).
    + rewrite <- app_assoc. exact Hd.
    + exact Hdist.
    + rewrite !app_length, Hlen. reflexivity.
    + exact Hc2.
    + lia.
    + exists st'. split; [exact Es|]. rewrite <- app_assoc in Hfin. exact Hfin.
Qed.

Lemma zero_val_struct te f name d : find_struct te name = Some d ->
  zero_val te (S f) (TStruct name) = XStruct name (map (fun at_ => zero_val te f (snd at_)) d).
Proof. intros H. cbn [zero_val]. rewrite H. reflexivity. Qed.

Lemma push_class_mem opts st name fields t : mem (push_class opts st name fields t) = mem st.
Proof.
  unfold push_class, st_addclass. cbn [mem]. revert st. induction fields as [|a fields IH]; intros st; [reflexivity|].
  cbn [fold_left]. rewrite IH. unfold add_ref. destruct (o_simple opts); reflexivity.
Qed.

Lemma push_class_clss opts st name fields t : clss st = [] ->
  exists ci, clss (push_class opts st name fields t) = [ci] /\ c_names ci = fields.
Proof.
  intros H. unfold push_class, st_addclass. cbn [clss].
  assert (Hc : forall st, clss (fold_left (fun s f => add_ref opts s TString (XStr f)) fields st) = clss st).
  { induction fields as [|a fields IH]; intros st0; [reflexivity|]. cbn [fold_left]. rewrite IH.
    unfold add_ref. destruct (o_simple opts); reflexivity. }
  rewrite Hc, H. eexists. split; [reflexivity|reflexivity].
Qed.

Lemma dec_struct_class orc opts te f name d fields idx ws pl st : find_struct te name = Some d ->
  dec orc opts te (S (S f)) RTop (TStruct name) (WClass name fields (WObj idx ws)) pl st =
  class_info (push_class opts st name fields (TStruct name)) idx (fun ci =>
    decode_fields (dec orc opts te f) d pl (c_names ci) ws
      (add_ref opts (push_class opts st name fields (TStruct name)) (TPtr (TStruct name)) (XPtrTo (fst pl) (snd pl)))).
Proof.
  intros Hfs.
  change (dec orc opts te (S (S f))) with (dec_step orc opts te (dec orc opts te (S f))).
  unfold dec_step at 1. change (leaf_of RTop (TStruct name)) with (LStruct name). cbv iota beta.
  unfold dec_struct at 1. rewrite Hfs.
  change (sw_lookup (model_switch RtStruct) (tag_of (WClass name fields (WObj idx ws)))) with ADefault. cbv iota beta.
  unfold default_decode.
  change (sw_lookup (model_switch RtDefault) (tag_of (WClass name fields (WObj idx ws)))) with (ACall FClassThenDecode).
  cbv iota beta.
  change (dec orc opts te (S f)) with (dec_step orc opts te (dec orc opts te f)).
  unfold dec_step at 1. change (leaf_of RTop (TStruct name)) with (LStruct name). cbv iota beta.
  unfold dec_struct at 1. rewrite Hfs.
  change (sw_lookup (model_switch RtStruct) (tag_of (WObj idx ws))) with (ACall FObject). cbv iota beta.
  reflexivity.
Qed.

Theorem roundtrip_struct orc opts te name d vs fuel st' w f :
  find_struct te name = Some d ->
  distinct_aliases (map fst d) = true ->
  fields_typed orc d vs = true ->
  enc true [] fuel einit (GStruct name (map fst d) vs) = EOk st' w ->
  exists xs, dec_top orc opts te (S (S (S f))) (TStruct name) w = OOk (XStruct name xs) /\
             Forall2 (fun a v => same a v = true) xs vs.
Proof.
  intros Hfs Hdist Hall Henc. destruct fuel as [|fuel]; [discriminate|]. rewrite enc_scalar_step in Henc.
  cbn [enc_step enc_body] in Henc.
  change (class_lookup einit name) with (@None N) in Henc. unfold class_define in Henc.
  cbn [register add_count] in Henc.
  match type of Henc with context [enc_seq _ ?s vs] => set (st1 := s) in Henc end.
  destruct (enc_seq (enc true [] fuel) st1 vs) as [[[st2 ws]|]|] eqn:Eseq; try discriminate;
    [|exfalso; apply (enc_seq_inr_not_ok _ _ _ _ Eseq _ _ Henc)].
  inversion Henc; subst st' w. clear Henc.
  pose proof (enc_seq_fields orc te fuel d vs st1 st2 ws Hall Eseq) as Harms.
  destruct (fields_of_arms orc opts te f d ws vs Harms) as (xs & Hdec & Hsame).
  exists xs. split; [|exact Hsame].
  unfold dec_top, fuel_zero. rewrite (zero_val_struct te _ name d Hfs).
  set (zs := map _ d).
  unfold st_alloc, dinit. cbn [mem refs clss length app].
  rewrite (dec_struct_class orc opts te (S f) name d _ _ _ _ _ Hfs).
  set (s0 := {| mem := [XStruct name zs]; refs := []; clss := [] |}).
  destruct (push_class_clss opts s0 name (map fst d) (TStruct name) eq_refl) as (ci & Hci & Hnames).
  unfold class_info. rewrite Hci. cbn [N.to_nat nth_error]. rewrite Hnames.
  set (s1 := add_ref opts _ _ _).
  assert (Hm1 : mem s1 = [XStruct name zs]).
  { unfold s1, add_ref. destruct (o_simple opts); cbn [mem st_addref]; rewrite push_class_mem; reflexivity. }
  assert (Hc : nth_error (mem s1) 0 = Some (XStruct name ([] ++ zs))) by (rewrite Hm1; reflexivity).
  assert (Hlz : length d <= length zs) by (unfold zs; rewrite map_length; lia).
  destruct (decode_fields_ok _ name d d ws xs Hdec [] [] zs s1 eq_refl Hdist eq_refl Hc Hlz) as (st' & Es & Hfin).
  rewrite Es. unfold st_rd, rd. cbn [fst snd]. rewrite Hfin. cbn [rd_path app].
  rewrite skipn_all2 by (unfold zs; rewrite map_length; lia). rewrite app_nil_r, unfold_arr_struct.
  rewrite (fields_dec_plain _ (S f) _ d ws xs Hdec). reflexivity.
Qed.
