(* Lemmas about Model/Onion.v (C15). *)
From Coq Require Import List NArith Bool Lia PeanoNat.
From HV Require Import Model.Onion.
Import ListNotations.

Definition chain_clo (l : list handler) : clo := fold_right CWrap CDefault l.

(* ------------------------------------------------------------------ *)
(* rebuildHandler builds the right fold of the list                    *)

Lemma firstn_S_nth : forall (A : Type) (l : list A) k h,
  nth_error l k = Some h -> firstn (S k) l = firstn k l ++ [h].
Proof.
  intros A l. induction l as [|a l IH]; intros k h Hn.
  - destruct k; discriminate.
  - destruct k as [|k].
    + cbn in Hn. injection Hn as ->. reflexivity.
    + cbn in Hn. rewrite (firstn_cons (S k)), (firstn_cons k), (IH k h Hn). reflexivity.
Qed.

Lemma rebuild_loop_spec : forall hs k next, (k <= length hs)%nat ->
  rebuild_loop hs k next = Some (fold_right CWrap next (firstn k hs)).
Proof.
  intros hs k. induction k as [|k IH]; intros next Hk.
  - reflexivity.
  - cbn [rebuild_loop].
    destruct (nth_error hs k) as [h|] eqn:Hn.
    + rewrite IH by lia. rewrite (firstn_S_nth _ hs k h Hn).
      rewrite fold_right_app. reflexivity.
    + apply nth_error_None in Hn. lia.
Qed.

Lemma rebuild_handler_spec : forall p,
  rebuild_handler p = Some {| handlers := handlers p; built := chain_clo (handlers p) |}.
Proof.
  intros p. unfold rebuild_handler.
  rewrite rebuild_loop_spec by lia. rewrite firstn_all. reflexivity.
Qed.

Lemma pm_use_spec : forall hs p,
  pm_use hs p = Some {| handlers := handlers p ++ hs; built := chain_clo (handlers p ++ hs) |}.
Proof. intros hs p. unfold pm_use. rewrite rebuild_handler_spec. reflexivity. Qed.

(* ------------------------------------------------------------------ *)
(* Unuse's double loop is a filter by code pointer                      *)

Definition code_in (args : list handler) (h : handler) : bool := ptr_matches (code h) args.

Lemma ptr_matches_existsb : forall hp args,
  ptr_matches hp args = existsb (fun h2 => N.eqb hp (code h2)) args.
Proof.
  intros hp args. induction args as [|a args IH]; [reflexivity|].
  cbn [ptr_matches existsb]. rewrite IH. destruct (N.eqb hp (code a)); reflexivity.
Qed.

Lemma unuse_loop_spec : forall hs args acc rb,
  unuse_loop hs args acc rb =
  (acc ++ filter (fun h => negb (code_in args h)) hs, rb || existsb (code_in args) hs).
Proof.
  intros hs args. induction hs as [|h hs IH]; intros acc rb.
  - cbn. rewrite app_nil_r, orb_false_r. reflexivity.
  - cbn [unuse_loop filter existsb]. change (ptr_matches (code h) args) with (code_in args h).
    destruct (code_in args h) eqn:Hm; cbn [negb]; rewrite IH.
    + cbn [orb]. rewrite orb_true_r. reflexivity.
    + cbn [orb]. rewrite <- app_assoc. reflexivity.
Qed.

Lemma filter_negb_none : forall (A : Type) (f : A -> bool) l,
  existsb f l = false -> filter (fun x => negb (f x)) l = l.
Proof.
  intros A f l. induction l as [|a l IH]; intros He; [reflexivity|].
  cbn in He. apply orb_false_iff in He as [Ha Hl].
  cbn. rewrite Ha. cbn. rewrite IH by exact Hl. reflexivity.
Qed.

Definition coherent_pm (p : pm) : Prop := built p = chain_clo (handlers p).

Lemma pm_unuse_spec : forall args p, coherent_pm p ->
  pm_unuse args p =
  Some {| handlers := filter (fun h => negb (code_in args h)) (handlers p);
          built := chain_clo (filter (fun h => negb (code_in args h)) (handlers p)) |}.
Proof.
  intros args p Hc. unfold pm_unuse. rewrite unuse_loop_spec. cbn [app orb].
  destruct (existsb (code_in args) (handlers p)) eqn:He.
  - rewrite rebuild_handler_spec. reflexivity.
  - rewrite (filter_negb_none _ _ _ He). rewrite Hc. reflexivity.
Qed.

Lemma pm_use_coherent : forall hs p p', pm_use hs p = Some p' -> coherent_pm p'.
Proof. intros hs p p' H. rewrite pm_use_spec in H. injection H as <-. reflexivity. Qed.

Lemma pm_unuse_coherent : forall hs p p', coherent_pm p -> pm_unuse hs p = Some p' -> coherent_pm p'.
Proof. intros hs p p' Hc H. rewrite pm_unuse_spec in H by exact Hc. injection H as <-. reflexivity. Qed.

(* unusing handlers whose code pointer is not installed changes nothing at all
   (the closure is not even rebuilt) *)
Lemma pm_unuse_absent : forall args p,
  (forall h, In h (handlers p) -> code_in args h = false) -> pm_unuse args p = Some p.
Proof.
  intros args p Habs. unfold pm_unuse. rewrite unuse_loop_spec. cbn [app orb].
  assert (He : existsb (code_in args) (handlers p) = false).
  { destruct (existsb (code_in args) (handlers p)) eqn:E; [|reflexivity].
    apply existsb_exists in E as [h [Hin Hm]]. rewrite (Habs h Hin) in Hm. discriminate. }
  rewrite He, (filter_negb_none _ _ _ He). destruct p; reflexivity.
Qed.

Lemma pm_unuse_twice : forall args p p1, coherent_pm p ->
  pm_unuse args p = Some p1 -> pm_unuse args p1 = Some p1.
Proof.
  intros args p p1 Hc H. rewrite pm_unuse_spec in H by exact Hc. injection H as <-.
  apply pm_unuse_absent. cbn [handlers]. intros h Hin.
  apply filter_In in Hin as [_ Hn]. destruct (code_in args h); [discriminate|reflexivity].
Qed.

(* ------------------------------------------------------------------ *)
(* identity by code pointer = identity, when codes are pairwise distinct *)

Definition code_inj (P : list handler) : Prop :=
  forall a b, In a P -> In b P -> code a = code b -> inst a = inst b.

Lemma NoDup_code_inj : forall P, NoDup (map code P) -> code_inj P.
Proof.
  intros P. induction P as [|x P IH]; intros Hnd a b Ha Hb Hab.
  - destruct Ha.
  - cbn in Hnd. inversion Hnd as [|? ? Hnotin Hnd']; subst.
    destruct Ha as [<-|Ha], Hb as [<-|Hb].
    + reflexivity.
    + exfalso. apply Hnotin. rewrite Hab. apply in_map. exact Hb.
    + exfalso. apply Hnotin. rewrite <- Hab. apply in_map. exact Ha.
    + apply IH; assumption.
Qed.

Lemma code_in_is_id : forall P h args, code_inj P -> In h P -> incl args P ->
  code_in args h = existsb (hid_eqb h) args.
Proof.
  intros P h args Hinj Hh Hargs. unfold code_in. rewrite ptr_matches_existsb.
  induction args as [|a args IH]; [reflexivity|].
  cbn [existsb]. rewrite IH by (intros x Hx; apply Hargs; right; exact Hx).
  f_equal. unfold hid_eqb.
  destruct (N.eqb (code h) (code a)) eqn:E; [|reflexivity].
  apply N.eqb_eq in E. cbn [andb]. symmetry. apply N.eqb_eq.
  apply Hinj; [exact Hh | apply Hargs; left; reflexivity | exact E].
Qed.

Lemma filter_ext_in' : forall (A : Type) (f g : A -> bool) l,
  (forall x, In x l -> f x = g x) -> filter f l = filter g l.
Proof.
  intros A f g l. induction l as [|a l IH]; intros H; [reflexivity|].
  cbn. rewrite (H a) by (left; reflexivity).
  rewrite IH by (intros x Hx; apply H; right; exact Hx). reflexivity.
Qed.

Lemma unuse_filter_is_spec : forall P args l, code_inj P -> incl l P -> incl args P ->
  filter (fun h => negb (code_in args h)) l = spec_unuse args l.
Proof.
  intros P args l Hinj Hl Hargs. unfold spec_unuse. apply filter_ext_in'.
  intros x Hx. rewrite (code_in_is_id P x args Hinj (Hl x Hx) Hargs). reflexivity.
Qed.

(* ------------------------------------------------------------------ *)
(* SeparatePluginHandlers                                               *)

Lemma separate_loop_spec : forall vs invs ios,
  separate_loop vs invs ios =
  if forallb pval_valid vs
  then Some (invs ++ flat_map (part SInv) vs, ios ++ flat_map (part SIO) vs)
  else None.
Proof.
  intros vs. induction vs as [|v vs IH]; intros invs ios.
  - cbn. rewrite !app_nil_r. reflexivity.
  - destruct v as [h|h|[[hi ho]|] [[[|] h]|]]; cbn [separate_loop forallb pval_valid andb flat_map part];
      try rewrite IH; try reflexivity;
      destruct (forallb pval_valid vs); cbn [app]; rewrite <- ?app_assoc; reflexivity.
Qed.

Lemma separate_spec : forall vs,
  separate vs = if forallb pval_valid vs
                then Some (flat_map (part SInv) vs, flat_map (part SIO) vs) else None.
Proof. intros vs. unfold separate. rewrite separate_loop_spec. reflexivity. Qed.

(* ------------------------------------------------------------------ *)
(* running closures = running the list                                  *)

Section Generic.
  Context {S : Type}.
  Variable mid : list mop -> S -> option S.

  Lemma apply_chain : forall L core l,
    apply mid L core (chain_clo l) = chain mid L l core.
  Proof.
    intros L core l. unfold chain_clo, chain. induction l as [|h l IH]; [reflexivity|].
    cbn [fold_right apply]. rewrite IH. reflexivity.
  Qed.

  Lemma chain_app : forall L l1 l2 core,
    chain mid L (l1 ++ l2) core = chain mid L l1 (chain mid L l2 core).
  Proof. intros. unfold chain. apply fold_right_app. Qed.

  Lemma wrap_ext : forall L h k1 k2, (forall r s, k1 r s = k2 r s) ->
    forall r s, wrap mid L h k1 r s = wrap mid L h k2 r s.
  Proof.
    intros L h k1 k2 Hk r s. unfold wrap.
    destruct (mid (hmid h) s) as [s1|]; [|reflexivity].
    destruct (pre h r) as [r'|x]; [|reflexivity]. rewrite Hk. reflexivity.
  Qed.

  Lemma chain_ext : forall L l k1 k2, (forall r s, k1 r s = k2 r s) ->
    forall r s, chain mid L l k1 r s = chain mid L l k2 r s.
  Proof.
    intros L l k1 k2 Hk. induction l as [|h l IH]; [exact Hk|].
    cbn. apply wrap_ext. exact IH.
  Qed.

  Lemma below_ext : forall L (k1 k2 : @kont S), (forall r s, k1 r s = k2 r s) ->
    forall r s, below L k1 r s = below L k2 r s.
  Proof.
    intros L k1 k2 Hk r s. unfold below. destruct (cut L r); [reflexivity|].
    rewrite Hk. reflexivity.
  Qed.

  Definition is_short (h : handler) : Prop := hb h = BShortOk \/ hb h = BShortErr.

  Lemma wrap_short : forall L h k1 k2, is_short h ->
    forall r s, wrap mid L h k1 r s = wrap mid L h k2 r s.
  Proof.
    intros L h k1 k2 Hs r s. unfold wrap, pre.
    destruct (mid (hmid h) s) as [s1|]; [|reflexivity].
    destruct Hs as [-> | ->]; reflexivity.
  Qed.

  (* whatever is inside a short-circuiting handler (further handlers, the core) is irrelevant *)
  Lemma chain_short : forall L l1 h l2 core core', is_short h ->
    forall r s, chain mid L (l1 ++ h :: l2) core r s = chain mid L (l1 ++ [h]) core' r s.
  Proof.
    intros L l1 h l2 core core' Hs. rewrite !chain_app.
    apply chain_ext. intros r s. cbn. apply wrap_short. exact Hs.
  Qed.

  Hypothesis mid_nil : forall s, mid [] s = Some s.

  Definition plain (h : handler) : Prop := hb h = BPass /\ hmid h = [].

  Definition enters (L : layer) (l : list handler) (r : req) : list ev :=
    map (fun h => EEnter L (inst h) r) l.
  Definition exits (L : layer) (l : list handler) (x : res) : list ev :=
    map (fun h => EExit L (inst h) x) l.

  Lemma chain_plain : forall L l core r s s' tc x,
    Forall plain l -> core r s = (s', tc, x) -> returns x = true ->
    chain mid L l core r s = (s', enters L l r ++ tc ++ exits L (rev l) x, x).
  Proof.
    intros L l core r s s' tc x Hp Hc Hr. induction Hp as [|h l [Hb Hm] Hp IH].
    - cbn. rewrite app_nil_r. exact Hc.
    - cbn [chain fold_right]. fold (chain mid L l core). unfold wrap, pre, post.
      rewrite Hm, mid_nil, Hb, IH, Hr.
      cbn [rev enters exits map]. unfold exits. rewrite map_app. cbn [map app].
      rewrite <- !app_assoc. reflexivity.
  Qed.

  (* the same when what comes back may also be a panic unwinding (no exit events then) *)
  Definition exits_if (L : layer) (l : list handler) (x : res) : list ev :=
    if returns x then exits L (rev l) x else [].

  Lemma chain_plain_gen : forall L l core r s s' tc x,
    Forall plain l -> core r s = (s', tc, x) ->
    chain mid L l core r s = (s', enters L l r ++ tc ++ exits_if L l x, x).
  Proof.
    intros L l core r s s' tc x Hp Hc. unfold exits_if. destruct (returns x) eqn:Hr.
    - apply chain_plain; assumption.
    - induction Hp as [|h l [Hb Hm] Hp IH].
      + cbn. rewrite app_nil_r. exact Hc.
      + cbn [chain fold_right]. fold (chain mid L l core). unfold wrap, pre.
        rewrite Hm, mid_nil, Hb, IH, Hr. reflexivity.
  Qed.

  (* a short-circuiting handler below pass-through ones *)
  Lemma chain_plain_short : forall L l1 h l2 core r s x,
    Forall plain l1 -> hmid h = [] -> pre h r = inr x -> returns x = true ->
    chain mid L (l1 ++ h :: l2) core r s =
    (s, enters L l1 r ++ [EEnter L (inst h) r; EExit L (inst h) x] ++ exits L (rev l1) x, x).
  Proof.
    intros L l1 h l2 core r s x Hp Hm Hpre Hr. rewrite chain_app.
    apply chain_plain; [exact Hp | | exact Hr].
    cbn. unfold wrap. rewrite Hm, mid_nil, Hpre. reflexivity.
  Qed.

  (* altering handlers: tokens accumulate inwards on the request, outwards on the result *)
  Definition altering (h : handler) : Prop := hb h = BAlter /\ hmid h = [].
  Definition out_tok (h : handler) : N := (inst h + 100)%N.

  Fixpoint alter_trace (L : layer) (l : list handler) (r : req) (tc : list ev) (y : list N) : list ev :=
    match l with
    | [] => tc
    | h :: l' => EEnter L (inst h) r :: alter_trace L l' (r ++ [inst h]) tc y
                 ++ [EExit L (inst h) (ROk (y ++ map out_tok (rev l)))]
    end.

  Lemma chain_alter : forall L l core r s s' tc y,
    Forall altering l -> core (r ++ map inst l) s = (s', tc, ROk y) ->
    chain mid L l core r s = (s', alter_trace L l r tc y, ROk (y ++ map out_tok (rev l))).
  Proof.
    intros L l core. induction l as [|h l IH]; intros r s s' tc y Hp Hc.
    - cbn in *. rewrite !app_nil_r in *. exact Hc.
    - inversion Hp as [|? ? [Hb Hm] Hp']; subst.
      cbn [chain fold_right]. fold (chain mid L l core). unfold wrap, pre, post.
      rewrite Hm, mid_nil, Hb.
      rewrite (IH (r ++ [inst h]) s s' tc y Hp').
      2:{ rewrite <- app_assoc. exact Hc. }
      cbn [returns alter_trace rev]. rewrite map_app. cbn [map]. rewrite app_assoc.
      reflexivity.
  Qed.
End Generic.

(* ------------------------------------------------------------------ *)
(* relational lemma: two interpreters in related states                 *)

Section Rel.
  Context {S T : Type}.
  Variable R : S -> T -> Prop.
  Variable mid1 : list mop -> S -> option S.
  Variable mid2 : list mop -> T -> option T.

  Definition krel (k1 : @kont S) (k2 : @kont T) : Prop :=
    forall r s t, R s t ->
    exists s' t' tr x, k1 r s = (s', tr, x) /\ k2 r t = (t', tr, x) /\ R s' t'.

  Hypothesis mid_rel : forall ms s t, R s t ->
    (exists s' t', mid1 ms s = Some s' /\ mid2 ms t = Some t' /\ R s' t') \/
    (mid1 ms s = None /\ mid2 ms t = None).

  Lemma wrap_rel : forall L h k1 k2, krel k1 k2 -> krel (wrap mid1 L h k1) (wrap mid2 L h k2).
  Proof.
    intros L h k1 k2 Hk r s t HR. unfold wrap.
    destruct (mid_rel (hmid h) s t HR) as [[s1 [t1 [E1 [E2 HR1]]]] | [E1 E2]]; rewrite E1, E2.
    - destruct (pre h r) as [r'|x].
      + destruct (Hk r' s1 t1 HR1) as [s2 [t2 [tr [x [K1 [K2 HR2]]]]]]. rewrite K1, K2.
        destruct (returns x); eauto 10.
      + eauto 10.
    - eauto 10.
  Qed.

  Lemma chain_rel : forall L l k1 k2, krel k1 k2 -> krel (chain mid1 L l k1) (chain mid2 L l k2).
  Proof.
    intros L l k1 k2 Hk. induction l as [|h l IH]; [exact Hk|].
    cbn. apply wrap_rel. exact IH.
  Qed.

  Lemma below_rel : forall L k1 k2, krel k1 k2 -> krel (below L k1) (below L k2).
  Proof.
    intros L k1 k2 Hk r s t HR. unfold below. destruct (cut L r); [eauto 10|].
    destruct (Hk r s t HR) as [s' [t' [tr [x [K1 [K2 HR']]]]]]. rewrite K1, K2. eauto 10.
  Qed.

  Variable rd : layer -> S -> clo.
  Variable lst : layer -> T -> list handler.
  Hypothesis rd_lst : forall L s t, R s t -> rd L s = chain_clo (lst L t).

  Lemma call_rel : forall ls, krel (call_from mid1 rd ls) (onion_from mid2 lst ls).
  Proof.
    intros ls. induction ls as [|L ls IH].
    - intros r s t HR. cbn. unfold execute. eauto 10.
    - intros r s t HR. cbn [call_from onion_from].
      rewrite (rd_lst L s t HR), apply_chain.
      exact (chain_rel L (lst L t) _ _ (below_rel L _ _ IH) r s t HR).
  Qed.
End Rel.

(* ------------------------------------------------------------------ *)
(* the system refines the four-list specification                       *)

Section Refine.
  Variable pool : list pval.
  Let PI := pool_side SInv pool.
  Let PO := pool_side SIO pool.
  Hypothesis guard_inv : code_inj PI.
  Hypothesis guard_io : code_inj PO.

  Definition inv_pair (p : pmpair) : Prop :=
    coherent_pm (pinv p) /\ coherent_pm (pio p) /\
    incl (handlers (pinv p)) PI /\ incl (handlers (pio p)) PO.

  Definition inv_sys (s : sys) : Prop := inv_pair (client s) /\ inv_pair (service s).

  Lemma parts_incl : forall sd vs, incl vs pool -> incl (flat_map (part sd) vs) (pool_side sd pool).
  Proof.
    intros sd vs Hvs h Hh. apply in_flat_map in Hh as [v [Hv Hh]].
    apply in_flat_map. exists v. split; [apply Hvs; exact Hv | exact Hh].
  Qed.

  Lemma resolve_incl : forall ixs vs, resolve pool ixs = Some vs -> incl vs pool.
  Proof.
    intros ixs. induction ixs as [|i ixs IH]; intros vs H.
    - injection H as <-. intros x [].
    - cbn in H. destruct (nth_error pool i) as [v|] eqn:Hn; [|discriminate].
      destruct (resolve pool ixs) as [vs'|]; [|discriminate]. injection H as <-.
      intros x [<-|Hx]; [eapply nth_error_In; exact Hn | apply (IH vs' eq_refl); exact Hx].
  Qed.

  Lemma use_if_nonempty : forall hs p,
    (if nonempty hs then pm_use hs p else Some p) =
    Some {| handlers := handlers p ++ hs;
            built := if nonempty hs then chain_clo (handlers p ++ hs) else built p |}.
  Proof.
    intros hs p. destruct hs as [|h hs]; cbn [nonempty].
    - rewrite app_nil_r. destruct p; reflexivity.
    - apply pm_use_spec.
  Qed.

  Lemma unuse_if_nonempty : forall hs p, coherent_pm p ->
    (if nonempty hs then pm_unuse hs p else Some p) =
    Some {| handlers := filter (fun h => negb (code_in hs h)) (handlers p);
            built := chain_clo (filter (fun h => negb (code_in hs h)) (handlers p)) |}.
  Proof.
    intros hs p Hc. destruct hs as [|h hs]; cbn [nonempty].
    - rewrite <- (pm_unuse_spec [] p Hc). symmetry. apply pm_unuse_absent. reflexivity.
    - apply pm_unuse_spec. exact Hc.
  Qed.

  Lemma node_use_refines : forall vs p p' st, inv_pair p -> incl vs pool ->
    node_use vs p = (p', st) ->
    spec_node_op spec_use vs (abs_pair p) = (abs_pair p', st) /\ inv_pair p'.
  Proof.
    intros vs p p' st [Hci [Hco [Hii Hio]]] Hvs H.
    unfold node_use, node_op in H. rewrite separate_spec in H.
    unfold spec_node_op. destruct (forallb pval_valid vs).
    - rewrite !use_if_nonempty in H. injection H as <- <-. split; [reflexivity|].
      unfold inv_pair. cbn [pinv pio handlers built]. repeat split.
      + unfold coherent_pm. cbn [handlers built].
        destruct (flat_map (part SInv) vs); cbn [nonempty]; [rewrite app_nil_r; exact Hci|reflexivity].
      + unfold coherent_pm. cbn [handlers built].
        destruct (flat_map (part SIO) vs); cbn [nonempty]; [rewrite app_nil_r; exact Hco|reflexivity].
      + apply incl_app; [exact Hii | apply parts_incl; exact Hvs].
      + apply incl_app; [exact Hio | apply parts_incl; exact Hvs].
    - injection H as <- <-. split; [reflexivity|]. unfold inv_pair. auto.
  Qed.

  Lemma node_unuse_refines : forall vs p p' st, inv_pair p -> incl vs pool ->
    node_unuse vs p = (p', st) ->
    spec_node_op spec_unuse vs (abs_pair p) = (abs_pair p', st) /\ inv_pair p'.
  Proof.
    intros vs p p' st [Hci [Hco [Hii Hio]]] Hvs H.
    unfold node_unuse, node_op in H. rewrite separate_spec in H.
    unfold spec_node_op. destruct (forallb pval_valid vs).
    - rewrite (unuse_if_nonempty _ _ Hci), (unuse_if_nonempty _ _ Hco) in H.
      injection H as <- <-. split.
      + unfold abs_pair. cbn [pinv pio handlers linv lio].
        rewrite (unuse_filter_is_spec PI _ _ guard_inv Hii (parts_incl SInv vs Hvs)).
        rewrite (unuse_filter_is_spec PO _ _ guard_io Hio (parts_incl SIO vs Hvs)).
        reflexivity.
      + unfold inv_pair, coherent_pm. cbn [pinv pio handlers built]. repeat split.
        * intros x Hx. apply filter_In in Hx as [Hx _]. apply Hii. exact Hx.
        * intros x Hx. apply filter_In in Hx as [Hx _]. apply Hio. exact Hx.
    - injection H as <- <-. split; [reflexivity|]. unfold inv_pair. auto.
  Qed.

  Lemma abs_set : forall n p s, abs (set_node n p s) = sset n (abs_pair p) (abs s).
  Proof. intros [|] p s; reflexivity. Qed.
  Lemma abs_get : forall n s, sget n (abs s) = abs_pair (get_node n s).
  Proof. intros [|] s; reflexivity. Qed.

  Lemma inv_set : forall n p s, inv_sys s -> inv_pair p -> inv_sys (set_node n p s).
  Proof. intros [|] p s [Hc Hs] Hp; split; assumption. Qed.
  Lemma inv_get : forall n s, inv_sys s -> inv_pair (get_node n s).
  Proof. intros [|] s [Hc Hs]; assumption. Qed.

  Lemma mop_step_refines : forall m s s' st, inv_sys s -> mop_step pool m s = (s', st) ->
    spec_mop_step pool m (abs s) = (abs s', st) /\ inv_sys s'.
  Proof.
    intros m s s' st Hi H. destruct m as [n ixs|n ixs]; cbn [mop_step spec_mop_step] in *.
    - destruct (resolve pool ixs) as [vs|] eqn:Hr.
      + destruct (node_use vs (get_node n s)) as [p st0] eqn:Hn. injection H as <- <-.
        destruct (node_use_refines vs _ _ _ (inv_get n s Hi) (resolve_incl _ _ Hr) Hn) as [Hs Hp].
        rewrite abs_get, Hs, abs_set. split; [reflexivity | apply inv_set; assumption].
      + injection H as <- <-. split; [reflexivity | exact Hi].
    - destruct (resolve pool ixs) as [vs|] eqn:Hr.
      + destruct (node_unuse vs (get_node n s)) as [p st0] eqn:Hn. injection H as <- <-.
        destruct (node_unuse_refines vs _ _ _ (inv_get n s Hi) (resolve_incl _ _ Hr) Hn) as [Hs Hp].
        rewrite abs_get, Hs, abs_set. split; [reflexivity | apply inv_set; assumption].
      + injection H as <- <-. split; [reflexivity | exact Hi].
  Qed.

  Definition Rsys (s : sys) (t : ssys) : Prop := inv_sys s /\ t = abs s.

  Lemma run_mops_rel : forall ms s t, Rsys s t ->
    (exists s' t', run_mops pool ms s = Some s' /\ spec_run_mops pool ms t = Some t' /\ Rsys s' t') \/
    (run_mops pool ms s = None /\ spec_run_mops pool ms t = None).
  Proof.
    intros ms. induction ms as [|m ms IH]; intros s t [Hi ->].
    - left. exists s, (abs s). split; [reflexivity|]. split; [reflexivity|].
      split; [exact Hi | reflexivity].
    - cbn [run_mops spec_run_mops].
      destruct (mop_step pool m s) as [s1 st] eqn:Hm.
      destruct (mop_step_refines m s s1 st Hi Hm) as [Hs Hi1]. rewrite Hs.
      destruct st; try (right; split; reflexivity).
      apply IH. split; [exact Hi1 | reflexivity].
  Qed.

  Lemma read_is_chain : forall L s t, Rsys s t -> read_handler L s = chain_clo (spec_list L t).
  Proof.
    intros L s t [[[Hci [Hco _]] [Hsi [Hso _]]] ->]. destruct L; cbn; assumption.
  Qed.

  Lemma call_refines : forall r s, inv_sys s ->
    exists s' tr x, call pool r s = (s', tr, x) /\
                    spec_call pool r (abs s) = (abs s', tr, x) /\ inv_sys s'.
  Proof.
    intros r s Hi.
    destruct (call_rel Rsys (run_mops pool) (spec_run_mops pool) run_mops_rel
                read_handler spec_list read_is_chain layers r s (abs s) (conj Hi eq_refl))
      as [s' [t' [tr [x [K1 [K2 [Hi' ->]]]]]]].
    exists s', tr, x. split; [exact K1|]. split; [exact K2 | exact Hi'].
  Qed.

  Lemma run_refines : forall ops s, inv_sys s ->
    spec_run pool ops (abs s) = (fst (run pool ops s), abs (snd (run pool ops s))) /\
    inv_sys (snd (run pool ops s)).
  Proof.
    intros ops. induction ops as [|o ops IH]; intros s Hi.
    - cbn. split; [reflexivity | exact Hi].
    - destruct o as [m|q]; cbn [run spec_run].
      + destruct (mop_step pool m s) as [s1 st] eqn:Hm.
        destruct (mop_step_refines m s s1 st Hi Hm) as [Hs Hi1]. rewrite Hs.
        destruct (IH s1 Hi1) as [IHa IHb]. rewrite IHa.
        destruct (run pool ops s1) as [os s2]. cbn in *. split; [reflexivity | exact IHb].
      + destruct (call_refines q s Hi) as [s1 [tr [x [K1 [K2 Hi1]]]]]. rewrite K1, K2.
        destruct (IH s1 Hi1) as [IHa IHb]. rewrite IHa.
        destruct (run pool ops s1) as [os s2]. cbn in *. split; [reflexivity | exact IHb].
  Qed.

  Lemma inv_init : inv_sys sys_init.
  Proof.
    unfold inv_sys, inv_pair, coherent_pm. cbn.
    repeat split; try reflexivity; intros x [].
  Qed.
End Refine.

Definition guard (pool : list pval) : Prop :=
  NoDup (map code (pool_side SInv pool)) /\ NoDup (map code (pool_side SIO pool)).

Definition coherent (s : sys) : Prop :=
  forall L, read_handler L s = chain_clo (handlers (layer_pm L s)).

Lemma inv_sys_coherent : forall pool s, inv_sys pool s -> coherent s.
Proof. intros pool s [[Hci [Hco _]] [Hsi [Hso _]]] L. destruct L; cbn; assumption. Qed.

Lemma refines_spec : forall pool, guard pool -> forall ops,
  spec_run pool ops ssys_init = (fst (run pool ops sys_init), abs (snd (run pool ops sys_init))) /\
  coherent (snd (run pool ops sys_init)).
Proof.
  intros pool [Gi Go] ops.
  destruct (run_refines pool (NoDup_code_inj _ Gi) (NoDup_code_inj _ Go) ops sys_init (inv_init pool))
    as [H1 H2].
  split; [exact H1 | eapply inv_sys_coherent; exact H2].
Qed.

Lemma spec_list_abs : forall L s, spec_list L (abs s) = handlers (layer_pm L s).
Proof. intros [| | |] s; reflexivity. Qed.

Lemma chain_is_fold : forall pool, guard pool -> forall ops L,
  let s := snd (run pool ops sys_init) in
  let t := snd (spec_run pool ops ssys_init) in
  read_handler L s = fold_right CWrap CDefault (spec_list L t) /\
  (forall (S : Type) (mid : list mop -> S -> option S) (core : @kont S),
      apply mid L core (read_handler L s) = chain mid L (spec_list L t) core).
Proof.
  intros pool G ops L s t. subst s t.
  destruct (refines_spec pool G ops) as [H1 H2]. rewrite H1. cbn [snd].
  rewrite spec_list_abs. rewrite (H2 L).
  split; [reflexivity | intros S mid core; apply apply_chain].
Qed.

(* without the guard the closure is still the fold of the manager's own list, and no
   operation panics with an index error: "never corrupts the chain" *)
Lemma pm_ops_coherent : forall hs p, coherent_pm p ->
  (exists p', pm_use hs p = Some p' /\ coherent_pm p') /\
  (exists p', pm_unuse hs p = Some p' /\ coherent_pm p').
Proof.
  intros hs p Hc. split.
  - rewrite pm_use_spec. eexists. split; [reflexivity|reflexivity].
  - rewrite pm_unuse_spec by exact Hc. eexists. split; [reflexivity|reflexivity].
Qed.

(* ------------------------------------------------------------------ *)
(* the trace of a call through pass-through handlers                    *)

Fixpoint onion_trace (ls : list layer) (lst : layer -> list handler) (r : req) (x : res) : list ev :=
  match ls with
  | [] => [ECore r]
  | L :: ls' => enters L (lst L) r ++ onion_trace ls' lst r x ++ exits L (rev (lst L)) x
  end.

(* trace and result of a call through pass-through handlers, whatever the context state and the
   outcome of the method: what every layer sees on the way in and on the way back *)
Fixpoint onion_tr (ls : list layer) (lst : layer -> list handler) (r : req) : list ev * res :=
  match ls with
  | [] => ([ECore r], core_res r)
  | L :: ls' =>
      let '(t, x) := match cut L r with
                     | Some x => ([], x)
                     | None => let '(t, x) := onion_tr ls' lst r in (t, back L x)
                     end in
      (enters L (lst L) r ++ t ++ exits_if L (lst L) x, x)
  end.

Lemma call_from_plain_gen : forall (S : Type) (mid : list mop -> S -> option S)
  (rd : layer -> S -> clo) (lst : layer -> list handler) (s : S),
  (forall u, mid [] u = Some u) ->
  (forall L, rd L s = chain_clo (lst L)) -> (forall L, Forall plain (lst L)) ->
  forall ls r,
  call_from mid rd ls r s = (s, fst (onion_tr ls lst r), snd (onion_tr ls lst r)).
Proof.
  intros S mid rd lst s Hnil Hrd Hp ls. induction ls as [|L ls IH]; intros r.
  - reflexivity.
  - cbn [call_from onion_tr]. rewrite Hrd, apply_chain.
    destruct (cut L r) as [x|] eqn:Ec.
    + cbn [fst snd]. apply chain_plain_gen; [exact Hnil | apply Hp |].
      unfold below. rewrite Ec. reflexivity.
    + destruct (onion_tr ls lst r) as [t x] eqn:Eo. cbn [fst snd].
      apply chain_plain_gen; [exact Hnil | apply Hp |].
      unfold below. rewrite Ec, IH, Eo. reflexivity.
Qed.

Definition plain_req (r : req) : Prop := ctx_mark r = None /\ meth_mark r = None /\ fault_mark r = None.

Lemma onion_tr_plain : forall lst r, plain_req r ->
  onion_tr layers lst r = (onion_trace layers lst r (ROk (r ++ [99%N])), ROk (r ++ [99%N])).
Proof.
  intros lst r [Hlive [Hm Hf]]. unfold layers. cbn [onion_tr onion_trace cut]. rewrite Hf, Hlive.
  unfold core_res, payload. rewrite Hm, Hf. unfold strip_meth. rewrite Hm. unfold strip_ctx. rewrite Hlive.
  cbn [back]. unfold exits_if. cbn [returns]. reflexivity.
Qed.

Lemma onion_tr_done : forall lst r m, fault_mark r = None -> ctx_mark r = Some m ->
  onion_tr layers lst r =
  (enters LCI (lst LCI) r ++ (enters LCO (lst LCO) r ++ [] ++ exits LCO (rev (lst LCO)) (RErr m))
      ++ exits LCI (rev (lst LCI)) (RErr m), RErr m).
Proof.
  intros lst r m Hf Hdone. unfold layers. cbn [onion_tr cut]. rewrite Hf, Hdone.
  cbn [back]. unfold exits_if. cbn [returns]. reflexivity.
Qed.

(* the method fails (returns an error / panics): what every layer sees coming back *)
(* the innermost client layer fails (a transport fault): each client handler is entered exactly
   once and what the transport answered travels back unchanged through every one of them: no
   built-in layer retries the request or swallows the error *)
Lemma back_errors : forall e,
  back LCI (RErr e) = RErr e /\ back LSO (RErr e) = RErr e /\ back LSI (RErr e) = RErr e /\
  back LCI RPanic = RPanic /\ (forall L t, back L (ROk t) = ROk t).
Proof. intros e. repeat split. intros [| | |] t; reflexivity. Qed.

Lemma onion_tr_fault : forall lst r f, fault_mark r = Some f ->
  onion_tr layers lst r =
  (enters LCI (lst LCI) r ++ (enters LCO (lst LCO) r ++ [] ++ exits_if LCO (lst LCO) (fault_res f))
      ++ exits_if LCI (lst LCI) (fault_res f), fault_res f).
Proof.
  intros lst r f Hf. unfold layers. cbn [onion_tr cut]. rewrite Hf.
  assert (Hb : back LCI (fault_res f) = fault_res f).
  { unfold fault_res. repeat (match goal with |- context [if ?c then _ else _] => destruct c end); reflexivity. }
  rewrite Hb. reflexivity.
Qed.

Lemma onion_tr_fails : forall lst r, ctx_mark r = None -> fault_mark r = None ->
  (meth_mark r = Some 8001%N ->
   onion_tr layers lst r =
   (enters LCI (lst LCI) r ++ (enters LCO (lst LCO) r ++ (enters LSO (lst LSO) r ++
      (enters LSI (lst LSI) r ++ [ECore r] ++ exits LSI (rev (lst LSI)) (RErr 77))
      ++ exits LSO (rev (lst LSO)) (RErr 77))
      ++ exits LCO (rev (lst LCO)) (RWire 77))
      ++ exits LCI (rev (lst LCI)) (RErr 77), RErr 77)) /\
  (meth_mark r = Some 8002%N ->
   onion_tr layers lst r =
   (enters LCI (lst LCI) r ++ (enters LCO (lst LCO) r ++ (enters LSO (lst LSO) r ++
      (enters LSI (lst LSI) r ++ [ECore r] ++ [])
      ++ exits LSO (rev (lst LSO)) (RErr 78))
      ++ exits LCO (rev (lst LCO)) (RWire 78))
      ++ exits LCI (rev (lst LCI)) (RErr 78), RErr 78)).
Proof.
  intros lst r Hlive Hf. split; intros Hm; unfold layers; cbn [onion_tr cut]; rewrite Hf, Hlive;
    unfold core_res; rewrite Hm; cbn [N.eqb Pos.eqb back]; unfold exits_if; cbn [returns]; reflexivity.
Qed.

Definition pool_plain (pool : list pval) : Prop :=
  Forall plain (pool_side SInv pool) /\ Forall plain (pool_side SIO pool).

Lemma Forall_incl : forall (A : Type) (P : A -> Prop) l l', Forall P l' -> incl l l' -> Forall P l.
Proof.
  intros A P l l' H Hi. apply Forall_forall. intros x Hx.
  eapply Forall_forall; [exact H | apply Hi; exact Hx].
Qed.

Lemma call_plain_any : forall pool, guard pool -> pool_plain pool -> forall ops r,
  let s := snd (run pool ops sys_init) in
  let t := snd (spec_run pool ops ssys_init) in
  call pool r s = (s, fst (onion_tr layers (fun L => spec_list L t) r),
                   snd (onion_tr layers (fun L => spec_list L t) r)).
Proof.
  intros pool [Gi Go] [Pi Po] ops r s t. subst s t.
  destruct (run_refines pool (NoDup_code_inj _ Gi) (NoDup_code_inj _ Go) ops sys_init (inv_init pool))
    as [H1 H2]. change (abs sys_init) with ssys_init in H1. rewrite H1. cbn [snd].
  set (s := snd (run pool ops sys_init)) in *.
  unfold call. apply call_from_plain_gen.
  - reflexivity.
  - intros L. rewrite spec_list_abs. apply (inv_sys_coherent pool s H2).
  - intros L. rewrite spec_list_abs.
    destruct H2 as [[_ [_ [Hci Hco]]] [_ [_ [Hsi Hso]]]].
    destruct L; cbn [layer_pm];
      [ exact (Forall_incl _ _ _ _ Pi Hci) | exact (Forall_incl _ _ _ _ Po Hco)
      | exact (Forall_incl _ _ _ _ Po Hso) | exact (Forall_incl _ _ _ _ Pi Hsi) ].
Qed.

Lemma trace_onion : forall pool, guard pool -> pool_plain pool -> forall ops r, plain_req r ->
  let s := snd (run pool ops sys_init) in
  let t := snd (spec_run pool ops ssys_init) in
  call pool r s = (s, onion_trace layers (fun L => spec_list L t) r (ROk (r ++ [99%N])),
                   ROk (r ++ [99%N])).
Proof.
  intros pool G P ops r Hr s t. subst s t.
  rewrite (call_plain_any pool G P ops r), (onion_tr_plain _ r Hr). reflexivity.
Qed.

(* ------------------------------------------------------------------ *)
(* Use/Unuse concurrent with calls                                      *)

Definition proj (o : unit * list ev * res) : list ev * res := (snd (fst o), snd o).

Definition caller_ok (c : caller) : Prop :=
  snaps c = map chain_clo (slists c) /\
  forall o, cdone c = Some o ->
    o = proj (onion_lists layers (slists c) (creq c) tt) /\ snd o <> RStuck /\
    (length (slists c) <= length layers)%nat.

Definition thread_ok (t : thread) : Prop :=
  match t with TMut _ => True | TCall c => caller_ok c end.

Lemma eval_is_onion : forall ls lists r u,
  eval_from ls (map chain_clo lists) r u = onion_lists ls lists r u.
Proof.
  intros ls. induction ls as [|L ls IH]; intros lists r u; [reflexivity|].
  destruct lists as [|l lists]; [reflexivity|].
  cbn [map eval_from onion_lists]. rewrite apply_chain.
  apply chain_ext. apply below_ext. intros r' u'. apply IH.
Qed.

Lemma set_pm_coherent : forall n sd p s, coherent s -> coherent_pm p -> coherent (set_pm n sd p s).
Proof.
  intros n sd p s Hc Hp L. specialize (Hc L).
  destruct n, sd, L; cbn in *; try exact Hc; exact Hp.
Qed.

Lemma get_pm_coherent : forall n sd s, coherent s -> coherent_pm (get_pm n sd s).
Proof.
  intros n sd s Hc. destruct n, sd; cbn.
  - exact (Hc LCI). - exact (Hc LCO). - exact (Hc LSI). - exact (Hc LSO).
Qed.

Lemma aop_step_coherent : forall a s s', coherent s -> aop_step a s = Some s' -> coherent s'.
Proof.
  intros a s s' Hc H. destruct a as [n sd hs|n sd hs]; cbn [aop_step] in H.
  - destruct (pm_use hs (get_pm n sd s)) as [p|] eqn:E; [|discriminate]. injection H as <-.
    apply set_pm_coherent; [exact Hc | eapply pm_use_coherent; exact E].
  - destruct (pm_unuse hs (get_pm n sd s)) as [p|] eqn:E; [|discriminate]. injection H as <-.
    apply set_pm_coherent; [exact Hc |].
    eapply pm_unuse_coherent; [apply get_pm_coherent; exact Hc | exact E].
Qed.

(* a mutator step never fails: no index panic *)
Lemma aop_step_total : forall a s, coherent s -> exists s', aop_step a s = Some s'.
Proof.
  intros a s Hc. destruct a as [n sd hs|n sd hs]; cbn [aop_step].
  - rewrite pm_use_spec. eauto.
  - rewrite pm_unuse_spec by (apply get_pm_coherent; exact Hc). eauto.
Qed.

Lemma layer_read : forall L s, built (layer_pm L s) = read_handler L s.
Proof. intros [| | |] s; reflexivity. Qed.

Lemma caller_step_ok : forall s c c', coherent s -> caller_ok c ->
  caller_step s c = Some c' -> caller_ok c'.
Proof.
  intros s c c' Hc [Hs Hd] H. unfold caller_step in H.
  destruct (cdone c) as [o|] eqn:Ed; [discriminate|].
  destruct (nth_error layers (length (snaps c))) as [L|] eqn:El; [|discriminate].
  assert (Hsn : snaps c ++ [built (layer_pm L s)] =
                map chain_clo (slists c ++ [handlers (layer_pm L s)])).
  { rewrite map_app, Hs. cbn [map]. rewrite layer_read, (Hc L). reflexivity. }
  rewrite Hsn in H. rewrite eval_is_onion in H.
  destruct (onion_lists layers (slists c ++ [handlers (layer_pm L s)]) (creq c) tt) as [[u t] x] eqn:Eo.
  injection H as <-. split; cbn [snaps slists cdone creq].
  - reflexivity.
  - intros o Ho. rewrite Eo. cbn.
    assert (Hlen : (length (slists c ++ [handlers (layer_pm L s)]) <= length layers)%nat).
    { rewrite app_length. cbn [length].
      assert (length (snaps c) < length layers)%nat by (apply nth_error_Some; congruence).
      rewrite Hs, map_length in H. lia. }
    destruct x; try discriminate Ho; injection Ho as <-; (split; [reflexivity | split; [discriminate | exact Hlen]]).
Qed.

Lemma Forall_upd_nth : forall (A : Type) (P : A -> Prop) l i x,
  Forall P l -> P x -> Forall P (upd_nth i x l).
Proof.
  intros A P l. induction l as [|a l IH]; intros i x Hl Hx; [destruct i; constructor|].
  inversion Hl; subst. destruct i; cbn; constructor; auto.
Qed.

Lemma cstep_ok : forall cs i cs', coherent (shared cs) -> Forall thread_ok (threads cs) ->
  cstep cs i = Some cs' -> coherent (shared cs') /\ Forall thread_ok (threads cs').
Proof.
  intros cs i cs' Hc Ht H. unfold cstep in H.
  destruct (nth_error (threads cs) i) as [[[|a r]|c]|] eqn:En; try discriminate.
  - destruct (aop_step a (shared cs)) as [s'|] eqn:Ea; [|discriminate]. injection H as <-.
    cbn. split; [eapply aop_step_coherent; eauto | apply Forall_upd_nth; [exact Ht | exact I]].
  - destruct (caller_step (shared cs) c) as [c'|] eqn:Ec; [|discriminate]. injection H as <-.
    cbn. split; [exact Hc|]. apply Forall_upd_nth; [exact Ht|].
    cbn. eapply caller_step_ok; eauto.
    eapply Forall_forall in Ht; [|eapply nth_error_In; exact En]. exact Ht.
Qed.

Lemma crun_ok : forall sched cs cs', coherent (shared cs) -> Forall thread_ok (threads cs) ->
  crun cs sched = Some cs' -> coherent (shared cs') /\ Forall thread_ok (threads cs').
Proof.
  intros sched. induction sched as [|i sched IH]; intros cs cs' Hc Ht H.
  - injection H as <-. split; assumption.
  - cbn in H. destruct (cstep cs i) as [cs1|] eqn:E; [|discriminate].
    destruct (cstep_ok cs i cs1 Hc Ht E) as [Hc1 Ht1]. eapply IH; eauto.
Qed.

(* what a thread has read is never changed by anybody's later steps *)
Definition extends (c c' : caller) : Prop :=
  creq c' = creq c /\ (exists m, snaps c' = snaps c ++ m) /\ (exists m, slists c' = slists c ++ m) /\
  (forall o, cdone c = Some o -> c' = c).

Lemma extends_refl : forall c, extends c c.
Proof. intros c. repeat split; try (exists []; rewrite app_nil_r; reflexivity). Qed.

Lemma extends_trans : forall a b c, extends a b -> extends b c -> extends a c.
Proof.
  intros a b c [R1 [[m1 S1] [[n1 L1] D1]]] [R2 [[m2 S2] [[n2 L2] D2]]]. repeat split.
  - congruence.
  - exists (m1 ++ m2). rewrite S2, S1, app_assoc. reflexivity.
  - exists (n1 ++ n2). rewrite L2, L1, app_assoc. reflexivity.
  - intros o Ho. specialize (D1 o Ho). subst b. exact (D2 o Ho).
Qed.

Lemma caller_step_extends : forall s c c', caller_step s c = Some c' -> extends c c'.
Proof.
  intros s c c' H. unfold caller_step in H.
  destruct (cdone c) as [o|] eqn:Ed; [discriminate|].
  destruct (nth_error layers (length (snaps c))) as [L|]; [|discriminate].
  destruct (eval_from layers (snaps c ++ [built (layer_pm L s)]) (creq c) tt) as [[u t] x].
  injection H as <-. repeat split; cbn; eauto. intros o Ho. congruence.
Qed.

Lemma nth_upd_same : forall (A : Type) (l : list A) i x y,
  nth_error l i = Some y -> nth_error (upd_nth i x l) i = Some x.
Proof.
  intros A l. induction l as [|a l IH]; intros i x y H; destruct i; cbn in *; try discriminate; eauto.
Qed.

Lemma nth_upd_other : forall (A : Type) (l : list A) i j x,
  i <> j -> nth_error (upd_nth i x l) j = nth_error l j.
Proof.
  intros A l. induction l as [|a l IH]; intros i j x H; destruct i, j; cbn; try reflexivity;
    try congruence. apply IH. congruence.
Qed.

Lemma cstep_stable : forall cs i cs' j c, cstep cs i = Some cs' ->
  nth_error (threads cs) j = Some (TCall c) ->
  exists c', nth_error (threads cs') j = Some (TCall c') /\ extends c c' /\ (i <> j -> c' = c).
Proof.
  intros cs i cs' j c H Hj. unfold cstep in H.
  destruct (nth_error (threads cs) i) as [[[|a r]|ci]|] eqn:En; try discriminate.
  - destruct (aop_step a (shared cs)) as [s'|]; [|discriminate]. injection H as <-. cbn.
    assert (i <> j) by (intros ->; congruence).
    exists c. rewrite nth_upd_other by assumption. auto using extends_refl.
  - destruct (caller_step (shared cs) ci) as [c'|] eqn:Ec; [|discriminate]. injection H as <-. cbn.
    destruct (Nat.eq_dec i j) as [->|Hne].
    + rewrite Hj in En. injection En as <-. exists c'.
      rewrite (nth_upd_same _ _ _ _ _ Hj). split; [reflexivity|].
      split; [eapply caller_step_extends; exact Ec | congruence].
    + exists c. rewrite nth_upd_other by assumption. auto using extends_refl.
Qed.

Lemma crun_stable : forall sched cs cs' j c, crun cs sched = Some cs' ->
  nth_error (threads cs) j = Some (TCall c) ->
  exists c', nth_error (threads cs') j = Some (TCall c') /\ extends c c'.
Proof.
  intros sched. induction sched as [|i sched IH]; intros cs cs' j c H Hj.
  - injection H as <-. exists c. auto using extends_refl.
  - cbn in H. destruct (cstep cs i) as [cs1|] eqn:E; [|discriminate].
    destruct (cstep_stable cs i cs1 j c E Hj) as [c1 [H1 [X1 _]]].
    destruct (IH cs1 cs' j c1 H H1) as [c2 [H2 X2]].
    exists c2. split; [exact H2 | eapply extends_trans; eauto].
Qed.

(* ------------------------------------------------------------------ *)
(* repeated handlers; classification at the Client/Service level        *)

Lemma code_in_single : forall h x, code_in [h] x = N.eqb (code x) (code h).
Proof. intros h x. unfold code_in. cbn. destruct (N.eqb (code x) (code h)); reflexivity. Qed.

Lemma repeated_use_unuse : forall p h p1 p2 p3,
  pm_use [h] p = Some p1 -> pm_use [h] p1 = Some p2 -> pm_unuse [h] p2 = Some p3 ->
  handlers p2 = handlers p ++ [h; h] /\ built p2 = chain_clo (handlers p ++ [h; h]) /\
  handlers p3 = filter (fun x => negb (N.eqb (code x) (code h))) (handlers p) /\
  built p3 = chain_clo (handlers p3).
Proof.
  intros p h p1 p2 p3 H1 H2 H3.
  rewrite pm_use_spec in H1. injection H1 as <-.
  rewrite pm_use_spec in H2. cbn [handlers] in H2. rewrite <- app_assoc in H2. cbn [app] in H2.
  injection H2 as <-.
  rewrite pm_unuse_spec in H3 by reflexivity. injection H3 as <-. cbn [handlers built].
  repeat split.
  rewrite filter_app. cbn [filter]. rewrite code_in_single, N.eqb_refl. cbn [negb].
  rewrite app_nil_r. apply filter_ext_in'. intros x _. rewrite code_in_single. reflexivity.
Qed.

Lemma node_use_classified : forall vs p, forallb pval_valid vs = true ->
  exists p', node_use vs p = (p', SOk) /\
    handlers (pinv p') = handlers (pinv p) ++ flat_map (part SInv) vs /\
    handlers (pio p') = handlers (pio p) ++ flat_map (part SIO) vs.
Proof.
  intros vs p Hv. unfold node_use, node_op. rewrite separate_spec, Hv.
  rewrite !use_if_nonempty. eexists. split; [reflexivity|]. split; reflexivity.
Qed.

Lemma node_op_invalid : forall vs p, forallb pval_valid vs = false ->
  node_use vs p = (p, SPanicInvalid) /\ node_unuse vs p = (p, SPanicInvalid).
Proof.
  intros vs p Hv. unfold node_use, node_unuse, node_op. rewrite separate_spec, Hv. split; reflexivity.
Qed.

Lemma two_sided_parts : forall hi ho m,
  part SInv (VStruct (Some (hi, ho)) m) = [hi] /\ part SIO (VStruct (Some (hi, ho)) m) = [ho].
Proof. intros. split; reflexivity. Qed.

(* ------------------------------------------------------------------ *)
(* without any guard on code pointers: the installed closure always is the chain of
   the manager's own list, and rebuildHandler never indexes out of range *)

Definition coh_pair (p : pmpair) : Prop := coherent_pm (pinv p) /\ coherent_pm (pio p).
Definition coh_sys (s : sys) : Prop := coh_pair (client s) /\ coh_pair (service s).

Lemma node_use_coh : forall vs p, coh_pair p ->
  coh_pair (fst (node_use vs p)) /\ snd (node_use vs p) <> SPanicIndex.
Proof.
  intros vs p [Hi Ho]. unfold node_use, node_op. destruct (separate vs) as [[invs ios]|].
  - rewrite !use_if_nonempty. cbn [fst snd]. split; [|discriminate].
    split; unfold coherent_pm; cbn [pinv pio handlers built].
    + destruct invs; cbn [nonempty]; [rewrite app_nil_r; exact Hi | reflexivity].
    + destruct ios; cbn [nonempty]; [rewrite app_nil_r; exact Ho | reflexivity].
  - cbn. split; [split; assumption | discriminate].
Qed.

Lemma node_unuse_coh : forall vs p, coh_pair p ->
  coh_pair (fst (node_unuse vs p)) /\ snd (node_unuse vs p) <> SPanicIndex.
Proof.
  intros vs p [Hi Ho]. unfold node_unuse, node_op. destruct (separate vs) as [[invs ios]|].
  - rewrite (unuse_if_nonempty _ _ Hi), (unuse_if_nonempty _ _ Ho). cbn [fst snd].
    split; [|discriminate]. split; reflexivity.
  - cbn. split; [split; assumption | discriminate].
Qed.

Lemma coh_set : forall n p s, coh_sys s -> coh_pair p -> coh_sys (set_node n p s).
Proof. intros [|] p s [Hc Hs] Hp; split; assumption. Qed.
Lemma coh_get : forall n s, coh_sys s -> coh_pair (get_node n s).
Proof. intros [|] s [Hc Hs]; assumption. Qed.

Lemma mop_step_coh : forall pool m s, coh_sys s ->
  coh_sys (fst (mop_step pool m s)) /\ snd (mop_step pool m s) <> SPanicIndex.
Proof.
  intros pool m s Hc. destruct m as [n ixs|n ixs]; cbn [mop_step];
    (destruct (resolve pool ixs) as [vs|]; [|cbn; split; [exact Hc | discriminate]]).
  - destruct (node_use_coh vs (get_node n s) (coh_get n s Hc)) as [H1 H2].
    destruct (node_use vs (get_node n s)) as [p st]. cbn in *.
    split; [apply coh_set; assumption | exact H2].
  - destruct (node_unuse_coh vs (get_node n s) (coh_get n s Hc)) as [H1 H2].
    destruct (node_unuse vs (get_node n s)) as [p st]. cbn in *.
    split; [apply coh_set; assumption | exact H2].
Qed.

Definition Rcoh (s t : sys) : Prop := coh_sys s /\ t = s.

Lemma run_mops_coh : forall pool ms s t, Rcoh s t ->
  (exists s' t', run_mops pool ms s = Some s' /\ run_mops pool ms t = Some t' /\ Rcoh s' t') \/
  (run_mops pool ms s = None /\ run_mops pool ms t = None).
Proof.
  intros pool ms. induction ms as [|m ms IH]; intros s t [Hc ->].
  - left. exists s, s. split; [reflexivity|]. split; [reflexivity|]. split; [exact Hc|reflexivity].
  - cbn [run_mops]. destruct (mop_step_coh pool m s Hc) as [H1 _].
    destruct (mop_step pool m s) as [s1 st]. cbn in H1.
    destruct st; try (right; split; reflexivity).
    apply IH. split; [exact H1 | reflexivity].
Qed.

Lemma apply_rel_same : forall pool L c k, krel Rcoh k k ->
  krel Rcoh (apply (run_mops pool) L k c) (apply (run_mops pool) L k c).
Proof.
  intros pool L c k Hk. induction c as [|h n IH]; [exact Hk|].
  cbn [apply]. apply (wrap_rel Rcoh _ _ (run_mops_coh pool)). exact IH.
Qed.

Lemma call_from_coh : forall pool ls,
  krel Rcoh (call_from (run_mops pool) read_handler ls) (call_from (run_mops pool) read_handler ls).
Proof.
  intros pool ls. induction ls as [|L ls IH].
  - intros r s t HR. cbn. unfold execute. destruct HR as [Hc ->]. exists s, s. eexists. eexists.
    split; [reflexivity|]. split; [reflexivity|]. split; [exact Hc|reflexivity].
  - intros r s t HR. cbn [call_from]. destruct HR as [Hc ->].
    exact (apply_rel_same pool L (read_handler L s) _ (below_rel Rcoh L _ _ IH) r s s (conj Hc eq_refl)).
Qed.

Lemma call_coh : forall pool r s, coh_sys s -> coh_sys (fst (fst (call pool r s))).
Proof.
  intros pool r s Hc.
  destruct (call_from_coh pool layers r s s (conj Hc eq_refl)) as [s' [t' [tr [x [K1 [_ [Hc' _]]]]]]].
  unfold call. rewrite K1. exact Hc'.
Qed.

Definition no_index_panic (o : out) : Prop := o <> OutStatus SPanicIndex.

Lemma run_coh : forall pool ops s, coh_sys s ->
  coh_sys (snd (run pool ops s)) /\ Forall no_index_panic (fst (run pool ops s)).
Proof.
  intros pool ops. induction ops as [|o ops IH]; intros s Hc.
  - cbn. split; [exact Hc | constructor].
  - destruct o as [m|q]; cbn [run].
    + destruct (mop_step_coh pool m s Hc) as [H1 H2].
      destruct (mop_step pool m s) as [s1 st]. cbn in H1, H2.
      destruct (IH s1 H1) as [Ha Hb]. destruct (run pool ops s1) as [os s2]. cbn in *.
      split; [exact Ha | constructor; [|exact Hb]]. unfold no_index_panic. congruence.
    + pose proof (call_coh pool q s Hc) as H1.
      destruct (call pool q s) as [[s1 tr] x]. cbn in H1.
      destruct (IH s1 H1) as [Ha Hb]. destruct (run pool ops s1) as [os s2]. cbn in *.
      split; [exact Ha | constructor; [|exact Hb]]. unfold no_index_panic. discriminate.
Qed.

Lemma coh_sys_coherent : forall s, coh_sys s -> coherent s.
Proof. intros s [[Hci Hco] [Hsi Hso]] L. destruct L; cbn; assumption. Qed.

Lemma never_corrupts : forall pool ops,
  coherent (snd (run pool ops sys_init)) /\ Forall no_index_panic (fst (run pool ops sys_init)).
Proof.
  intros pool ops. destruct (run_coh pool ops sys_init) as [H1 H2].
  - repeat split; reflexivity.
  - split; [apply coh_sys_coherent; exact H1 | exact H2].
Qed.

(* ------------------------------------------------------------------ *)
(* several mutators on one manager                                      *)

Lemma crun_coherent : forall sched cs cs', coherent (shared cs) -> crun cs sched = Some cs' ->
  coherent (shared cs').
Proof.
  intros sched. induction sched as [|i sched IH]; intros cs cs' Hc H.
  - injection H as <-. exact Hc.
  - cbn in H. destruct (cstep cs i) as [cs1|] eqn:E; [|discriminate].
    apply (IH cs1 cs'); [|exact H]. unfold cstep in E.
    destruct (nth_error (threads cs) i) as [[[|a r]|c]|]; try discriminate.
    + destruct (aop_step a (shared cs)) as [s'|] eqn:Ea; [|discriminate]. injection E as <-.
      cbn. eapply aop_step_coherent; eauto.
    + destruct (caller_step (shared cs) c); [|discriminate]. injection E as <-. exact Hc.
Qed.

Lemma pm_step_spec : forall o p, coherent_pm p ->
  pm_step o p = Some {| handlers := hstep o (handlers p); built := chain_clo (hstep o (handlers p)) |}.
Proof.
  intros [hs|hs] p Hc; cbn [pm_step hstep].
  - apply pm_use_spec.
  - apply pm_unuse_spec. exact Hc.
Qed.

Lemma pm_run_spec : forall ops p, coherent_pm p ->
  exists p', pm_run ops p = Some p' /\ handlers p' = hrun ops (handlers p) /\ coherent_pm p'.
Proof.
  intros ops. induction ops as [|o ops IH]; intros p Hc.
  - exists p. repeat split. exact Hc.
  - cbn [pm_run]. rewrite (pm_step_spec o p Hc).
    destruct (IH {| handlers := hstep o (handlers p); built := chain_clo (hstep o (handlers p)) |} eq_refl)
      as [p' [H1 [H2 H3]]].
    exists p'. split; [exact H1|]. split; [exact H2 | exact H3].
Qed.

Lemma filter_filter_comm : forall (A : Type) (f g : A -> bool) l,
  filter f (filter g l) = filter g (filter f l).
Proof.
  intros A f g l. induction l as [|a l IH]; [reflexivity|].
  cbn. destruct (f a) eqn:Ef, (g a) eqn:Eg; cbn; rewrite ?Ef, ?Eg, IH; reflexivity.
Qed.

Lemma filter_all : forall (A : Type) (f : A -> bool) l, forallb f l = true -> filter f l = l.
Proof.
  intros A f l. induction l as [|a l IH]; intros H; [reflexivity|].
  cbn in *. apply andb_true_iff in H as [Ha Hl]. rewrite Ha, IH by exact Hl. reflexivity.
Qed.

Lemma filter_none : forall (A : Type) (f : A -> bool) l, forallb (fun x => negb (f x)) l = true -> filter f l = [].
Proof.
  intros A f l. induction l as [|a l IH]; intros H; [reflexivity|].
  cbn in *. apply andb_true_iff in H as [Ha Hl]. destruct (f a); [discriminate|]. apply IH. exact Hl.
Qed.

Lemma ptr_matches_other : forall own hs c, forallb (fun h => negb (own (code h))) hs = true ->
  own c = true -> ptr_matches c hs = false.
Proof.
  intros own hs c. induction hs as [|h hs IH]; intros H Hc; [reflexivity|].
  cbn in *. apply andb_true_iff in H as [Hh Hr].
  destruct (N.eqb c (code h)) eqn:E; [|apply IH; assumption].
  apply N.eqb_eq in E. subst c. rewrite Hc in Hh. discriminate.
Qed.

Definition owned (own : N -> bool) (l : list handler) : list handler := filter (fun h => own (code h)) l.

Lemma hstep_mine : forall own o l, is_mine own o = true -> owned own (hstep o l) = hstep o (owned own l).
Proof.
  intros own [hs|hs] l Hm; unfold is_mine in Hm; cbn [pop_handlers] in Hm; cbn [hstep]; unfold owned.
  - rewrite filter_app. rewrite (filter_all _ _ hs Hm). reflexivity.
  - apply filter_filter_comm.
Qed.

Lemma hstep_other : forall own o l, is_other own o = true -> owned own (hstep o l) = owned own l.
Proof.
  intros own [hs|hs] l Ho; unfold is_other in Ho; cbn [pop_handlers] in Ho; cbn [hstep]; unfold owned.
  - rewrite filter_app, (filter_none _ (fun h => own (code h)) hs Ho), app_nil_r. reflexivity.
  - rewrite filter_filter_comm. apply filter_all. apply forallb_forall. intros x Hx.
    apply filter_In in Hx as [_ Hx]. rewrite (ptr_matches_other own hs (code x) Ho Hx). reflexivity.
Qed.

(* the handlers a mutator owns end up exactly as if it had run alone, whatever the other
   mutators of the same manager (owning other code pointers) did in between *)
Lemma disjoint_mutators : forall own ops l,
  Forall (fun o => is_mine own o = true \/ is_other own o = true) ops ->
  owned own (hrun ops l) = hrun (filter (is_mine own) ops) (owned own l).
Proof.
  intros own ops. induction ops as [|o ops IH]; intros l Hf; [reflexivity|].
  inversion Hf as [|? ? Ho Hf']; subst. unfold hrun in *. cbn [fold_left filter].
  rewrite (IH _ Hf'). destruct (is_mine own o) eqn:Em.
  - cbn [fold_left]. rewrite (hstep_mine own o l Em). reflexivity.
  - destruct Ho as [Ho|Ho]; [congruence|]. rewrite (hstep_other own o l Ho). reflexivity.
Qed.

Lemma pm_run_disjoint : forall own ops p, coherent_pm p ->
  Forall (fun o => is_mine own o = true \/ is_other own o = true) ops ->
  exists p', pm_run ops p = Some p' /\ coherent_pm p' /\
    owned own (handlers p') = hrun (filter (is_mine own) ops) (owned own (handlers p)).
Proof.
  intros own ops p Hc Hf. destruct (pm_run_spec ops p Hc) as [p' [H1 [H2 H3]]].
  exists p'. split; [exact H1|]. split; [exact H3|]. rewrite H2. apply disjoint_mutators. exact Hf.
Qed.

(* system level: context already done, pass-through handlers *)
Lemma trace_done : forall pool, guard pool -> pool_plain pool -> forall ops r m,
  fault_mark r = None -> ctx_mark r = Some m ->
  let s := snd (run pool ops sys_init) in
  let t := snd (spec_run pool ops ssys_init) in
  call pool r s =
  (s, enters LCI (spec_list LCI t) r ++
      (enters LCO (spec_list LCO t) r ++ [] ++ exits LCO (rev (spec_list LCO t)) (RErr m)) ++
      exits LCI (rev (spec_list LCI t)) (RErr m), RErr m).
Proof.
  intros pool G P ops r m Hf Hdone s t. subst s t.
  rewrite (call_plain_any pool G P ops r), (onion_tr_done _ r m Hf Hdone). reflexivity.
Qed.

Lemma trace_fault : forall pool, guard pool -> pool_plain pool -> forall ops r f, fault_mark r = Some f ->
  let s := snd (run pool ops sys_init) in
  let lst := fun L => spec_list L (snd (spec_run pool ops ssys_init)) in
  call pool r s =
  (s, enters LCI (lst LCI) r ++ (enters LCO (lst LCO) r ++ [] ++ exits_if LCO (lst LCO) (fault_res f))
      ++ exits_if LCI (lst LCI) (fault_res f), fault_res f).
Proof.
  intros pool G P ops r f Hf s lst. subst s lst.
  rewrite (call_plain_any pool G P ops r), (onion_tr_fault _ r f Hf). reflexivity.
Qed.

Lemma trace_fails : forall pool, guard pool -> pool_plain pool -> forall ops r, ctx_mark r = None ->
  fault_mark r = None ->
  let s := snd (run pool ops sys_init) in
  let lst := fun L => spec_list L (snd (spec_run pool ops ssys_init)) in
  (meth_mark r = Some 8001%N ->
   call pool r s =
   (s, enters LCI (lst LCI) r ++ (enters LCO (lst LCO) r ++ (enters LSO (lst LSO) r ++
      (enters LSI (lst LSI) r ++ [ECore r] ++ exits LSI (rev (lst LSI)) (RErr 77))
      ++ exits LSO (rev (lst LSO)) (RErr 77))
      ++ exits LCO (rev (lst LCO)) (RWire 77))
      ++ exits LCI (rev (lst LCI)) (RErr 77), RErr 77)) /\
  (meth_mark r = Some 8002%N ->
   call pool r s =
   (s, enters LCI (lst LCI) r ++ (enters LCO (lst LCO) r ++ (enters LSO (lst LSO) r ++
      (enters LSI (lst LSI) r ++ [ECore r] ++ [])
      ++ exits LSO (rev (lst LSO)) (RErr 78))
      ++ exits LCO (rev (lst LCO)) (RWire 78))
      ++ exits LCI (rev (lst LCI)) (RErr 78), RErr 78)).
Proof.
  intros pool G P ops r Hlive Hf s lst. subst s lst.
  destruct (onion_tr_fails (fun L => spec_list L (snd (spec_run pool ops ssys_init))) r Hlive Hf) as [H1 H2].
  split; intros Hm; rewrite (call_plain_any pool G P ops r); [rewrite (H1 Hm) | rewrite (H2 Hm)]; reflexivity.
Qed.

(* a call leaves nothing behind in the managers (the chain is looked up at each call, there is no
   per-context copy of it): the state after a history is the same with or without calls in it *)
Lemma run_app_snd : forall pool a b s, snd (run pool (a ++ b) s) = snd (run pool b (snd (run pool a s))).
Proof.
  intros pool a. induction a as [|o a IH]; intros b s; [reflexivity|].
  destruct o as [m|q]; cbn [app run].
  - destruct (mop_step pool m s) as [s1 st]. specialize (IH b s1).
    destruct (run pool (a ++ b) s1), (run pool a s1). exact IH.
  - destruct (call pool q s) as [[s1 t] x]. specialize (IH b s1).
    destruct (run pool (a ++ b) s1), (run pool a s1). exact IH.
Qed.

Lemma calls_leave_no_state : forall pool, guard pool -> pool_plain pool -> forall ops q,
  snd (run pool (ops ++ [OCall q]) sys_init) = snd (run pool ops sys_init).
Proof.
  intros pool G P ops q. rewrite run_app_snd. cbn [run].
  rewrite (call_plain_any pool G P ops q). reflexivity.
Qed.
