(* C04: the step count of Model/DecBytes.v is linear in the input plus the iterations spun after the
   input ended, and the stated fuel always suffices.  Amortised by the potential
     psi s = steps s - spin s + K * P s,     P s = |rest s| + (0 if stuck s else 1):
   a decode that starts with input left pays for itself with the byte it consumes. *)
From Coq Require Import List ZArith NArith Bool Init.Byte Lia.
From HV Require Import Model.DecStream Model.DecBytes Proofs.DecBytesProofs.
Import ListNotations.
Local Notation len := List.length.
Local Open Scope Z_scope.

Definition K : Z := 400.
Definition c0 : Z := 100.           (* what one invocation of dec_tag may cost beyond what its sub-decodes pay *)

Definition P (s : st) : nat := (len (rest s) + (if stuck s then 0 else 1))%nat.
Definition wk (s : st) : Z := Z.of_N (steps s) - Z.of_N (spin s).
Definition psi (s : st) : Z := wk s + K * Z.of_nat (P s).

(* iterations spun are part of the excess: excess - spin never decreases *)
Definition sx (s : st) : Z := Z.of_N (excess s) - Z.of_N (spin s).

(* R, the work never decreases, spin stays within excess, and the potential rises by at most b *)
Definition Q (b : Z) (s s' : st) : Prop := R s s' /\ wk s <= wk s' /\ psi s' <= psi s + b /\ sx s <= sx s'.

Lemma P_mono : forall s s', R s s' -> (P s' <= P s)%nat.
Proof.
  intros s s' HR. pose proof (stuck_R s s' HR) as Hs. destruct HR as [[H1 [H2 _]] _]. unfold P.
  destruct (stuck s) eqn:E.
  - rewrite (Hs eq_refl). lia.
  - destruct (stuck s'); lia.
Qed.

Lemma Q_of : forall b s s', R s s' -> wk s <= wk s' -> wk s' <= wk s + b -> sx s <= sx s' -> Q b s s'.
Proof.
  intros b s s' HR H0 H Hx. split; [exact HR|]. split; [exact H0|]. split; [|exact Hx].
  unfold psi. pose proof (P_mono s s' HR). unfold K. lia.
Qed.

Lemma Q_refl : forall s, Q 0 s s.
Proof. intros s. split; [apply R_refl|]. repeat split; lia. Qed.
Lemma Q_trans : forall b1 b2 a b c, Q b1 a b -> Q b2 b c -> Q (b1 + b2) a c.
Proof. intros b1 b2 a b c [H1 [H2 [H3 H3']]] [H4 [H5 [H6 H6']]]. split; [eapply R_trans; eauto|]. repeat split; lia. Qed.
Lemma Q_le : forall b b' s s', Q b s s' -> b <= b' -> Q b' s s'.
Proof. intros b b' s s' [H1 [H2 [H3 H4]]] H. split; [exact H1|]. repeat split; lia. Qed.
Lemma Q_R : forall b s s', Q b s s' -> R s s'.
Proof. intros b s s' [H _]. exact H. Qed.
Lemma Q_P : forall b s s', Q b s s' -> (P s' <= P s)%nat.
Proof. intros b s s' [H _]. apply P_mono. exact H. Qed.
(* a negative budget means input was consumed (or the decoder got stuck) *)
Lemma Q_neg_P : forall b s s', Q b s s' -> b < 0 -> (P s' < P s)%nat.
Proof. intros b s s' [H1 [H2 [H3 _]]] Hb. unfold psi, K in H3. nia. Qed.

Lemma P0_stuck : forall s, P s = 0%nat -> stuck s = true.
Proof. intros s H. unfold P in H. destruct (stuck s); [reflexivity|lia]. Qed.

(* ---- state updates *)
Ltac qof := intros; apply Q_of; [auto using R_set_error, R_force_error, R_add_ref, R_add_class, R_add_alloc, R_add_excess,
  R_add_steps, R_set_corrupt, R_set_simple, R_reset_refs, R_skip_by, R_charge, R_add_rsv|unfold wk; cbn; lia|unfold wk; cbn; lia|unfold sx; cbn; lia].

Lemma Q_set_error : forall s k, Q 0 s (set_error s k). Proof. qof. Qed.
Lemma Q_force_error : forall s k, Q 0 s (force_error s k). Proof. qof. Qed.
Lemma Q_add_ref : forall s r, Q 0 s (add_ref s r).
Proof. intros. apply Q_of; [apply R_add_ref| | |]; unfold wk, sx, add_ref; destruct (simple s); cbn; lia. Qed.
Lemma Q_add_class : forall s c, Q 0 s (add_class s c). Proof. qof. Qed.
Lemma Q_add_alloc : forall s n, Q 1 s (add_alloc s n). Proof. qof. Qed.
Lemma Q_charge : forall s n, Q 1 s (charge s n).
Proof. intros. unfold charge. destruct (n =? 0)%N; [eapply Q_le; [apply Q_refl|lia]|apply Q_add_alloc]. Qed.
Lemma Q_skip_by : forall s n p, Q 0 s (skip_by s n p). Proof. qof. Qed.
Lemma Q_short_by : forall s e ex a u, (a <= u * (ex + N.of_nat (len (rest s))))%N ->
  Q 1 s (short_by s (merge (err s) e) ex a u).
Proof. intros. apply Q_of; [apply R_short_by; assumption|unfold wk; cbn; lia|unfold wk; cbn; lia|unfold sx; cbn; lia]. Qed.
Lemma stuck_add_alloc : forall s n, stuck (add_alloc s n) = stuck s.
Proof. reflexivity. Qed.
Lemma stuck_charge : forall s n, stuck (charge s n) = stuck s.
Proof. intros. unfold charge. destruct (n =? 0)%N; reflexivity. Qed.
Lemma Q_add_excess : forall s n, Q 0 s (add_excess s n). Proof. qof. Qed.
Lemma Q_add_rsv : forall s n, Q 0 s (add_rsv s n). Proof. qof. Qed.
Lemma Q_add_steps1 : forall s, Q 1 s (add_steps s 1). Proof. qof. Qed.
Lemma Q_set_corrupt : forall s, Q 0 s (set_corrupt s). Proof. qof. Qed.
Lemma Q_set_simple : forall s b, Q 0 s (set_simple s b). Proof. qof. Qed.
Lemma Q_reset_refs : forall s, Q 0 s (reset_refs s). Proof. qof. Qed.
Lemma Q_spin_by : forall s n p, lstop s = false -> Q 0 s (spin_by s n p).
Proof. intros. apply Q_of; [apply R_spin_by; assumption|unfold wk; cbn; lia|unfold wk; cbn; lia|unfold sx; cbn; lia]. Qed.

Lemma wk_set_rest : forall s r e d, wk (set_rest s r e d) = wk s + Z.of_N d.
Proof. intros. unfold wk. cbn. lia. Qed.
Lemma sx_set_rest : forall s r e d, sx (set_rest s r e d) = sx s.
Proof. reflexivity. Qed.

Lemma Q_next_byte : forall s, Q 1 s (snd (next_byte s)).
Proof. intros s. apply Q_of; [apply R_next_byte| | |]; rewrite next_byte_eq; cbn [snd]; rewrite ?wk_set_rest, ?sx_set_rest; lia. Qed.
Lemma Q_skip1 : forall s, Q 1 s (skip1 s).
Proof. intros s. apply Q_of; [apply R_skip1| | |]; rewrite skip1_eq; rewrite ?wk_set_rest, ?sx_set_rest; lia. Qed.
Lemma Q_read_int : forall s, Q 1 s (snd (read_int s)).
Proof. intros s. apply Q_of; [apply R_read_int| | |]; rewrite read_int_eq; cbn [snd]; rewrite ?wk_set_rest, ?sx_set_rest; lia. Qed.
Lemma Q_until_semi : forall s, Q 1 s (snd (until_semi s)).
Proof. intros s. apply Q_of; [apply R_until_semi| | |]; rewrite until_semi_eq; rewrite ?wk_set_rest, ?sx_set_rest; lia. Qed.
Lemma Q_read_time : forall s, Q 1 s (read_time s).
Proof.
  intros s. rewrite read_time_eq. replace 1 with (1 + 0) by lia. eapply Q_trans; [|apply Q_add_ref].
  apply Q_of; [apply R_set_rest; apply sl_readHMS| | |]; rewrite ?wk_set_rest, ?sx_set_rest; lia.
Qed.
Lemma Q_read_datetime : forall s, Q 1 s (read_datetime s).
Proof.
  intros s. rewrite read_datetime_eq. replace 1 with (1 + 0) by lia. eapply Q_trans; [|apply Q_add_ref].
  apply Q_of; [apply R_set_rest; apply sl_readDateTime| | |]; rewrite ?wk_set_rest, ?sx_set_rest; lia.
Qed.
Lemma Q_inf_txt : forall s, Q 1 s (snd (inf_txt s)).
Proof. intros s. unfold inf_txt. pose proof (Q_next_byte s) as H. destruct (next_byte s) as [b s1]. exact H. Qed.

(* NextByte with something left (or the first NextByte at the end of input): the potential falls by K *)
Lemma Q_next_byte_live : forall s, stuck s = false -> Q (1 - K) s (snd (next_byte s)).
Proof.
  intros s Hs. pose proof (Q_next_byte s) as [HR [Hw [_ Hx]]]. split; [exact HR|]. split; [exact Hw|]. split; [|exact Hx].
  assert (HP : (P (snd (next_byte s)) < P s)%nat).
  { unfold P at 2. rewrite Hs. rewrite next_byte_eq. cbn [snd]. unfold P, stuck, has_err. cbn [rest err set_rest].
    unfold s_nextByte. cbn [fst snd]. destruct (rest s) as [|b r] eqn:E.
    - cbn [fst snd]. unfold stuck, has_err in Hs. rewrite E in Hs. destruct (err s); [discriminate|]. cbn. lia.
    - cbn [fst snd len]. destruct r; [destruct (match merge (err s) None with Some _ => true | None => false end)|]; cbn; lia. }
  unfold psi. assert (wk (snd (next_byte s)) = wk s + 1) as ->.
  { rewrite next_byte_eq. cbn [snd]. rewrite wk_set_rest. lia. }
  unfold K. lia.
Qed.

(* ---- result trees: every state within budget, and no RFuel anywhere *)
Fixpoint allQ {A} (b : Z) (s0 : st) (r : out A) : Prop :=
  match r with
  | ROk _ s => Q b s0 s
  | RHaz _ s k => Q b s0 s /\ allQ b s0 k
  | RFuel => False
  | _ => True
  end.

Lemma allQ_le : forall (A : Type) (r : out A) b b' s, allQ b s r -> b <= b' -> allQ b' s r.
Proof.
  intros A r. induction r; intros b b' s0 H Hb; cbn in *; auto.
  - eapply Q_le; eauto.
  - destruct H. split; [eapply Q_le; eauto|eauto].
Qed.
Lemma allQ_weaken : forall (A : Type) (r : out A) b b' s0 s, Q b s0 s -> allQ b' s r -> allQ (b + b') s0 r.
Proof.
  intros A r. induction r; intros b b' s0 x H H1; cbn in *; auto.
  - eapply Q_trans; eauto.
  - destruct H1. split; [eapply Q_trans; eauto|eauto].
Qed.
Lemma allQ_bnd : forall (A B : Type) (r : out A) (k : A -> st -> out B) b1 b2 s0,
  allQ b1 s0 r -> 0 <= b2 -> (forall a s, R s0 s -> allQ b2 s (k a s)) -> allQ (b1 + b2) s0 (bnd r k).
Proof.
  intros A B r k. induction r; intros b1 b2 s0 H Hb Hk; cbn in *; auto.
  - eapply allQ_weaken; [exact H|]. apply Hk. eapply Q_R; eauto.
  - destruct H as [H1 H2]. split; [eapply Q_le; [exact H1|lia]|]. apply IHr; auto.
Qed.
(* a continuation with a negative budget: allowed when the first part has no hazard nodes to account for *)
Lemma allQ_if : forall (A : Type) (c : bool) (x y : out A) b1 b2 s,
  allQ b1 s x -> allQ b2 s y -> allQ (Z.max b1 b2) s (if c then x else y).
Proof. intros. destruct c; eapply allQ_le; eauto; lia. Qed.

Lemma Q_if : forall (c : bool) b1 b2 s x y, Q b1 s x -> Q b2 s y -> Q (Z.max b1 b2) s (if c then x else y).
Proof. intros. destruct c; eapply Q_le; eauto; lia. Qed.

(* ---- tactics: building a Q chain, its budget an evar *)
Ltac solveQ :=
  match goal with
  | |- Q _ ?s ?s => apply Q_refl
  | H : Q _ ?s ?x |- Q _ ?s ?x => exact H
  | |- Q _ ?s (if _ then _ else _) => eapply Q_if; solveQ
  | |- Q _ ?s (set_error ?x _) => eapply (Q_trans _ _ s x); [solveQ|apply Q_set_error]
  | |- Q _ ?s (force_error ?x _) => eapply (Q_trans _ _ s x); [solveQ|apply Q_force_error]
  | |- Q _ ?s (add_ref ?x _) => eapply (Q_trans _ _ s x); [solveQ|apply Q_add_ref]
  | |- Q _ ?s (add_class ?x _) => eapply (Q_trans _ _ s x); [solveQ|apply Q_add_class]
  | |- Q _ ?s (add_alloc ?x _) => eapply (Q_trans _ _ s x); [solveQ|apply Q_add_alloc]
  | |- Q _ ?s (add_excess ?x _) => eapply (Q_trans _ _ s x); [solveQ|apply Q_add_excess]
  | |- Q _ ?s (add_rsv ?x _) => eapply (Q_trans _ _ s x); [solveQ|apply Q_add_rsv]
  | |- Q _ ?s (charge ?x _) => eapply (Q_trans _ _ s x); [solveQ|apply Q_charge]
  | |- Q _ ?s (skip_by ?x _ _) => eapply (Q_trans _ _ s x); [solveQ|apply Q_skip_by]
  | |- Q _ ?s (add_steps ?x 1%N) => eapply (Q_trans _ _ s x); [solveQ|apply Q_add_steps1]
  | |- Q _ ?s (set_corrupt ?x) => eapply (Q_trans _ _ s x); [solveQ|apply Q_set_corrupt]
  | |- Q _ ?s (set_simple ?x _) => eapply (Q_trans _ _ s x); [solveQ|apply Q_set_simple]
  | |- Q _ ?s (reset_refs ?x) => eapply (Q_trans _ _ s x); [solveQ|apply Q_reset_refs]
  | |- Q _ ?s (spin_by ?x _ _) => eapply (Q_trans _ _ s x); [solveQ|apply Q_spin_by; eauto using stuck_not_stopping]
  | |- Q _ ?s (skip1 ?x) => eapply (Q_trans _ _ s x); [solveQ|apply Q_skip1]
  | |- Q _ ?s (read_time ?x) => eapply (Q_trans _ _ s x); [solveQ|apply Q_read_time]
  | |- Q _ ?s (read_datetime ?x) => eapply (Q_trans _ _ s x); [solveQ|apply Q_read_datetime]
  | H : Q _ ?a ?x |- Q _ ?s ?x => eapply (Q_trans _ _ s a); [solveQ|exact H]
  end.

(* Q b s0 t with b given: chain, then compare the numbers *)
Ltac leafQ :=
  match goal with
  | |- Q _ _ (if ?c then _ else _) => destruct c; leafQ
  | |- Q _ _ (match ?c with Some _ => _ | None => _ end) => destruct c; leafQ
  | |- Q _ _ _ => eapply Q_le; [solveQ|first [lia|unfold c0, K; lia|cbn; lia]]
  end.

Ltac splitQ :=
  match goal with
  | |- Q _ _ _ /\ _ => split; [leafQ|splitQ]
  | |- Q _ _ _ => leafQ
  | |- True => exact I
  end.
Ltac leafAQ :=
  match goal with
  | |- allQ _ _ (ROk _ _) => cbn [allQ]; leafQ
  | |- allQ _ _ (RHaz _ _ _) => cbn [allQ]; splitQ
  | |- allQ _ _ (RAsk _ _) => exact I
  | |- allQ _ _ (RUnmod _) => exact I
  end.

Ltac open_primsQ :=
  repeat match goal with
  | |- context[next_byte ?s] =>
      let H := fresh "Hn" in pose proof (Q_next_byte s) as H; destruct (next_byte s) as [? ?]; cbn [snd] in H
  | |- context[read_int ?s] =>
      let H := fresh "Hi" in pose proof (Q_read_int s) as H; destruct (read_int s) as [? ?]; cbn [snd] in H
  | |- context[until_semi ?s] =>
      let H := fresh "Hu" in pose proof (Q_until_semi s) as H; destruct (until_semi s) as [? ?]; cbn [snd] in H
  | |- context[inf_txt ?s] =>
      let H := fresh "Hf" in pose proof (Q_inf_txt s) as H; destruct (inf_txt s) as [? ?]; cbn [snd] in H
  end.

(* the R part of a chain, for the side conditions  R s0 x  and  P x <= p0 *)
Ltac getR := match goal with |- R ?s ?x => eapply Q_R; solveQ end.

(* ---- the out-returning primitives *)
Lemma Q_set_rest1 : forall s r e, (len r <= len (rest s))%nat -> Q 1 s (set_rest s r (merge (err s) e) 1).
Proof. intros. apply Q_of; [apply R_set_rest; assumption| | |]; rewrite ?wk_set_rest, ?sx_set_rest; lia. Qed.
Lemma Q_set_rest1_same : forall s r, (len r <= len (rest s))%nat -> Q 1 s (set_rest s r (err s) 1).
Proof. intros. apply Q_of; [apply R_set_rest_same; assumption| | |]; rewrite ?wk_set_rest, ?sx_set_rest; lia. Qed.

Lemma allQ_next_n : forall fx n s, allQ 1 s (next_n fx n s).
Proof.
  intros fx n s. unfold next_n. destruct (rest s) as [|b w] eqn:E.
  - cbn [allQ]. apply Q_set_rest1. rewrite E. cbn. lia.
  - assert (Hs : forall k, Q 1 s (set_rest s (skipn k (b :: w)) (err s) 1)).
    { intros k. apply Q_set_rest1_same. rewrite E. apply len_skipn. }
    destruct (n <? 0)%Z; [leafAQ|].
    destruct (fits (b :: w) n) eqn:Ef; [cbn [allQ]; apply Hs|].
    apply fits_false in Ef.
    assert (H0 : forall ex, Q 1 s (short_by s (merge (err s) (Some EEOF)) ex 0 1)) by (intros; apply Q_short_by; lia).
    destruct (fx_next fx); [cbn [allQ]; apply Q_short_by; rewrite E; lia|].
    destruct (max_alloc <? Z.to_N n)%N; cbn [allQ]; [split; [leafQ|apply H0]|].
    apply Q_short_by. rewrite E. lia.
Qed.

Lemma allQ_read_str_slow : forall fx n b w s, rest s = b :: w -> allQ 1 s (read_str_slow fx n (b :: w) s).
Proof.
  intros fx n b w s E. unfold read_str_slow.
  assert (Hs : forall k, Q 1 s (set_rest s (skipn k (b :: w)) (err s) 1)).
  { intros k. apply Q_set_rest1_same. rewrite E. apply len_skipn. }
  assert (H0 : forall ex, Q 1 s (short_by s (merge (err s) (Some EEOF)) ex 0 3)) by (intros; apply Q_short_by; lia).
  destruct (str_scan _ false _ _ _); try leafAQ.
  destruct ((off <? len (b :: w))%nat || _); [cbn [allQ]; apply Hs|].
  destruct (fx_str fx); [cbn [allQ]; apply Q_short_by; rewrite E; lia|].
  destruct (wrap_int (n0 * 3) <? 0)%Z; [cbn [allQ]; split; [leafQ|apply H0]|].
  destruct (max_alloc <? _)%N; cbn [allQ]; [split; [leafQ|apply H0]|].
  apply Q_short_by. lia.
Qed.

Lemma allQ_read_str : forall fx n s, allQ 1 s (read_str fx n s).
Proof.
  intros fx n s. unfold read_str. destruct (n =? 0)%Z; [leafAQ|].
  destruct (rest s) as [|b w] eqn:E; [leafAQ|].
  assert (Hs : forall k, Q 1 s (set_rest s (skipn k (b :: w)) (err s) 1)).
  { intros k. apply Q_set_rest1_same. rewrite E. apply len_skipn. }
  destruct (wrap_int (n * 3) <=? Z.of_nat (len (b :: w)))%Z; [|apply allQ_read_str_slow; exact E].
  destruct (str_scan _ true _ _ _); try leafAQ.
  - destruct (len (b :: w) <? off)%nat; [leafAQ|cbn [allQ]; apply Hs].
  - cbn [allQ]. split; [leafQ|apply allQ_read_str_slow; exact E].
Qed.

Lemma allQ_bnd_Q : forall (A B : Type) (r : out A) (k : A -> st -> out B) b1 b2 s0,
  allQ b1 s0 r -> (forall a s, Q b1 s0 s -> allQ b2 s (k a s)) -> 0 <= b2 -> allQ (b1 + b2) s0 (bnd r k).
Proof.
  intros A B r k. induction r; intros b1 b2 s0 H Hk Hb; cbn in *; auto.
  - eapply allQ_weaken; [exact H|]. apply Hk. exact H.
  - destruct H as [H1 H2]. split; [eapply Q_le; [exact H1|lia]|]. apply IHr; auto.
Qed.
(* the form the tactics use: total budget B given, the first part's budget found by its lemma *)
Lemma allQ_bnd_ex : forall (A B : Type) (r : out A) (k : A -> st -> out B) b1 Bt s0,
  allQ b1 s0 r -> (forall a s, Q b1 s0 s -> allQ (Bt - b1) s (k a s)) -> 0 <= Bt - b1 -> allQ Bt s0 (bnd r k).
Proof. intros. replace Bt with (b1 + (Bt - b1)) by lia. eapply allQ_bnd_Q; eauto. Qed.

Ltac pbound :=
  match goal with
  | Hs : (P ?s <= ?p)%nat |- (P ?x <= ?p)%nat => eapply Nat.le_trans; [eapply (Q_P _ s x); solveQ|exact Hs]
  end.

Section Cost.
Variable orc : okind -> bytes -> option bool.
Variable registry : list (bytes * shape).
Variable fx : fixes.

(* a call of a function with a budget lemma, from a state further along the chain *)
Ltac callQ lem := match goal with |- allQ _ ?s0 ?e =>
  match e with context[?x] => match type of x with st => eapply (allQ_weaken _ _ _ _ s0 x); [solveQ|apply lem] end end end.

Ltac num := first [lia|unfold c0, K; lia|cbn; lia].

Ltac stepG :=
  match goal with
  | |- allQ _ _ (ROk _ _) => leafAQ
  | |- allQ _ _ (RHaz _ _ (ROk _ _)) => leafAQ
  | |- allQ _ _ (RHaz _ _ _) => cbn [allQ]; split; [leafQ|]
  | |- allQ _ _ (RAsk _ _) => exact I
  | |- allQ _ _ (RUnmod _) => exact I
  | |- allQ _ _ (ask _ _ _ _) => unfold ask; destruct (orc _ _)
  | |- allQ _ _ (if ?c then _ else _) => destruct c
  | |- allQ _ _ (let '(_, _) := ?p in _) => first [is_var p; destruct p|open_primsQ]
  | |- allQ _ _ ((let '(_, _) := ?p in _) _) => is_var p; destruct p
  | |- allQ _ _ (match ?p with (_, _) => _ end) => first [is_var p; destruct p|open_primsQ]
  | |- allQ _ ?s0 (bnd (next_n _ _ ?x) _) =>
      eapply allQ_bnd_ex; [eapply (allQ_weaken _ _ _ _ s0 x); [solveQ|apply allQ_next_n]|intros ? ? ?|num]
  | |- allQ _ ?s0 (bnd (read_str _ _ ?x) _) =>
      eapply allQ_bnd_ex; [eapply (allQ_weaken _ _ _ _ s0 x); [solveQ|apply allQ_read_str]|intros ? ? ?|num]
  end.
Ltac solveG := repeat stepG.

Lemma allQ_read_string_body : forall s, allQ 3 s (read_string_body fx s).
Proof. intros s. unfold read_string_body. solveG. Qed.
Lemma allQ_read_bytes_body : forall s, allQ 3 s (read_bytes_body fx s).
Proof. intros s. unfold read_bytes_body. solveG. Qed.
Lemma allQ_read_uuid : forall s, allQ 3 s (read_uuid orc fx s).
Proof. intros s. unfold read_uuid. solveG. Qed.
Lemma allQ_read_float : forall k s, allQ 3 s (read_float orc k s).
Proof. intros k s. unfold read_float. solveG. Qed.
Lemma allQ_parse_force : forall k t s, allQ 0 s (parse_force orc k t s).
Proof. intros k t s. unfold parse_force. solveG. Qed.
Lemma allQ_parse_soft : forall k t s, allQ 0 s (parse_soft orc k t s).
Proof. intros k t s. unfold parse_soft. solveG. Qed.

(* bnd (f .. x) k  where f has the budget lemma [lem] *)
Ltac bndQ x lem := match goal with |- allQ _ ?s0 (bnd _ _) =>
  eapply allQ_bnd_ex; [eapply (allQ_weaken _ _ _ _ s0 x); [solveQ|apply lem]|intros ? ? ?|num] end.
Ltac tailQ x lem := match goal with |- allQ _ ?s0 _ =>
  eapply allQ_le; [eapply (allQ_weaken _ _ _ _ s0 x); [solveQ|apply lem]|num] end.

Lemma allQ_parse_big : forall b t s, allQ 0 s (parse_big orc b t s).
Proof. intros b t s. unfold parse_big, parse_rat. destruct b; try apply allQ_parse_soft. solveG; apply allQ_parse_soft. Qed.
Lemma allQ_float_to_int : forall t s, allQ 0 s (float_to_int orc t s).
Proof. intros t s. unfold float_to_int. bndQ s allQ_parse_soft. solveG. Qed.

Ltac stepH :=
  match goal with
  | |- allQ _ _ (bnd (read_string_body _ ?x) _) => bndQ x allQ_read_string_body
  | |- allQ _ _ (bnd (read_bytes_body _ ?x) _) => bndQ x allQ_read_bytes_body
  | |- allQ _ _ (bnd (read_uuid _ _ ?x) _) => bndQ x allQ_read_uuid
  | |- allQ _ _ (bnd (read_float _ _ ?x) _) => bndQ x allQ_read_float
  | |- allQ _ _ (bnd (parse_force _ _ _ ?x) _) => bndQ x allQ_parse_force
  | |- allQ _ _ (bnd (parse_soft _ _ _ ?x) _) => bndQ x allQ_parse_soft
  | |- allQ _ _ (bnd (parse_big _ _ _ ?x) _) => bndQ x allQ_parse_big
  | |- allQ _ _ (bnd (float_to_int _ _ ?x) _) => bndQ x allQ_float_to_int
  | |- allQ _ _ (read_string_body _ ?x) => tailQ x allQ_read_string_body
  | |- allQ _ _ (read_bytes_body _ ?x) => tailQ x allQ_read_bytes_body
  | _ => stepG
  end.
Ltac solveH := repeat stepH.

Lemma allQ_read_string : forall s, allQ 3 s (read_string fx s).
Proof. intros s. unfold read_string. solveH. Qed.
Lemma allQ_read_bytes : forall s, allQ 3 s (read_bytes fx s).
Proof. intros s. unfold read_bytes. solveH. Qed.

Lemma allQ_convert_gen : forall dest (ch : bool) r s, allQ (if ch then 1 else 0) s (convert orc fx ch r dest s).
Proof.
  induction dest; intros ch r s; destruct r; destruct ch; cbn [convert]; solveH.
  all: try (match goal with |- allQ _ _ (match reach_of ?x with _ => _ end) => destruct (reach_of x) end; solveH).
  all: match goal with |- allQ _ ?s0 (bnd (convert _ _ false _ ?e ?x) _) =>
         eapply allQ_bnd_ex; [eapply (allQ_weaken _ _ _ _ s0 x); [solveQ|apply (IHdest false)]|intros ? ? ?|num] end.
  all: solveH.
Qed.
Lemma allQ_convert : forall dest r s, allQ 1 s (convert orc fx true r dest s).
Proof. intros. apply (allQ_convert_gen dest true). Qed.

Lemma allQ_read_reference : forall dest s, allQ 2 s (read_reference orc fx dest s).
Proof.
  intros dest s. unfold read_reference. open_primsQ.
  destruct ((z <? 0)%Z || _); [leafAQ|].
  destruct (nth_error _ _); [|leafAQ].
  match goal with |- allQ _ _ (if ?c then _ else _) => destruct c end; [leafAQ|].
  bndQ s0 allQ_convert. destruct a; leafAQ.
Qed.

Lemma allQ_counted : forall m per np n s, allQ 0 s (counted fx m per np n s).
Proof. intros m per np n s. unfold counted. solveH; destruct m; leafAQ. Qed.

(* the ROk leaves of a tree *)
Fixpoint allLeaf {A} (Pr : st -> Prop) (r : out A) : Prop :=
  match r with
  | ROk _ s => Pr s
  | RHaz _ _ k => allLeaf Pr k
  | _ => True
  end.
Lemma allQ_neg_leaf : forall (A : Type) (r : out A) b x, allQ b x r -> b < 0 -> allLeaf (fun s' => (P s' < P x)%nat) r.
Proof.
  intros A r. induction r; intros b x H Hb; cbn in *; auto.
  - eapply Q_neg_P; eauto.
  - destruct H. eauto.
Qed.
Lemma allQ_bnd_leaf : forall (A B : Type) (Pr : st -> Prop) (r : out A) (k : A -> st -> out B) b1 b2 s0,
  allQ b1 s0 r -> allLeaf Pr r -> (forall a s, Q b1 s0 s -> Pr s -> allQ b2 s (k a s)) -> 0 <= b2 -> allQ (b1 + b2) s0 (bnd r k).
Proof.
  intros A B Pr r k. induction r; intros b1 b2 s0 H HL Hk Hb; cbn in *; auto.
  - eapply allQ_weaken; [exact H|]. apply Hk; auto.
  - destruct H as [H1 H2]. split; [eapply Q_le; [exact H1|lia]|]. apply IHr; auto.
Qed.

(* loops: an iteration that starts with the decoder not stuck consumes input *)
(* slot 0 (nothing charged): the body may start with a hazard node at the iteration's own state *)
Lemma allQ_loop' : forall (body : st -> out unit) per p0,
  (forall x, (P x <= p0)%nat -> stuck x = false ->
     allQ 0 x (body x) /\ allLeaf (fun s' => (P s' < P x)%nat) (body x)) ->
  forall k n s, (P s <= k)%nat -> (P s <= p0)%nat -> allQ 0 s (loop k body 0 per n s).
Proof.
  intros body per p0 Hb. induction k as [|k IH]; intros n s Hk Hp; cbn [loop].
  - destruct (n <=? 0)%Z; [leafAQ|]. destruct (lstop s && has_err s) eqn:E1; [leafAQ|]. destruct (stuck s) eqn:E; [cbn [allQ]; eapply Q_le; [apply Q_spin_by; eapply stuck_not_stopping; eauto|lia]|].
    rewrite (P0_stuck s) in E by lia. discriminate.
  - destruct (n <=? 0)%Z; [leafAQ|]. destruct (lstop s && has_err s) eqn:E1; [leafAQ|]. destruct (stuck s) eqn:E; [cbn [allQ]; eapply Q_le; [apply Q_spin_by; eapply stuck_not_stopping; eauto|lia]|].
    change (charge s 0) with s.
    destruct (Hb s Hp E) as [H1 H2].
    replace 0 with (0 + 0) by lia. eapply allQ_bnd_leaf; [exact H1|exact H2| |lia].
    intros a x Hq Hlt. cbv beta in Hlt. apply IH; [lia|]. pose proof (Q_P _ _ _ Hq). lia.
Qed.
(* any slot: the body more than pays for the charge *)
Lemma allQ_loop : forall (body : st -> out unit) slot per p0,
  (forall x, (P x <= p0)%nat -> stuck x = false -> allQ (-2) x (body x)) ->
  forall k n s, (P s <= k)%nat -> (P s <= p0)%nat -> allQ 0 s (loop k body slot per n s).
Proof.
  intros body slot per p0 Hb. induction k as [|k IH]; intros n s Hk Hp; cbn [loop].
  - destruct (n <=? 0)%Z; [leafAQ|]. destruct (lstop s && has_err s) eqn:E1; [leafAQ|]. destruct (stuck s) eqn:E; [cbn [allQ]; eapply Q_le; [apply Q_spin_by; eapply stuck_not_stopping; eauto|lia]|].
    rewrite (P0_stuck s) in E by lia. discriminate.
  - destruct (n <=? 0)%Z; [leafAQ|]. destruct (lstop s && has_err s) eqn:E1; [leafAQ|]. destruct (stuck s) eqn:E; [cbn [allQ]; eapply Q_le; [apply Q_spin_by; eapply stuck_not_stopping; eauto|lia]|].
    pose proof (Q_charge s slot) as Hc. pose proof (Q_P _ _ _ Hc) as HPc.
    assert (Hbody : allQ (-1) s (body (charge s slot))).
    { replace (-1) with (1 + -2) by lia. eapply allQ_weaken; [exact Hc|]. apply Hb; [lia|rewrite stuck_charge; exact E]. }
    replace 0 with (-1 + 1) by lia. eapply allQ_bnd_Q; [exact Hbody| |lia].
    intros a x Hq. eapply allQ_le; [apply IH|lia].
    + pose proof (Q_neg_P _ _ _ Hq ltac:(lia)). lia.
    + pose proof (Q_P _ _ _ Hq). lia.
Qed.

Lemma allQ_iter_names0 : forall (body : bytes -> st -> out unit) p0,
  (forall nm x, (P x <= p0)%nat -> stuck x = false -> allQ 0 x (body nm x)) ->
  forall l s, (P s <= p0)%nat -> allQ 0 s (iter_names body 0 l s).
Proof.
  intros body p0 Hb. induction l as [|nm l IH]; intros s Hp; cbn [iter_names]; [leafAQ|].
  destruct (lstop s && has_err s) eqn:E1; [leafAQ|]. destruct (stuck s) eqn:E; [cbn [allQ]; eapply Q_le; [apply Q_spin_by; eapply stuck_not_stopping; eauto|lia]|].
  change (charge s 0) with s.
  replace 0 with (0 + 0) by lia. eapply allQ_bnd_Q; [apply Hb; auto| |lia].
  intros a x Hq. apply IH. pose proof (Q_P _ _ _ Hq). lia.
Qed.
Lemma allQ_iter_names : forall (body : bytes -> st -> out unit) slot p0,
  (forall nm x, (P x <= p0)%nat -> stuck x = false -> allQ (-2) x (body nm x)) ->
  forall l s, (P s <= p0)%nat -> allQ 0 s (iter_names body slot l s).
Proof.
  intros body slot p0 Hb. induction l as [|nm l IH]; intros s Hp; cbn [iter_names]; [leafAQ|].
  destruct (lstop s && has_err s) eqn:E1; [leafAQ|]. destruct (stuck s) eqn:E; [cbn [allQ]; eapply Q_le; [apply Q_spin_by; eapply stuck_not_stopping; eauto|lia]|].
  pose proof (Q_charge s slot) as Hc. pose proof (Q_P _ _ _ Hc) as HPc.
  assert (Hbody : allQ (-1) s (body nm (charge s slot))).
  { replace (-1) with (1 + -2) by lia. eapply allQ_weaken; [exact Hc|]. apply Hb; [lia|rewrite stuck_charge; exact E]. }
  replace 0 with (-1 + 1) by lia. eapply allQ_bnd_Q; [exact Hbody| |lia].
  intros a x Hq. eapply allQ_le; [apply IH|lia]. pose proof (Q_P _ _ _ Hq). lia.
Qed.

Lemma allQ_over_names' : forall lf (body : bytes -> st -> out unit) c p0, (p0 <= lf)%nat ->
  (forall nm x, (P x <= p0)%nat -> stuck x = false ->
     allQ 0 x (body nm x) /\ allLeaf (fun s' => (P s' < P x)%nat) (body nm x)) ->
  forall s, (P s <= p0)%nat -> allQ 0 s (over_names lf body 0 c s).
Proof.
  intros lf body c p0 Hlf Hb s Hp. unfold over_names.
  replace 0 with (0 + 0) by lia. eapply allQ_bnd_Q; [apply (allQ_iter_names0 _ p0); auto| |lia].
  - intros nm x H1 H2. apply Hb; auto.
  - intros a x Hq. pose proof (Q_P _ _ _ Hq). apply (allQ_loop' _ _ p0); [intros; apply Hb; auto|lia|lia].
Qed.
Lemma allQ_over_names : forall lf (body : bytes -> st -> out unit) slot c p0, (p0 <= lf)%nat ->
  (forall nm x, (P x <= p0)%nat -> stuck x = false -> allQ (-2) x (body nm x)) ->
  forall s, (P s <= p0)%nat -> allQ 0 s (over_names lf body slot c s).
Proof.
  intros lf body slot c p0 Hlf Hb s Hp. unfold over_names.
  replace 0 with (0 + 0) by lia. eapply allQ_bnd_Q; [apply (allQ_iter_names _ _ p0); auto| |lia].
  intros a x Hq. pose proof (Q_P _ _ _ Hq). apply (allQ_loop _ _ _ p0); [intros; apply Hb; auto|lia|lia].
Qed.

Definition rank (sh : shape) : nat := match sh with SPtr _ => 2 | SIface => 0 | _ => 1 end.

Section BodyCost.
Variable rv : shape -> st -> out aval.
Variable rt : shape -> byte -> st -> out aval.
Variable lf p0 r0 : nat.     (* r0: rank of the shape being decoded *)
Hypothesis Hlf : (p0 <= lf)%nat.
Hypothesis Hrv : forall sh x, (P x <= p0)%nat -> allQ 1 x (rv sh x).
Hypothesis HrvL : forall sh x, (P x <= p0)%nat -> stuck x = false -> allQ (-20) x (rv sh x).
Hypothesis HrtI : forall t x, (P x <= p0)%nat -> (1 <= r0)%nat -> allQ (c0 + 1) x (rt SIface t x).
Hypothesis Hrt1 : forall sh t x, (P x <= p0)%nat -> (rank sh <= 1)%nat -> (2 <= r0)%nat -> allQ (2 * c0 + 1) x (rt sh t x).

(* rv in sequence position *)
Ltac bndRv x := match goal with
  | Hl : stuck ?y = false |- allQ _ ?s0 (bnd (rv _ (add_alloc ?y ?n)) _) =>
      eapply allQ_bnd_ex; [eapply (allQ_weaken _ _ _ _ s0 x); [solveQ|apply HrvL; [pbound|rewrite ?stuck_add_alloc, ?stuck_charge; exact Hl]]|intros ? ? ?|num]
  | Hl : stuck x = false |- allQ _ ?s0 (bnd _ _) =>
      eapply allQ_bnd_ex; [eapply (allQ_weaken _ _ _ _ s0 x); [solveQ|apply HrvL; [pbound|exact Hl]]|intros ? ? ?|num]
  | |- allQ _ ?s0 (bnd _ _) =>
      eapply allQ_bnd_ex; [eapply (allQ_weaken _ _ _ _ s0 x); [solveQ|apply Hrv; pbound]|intros ? ? ?|num]
  end.
Ltac tailRv x := match goal with
  | Hl : stuck x = false |- allQ _ ?s0 _ =>
      eapply allQ_le; [eapply (allQ_weaken _ _ _ _ s0 x); [solveQ|apply HrvL; [pbound|exact Hl]]|num]
  | |- allQ _ ?s0 _ => eapply allQ_le; [eapply (allQ_weaken _ _ _ _ s0 x); [solveQ|apply Hrv; pbound]|num]
  end.

Ltac stepI :=
  match goal with
  | |- allQ _ _ (unit_of _) => unfold unit_of
  | |- allQ _ _ (bnd (rv _ ?x) _) => bndRv x
  | |- allQ _ _ (rv _ ?x) => tailRv x
  | |- allQ _ _ (bnd (read_reference _ _ _ ?x) _) => bndQ x allQ_read_reference
  | |- allQ _ _ (read_reference _ _ _ ?x) => tailQ x allQ_read_reference
  | |- allQ _ _ (bnd (counted _ _ _ _ _ ?x) _) => bndQ x allQ_counted
  | |- allQ _ _ (bnd (read_string _ ?x) _) => bndQ x allQ_read_string
  | |- allQ _ _ (bnd (read_bytes _ ?x) _) => bndQ x allQ_read_bytes
  | |- allQ _ _ (match flookup _ _ with Some _ => _ | None => _ end) => destruct (flookup _ _)
  | |- allQ _ _ (match ctype _ with Some _ => _ | None => _ end) => destruct (ctype _)
  | _ => stepH
  end.
Ltac solveI := repeat stepI.

Lemma allQ_names_loop : forall k n acc s, (P s <= k)%nat -> (P s <= p0)%nat -> allQ 0 s (names_loop rv k n acc s).
Proof.
  induction k as [|k IH]; intros n acc s Hk Hp; cbn [names_loop].
  - destruct (n <=? 0)%Z; [leafAQ|]. destruct (lstop s && has_err s) eqn:E1; [leafAQ|]. destruct (stuck s) eqn:E; [cbn [allQ]; eapply Q_le; [apply Q_spin_by; eapply stuck_not_stopping; eauto|lia]|].
    rewrite (P0_stuck s) in E by lia. discriminate.
  - destruct (n <=? 0)%Z; [leafAQ|]. destruct (lstop s && has_err s) eqn:E1; [leafAQ|]. destruct (stuck s) eqn:E; [cbn [allQ]; eapply Q_le; [apply Q_spin_by; eapply stuck_not_stopping; eauto|lia]|].
    pose proof (Q_add_alloc s 16) as Hc. pose proof (Q_P _ _ _ Hc) as HPc.
    assert (Hbody : allQ (-19) s (rv SString (add_alloc s 16))).
    { replace (-19) with (1 + -20) by lia. eapply allQ_weaken; [exact Hc|]. apply HrvL; [lia|exact E]. }
    replace 0 with (-19 + 19) by lia. eapply allQ_bnd_Q; [exact Hbody| |lia].
    intros a x Hq. eapply allQ_le; [apply IH|lia].
    + pose proof (Q_neg_P _ _ _ Hq ltac:(lia)). lia.
    + pose proof (Q_P _ _ _ Hq). lia.
Qed.

Lemma allQ_map_loop : forall ks vs per k n acc s, (P s <= k)%nat -> (P s <= p0)%nat ->
  allQ 0 s (map_loop rv k ks vs per n acc s).
Proof.
  intros ks vs per. induction k as [|k IH]; intros n acc s Hk Hp; cbn [map_loop].
  - destruct (n <=? 0)%Z; [leafAQ|]. destruct (lstop s && has_err s) eqn:E1; [leafAQ|]. destruct (stuck s) eqn:E; [cbn [allQ]; eapply Q_le; [apply Q_spin_by; eapply stuck_not_stopping; eauto|lia]|].
    rewrite (P0_stuck s) in E by lia. discriminate.
  - destruct (n <=? 0)%Z; [leafAQ|]. destruct (lstop s && has_err s) eqn:E1; [leafAQ|]. destruct (stuck s) eqn:E; [cbn [allQ]; eapply Q_le; [apply Q_spin_by; eapply stuck_not_stopping; eauto|lia]|].
    pose proof (Q_add_alloc s (map_entry ks vs)) as Hc. pose proof (Q_P _ _ _ Hc) as HPc.
    assert (Hkey : allQ (-19) s (rv ks (add_alloc s (map_entry ks vs)))).
    { replace (-19) with (1 + -20) by lia. eapply allQ_weaken; [exact Hc|]. apply HrvL; [lia|exact E]. }
    replace 0 with (-19 + 19) by lia. eapply allQ_bnd_Q; [exact Hkey| |lia].
    intros kv x Hq.
    assert (Hx : (P x < P s)%nat) by (apply (Q_neg_P _ _ _ Hq); lia).
    replace 19 with (1 + 18) by lia. eapply allQ_bnd_Q; [apply Hrv; lia| |lia].
    intros vv y Hq2. pose proof (Q_P _ _ _ Hq2) as Hy.
    assert (Hgo : forall acc', allQ 18 y (map_loop rv k ks vs per (n - 1) acc' y)).
    { intros acc'. eapply allQ_le; [apply IH; lia|lia]. }
    destruct ks; try apply Hgo.
    destruct (hashable kv); [apply Hgo|].
    cbn [allQ]. split; [leafQ|].
    eapply allQ_le; [eapply (allQ_weaken _ _ _ _ y (set_error y KDecode)); [solveQ|apply IH]|num].
    + pose proof (Q_P _ _ _ (Q_set_error y KDecode)). lia.
    + pose proof (Q_P _ _ _ (Q_set_error y KDecode)). lia.
Qed.

Lemma allQ_read_struct : forall sh s, (P s <= p0)%nat -> allQ 20 s (read_struct registry fx rv lf sh s).
Proof.
  intros sh s Hp. unfold read_struct. solveI.
  match goal with |- allQ _ ?s0 (bnd (names_loop _ _ _ _ ?x) _) =>
    assert (Hx : (P x <= p0)%nat) by pbound;
    eapply allQ_bnd_ex; [eapply (allQ_weaken _ _ _ _ s0 x); [solveQ|apply allQ_names_loop; [lia|exact Hx]]|intros ? ? ?|num] end.
  solveI.
Qed.

Lemma allQ_get_class : forall (k : cinfo -> st -> out aval) b s, 0 <= b ->
  (forall c x, (P x <= p0)%nat -> allQ b x (k c x)) -> (P s <= p0)%nat -> allQ (1 + b) s (get_class s k).
Proof.
  intros k b s Hb Hk Hp. unfold get_class. open_primsQ. cbv zeta. destruct ((z <? 0)%Z || _); [leafAQ|].
  destruct (nth_error _ _); [|leafAQ]. eapply (allQ_weaken _ _ _ _ s s0); [solveQ|apply Hk; pbound].
Qed.

Lemma allQ_decode_field : forall f nm s, (P s <= p0)%nat -> allQ 1 s (decode_field rv f nm s).
Proof. intros f nm s Hp. unfold decode_field. solveI. Qed.
Lemma allQ_decode_field_live : forall f nm s, (P s <= p0)%nat -> stuck s = false -> allQ (-20) s (decode_field rv f nm s).
Proof. intros f nm s Hp Hl. unfold decode_field. solveI. Qed.

Ltac namesQ := match goal with |- allQ _ ?s0 (bnd (over_names _ _ _ _ ?x) _) =>
  assert ((P x <= p0)%nat) by pbound;
  eapply allQ_bnd_ex; [eapply (allQ_weaken _ _ _ _ s0 x); [solveQ|apply (allQ_over_names lf _ _ _ p0 Hlf); [intros ? ? ? ?|assumption]]|intros ? ? ?|num] end.

Lemma allQ_read_object : forall s, (P s <= p0)%nat -> allQ 20 s (read_object rv lf s).
Proof.
  intros s Hp. unfold read_object. replace 20 with (1 + 19) by lia. apply allQ_get_class; [lia| |exact Hp].
  intros c x Hx. solveI; namesQ; solveI.
  eapply allQ_le; [apply allQ_decode_field_live; assumption|lia].
Qed.

Lemma allQ_decode_error : forall tag s, (P s <= p0)%nat -> (1 <= r0)%nat -> allQ (c0 + 1) s (decode_error rt tag s).
Proof.
  intros tag s Hp Hr0. unfold decode_error.
  replace (c0 + 1) with (c0 + 1 + 0) by lia. eapply allQ_bnd_Q; [apply HrtI; [exact Hp|exact Hr0]| |lia]. intros. leafAQ.
Qed.

Lemma allQ_default_decode : forall sh tag s, (P s <= p0)%nat -> (1 <= r0)%nat ->
  allQ (c0 + 40) s (default_decode orc registry fx rv rt lf sh tag s).
Proof.
  intros sh tag s Hp Hr0. unfold default_decode. solveI.
  - eapply allQ_bnd_ex; [apply allQ_read_struct; exact Hp|intros ? ? ?|unfold c0; lia]. solveI.
  - eapply allQ_le; [apply allQ_decode_error; [exact Hp|exact Hr0]|lia].
Qed.

Ltac stepJ :=
  match goal with
  | |- allQ _ ?s0 (bnd (read_struct _ _ _ _ _ ?x) _) =>
      eapply allQ_bnd_ex; [eapply (allQ_weaken _ _ _ _ s0 x); [solveQ|apply allQ_read_struct; pbound]|intros ? ? ?|num]
  | |- allQ _ ?s0 (read_object _ _ ?x) =>
      eapply allQ_le; [eapply (allQ_weaken _ _ _ _ s0 x); [solveQ|apply allQ_read_object; pbound]|num]
  | |- allQ _ ?s0 (default_decode _ _ _ _ _ _ _ _ ?x) =>
      eapply allQ_le; [eapply (allQ_weaken _ _ _ _ s0 x); [solveQ|apply allQ_default_decode; [pbound|assumption]]|num]
  | |- allQ _ ?s0 (decode_error _ _ ?x) =>
      eapply allQ_le; [eapply (allQ_weaken _ _ _ _ s0 x); [solveQ|apply allQ_decode_error; [pbound|assumption]]|num]
  | |- allQ _ ?s0 (bnd (loop _ _ _ _ _ ?x) _) =>
      assert ((P x <= p0)%nat) by pbound;
      eapply allQ_bnd_ex; [eapply (allQ_weaken _ _ _ _ s0 x); [solveQ|apply (allQ_loop _ _ _ p0); [intros ? ? ?|lia|assumption]]|intros ? ? ?|num]
  | |- allQ _ _ (bnd (over_names _ _ _ _ _) _) => namesQ
  | _ => stepI
  end.
Ltac solveJ := repeat stepJ.

Lemma allQ_str_u : forall s, allQ 3 s (str_u fx s).
Proof. intros s. unfold str_u. solveJ. Qed.
Lemma allQ_str_s : forall s, allQ 3 s (str_s fx s).
Proof. intros s. unfold str_s. destruct (simple s); [apply allQ_read_string_body|apply allQ_read_string]. Qed.

Lemma allQ_list_iface : forall s, (P s <= p0)%nat -> allQ 20 s (list_iface fx rv lf s).
Proof. intros s Hp. unfold list_iface. solveJ. Qed.

Lemma allQ_decode_map : forall ks vs s, (P s <= p0)%nat -> allQ 20 s (decode_map fx rv lf ks vs s).
Proof.
  intros ks vs s Hp. unfold decode_map. solveJ.
  all: match goal with |- allQ _ ?s0 (bnd (map_loop _ _ _ _ _ _ _ ?x) _) =>
    assert (Hx : (P x <= p0)%nat) by pbound;
    eapply allQ_bnd_ex; [eapply (allQ_weaken _ _ _ _ s0 x); [solveQ|apply allQ_map_loop; [lia|exact Hx]]|intros ? ? ?|num] end.
  all: solveJ.
Qed.

Ltac stepK :=
  match goal with
  | |- allQ _ _ (bnd (if ?c then _ else _) _) => destruct c
  | |- allQ _ _ (bnd (str_u _ ?x) _) => bndQ x allQ_str_u
  | |- allQ _ _ (bnd (str_s _ ?x) _) => bndQ x allQ_str_s
  | |- allQ _ ?s0 (list_iface _ _ _ ?x) =>
      eapply allQ_le; [eapply (allQ_weaken _ _ _ _ s0 x); [solveQ|apply allQ_list_iface; pbound]|num]
  | |- allQ _ ?s0 (bnd (decode_map _ _ _ _ _ ?x) _) =>
      eapply allQ_bnd_ex; [eapply (allQ_weaken _ _ _ _ s0 x); [solveQ|apply allQ_decode_map; pbound]|intros ? ? ?|num]
  | |- allQ _ ?s0 (decode_map _ _ _ _ _ ?x) =>
      eapply allQ_le; [eapply (allQ_weaken _ _ _ _ s0 x); [solveQ|apply allQ_decode_map; pbound]|num]
  | |- allQ _ ?s0 (get_class ?x _) =>
      eapply allQ_le; [eapply (allQ_weaken _ _ _ _ s0 x); [solveQ|apply (allQ_get_class _ 20); [lia|intros ? ? ?|pbound]]|num]
  | |- allQ _ ?s0 (decode_field _ _ _ ?x) =>
      first [ match goal with Hl : stuck x = false |- _ =>
                eapply allQ_le; [eapply (allQ_weaken _ _ _ _ s0 x); [solveQ|apply allQ_decode_field_live; [pbound|exact Hl]]|num] end
            | eapply allQ_le; [eapply (allQ_weaken _ _ _ _ s0 x); [solveQ|apply allQ_decode_field; pbound]|num] ]
  | _ => stepJ
  end.
Ltac solveK := repeat stepK.

Lemma allQ_dec_iface : forall tag s, (P s <= p0)%nat -> allQ c0 s (dec_iface orc registry fx rv lf tag s).
Proof. intros tag s Hp. unfold dec_iface, c0. solveK. Qed.
Lemma allQ_dec_num : forall k tag s, (P s <= p0)%nat -> (1 <= r0)%nat -> allQ (2 * c0) s (dec_num orc registry fx rv rt lf k tag s).
Proof. intros k tag s Hp Hr0. unfold dec_num, c0. solveK; destruct k; solveK. Qed.
Lemma allQ_dec_string : forall tag s, (P s <= p0)%nat -> (1 <= r0)%nat -> allQ (2 * c0) s (dec_string orc registry fx rv rt lf tag s).
Proof. intros tag s Hp Hr0. unfold dec_string, c0. solveK. Qed.
Lemma allQ_uint8_slice : forall s, (P s <= p0)%nat -> allQ 20 s (uint8_slice fx rv lf s).
Proof. intros s Hp. unfold uint8_slice. solveK. Qed.
Lemma allQ_dec_bytes : forall tag s, (P s <= p0)%nat -> (1 <= r0)%nat -> allQ (2 * c0) s (dec_bytes orc registry fx rv rt lf tag s).
Proof.
  intros tag s Hp Hr0. unfold dec_bytes, c0. solveK.
  eapply allQ_le; [apply allQ_uint8_slice; exact Hp|lia].
Qed.
Lemma allQ_dec_big : forall b tag s, (P s <= p0)%nat -> (1 <= r0)%nat -> allQ (2 * c0) s (dec_big orc registry fx rv rt lf b tag s).
Proof. intros b tag s Hp Hr0. unfold dec_big, c0. solveK; destruct b; solveK. Qed.
Lemma allQ_dec_time : forall tag s, (P s <= p0)%nat -> (1 <= r0)%nat -> allQ (2 * c0) s (dec_time orc registry fx rv rt lf tag s).
Proof. intros tag s Hp Hr0. unfold dec_time, c0. solveK. Qed.
Lemma allQ_dec_uuid : forall tag s, (P s <= p0)%nat -> (1 <= r0)%nat -> allQ (2 * c0) s (dec_uuid orc registry fx rv rt lf tag s).
Proof. intros tag s Hp Hr0. unfold dec_uuid, c0. solveK. Qed.
Lemma allQ_dec_slice : forall e tag s, (P s <= p0)%nat -> (1 <= r0)%nat -> allQ (2 * c0) s (dec_slice orc registry fx rv rt lf e tag s).
Proof. intros e tag s Hp Hr0. unfold dec_slice, c0. solveK. Qed.
Lemma allQ_dec_array_list : forall n e s, (P s <= p0)%nat -> allQ 20 s (dec_array_list fx rv lf n e s).
Proof. intros n e s Hp. unfold dec_array_list. solveK. Qed.
Lemma allQ_dec_array : forall n e tag s, (P s <= p0)%nat -> (1 <= r0)%nat -> allQ (2 * c0) s (dec_array orc registry fx rv rt lf n e tag s).
Proof.
  intros n e tag s Hp Hr0. unfold dec_array, c0. solveK.
  all: try (eapply allQ_le; [apply allQ_dec_array_list; exact Hp|lia]).
Qed.

(* the body of decodeObjectAsMap's loop: a field the struct lacks is a hazard before anything is read *)
Lemma objmap_body : forall ent f nm x, (P x <= p0)%nat -> stuck x = false ->
  let body := match flookup nm f with
              | Some fs => unit_of (rv fs (add_alloc (add_alloc x ent) (size fs)))
              | None => RHaz HObjMapField x (unit_of (rv SIface (add_alloc x ent)))
              end in
  allQ 0 x body /\ allLeaf (fun s' => (P s' < P x)%nat) body.
Proof.
  intros ent f nm x Hp E. cbv zeta. destruct (flookup nm f).
  - assert (H : allQ (-18) x (unit_of (rv s (add_alloc (add_alloc x ent) (size s))))).
    { unfold unit_of. eapply allQ_bnd_ex; [eapply (allQ_weaken _ _ _ _ x (add_alloc (add_alloc x ent) (size s))); [solveQ|apply HrvL; [pbound|exact E]]|intros ? ? ?|num]. leafAQ. }
    split; [eapply allQ_le; [exact H|lia]|eapply allQ_neg_leaf; [exact H|lia]].
  - assert (H : allQ (-19) x (unit_of (rv SIface (add_alloc x ent)))).
    { unfold unit_of. eapply allQ_bnd_ex; [eapply (allQ_weaken _ _ _ _ x (add_alloc x ent)); [solveQ|apply HrvL; [pbound|exact E]]|intros ? ? ?|num]. leafAQ. }
    cbn [allQ allLeaf]. split; [split; [apply Q_refl|eapply allQ_le; [exact H|lia]]|eapply allQ_neg_leaf; [exact H|lia]].
Qed.

Lemma allQ_dec_map : forall ks vs tag s, (P s <= p0)%nat -> (1 <= r0)%nat -> allQ (2 * c0) s (dec_map orc registry fx rv rt lf ks vs tag s).
Proof.
  intros ks vs tag s Hp Hr0. unfold dec_map, c0.
  destruct (tag_is tag "n" || tag_is tag "e"); [solveK|].
  destruct (tag_is tag "m"); [solveK|].
  destruct (tag_is tag "a"); [solveK|].
  destruct (tag_is tag "o"); [|solveK].
  destruct (obj_as_map_ok ks vs); [|solveK].
  eapply allQ_le; [apply (allQ_get_class _ 20); [lia| |exact Hp]|lia].
  intros c x Hx. cbv zeta.
  set (s2 := add_ref _ _).
  assert (H2 : Q 0 x s2) by (unfold s2; eapply Q_le; [solveQ|lia]).
  assert (Hp2 : (P s2 <= p0)%nat) by (pose proof (Q_P _ _ _ H2); lia).
  assert (Hbody : allQ 10 x
    match ctype c with
    | Some t =>
        bnd (over_names lf (fun nm x0 => match flookup nm (struct_fields t) with
                                            | Some fs => unit_of (rv fs (add_alloc (add_alloc x0 (map_entry ks vs)) (size fs)))
                                            | None => RHaz HObjMapField x0 (unit_of (rv SIface (add_alloc x0 (map_entry ks vs))))
                                            end) 0 c s2)
          (fun _ s3 => ROk (AOther false) (skip1 s3))
    | None => bnd (over_names lf (fun _ x0 => unit_of (rv SIface x0)) (map_entry ks vs) c s2)
                (fun _ s3 => ROk (AOther false) (skip1 s3))
    end).
  { destruct (ctype c).
    - eapply allQ_bnd_ex; [eapply (allQ_weaken _ _ _ _ x s2); [exact H2|apply (allQ_over_names' lf _ _ p0 Hlf); [|exact Hp2]]|intros ? ? ?|num].
      + intros nm y Hy Ey. apply objmap_body; assumption.
      + solveK.
    - solveK. }
  destruct ks; try (eapply allQ_le; [exact Hbody|lia]).
  destruct (0 <? _)%N; [|eapply allQ_le; [exact Hbody|lia]].
  cbn [allQ]. split; [eapply Q_le; [exact H2|lia]|eapply allQ_le; [exact Hbody|lia]].
Qed.

Lemma allQ_dec_struct : forall nm f tag s, (P s <= p0)%nat -> (1 <= r0)%nat -> allQ (2 * c0) s (dec_struct orc registry fx rv rt lf nm f tag s).
Proof. intros nm f tag s Hp Hr0. unfold dec_struct, c0. solveK. Qed.

Lemma rank_ptr_core : forall e, (rank (snd (ptr_core e)) <= 1)%nat.
Proof.
  induction e; cbn; try lia. destruct (ptr_core e) as [a c]. cbn in *. exact IHe.
Qed.

Lemma allQ_dec_ptr : forall e tag s, (P s <= p0)%nat -> (2 <= r0)%nat -> allQ (3 * c0) s (dec_ptr orc fx rt e tag s).
Proof.
  intros e tag s Hp Hr0. unfold dec_ptr, c0. solveK.
  pose proof (rank_ptr_core e) as Hr. destruct (ptr_core e) as [a c]. cbn [snd] in Hr.
  eapply allQ_bnd_ex; [eapply (allQ_weaken _ _ _ _ s (add_alloc s (size e + a)%N)); [solveQ|apply Hrt1; [pbound|exact Hr|exact Hr0]]|intros ? ? ?|unfold c0; lia].
  solveK.
Qed.

Lemma allQ_dec_tag_body : forall sh tag s, (P s <= p0)%nat -> r0 = rank sh ->
  allQ (c0 * (Z.of_nat (rank sh) + 1)) s (dec_tag_body orc registry fx rv rt lf sh tag s).
Proof.
  intros sh tag s Hp Hr0. destruct sh; cbn [dec_tag_body rank] in *.
  all: try (eapply allQ_le; [first [apply allQ_dec_iface|apply allQ_dec_num|apply allQ_dec_string|apply allQ_dec_bytes
     |apply allQ_dec_big|apply allQ_dec_time|apply allQ_dec_uuid|apply allQ_dec_slice|apply allQ_dec_array
     |apply allQ_dec_map|apply allQ_dec_struct|apply allQ_dec_ptr]; first [exact Hp|lia]|unfold c0; lia]).
  exact I.
Qed.
End BodyCost.

(* fuel: three levels of decoding per unit of potential *)
Definition need (sh : shape) (s : st) : nat := (3 * P s + rank sh + 1)%nat.
Definition cost (sh : shape) : Z := c0 * (Z.of_nat (rank sh) + 1) + 1.

Lemma cost_le : forall sh, cost sh <= 3 * c0 + 1.
Proof. intros sh. unfold cost, c0. destruct sh; cbn [rank]; lia. Qed.

Lemma allQ_dec_tag : forall fuel sh tag s, (need sh s <= fuel)%nat ->
  allQ (cost sh) s (dec_tag orc registry fx fuel sh tag s).
Proof.
  induction fuel as [|f IH]; intros sh tag s Hf; [unfold need in Hf; lia|]. cbn [dec_tag]. unfold cost.
  replace (c0 * (Z.of_nat (rank sh) + 1) + 1) with (1 + c0 * (Z.of_nat (rank sh) + 1)) by lia.
  eapply (allQ_weaken _ _ _ _ s (add_steps s 1)); [apply Q_add_steps1|].
  assert (HP1 : (P (add_steps s 1) <= P s)%nat) by (apply (Q_P _ _ _ (Q_add_steps1 s))).
  assert (Hlive : forall sh' x, (P x <= P s)%nat -> stuck x = false ->
            allQ (-20) x (let '(t, s1) := next_byte x in dec_tag orc registry fx f sh' t s1)).
  { intros sh' x Hx E.
    pose proof (Q_next_byte_live x E) as Hn. destruct (next_byte x) as [t x1]. cbn [snd] in Hn.
    eapply allQ_le; [eapply (allQ_weaken _ _ _ _ x x1); [exact Hn|apply IH]|].
    - pose proof (Q_neg_P _ _ _ Hn ltac:(unfold K; lia)). unfold need in *. destruct sh'; cbn [rank]; lia.
    - pose proof (cost_le sh'). unfold K, c0 in *. lia. }
  apply (allQ_dec_tag_body (fun sh' s' => if stuck s' then ROk ANil (add_alloc s' (stuck_alloc sh'))
                                          else let '(t, s1) := next_byte s' in dec_tag orc registry fx f sh' t s1)
           (dec_tag orc registry fx f) f (P s) (rank sh)); try exact HP1; try reflexivity.
  - unfold need in Hf. lia.
  - intros sh' x Hx. destruct (stuck x) eqn:E; [leafAQ|]. eapply allQ_le; [apply Hlive; auto|lia].
  - intros sh' x Hx E. rewrite E. apply Hlive; auto.
  - intros t x Hx Hr0. eapply allQ_le; [apply IH|unfold cost, c0; cbn [rank]; lia].
    unfold need in *. cbn [rank]. lia.
  - intros sh' t x Hx Hr Hr0. eapply allQ_le; [apply IH|unfold cost, c0; lia].
    unfold need in *. lia.
Qed.

Lemma allQ_dec_val : forall fuel sh s, (3 * P s + 3 <= fuel)%nat -> allQ 1 s (dec_val orc registry fx fuel sh s).
Proof.
  intros fuel sh s Hf. unfold dec_val. destruct (stuck s) eqn:E; [leafAQ|].
  pose proof (Q_next_byte_live s E) as Hn. destruct (next_byte s) as [t x1]. cbn [snd] in Hn.
  eapply allQ_le; [eapply (allQ_weaken _ _ _ _ s x1); [exact Hn|apply allQ_dec_tag]|].
  - pose proof (Q_neg_P _ _ _ Hn ltac:(unfold K; lia)). unfold need. destruct sh; cbn [rank]; lia.
  - pose proof (cost_le sh). unfold K, c0 in *. lia.
Qed.
(* with input left, a decode pays for itself *)
Lemma allQ_dec_val_live : forall fuel sh s, (3 * P s + 3 <= fuel)%nat -> stuck s = false ->
  allQ (-20) s (dec_val orc registry fx fuel sh s).
Proof.
  intros fuel sh s Hf E. unfold dec_val. rewrite E.
  pose proof (Q_next_byte_live s E) as Hn. destruct (next_byte s) as [t x1]. cbn [snd] in Hn.
  eapply allQ_le; [eapply (allQ_weaken _ _ _ _ s x1); [exact Hn|apply allQ_dec_tag]|].
  - pose proof (Q_neg_P _ _ _ Hn ltac:(unfold K; lia)). unfold need. destruct sh; cbn [rank]; lia.
  - pose proof (cost_le sh). unfold K, c0 in *. lia.
Qed.
End Cost.

(* ------------------------------------------------------------------ reading the bounds *)

Lemma P_init : forall bs smp, P (init bs smp) = S (len bs).
Proof. intros. unfold P, stuck, has_err, init. cbn. destruct bs; cbn; lia. Qed.

Lemma P_start : forall fx bs smp, P (start fx bs smp) = S (len bs).
Proof. intros. exact (P_init bs smp). Qed.

Lemma allQ_all_states : forall (A : Type) (r : out A) b s0, allQ b s0 r -> all_states (Q b s0) r.
Proof. intros A r. induction r; intros b s0 H; cbn in *; auto. destruct H. split; auto. Qed.

Lemma allQ_no_fuel : forall (A : Type) chk (r : out A) b s0, allQ b s0 r -> interp chk r <> VFuel.
Proof.
  intros A chk r. induction r; intros b s0 H; cbn in *; try discriminate; try contradiction.
  destruct H as [_ H]. destruct (chk h); [eauto|discriminate].
Qed.

(* what a state within budget b of the initial state satisfies *)
Lemma Q_init_bounds : forall fx b bs smp s', Q b (start fx bs smp) s' ->
  (Z.of_N (steps s') <= K * (Z.of_nat (len bs) + 1) + b + Z.of_N (spin s')) /\
  (spin s' <= excess s')%N.
Proof.
  intros fx b bs smp s' [HR [Hw [Hpsi Hsx]]].
  assert (E1 : psi (start fx bs smp) = K * Z.of_nat (S (len bs))).
  { unfold psi. rewrite P_start. unfold wk, start, set_lstop, init. cbn [steps spin]. lia. }
  assert (E2 : sx (start fx bs smp) = 0) by reflexivity.
  rewrite E1 in Hpsi. rewrite E2 in Hsx. unfold psi, wk in Hpsi. unfold sx in Hsx.
  assert (0 <= K * Z.of_nat (P s')) by (unfold K; lia).
  split; [|lia]. unfold K in *. lia.
Qed.

Lemma fuel_for_enough : forall reg bs d, (3 * S (len bs) + 3 <= fuel_for reg bs d)%nat.
Proof. intros. unfold fuel_for. nia. Qed.

(* ------------------------------------------------------------------ the RPC wrappers *)
Section WrapCost.
Variable orc : okind -> bytes -> option bool.
Variable registry : list (bytes * shape).
Variable fx : fixes.
Variable fuel p0 : nat.
Hypothesis Hfuel : (3 * p0 + 3 <= fuel)%nat.

Ltac num := first [lia|unfold c0, K; lia|cbn; lia].

Ltac valQ := match goal with |- allQ _ ?s0 (bnd (dec_val _ _ _ _ _ ?x) _) =>
  assert ((P x <= p0)%nat) by pbound;
  eapply allQ_bnd_ex; [eapply (allQ_weaken _ _ _ _ s0 x); [solveQ|apply allQ_dec_val; lia]|intros ? ? ?|num] end.

Lemma allQ_header_simple : forall (h : aval) (k : bool -> out bool) b s0,
  (forall v, allQ b s0 (k v)) -> allQ b s0 (header_simple orc h k).
Proof.
  intros h k b s0 Hk. unfold header_simple. destruct h; auto.
  destruct (last_of _ _ _) as [v|]; auto. destruct v; auto.
  unfold ask. destruct (orc _ _); [apply Hk|exact I].
Qed.

Lemma allQ_read_header : forall s (k : byte -> aval -> st -> out bool) b, 0 <= b -> (P s <= p0)%nat ->
  (forall t h x, (P x <= p0)%nat -> allQ b x (k t h x)) -> allQ (3 + b) s (read_header orc registry fx fuel s k).
Proof.
  intros s k b Hb Hp Hk. unfold read_header. open_primsQ. destruct (tag_is b0 "H").
  - valQ. open_primsQ.
    match goal with |- allQ _ ?a (k _ _ ?y) => eapply allQ_le; [eapply (allQ_weaken _ _ _ _ a y); [solveQ|apply Hk; pbound]|num] end.
  - match goal with |- allQ _ ?a (k _ _ ?y) => eapply allQ_le; [eapply (allQ_weaken _ _ _ _ a y); [solveQ|apply Hk; pbound]|num] end.
Qed.


Lemma allQ_args_loop : forall m k i n s, (P s <= k)%nat -> (P s <= p0)%nat ->
  allQ 0 s (args_loop orc registry fx fuel k m i n s).
Proof.
  intros m. induction k as [|k IH]; intros i n s Hk Hp; cbn [args_loop].
  - destruct (n <=? 0)%Z; [leafAQ|]. destruct (lstop s && has_err s) eqn:E1; [leafAQ|]. destruct (stuck s) eqn:E; [cbn [allQ]; eapply Q_le; [apply Q_spin_by; eapply stuck_not_stopping; eauto|lia]|].
    rewrite (P0_stuck s) in E by lia. discriminate.
  - destruct (n <=? 0)%Z; [leafAQ|]. destruct (lstop s && has_err s) eqn:E1; [leafAQ|]. destruct (stuck s) eqn:E; [cbn [allQ]; eapply Q_le; [apply Q_spin_by; eapply stuck_not_stopping; eauto|lia]|].
    set (x := add_alloc (add_alloc s 32) _).
    assert (Hx : Q 2 s x) by (unfold x; eapply Q_le; [solveQ|lia]).
    pose proof (Q_P _ _ _ Hx) as HPx.
    replace 0 with (2 + (-20 + 18)) by lia. eapply (allQ_weaken _ _ _ _ s x); [exact Hx|].
    eapply allQ_bnd_Q; [apply allQ_dec_val_live; [lia|unfold x; rewrite !stuck_add_alloc; exact E]| |lia].
    intros a y Hq. eapply allQ_le; [apply IH|lia].
    + pose proof (Q_neg_P _ _ _ Hq ltac:(lia)). lia.
    + pose proof (Q_P _ _ _ Hq). lia.
Qed.

Lemma allQ_decode_arguments : forall missing m s, (P s <= p0)%nat ->
  allQ (3 * c0 + 10) s (decode_arguments orc registry fx fuel missing m s).
Proof.
  intros missing m s Hp. unfold decode_arguments. open_primsQ. destruct (negb (tag_is b "a")); [leafAQ|].
  destruct missing.
  - match goal with |- allQ _ ?a (bnd (dec_tag _ _ _ _ _ _ ?y) _) =>
      assert (Hx : (P y <= p0)%nat) by pbound;
      eapply allQ_bnd_ex; [eapply (allQ_weaken _ _ _ _ a y); [solveQ|apply allQ_dec_tag]|intros ? ? ?|] end.
    + unfold need. cbn [rank]. lia.
    + leafAQ.
    + unfold cost, c0. cbn [rank]. lia.
  - open_primsQ.
    match goal with |- allQ _ ?a (bnd (counted _ _ _ _ _ ?y) _) =>
      eapply allQ_bnd_ex; [eapply (allQ_weaken _ _ _ _ a y); [solveQ|apply allQ_counted]|intros ? ? ?|num] end.
    match goal with |- allQ _ ?s0 (bnd (args_loop _ _ _ _ _ _ _ _ ?x) _) =>
      assert (Hx : (P x <= p0)%nat) by pbound;
      eapply allQ_bnd_ex; [eapply (allQ_weaken _ _ _ _ s0 x); [solveQ|apply allQ_args_loop; [lia|exact Hx]]|intros ? ? ?|num] end.
    leafAQ.
Qed.

Lemma allQ_service_decode : forall ms missing bs, (S (len bs) <= p0)%nat ->
  allQ (3 * c0 + 20) (start fx bs false) (service_decode orc registry fx fuel ms missing bs).
Proof.
  intros ms missing bs Hp. unfold service_decode. destruct bs as [|b0 bs']; [leafAQ|].
  set (bs := b0 :: bs') in *.
  assert (Hp0 : (P (start fx bs false) <= p0)%nat) by (rewrite P_start; exact Hp).
  eapply allQ_le; [apply (allQ_read_header _ _ (3 * c0 + 12)); [unfold c0; lia|exact Hp0|]|lia].
  intros t h x Hx. destruct (tag_is t "C"); [|destruct (tag_is t "z"); leafAQ].
  apply allQ_header_simple. intros smp.
  set (x1 := if smp then set_simple x true else x).
  assert (H1 : Q 0 x x1) by (unfold x1; destruct smp; [apply Q_set_simple|apply Q_refl]).
  pose proof (Q_P _ _ _ H1) as HP1.
  eapply allQ_bnd_ex; [eapply (allQ_weaken _ _ _ _ x x1); [exact H1|apply allQ_dec_val; lia]|intros nv y Hq|unfold c0; lia].
  pose proof (Q_P _ _ _ Hq) as HPy.
  destruct nv; try exact I. destruct (negb (ascii s)); [exact I|].
  destruct (find_method _ _).
  - eapply allQ_le; [apply allQ_decode_arguments; lia|lia].
  - destruct missing; [eapply allQ_le; [apply allQ_decode_arguments; lia|lia]|leafAQ].
Qed.

Lemma allQ_results_loop : forall rts n s, (P s <= p0)%nat ->
  allQ (2 * Z.of_nat (len rts)) s (results_loop orc registry fx fuel rts n s).
Proof.
  induction rts as [|sh r IH]; intros n s Hp; cbn [results_loop]; [leafAQ|].
  destruct (n <=? 0)%Z; [leafAQ|].
  set (x := add_alloc s _). assert (Hx : Q 1 s x) by apply Q_add_alloc. pose proof (Q_P _ _ _ Hx).
  replace (2 * Z.of_nat (len (sh :: r))) with (1 + (1 + 2 * Z.of_nat (len r))) by (cbn [len]; lia).
  eapply (allQ_weaken _ _ _ _ s x); [exact Hx|].
  eapply allQ_bnd_Q; [apply allQ_dec_val; lia| |lia].
  intros a y Hq. apply IH. pose proof (Q_P _ _ _ Hq). lia.
Qed.

Lemma allQ_client_decode : forall rts bs, (S (len bs) <= p0)%nat ->
  allQ (3 * c0 + 30 + 2 * Z.of_nat (len rts)) (start fx bs false) (client_decode orc registry fx fuel rts bs).
Proof.
  intros rts bs Hp. unfold client_decode.
  assert (Hp0 : (P (start fx bs false) <= p0)%nat) by (rewrite P_start; exact Hp).
  eapply allQ_le; [apply (allQ_read_header _ _ (3 * c0 + 22 + 2 * Z.of_nat (len rts))); [unfold c0; lia|exact Hp0|]|lia].
  intros t h x Hx. destruct (tag_is t "R").
  - apply allQ_header_simple. intros smp.
    set (x1 := if smp then set_simple x true else x).
    assert (H1 : Q 0 x x1) by (unfold x1; destruct smp; [apply Q_set_simple|apply Q_refl]).
    pose proof (Q_P _ _ _ H1) as HP1.
    destruct rts as [|sh [|sh2 r]].
    + leafAQ.
    + set (y := add_alloc x1 _). assert (Hy : Q 1 x1 y) by apply Q_add_alloc. pose proof (Q_P _ _ _ Hy).
      eapply allQ_bnd_ex; [eapply (allQ_weaken _ _ _ _ x y); [solveQ|apply allQ_dec_val; lia]|intros ? ? ?|unfold c0; lia].
      leafAQ.
    + open_primsQ. destruct (tag_is b "a").
      * open_primsQ.
        match goal with |- allQ _ ?s0 (bnd (results_loop _ _ _ _ _ _ ?y) _) =>
          assert (Hy : (P y <= p0)%nat) by pbound;
          eapply allQ_bnd_ex; [eapply (allQ_weaken _ _ _ _ s0 y); [solveQ|apply allQ_results_loop; exact Hy]|intros ? ? ?|unfold c0; cbn [len]; lia] end.
        destruct (z <? 0)%Z; [cbn [allQ]; split; leafQ|leafAQ].
      * pose proof (cost_le sh) as Hc. unfold c0 in Hc.
        match goal with |- allQ _ ?s0 (bnd (dec_tag _ _ _ _ _ _ ?y) _) =>
          assert (Hy : (P y <= p0)%nat) by pbound;
          eapply allQ_bnd_ex; [eapply (allQ_weaken _ _ _ _ s0 y); [solveQ|apply allQ_dec_tag]|intros ? ? ?|] end.
        { unfold need. destruct sh; cbn [rank]; lia. }
        { cbn [allQ]. eapply Q_le; [apply Q_refl|unfold c0; cbn [len]; lia]. }
        { unfold c0 in *. cbn [len]. lia. }
  - destruct (tag_is t "E").
    + valQ. leafAQ.
    + destruct (tag_is t "z"); leafAQ.
Qed.
End WrapCost.

(* ------------------------------------------------------------------ the statements used by Props/C04.v *)

Definition enough (fuel : nat) (bs : bytes) : Prop := (3 * S (len bs) + 3 <= fuel)%nat.

(* steps within  K*(|bs|+1) + c + spin,  and spin within excess *)
Definition within (c : Z) (bs : bytes) (s' : st) : Prop :=
  Z.of_N (steps s') <= K * (Z.of_nat (len bs) + 1) + c + Z.of_N (spin s') /\ (spin s' <= excess s')%N.

Lemma all_states_imp : forall (A : Type) (Pr Pr' : st -> Prop) (r : out A),
  (forall s, Pr s -> Pr' s) -> all_states Pr r -> all_states Pr' r.
Proof. intros A Pr Pr' r H. induction r; cbn; auto. intros [H1 H2]. split; auto. Qed.

Theorem unmarshal_bounds : forall orc reg fx fuel bs smp sh, enough fuel bs ->
  all_states (within 1 bs) (unmarshal orc reg fx fuel bs smp sh) /\
  forall chk, interp chk (unmarshal orc reg fx fuel bs smp sh) <> VFuel.
Proof.
  intros orc reg fx fuel bs smp sh Hf. unfold unmarshal.
  assert (H : allQ 1 (start fx bs smp) (dec_val orc reg fx fuel sh (start fx bs smp))).
  { apply allQ_dec_val. rewrite P_start. exact Hf. }
  split.
  - eapply all_states_imp; [|apply allQ_all_states; exact H]. intros s Hq. apply (Q_init_bounds _ _ _ _ _ Hq).
  - intros chk. eapply allQ_no_fuel; exact H.
Qed.

Theorem service_bounds : forall orc reg fx fuel ms missing bs, enough fuel bs ->
  all_states (within (3 * c0 + 20) bs) (service_decode orc reg fx fuel ms missing bs) /\
  forall chk, interp chk (service_decode orc reg fx fuel ms missing bs) <> VFuel.
Proof.
  intros orc reg fx fuel ms missing bs Hf.
  assert (H : allQ (3 * c0 + 20) (start fx bs false) (service_decode orc reg fx fuel ms missing bs)).
  { apply (allQ_service_decode orc reg fx fuel (S (len bs))); [exact Hf|lia]. }
  split.
  - eapply all_states_imp; [|apply allQ_all_states; exact H]. intros s Hq. apply (Q_init_bounds _ _ _ _ _ Hq).
  - intros chk. eapply allQ_no_fuel; exact H.
Qed.

Theorem client_bounds : forall orc reg fx fuel rts bs, enough fuel bs ->
  all_states (within (3 * c0 + 30 + 2 * Z.of_nat (len rts)) bs) (client_decode orc reg fx fuel rts bs) /\
  forall chk, interp chk (client_decode orc reg fx fuel rts bs) <> VFuel.
Proof.
  intros orc reg fx fuel rts bs Hf.
  assert (H : allQ (3 * c0 + 30 + 2 * Z.of_nat (len rts)) (start fx bs false) (client_decode orc reg fx fuel rts bs)).
  { apply (allQ_client_decode orc reg fx fuel (S (len bs))); [exact Hf|lia]. }
  split.
  - eapply all_states_imp; [|apply allQ_all_states; exact H]. intros s Hq. apply (Q_init_bounds _ _ _ _ _ Hq).
  - intros chk. eapply allQ_no_fuel; exact H.
Qed.

Lemma fuel_for_is_enough : forall reg bs d, enough (fuel_for reg bs d) bs.
Proof. intros. unfold enough. apply fuel_for_enough. Qed.

(* the guard: every announced count and length was delivered by the input *)
Lemma within_no_excess : forall c bs s', within c bs s' -> excess s' = 0%N ->
  Z.of_N (steps s') <= K * (Z.of_nat (len bs) + 1) + c.
Proof. intros c bs s' [H1 H2] E. rewrite E in H2. lia. Qed.

(* ------------------------------------------------------------------ allocation *)

(* what was allocated on the word of the wire is covered by
     (largest unit) x (steps + excess + input length)
   where the unit is the size of one element / pointer target / map entry of a shape in play, 48 per
   field of an object read as a map, 32 per argument, 16 per field name, 3 per UTF-16 unit, 1 per byte *)
Definition alloc_ok (bs : bytes) (s' : st) : Prop :=
  (alloc s' <= um s' * (steps s' + excess s' + N.of_nat (len bs)))%N.

Lemma R_init_alloc : forall fx bs smp s', R (start fx bs smp) s' -> alloc_ok bs s'.
Proof.
  intros fx bs smp s' [[_ [_ [_ HJ]]] _]. unfold alloc_ok.
  assert (H0 : J (len bs) (start fx bs smp)) by (unfold J; cbn; lia).
  specialize (HJ (len bs) ltac:(cbn; lia) H0). unfold J, tm in HJ.
  eapply N.le_trans; [exact HJ|]. apply N.mul_le_mono_l. lia.
Qed.

Theorem unmarshal_alloc : forall orc reg fx fuel bs smp sh,
  all_states (alloc_ok bs) (unmarshal orc reg fx fuel bs smp sh).
Proof.
  intros. eapply all_states_imp; [apply (R_init_alloc fx bs smp)|]. apply allR_all_states. unfold unmarshal. apply allR_dec_val.
Qed.
Theorem service_alloc : forall orc reg fx fuel ms missing bs,
  all_states (alloc_ok bs) (service_decode orc reg fx fuel ms missing bs).
Proof. intros. eapply all_states_imp; [apply (R_init_alloc fx bs false)|]. apply allR_all_states. apply allR_service_decode. Qed.
Theorem client_alloc : forall orc reg fx fuel rts bs,
  all_states (alloc_ok bs) (client_decode orc reg fx fuel rts bs).
Proof. intros. eapply all_states_imp; [apply (R_init_alloc fx bs false)|]. apply allR_all_states. apply allR_client_decode. Qed.

(* with the step bound: linear in the input exactly when nothing announced stays undelivered *)
Lemma alloc_linear : forall c bs s', alloc_ok bs s' -> within c bs s' -> 0 <= c ->
  Z.of_N (alloc s') <= Z.of_N (um s') * ((K + 1) * (Z.of_nat (len bs) + 1) + c + 2 * Z.of_N (excess s')).
Proof.
  intros c bs s' Ha [Hs Hx] Hc. unfold alloc_ok in Ha.
  assert (H1 : Z.of_N (alloc s') <= Z.of_N (um s') * (Z.of_N (steps s') + Z.of_N (excess s') + Z.of_nat (len bs))) by nia.
  eapply Z.le_trans; [exact H1|]. apply Z.mul_le_mono_nonneg_l; [lia|]. unfold K in *. lia.
Qed.

(* ------------------------------------------------------------------ loops that stop at the first error *)

(* a decoder whose element loops stop at the first error never spins: from R alone *)
Lemma no_spin_from_start : forall fx bs smp s', fx_loop fx = true -> R (start fx bs smp) s' -> spin s' = 0%N.
Proof. intros fx bs smp s' H [_ [_ Hs]]. rewrite Hs by exact H. reflexivity. Qed.

Theorem unmarshal_no_spin : forall orc reg fx fuel bs smp sh, fx_loop fx = true ->
  all_states (fun s' => spin s' = 0%N) (unmarshal orc reg fx fuel bs smp sh).
Proof.
  intros. eapply all_states_imp; [intros s Hs; eapply no_spin_from_start; eassumption|].
  apply allR_all_states. unfold unmarshal. apply allR_dec_val.
Qed.
Theorem service_no_spin : forall orc reg fx fuel ms missing bs, fx_loop fx = true ->
  all_states (fun s' => spin s' = 0%N) (service_decode orc reg fx fuel ms missing bs).
Proof.
  intros. eapply all_states_imp; [intros s Hs; eapply no_spin_from_start; eassumption|].
  apply allR_all_states. apply allR_service_decode.
Qed.
Theorem client_no_spin : forall orc reg fx fuel rts bs, fx_loop fx = true ->
  all_states (fun s' => spin s' = 0%N) (client_decode orc reg fx fuel rts bs).
Proof.
  intros. eapply all_states_imp; [intros s Hs; eapply no_spin_from_start; eassumption|].
  apply allR_all_states. apply allR_client_decode.
Qed.

Lemma all_states_and : forall (A : Type) (P1 P2 : st -> Prop) (r : out A),
  all_states P1 r -> all_states P2 r -> all_states (fun s => P1 s /\ P2 s) r.
Proof. intros A P1 P2 r. induction r; cbn; auto. intros [H1 H2] [H3 H4]. split; auto. Qed.

(* hence, for every input: time linear in the input *)
Theorem unmarshal_linear_when_loops_stop : forall orc reg fx fuel bs smp sh, fx_loop fx = true -> enough fuel bs ->
  all_states (fun s' => Z.of_N (steps s') <= K * (Z.of_nat (len bs) + 1) + 1) (unmarshal orc reg fx fuel bs smp sh).
Proof.
  intros orc reg fx fuel bs smp sh Hl Hf.
  eapply all_states_imp; [|apply all_states_and; [apply unmarshal_bounds; exact Hf|apply unmarshal_no_spin; exact Hl]].
  intros s [[H1 _] H2]. rewrite H2 in H1. cbv beta in H1. lia.
Qed.
