(* C19: the data invariant: every batch entry, wherever it is, is a segment of what was
   taken from a cache that its receiver's subscription installed; the topics of one batch
   are distinct (so the list is the Go map); everything in a cache was accepted for the
   cache's owner. *)
From Coq Require Import List ZArith Bool Arith Lia Permutation.
From HV Require Import Model.Push Proofs.PushBase Proofs.PushInv.
Import ListNotations.

Definition owned (cs : list cache) (c : nat) (o : nat * nat) : Prop :=
  exists ca, nth_error cs c = Some ca /\ cown ca = o.

Definition ent_ok (cs : list cache) (id : nat) (e : entry) : Prop :=
  exists ca pre post, nth_error cs (e_cache e) = Some ca /\ cown ca = (id, e_topic e) /\
                      ctaken ca = pre ++ e_msgs e ++ post /\ length pre = e_off e.

Definition batch_ok (cs : list cache) (id : nat) (b : batch) : Prop :=
  Forall (ent_ok cs id) b /\ NoDup (map e_topic b).

Definition pend (sb : subst) : list nat := match spc sb with STake k _ => [k] | _ => [] end.

Definition sub_ok (cs : list cache) (sb : subst) : Prop :=
  (forall k c, spc sb = STake k c -> owned cs c (sid sb, k)) /\
  Forall (ent_ok cs (sid sb)) (sres sb) /\
  NoDup (map e_topic (sres sb) ++ pend sb ++ skeys sb).

(* caches only grow: owner fixed, ctaken extended at the end *)
Definition cs_le (cs cs' : list cache) : Prop :=
  forall c ca, nth_error cs c = Some ca ->
  exists ca', nth_error cs' c = Some ca' /\ cown ca' = cown ca /\ exists ext, ctaken ca' = ctaken ca ++ ext.

Lemma cs_le_refl cs : cs_le cs cs.
Proof. intros c ca H. exists ca. repeat split; auto. exists []. rewrite app_nil_r. reflexivity. Qed.

Lemma cs_le_trans a b c : cs_le a b -> cs_le b c -> cs_le a c.
Proof.
  intros H1 H2 i ca Hi. destruct (H1 _ _ Hi) as (cb & Hb & Ob & e1 & E1).
  destruct (H2 _ _ Hb) as (cc & Hc & Oc & e2 & E2).
  exists cc. repeat split; [auto|congruence|]. exists (e1 ++ e2). rewrite E2, E1, app_assoc. reflexivity.
Qed.

Lemma cs_le_upd cs c ca ca' :
  nth_error cs c = Some ca -> cown ca' = cown ca -> (exists ext, ctaken ca' = ctaken ca ++ ext) ->
  cs_le cs (upd c ca' cs).
Proof.
  intros Hc Ho He i cb Hi. destruct (Nat.eq_dec c i) as [->|Hne].
  - rewrite Hc in Hi. inversion Hi; subst. exists ca'. split; [|auto].
    apply nth_error_upd_eq. eapply nth_error_lt; eauto.
  - exists cb. rewrite nth_error_upd_neq by exact Hne. repeat split; auto.
    exists []. rewrite app_nil_r. reflexivity.
Qed.

Lemma cs_le_snoc cs x : cs_le cs (cs ++ [x]).
Proof.
  intros i ca Hi. exists ca. split; [apply nth_error_snoc_old; auto|]. split; [reflexivity|].
  exists []. rewrite app_nil_r. reflexivity.
Qed.

Lemma owned_mono cs cs' c o : cs_le cs cs' -> owned cs c o -> owned cs' c o.
Proof.
  intros Hle (ca & Hc & Ho). destruct (Hle _ _ Hc) as (ca' & Hc' & Ho' & _).
  exists ca'. split; [auto|congruence].
Qed.

Lemma ent_ok_mono cs cs' id e : cs_le cs cs' -> ent_ok cs id e -> ent_ok cs' id e.
Proof.
  intros Hle (ca & pre & post & Hc & Ho & Ht & Hl).
  destruct (Hle _ _ Hc) as (ca' & Hc' & Ho' & ext & He).
  exists ca', pre, (post ++ ext). repeat split; auto; [congruence|].
  rewrite He, Ht, <- !app_assoc. reflexivity.
Qed.

Lemma Forall_ent_ok_mono cs cs' id b : cs_le cs cs' -> Forall (ent_ok cs id) b -> Forall (ent_ok cs' id) b.
Proof. intros Hle H. eapply Forall_impl; [|exact H]. intros e. apply ent_ok_mono; auto. Qed.

Lemma batch_ok_mono cs cs' id b : cs_le cs cs' -> batch_ok cs id b -> batch_ok cs' id b.
Proof. intros Hle [H1 H2]. split; [eapply Forall_ent_ok_mono; eauto|auto]. Qed.

Lemma sub_ok_mono cs cs' sb : cs_le cs cs' -> sub_ok cs sb -> sub_ok cs' sb.
Proof.
  intros Hle (H1 & H2 & H3). repeat split; auto.
  - intros k c Hk. eapply owned_mono; eauto.
  - eapply Forall_ent_ok_mono; eauto.
Qed.

Lemma sub_ok_sub0 cs id r : sub_ok cs (sub0 id r).
Proof. repeat split; cbn; [discriminate|constructor|constructor]. Qed.

(* ---- deliver *)

Lemma deliver_log id : forall b cs dl, snd (deliver id b cs dl) = dl ++ map (pair id) b.
Proof.
  induction b as [|e b IH]; intros cs dl; cbn [deliver map].
  - rewrite app_nil_r. reflexivity.
  - rewrite IH. rewrite <- app_assoc. reflexivity.
Qed.

Definition set_cdel (ca : cache) (n : nat) : cache :=
  {| cown := cown ca; cmsgs := cmsgs ca; ctaken := ctaken ca; cdel := n |}.

(* deliver changes nothing but high-water marks *)
Definition same_but_cdel (cs cs' : list cache) : Prop :=
  length cs' = length cs /\
  forall c ca, nth_error cs c = Some ca ->
  exists n, nth_error cs' c = Some (set_cdel ca n).

Lemma same_but_cdel_refl cs : same_but_cdel cs cs.
Proof. split; [reflexivity|]. intros c ca H. exists (cdel ca). rewrite H. destruct ca; reflexivity. Qed.

Lemma deliver_same id : forall b cs dl, same_but_cdel cs (fst (deliver id b cs dl)).
Proof.
  induction b as [|e b IH]; intros cs dl; cbn [deliver].
  - apply same_but_cdel_refl.
  - destruct (nth_error cs (e_cache e)) as [ca|] eqn:Ec; [|apply IH].
    match goal with |- same_but_cdel _ (fst (deliver _ _ ?cs1 ?dl1)) =>
      destruct (IH cs1 dl1) as [Hl Hs] end.
    split; [rewrite Hl, length_upd; reflexivity|].
    intros c cb Hc. destruct (Nat.eq_dec (e_cache e) c) as [Heq|Hne].
    + subst c. rewrite Ec in Hc. inversion Hc; subst cb.
      edestruct Hs as (n & Hn).
      { apply nth_error_upd_eq. eapply nth_error_lt; eauto. }
      exists n. rewrite Hn. reflexivity.
    + edestruct Hs as (n & Hn).
      { rewrite nth_error_upd_neq by exact Hne. exact Hc. }
      exists n. exact Hn.
Qed.

Lemma same_but_cdel_le cs cs' : same_but_cdel cs cs' -> cs_le cs cs'.
Proof.
  intros [_ H] c ca Hc. destruct (H _ _ Hc) as (n & Hn). exists (set_cdel ca n).
  repeat split; auto. exists []. cbn. rewrite app_nil_r. reflexivity.
Qed.

Lemma same_but_cdel_back cs cs' c ca' : same_but_cdel cs cs' -> nth_error cs' c = Some ca' ->
  exists ca n, nth_error cs c = Some ca /\ ca' = set_cdel ca n.
Proof.
  intros [Hl H] Hc. assert (Hlt : c < length cs) by (rewrite <- Hl; eapply nth_error_lt; eauto).
  destruct (nth_error cs c) as [ca|] eqn:E; [|apply nth_error_None in E; lia].
  destruct (H _ _ E) as (n & Hn). rewrite Hn in Hc. inversion Hc; subst. exists ca, n. auto.
Qed.

(* ------------------------------------------------------------------ the invariant *)

Record Inv2 (s : state) : Prop := {
  t_nodup : NoDup (map tkey (table s));
  t_tab : forall id k c, In (id, k, c) (table s) -> owned (caches s) c (id, k);
  t_pub : forall w wk tp m todo res id c, nth_error (works s) w = Some wk ->
      wf wk = WPub tp m todo res (PubAppend id c) -> owned (caches s) c (id, tp);
  t_wsub : forall w wk sb, nth_error (works s) w = Some wk -> wsub wk = Some sb -> sub_ok (caches s) sb;
  t_psub : forall p pl sb, nth_error (polls s) p = Some pl -> ppc pl = LSending sb -> sub_ok (caches s) sb;
  t_chan : forall p pl b, nth_error (polls s) p = Some pl -> nth_error (chans s) p = Some (VBatch b) ->
      batch_ok (caches s) (pid pl) b;
  t_del : forall id e, In (id, e) (delivered s) -> ent_ok (caches s) id e;
  t_acc : forall c ca m, nth_error (caches s) c = Some ca -> In m (cacc ca) ->
      In (fst (cown ca), snd (cown ca), m) (accepted s)
}.

Lemma Inv2_init b : Inv2 (init_of b).
Proof.
  constructor; cbn; intros; try tauto; try constructor;
    match goal with H : nth_error [] ?x = Some _ |- _ => destruct x; discriminate end.
Qed.

(* ---- one step of send *)

Lemma NoDup_pick_move (a : list nat) key l1 l2 :
  NoDup (a ++ [] ++ l1 ++ key :: l2) -> NoDup (a ++ [key] ++ l1 ++ l2).
Proof.
  cbn. intros H.
  assert (Hp : Permutation (a ++ l1 ++ key :: l2) (a ++ key :: l1 ++ l2)).
  { apply Permutation_app_head. symmetry. apply Permutation_middle. }
  eapply Permutation_NoDup; eauto.
Qed.

Lemma NoDup_drop_mid (a : list nat) key l : NoDup (a ++ [key] ++ l) -> NoDup (a ++ [] ++ l).
Proof. cbn. intros H. eapply NoDup_remove_1; eauto. Qed.

Lemma NoDup_pick_drop (a : list nat) key l1 l2 :
  NoDup (a ++ [] ++ l1 ++ key :: l2) -> NoDup (a ++ [] ++ l1 ++ l2).
Proof. intros H. apply NoDup_pick_move in H. apply NoDup_drop_mid in H. exact H. Qed.

Lemma sub_rel_ok s sb s1 o :
  Inv2 s -> sub_ok (caches s) sb -> sub_rel s sb s1 o ->
  cs_le (caches s) (caches s1) /\
  table s1 = table s /\ delivered s1 = delivered s /\ accepted s1 = accepted s /\
  (forall c ca, nth_error (caches s1) c = Some ca ->
     exists ca0, nth_error (caches s) c = Some ca0 /\ cown ca = cown ca0 /\ cacc ca = cacc ca0) /\
  (forall sb', o = SCont sb' -> sub_ok (caches s1) sb') /\
  (forall b, nth_error (chans s1) (sresp sb) = Some (VBatch b) -> nth_error (chans s) (sresp sb) = Some VEmpty ->
     batch_ok (caches s1) (sid sb) b).
Proof.
  intros HI (Hk & Hr & Hn) H.
  assert (Hsame : forall s0 : state, forall c ca, nth_error (caches s0) c = Some ca ->
            exists ca0, nth_error (caches s0) c = Some ca0 /\ cown ca = cown ca0 /\ cacc ca = cacc ca0)
    by (intros; eauto).
  inversion H; subst; sproj.
  1-6: (split; [apply cs_le_refl|]; split; [reflexivity|]; split; [reflexivity|]; split; [reflexivity|];
        split; [intros c0 ca0 Hc0; exists ca0; auto|]; split).
  - (* load *)
    intros sb' E. inversion E; subst. split; [cbn; discriminate|]. split; [constructor|].
    cbn. apply tkeys_NoDup. apply t_nodup. exact HI.
  - intros b Hb Hc. congruence.
  - (* nil *) discriminate.
  - intros b Hb Hc. rewrite nth_error_upd_eq in Hb by (eapply nth_error_lt; eauto). discriminate.
  - (* false *) discriminate.
  - intros b Hb Hc. congruence.
  - (* batch *) discriminate.
  - intros b Hb Hc. rewrite nth_error_upd_eq in Hb by (eapply nth_error_lt; eauto).
    inversion Hb; subst. split; [exact Hr|].
    unfold pend in Hn. rewrite H0, H1 in Hn. cbn in Hn. rewrite app_nil_r in Hn. exact Hn.
  - (* skip *)
    intros sb' E. inversion E; subst. split; [cbn; discriminate|]. split; [exact Hr|].
    destruct (pick_spec _ _ _ _ H1) as (l1 & l2 & E1 & E2). unfold pend in *. rewrite H0 in Hn. cbn.
    rewrite E1 in Hn. rewrite E2. eapply NoDup_pick_drop; eauto.
  - intros b Hb Hc; congruence.
  - (* visit *)
    intros sb' E. inversion E; subst. split; [|split; [exact Hr|]].
    + intros k0 c0 E0. cbn in E0. inversion E0; subst. eapply t_tab; [exact HI|]. apply tget_In; auto.
    + destruct (pick_spec _ _ _ _ H1) as (l1 & l2 & E1 & E2). unfold pend in *. rewrite H0 in Hn. cbn.
      rewrite E1 in Hn. rewrite E2. eapply NoDup_pick_move; eauto.
  - intros b Hb Hc; congruence.
  - (* take *)
    assert (Hle : cs_le (caches s) (upd c (take_cache ca) (caches s))).
    { eapply cs_le_upd; eauto. exists (cmsgs ca). reflexivity. }
    split; [exact Hle|]. split; [reflexivity|]. split; [reflexivity|]. split; [reflexivity|].
    split; [|split].
    + intros c0 cb Hc0. upd_cases Hc0; [|eauto].
      exists ca. split; [auto|]. split; [reflexivity|]. unfold cacc. cbn. rewrite app_nil_r. reflexivity.
    + intros sb' E. inversion E; subst. split; [cbn; discriminate|]. split.
      * cbn [sres sb_mk sid].
        unfold take_res. destruct (cmsgs ca) as [|m0 ms] eqn:Em.
        -- eapply Forall_ent_ok_mono; eauto.
        -- apply Forall_app. split; [eapply Forall_ent_ok_mono; eauto|]. constructor; [|constructor].
           destruct (Hk _ _ H0) as (ca1 & Hc1 & Ho1). rewrite H1 in Hc1. inversion Hc1; subst ca1.
           exists (take_cache ca), (ctaken ca), []. cbn.
           rewrite nth_error_upd_eq by (eapply nth_error_lt; eauto).
           rewrite app_nil_r, Em. repeat split; auto.
      * cbn [sres sb_mk skeys spc pend].
        unfold pend in Hn. rewrite H0 in Hn. unfold take_res. destruct (cmsgs ca) as [|m0 ms].
        -- eapply NoDup_drop_mid; eauto.
        -- rewrite map_app. cbn. rewrite <- app_assoc. exact Hn.
    + intros b Hb Hc. congruence.
Qed.

(* steps that leave table, caches and the two logs alone *)
Lemma Inv2_transfer s s' :
  Inv2 s ->
  table s' = table s -> caches s' = caches s -> delivered s' = delivered s -> accepted s' = accepted s ->
  (forall w wk tp m todo res id c, nth_error (works s') w = Some wk ->
      wf wk = WPub tp m todo res (PubAppend id c) -> owned (caches s) c (id, tp)) ->
  (forall w wk sb, nth_error (works s') w = Some wk -> wsub wk = Some sb -> sub_ok (caches s) sb) ->
  (forall p pl sb, nth_error (polls s') p = Some pl -> ppc pl = LSending sb -> sub_ok (caches s) sb) ->
  (forall p pl b, nth_error (polls s') p = Some pl -> nth_error (chans s') p = Some (VBatch b) ->
      batch_ok (caches s) (pid pl) b) ->
  Inv2 s'.
Proof.
  intros HI Et Ec Ed Ea H1 H2 H3 H4. destruct HI as [A B C D E F G I].
  constructor; rewrite ?Et, ?Ec, ?Ed, ?Ea; auto.
Qed.

(* the pid of a poll never changes *)
Lemma upd_poll_pid ps p pl pc' q ql :
  nth_error ps p = Some pl -> nth_error (upd p {| pid := pid pl; ppc := pc' |} ps) q = Some ql ->
  exists ql0, nth_error ps q = Some ql0 /\ pid ql = pid ql0 /\ (q <> p -> ql = ql0) /\ (q = p -> ppc ql = pc').
Proof.
  intros Hp Hq. upd_cases Hq.
  - exists pl. repeat split; auto. intros; congruence.
  - exists ql. repeat split; auto. intros; congruence.
Qed.

Lemma Inv2_poll_step s p pl t s' :
  Inv1 s -> Inv2 s -> nth_error (polls s) p = Some pl -> poll_rel s p pl t s' -> Inv2 s'.
Proof.
  intros HJ HI Hp Hr.
  (* every case but sending and recv_batch: table, caches, logs untouched *)
  assert (Hgen : forall pc' chs' ws',
            (forall sb, pc' = LSending sb -> sub_ok (caches s) sb) ->
            (forall q b, nth_error chs' q = Some (VBatch b) -> nth_error (chans s) q = Some (VBatch b)) ->
            (ws' = works s \/ exists f, ws' = works s ++ [ {| wf := WHb (pid pl) f HbUpsert; wsub := None |} ]) ->
            forall s', table s' = table s -> caches s' = caches s -> delivered s' = delivered s ->
                       accepted s' = accepted s -> works s' = ws' -> chans s' = chs' ->
                       polls s' = upd p {| pid := pid pl; ppc := pc' |} (polls s) -> Inv2 s').
  { intros pc' chs' ws' Hpc Hch Hws s0 Et Ec Ed Ea Ew Ech Epl.
    apply (Inv2_transfer s s0 HI Et Ec Ed Ea); rewrite ?Ew, ?Ech, ?Epl.
    - intros w wk tp m todo res id c Hw Hf. destruct Hws as [->|(f & ->)].
      + eapply t_pub; eauto.
      + snoc_cases Hw; [eapply t_pub; eauto|discriminate].
    - intros w wk sb Hw Hs. destruct Hws as [->|(f & ->)].
      + eapply t_wsub; eauto.
      + snoc_cases Hw; [eapply t_wsub; eauto|discriminate].
    - intros q ql sb Hq Hs. upd_cases Hq.
      + cbn in Hs. apply Hpc; auto.
      + eapply t_psub; eauto.
    - intros q ql b Hq Hb. apply Hch in Hb.
      destruct (upd_poll_pid _ _ _ _ _ _ Hp Hq) as (ql0 & Hq0 & Hid & _). rewrite Hid.
      eapply t_chan; eauto. }
  inversion Hr; subst; clear Hr.
  - eapply (Hgen LPopSig (chans s) (works s)); eauto; try reflexivity. intros sb E; discriminate.
  - eapply (Hgen LPopSig (upd r VNil (chans s)) (works s)); eauto; try reflexivity.
    + intros sb E; discriminate.
    + intros q b Hq. upd_cases Hq; [discriminate|auto].
  - eapply (Hgen LSend (chans s) (works s)); eauto; try reflexivity. intros sb E; discriminate.
  - eapply (Hgen (LSending (sub0 (pid pl) p)) (chans s) (works s)); eauto; try reflexivity.
    intros sb E; inversion E; apply sub_ok_sub0.
  - (* sending *)
    pose proof (t_psub s HI _ _ _ Hp H) as Hok.
    destruct (sub_rel_ok _ _ _ _ HI Hok H0) as (Hle & Et & Ed & Ea & Hback & Hcont & Hbatch).
    destruct (sub_rel_eff _ _ _ _ H0) as (Ep & Er & Ew & Ec & Eo).
    pose proof (i_pc s HJ _ _ Hp) as Hreq. rewrite H in Hreq. cbn in Hreq. destruct Hreq as (Hc & Hsid & Hrs & Hpb).
    destruct HI as [A B C D E F G I].
    constructor; sproj; rewrite ?Et, ?Ed, ?Ea, ?Ep; auto.
    + intros id k c Hin. eapply owned_mono; eauto.
    + intros w wk tp m todo res id c Hw Hf. eapply owned_mono; [exact Hle|].
      destruct Ew as [Ew|(f & Ew)]; rewrite Ew in Hw; [eauto|]. snoc_cases Hw; [eauto|discriminate].
    + intros w wk sb0 Hw Hs. eapply sub_ok_mono; [exact Hle|].
      destruct Ew as [Ew|(f & Ew)]; rewrite Ew in Hw; [eauto|]. snoc_cases Hw; [eauto|discriminate].
    + intros q ql sb0 Hq Hs. upd_cases Hq.
      * cbn in Hs. destruct o as [sb'|[|]]; try discriminate. inversion Hs; subst. auto.
      * eapply sub_ok_mono; eauto.
    + intros q ql b Hq Hb.
      destruct (upd_poll_pid _ _ _ _ _ _ Hp Hq) as (ql0 & Hq0 & Hid & _). rewrite Hid.
      destruct Ec as [(Ec & _)|(v & Hc' & Ec & Hv & Ho)]; rewrite Ec in Hb.
      * eapply batch_ok_mono; eauto.
      * rewrite Hrs in *. destruct (Nat.eq_dec p q) as [<-|Hne].
        -- rewrite Hp in Hq0. inversion Hq0; subst ql0. rewrite <- Hsid. apply Hbatch; auto.
           rewrite Ec. exact Hb.
        -- rewrite nth_error_upd_neq in Hb by exact Hne. eapply batch_ok_mono; eauto.
    + intros id e Hin. eapply ent_ok_mono; eauto.
    + intros c ca m Hc0 Hm. destruct (Hback _ _ Hc0) as (ca0 & Hc1 & Ho & Hacc).
      rewrite Ho. rewrite Hacc in Hm. eauto.
  - eapply (Hgen (LDone RNil) (upd p VEmpty (chans s)) (works s)); eauto; try reflexivity.
    + intros sb E; discriminate.
    + intros q b0 Hq. upd_cases Hq; [discriminate|auto].
  - (* recv_batch *)
    pose proof (deliver_same (pid pl) b (caches s) (delivered s)) as Hsame.
    pose proof (same_but_cdel_le _ _ Hsame) as Hle.
    pose proof (t_chan s HI _ _ _ Hp H0) as [Hb1 Hb2].
    destruct HI as [A B C D E F G I].
    constructor; sproj; auto.
    + intros id k c Hin. eapply owned_mono; eauto.
    + intros w wk tp m todo res id c Hw Hf. eapply owned_mono; eauto.
    + intros w wk sb0 Hw Hs. eapply sub_ok_mono; eauto.
    + intros q ql sb0 Hq Hs. upd_cases Hq; [discriminate|]. eapply sub_ok_mono; eauto.
    + intros q ql b0 Hq Hb.
      destruct (upd_poll_pid _ _ _ _ _ _ Hp Hq) as (ql0 & Hq0 & Hid & _). rewrite Hid.
      upd_cases Hb; [discriminate|]. eapply batch_ok_mono; eauto.
    + intros id e Hin. rewrite deliver_log in Hin. apply in_app_or in Hin. destruct Hin as [Hin|Hin].
      * eapply ent_ok_mono; eauto.
      * apply in_map_iff in Hin. destruct Hin as (e0 & E0 & Hin). inversion E0; subst.
        eapply ent_ok_mono; eauto. eapply Forall_forall in Hb1; eauto.
    + intros c ca m Hc0 Hm.
      destruct (same_but_cdel_back _ _ _ _ Hsame Hc0) as (ca0 & n & Hc1 & ->).
      cbn. eapply I; eauto.
  - eapply (Hgen LWait (chans s) (works s)); eauto; try reflexivity. intros sb E; discriminate.
  - eapply (Hgen LWait (upd r VNil (chans s)) (works s)); eauto; try reflexivity.
    + intros sb E; discriminate.
    + intros q b Hq. upd_cases Hq; [discriminate|auto].
  - eapply (Hgen (LDone RTimeout) (chans s)); eauto; try reflexivity.
    intros sb E; discriminate.
  - eapply (Hgen LTimedOut (chans s) (works s)); eauto; try reflexivity. intros sb E; discriminate.
  - eapply (Hgen (LDone RTimeout) (chans s)); eauto; try reflexivity.
    intros sb E; discriminate.
Qed.

Lemma NoDup_app_snoc {A} (l : list A) x : NoDup l -> ~ In x l -> NoDup (l ++ [x]).
Proof.
  intros Hn Hx. apply NoDup_rev in Hn. rewrite <- (rev_involutive (l ++ [x])).
  apply NoDup_rev. rewrite rev_app_distr. cbn. constructor; [|exact Hn].
  rewrite <- in_rev. exact Hx.
Qed.

Lemma Inv2_work_upd s s' w wk f' sbo :
  Inv2 s -> nth_error (works s) w = Some wk ->
  table s' = table s -> caches s' = caches s -> delivered s' = delivered s -> accepted s' = accepted s ->
  polls s' = polls s ->
  (forall q b, nth_error (chans s') q = Some (VBatch b) -> nth_error (chans s) q = Some (VBatch b)) ->
  works s' = upd w {| wf := f'; wsub := sbo |} (works s) ->
  (forall tp m todo res id c, f' = WPub tp m todo res (PubAppend id c) -> owned (caches s) c (id, tp)) ->
  (forall sb, sbo = Some sb -> sub_ok (caches s) sb) -> Inv2 s'.
Proof.
  intros HI Hw Et Ec Ed Ea Ep Hch Ew Hf Hs.
  apply (Inv2_transfer s s' HI Et Ec Ed Ea); rewrite ?Ew, ?Ep.
  - intros w0 wk0 tp m todo res id c Hw0 Hf0. upd_cases Hw0; [cbn in Hf0; eauto|eapply t_pub; eauto].
  - intros w0 wk0 sb Hw0 Hs0. upd_cases Hw0; [cbn in Hs0; eauto|eapply t_wsub; eauto].
  - intros p pl sb Hp Hpc. eapply t_psub; eauto.
  - intros p pl b Hp Hb. eapply t_chan; eauto.
Qed.

Lemma frame_next_pub s f f' : Inv2 s -> frame_next s f f' ->
  forall tp m todo res id c, f' = WPub tp m todo res (PubAppend id c) -> owned (caches s) c (id, tp).
Proof.
  intros HI H. inversion H; subst; intros xtp xm xtodo xres xid xc E; try discriminate.
  inversion E; subst. eapply t_tab; eauto. apply tget_In; auto.
Qed.

Lemma resp_frame_pub f f' id0 : resp_frame f f' id0 ->
  forall tp m todo res id c, f' <> WPub tp m todo res (PubAppend id c).
Proof.
  intros [(tp0 & m0 & todo0 & res0 & _ & ->)|(todo0 & res0 & _ & ->)] tp m todo res id c; discriminate.
Qed.

Lemma Inv2_work_step s w wk t s' :
  Inv1 s -> Inv2 s -> nth_error (works s) w = Some wk -> work_rel s w wk t s' -> Inv2 s'.
Proof.
  intros HJ HI Hw Hr.
  assert (Hkeep : forall tp m todo res id c, wf wk = WPub tp m todo res (PubAppend id c) -> owned (caches s) c (id, tp))
    by (intros; eapply t_pub; eauto).
  inversion Hr; subst; clear Hr.
  - (* putback_set *)
    eapply (Inv2_work_upd s _ w wk (wf wk) None); eauto; try reflexivity; discriminate.
  - (* putback_nil *)
    eapply (Inv2_work_upd s _ w wk (wf wk) None); eauto; try reflexivity; try discriminate.
    intros q b Hq. sproj. upd_cases Hq; [discriminate|auto].
  - (* sub *)
    pose proof (t_wsub s HI _ _ _ Hw H) as Hok.
    destruct (sub_rel_ok _ _ _ _ HI Hok H1) as (Hle & Et & Ed & Ea & Hback & Hcont & Hbatch).
    destruct (sub_rel_eff _ _ _ _ H1) as (Ep & Er & Ew & Ec & Eo).
    destruct (i_held s HJ _ _ _ Hw H) as (plr & A' & B' & C' & D' & E').
    assert (Hlt : w < length (works s)) by (eapply nth_error_lt; eauto).
    destruct HI as [A B C D E F G I].
    constructor; sproj; rewrite ?Et, ?Ed, ?Ea, ?Ep; auto.
    + intros id k c Hin. eapply owned_mono; eauto.
    + intros w0 wk0 tp m todo res id c Hw0 Hf. eapply owned_mono; [exact Hle|].
      upd_cases Hw0; [cbn in Hf; eauto|].
      destruct Ew as [Ew|(f & Ew)]; rewrite Ew in Hw0; [eauto|]. snoc_cases Hw0; [eauto|discriminate].
    + intros w0 wk0 sb0 Hw0 Hs.
      upd_cases Hw0.
      * cbn in Hs. destruct o as [sb'|[|]]; try discriminate; inversion Hs; subst; auto.
        eapply sub_ok_mono; [exact Hle|]. destruct Hok as (X & Y & Z).
        split; [cbn; intros k c Ek; discriminate|]. split; [exact Y|].
        unfold pend in *. cbn. destruct (spc sb); cbn in Z; auto. eapply NoDup_remove_1; eauto.
      * eapply sub_ok_mono; [exact Hle|].
        destruct Ew as [Ew|(f & Ew)]; rewrite Ew in Hw0; [eauto|]. snoc_cases Hw0; [eauto|discriminate].
    + intros q ql sb0 Hq Hs. eapply sub_ok_mono; eauto.
    + intros q ql b Hq Hb.
      destruct Ec as [(Ec & _)|(v & Hc' & Ec & Hv & Ho)]; rewrite Ec in Hb.
      * eapply batch_ok_mono; eauto.
      * destruct (Nat.eq_dec (sresp sb) q) as [<-|Hne].
        -- rewrite A' in Hq. inversion Hq; subst ql. rewrite B'. apply Hbatch; auto.
           rewrite Ec. exact Hb.
        -- rewrite nth_error_upd_neq in Hb by exact Hne. eapply batch_ok_mono; eauto.
    + intros id e Hin. eapply ent_ok_mono; eauto.
    + intros c ca m Hc0 Hm. destruct (Hback _ _ Hc0) as (ca0 & Hc1 & Ho & Hacc).
      rewrite Ho. rewrite Hacc in Hm. eauto.
  - (* frame *)
    eapply (Inv2_work_upd s _ w wk f' None); eauto; try reflexivity; try discriminate.
    eapply frame_next_pub; eauto.
  - (* append *)
    destruct (Hkeep _ _ _ _ _ _ H0) as (ca0 & Hc0 & Ho0). rewrite H1 in Hc0. inversion Hc0; subst ca0.
    set (ca' := {| cown := cown ca; cmsgs := cmsgs ca ++ [m]; ctaken := ctaken ca; cdel := cdel ca |}).
    assert (Hle : cs_le (caches s) (upd c ca' (caches s))).
    { eapply cs_le_upd; eauto. exists []. cbn. rewrite app_nil_r. reflexivity. }
    destruct HI as [A B C D E F G I].
    constructor; sproj; auto.
    + intros id0 k c0 Hin. eapply owned_mono; eauto.
    + intros w0 wk0 tp0 m0 todo0 res0 id0 c0 Hw0 Hf. eapply owned_mono; [exact Hle|].
      upd_cases Hw0; [discriminate|eauto].
    + intros w0 wk0 sb0 Hw0 Hs. upd_cases Hw0; [discriminate|]. eapply sub_ok_mono; eauto.
    + intros q ql sb0 Hq Hs. eapply sub_ok_mono; eauto.
    + intros q ql b Hq Hb. eapply batch_ok_mono; eauto.
    + intros id0 e Hin. eapply ent_ok_mono; eauto.
    + intros c0 cb m0 Hcb Hm. apply in_or_app. upd_cases Hcb.
      * unfold cacc in Hm. cbn in Hm. rewrite app_assoc in Hm. apply in_app_or in Hm.
        destruct Hm as [Hm|[<-|[]]].
        -- left. unfold ca'. cbn [cown]. eapply (I _ ca m0); eauto.
        -- right. unfold ca'. cbn [cown]. rewrite Ho0. cbn. auto.
      * left. eapply I; eauto.
  - (* resp_none *)
    eapply (Inv2_work_upd s _ w wk f' None); eauto; try reflexivity; try discriminate.
    intros tp m todo res id0 c E. exfalso. eapply resp_frame_pub; eauto.
  - (* resp_some *)
    eapply (Inv2_work_upd s _ w wk f' (Some (sub0 id r))); eauto; try reflexivity.
    + intros tp m todo res id0 c E. exfalso. eapply resp_frame_pub; eauto.
    + intros sb E. inversion E. apply sub_ok_sub0.
  - (* ensure *)
    eapply (Inv2_work_upd s _ w wk (WSub id tp SubLoad) None); eauto; try reflexivity; discriminate.
  - (* store *)
    pose proof (cs_le_snoc (caches s) {| cown := (id, tp); cmsgs := []; ctaken := []; cdel := 0 |}) as Hle.
    destruct HI as [A B C D E F G I].
    constructor; sproj; auto.
    + rewrite map_app. cbn. apply NoDup_app_snoc; auto. apply tget_None_notin; auto.
    + intros id0 k c Hin. apply in_app_or in Hin. destruct Hin as [Hin|[Hin|[]]].
      * eapply owned_mono; eauto.
      * inversion Hin; subst. eexists. split; [apply nth_error_snoc_new|reflexivity].
    + intros w0 wk0 tp0 m0 todo0 res0 id0 c0 Hw0 Hf. eapply owned_mono; [exact Hle|].
      upd_cases Hw0; [discriminate|eauto].
    + intros w0 wk0 sb0 Hw0 Hs. upd_cases Hw0; [discriminate|]. eapply sub_ok_mono; eauto.
    + intros q ql sb0 Hq Hs. eapply sub_ok_mono; eauto.
    + intros q ql b Hq Hb. eapply batch_ok_mono; eauto.
    + intros id0 e Hin. eapply ent_ok_mono; eauto.
    + intros c0 cb m0 Hcb Hm. snoc_cases Hcb; [eauto|]. cbn in Hm. destruct Hm.
  - (* delete *)
    destruct HI as [A B C D E F G I].
    constructor; sproj; auto.
    + apply tdel_NoDup; auto.
    + intros id0 k c Hin. apply tdel_In in Hin. eauto.
    + intros w0 wk0 tp0 m0 todo0 res0 id0 c0 Hw0 Hf. upd_cases Hw0; [discriminate|eauto].
    + intros w0 wk0 sb0 Hw0 Hs. upd_cases Hw0; [discriminate|eauto].
  - (* hb_upsert *)
    eapply (Inv2_work_upd s _ w wk (WHb id sg HbWait) None); eauto; try reflexivity; discriminate.
Qed.

Lemma Inv2_step s t s' : Inv1 s -> Inv2 s -> step_rel s t s' -> Inv2 s'.
Proof.
  intros HJ HI H. inversion H; subst.
  - apply (Inv2_transfer s _ HI); sproj; auto; try reflexivity.
    + intros w wk tp m todo res id c Hw Hf. snoc_cases Hw; [eapply t_pub; eauto|].
      cbn in Hf. subst f. destruct H0.
    + intros w wk sb Hw Hs. snoc_cases Hw; [eapply t_wsub; eauto|discriminate].
    + intros. eapply t_psub; eauto.
    + intros. eapply t_chan; eauto.
  - apply (Inv2_transfer s _ HI); sproj; auto; try reflexivity.
    + intros. eapply t_pub; eauto.
    + intros. eapply t_wsub; eauto.
    + intros p pl sb Hp Hs. snoc_cases Hp; [eapply t_psub; eauto|discriminate].
    + intros p pl b Hp Hb. snoc_cases Hp.
      * snoc_cases Hb; [eapply t_chan; eauto|discriminate].
      * snoc_cases Hb; [|discriminate]. pose proof (i_len s HJ). lia.
  - eapply Inv2_poll_step; eauto.
  - eapply Inv2_work_step; eauto.
Qed.

Lemma Inv12_reach s : reach s -> Inv1 s /\ Inv2 s.
Proof.
  induction 1 as [|s t s' Hr [I1 I2] Hs]; [split; [apply Inv1_init|apply Inv2_init]|].
  split; [eapply Inv1_step; eauto|eapply Inv2_step; eauto].
Qed.
