(* Proofs about Model/CallLife.v (C10), first part: list plumbing, tactics, the invariants behind
   C10_no_leak and C10_usable_after_failure. *)
From Coq Require Import List ZArith Bool Lia PeanoNat.
From HV Require Import Model.Mux.
From HV Require Proofs.MuxProofs.
From HV Require Import Model.CallLife.
Import ListNotations.
Open Scope Z_scope.

(* ------------------------------------------------------------------ lists *)
Lemma nth_upd {A} : forall (l : list A) i j x,
  nth_error (upd_nth i x l) j =
  if Nat.eqb j i then match nth_error l i with Some _ => Some x | None => None end else nth_error l j.
Proof.
  induction l as [|y l IH]; intros i j x.
  - destruct i, j; cbn; try reflexivity. destruct (Nat.eqb j i); reflexivity.
  - destruct i, j; cbn; try reflexivity. apply IH.
Qed.

Lemma length_upd {A} : forall (l : list A) i x, length (upd_nth i x l) = length l.
Proof. induction l as [|y l IH]; intros [|i] x; cbn; try reflexivity. rewrite IH. reflexivity. Qed.

Lemma nth_app_one {A} (l : list A) x j :
  nth_error (l ++ [x]) j = if Nat.eqb j (length l) then Some x else nth_error l j.
Proof.
  revert j. induction l as [|y l IH]; intros [|j]; cbn; try reflexivity.
  - destruct j; reflexivity.
  - apply IH.
Qed.

Lemma nth_len_none {A} (l : list A) : nth_error l (length l) = None.
Proof. apply nth_error_None. lia. Qed.

Lemma nth_some_lt {A} (l : list A) j x : nth_error l j = Some x -> (j < length l)%nat.
Proof. intros H. apply nth_error_Some. congruence. Qed.

Lemma holder_in_In k t : holder_in k t = true <-> exists i, In (i, k) t.
Proof.
  unfold holder_in. rewrite existsb_exists. split.
  - intros ([i h] & Hin & H). cbn [snd] in H. apply Nat.eqb_eq in H. subst h. exists i. exact Hin.
  - intros (i & Hin). exists (i, k). split; [exact Hin|]. cbn [snd]. apply Nat.eqb_refl.
Qed.

Lemma nth_fail_from t : forall l n j,
  nth_error (fail_from n t l) j =
  option_map (fun cl => if holder_in (n + j) t then with_box (Some RErr) cl else cl) (nth_error l j).
Proof.
  induction l as [|cl l IH]; intros n j; cbn [fail_from].
  - destruct j; reflexivity.
  - destruct j; cbn [nth_error option_map].
    + rewrite Nat.add_0_r. reflexivity.
    + rewrite IH. replace (S n + j)%nat with (n + S j)%nat by lia. reflexivity.
Qed.

Lemma nth_cancel_from cs : forall l n j,
  nth_error (cancel_from n cs l) j =
  option_map (fun cl => if mem_nat (n + j) cs then with_cancelled cl else cl) (nth_error l j).
Proof.
  induction l as [|cl l IH]; intros n j; cbn [cancel_from].
  - destruct j; reflexivity.
  - destruct j; cbn [nth_error option_map].
    + rewrite Nat.add_0_r. reflexivity.
    + rewrite IH. replace (S n + j)%nat with (n + S j)%nat by lia. reflexivity.
Qed.

Lemma In_remove_nat k j l : In j (remove_nat k l) -> In j l /\ j <> k.
Proof.
  induction l as [|x r IH]; cbn [remove_nat]; [intros []|].
  destruct (Nat.eqb x k) eqn:E.
  - intros H. destruct (IH H). split; [right; assumption|assumption].
  - intros [H|H].
    + subst. split; [left; reflexivity|]. intros ->. rewrite Nat.eqb_refl in E. discriminate.
    + destruct (IH H). split; [right; assumption|assumption].
Qed.

(* ------------------------------------------------------------------ tactics *)
Ltac proj_simpl :=
  cbn [conns pool callers cancels aborters put_conn put_caller set_conns set_callers set_pool set_cancels
       set_aborters
       pc box cancelled armed with_pc with_box with_cancelled
       ktab kcounter ksock kpeer_gone kcancel kcleaned kunpooled kinflight ksender kreceiver
       with_tab with_counter with_sock with_peer_gone with_unpooled with_cleaned with_inflight
       with_sender with_receiver new_conn waiting_at started fst snd] in *.

Ltac step_cases H :=
  unfold step in H;
  repeat (match type of H with
          | context [match ?x with _ => _ end] => let E := fresh "E" in destruct x eqn:E; try discriminate H
          | context [if ?x then _ else _] => let E := fresh "E" in destruct x eqn:E; try discriminate H
          end);
  try (injection H as H); try subst.

Ltac eqb_cases :=
  repeat match goal with
         | H : context [Nat.eqb ?a ?b] |- _ =>
             let E := fresh "Eq" in destruct (Nat.eqb a b) eqn:E;
             [apply Nat.eqb_eq in E; try subst | apply Nat.eqb_neq in E]
         | |- context [Nat.eqb ?a ?b] =>
             let E := fresh "Eq" in destruct (Nat.eqb a b) eqn:E;
             [apply Nat.eqb_eq in E; try subst | apply Nat.eqb_neq in E]
         end.

(* ------------------------------------------------------------------ invariants for C10_no_leak *)
Definition prestore (p : cpc) : bool := match p with CStart | CGet | CAlloc _ _ => true | _ => false end.

Record inv_leak (st : state) : Prop := {
  l_tab : forall c cn i k, nth_error (conns st) c = Some cn -> In (i, k) (ktab cn) ->
          exists cl, nth_error (callers st) k = Some cl /\ waiting_at (pc cl) = Some (c, i) /\ box cl = None;
  l_pre : forall k cl, nth_error (callers st) k = Some cl -> prestore (pc cl) = true -> box cl = None;
  l_can : forall k, In k (cancels st) -> exists cl, nth_error (callers st) k = Some cl /\ started (pc cl) = true
}.

Ltac lookup_norm :=
  repeat match goal with
  | H : Some _ = Some _ |- _ => inversion H; subst; clear H
  | H : None = Some _ |- _ => discriminate H
  | H : Some _ = None |- _ => discriminate H
  | H : (_, _) = (_, _) |- _ => inversion H; subst; clear H
  | H1 : nth_error ?l ?k = Some ?a, H2 : nth_error ?l ?k = Some ?b |- _ => rewrite H1 in H2
  | H1 : nth_error ?l ?k = Some ?a, H2 : nth_error ?l ?k = None |- _ => rewrite H1 in H2
  | H1 : nth_error ?l ?k = Some ?a |- context [nth_error ?l ?k] => rewrite H1
  | H1 : nth_error ?l ?k = Some ?a, H2 : context [match nth_error ?l ?k with _ => _ end] |- _ => rewrite H1 in H2
  | H : context [Nat.eqb ?a ?a] |- _ => rewrite Nat.eqb_refl in H
  | |- context [Nat.eqb ?a ?a] => rewrite Nat.eqb_refl
  end.

Ltac norm := proj_simpl; repeat rewrite nth_upd in *; repeat rewrite nth_app_one in *; lookup_norm; eqb_cases; lookup_norm; proj_simpl.
Ltac pc_rw := repeat match goal with
  | H : pc ?c = _, H2 : context [pc ?c] |- _ => lazymatch type of H2 with (pc c = _) => fail | _ => rewrite H in H2 end
  | H : pc ?c = _ |- context [pc ?c] => rewrite H end.
Ltac finish := norm; pc_rw; proj_simpl; try discriminate; try congruence; eauto 6; try (eexists; repeat split; eauto; fail).
Ltac in_tab := repeat match goal with
  | H : In (_, _) (a_remove Z.eqb _ _) |- _ => apply (MuxProofs.In_a_remove _ _ _ MuxProofs.zeqb_spec) in H; destruct H
  | H : In (_, _) (a_set Z.eqb _ _ _) |- _ => apply (MuxProofs.In_a_set _ _ _ MuxProofs.zeqb_spec) in H; destruct H as [[? ?]|[? ?]]; try subst
  | H : In _ [] |- _ => destruct H
  end.
Ltac use_tab I := match goal with
  | Hc : nth_error (conns _) ?c = Some ?cn, Hin : In (_, _) (ktab ?cn) |- _ =>
     destruct (l_tab _ I _ _ _ _ Hc Hin) as (? & ? & ? & ?) end.

Ltac fin := finish; try (exfalso; congruence).
Ltac find_to_in := repeat match goal with H : a_find Z.eqb ?i (ktab ?cn) = Some ?k |- _ => apply (MuxProofs.a_find_In _ _ _ MuxProofs.zeqb_spec) in H end.
Ltac use_tab_all I := find_to_in; repeat match goal with Hc : nth_error (conns _) ?c = Some ?cn, Hin : In (_, _) (ktab ?cn) |- _ => destruct (l_tab _ I _ _ _ _ Hc Hin) as (? & ? & ? & ?); clear Hin end.

Ltac clean_case I :=
  match goal with
  | Hc : nth_error (conns _) ?xc = Some ?xcn, Hin : In (?xi, ?xk) (ktab ?xcn), E2 : nth_error (conns _) ?n = Some ?c0, E3 : ktab ?c0 = ?p :: ?t |- _ =>
     let cl := fresh "cl" in let H1 := fresh in let H2 := fresh in let H3 := fresh in
     destruct (l_tab _ I _ _ _ _ Hc Hin) as (cl & H1 & H2 & H3); rewrite H1; cbn [option_map Nat.add];
     let Eh := fresh "Eh" in destruct (holder_in xk (p :: t)) eqn:Eh;
     [ exfalso; apply holder_in_In in Eh; destruct Eh as (? & Eh); rewrite <- E3 in Eh;
       destruct (l_tab _ I _ _ _ _ E2 Eh) as (? & ? & ? & ?); congruence
     | eauto ]
  end.

Lemma leak_tab_preserved g st l st' : inv_leak st -> step g st l = Some st' ->
  forall xc xcn xi xk, nth_error (conns st') xc = Some xcn -> In (xi, xk) (ktab xcn) ->
          exists cl, nth_error (callers st') xk = Some cl /\ waiting_at (pc cl) = Some (xc, xi) /\ box cl = None.
Proof.
  intros I H. destruct l; try destruct w; step_cases H; intros xc xcn xi xk Hc Hin; unfold exit_update in *; norm; in_tab.
  all: try (use_tab I; fin; fail).
  all: try (exfalso; congruence).
  all: try (exfalso; use_tab_all I; fin; fail).
  all: try rewrite nth_fail_from; try rewrite nth_cancel_from.
  - (* LStore: the new entry *)
    eexists. split; [reflexivity|]. split; [reflexivity|]. cbn. apply (l_pre _ I _ _ E). rewrite E0. reflexivity.
  - clean_case I.
  - clean_case I.
  - clean_case I.
  - destruct (l_tab _ I _ _ _ _ Hc Hin) as (cl & H1 & H2 & H3). rewrite H1. cbn [option_map].
    destruct (mem_nat _ _); eexists; split; try reflexivity; cbn; auto.
Qed.

Ltac clean_pre I Hc Hp :=
  rewrite nth_fail_from in Hc;
  match type of Hc with context [nth_error (callers ?st) ?xk] =>
    let cl := fresh "cl" in let Ec := fresh "Ec" in
    destruct (nth_error (callers st) xk) as [cl|] eqn:Ec; [|discriminate];
    cbn [option_map Nat.add] in Hc;
    let Eh := fresh "Eh" in
    destruct (holder_in xk _) eqn:Eh; inversion Hc; subst; clear Hc; [|apply (l_pre _ I _ _ Ec Hp)];
    exfalso; apply holder_in_In in Eh; destruct Eh as (? & Eh);
    match goal with E3 : ktab ?c0 = _ :: _ |- _ => rewrite <- E3 in Eh end; use_tab_all I; lookup_norm;
    cbn in Hp; destruct (pc _); discriminate
  end.

Lemma leak_pre_preserved g st l st' : inv_leak st -> step g st l = Some st' ->
  forall xk xcl, nth_error (callers st') xk = Some xcl -> prestore (pc xcl) = true -> box xcl = None.
Proof.
  intros I H. destruct l; try destruct w; step_cases H; intros xk xcl Hc Hp; unfold exit_update in *; norm.
  all: try (apply (l_pre _ I _ _ Hc Hp); fail).
  all: pc_rw; proj_simpl; try discriminate.
  all: try (match goal with E : nth_error (callers _) _ = Some ?c |- box ?c = None => apply (l_pre _ I _ _ E); pc_rw; reflexivity end).
  all: try (match goal with E : nth_error (callers _) _ = Some ?c, Hp : prestore (pc ?c) = true |- box ?c = None => apply (l_pre _ I _ _ E Hp) end).
  - exfalso. use_tab_all I. lookup_norm. destruct (pc _); discriminate.
  - clean_pre I Hc Hp.
  - clean_pre I Hc Hp.
  - clean_pre I Hc Hp.
  - rewrite nth_cancel_from in Hc. destruct (nth_error (callers st) xk) as [cl|] eqn:Ec; [|discriminate].
    cbn [option_map] in Hc. destruct (mem_nat _ _); inversion Hc; subst; apply (l_pre _ I _ _ Ec Hp).
Qed.

Lemma leak_can_preserved g st l st' : inv_leak st -> step g st l = Some st' ->
  forall xk, In xk (cancels st') -> exists cl, nth_error (callers st') xk = Some cl /\ started (pc cl) = true.
Proof.
  intros I H. destruct l; try destruct w; step_cases H; intros xk Hin; unfold exit_update in *; norm.
  all: try (destruct (l_can _ I _ Hin) as (cl & H1 & H2); fin; fail).
  - eexists. split; [reflexivity|reflexivity].
  - destruct Hin as [->|Hin]; [exfalso; congruence|]. destruct (l_can _ I _ Hin) as (cl & H1 & H2). eauto.
  - exfalso. apply In_remove_nat in Hin. destruct Hin as [_ Hne]. congruence.
  - apply In_remove_nat in Hin. destruct Hin as [Hin _]. destruct (l_can _ I _ Hin) as (cl & H1 & H2). eauto.
  - destruct (l_can _ I _ Hin) as (cl & H1 & H2). rewrite nth_fail_from, H1. cbn [option_map].
    destruct (holder_in _ _); eexists; split; try reflexivity; exact H2.
  - destruct (l_can _ I _ Hin) as (cl & H1 & H2). rewrite nth_fail_from, H1. cbn [option_map].
    destruct (holder_in _ _); eexists; split; try reflexivity; exact H2.
  - destruct (l_can _ I _ Hin) as (cl & H1 & H2). rewrite nth_fail_from, H1. cbn [option_map].
    destruct (holder_in _ _); eexists; split; try reflexivity; exact H2.
  - destruct Hin.
Qed.

Lemma inv_leak_step g st l st' : inv_leak st -> step g st l = Some st' -> inv_leak st'.
Proof.
  intros I H. split.
  - apply (leak_tab_preserved g st l st' I H).
  - apply (leak_pre_preserved g st l st' I H).
  - apply (leak_can_preserved g st l st' I H).
Qed.

Lemma nth_map_init (ts : list bool) k cl :
  nth_error (map (fun a => {| pc := CStart; box := None; cancelled := false; armed := a |}) ts) k = Some cl ->
  pc cl = CStart /\ box cl = None /\ cancelled cl = false.
Proof.
  revert k. induction ts as [|a ts IH]; intros [|k] H; cbn in H; try discriminate.
  - inversion H; subst. auto.
  - apply (IH k H).
Qed.

Lemma inv_leak_init ts : inv_leak (init ts).
Proof.
  split; cbn.
  - intros c cn i k H. destruct c; discriminate.
  - intros k cl H _. apply (nth_map_init _ _ _ H).
  - intros k [].
Qed.

Lemma inv_leak_run g : forall tr st st', inv_leak st -> run g st tr = Some st' -> inv_leak st'.
Proof.
  induction tr as [|l tr IH]; intros st st' I H; cbn [run] in H.
  - inversion H; subst. exact I.
  - destruct (step g st l) as [st1|] eqn:E; [|discriminate]. apply (IH st1 st' (inv_leak_step _ _ _ _ I E) H).
Qed.

(* C10_no_leak: whenever every caller has returned, no connection has a pending entry and
   no cancel function is registered *)
Theorem no_leak : forall g ts tr st, run g (init ts) tr = Some st -> all_done st = true ->
  (forall c cn, nth_error (conns st) c = Some cn -> ktab cn = []) /\ cancels st = [].
Proof.
  intros g ts tr st H D. pose proof (inv_leak_run g tr _ _ (inv_leak_init ts) H) as I.
  unfold all_done in D. rewrite forallb_forall in D. split.
  - intros c cn Hc. destruct (ktab cn) as [|[i k] t] eqn:Et; [reflexivity|]. exfalso.
    destruct (l_tab _ I c cn i k Hc) as (cl & H1 & H2 & _); [rewrite Et; left; reflexivity|].
    specialize (D cl (nth_error_In _ _ H1)). destruct (pc cl); discriminate.
  - destruct (cancels st) as [|k r] eqn:Ec; [reflexivity|]. exfalso.
    destruct (l_can _ I k) as (cl & H1 & H2); [rewrite Ec; left; reflexivity|].
    specialize (D cl (nth_error_In _ _ H1)). destruct (pc cl); discriminate.
Qed.

(* ------------------------------------------------------------------ invariants for C10_usable_after_failure *)
Definition past_onexit (e : epc) : bool := match e with EOnExit _ => false | _ => true end.

Record inv_pool (st : state) : Prop := {
  p_pool : forall c, pool st = Some c -> exists cn, nth_error (conns st) c = Some cn /\ kunpooled cn = false;
  p_sock : forall c cn, nth_error (conns st) c = Some cn ->
           (ksock cn = true -> kunpooled cn = true) /\ (kcancel cn = true -> kunpooled cn = true);
  p_thr : forall c cn e, nth_error (conns st) c = Some cn ->
          (ksender cn = SExit e \/ kreceiver cn = RExit e) -> past_onexit e = true -> kunpooled cn = true;
  p_abort : forall c e, In (c, e) (aborters st) ->
            (exists cn, nth_error (conns st) c = Some cn /\ kunpooled cn = true) /\ past_onexit e = true
}.

Ltac who_norm :=
  repeat match goal with
  | E : match nth_error ?l ?i with _ => _ end = Some _ |- _ =>
      let En := fresh "En" in destruct (nth_error l i) eqn:En; try discriminate E
  | E : match ksender ?c with _ => _ end = Some _ |- _ =>
      let Es := fresh "Es" in destruct (ksender c) eqn:Es; try discriminate E; inversion E; subst; clear E
  | E : match kreceiver ?c with _ => _ end = Some _ |- _ =>
      let Es := fresh "Es" in destruct (kreceiver c) eqn:Es; try discriminate E; inversion E; subst; clear E
  | E : (let (_, _) := ?p in _) = Some _ |- _ => destruct p; inversion E; subst; clear E
  end.

Ltac step_cases' H :=
  unfold step, who_pc, who_conn in H;
  repeat (match type of H with
          | context [match ?x with _ => _ end] => let E := fresh "E" in destruct x eqn:E; try discriminate H
          | context [if ?x then _ else _] => let E := fresh "E" in destruct x eqn:E; try discriminate H
          end);
  try (injection H as H); try subst; who_norm.

Lemma In_upd_nth {A} : forall (l : list A) j x y, In y (upd_nth j x l) -> y = x \/ In y l.
Proof.
  induction l as [|a l IH]; intros [|j] x y H; cbn in H; try contradiction.
  - destruct H as [<-|H]; [left; reflexivity|right; right; exact H].
  - destruct H as [<-|H]; [right; left; reflexivity|]. destruct (IH _ _ _ H); [left; assumption|right; right; assumption].
Qed.

Lemma pool_pool_preserved g st l st' : inv_pool st -> step g st l = Some st' ->
  forall xc, pool st' = Some xc -> exists cn, nth_error (conns st') xc = Some cn /\ kunpooled cn = false.
Proof.
  intros I H. destruct l; try destruct w; step_cases' H; intros xc Hp; unfold exit_update in *; norm.
  all: try (destruct (p_pool _ I _ Hp) as (cn & H1 & H2); fin; fail).
  eexists. split; reflexivity.
Qed.

Lemma pool_sock_preserved g st l st' : inv_pool st -> step g st l = Some st' ->
  forall xc xcn, nth_error (conns st') xc = Some xcn ->
           (ksock xcn = true -> kunpooled xcn = true) /\ (kcancel xcn = true -> kunpooled xcn = true).
Proof.
  intros I H. destruct l; try destruct w; step_cases' H; intros xc xcn Hc; unfold exit_update in *; norm.
  all: try (apply (p_sock _ I _ _ Hc); fail).
  all: try (match goal with E : nth_error (conns _) _ = Some ?cn |- _ => apply (p_sock _ I _ _ E) end; fail).
  all: try (split; intros; reflexivity).
  - auto.
  - match goal with E : nth_error (conns _) _ = Some ?cn |- _ =>
      split; [intros _; apply (p_thr _ I _ _ ECloseSock E); [left; assumption|reflexivity]|apply (p_sock _ I _ _ E)] end.
  - match goal with E : nth_error (conns _) _ = Some ?cn |- _ =>
      split; [intros _; apply (p_thr _ I _ _ ECloseSock E); [right; assumption|reflexivity]|apply (p_sock _ I _ _ E)] end.
  - match goal with E : nth_error (conns _) _ = Some ?cn, Ea : nth_error (aborters _) _ = Some _ |- _ =>
      split; [intros _; destruct (p_abort _ I _ _ (nth_error_In _ _ Ea)) as [(cn' & Hc' & Hu) _]; congruence|apply (p_sock _ I _ _ E)] end.
Qed.

Lemma pool_thr_preserved g st l st' : inv_pool st -> step g st l = Some st' ->
  forall xc xcn xe, nth_error (conns st') xc = Some xcn ->
          (ksender xcn = SExit xe \/ kreceiver xcn = RExit xe) -> past_onexit xe = true -> kunpooled xcn = true.
Proof.
  intros I H. destruct l; try destruct w; step_cases' H; intros xc xcn xe Hc Ht Hp; unfold exit_update in *; norm.
  all: try (apply (p_thr _ I _ _ _ Hc Ht Hp); fail).
  all: try reflexivity.
  all: try (match goal with E : nth_error (conns _) _ = Some ?cn |- kunpooled ?cn = true =>
              apply (p_thr _ I _ _ xe E); [destruct Ht as [Ht|Ht]; [left|right]; congruence|exact Hp] end; fail).
  all: try (destruct Ht as [Ht|Ht]; inversion Ht; subst; discriminate).
  all: destruct Ht as [Ht|Ht]; try (inversion Ht; subst; clear Ht); try discriminate Hp.
  all: try (match goal with E : nth_error (conns _) _ = Some ?cn |- kunpooled ?cn = true =>
              first [ eapply (p_thr _ I _ _ _ E); [left; eassumption|first [assumption|reflexivity]]
                    | eapply (p_thr _ I _ _ _ E); [right; eassumption|first [assumption|reflexivity]] ] end; fail).
Qed.

Lemma pool_abort_preserved g st l st' : inv_pool st -> step g st l = Some st' ->
  forall xc xe, In (xc, xe) (aborters st') ->
            (exists cn, nth_error (conns st') xc = Some cn /\ kunpooled cn = true) /\ past_onexit xe = true.
Proof.
  intros I H. destruct l; try destruct w; step_cases' H; intros xc xe Hin; unfold exit_update in *; norm.
  all: try (destruct (p_abort _ I _ _ Hin) as [(cn & H1 & H2) H3]; split; [|exact H3]; fin; fail).
  1: { exfalso. destruct (p_abort _ I _ _ Hin) as [(cn & H1 & H2) H3]. rewrite nth_len_none in H1. discriminate. }
  all: try (apply In_upd_nth in Hin; destruct Hin as [Hin|Hin]; [inversion Hin; subst; clear Hin|]).
  all: try (apply in_app_or in Hin; destruct Hin as [Hin|[Hin|[]]]; [|inversion Hin; subst; clear Hin]).
  all: try (match goal with Ea : nth_error (aborters _) _ = Some _ |- _ =>
              destruct (p_abort _ I _ _ (nth_error_In _ _ Ea)) as [(? & ? & ?) ?] end).
  all: try (destruct (p_abort _ I _ _ Hin) as [(? & ? & ?) ?]).
  all: norm; try (split; [eexists; split; [reflexivity|]; proj_simpl; first [assumption|reflexivity]|first [assumption|reflexivity]]; fail).
  all: try (split; [eauto|first [assumption|reflexivity]]; fail).
Qed.

Lemma inv_pool_step g st l st' : inv_pool st -> step g st l = Some st' -> inv_pool st'.
Proof.
  intros I H. split.
  - apply (pool_pool_preserved g st l st' I H).
  - apply (pool_sock_preserved g st l st' I H).
  - apply (pool_thr_preserved g st l st' I H).
  - apply (pool_abort_preserved g st l st' I H).
Qed.

Lemma inv_pool_init ts : inv_pool (init ts).
Proof.
  split; cbn.
  - discriminate.
  - intros c cn H. destruct c; discriminate.
  - intros c cn e H. destruct c; discriminate.
  - intros c e [].
Qed.

Lemma inv_pool_run g : forall tr st st', inv_pool st -> run g st tr = Some st' -> inv_pool st'.
Proof.
  induction tr as [|l tr IH]; intros st st' I H; cbn [run] in H.
  - inversion H; subst. exact I.
  - destruct (step g st l) as [st1|] eqn:E; [|discriminate]. apply (IH st1 st' (inv_pool_step _ _ _ _ I E) H).
Qed.

(* a connection shows a sign of failure handling: the client closed its socket, cancelled the
   context of its goroutines, one of its goroutines is past onExit, or Abort is closing it *)
Definition failed_conn (st : state) (c : nat) (cn : conn) : Prop :=
  ksock cn = true \/ kcancel cn = true \/
  (exists e, (ksender cn = SExit e \/ kreceiver cn = RExit e) /\ past_onexit e = true) \/
  (exists e, In (c, e) (aborters st)).

(* C10_usable_after_failure *)
Theorem usable_after_failure : forall g ts tr st, run g (init ts) tr = Some st ->
  forall c cn, nth_error (conns st) c = Some cn -> failed_conn st c cn ->
  (* the failed connection is no longer pooled *)
  pool st <> Some c /\
  (* so a later call that finds a pooled connection finds another one *)
  (forall k st', step g st (LGetConn k) = Some st' ->
     exists cl c' i, nth_error (callers st') k = Some cl /\ pc cl = CAlloc c' i /\ c' <> c) /\
  (* and one that finds none dials: a brand-new connection with its own Send and Receive *)
  (forall k st', step g st (LDial k) = Some st' ->
     exists cl i, nth_error (callers st') k = Some cl /\ pc cl = CAlloc (length (conns st)) i /\
                  length (conns st) <> c /\
                  nth_error (conns st') (length (conns st)) = Some (with_counter 1 new_conn) /\
                  pool st' = Some (length (conns st))).
Proof.
  intros g ts tr st H c cn Hc Hf. pose proof (inv_pool_run g tr _ _ (inv_pool_init ts) H) as I.
  assert (Hu : kunpooled cn = true).
  { destruct Hf as [Hf|[Hf|[(e & Ht & Hp)|(e & Hin)]]].
    - apply (proj1 (p_sock _ I _ _ Hc) Hf).
    - apply (proj2 (p_sock _ I _ _ Hc) Hf).
    - apply (p_thr _ I _ _ e Hc Ht Hp).
    - destruct (p_abort _ I _ _ Hin) as [(cn' & Hc' & Hu) _]. congruence. }
  assert (Hpool : pool st <> Some c).
  { intros Hp. destruct (p_pool _ I _ Hp) as (cn' & Hc' & Hu'). congruence. }
  split; [exact Hpool|]. split.
  - intros k st' Hs. cbn [step] in Hs.
    destruct (nth_error (callers st) k) as [cl|] eqn:Ek; [|discriminate].
    destruct (pool st) as [c'|] eqn:Ep; [|discriminate].
    destruct (pc cl) eqn:Epc; try discriminate.
    destruct (nth_error (conns st) c') as [cn'|] eqn:Ec'; [|discriminate].
    inversion Hs; subst st'. proj_simpl. rewrite nth_upd, Nat.eqb_refl, Ek.
    eexists _, c', _. split; [reflexivity|]. split; [reflexivity|]. congruence.
  - intros k st' Hs. cbn [step] in Hs.
    destruct (nth_error (callers st) k) as [cl|] eqn:Ek; [|discriminate].
    destruct (pool st) as [c'|] eqn:Ep; [discriminate|].
    destruct (pc cl) eqn:Epc; try discriminate.
    inversion Hs; subst st'. proj_simpl. rewrite nth_upd, Nat.eqb_refl, Ek, nth_app_one, Nat.eqb_refl.
    eexists _, _. split; [reflexivity|]. split; [reflexivity|]. split; [|split; reflexivity].
    pose proof (nth_some_lt _ _ _ Hc). lia.
Qed.

