(* Proofs about Model/Limit.v (C13). *)
From Coq Require Import List ZArith Bool Lia Init.Byte Strings.Byte String.
From HV Require Import Lib.Crc32 Model.Frame Model.Limit Proofs.FrameProofs.
Import ListNotations.
Open Scope Z_scope.

Local Arguments Z.shiftr : simpl never.
Local Arguments Z.shiftl : simpl never.
Local Arguments Z.lor : simpl never.
Local Arguments Z.land : simpl never.

(* boolean comparisons to arithmetic facts *)
Local Ltac zbool :=
  repeat match goal with
  | |- context [?a >? ?b] => rewrite (Z.gtb_ltb a b)
  | H : context [?a >? ?b] |- _ => rewrite (Z.gtb_ltb a b) in H
  end;
  repeat match goal with
  | |- context [?a <? ?b] => destruct (Z.ltb_spec a b)
  | H : context [?a <? ?b] |- _ => destruct (Z.ltb_spec a b)
  | |- context [?a <=? ?b] => destruct (Z.leb_spec a b)
  | H : context [?a <=? ?b] |- _ => destruct (Z.leb_spec a b)
  | |- context [?a =? ?b] => destruct (Z.eqb_spec a b)
  | H : context [?a =? ?b] |- _ => destruct (Z.eqb_spec a b)
  end.

(* case split on which quantities a table lists for the transport at hand *)
Local Ltac sites_cases :=
  cbv beta iota zeta;
  repeat match goal with
  | |- context [has ?q ?S] => destruct (has q S)
  end.

Local Ltac crunch_step :=
  cbn [andb orb negb rejected is_process] in *; zbool;
  cbn [andb orb negb rejected is_process] in *;
  try discriminate; try reflexivity; try lia;
  repeat match goal with H : Some _ = Some _ |- _ => injection H as H end;
  subst.

Local Ltac crunch := repeat (progress crunch_step); try discriminate; try reflexivity; try lia.

(* ================================================================================ *)
(* level A, for every table of comparison sites and every class of request           *)

(* A handler that, on the path requests of this class take, looks at the quantity delimiting
   the request refuses every such request whose body is above the limit -- whatever method or
   index word it carries, whatever its sender announces, misannounces or omits. *)
Lemma never_processed_covered (sites : site_table) tr max k decl sent n :
  covers tr (is_none decl) (sites tr k (is_none decl)) = true ->
  framed tr k decl sent = Some n -> n > max ->
  rejected (admission sites tr max k decl sent) = true.
Proof.
  intros Hc Hf Hn. unfold covers in Hc. unfold admission, over.
  destruct tr; destruct decl as [d|]; cbn [framed content_length is_none] in *;
    try (destruct (r_flag k); [discriminate|]); sites_cases; crunch.
Qed.

(* ... and then nothing runs: no IO plugin, no invoke plugin, no function *)
Lemma rejected_log_empty sites tr max k decl sent valid :
  rejected (admission sites tr max k decl sent) = true ->
  snd (serve sites tr max k decl sent valid) = [].
Proof.
  unfold serve. cbn [snd]. destruct (admission sites tr max k decl sent); cbn; intros H;
    try discriminate; reflexivity.
Qed.

Lemma rejected_not_process v : rejected v = true -> is_process v = false.
Proof. destruct v; cbn; intros H; try discriminate; reflexivity. Qed.

(* A table that does not make the handler look at that quantity on the path of some class of
   requests lets an oversized request of that class through: the condition is exact. *)
Lemma never_processed_uncovered (sites : site_table) tr k chunked :
  expressible tr k chunked = true ->
  covers tr chunked (sites tr k chunked) = false ->
  exists max decl sent n m, is_none decl = chunked /\ framed tr k decl sent = Some n /\ n > max /\
    admission sites tr max k decl sent = Process m.
Proof.
  intros He Hc. unfold covers in Hc. unfold expressible in He.
  destruct tr; destruct chunked; cbn [negb] in He; try discriminate;
    try (apply orb_false_elim in Hc as [H1 H2]).
  all: try (exists 10, None, 100, 100, 100; unfold admission, over; cbn [framed content_length is_none];
            try (destruct (r_flag k); [discriminate|]);
            rewrite ?Hc, ?H1, ?H2, ?andb_false_r; cbn [andb orb];
            repeat split; try reflexivity; lia).
  all: exists 10, (Some 100), 100, 100, 100; unfold admission, over; cbn [framed content_length is_none];
       try (destruct (r_flag k); [discriminate|]);
       rewrite ?Hc, ?H1, ?H2, ?andb_false_r; cbn [andb orb negb];
       repeat split; try reflexivity; lia.
Qed.

(* A request at or below the limit whose sender tells the truth about its length (or, where
   the transport allows, leaves it out) is handed to Service.Handle whole -- under every table,
   whatever its method or index word. *)
Lemma processed_at_limit (sites : site_table) tr max k decl sent :
  truthful tr k decl sent = true -> 0 <= sent <= max ->
  admission sites tr max k decl sent = Process sent /\ framed tr k decl sent = Some sent.
Proof.
  intros Ht Hs. unfold admission, over.
  destruct tr; destruct decl as [d|]; cbn [truthful framed content_length is_none] in *;
    try discriminate; try (destruct (r_flag k); [discriminate|]; cbn [negb andb] in Ht);
    zbool; subst; try discriminate; sites_cases; cbn [andb orb]; zbool;
    cbn [andb orb]; try (split; reflexivity); try lia;
    try (assert (sent = 0) by lia; subst; split; reflexivity).
Qed.

Lemma processed_log sites tr max k decl sent valid :
  truthful tr k decl sent = true -> 0 <= sent <= max ->
  snd (serve sites tr max k decl sent valid) = handle_log valid sent.
Proof.
  intros Ht Hs. unfold serve. cbn [snd].
  destruct (processed_at_limit sites tr max k decl sent Ht Hs) as [-> _]. reflexivity.
Qed.

(* every rejection is decoded to ErrRequestEntityTooLarge by the client of that transport *)
Lemma bytes_eqb_refl b : bytes_eqb b b = true.
Proof.
  induction b as [|x b IH]; [reflexivity|]. cbn [bytes_eqb]. rewrite IH, andb_true_r.
  apply Byte.byte_dec_lb. reflexivity.
Qed.

Lemma bytes_eqb_eq a : forall b, bytes_eqb a b = true -> a = b.
Proof.
  induction a as [|x a IH]; intros [|y b]; cbn [bytes_eqb]; intros H; try discriminate; [reflexivity|].
  apply andb_prop in H as [H1 H2]. apply Byte.byte_dec_bl in H1. rewrite (IH b H2), H1. reflexivity.
Qed.

Lemma caller_sees_too_large v : rejected v = true -> client_decode (reply_of v) = OTooLarge.
Proof.
  destruct v; cbn [rejected]; intros H; try discriminate; cbn [reply_of client_decode].
  - reflexivity.
  - rewrite bytes_eqb_refl. reflexivity.
  - reflexivity.
Qed.

(* ... and nothing else is: an error frame with any other text is an InvalidResponseError *)
Lemma too_large_only_for_the_text b :
  client_decode (RpFrame true b) = OTooLarge <-> b = too_large_text.
Proof.
  cbn [client_decode]. split.
  - destruct (bytes_eqb b too_large_text) eqn:E; [intros _; apply bytes_eqb_eq; exact E|discriminate].
  - intros ->. rewrite bytes_eqb_refl. reflexivity.
Qed.

(* the statement the property makes, per transport and class of request *)
Definition never_processed_stmt (sites : site_table) (tr : transport) (k : rclass) (chunked : bool) : Prop :=
  forall max decl sent n valid, is_none decl = chunked -> framed tr k decl sent = Some n -> n > max ->
    is_process (admission sites tr max k decl sent) = false /\
    snd (serve sites tr max k decl sent valid) = [].

Lemma never_processed_stmt_covered sites tr k chunked :
  covers tr chunked (sites tr k chunked) = true -> never_processed_stmt sites tr k chunked.
Proof.
  intros Hc max decl sent n valid Hd Hf Hn. subst chunked.
  pose proof (never_processed_covered sites tr max k decl sent n Hc Hf Hn) as R.
  split; [apply rejected_not_process; exact R|apply rejected_log_empty; exact R].
Qed.

Lemma never_processed_stmt_iff sites tr k chunked : expressible tr k chunked = true ->
  (never_processed_stmt sites tr k chunked <-> covers tr chunked (sites tr k chunked) = true).
Proof.
  intros He. split; [|apply never_processed_stmt_covered].
  intros H. destruct (covers tr chunked (sites tr k chunked)) eqn:Hc; [reflexivity|exfalso].
  destruct (never_processed_uncovered sites tr k chunked He Hc) as (max & decl & sent & n & m & Hd & Hf & Hn & Ha).
  destruct (H max decl sent n true Hd Hf Hn) as [Hp _]. rewrite Ha in Hp. discriminate.
Qed.

(* ================================================================================ *)
(* level A, the pinned table                                                         *)

Lemma pinned_covers tr k chunked : covers tr chunked (pinned_sites tr k chunked) = true.
Proof. destruct tr, chunked; reflexivity. Qed.

(* the pinned tree: all seven transports, every limit, size, declaration, method, index word *)
Lemma never_processed_pinned tr max k decl sent n :
  framed tr k decl sent = Some n -> n > max ->
  rejected (admission pinned_sites tr max k decl sent) = true.
Proof. apply never_processed_covered. apply pinned_covers. Qed.

(* historical: before 72ffd23 / e18593a the HTTP handlers were covered for requests announcing a
   length and not for chunked ones *)
Lemma original_covers tr k chunked : covers tr chunked (original_sites tr k chunked) = true <->
  ~ (In tr [NetHttp; FastHttp] /\ chunked = true).
Proof.
  destruct tr, chunked; cbn; split; intros H; try reflexivity; try discriminate;
    try (intros [[Hx|[Hx|[]]] Hy]; discriminate);
    exfalso; apply H; auto.
Qed.

Lemma historical_chunked_bypass :
  let k := {| r_get := false; r_flag := false |} in
  serve original_sites NetHttp 10 k None 100 true = (Process 100, [EvIOPlugin 100; EvInvoke]) /\
  serve original_sites FastHttp 10 k None 100 true = (Process 100, [EvIOPlugin 100; EvInvoke]) /\
  serve pinned_sites NetHttp 10 k None 100 true = (Reject413, []) /\
  serve pinned_sites FastHttp 10 k None 100 true = (Reject413, []).
Proof. repeat split. Qed.

(* tables with class-dependent sites: the class the guard leaves out is not covered, and the
   exactness lemma produces the request that gets through *)
Lemma example_method_sites_gap :
  covers NetHttp false (example_method_sites NetHttp {| r_get := true; r_flag := false |} false) = false /\
  covers NetHttp false (example_method_sites NetHttp {| r_get := false; r_flag := false |} false) = true /\
  covers NetHttp true (example_method_sites NetHttp {| r_get := true; r_flag := false |} true) = true /\
  admission example_method_sites NetHttp 10 {| r_get := true; r_flag := false |} (Some 100) 100 = Process 100 /\
  admission example_method_sites NetHttp 10 {| r_get := false; r_flag := false |} (Some 100) 100 = Reject413.
Proof. repeat split. Qed.

Lemma example_flag_sites_gap :
  covers Tcp false (example_flag_sites Tcp {| r_get := false; r_flag := true |} false) = false /\
  covers Tcp false (example_flag_sites Tcp {| r_get := false; r_flag := false |} false) = true /\
  admission example_flag_sites Tcp 10 {| r_get := false; r_flag := true |} (Some 100) 100 = Process 100 /\
  admission example_flag_sites Tcp 10 {| r_get := false; r_flag := false |} (Some 100) 100 = RejectInBand.
Proof. repeat split. Qed.

(* udp after fix 5ee4f50: the datagram that used to get through (100 body bytes, header says 5,
   limit 10) is dropped as invalid, and one that tells the truth is refused *)
Lemma udp_former_witness : forall k,
  serve pinned_sites Udp 10 k (Some 5) 100 false = (Malformed, []) /\
  serve pinned_sites Udp 10 k (Some 100) 100 true = (RejectInBand, []).
Proof. intros k. repeat split. Qed.

(* ================================================================================ *)
(* level B: the byte-level receive functions of Model/Frame.v                         *)

Lemma copy_fresh_length n (src : list byte) : List.length (copy_fresh n src) = n.
Proof.
  unfold copy_fresh. rewrite app_length, firstn_length, repeat_length. lia.
Qed.

(* ---- socket ---- *)

(* whatever bytes arrive on a connection (any announcement, truthful or not, any garbage): no
   body above the limit is ever handed over *)
Lemma recv_loop_within_limit max : forall fuel s,
  Forall (fun f => Z.of_nat (List.length (snd f)) <= max) (fst (recv_loop (Server max) fuel s)).
Proof.
  induction fuel as [|fuel IH]; intros s; [constructor|]. cbn [recv_loop].
  destruct (read_exact 12 s) as [[h s1]|] eqn:Eh; [|constructor].
  destruct (sock_parse_header h) as [[[len idx] ok]|] eqn:Ep; [|constructor].
  destruct (is_reject _) eqn:Er; [constructor|].
  destruct (len >? max) eqn:Em; [constructor|].
  destruct (read_exact (Z.to_nat len) s1) as [[body s2]|] eqn:Eb; [|constructor].
  apply read_exact_some in Eb as [-> Hb].
  specialize (IH s2). destruct (recv_loop (Server max) fuel s2) as [ds e]. cbn [fst] in *.
  constructor; [|exact IH]. cbn [snd].
  destruct (sock_parse_accept h _ Ep Er) as (_ & Hl & _). cbn [fst snd] in Hl.
  rewrite Hb, Z2Nat.id by lia. rewrite Z.gtb_ltb in Em. apply Z.ltb_ge in Em. exact Em.
Qed.

Lemma stream_within_limit max s :
  Forall (fun f => Z.of_nat (List.length (snd f)) <= max) (fst (recv_frames (Server max) s)).
Proof. apply recv_loop_within_limit. Qed.

(* the verdict on the first frame of a stream: level A is the projection of the receive loop *)
(* EVERY index word (32 bits: bit 31, the flag the server's parseHeader reports as !ok, set or
   clear) and every length field: the header space is the whole of what passes the checksum *)
Lemma sock_refines max d i k (body : list byte) :
  0 <= d < 2147483648 -> 0 <= i < 4294967296 ->
  sock_server_verdict max (sock_make_header d i ++ body) =
  admission pinned_sites Tcp max k (Some d) (Z.of_nat (List.length body)).
Proof.
  intros Hd Hi. unfold sock_server_verdict, recv_frames.
  remember (List.length (sock_make_header d i ++ body)) as fuel eqn:Hfuel. clear Hfuel.
  cbn [recv_loop].
  rewrite <- (sock_make_header_length d i) at 1. rewrite read_exact_app.
  rewrite sock_roundtrip_gen by lia.
  unfold is_reject.
  assert (Hidx : ((i mod 4294967296) mod 2147483648 =? -1) = false).
  { apply Z.eqb_neq. pose proof (Z.mod_pos_bound (i mod 4294967296) 2147483648 ltac:(lia)). lia. }
  rewrite Hidx, andb_false_r, andb_false_l.
  unfold admission, over. cbn [pinned_sites has existsb quantity_eqb orb andb].
  destruct (d >? max) eqn:Em; [reflexivity|].
  destruct (read_exact (Z.to_nat d) body) as [[b s2]|] eqn:Eb.
  - apply read_exact_some in Eb as [-> Hb].
    destruct (recv_loop (Server max) fuel s2) as [ds e].
    rewrite app_length, Hb.
    destruct (Z.ltb_spec (Z.of_nat (Z.to_nat d + List.length s2)) d) as [Hlt|_]; [lia|].
    rewrite Z2Nat.id by lia. reflexivity.
  - apply read_exact_none in Eb.
    destruct (Z.ltb_spec (Z.of_nat (List.length body)) d) as [_|Hge]; [reflexivity|lia].
Qed.

Lemma tcp_unix_same sites max k decl sent :
  sites Tcp = sites Unix -> admission sites Tcp max k decl sent = admission sites Unix max k decl sent.
Proof. intros H. unfold admission. rewrite H. reflexivity. Qed.

(* the reject frame the server writes is what the client turns into ErrRequestEntityTooLarge *)
Lemma too_large_text_spelling :
  too_large_text = String.list_byte_of_string "Request entity too large".
Proof. reflexivity. Qed.

Lemma too_large_text_length : List.length too_large_text = 24%nat.
Proof. reflexivity. Qed.

Lemma sock_reject_decodes i : 0 <= i < 2147483648 -> sock_client (sock_reject_frame i) = OTooLarge.
Proof.
  intros Hi. unfold sock_client, sock_reject_frame, sock_frame, recv_frames.
  remember (List.length (_ ++ too_large_text)) as fuel eqn:Hfuel. clear Hfuel.
  cbn [recv_loop].
  rewrite <- (sock_make_header_length (Z.of_nat (List.length too_large_text)) (Z.lor i (-2147483648))) at 1.
  rewrite read_exact_app.
  rewrite sock_roundtrip_error by (rewrite ?too_large_text_length; lia).
  unfold is_reject. change (Z.of_nat (List.length too_large_text) =? 0) with false. cbn [andb negb].
  rewrite Nat2Z.id.
  rewrite <- (app_nil_r too_large_text) at 2. rewrite read_exact_app. cbn [negb].
  cbn [client_decode]. rewrite bytes_eqb_refl. reflexivity.
Qed.

(* ---- websocket ---- *)

Lemma ws_within_limit max msg i b :
  ws_recv (Server max) msg = WDeliver i b ->
  Z.of_nat (List.length b) <= max /\ b = skipn 4 msg.
Proof.
  intros H. split; [|apply (ws_recv_exact (Server max) msg i b H)].
  destruct msg as [|a0 [|a1 [|a2 [|a3 rest]]]]; cbn [ws_recv] in H; try discriminate;
    try (destruct (_ =? 0); discriminate).
  destruct (ws_parse_header a0 a1 a2 a3) as [idx ok].
  destruct (negb ok); [discriminate|].
  destruct (Z.of_nat (List.length rest) >? max) eqn:Em; [discriminate|].
  injection H as _ <-. rewrite Z.gtb_ltb in Em. apply Z.ltb_ge in Em. exact Em.
Qed.

(* every index word: with bit 31 set the message is refused as invalid before the limit test *)
Lemma ws_refines max i k (body : list byte) : 0 <= i < 4294967296 ->
  r_flag k = negb (i <? 2147483648) ->
  ws_server_verdict max (ws_frame i body) =
  admission pinned_sites Websocket max k None (Z.of_nat (List.length body)).
Proof.
  intros Hi Hk. unfold ws_server_verdict, ws_frame. pose proof (ws_roundtrip_gen i) as H.
  destruct (ws_make_header i) as [|a0 [|a1 [|a2 [|a3 [|]]]]]; try contradiction.
  cbn [app ws_recv]. rewrite H.
  rewrite (Z.mod_small i 4294967296) by lia.
  unfold admission, over. rewrite Hk.
  destruct (Z.ltb_spec i 2147483648); cbn [negb]; [|reflexivity].
  cbn [framed pinned_sites has existsb quantity_eqb orb andb]. rewrite Hk.
  destruct (Z.ltb_spec i 2147483648); [|lia]. cbn [negb].
  destruct (Z.of_nat (List.length body) >? max); reflexivity.
Qed.

Lemma ws_reject_decodes i : 0 <= i < 2147483648 -> ws_client (ws_reject_msg i) = OTooLarge.
Proof.
  intros Hi. unfold ws_client, ws_reject_msg. rewrite ws_recv_error_frame by exact Hi.
  cbn [client_decode]. rewrite bytes_eqb_refl. reflexivity.
Qed.

(* ---- udp ---- *)

(* every index word (16 bits, flag bit 15 set or clear) *)
Lemma udp_refines max buf d i k (body : list byte) :
  0 <= d < 65536 -> 0 <= i < 65536 -> (8 + List.length body <= List.length buf)%nat ->
  udp_server_verdict max buf (udp_make_header d i ++ body) =
  admission pinned_sites Udp max k (Some d) (Z.of_nat (List.length body)).
Proof.
  intros Hd Hi Hfit. unfold udp_server_verdict, udp_recv.
  set (hd := udp_make_header d i).
  assert (Hhd : List.length hd = 8%nat) by reflexivity.
  rewrite udp_read_into_fits by (rewrite app_length; lia).
  rewrite app_length, Hhd. destruct (Nat.ltb_spec (8 + List.length body) 8) as [|_]; [lia|].
  rewrite <- app_assoc.
  assert (F : forall x, firstn 8 (hd ++ x) = hd) by (intros x; rewrite <- Hhd; apply firstn_app_exact).
  rewrite F. subst hd. rewrite udp_roundtrip_gen by lia.
  unfold is_reject.
  assert (Hidx : ((i mod 65536) mod 32768 =? -1) = false).
  { apply Z.eqb_neq. pose proof (Z.mod_pos_bound (i mod 65536) 32768 ltac:(lia)). lia. }
  rewrite Hidx, andb_false_r, andb_false_l.
  unfold admission, over. cbn [pinned_sites has existsb quantity_eqb orb andb]. rewrite orb_false_r.
  replace (Z.of_nat (8 + List.length body) - 8) with (Z.of_nat (List.length body)) by lia.
  destruct (d =? Z.of_nat (List.length body)); cbn [negb]; [|reflexivity].
  destruct (d >? max); [reflexivity|].
  rewrite copy_fresh_length, Z2Nat.id by lia. reflexivity.
Qed.

(* ANY datagram on ANY buffer it fits in: what the UDP handler hands over is as long as the
   datagram's payload, and within the limit -- for udp too the limit now applies to the bytes
   received *)
Lemma udp_delivered_is_payload_within_limit max buf d i b :
  (List.length d <= List.length buf)%nat ->
  udp_recv (Server max) buf d = DDeliver i b ->
  Z.of_nat (List.length b) = Z.of_nat (List.length d) - 8 /\ Z.of_nat (List.length b) <= max.
Proof.
  intros Hfit. unfold udp_recv. rewrite udp_read_into_fits by exact Hfit.
  destruct (List.length d <? 8)%nat eqn:E8; [discriminate|].
  apply Nat.ltb_ge in E8.
  destruct (udp_parse_header _) as [[[len idx] ok]|]; [|discriminate].
  destruct (is_reject _); [discriminate|].
  destruct (len =? Z.of_nat (List.length d) - 8) eqn:El; cbn [negb]; [|discriminate].
  apply Z.eqb_eq in El.
  destruct (len >? max) eqn:Em; [discriminate|].
  intros H. injection H as _ <-. rewrite copy_fresh_length.
  rewrite Z.gtb_ltb in Em. apply Z.ltb_ge in Em. lia.
Qed.

(* byte level: the former witness -- limit 10, one datagram of 8 + 100 bytes announcing 5 *)
Definition udp_witness_body : list byte := repeat "x"%byte 100.
Definition udp_witness : list byte := udp_make_header 5 1 ++ udp_witness_body.

Lemma udp_byte_witness_now_refused :
  udp_recv (Server 10) (repeat x00 200) udp_witness = DBadHeader /\
  udp_server_verdict 10 (repeat x00 200) udp_witness = Malformed /\
  Z.of_nat (List.length udp_witness) - 8 = 100.
Proof. vm_compute. repeat split. Qed.

Lemma udp_reject_decodes i : 0 <= i < 32768 -> udp_client (udp_reject_dgram i) = OTooLarge.
Proof.
  intros Hi. unfold udp_client, udp_reject_dgram, udp_recv.
  set (hd := udp_make_header (Z.of_nat (List.length too_large_text)) (Z.lor i 32768)).
  assert (Hhd : List.length hd = 8%nat) by reflexivity.
  rewrite udp_read_into_fits by (rewrite app_length, udp_zero_buffer_length, Hhd, too_large_text_length; unfold UDP_BUFFER; lia).
  rewrite app_length, Hhd. destruct (Nat.ltb_spec (8 + List.length too_large_text) 8) as [|_]; [lia|].
  rewrite <- app_assoc.
  assert (F : forall x, firstn 8 (hd ++ x) = hd) by (intros x; rewrite <- Hhd; apply firstn_app_exact).
  assert (K : forall x, skipn 8 (hd ++ x) = x) by (intros x; rewrite <- Hhd; apply skipn_app_exact).
  rewrite F, K. subst hd. rewrite udp_roundtrip_error by (rewrite ?too_large_text_length; lia).
  unfold is_reject. change (Z.of_nat (List.length too_large_text) =? 0) with false. cbn [andb negb].
  replace (Z.of_nat (8 + List.length too_large_text) - 8) with (Z.of_nat (List.length too_large_text)) by lia.
  rewrite Z.eqb_refl. cbn [negb].
  rewrite Nat2Z.id, copy_fresh_exact. cbn [client_decode]. rewrite bytes_eqb_refl. reflexivity.
Qed.

(* ---- net/http ---- *)

(* every method: the handler does not look at it before the limit tests *)
Lemma http_refines max k decl (wire : list byte) :
  match decl with Some d => 0 <= d | None => True end ->
  http_server_verdict max decl wire =
  admission pinned_sites NetHttp max k decl (Z.of_nat (List.length wire)).
Proof.
  intros Hd. unfold http_server_verdict, http_read_all, admission, over.
  cbn [pinned_sites has existsb quantity_eqb orb andb].
  destruct decl as [d|]; cbn [content_length http_yield].
  - destruct (Z.gtb_spec d max) as [|Hle]; [reflexivity|].
    destruct (d >? 0) eqn:E0; cbn [andb].
    + rewrite Z.gtb_ltb in E0. apply Z.ltb_lt in E0.
      rewrite !firstn_length.
      destruct (Nat.ltb_spec (Nat.min (Z.to_nat (max + 1)) (Nat.min (Z.to_nat d) (List.length wire))) (Z.to_nat d)) as [Hlt|Hge];
        destruct (Z.ltb_spec (Z.of_nat (List.length wire)) d) as [Hlt'|Hge']; try lia; try reflexivity.
      rewrite copy_fresh_length, Z2Nat.id by lia.
      destruct (Z.gtb_spec d max); [lia|reflexivity].
    + rewrite Z.gtb_ltb in E0. apply Z.ltb_ge in E0. assert (d = 0) by lia. subst d.
      cbn [Z.to_nat firstn]. rewrite firstn_nil. cbn [List.length Z.of_nat].
      destruct (Z.gtb_spec 0 max); [lia|reflexivity].
  - destruct (Z.gtb_spec (-1) max) as [|Hle]; [reflexivity|]. change (-1 >? 0) with false. cbn [andb].
    rewrite firstn_length.
    destruct (Z.gtb_spec (Z.of_nat (Nat.min (Z.to_nat (max + 1)) (List.length wire))) max);
      destruct (Z.gtb_spec (Z.of_nat (List.length wire)) max); try lia; try reflexivity.
    f_equal. lia.
Qed.

(* ---- non-vacuity helpers ---- *)
Lemma frames_at_limit_delivered max fs : Forall (wf_frame (Server max)) fs ->
  recv_frames (Server max) (List.concat (map frame_of fs)) = (fs, EndEOF).
Proof. apply stream_framing. Qed.

(* ---- end to end: oversize request -> refused -> the caller's error ---- *)
Lemma oversize_end_to_end (sites : site_table) tr max k decl sent n valid :
  covers tr (is_none decl) (sites tr k (is_none decl)) = true -> framed tr k decl sent = Some n -> n > max ->
  snd (serve sites tr max k decl sent valid) = [] /\
  client_decode (reply_of (admission sites tr max k decl sent)) = OTooLarge.
Proof.
  intros Hc Hf Hn. pose proof (never_processed_covered sites tr max k decl sent n Hc Hf Hn) as R.
  split; [apply rejected_log_empty; exact R|apply caller_sees_too_large; exact R].
Qed.

(* the socket server, byte level: a header announcing more than the limit is answered with the
   error frame before a single body byte is read, whatever follows it *)
Lemma sock_oversize_bytes max d i rest :
  0 <= d < 2147483648 -> 0 <= i < 4294967296 -> d > max ->
  recv_frames (Server max) (sock_make_header d i ++ rest) = ([], EndTooLarge (i mod 2147483648)).
Proof.
  intros Hd Hi Hm. unfold recv_frames.
  remember (List.length (sock_make_header d i ++ rest)) as fuel eqn:Hfuel. clear Hfuel.
  cbn [recv_loop].
  rewrite <- (sock_make_header_length d i) at 1. rewrite read_exact_app.
  rewrite sock_roundtrip_gen by lia. rewrite (Z.mod_small i 4294967296) by lia.
  unfold is_reject.
  assert (Hidx : (i mod 2147483648 =? -1) = false).
  { apply Z.eqb_neq. pose proof (Z.mod_pos_bound i 2147483648 ltac:(lia)). lia. }
  rewrite Hidx, andb_false_r, andb_false_l.
  destruct (Z.gtb_spec d max); [reflexivity|lia].
Qed.

(* ---- the caller's error under the teardown race (tcp / unix) ---- *)
Lemma caller_outcome_too_large linger tr v still_writing r :
  rejected v = true ->
  (linger = true \/ still_writing = false \/ r = FrameFirst \/ ~ In tr [Tcp; Unix]) ->
  caller_outcome linger tr v still_writing r = OTooLarge.
Proof.
  intros Hr Hg. unfold caller_outcome.
  destruct tr; try (apply caller_sees_too_large; exact Hr);
  destruct v; try discriminate; try (apply caller_sees_too_large; exact Hr);
  destruct r; try (apply caller_sees_too_large; exact Hr);
  (destruct Hg as [->|[->|[Hg|Hg]]];
   [rewrite andb_false_r|cbn [andb]|discriminate|exfalso; apply Hg; cbn; auto]);
  apply caller_sees_too_large; exact Hr.
Qed.

Lemma caller_outcome_refuted :
  ~ (forall tr v still_writing r, rejected v = true ->
       caller_outcome false tr v still_writing r = OTooLarge).
Proof. intros H. specialize (H Tcp RejectInBand true TeardownFirst eq_refl). discriminate. Qed.

Lemma caller_outcome_lingering tr v still_writing r :
  rejected v = true -> caller_outcome true tr v still_writing r = OTooLarge.
Proof. intros Hr. apply caller_outcome_too_large; auto. Qed.

(* ---- what the small limits mean ---- *)

(* MaxRequestLength = 0: every non-empty request is refused, on every transport, whatever its
   class and declaration ... *)
Lemma limit_zero_refuses_nonempty tr k decl sent n :
  framed tr k decl sent = Some n -> n > 0 ->
  rejected (admission pinned_sites tr 0 k decl sent) = true.
Proof. apply never_processed_pinned. Qed.

(* ... and only the empty one passes *)
Lemma limit_zero_passes_empty tr k decl :
  truthful tr k decl 0 = true ->
  admission pinned_sites tr 0 k decl 0 = Process 0.
Proof. intros Ht. apply (processed_at_limit pinned_sites tr 0 k decl 0 Ht). lia. Qed.

(* a negative MaxRequestLength refuses everything, the empty request included *)
Lemma limit_negative_refuses_all tr max k decl sent n :
  max < 0 -> framed tr k decl sent = Some n -> 0 <= n ->
  rejected (admission pinned_sites tr max k decl sent) = true.
Proof. intros Hm Hf Hn. apply (never_processed_pinned tr max k decl sent n Hf). lia. Qed.
