(* The Write entry point on a fresh encoder (Encoder.Write as the first operation after Reset / NewEncoder):
   the stream denotes the value, like Encode's.  On empty tables Write and Encode differ only for strings
   (Write always uses the 's' form and registers the string; Encode writes 'e' / 'u' for 0 / 1 code units). *)
From Coq Require Import List Arith NArith ZArith Lia Strings.Byte Bool.
From HV Require Import Lib.Dec Lib.Utf8 Model.Wire Model.WireSem Model.Enc Model.Abs
                       Proofs.WireProofs Proofs.EncProofs Proofs.RefProofs.
Import ListNotations.

(* the value written is not, behind untracked pointers, a string *)
Fixpoint write_plain (hp : heap) (fuel : nat) (v : gval) : bool :=
  match fuel with
  | O => true
  | S f =>
      match v with
      | GString _ => false
      | GPtr a => match hlookup hp a with
                  | Some pv => if tracked pv then true else write_plain hp f pv
                  | None => true
                  end
      | _ => true
      end
  end.

Lemma write_is_encode_on_empty_tables : forall simple hp fuel v,
  write_plain hp fuel v = true -> enc_write simple hp fuel einit v = enc simple hp fuel einit v.
Proof.
  intros simple hp fuel. induction fuel as [|f IH]; intros v Hp; [reflexivity|].
  cbn [enc_write enc]. destruct v; try reflexivity.
  - cbn [write_plain] in Hp. discriminate.
  - cbn [write_plain] in Hp. cbn [write_step enc_step].
    destruct (hlookup hp addr) as [pv|]; [|reflexivity].
    destruct (tracked pv).
    + unfold lookup_ptr. destruct simple; reflexivity.
    + apply IH. exact Hp.
Qed.

Theorem write_denotes_abs : forall hp fuel v st' w,
  heap_ok hp = true -> gval_ok v = true -> ref_wf hp v = true -> write_plain hp fuel v = true ->
  enc_write false hp fuel einit v = EOk st' w ->
  exists d, denote_top w = Some d /\ abs_top hp fuel v = Some d.
Proof.
  intros hp fuel v st' w Hh Hv Hw Hp H.
  rewrite (write_is_encode_on_empty_tables false hp fuel v Hp) in H.
  exact (enc_denotes_abs hp fuel v st' w Hh Hv Hw H).
Qed.

(* a string written with Write: always the 's' (or bytes) form, denoting the string *)
Theorem write_string_denotes : forall simple hp f s st' w,
  enc_write simple hp (S f) einit (GString s) = EOk st' w ->
  w = string_wire s /\ denote_top w = abs_top hp (S f) (GString s).
Proof.
  intros simple hp f s st' w H. cbn [enc_write write_step] in H. unfold write_string in H.
  inversion H; subst. split; [reflexivity|].
  unfold string_wire, denote_top, abs_top. cbn [abs].
  destruct (go_utf16Length s <? 0)%Z eqn:E.
  - cbn. unfold abs_string. rewrite E.
    destruct s as [|b s]; [cbv in E; discriminate|]. reflexivity.
  - cbn. unfold abs_string. rewrite E. destruct s; reflexivity.
Qed.
