(* Decoder half of C01 (typed round trip) on the scalar fragment: the token the encoder model
   writes for a scalar value of type t decodes, with the decoder model, into that value. *)
From Coq Require Import List Arith NArith ZArith Strings.Byte Bool Lia.
From HV Require Import Lib.Dec Lib.Utf8 Model.Wire Model.WireSem Model.Enc Model.DecAct Model.DecVal Model.DecSpec
                       Proofs.WireProofs Proofs.EncProofs Proofs.DecValProofs.
Import ListNotations.
Open Scope Z_scope.

(* ---- which Go values of which types: the scalar fragment ---------------------------------- *)

Section Typed.
Variable orc : bytes -> bytes -> option bytes.

(* strconv round trip (oracle law, per value): the text FormatFloat produced parses back to itself *)
Definition float_canon (b32 : bool) (f : fval) : bool :=
  match f with
  | FFin txt => match o_float orc b32 txt with ROk (FFin t') => bytes_eqb t' txt | _ => false end
  | _ => true
  end.

Definition text_canon (fn : bytes) (txt : bytes) : bool :=
  match o_text orc fn txt with ROk t' => bytes_eqb t' txt | _ => false end.

Definition time_fields_ok (y mo d h mi s ns : Z) : bool :=
  (0 <=? y) && (y <=? 9999) && (1 <=? mo) && (mo <=? 12) && (1 <=? d) && (d <=? days_in y mo) &&
  (0 <=? h) && (h <? 24) && (0 <=? mi) && (mi <? 60) && (0 <=? s) && (s <? 60) && (0 <=? ns) && (ns <? 1000000000).

Definition has_type (t : gtype) (v : gval) : bool :=
  match t, v with
  | TBool, GBool _ => true
  | TInt k, GInt k' z => ikind_eqb k k' && in_range_k k z
  | TF32, GFloat f => float_canon true f
  | TF64, GFloat f => float_canon false f
  | TC64, GComplex re im true => float_canon true re
  | TC128, GComplex re im true => float_canon false re
  | TString, GString _ => true
  | TBytes, GBytes _ => true
  | TTime, GTime y mo d h mi s ns _ => time_fields_ok y mo d h mi s ns
  | TUuid, GUuid txt => uuid_syntax txt && bytes_eqb (uuid_lower txt) txt
  | TBigInt, GBigInt _ => true
  | TBigFloat, GBigFloat txt => text_canon (bs "bf") txt
  | TBigRat, GBigRat (Some _) _ => true
  | TBigRat, GBigRat None txt =>
      (* txt is Rat.String(), "a/b": it has no exponent, so the decoder's cost guard (exponentTooLarge) never applies *)
      text_canon (bs "rat") txt && negb (Nat.eqb (length txt) 0) && (1 <? go_utf16Length txt) &&
      negb (exponent_too_large max_text_exponent txt)
  | _, _ => false
  end.

End Typed.

(* the decoded value is the Go value (times: same instant and same UTC-versus-local flag; the imaginary
   part of a complex written as a single real is zero) *)
Definition same (x : xval) (v : gval) : bool :=
  match x, v with
  | XBool a, GBool b => Bool.eqb a b
  | XInt k a, GInt k' b => ikind_eqb k k' && (a =? b)
  | XF32 a, GFloat b | XF64 a, GFloat b => fval_same a b
  | XC64 a i, GComplex b _ true | XC128 a i, GComplex b _ true => fval_same a b && fval_same i fzero
  | XStr a, GString b => bytes_eqb a b
  | XBytes a, GBytes b => bytes_eqb a b
  | XTime y mo d h mi s ns u, GTime y' mo' d' h' mi' s' ns' u' =>
      (y =? y') && (mo =? mo') && (d =? d') && (h =? h') && (mi =? mi') && (s =? s') && (ns =? ns') && Bool.eqb u u'
  | XUuid a, GUuid b => bytes_eqb a b
  | XBigInt a, GBigInt b => a =? b
  | XBigFloat a, GBigFloat b => bytes_eqb a b
  | XBigRat a, GBigRat (Some z) _ => bytes_eqb a (to_decZ z ++ bs "/1")
  | XBigRat a, GBigRat None txt => bytes_eqb a txt
  | _, _ => false
  end.

(* ---- the round trip ------------------------------------------------------------------------ *)

Lemma enc_scalar_step simple hp fuel st v :
  enc simple hp (S fuel) st v = enc_step simple hp (enc simple hp fuel) st v.
Proof. reflexivity. Qed.

(* the arm-level statement: the switch arm of t's routine for the token yields the value *)
Definition arm_rt (orc : bytes -> bytes -> option bytes) (te : tenv) (t : gtype) (w : wire) (v : gval) : Prop :=
  exists s x, is_scalar_type t = true /\ sleaf_of t = Some s /\
              run_action orc s (arm s w) w = SV x /\ plain (post te s t x) = true /\ same (post te s t x) v = true.

Lemma rt_value orc te t w s v x :
  is_scalar_type t = true -> sleaf_of t = Some s ->
  run_action orc s (arm s w) w = SV x -> plain (post te s t x) = true -> same (post te s t x) v = true ->
  arm_rt orc te t w v.
Proof. intros Ht Hs Hr Hp Hsame. exists s, x. repeat split; assumption. Qed.

Lemma nsec_frac ns : 0 <= ns < 1000000000 -> nsec_of (frac_groups ns) = ns.
Proof.
  intros H. unfold frac_groups. destruct (ns =? 0) eqn:E0; [cbn; lia|].
  set (q1 := ns / 1000000). set (r1 := ns - q1 * 1000000).
  assert (Hq1 : 0 <= q1 < 1000) by (unfold q1; split; [apply Z.div_pos; lia | apply Z.div_lt_upper_bound; lia]).
  assert (Hr1 : 0 <= r1 < 1000000).
  { unfold r1, q1. pose proof (Z.div_mod ns 1000000 ltac:(lia)). pose proof (Z.mod_pos_bound ns 1000000 ltac:(lia)). lia. }
  destruct (r1 =? 0) eqn:E1.
  { cbn [nsec_of]. rewrite Z2N.id by lia. unfold r1 in *. lia. }
  set (q2 := r1 / 1000). set (r2 := r1 - q2 * 1000).
  assert (Hq2 : 0 <= q2 < 1000) by (unfold q2; split; [apply Z.div_pos; lia | apply Z.div_lt_upper_bound; lia]).
  assert (Hr2 : 0 <= r2 < 1000).
  { unfold r2, q2. pose proof (Z.div_mod r1 1000 ltac:(lia)). pose proof (Z.mod_pos_bound r1 1000 ltac:(lia)). lia. }
  destruct (r2 =? 0) eqn:E2; cbn [nsec_of]; rewrite ?Z2N.id by lia; unfold r2, r1 in *; lia.
Qed.

Lemma time_fields_split y mo d h mi s ns : time_fields_ok y mo d h mi s ns = true ->
  0 <= y <= 9999 /\ 1 <= mo <= 12 /\ 1 <= d <= days_in y mo /\ 0 <= h < 24 /\ 0 <= mi < 60 /\ 0 <= s < 60 /\ 0 <= ns < 1000000000.
Proof. unfold time_fields_ok. intros H. repeat (apply andb_prop in H; destruct H as [H ?]). lia. Qed.

Lemma days_in_le y mo : days_in y mo <= 31.
Proof. unfold days_in. repeat match goal with |- context [if ?c then _ else _] => destruct c end; lia. Qed.

Theorem roundtrip_scalar_arm orc te simple t v fuel st st' w :
  (forall s, lookup_str simple st s = None) ->
  has_type orc t v = true ->
  enc simple [] fuel st v = EOk st' w ->
  arm_rt orc te t w v.
Proof.
  intros Hst Ht He. destruct fuel as [|fuel]; [discriminate|]. rewrite enc_scalar_step in He.
  destruct t; destruct v; try discriminate; cbn [has_type] in Ht; cbn [enc_step] in He.
  - (* bool *) inversion He; subst. destruct b; (eapply rt_value; [reflexivity|reflexivity|reflexivity|reflexivity|reflexivity]).
  - (* int *) apply andb_prop in Ht. destruct Ht as [Hk Hr].
    assert (k0 = k) by (destruct k, k0; try discriminate; reflexivity). subst k0.
    inversion He; subst. clear He.
    assert (Hw : exists a, enc_int k z = a /\ ((exists d, a = WDigit d /\ Z.of_N d = z /\ (d < 10)%N) \/ a = WInt z \/ a = WLong z)).
    { eexists; split; [reflexivity|]. unfold enc_int, w_int32, w_uint16.
      destruct k; repeat match goal with |- context [if ?c then _ else _] => destruct c eqn:?E end; auto;
        left; exists (Z.to_N z); (split; [reflexivity | split; [unfold in_range_k in Hr; cbn in Hr; lia | unfold in_range_k in Hr; cbn in Hr; lia]]). }
    destruct Hw as (a & Ea & [(d & Ed & Ez & Hd)|[Ei|El]]); rewrite Ea; clear Ea; [rewrite Ed | rewrite Ei | rewrite El].
    + (* digit *) apply N.ltb_lt in Hd.
      eapply rt_value with (x := XInt k (Z.of_N d));
        [reflexivity | reflexivity | split_digit d Hd; destruct k; reflexivity | destruct k; reflexivity |].
      cbn [post same]. rewrite Ez. replace (post te (SInt k) (TInt k) (XInt k z)) with (XInt k z) by (destruct k; reflexivity).
      cbn [same]. rewrite ikind_eqb_refl, Z.eqb_refl. reflexivity.
    + assert (E : wrap_k k (wrap_k (int_reader k) z) = z).
      { destruct k; cbn [int_reader]; try (rewrite wrap_k_idem; apply wrap_k_id; exact Hr).
        rewrite uintptr_via_uint64. apply wrap_k_id; exact Hr. }
      eapply rt_value with (x := XInt k (wrap_k k (wrap_k (int_reader k) z)));
        [reflexivity | reflexivity | destruct k; reflexivity | destruct k; reflexivity |].
      rewrite E. replace (post te (SInt k) (TInt k) (XInt k z)) with (XInt k z) by (destruct k; reflexivity).
      cbn [same]. rewrite ikind_eqb_refl, Z.eqb_refl. reflexivity.
    + assert (E : wrap_k k (wrap_k (int_reader k) z) = z).
      { destruct k; cbn [int_reader]; try (rewrite wrap_k_idem; apply wrap_k_id; exact Hr).
        rewrite uintptr_via_uint64. apply wrap_k_id; exact Hr. }
      eapply rt_value with (x := XInt k (wrap_k k (wrap_k (int_reader k) z)));
        [reflexivity | reflexivity | destruct k; reflexivity | destruct k; reflexivity |].
      rewrite E. replace (post te (SInt k) (TInt k) (XInt k z)) with (XInt k z) by (destruct k; reflexivity).
      cbn [same]. rewrite ikind_eqb_refl, Z.eqb_refl. reflexivity.
  - (* float32 *) inversion He; subst. clear He. destruct f as [|neg|txt]; cbn [enc_float].
    + eapply rt_value; [reflexivity|reflexivity|reflexivity|reflexivity|reflexivity].
    + eapply rt_value; [reflexivity|reflexivity|reflexivity|reflexivity|]. cbn. destruct neg; reflexivity.
    + cbn [float_canon] in Ht. destruct (o_float orc true txt) as [[| |t']| |] eqn:Eo; try discriminate.
      assert (E : run_action orc SF32 (arm SF32 (WDouble txt)) (WDouble txt) = conv_float orc true NtF32 txt) by reflexivity.
      eapply rt_value with (x := XF32 (FFin t')); [reflexivity|reflexivity| rewrite E; unfold conv_float; rewrite Eo; reflexivity | reflexivity |].
      cbn. exact Ht.
  - (* float64 *) inversion He; subst. clear He. destruct f as [|neg|txt]; cbn [enc_float].
    + eapply rt_value; [reflexivity|reflexivity|reflexivity|reflexivity|reflexivity].
    + eapply rt_value; [reflexivity|reflexivity|reflexivity|reflexivity|]. cbn. destruct neg; reflexivity.
    + cbn [float_canon] in Ht. destruct (o_float orc false txt) as [[| |t']| |] eqn:Eo; try discriminate.
      assert (E : run_action orc SF64 (arm SF64 (WDouble txt)) (WDouble txt) = conv_float orc false NtF64 txt) by reflexivity.
      eapply rt_value with (x := XF64 (FFin t')); [reflexivity|reflexivity| rewrite E; unfold conv_float; rewrite Eo; reflexivity | reflexivity |].
      cbn. exact Ht.
  - (* complex64 *) destruct im_zero; [|discriminate]. inversion He; subst. clear He. destruct re as [|neg|txt]; cbn [enc_float].
    + eapply rt_value; [reflexivity|reflexivity|reflexivity|reflexivity|reflexivity].
    + eapply rt_value; [reflexivity|reflexivity|reflexivity|reflexivity|]. cbn. destruct neg; reflexivity.
    + cbn [float_canon] in Ht. destruct (o_float orc true txt) as [[| |t']| |] eqn:Eo; try discriminate.
      assert (E : run_action orc SC64 (arm SC64 (WDouble txt)) (WDouble txt) = conv_float orc true NtC64 txt) by reflexivity.
      eapply rt_value with (x := XC64 (FFin t') fzero); [reflexivity|reflexivity| rewrite E; unfold conv_float; rewrite Eo; reflexivity | reflexivity |].
      cbn. rewrite Ht. reflexivity.
  - (* complex128 *) destruct im_zero; [|discriminate]. inversion He; subst. clear He. destruct re as [|neg|txt]; cbn [enc_float].
    + eapply rt_value; [reflexivity|reflexivity|reflexivity|reflexivity|reflexivity].
    + eapply rt_value; [reflexivity|reflexivity|reflexivity|reflexivity|]. cbn. destruct neg; reflexivity.
    + cbn [float_canon] in Ht. destruct (o_float orc false txt) as [[| |t']| |] eqn:Eo; try discriminate.
      assert (E : run_action orc SC128 (arm SC128 (WDouble txt)) (WDouble txt) = conv_float orc false NtC128 txt) by reflexivity.
      eapply rt_value with (x := XC128 (FFin t') fzero); [reflexivity|reflexivity| rewrite E; unfold conv_float; rewrite Eo; reflexivity | reflexivity |].
      cbn. rewrite Ht. reflexivity.
  - (* string *) destruct (enc_string simple st s) as [st1 w1] eqn:Es. inversion He; subst. clear He.
    unfold enc_string in Es.
    destruct (go_utf16Length s =? 0) eqn:E0.
    { inversion Es; subst.
      assert (s = []).
      { apply Z.eqb_eq in E0. destruct (strict_utf8 s) eqn:Eu.
        - destruct (strict_chars s Eu) as (cs & Hcs & Hv & Hcat). rewrite (go_utf16Length_strict s cs Hcs) in E0.
          destruct cs as [|c cs]; [cbn in Hcat; auto|]. pose proof (units_pos (c :: cs) Hv ltac:(discriminate)). lia.
        - rewrite (go_utf16Length_nonstrict s Eu) in E0. discriminate. }
      subst s. eapply rt_value; [reflexivity|reflexivity|reflexivity|reflexivity|reflexivity]. }
    destruct (go_utf16Length s =? 1) eqn:E1.
    { inversion Es; subst.
      eapply rt_value with (x := XStr s); [reflexivity|reflexivity|reflexivity|reflexivity|]. cbn. apply bytes_eqb_refl. }
    assert (Hl : lookup_str simple st s = None) by apply Hst.
    rewrite Hl in Es. inversion Es; subst. unfold string_wire.
    destruct (go_utf16Length s <? 0).
    + eapply rt_value with (x := XStr s); [reflexivity|reflexivity|reflexivity|reflexivity|]. cbn. apply bytes_eqb_refl.
    + eapply rt_value with (x := XStr s); [reflexivity|reflexivity|reflexivity|reflexivity|]. cbn. apply bytes_eqb_refl.
  - (* bytes *) cbn [enc_body] in He. inversion He; subst.
    eapply rt_value with (x := XBytes b); [reflexivity|reflexivity|reflexivity|reflexivity|]. cbn. apply bytes_eqb_refl.
  - (* big.Int *) inversion He; subst.
    eapply rt_value with (x := XPtr (XBigInt z)); [reflexivity|reflexivity|reflexivity|reflexivity|]. cbn. apply Z.eqb_refl.
  - (* big.Float *) inversion He; subst. unfold text_canon in Ht.
    destruct (o_text orc (bs "bf") txt) as [t'| |] eqn:Eo; try discriminate.
    assert (E : run_action orc SBigFloatV (arm SBigFloatV (WDouble txt)) (WDouble txt) =
                lift (o_text orc (bs "bf") txt) (fun t => SV (XPtr (XBigFloat t)))) by reflexivity.
    eapply rt_value with (x := XPtr (XBigFloat t')); [reflexivity|reflexivity| rewrite E, Eo; reflexivity | reflexivity |].
    cbn. exact Ht.
  - (* big.Rat *) destruct num as [z|].
    + inversion He; subst.
      eapply rt_value with (x := XPtr (rat_of_int z)); [reflexivity|reflexivity|reflexivity|reflexivity|].
      cbn. apply bytes_eqb_refl.
    + inversion He; subst. apply andb_prop in Ht. destruct Ht as [Ht Hx]. apply negb_true_iff in Hx.
      apply andb_prop in Ht. destruct Ht as [Ht Hlen]. apply andb_prop in Ht. destruct Ht as [Ht Hne].
      unfold text_canon in Ht. destruct (o_text orc (bs "rat") txt) as [t'| |] eqn:Eo; try discriminate.
      unfold string_wire. assert (go_utf16Length txt <? 0 = false) by lia. rewrite H.
      assert (E : run_action orc SBigRatV (arm SBigRatV (WStr txt)) (WStr txt) = parse_str orc PBigRat 0 NtBigRat txt) by reflexivity.
      eapply rt_value with (x := XPtr (XBigRat t')); [reflexivity|reflexivity| rewrite E; unfold parse_str; rewrite Hx, Eo; reflexivity | reflexivity |].
      cbn. exact Ht.
  - (* time *) cbn [enc_body] in He.
    destruct (time_fields_split _ _ _ _ _ _ _ Ht) as (Hy & Hmo & Hd & Hh & Hmi & Hs & Hns).
    pose proof (days_in_le y mo) as Hdi.
    assert (Hvd : valid_date (Z.to_N y) (Z.to_N mo) (Z.to_N d) = true).
    { unfold valid_date. rewrite !Z2N.id by lia. lia. }
    assert (Hvc : valid_clock (Z.to_N h) (Z.to_N mi) (Z.to_N s) = true) by (unfold valid_clock; lia).
    unfold enc_time in He.
    destruct ((h =? 0) && (mi =? 0) && (s =? 0) && (ns =? 0)) eqn:Ez.
    + assert (Hr : date_in_range y mo d = true) by (unfold date_in_range; lia). rewrite Hr in He. inversion He; subst.
      eapply rt_value with (x := time_of_date (Z.to_N y) (Z.to_N mo) (Z.to_N d) None utc);
        [reflexivity|reflexivity| |reflexivity|].
      * change (run_action orc STime (arm STime (WDate (Z.to_N y) (Z.to_N mo) (Z.to_N d) None utc)) (WDate (Z.to_N y) (Z.to_N mo) (Z.to_N d) None utc))
          with (read_src orc STime RDate (WDate (Z.to_N y) (Z.to_N mo) (Z.to_N d) None utc)).
        cbn [read_src]. rewrite Hvd. reflexivity.
      * cbn [post time_of_date same]. rewrite !Z2N.id by lia. rewrite !Z.eqb_refl.
        replace (0 =? h) with true by lia. replace (0 =? mi) with true by lia. replace (0 =? s) with true by lia.
        replace (0 =? ns) with true by lia. destruct utc; reflexivity.
    + destruct ((y =? 1970) && (mo =? 1) && (d =? 1)) eqn:E70.
      * inversion He; subst.
        eapply rt_value with (x := time_of_clock (Z.to_N h) (Z.to_N mi) (Z.to_N s) (frac_groups ns) utc);
          [reflexivity|reflexivity| |reflexivity|].
        -- change (run_action orc STime (arm STime (WTime (Z.to_N h) (Z.to_N mi) (Z.to_N s) (frac_groups ns) utc)) (WTime (Z.to_N h) (Z.to_N mi) (Z.to_N s) (frac_groups ns) utc))
             with (read_src orc STime RTime (WTime (Z.to_N h) (Z.to_N mi) (Z.to_N s) (frac_groups ns) utc)).
           cbn [read_src]. rewrite Hvc. reflexivity.
        -- cbn [post time_of_clock same]. rewrite !Z2N.id by lia. rewrite (nsec_frac ns Hns). rewrite !Z.eqb_refl.
           replace (1970 =? y) with true by lia. replace (1 =? mo) with true by lia. replace (1 =? d) with true by lia.
           destruct utc; reflexivity.
      * assert (Hr : date_in_range y mo d = true) by (unfold date_in_range; lia). rewrite Hr in He. inversion He; subst.
        eapply rt_value with (x := time_of_date (Z.to_N y) (Z.to_N mo) (Z.to_N d) (Some (Z.to_N h, Z.to_N mi, Z.to_N s, frac_groups ns)) utc);
          [reflexivity|reflexivity| |reflexivity|].
        -- match goal with |- run_action orc STime (arm STime ?w) ?w = _ => change (read_src orc STime RDate w = SV (time_of_date (Z.to_N y) (Z.to_N mo) (Z.to_N d) (Some (Z.to_N h, Z.to_N mi, Z.to_N s, frac_groups ns)) utc)) end.
           cbn [read_src]. rewrite Hvd, Hvc. reflexivity.
        -- cbn [post time_of_date same]. rewrite !Z2N.id by lia. rewrite (nsec_frac ns Hns). rewrite !Z.eqb_refl.
           destruct utc; reflexivity.
  - (* uuid *) cbn [enc_body] in He. inversion He; subst. apply andb_prop in Ht. destruct Ht as [Hsyn Hlow].
    eapply rt_value with (x := XUuid (uuid_lower txt)); [reflexivity|reflexivity| |reflexivity|].
    + change (read_src orc SUuid RGuid (WGuid txt) = SV (XUuid (uuid_lower txt))). cbn [read_src]. rewrite Hsyn. reflexivity.
    + cbn. exact Hlow.
Qed.

Theorem roundtrip_scalar orc opts te simple t v fuel st' w f :
  has_type orc t v = true ->
  enc simple [] fuel einit v = EOk st' w ->
  exists y, dec_top orc opts te (S (S f)) t w = OOk y /\ same y v = true.
Proof.
  intros Ht He.
  assert (Hst : forall s, lookup_str simple einit s = None) by (intros s; unfold lookup_str; destruct simple; reflexivity).
  destruct (roundtrip_scalar_arm orc te simple t v fuel einit st' w Hst Ht He) as (s & x & Hsc & Hs & Hr & Hp & Hsame).
  exists (post te s t x). split; [|exact Hsame].
  apply (dec_top_scalar_value orc opts te (S f) t w s x Hsc Hs Hr Hp).
Qed.
