#!/bin/sh
# MANIFEST.setup_cmd: build the framework offline from files on disk only.
# Only what the claimed checks need is required to build; everything else (checks still being
# built) is attempted and may fail without failing the setup.  Every check rebuilds what it needs
# (Gen tables from /repo, its Coq targets, its extraction, its harness) on every run anyway.
set -e
cd "$(dirname "$0")"
export GOFLAGS=-mod=mod GOPROXY=off GOSUMDB=off GOTOOLCHAIN=local
mkdir -p build/bin evidence replays
CLAIMED=$(cat checks/meta/_claimed.txt)
# 1. regenerate Gen/ tables (if the extractor exists)
if [ -d tools/gotables ]; then (cd tools/gotables && go build -o ../../build/bin/gotables . && ../../build/bin/gotables -repo /repo -out ../../coq/Gen >/dev/null) || echo "warning: gotables failed"; fi
# 2. the Coq development of the claimed properties (full .vo build)
TARGETS=""
for p in $CLAIMED; do TARGETS="$TARGETS Props/$p.vo"; done
timeout 3000 coq/mk.sh -j16 $TARGETS
# 3. everything else, best effort
timeout 3000 coq/mk.sh -k -j16 >/dev/null 2>&1 || echo "note: some Coq files of unclaimed properties do not build yet"
cp /repo/go.sum harness/go.sum
echo setup ok
