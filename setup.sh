#!/bin/sh
# MANIFEST.setup_cmd: build the framework offline from files on disk only.
# Only what the claimed checks need is required to build; everything else (checks still being
# built) is attempted and may fail without failing the setup.  Every check rebuilds what it needs
# (Gen tables from /repo, its Coq targets, its extraction, its harness) on every run anyway.
set -e
cd "$(dirname "$0")"
export GOFLAGS=-mod=mod GOPROXY=off GOSUMDB=off GOTOOLCHAIN=local
mkdir -p build/bin evidence replays
CLAIMED=$(cat checks/meta/_claimed.txt)
# 1. regenerate Gen/ tables (if the extractor exists)
if [ -d tools/gotables ]; then (cd tools/gotables && go build -o ../../build/bin/gotables . && ../../build/bin/gotables -repo /repo -out ../../coq/Gen >/dev/null) || echo "warning: gotables failed"; fi
# 2. the Coq development of the claimed properties (full .vo build), one property at a time so that a
#    slow or broken proof of one property cannot prevent the others from being prepared; each check
#    rebuilds its own targets anyway and reports a broken proof itself
for p in $CLAIMED; do
  timeout 1200 coq/mk.sh -j16 Props/$p.vo >/dev/null 2>&1 || echo "warning: Props/$p.vo did not build during setup (its check will report it)"
done
cp /repo/go.sum harness/go.sum
echo setup ok
