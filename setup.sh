#!/bin/sh
# MANIFEST.setup_cmd: build the framework offline from files on disk only.
set -e
cd "$(dirname "$0")"
export GOFLAGS=-mod=mod GOPROXY=off GOSUMDB=off GOTOOLCHAIN=local
mkdir -p build/bin evidence replays
# 1. regenerate Gen/ tables (if the extractor exists) and build the whole Coq development
if [ -d tools/gotables ]; then (cd tools/gotables && go build -o ../../build/bin/gotables . && ../../build/bin/gotables -repo /repo -out ../../coq/Gen >/dev/null); fi
timeout 3000 coq/mk.sh -j16
# 2. extraction + OCaml driver
for f in coq/Extract/*.v; do n=$(basename $f .v | tr A-Z a-z); extract/build.sh $n; done
# 3. implementation-side harness against /repo
cp /repo/go.sum harness/go.sum
(cd harness && for d in cmd/*/; do n=$(basename $d); go build -tags verif -o ../build/bin/hv-$n ./cmd/$n; done)
echo setup ok
