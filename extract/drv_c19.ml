(* C19 driver: replays an observed history of the real Broker through the extracted LTS of
   Model/Push.v.  One input line = one history, tokens separated by blanks:

     S id t            subscribe          -> T | F
     U id t            unsubscribe        -> T | F
     P1 t m id         Unicast            -> id:T | id:F
     PM t m id,id,..   Multicast          -> id:T,id:F,..   (sorted by id)
     PB t m            Broadcast          -> id:T,..        (sorted by id)
     L id              a poll of client id starts; it runs until it returns or blocks
                       -> N (nil) | B<batch> | W (waiting) | ! (a poll of id is already active)
     T id              the waiting poll of id times out            -> E
     R id              the waiting poll of id receives             -> N | B<batch> | X (nothing to receive)
     H                 every armed heartbeat whose signal is not closed fires -> number fired
   low level (forced schedules; indices are printed by the spawning token):
     sS id t | sU id t | sP1 t m id | sPM t m ids | sPB t m | sL id     spawn only -> w<i> | p<i> | !
     w i n             n steps of worker i (choice 0)              -> ok | dis (a step was not enabled)
     p i n             n steps of poll i (choice 0)                -> ok | dis
     pt i              the timer of poll i fires                   -> ok | dis
     wd i              worker i runs until it is done (or waits as a heartbeat) -> its result
     pd i              poll i runs until it returns or blocks      -> N | E | B.. | W
     wr i | pr i       result of worker / poll i so far
     hz                was any step so far hazardous (Push.hazard)? -> 0 | 1
   A first token F selects the variant with the repaired message() (Push.init_fixed): there the
   timer of a waiting poll only moves it on; it then withdraws its responder (and returns {}) or,
   when a publisher holds the responder, waits for the answer.
   After every high-level token the heartbeats that were spawned register their signal (one step).
   The line ends with the per-cache summary:  | c<k>=<id>/<topic> acc=.. del=.. live=.. cached=..
   batch = t:m.m.m;t:m   sorted by topic *)
open Common

let nat i = nat_of_int i
let zs z = string_of_z z
let rec list_of l = l
let ints l = Stdlib.List.map int_of_nat l

let st = ref Push.init
let hazard_seen = ref false

let do_event e =
  if Push.hazard !st e then hazard_seen := true;
  match Push.step !st e with
  | Some s' -> st := s'; true
  | None -> false

let nworks () = Stdlib.List.length (!st).Push.works
let npolls () = Stdlib.List.length (!st).Push.polls
let work i = Stdlib.List.nth (!st).Push.works i
let poll i = Stdlib.List.nth (!st).Push.polls i

let batch_str (b : Push.batch) =
  let items = Stdlib.List.map (fun (((t, _), _), ms) -> (int_of_nat t, ms)) b in
  let items = Stdlib.List.sort compare items in
  String.concat ";" (Stdlib.List.map (fun (t, ms) ->
    string_of_int t ^ ":" ^ String.concat "." (Stdlib.List.map zs ms)) items)

let pres_str = function
  | Push.RNil -> "N" | Push.RTimeout -> "E" | Push.RBatch b -> "B" ^ batch_str b

let res_str (res : (Datatypes.nat * bool) list) =
  let l = Stdlib.List.map (fun (i, b) -> (int_of_nat i, b)) res in
  let l = Stdlib.List.sort compare l in
  if l = [] then "-" else
  String.concat "," (Stdlib.List.map (fun (i, b) -> string_of_int i ^ ":" ^ (if b then "T" else "F")) l)

(* is worker i finished (or parked as a heartbeat waiting for its timer)? *)
let work_parked i =
  let w = work i in
  match w.Push.wsub with
  | Some _ -> false
  | None ->
    (match w.Push.wf with
     | Push.WPub (_, _, _, _, Push.PubDone) -> true
     | Push.WSub (_, _, Push.SubDone _) -> true
     | Push.WOff (_, _, _, Push.OffDone) -> true
     | Push.WHb (_, _, Push.HbWait) | Push.WHb (_, _, Push.HbDone) -> true
     | _ -> false)

let work_result i =
  let w = work i in
  match w.Push.wf with
  | Push.WPub (_, _, _, res, _) -> res_str res
  | Push.WSub (_, _, Push.SubDone b) -> if b then "T" else "F"
  | Push.WOff (_, _, b, _) -> if b then "T" else "F"
  | Push.WHb (_, _, _) -> "hb"
  | _ -> "?"

let rec run_work i fuel =
  if fuel = 0 then failwith "c19: worker does not finish"
  else if work_parked i then ()
  else if do_event (Push.EWork (nat i, nat 0)) then run_work i (fuel - 1)
  else failwith ("c19: worker " ^ string_of_int i ^ " blocked")

(* heartbeats register their signal as soon as they are spawned *)
let settle_hb () =
  for i = 0 to nworks () - 1 do
    match (work i).Push.wf, (work i).Push.wsub with
    | Push.WHb (_, _, Push.HbUpsert), None -> ignore (do_event (Push.EWork (nat i, nat 0)))
    | _ -> ()
  done

let poll_state i =
  match (poll i).Push.ppc with
  | Push.LDone r -> `Done r
  | Push.LWait -> `Wait
  | Push.LTimedOut -> `TimedOut
  | _ -> `Run

let rec run_poll i fuel =
  if fuel = 0 then failwith "c19: poll does not finish" else
  match poll_state i with
  | `Done r -> pres_str r
  | `Wait -> if do_event (Push.EPoll (nat i, nat 0)) then run_poll i (fuel - 1) else "W"
  | `TimedOut ->
      if do_event (Push.EPoll (nat i, nat 0)) then run_poll i (fuel - 1)        (* withdraw *)
      else if do_event (Push.EPoll (nat i, nat 1)) then run_poll i (fuel - 1)   (* the answer has arrived *)
      else "W"
  | `Run -> if do_event (Push.EPoll (nat i, nat 0)) then run_poll i (fuel - 1)
            else failwith ("c19: poll " ^ string_of_int i ^ " blocked")

let active_poll_of id =
  let r = ref (-1) in
  Stdlib.List.iteri (fun i p -> if int_of_nat p.Push.pid = id && Push.poll_active p then r := i) (!st).Push.polls;
  !r

let spawn o =
  let nw = nworks () and np = npolls () in
  if do_event (Push.ESpawn o) then
    (if npolls () > np then `Poll np else `Work nw)
  else `Refused

let ids_of s = Stdlib.List.map (fun x -> nat (int_of_string x)) (String.split_on_char ',' s)

let spawn_work o = match spawn o with `Work i -> i | _ -> failwith "c19: spawn"

let summary () =
  let s = !st in
  let zl l = String.concat "." (Stdlib.List.map zs l) in
  String.concat " " (Stdlib.List.mapi (fun c ca ->
    let (i, t) = ca.Push.cown in
    Printf.sprintf "c%d=%d/%d acc=%s del=%s live=%s cached=%s" c (int_of_nat i) (int_of_nat t)
      (zl (Push.cacc ca)) (zl (Push.dmsgs (nat c) s.Push.delivered)) (zl (Push.live s (nat c))) (zl ca.Push.cmsgs))
    s.Push.caches)

let run line =
  let toks0 = split_ws line in
  let fixed, toks0 = (match toks0 with "F" :: r -> true, r | l -> false, l) in
  st := (if fixed then Push.init_fixed else Push.init); hazard_seen := false;
  let out = Buffer.create 256 in
  let emit s = Buffer.add_string out s; Buffer.add_char out ' ' in
  let n x = nat (int_of_string x) in
  let hi_work o = let i = spawn_work o in run_work i 10000; settle_hb (); emit (work_result i) in
  let rec go = function
    | [] -> ()
    | "S" :: id :: t :: r -> hi_work (Push.OSub (n id, n t)); go r
    | "U" :: id :: t :: r -> hi_work (Push.OUnsub (n id, n t)); go r
    | "P1" :: t :: m :: id :: r -> hi_work (Push.OUni (n t, z_of_string m, n id)); go r
    | "PM" :: t :: m :: l :: r -> hi_work (Push.OMulti (n t, z_of_string m, ids_of l)); go r
    | "PB" :: t :: m :: r -> hi_work (Push.OBcast (n t, z_of_string m)); go r
    | "L" :: id :: r ->
        (match spawn (Push.OPoll (n id)) with
         | `Poll i -> let x = run_poll i 10000 in settle_hb (); emit x
         | _ -> emit "!");
        go r
    | "T" :: id :: r ->
        let i = active_poll_of (int_of_string id) in
        (if i >= 0 && poll_state i = `Wait && do_event (Push.EPoll (nat i, nat 1)) then
           (if poll_state i = `TimedOut then
              (if do_event (Push.EPoll (nat i, nat 0)) then (settle_hb (); emit "E") else emit "dis")
            else (settle_hb (); emit "E"))
         else emit "dis");
        go r
    | "R" :: id :: r ->
        let i = active_poll_of (int_of_string id) in
        (if i >= 0 && poll_state i = `Wait then
           (if do_event (Push.EPoll (nat i, nat 0)) then
              (settle_hb (); match poll_state i with `Done x -> emit (pres_str x) | _ -> emit "?")
            else emit "X")
         else emit "dis");
        go r
    | "H" :: r ->
        let fired = ref 0 in
        for i = 0 to nworks () - 1 do
          match (work i).Push.wf, (work i).Push.wsub with
          | Push.WHb (_, _, Push.HbWait), None ->
              if do_event (Push.EWork (nat i, nat 0)) then ()
              else if do_event (Push.EWork (nat i, nat 1)) then (incr fired; run_work i 10000)
          | _ -> ()
        done;
        settle_hb (); emit (string_of_int !fired); go r
    (* low level *)
    | "sS" :: id :: t :: r -> emit ("w" ^ string_of_int (spawn_work (Push.OSub (n id, n t)))); go r
    | "sU" :: id :: t :: r -> emit ("w" ^ string_of_int (spawn_work (Push.OUnsub (n id, n t)))); go r
    | "sP1" :: t :: m :: id :: r -> emit ("w" ^ string_of_int (spawn_work (Push.OUni (n t, z_of_string m, n id)))); go r
    | "sPM" :: t :: m :: l :: r -> emit ("w" ^ string_of_int (spawn_work (Push.OMulti (n t, z_of_string m, ids_of l)))); go r
    | "sPB" :: t :: m :: r -> emit ("w" ^ string_of_int (spawn_work (Push.OBcast (n t, z_of_string m)))); go r
    | "sL" :: id :: r ->
        (match spawn (Push.OPoll (n id)) with `Poll i -> emit ("p" ^ string_of_int i) | _ -> emit "!"); go r
    | "w" :: i :: k :: r ->
        let ok = ref true in
        for _ = 1 to int_of_string k do if not (do_event (Push.EWork (n i, nat 0))) then ok := false done;
        emit (if !ok then "ok" else "dis"); go r
    | "p" :: i :: k :: r ->
        let ok = ref true in
        for _ = 1 to int_of_string k do if not (do_event (Push.EPoll (n i, nat 0))) then ok := false done;
        emit (if !ok then "ok" else "dis"); go r
    | "pt" :: i :: r -> emit (if do_event (Push.EPoll (n i, nat 1)) then "ok" else "dis"); go r
    | "hbs" :: r -> settle_hb (); emit "ok"; go r
    | "wd" :: i :: r -> run_work (int_of_string i) 10000; emit (work_result (int_of_string i)); go r
    | "pd" :: i :: r -> emit (run_poll (int_of_string i) 10000); go r
    | "wr" :: i :: r -> emit (work_result (int_of_string i)); go r
    | "pr" :: i :: r ->
        emit (match poll_state (int_of_string i) with `Done x -> pres_str x | `Wait | `TimedOut -> "W" | `Run -> "run"); go r
    | "hz" :: r -> emit (if !hazard_seen then "1" else "0"); go r
    | tok :: _ -> failwith ("c19: bad token " ^ tok) in
  go toks0;
  Buffer.add_string out ("| hz=" ^ (if !hazard_seen then "1" else "0") ^ " " ^ summary ());
  String.trim (Buffer.contents out)

let () = register "main" run
