(* C20 driver. input: threshold recover mock(0/1) then triples n0 n1 o(O|E|P)
   output: one letter per call (B M O E P), then " fail=<n> last=<n> spec=<C k|O since>" *)
open Common

let outcome_of = function
  | "O" -> Breaker.OOk | "E" -> Breaker.OErr | "P" -> Breaker.OPanic
  | s -> failwith ("outcome " ^ s)

let letter_of_outcome = function Breaker.OOk -> "O" | Breaker.OErr -> "E" | Breaker.OPanic -> "P"

let run line =
  match split_ws line with
  | th :: rc :: mk :: rest ->
    let c = { Breaker.threshold = z_of_string th; recover = z_of_string rc; has_mock = (mk = "1") } in
    let rec evs = function
      | a :: b :: o :: r -> ((z_of_string a, z_of_string b), outcome_of o) :: evs r
      | [] -> []
      | _ -> failwith "c20: bad triple" in
    let h = evs rest in
    let (rs, s) = Breaker.run c Breaker.init h in
    let (ds, _) = Breaker.run_dec c Breaker.init h in
    let (sds, sp) = Breaker.spec_run c (Breaker.abs c Breaker.init) h in
    let letters = String.concat "" (Stdlib.List.map (function
      | Breaker.RBreak -> "B" | Breaker.RMock -> "M" | Breaker.RDown o -> letter_of_outcome o) rs) in
    let spec_agrees = (ds = sds) && (sp = Breaker.abs c s) in
    Printf.sprintf "%s fail=%s last=%s specagree=%b" letters
      (string_of_z s.Breaker.fail) (string_of_z s.Breaker.last) spec_agrees
  | _ -> failwith "c20: bad line"

(* concurrent scripts, run through the LTS [Breaker.cstep].
   input: "S threshold recover mock" then tokens:  s <o> <now> | r <thread index> <now> | p <o> <now>
   output: one token per step: start -> F (forwarded, now held) / B / M ; release -> outcome letter (or - if it
   had been rejected) ; probe -> B / M / outcome letter *)
let run_script toks =
  match toks with
  | th :: rc :: mk :: rest ->
    let c = { Breaker.threshold = z_of_string th; recover = z_of_string rc; has_mock = (mk = "1") } in
    let cs = ref { Breaker.shared = Breaker.init; threads = [] } in
    let nthreads = ref 0 in
    let rej () = if c.Breaker.has_mock then "M" else "B" in
    let pc_of i = (Stdlib.List.nth (!cs).Breaker.threads i).Breaker.tpc in
    let step i now = match Breaker.cstep c !cs (nat_of_int i) now with
      | Some cs' -> cs := cs' | None -> failwith "disabled step" in
    let rec to_hold i now = match pc_of i with
      | Breaker.PCallNext | Breaker.PDone _ -> ()
      | _ -> step i now; to_hold i now in
    let rec to_done i now = match pc_of i with
      | Breaker.PDone _ -> ()
      | _ -> step i now; to_done i now in
    let result i = match pc_of i with
      | Breaker.PDone Breaker.Rejected -> rej ()
      | Breaker.PDone (Breaker.Forwarded o) -> letter_of_outcome o
      | _ -> "F" in
    let out = Buffer.create 64 in
    let rec go = function
      | "s" :: o :: now :: r ->
          cs := { !cs with Breaker.threads = (!cs).Breaker.threads @ [ { Breaker.tpc = Breaker.PStart; tout = outcome_of o } ] };
          let i = !nthreads in incr nthreads;
          to_hold i (z_of_string now); Buffer.add_string out (result i ^ " "); go r
      | "r" :: i :: now :: r ->
          let i = int_of_string i in
          (match pc_of i with
           | Breaker.PDone _ -> Buffer.add_string out "- "
           | _ -> to_done i (z_of_string now); Buffer.add_string out (result i ^ " "));
          go r
      | "p" :: o :: now :: r ->
          cs := { !cs with Breaker.threads = (!cs).Breaker.threads @ [ { Breaker.tpc = Breaker.PStart; tout = outcome_of o } ] };
          let i = !nthreads in incr nthreads;
          to_done i (z_of_string now); Buffer.add_string out (result i ^ " "); go r
      | [] -> ()
      | _ -> failwith "c20 script: bad token" in
    go rest;
    String.trim (Buffer.contents out)
  | _ -> failwith "c20 script: bad header"

let run_any line =
  match split_ws line with
  | "S" :: rest -> run_script rest
  | _ -> run line

let () = register "main" run_any
