(* C20 driver. input: threshold recover mock(0/1) then triples n0 n1 o(O|E|P)
   output: one letter per call (B M O E P), then " fail=<n> last=<n> spec=<C k|O since>" *)
open Common

let outcome_of = function
  | "O" -> Breaker.OOk | "E" -> Breaker.OErr | "P" -> Breaker.OPanic
  | s -> failwith ("outcome " ^ s)

let letter_of_outcome = function Breaker.OOk -> "O" | Breaker.OErr -> "E" | Breaker.OPanic -> "P"

let run line =
  match split_ws line with
  | th :: rc :: mk :: rest ->
    let c = { Breaker.threshold = z_of_string th; recover = z_of_string rc; has_mock = (mk = "1") } in
    let rec evs = function
      | a :: b :: o :: r -> ((z_of_string a, z_of_string b), outcome_of o) :: evs r
      | [] -> []
      | _ -> failwith "c20: bad triple" in
    let h = evs rest in
    let (rs, s) = Breaker.run c Breaker.init h in
    let (ds, _) = Breaker.run_dec c Breaker.init h in
    let (sds, sp) = Breaker.spec_run c (Breaker.abs c Breaker.init) h in
    let letters = String.concat "" (Stdlib.List.map (function
      | Breaker.RBreak -> "B" | Breaker.RMock -> "M" | Breaker.RDown o -> letter_of_outcome o) rs) in
    let spec_agrees = (ds = sds) && (sp = Breaker.abs c s) in
    Printf.sprintf "%s fail=%s last=%s specagree=%b" letters
      (string_of_z s.Breaker.fail) (string_of_z s.Breaker.last) spec_agrees
  | _ -> failwith "c20: bad line"

let () = register "main" run
