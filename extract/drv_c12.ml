(* C12 driver: one command per line, one answer per line.  Byte strings are lower-case hex,
   "-" is the empty string.  sides: S<max> (server with MaxRequestLength max) or C (client).
     crc <hex>                      -> decimal CRC-32
     flip <k> <hex>                 -> hex with bit k flipped (bit k mod 8 of byte k/8, LSB = 0)
     smake <len> <idx> | umake <len> <idx> | wmake <idx>      -> header hex
     sparse <hex12> | uparse <hex8> -> "<len> <idx> <ok>" | none
     srecv <side> <hexstream>       -> "<idx>:<hex>,...|<end>"
     urun <side> <hex> <hex> ...    -> one result per datagram (server: one buffer across them,
                                       client: fresh zero buffer each)
     ufixed <side> <hex> ...        -> same through the proposed fixed loop (one buffer)
     usend <idx> <hex>              -> datagram hex | panic
     wrecv <side> <hex>             -> panic | bad | toolarge:<idx> | D:<idx>:<hex> | E:<hex>
     hrecv <side> <declared> <hex>  -> toolarge | D:<hex> | error
     hfixed S<max> <declared> <hex> -> same through the server loop that refuses short bodies
     hlim S<max> <declared> <hex>   -> same through the loop that also reads through a limit reader of max+1
     utransport <idx> <hex>         -> datagram hex | refused | panic      (client conn.Transport + send)
     ureply <idx> <hex>             -> the server's answer datagram (error frame when it does not fit)
     cidx udp|sock <counter>        -> the index the client frames for that counter value *)
open Common

let byte_tab : Byte.byte array =
  Array.init 256 (fun i -> match Byte0.of_N (n_of_int i) with Some b -> b | None -> failwith "byte_tab")

let int_of_byte (b : Byte.byte) : int = int_of_n (Byte0.to_N b)

let hexval c =
  match c with
  | '0'..'9' -> Char.code c - 48
  | 'a'..'f' -> Char.code c - 87
  | 'A'..'F' -> Char.code c - 55
  | _ -> failwith "hex digit"

let bytes_of_hex (s : string) : Byte.byte list =
  if s = "-" then [] else begin
    let n = String.length s in
    if n mod 2 <> 0 then failwith "odd hex";
    let acc = ref [] in
    let i = ref (n - 2) in
    while !i >= 0 do
      acc := byte_tab.(hexval s.[!i] * 16 + hexval s.[!i + 1]) :: !acc;
      i := !i - 2
    done;
    !acc
  end

let hex_of_bytes (l : Byte.byte list) : string =
  match l with
  | [] -> "-"
  | _ ->
    let buf = Buffer.create 64 in
    Stdlib.List.iter (fun b -> Buffer.add_string buf (Printf.sprintf "%02x" (int_of_byte b))) l;
    Buffer.contents buf

let side_of (s : string) : Frame.side =
  if s = "C" then Frame.Client
  else if String.length s > 1 && s.[0] = 'S' then
    Frame.Server (z_of_string (String.sub s 1 (String.length s - 1)))
  else failwith ("side " ^ s)

let triple = function
  | None -> "none"
  | Some ((len, idx), ok) -> Printf.sprintf "%s %s %b" (string_of_z len) (string_of_z idx) ok

let stream_end = function
  | Frame.EndEOF -> "eof"
  | Frame.EndShortHeader -> "shorthdr"
  | Frame.EndBadHeader -> "badhdr"
  | Frame.EndTooLarge i -> "toolarge:" ^ string_of_z i
  | Frame.EndShortBody (i, d, g) -> Printf.sprintf "shortbody:%s:%s:%d" (string_of_z i) (string_of_z d) (int_of_nat g)
  | Frame.EndErrorFrame b -> "errframe:" ^ hex_of_bytes b
  | Frame.EndUnreachable -> "unreach"
  | Frame.OutOfFuel -> "fuel"

let dgram = function
  | Frame.DShort -> "short"
  | Frame.DBadHeader -> "bad"
  | Frame.DTooLarge i -> "toolarge:" ^ string_of_z i
  | Frame.DDeliver (i, b) -> "D:" ^ string_of_z i ^ ":" ^ hex_of_bytes b
  | Frame.DErrorFrame b -> "E:" ^ hex_of_bytes b
  | Frame.DUnreachable -> "unreach"

let rec fixed_run sd buf ds =
  match ds with
  | [] -> []
  | d :: r -> let (buf', res) = Frame.udp_step_fixed sd buf d in res :: fixed_run sd buf' r

let run line =
  match split_ws line with
  | ["crc"; h] -> string_of_z (BinInt.Z.of_N (Crc32.crc32 (bytes_of_hex h)))
  | ["flip"; k; h] -> hex_of_bytes (Crc32.flip_bit (nat_of_int (int_of_string k)) (bytes_of_hex h))
  | ["smake"; l; i] -> hex_of_bytes (Frame.sock_make_header (z_of_string l) (z_of_string i))
  | ["umake"; l; i] -> hex_of_bytes (Frame.udp_make_header (z_of_string l) (z_of_string i))
  | ["wmake"; i] -> hex_of_bytes (Frame.ws_make_header (z_of_string i))
  | ["sparse"; h] -> triple (Frame.sock_parse_header (bytes_of_hex h))
  | ["uparse"; h] -> triple (Frame.udp_parse_header (bytes_of_hex h))
  | ["srecv"; sd; h] ->
    let (ds, e) = Frame.recv_frames (side_of sd) (bytes_of_hex h) in
    String.concat "," (Stdlib.List.map (fun (i, b) -> string_of_z i ^ ":" ^ hex_of_bytes b) ds)
    ^ "|" ^ stream_end e
  | "urun" :: sd :: ds ->
    let ds = Stdlib.List.map bytes_of_hex ds in
    let rs = (match side_of sd with
      | Frame.Client -> Stdlib.List.map Frame.udp_client_recv ds
      | s -> Frame.udp_run s Frame.udp_zero_buffer ds) in
    String.concat " " (Stdlib.List.map dgram rs)
  | "ufixed" :: sd :: ds ->
    let ds = Stdlib.List.map bytes_of_hex ds in
    String.concat " " (Stdlib.List.map dgram (fixed_run (side_of sd) Frame.udp_zero_buffer ds))
  | ["usend"; i; h] ->
    (match Frame.udp_send Frame.coq_UDP_BUFFER (z_of_string i) (bytes_of_hex h) with
     | Frame.Sent d -> hex_of_bytes d
     | Frame.SendPanic -> "panic")
  | ["wrecv"; sd; h] ->
    (match Frame.ws_recv (side_of sd) (bytes_of_hex h) with
     | Frame.WPanic -> "panic"
     | Frame.WBadHeader -> "bad"
     | Frame.WTooLarge i -> "toolarge:" ^ string_of_z i
     | Frame.WDeliver (i, b) -> "D:" ^ string_of_z i ^ ":" ^ hex_of_bytes b
     | Frame.WErrorFrame b -> "E:" ^ hex_of_bytes b)
  | ["hrecv"; sd; d; h] ->
    let r = (match side_of sd with
      | Frame.Client -> Frame.http_client_recv (z_of_string d) (bytes_of_hex h)
      | Frame.Server max -> Frame.http_server_recv max (z_of_string d) (bytes_of_hex h)) in
    (match r with
     | Frame.HTooLarge -> "toolarge"
     | Frame.HDeliver b -> "D:" ^ hex_of_bytes b
     | Frame.HError -> "error")
  | ["hfixed"; sd; d; h] ->
    (match side_of sd with
     | Frame.Server max ->
       (match Frame.http_server_recv_fixed max (z_of_string d) (bytes_of_hex h) with
        | Frame.HTooLarge -> "toolarge"
        | Frame.HDeliver b -> "D:" ^ hex_of_bytes b
        | Frame.HError -> "error")
     | Frame.Client -> failwith "hfixed: server only")
  | ["hlim"; sd; d; h] ->
    (match side_of sd with
     | Frame.Server max ->
       (match Frame.http_server_recv_limited max (z_of_string d) (bytes_of_hex h) with
        | Frame.HTooLarge -> "toolarge"
        | Frame.HDeliver b -> "D:" ^ hex_of_bytes b
        | Frame.HError -> "error")
     | Frame.Client -> failwith "hlim: server only")
  | ["utransport"; i; h] ->
    (match Frame.udp_transport Frame.coq_UDP_BUFFER (z_of_string i) (bytes_of_hex h) with
     | Frame.TSent d -> hex_of_bytes d
     | Frame.TRefused -> "refused"
     | Frame.TPanic -> "panic")
  | ["ureply"; i; h] -> hex_of_bytes (Frame.udp_reply Frame.coq_UDP_BUFFER (z_of_string i) (bytes_of_hex h))
  | ["cidx"; "udp"; c] -> string_of_z (Frame.client_index Frame.coq_UDP_INDEX_MASK (z_of_string c))
  | ["cidx"; "sock"; c] -> string_of_z (Frame.client_index Frame.coq_SOCK_INDEX_MASK (z_of_string c))
  | _ -> failwith ("c12: bad line: " ^ (if String.length line > 60 then String.sub line 0 60 else line))

let () = register "main" run
