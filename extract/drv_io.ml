(* io driver.  input line:  <mode: simple|ref> <go output hex or -> <sexp of the case>
   output: key=value fields, see [run]. *)
open Common

(* ---- bytes ---- *)
let byte_tab : Byte.byte array =
  Array.init 256 (fun i -> match Byte0.of_N (n_of_int i) with Some b -> b | None -> failwith "byte")
let int_of_byte (b : Byte.byte) : int = int_of_n (Byte0.to_N b)

let bytes_of_hex (s : string) : Byte.byte list =
  let n = String.length s / 2 in
  let rec go i acc = if i < 0 then acc else
    go (i - 1) (byte_tab.(int_of_string ("0x" ^ String.sub s (2 * i) 2)) :: acc) in
  go (n - 1) []

let hex_of_bytes (l : Byte.byte list) : string =
  let b = Buffer.create 64 in
  Stdlib.List.iter (fun x -> Buffer.add_string b (Printf.sprintf "%02x" (int_of_byte x))) l;
  Buffer.contents b

(* ---- S-expressions ---- *)
type sx = A of string | L of sx list

let parse_sx (s : string) : sx =
  let n = String.length s in
  let pos = ref 0 in
  let rec skip () = if !pos < n && s.[!pos] = ' ' then (incr pos; skip ()) in
  let rec one () =
    skip ();
    if !pos >= n then failwith "sexp: eof";
    if s.[!pos] = '(' then begin
      incr pos;
      let items = ref [] in
      let rec loop () =
        skip ();
        if !pos >= n then failwith "sexp: unclosed";
        if s.[!pos] = ')' then incr pos
        else (items := one () :: !items; loop ()) in
      loop ();
      L (Stdlib.List.rev !items)
    end else begin
      let st = !pos in
      while !pos < n && s.[!pos] <> ' ' && s.[!pos] <> '(' && s.[!pos] <> ')' do incr pos done;
      A (String.sub s st (!pos - st))
    end in
  one ()

let xbytes = function
  | A t when String.length t >= 1 && t.[0] = 'x' -> bytes_of_hex (String.sub t 1 (String.length t - 1))
  | _ -> failwith "sexp: expected x<hex>"

let ikind = function
  | "KInt" -> Enc.KInt | "KInt8" -> Enc.KInt8 | "KInt16" -> Enc.KInt16 | "KInt32" -> Enc.KInt32
  | "KInt64" -> Enc.KInt64 | "KUint" -> Enc.KUint | "KUint8" -> Enc.KUint8 | "KUint16" -> Enc.KUint16
  | "KUint32" -> Enc.KUint32 | "KUint64" -> Enc.KUint64 | "KUintptr" -> Enc.KUintptr
  | s -> failwith ("ikind " ^ s)

let fval = function
  | L [A "f"; A "nan"] -> Enc.FNaN
  | L [A "f"; A "inf"; A n] -> Enc.FInf (n = "1")
  | L [A "f"; A "fin"; t] -> Enc.FFin (xbytes t)
  | _ -> failwith "fval"

let rec gval (s : sx) : Enc.gval =
  match s with
  | L [A "nil"] -> Enc.GNil
  | L [A "bool"; A b] -> Enc.GBool (b = "1")
  | L [A "int"; A k; A z] -> Enc.GInt (ikind k, z_of_string z)
  | L (A "f" :: _) -> Enc.GFloat (fval s)
  | L [A "cx"; re; im; A z] -> Enc.GComplex (fval re, fval im, z = "1")
  | L [A "str"; t] -> Enc.GString (xbytes t)
  | L [A "bytes"; t] -> Enc.GBytes (xbytes t)
  | L (A "b2d" :: rows) ->
      Enc.GBytes2d (Stdlib.List.map (function A "nil" -> None | t -> Some (xbytes t)) rows)
  | L (A "slice" :: vs) -> Enc.GSlice (Stdlib.List.map gval vs)
  | L (A "list" :: vs) -> Enc.GList (Stdlib.List.map gval vs)
  | L (A "map" :: vs) -> Enc.GMap (Stdlib.List.map gval vs)
  | L (A "struct" :: name :: L (A "fields" :: fs) :: vs) ->
      Enc.GStruct (xbytes name, Stdlib.List.map xbytes fs, Stdlib.List.map gval vs)
  | L (A "anon" :: L (A "fields" :: fs) :: vs) ->
      Enc.GAnon (Stdlib.List.map xbytes fs, Stdlib.List.map gval vs)
  | L [A "time"; A y; A mo; A d; A h; A mi; A sec; A ns; A utc] ->
      Enc.GTime (z_of_string y, z_of_string mo, z_of_string d, z_of_string h, z_of_string mi,
                 z_of_string sec, z_of_string ns, utc = "1")
  | L [A "uuid"; t] -> Enc.GUuid (xbytes t)
  | L [A "bigint"; A z] -> Enc.GBigInt (z_of_string z)
  | L [A "bigfloat"; t] -> Enc.GBigFloat (xbytes t)
  | L [A "bigrat"; A "int"; A z] -> Enc.GBigRat (Some (z_of_string z), [])
  | L [A "bigrat"; A "frac"; t] -> Enc.GBigRat (None, xbytes t)
  | L [A "err"; t] -> Enc.GError (xbytes t)
  | L [A "ptr"; A a] -> Enc.GPtr (n_of_int (int_of_string a))
  | _ -> failwith "gval: unknown form"

let case_of (s : sx) =
  match s with
  | L [A "case"; L (A "heap" :: cells); root] ->
      let hp = Stdlib.List.map (function
        | L [A a; v] -> (n_of_int (int_of_string a), gval v)
        | _ -> failwith "heap cell") cells in
      (hp, gval root)
  | _ -> failwith "case"

(* ---- rendering denotations canonically (map entries sorted) ---- *)
let rec render (d : WireSem.dval) : string =
  let nl l = String.concat "," (Stdlib.List.map (fun n -> string_of_int (int_of_n n)) l) in
  match d with
  | WireSem.DNull -> "null"
  | WireSem.DBool b -> if b then "true" else "false"
  | WireSem.DInt z -> "i" ^ string_of_z z
  | WireSem.DDouble t -> "d:" ^ hex_of_bytes t
  | WireSem.DNaN -> "nan"
  | WireSem.DInf n -> if n then "-inf" else "+inf"
  | WireSem.DStr s -> "s:" ^ hex_of_bytes s
  | WireSem.DBytes b -> "b:" ^ hex_of_bytes b
  | WireSem.DGuid g -> "g:" ^ hex_of_bytes g
  | WireSem.DDate (y, mo, dd, tm, utc) ->
      Printf.sprintf "D%d-%d-%d%s%s" (int_of_n y) (int_of_n mo) (int_of_n dd)
        (match tm with None -> "" | Some (((h, mi), s), fr) ->
           Printf.sprintf "T%d:%d:%d.[%s]" (int_of_n h) (int_of_n mi) (int_of_n s) (nl fr))
        (if utc then "Z" else "L")
  | WireSem.DTime (h, mi, s, fr, utc) ->
      Printf.sprintf "T%d:%d:%d.[%s]%s" (int_of_n h) (int_of_n mi) (int_of_n s) (nl fr) (if utc then "Z" else "L")
  | WireSem.DList vs -> "[" ^ String.concat " " (Stdlib.List.map render vs) ^ "]"
  | WireSem.DMap kvs ->
      let rec pairs = function
        | k :: v :: r -> (render k ^ "=>" ^ render v) :: pairs r
        | _ -> [] in
      "{" ^ String.concat " " (Stdlib.List.sort compare (pairs kvs)) ^ "}"
  | WireSem.DObj (name, fields, vs) ->
      "obj:" ^ hex_of_bytes name ^ "(" ^
      String.concat " " (Stdlib.List.map2 (fun f v -> hex_of_bytes f ^ "=" ^ render v) fields vs) ^ ")"
  | WireSem.DErr v -> "E(" ^ render v ^ ")"
  | WireSem.DCycle up -> "cycle^" ^ string_of_int (int_of_nat up)

(* Two denotations of one cyclic value can differ in WHERE a cycle is closed: which occurrence of a shared node
   is spelled out and which is a cycle^n marker depends on the order in which the entries of a Go map happen to be
   written.  [unfold] renders the regular tree a denotation stands for, down to a fixed depth, resolving every
   cycle marker against the stack of enclosing containers; equal trees have equal unfoldings (map entries sorted).
   Used only when the plain renderings differ.  None: too large to decide this way. *)
exception Too_big
type frame = F of WireSem.dval * frame list
let unfold (d0 : WireSem.dval) : string option =
  let budget = ref 400000 in
  let out s = budget := !budget - String.length s; if !budget < 0 then raise Too_big; s in
  let rec go depth stack d =
    if depth = 0 then "~" else
    match d with
    | WireSem.DCycle up ->
        let k = int_of_nat up in
        (match Stdlib.List.nth_opt stack (k - 1) with
         | Some (F (c, s)) -> go (depth - 1) s c
         | None -> out "cycle?")
    | WireSem.DList vs ->
        let st = F (d, stack) :: stack in
        out ("[" ^ String.concat " " (Stdlib.List.map (go (depth - 1) st) vs) ^ "]")
    | WireSem.DMap kvs ->
        let st = F (d, stack) :: stack in
        let rec pairs = function
          | k :: v :: r -> (go (depth - 1) st k ^ "=>" ^ go (depth - 1) st v) :: pairs r
          | _ -> [] in
        out ("{" ^ String.concat " " (Stdlib.List.sort compare (pairs kvs)) ^ "}")
    | WireSem.DObj (name, fields, vs) ->
        let st = F (d, stack) :: stack in
        out ("obj:" ^ hex_of_bytes name ^ "(" ^
             String.concat " " (Stdlib.List.map2 (fun f v -> hex_of_bytes f ^ "=" ^ go (depth - 1) st v) fields vs) ^ ")")
    | WireSem.DErr v -> out ("E(" ^ go (depth - 1) (F (d, stack) :: stack) v ^ ")")
    | _ -> out (render d) in
  try Some (go 14 [] d0) with Too_big -> None

(* equal as written, or equal as the trees they stand for *)
let same_denotation (d : WireSem.dval) (a : WireSem.dval) : bool =
  render d = render a ||
  (match unfold d, unfold a with Some x, Some y -> x = y | _ -> false)

let fuel = nat_of_int 100000

let cut s = if String.length s > 300 then String.sub s 0 300 ^ "..." else s

let run line =
  let sp1 = String.index line ' ' in
  let mode = String.sub line 0 sp1 in
  let sp2 = String.index_from line (sp1 + 1) ' ' in
  let gohex = String.sub line (sp1 + 1) (sp2 - sp1 - 1) in
  let sexp = String.sub line (sp2 + 1) (String.length line - sp2 - 1) in
  let (hp, root) = case_of (parse_sx sexp) in
  let simple = (mode = "simple") in
  let b = Buffer.create 256 in
  let add k v = Buffer.add_string b (k ^ "=" ^ v ^ " ") in
  (* the encoder model *)
  (match Enc.enc simple hp fuel Enc.einit root with
   | Enc.EOk (_, w) ->
       let mb = Wire.emit w in
       add "model" "ok"; add "model_hex" (hex_of_bytes mb);
       add "model_tok" (if Wire.tok_ok w then "1" else "0");
       (match WireSem.denote_top w with
        | Some d -> add "model_den" "ok";
            (match Abs.abs_top hp fuel root with
             | Some a -> add "model_den_eq_abs" (if render d = render a then "1" else "0")
             | None -> add "model_den_eq_abs" "noabs")
        | None -> add "model_den" "fail")
   | Enc.EPanic site -> add "model" ("panic" ^ string_of_int (int_of_n site))
   | Enc.EFuel -> add "model" "fuel");
  (* the implementation's bytes read by the proved reader *)
  if gohex <> "-" then begin
    let gb = bytes_of_hex gohex in
    (match Wire.parse_all gb with
     | Some w ->
         add "go_parse" "ok"; add "go_tok" (if Wire.tok_ok w then "1" else "0");
         (match WireSem.denote_top w with
          | Some d ->
              add "go_den" "ok";
              (match Abs.abs_top hp fuel root with
               | Some a ->
                   let rd = render d and ra = render a in
                   if same_denotation d a then add "go_den_eq_abs" "1"
                   else (add "go_den_eq_abs" "0"; add "go_den_txt" (cut rd); add "abs_txt" (cut ra);
                         (* cycle markers are relative to the position of an occurrence: when a node of a cycle is also
                            reached from elsewhere, WHICH occurrence is spelled out depends on the order of map entries *)
                         let has_cycle t = let n = String.length t in
                           let rec f i = i + 6 <= n && (String.sub t i 6 = "cycle^" || f (i + 1)) in f 0 in
                         if has_cycle rd || has_cycle ra then add "den_cyclic" "1")
               | None -> add "go_den_eq_abs" "noabs")
          | None -> add "go_den" "fail")
     | None -> add "go_parse" "fail")
  end;
  Buffer.contents b

(* sequences: "seq\t<mode>\t<go hex>\t<step>\t<step>..." with step = "reset" | sexp of a case (Encode) | "write:" ^ sexp (Write).
   The encoder state is threaded through the values and reset where the script says; the reader's
   reference/class tables are threaded over each segment in the same way. *)
let run_seq line =
  match String.split_on_char '\t' line with
  | _ :: mode :: gohex :: steps ->
    let simple = (mode = "simple") in
    let b = Buffer.create 256 in
    let add k v = Buffer.add_string b (k ^ "=" ^ v ^ " ") in
    let st = ref Enc.einit in
    let model_bytes = Buffer.create 256 in
    let segments = ref [] and cur = ref [] in   (* per segment: list of (expected abs option) in order *)
    let ok = ref true in
    Stdlib.List.iter (fun step ->
      if step = "reset" then (st := Enc.einit; segments := Stdlib.List.rev !cur :: !segments; cur := [])
      else begin
        let is_write = String.length step > 6 && String.sub step 0 6 = "write:" in
        let step = if is_write then String.sub step 6 (String.length step - 6) else step in
        let (hp, root) = case_of (parse_sx step) in
        (match (if is_write then Enc.enc_write simple hp fuel !st root else Enc.enc simple hp fuel !st root) with
         | Enc.EOk (st', w) -> st := st'; Buffer.add_string model_bytes (hex_of_bytes (Wire.emit w))
         | _ -> ok := false);
        cur := (Abs.abs_top hp fuel root) :: !cur
      end) steps;
    segments := Stdlib.List.rev (Stdlib.List.rev !cur :: !segments);
    add "model" (if !ok then "ok" else "fail");
    add "model_hex" (Buffer.contents model_bytes);
    if gohex <> "-" then begin
      let gb = bytes_of_hex gohex in
      let nvals = Stdlib.List.fold_left (fun a seg -> a + Stdlib.List.length seg) 0 !segments in
      (match Wire.parse_seq (nat_of_int (nvals + 1)) gb with
       | Some ws when Stdlib.List.length ws = nvals ->
           add "go_parse" "ok";
           add "go_tok" (if Stdlib.List.for_all Wire.tok_ok ws then "1" else "0");
           (* split the parsed values over the segments and denote each segment with shared tables *)
           let rest = ref ws and all_eq = ref true and den_ok = ref true in
           Stdlib.List.iter (fun seg ->
             let n = Stdlib.List.length seg in
             let rec take k l = if k = 0 then ([], l) else (match l with x :: r -> let (a, c) = take (k - 1) r in (x :: a, c) | [] -> ([], [])) in
             let (mine, others) = take n !rest in
             rest := others;
             (match WireSem.denote_seq WireSem.rinit mine with
              | Some ds ->
                  Stdlib.List.iter2 (fun d a -> match a with
                    | Some a -> if not (same_denotation d a) then all_eq := false
                    | None -> all_eq := false) ds seg
              | None -> den_ok := false)) !segments;
           add "go_den" (if !den_ok then "ok" else "fail");
           add "go_den_eq_abs" (if !den_ok && !all_eq then "1" else "0")
       | Some ws -> add "go_parse" ("count" ^ string_of_int (Stdlib.List.length ws))
       | None -> add "go_parse" "fail")
    end;
    Buffer.contents b
  | _ -> failwith "seq: bad line"

let run_any line =
  if String.length line > 4 && String.sub line 0 4 = "seq\t" then run_seq line else run line

let () = register "main" run_any
