#!/bin/sh
# usage: build.sh <name>     e.g. build.sh c20
# Extracts coq/Extract/<NAME>.v (upper-cased name) in build/extract/<name> and links
# build/bin/modelrun-<name> from the extracted modules + common.ml + drv_<name>.ml + main.ml.
set -e
V=/verif
n=$1
N=$(echo "$n" | tr a-z A-Z)
B=$V/build/extract/$n
mkdir -p $B $V/build/bin
cd $B
rm -f *.ml *.mli *.cm* *.o
coqc -w -all -Q $V/coq HV -o $B/$N.vo $V/coq/Extract/$N.v > extract.log 2>&1 || { cat extract.log; exit 1; }
cp $V/extract/common.ml $V/extract/main.ml $V/extract/drv_$n.ml .
EXTRACTED=$(ls *.ml | grep -v -e '^common.ml$' -e '^drv_' -e '^main.ml$')
ORDER=$(ocamlfind ocamldep -sort $EXTRACTED $(ls *.mli))
ocamlfind ocamlopt -w -a -o $V/build/bin/modelrun-$n $ORDER common.ml drv_$n.ml main.ml > build.log 2>&1 || { cat build.log; exit 1; }
