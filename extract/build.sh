#!/bin/sh
# Extract the models and build build/bin/modelrun.  Run from anywhere.
set -e
V=/verif
B=$V/build/extract
mkdir -p $B $V/build/bin
cd $B
rm -f *.ml *.mli *.cm* *.o
coqc -w -all -Q $V/coq HV $V/coq/Extract/Extract.v > extract.log 2>&1 || { cat extract.log; exit 1; }
cp $V/extract/*.ml .
EXTRACTED=$(ls *.ml | grep -v -e '^common.ml$' -e '^drv_' -e '^main.ml$')
ORDER=$(ocamlfind ocamldep -sort $EXTRACTED $(ls *.mli))
ML=$(for f in $ORDER; do case $f in *.ml) echo $f;; esac; done)
MLI=$(for f in $ORDER; do case $f in *.mli) echo $f;; esac; done)
ocamlfind ocamlopt -w -a -O2 -o $V/build/bin/modelrun $MLI $ML common.ml $(ls drv_*.ml) main.ml 2>build.log || \
ocamlfind ocamlopt -w -a -o $V/build/bin/modelrun $ORDER common.ml $(ls drv_*.ml) main.ml > build.log 2>&1 || { cat build.log; exit 1; }
