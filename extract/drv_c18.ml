(* C18 driver.
   input : <lb> <n> <nw> <w_0> .. <w_nw-1> [@<x,y,..>] <event>*     lb in rr rand la wrr nginx wrand wla
           @<x,y,..> = start from this state (the balancer's fields in the order of m_obs) instead
                       of the freshly constructed one
           event = S<chosen>  (a call starts; <chosen> is the index the implementation picked)
                 | F<k><o>    (call number k returns from next with outcome o in O E P)
                 | C<n>       (the client's URL list now has n entries)
   output: CTOR-PANIC | CTOR-FUEL, or one token per event until the first failure:
           S:<model pick>:<admissible set a,b,..>:<state x,y,..>:<kind>/<arg of the rand call>
           F:<state>   C:<state>   PANIC  FUEL  BADSCRIPT
   second form: lb prefixed by "x:" and start events R<r> carrying the rand value itself
   (Balance.run_cfg); output: P:<picks a,b,..> or PANIC FUEL BADSCRIPT *)
open Common

let outcome_of = function
  | 'O' -> Balance.OOk | 'E' -> Balance.OErr | 'P' -> Balance.OPanic
  | c -> failwith (Printf.sprintf "outcome %c" c)

let tail t = String.sub t 1 (String.length t - 1)

let event_of (t : string) : Balance.oevent =
  let n = String.length t in
  if n >= 2 && t.[0] = 'S' then Balance.OStart (nat_of_int (int_of_string (tail t)))
  else if n >= 2 && t.[0] = 'C' then Balance.OConfig (nat_of_int (int_of_string (tail t)))
  else if n >= 3 && t.[0] = 'F' then
    Balance.OFinish (nat_of_int (int_of_string (String.sub t 1 (n - 2))), outcome_of t.[n - 1])
  else failwith ("c18: bad event " ^ t)

let revent_of (t : string) : Balance.cevent =
  let n = String.length t in
  if n >= 2 && t.[0] = 'R' then Balance.CEv (Balance.EStart (z_of_string (tail t)))
  else if n >= 2 && t.[0] = 'C' then Balance.CConfig (nat_of_int (int_of_string (tail t)))
  else if n >= 3 && t.[0] = 'F' then
    Balance.CEv (Balance.EFinish (nat_of_int (int_of_string (String.sub t 1 (n - 2))), outcome_of t.[n - 1]))
  else failwith ("c18: bad event " ^ t)

let csv f l = String.concat "," (Stdlib.List.map f l)

let show (o : Balance.step_obs Balance.res) : string =
  match o with
  | Balance.Ok so ->
    let st = csv string_of_z so.Balance.so_state in
    (match so.Balance.so_pick with
     | Some i -> Printf.sprintf "S:%d:%s:%s:%s/%s" (int_of_nat i)
                   (csv (fun k -> string_of_int (int_of_nat k)) so.Balance.so_adm) st
                   (string_of_z (fst so.Balance.so_draw)) (string_of_z (snd so.Balance.so_draw))
     | None -> "F:" ^ st)
  | Balance.Panic -> "PANIC"
  | Balance.OutOfFuel -> "FUEL"
  | Balance.BadScript -> "BADSCRIPT"

let go exact mk n s0 (toks : string list) =
  if exact then
    (match Balance.run_cfg mk n s0 [] (Stdlib.List.map revent_of toks) with
     | Balance.Ok (ps, _) -> "P:" ^ csv (fun p -> string_of_int (int_of_nat (fst p))) ps
     | Balance.Panic -> "PANIC" | Balance.OutOfFuel -> "FUEL" | Balance.BadScript -> "BADSCRIPT")
  else String.concat " " (Stdlib.List.map show (Balance.run_obs mk n s0 [] (Stdlib.List.map event_of toks)))

let rec take k l = if k = 0 then ([], l) else match l with
  | x :: r -> let (a, b) = take (k - 1) r in (x :: a, b)
  | [] -> failwith "c18: short line"

let zs_of (t : string) : BinNums.coq_Z list =
  Stdlib.List.map z_of_string (Stdlib.List.filter (fun x -> x <> "") (String.split_on_char ',' t))

let run line =
  match split_ws line with
  | lb :: n :: nw :: rest ->
    let ni = int_of_string n in
    let n = nat_of_int ni in
    let (ws, evs) = take (int_of_string nw) rest in
    let ws = Stdlib.List.map z_of_string ws in
    let k = Stdlib.List.length ws in
    let (init, evs) = match evs with
      | t :: r when String.length t >= 1 && t.[0] = '@' -> (Some (zs_of (tail t)), r)
      | _ -> (None, evs) in
    let exact = String.length lb > 2 && String.sub lb 0 2 = "x:" in
    let lb = if exact then String.sub lb 2 (String.length lb - 2) else lb in
    let go mk s0 = go exact mk n s0 evs in
    let split st = take k st in
    (match lb with
     | "rr" -> go Balance.rr_machine (match init with Some [x] -> x | Some _ -> failwith "c18: rr state" | None -> Balance.rr_init)
     | "rand" -> go Balance.rnd_machine ()
     | "la" -> go Balance.la_machine (match init with Some a -> a | None -> [])
     | "wrr" ->
       (match Balance.wrr_new ws with
        | Balance.Ok (c, s0) ->
          let s0 = (match init with
              | Some [i; cw] -> { Balance.wr_index = i; Balance.wr_cw = cw }
              | Some _ -> failwith "c18: wrr state" | None -> s0) in
          go (fun _ -> Balance.wrr_machine c) s0
        | Balance.OutOfFuel -> "CTOR-FUEL" | _ -> "CTOR-PANIC")
     | "nginx" ->
       (match Balance.ng_new ws with
        | Balance.Ok s0 ->
          let s0 = (match init with
              | Some st -> let (e, c) = split st in { Balance.ng_eff = e; Balance.ng_cur = c }
              | None -> s0) in
          go (fun _ -> Balance.ng_machine ws) s0
        | _ -> "CTOR-PANIC")
     | "wrand" ->
       (match Balance.mk_weighted ws with
        | Balance.Ok w -> go (fun _ -> Balance.wrand_machine w) (match init with Some e -> e | None -> w)
        | _ -> "CTOR-PANIC")
     | "wla" ->
       (match Balance.wla_new ws with
        | Balance.Ok s0 ->
          let s0 = (match init with
              | Some st -> let (a, e) = split st in { Balance.wl_act = a; Balance.wl_eff = e }
              | None -> s0) in
          go (fun _ -> Balance.wla_machine ws) s0
        | _ -> "CTOR-PANIC")
     | _ -> failwith ("c18: unknown balancer " ^ lb))
  | _ -> failwith "c18: bad line"

let () = register "main" run
