(* C18 driver.
   input : <lb> <n> <nw> <w_0> .. <w_nw-1> <event>*      lb in rr rand la wrr nginx wrand wla
           event = S<chosen>  (a call starts; <chosen> is the index the implementation picked)
                 | F<k><o>    (call number k returns from next with outcome o in O E P)
   output: CTOR-PANIC | CTOR-FUEL, or one token per event until the first failure:
           S:<model pick>:<admissible set a,b,..>:<state x,y,..>:<kind>/<arg of the rand call>
           F:<state>   PANIC  FUEL  BADSCRIPT
   second form: lb prefixed by "x:" and start events R<r> carrying the rand value itself (Balance.run);
   output: P:<picks a,b,..> or PANIC FUEL BADSCRIPT *)
open Common

let outcome_of = function
  | 'O' -> Balance.OOk | 'E' -> Balance.OErr | 'P' -> Balance.OPanic
  | c -> failwith (Printf.sprintf "outcome %c" c)

let event_of (t : string) : Balance.oevent =
  let n = String.length t in
  if n >= 2 && t.[0] = 'S' then Balance.OStart (nat_of_int (int_of_string (String.sub t 1 (n - 1))))
  else if n >= 3 && t.[0] = 'F' then
    Balance.OFinish (nat_of_int (int_of_string (String.sub t 1 (n - 2))), outcome_of t.[n - 1])
  else failwith ("c18: bad event " ^ t)

let rec list_of_coq = function [] -> [] | x :: r -> x :: list_of_coq r

let csv f l = String.concat "," (Stdlib.List.map f l)

let show (o : Balance.step_obs Balance.res) : string =
  match o with
  | Balance.Ok so ->
    let st = csv string_of_z so.Balance.so_state in
    (match so.Balance.so_pick with
     | Some i -> Printf.sprintf "S:%d:%s:%s:%s/%s" (int_of_nat i)
                   (csv (fun k -> string_of_int (int_of_nat k)) so.Balance.so_adm) st
                   (string_of_z (fst so.Balance.so_draw)) (string_of_z (snd so.Balance.so_draw))
     | None -> "F:" ^ st)
  | Balance.Panic -> "PANIC"
  | Balance.OutOfFuel -> "FUEL"
  | Balance.BadScript -> "BADSCRIPT"

let revent_of (t : string) : Balance.event =
  let n = String.length t in
  if n >= 2 && t.[0] = 'R' then Balance.EStart (z_of_string (String.sub t 1 (n - 1)))
  else if n >= 3 && t.[0] = 'F' then
    Balance.EFinish (nat_of_int (int_of_string (String.sub t 1 (n - 2))), outcome_of t.[n - 1])
  else failwith ("c18: bad event " ^ t)

let go exact m s0 (toks : string list) =
  if exact then
    (match Balance.run m s0 [] (Stdlib.List.map revent_of toks) with
     | Balance.Ok (ps, _) -> "P:" ^ csv (fun k -> string_of_int (int_of_nat k)) ps
     | Balance.Panic -> "PANIC" | Balance.OutOfFuel -> "FUEL" | Balance.BadScript -> "BADSCRIPT")
  else String.concat " " (Stdlib.List.map show (Balance.run_obs m s0 [] (Stdlib.List.map event_of toks)))

let rec take k l = if k = 0 then ([], l) else match l with
  | x :: r -> let (a, b) = take (k - 1) r in (x :: a, b)
  | [] -> failwith "c18: short line"

let run line =
  match split_ws line with
  | lb :: n :: nw :: rest ->
    let n = nat_of_int (int_of_string n) in
    let (ws, evs) = take (int_of_string nw) rest in
    let ws = Stdlib.List.map z_of_string ws in
    let exact = String.length lb > 2 && String.sub lb 0 2 = "x:" in
    let lb = if exact then String.sub lb 2 (String.length lb - 2) else lb in
    let go m s0 evs = go exact m s0 evs in
    (match lb with
     | "rr" -> go (Balance.rr_machine n) Balance.rr_init evs
     | "rand" -> go (Balance.rnd_machine n) () evs
     | "la" -> go (Balance.la_machine n) [] evs
     | "wrr" ->
       (match Balance.wrr_new ws with
        | Balance.Ok (c, s0) -> go (Balance.wrr_machine c) s0 evs
        | Balance.OutOfFuel -> "CTOR-FUEL" | _ -> "CTOR-PANIC")
     | "nginx" ->
       (match Balance.ng_new ws with
        | Balance.Ok s0 -> go (Balance.ng_machine ws) s0 evs
        | _ -> "CTOR-PANIC")
     | "wrand" ->
       (match Balance.mk_weighted ws with
        | Balance.Ok w -> go (Balance.wrand_machine w) w evs
        | _ -> "CTOR-PANIC")
     | "wla" ->
       (match Balance.wla_new ws with
        | Balance.Ok s0 -> go (Balance.wla_machine ws) s0 evs
        | _ -> "CTOR-PANIC")
     | _ -> failwith ("c18: unknown balancer " ^ lb))
  | _ -> failwith "c18: bad line"

let () = register "main" run
