(* C04 driver: the model's verdict for one input.
   input : <entry> <mode> <fixes> <checked> <hex> <shapes> [<kind>:<hex>:<0|1> ...]
     entry   U unmarshal | S service request | C client response
     mode    U: s (simple) | r (reference)     S: a (no missing method) | b (add + missing method)    C: -
     fixes   comma separated behavioural repairs present in the tree under test ("-" none, "*" all):
             count-<site> (names uint8 args slice map listmap objmap array) loop next str strmap refnil
     checked comma separated hazard sites whose check the tree has ("-" none, "*" all)
     hex     the input ("-" = empty)
     shapes  U: one destination shape; C: return shapes separated by '+' ("-" none); S: "-"
     then the answers of the library parsers (finite oracle table)
   shape syntax: I iface | s string | y []byte | t time | g uuid | Bi Bf Br *big | nb ni<bits> nu<bits> nf32 nf64
                 L<e> slice | A<n>:<e> array | M<k><v> map | P<e> ptr | S<hexname>{<hexalias>:<shape>;...}
   output: <class> steps=.. alloc=.. spin=.. excess=.. corrupt=.. err=.. haz=..
     class  value | error | panic:<site> | ask:<kind>:<hex> | unmod:<n> | fuel
   The registry and the published methods mirror harness/cmd/c04 (desc.go, main.go). *)
open Common
open DecBytes

let byte_tab : Byte.byte array =
  Array.init 256 (fun i -> match Byte0.of_N (n_of_int i) with Some b -> b | None -> failwith "byte")
let int_of_byte (b : Byte.byte) : int = int_of_n (Byte0.to_N b)

let hexval c = match c with
  | '0'..'9' -> Char.code c - 48 | 'a'..'f' -> Char.code c - 87 | 'A'..'F' -> Char.code c - 55
  | _ -> failwith "hex"

let bytes_of_hex (s : string) : Byte.byte list =
  if s = "-" then [] else
  let n = String.length s / 2 in
  let rec go i acc = if i < 0 then acc else go (i - 1) (byte_tab.(hexval s.[2*i] * 16 + hexval s.[2*i+1]) :: acc) in
  go (n - 1) []

let bytes_of_str (s : string) : Byte.byte list =
  Stdlib.List.init (String.length s) (fun i -> byte_tab.(Char.code s.[i]))

let hex_of_bytes (l : Byte.byte list) : string =
  let b = Buffer.create 64 in
  Stdlib.List.iter (fun x -> Buffer.add_string b (Printf.sprintf "%02x" (int_of_byte x))) l;
  Buffer.contents b

(* ---- shapes *)
let parse_shape (s : string) : shape =
  let pos = ref 0 in
  let peek () = if !pos < String.length s then s.[!pos] else '\000' in
  let adv () = incr pos in
  let number () =
    let st = !pos in
    while !pos < String.length s && s.[!pos] >= '0' && s.[!pos] <= '9' do incr pos done;
    int_of_string (String.sub s st (!pos - st)) in
  let hexrun () =
    let st = !pos in
    while !pos < String.length s && (match s.[!pos] with '0'..'9' | 'a'..'f' -> true | _ -> false) do incr pos done;
    String.sub s st (!pos - st) in
  let rec sh () : shape =
    let c = peek () in adv ();
    match c with
    | 'I' -> SIface | 's' -> SString | 'y' -> SBytes | 't' -> STime | 'g' -> SUuid
    | 'B' -> let k = peek () in adv ();
      SBig (match k with 'i' -> BInt | 'f' -> BFloat | 'r' -> BRat | _ -> failwith "big")
    | 'n' -> let k = peek () in adv ();
      (match k with
       | 'b' -> SNum KBool
       | 'i' -> SNum (KInt (n_of_int (number ())))
       | 'u' -> SNum (KUint (n_of_int (number ())))
       | 'f' -> let b = number () in SNum (if b = 32 then KF32 else KF64)
       | _ -> failwith "num")
    | 'L' -> SSlice (sh ())
    | 'P' -> SPtr (sh ())
    | 'A' -> let n = number () in
      if peek () <> ':' then failwith "array"; adv ();
      SArray (nat_of_int n, sh ())
    | 'M' -> let k = sh () in let v = sh () in SMap (k, v)
    | 'S' ->
      let name = hexrun () in
      if peek () <> '{' then failwith "struct"; adv ();
      let rec fs () : fields =
        if peek () = '}' then begin adv (); FNil end
        else begin
          let a = hexrun () in
          (if peek () <> ':' then failwith ("field at " ^ string_of_int !pos ^ " in " ^ s));
          adv ();
          let t = sh () in
          (if peek () = ';' then adv ());
          let rest = fs () in
          FCons (bytes_of_hex a, t, rest)
        end in
      let f = fs () in
      SStruct (bytes_of_hex (if name = "" then "-" else name), f)
    | _ -> failwith ("shape: " ^ s) in
  let r = sh () in
  if !pos <> String.length s then failwith ("shape: trailing " ^ s);
  r

let bs = bytes_of_str
let int_ = SNum (KInt N0)
let pt_shape = SStruct (bs "Pt", FCons (bs "x", int_, FCons (bs "y", int_, FNil)))
let user_shape =
  SStruct (bs "User",
    FCons (bs "name", SString, FCons (bs "age", int_, FCons (bs "tags", SSlice SString,
    FCons (bs "extra", SIface, FCons (bs "p", SPtr pt_shape, FNil))))))
let registry = [ (bs "Pt", pt_shape); (bs "User", user_shape) ]

let methods_a = [
  { mname = bs "add"; mparams = [int_; int_]; mvariadic = false };
  { mname = bs "echo"; mparams = [SIface]; mvariadic = false };
  { mname = bs "sum"; mparams = [int_]; mvariadic = true };
  { mname = bs "user"; mparams = [user_shape; SSlice SString; SMap (SString, int_)]; mvariadic = false } ]
let methods_b = [ { mname = bs "add"; mparams = [int_; int_]; mvariadic = false } ]

(* ---- names *)
let string_of_msite = function
  | MNames -> "names" | MUint8 -> "uint8" | MArgs -> "args" | MSlice -> "slice" | MMap -> "map"
  | MListMap -> "listmap" | MObjMap -> "objmap" | MArray -> "array" | MNext -> "next" | MStr -> "str"

let string_of_site = function
  | HRefIndex -> "ref-index" | HClassIndex -> "class-index"
  | HMakeNeg m -> "make-neg-" ^ string_of_msite m
  | HAllocRange m -> "alloc-range-" ^ string_of_msite m
  | HNextNeg -> "next-neg" | HStrIndex -> "str-index" | HStrSlice -> "str-slice"
  | HBigRatNil -> "bigrat-nil" | HUnhashable -> "unhashable"
  | HRefNilSet -> "ref-nil-set" | HRefNilKind -> "ref-nil-kind" | HObjMapField -> "objmap-field"
  | HObjMapKey -> "objmap-key" | HClientCount -> "client-count" | HArrayNeg -> "array-neg"
  | HBigExp -> "big-exp"

let string_of_bigk = function BInt -> "bigint" | BFloat -> "bigfloat" | BRat -> "bigrat"
let string_of_okind = function
  | OF64 -> "f64" | OF32 -> "f32" | OF64Z -> "f64z"
  | OInt b -> "i" ^ string_of_int (int_of_n b) | OUint b -> "u" ^ string_of_int (int_of_n b)
  | OBool -> "bool" | OBig b -> string_of_bigk b
  | OUuid -> "uuid" | OUuidB -> "uuidb" | OUuidP -> "uuidp" | OTime -> "time"
  | OExpInt -> "intexp" | OExpRat -> "ratexp"

let string_of_ek = function
  | KEOF -> "eof" | KUtf8 -> "utf8" | KCast -> "cast" | KDecode -> "decode" | KParse -> "parse"

let string_of_n (n : BinNums.coq_N) : string = string_of_z (BinInt.Z.of_N n)

let stats (inlen : int) (s : st) (hz : site list) : string =
  let s = { s with steps = BinNat.N.add s.steps (n_of_int (inlen - Stdlib.List.length s.rest)) } in
  Printf.sprintf "steps=%s alloc=%s spin=%s excess=%s um=%s rsv=%s corrupt=%d err=%s haz=%s"
    (string_of_n s.steps) (string_of_n s.alloc) (string_of_n s.spin) (string_of_n s.excess) (string_of_n s.um) (string_of_n s.rsv)
    (if s.corrupt then 1 else 0)
    (match s.err with None -> "-" | Some k -> string_of_ek k)
    (if hz = [] then "-" else String.concat "," (Stdlib.List.map string_of_site hz))

let run line =
  match split_ws line with
  | entry :: mode :: fixbits :: checked :: hex :: shapes :: table ->
    let fl = if fixbits = "-" then [] else String.split_on_char ',' fixbits in
    let has x = Stdlib.List.mem x fl in
    let fx = { fx_count = (fun m -> has "*" || has ("count-" ^ string_of_msite m)); fx_loop = has "*" || has "loop";
               fx_next = has "*" || has "next"; fx_str = has "*" || has "str"; fx_strmap = has "*" || has "strmap"; fx_refnil = has "*" || has "refnil";
               fx_strwalk = has "*" || has "strwalk" } in
    let chk = if checked = "*" then (fun _ -> true)
      else if checked = "-" then (fun _ -> false)
      else let l = String.split_on_char ',' checked in (fun h -> Stdlib.List.mem (string_of_site h) l) in
    let tbl : (string, bool) Hashtbl.t = Hashtbl.create 16 in
    Stdlib.List.iter (fun e ->
      match String.split_on_char ':' e with
      | [k; h; v] -> Hashtbl.replace tbl (k ^ ":" ^ (if h = "" then "-" else h)) (v = "1")
      | _ -> failwith ("oracle entry " ^ e)) table;
    let orc (k : okind) (t : Byte.byte list) : bool option =
      let key = string_of_okind k ^ ":" ^ (if t = [] then "-" else hex_of_bytes t) in
      (try Some (Hashtbl.find tbl key) with Not_found -> None) in
    let input = bytes_of_hex hex in
    let shapes_l = if shapes = "-" then [] else Stdlib.List.map parse_shape (String.split_on_char '+' shapes) in
    let dmax = Stdlib.List.fold_left (fun a s -> max a (int_of_nat (depth s))) 1 shapes_l in
    let fuel = fuel_for registry input (nat_of_int (dmax + 6)) in
    let fin_of (type a) (r : a out) (is_err : a -> st -> bool) : string =
      let hz = hazards r in
      (match interp chk r with
       | VDone (a, s) -> (if is_err a s then "error " else "value ") ^ stats (Stdlib.List.length input) s hz
       | VPanic (h, s) -> "panic:" ^ string_of_site h ^ " " ^ stats (Stdlib.List.length input) s hz
       | VAsk (k, t) -> "ask:" ^ string_of_okind k ^ ":" ^ (if t = [] then "-" else hex_of_bytes t)
       | VUnmod w -> "unmod:" ^ string_of_n w
       | VFuel -> "fuel") in
    (match entry with
     | "U" ->
       let sh = (match shapes_l with [s] -> s | _ -> failwith "U needs one shape") in
       fin_of (unmarshal orc registry fx fuel input (mode = "s") sh) (fun _ s -> has_err s)
     | "S" ->
       let ms, missing = if mode = "b" then methods_b, true else methods_a, false in
       fin_of (service_decode orc registry fx fuel ms missing input) (fun b _ -> b)
     | "C" ->
       fin_of (client_decode orc registry fx fuel shapes_l input) (fun b _ -> b)
     | _ -> failwith "c04: bad entry")
  | _ -> failwith "c04: bad line"

let () = register "main" run
