(* C09 driver: replays a history of the pending-call table through the extracted LTS of Model/Mux.v.

   input : <cfg> <op> <op> ...        cfg = socket | udp | udp-old | reverse   (udp: store refuses an index held by a
                                      pending call and the caller draws again, rpc/udp since 7acbe6f; udp-old: it overwrites)
     a <h> <dest> <idx>   caller h (harness handle) entered conn.Transport / InvokeContext and was seen with
                          index idx: LAlloc steps are taken until a caller with that index exists; callers
                          created on the way stay anonymous until their own 'a' arrives (concurrent callers
                          reach the log in any order, the counter is drawn in one order)
     s <h>                LStore, repeated while the store is refused and the caller draws again
                          -> s:<0|1>:<idx>:<n>   1 = an entry with that index was pending and has been overwritten;
                             idx = the index it registered under; n = refused stores (redraws) before
     e <h>                LEnq
     ans <h>              LAnswer           the peer emits a reply to h's request
     stray <dest> <idx>   LStray
     dl <dest> <idx>      LDeliver of the oldest reply in flight with that key -> d:<h'> | d:- (dropped) | d:? (anonymous)
     t <h>                LTake             -> t:R<h'> | t:R- | t:E
     x <h>                LCancel
     f <h>                LForget
     close                LClose            -> c:<entries failed>
     setctr <n>           the harness preset the counter (verif accessor): not a step of the model
   output: one token per op ("." when there is nothing to say); "!<k>:<op>" and stop if op k is not enabled;
           then "| own=<b> pend=<n> reuse_ok=<b> window_ok=<b> first_reuse=<alloc serial|-> orphans=<h,h,...>" *)
open Common

let z = z_of_int
let zi = int_of_z

let run line =
  match split_ws line with
  | cfgname :: ops ->
    let c = match cfgname with
      | "socket" -> Mux.cfg_socket | "udp" -> Mux.cfg_udp | "udp-old" -> Mux.cfg_udp_old | "reverse" -> Mux.cfg_reverse
      | s -> failwith ("cfg " ^ s) in
    let st = ref Mux.init in
    let out = Buffer.create 256 in
    let say s = Buffer.add_string out s; Buffer.add_char out ' ' in
    let id_of : (string, int) Hashtbl.t = Hashtbl.create 64 in      (* handle -> model id *)
    let h_of : (int, string) Hashtbl.t = Hashtbl.create 64 in       (* model id -> handle *)
    let anon : (int * int, int list) Hashtbl.t = Hashtbl.create 64 in  (* (dest, idx) -> unclaimed model ids, oldest first *)
    let reuse_ok = ref true and window_ok = ref true and first_reuse = ref "-" in
    (* the guards are forallb over all callers of (... || dead): dead callers contribute true and deadness
       is stable, so the guards are evaluated on the state restricted to the callers not yet seen dead
       (same value, see MuxProofs.guards_ignore_dead) *)
    let live : int list ref = ref [] in
    let failed = ref None in
    let step k opname l =
      match Mux.step c !st l with
      | Some s' -> st := s'; true
      | None -> failed := Some (Printf.sprintf "!%d:%s" k opname); false in
    let id h = try Hashtbl.find id_of h with Not_found -> failwith ("unknown handle " ^ h) in
    let hname m = try Hashtbl.find h_of m with Not_found -> "?" in
    let key_of m = match Mux.c_find (z m) !st with Some cr -> cr.Mux.ckey | None -> failwith "no caller" in
    let shadow : (int, Mux.caller) Hashtbl.t = Hashtbl.create 64 in   (* current records of the live callers *)
    let refresh m = match Mux.c_find (z m) !st with Some cr -> Hashtbl.replace shadow m cr | None -> () in
    let restricted () =
      let recs = Stdlib.List.filter_map (fun m ->
        match Hashtbl.find_opt shadow m with
        | Some cr -> if Mux.dead !st (z m) cr then (Hashtbl.remove shadow m; None) else Some (m, cr)
        | None -> None) !live in
      live := Stdlib.List.map fst recs;
      { !st with Mux.callers = Stdlib.List.map (fun (m, cr) -> (z m, cr)) recs } in
    (* the guards of Model/Mux.v at a registering LStore (and at an LEnq before registration), evaluated by the
       model's own functions on the live part of the state *)
    let check_guards m =
      match Mux.c_find (z m) !st with
      | Some cr ->
          let rs = restricted () in
          if not (Mux.others_harmless rs (z m) cr) then begin
            if !reuse_ok then first_reuse := string_of_int (zi cr.Mux.cdraw);
            reuse_ok := false end;
          if not (Mux.others_near c rs (z m) cr) then window_ok := false
      | None -> () in
    let alloc_one k dest =
      let l = Mux.LAlloc (z dest) in
      if step k "a" l then begin
        let m = zi (!st).Mux.counter in live := m :: !live; refresh m; Some m end else None in
    let rec go k = function
      | _ when !failed <> None -> ()
      | [] -> ()
      | "a" :: h :: dest :: idx :: r ->
          let dest = int_of_string dest and idx = int_of_string idx in
          let claim () =
            match (try Hashtbl.find anon (dest, idx) with Not_found -> []) with
            | m :: rest -> Hashtbl.replace anon (dest, idx) rest; Some m
            | [] -> None in
          let rec until n =
            match claim () with
            | Some m -> Some m
            | None ->
                if n > 3000 then None else
                match alloc_one k dest with
                | None -> None
                | Some m ->
                    let (_, i) = key_of m in
                    let old = try Hashtbl.find anon (dest, zi i) with Not_found -> [] in
                    Hashtbl.replace anon (dest, zi i) (old @ [m]);
                    until (n + 1) in
          (match until 0 with
           | Some m -> Hashtbl.replace id_of h m; Hashtbl.replace h_of m h;
                       say (Printf.sprintf "a:%d" (zi (snd (key_of m))))
           | None -> if !failed = None then failed := Some (Printf.sprintf "!%d:a-index-never-drawn" k));
          go (k + 1) r
      | "s" :: h :: r ->
          let m = id h in
          let rec attempt n =
            if n > 40000 then failed := Some (Printf.sprintf "!%d:s-never-registers" k) else
            match Mux.c_find (z m) !st with
            | None -> failed := Some (Printf.sprintf "!%d:s" k)
            | Some cr ->
                let present = (match Mux.t_find cr.Mux.ckey (!st).Mux.pending with Some _ -> true | None -> false) in
                let reg = Mux.registers c !st cr in
                if reg then check_guards m;
                if step k "s" (Mux.LStore (z m)) then begin
                  refresh m;
                  if reg then say (Printf.sprintf "s:%d:%d:%d" (if present then 1 else 0) (zi (snd cr.Mux.ckey)) n)
                  else attempt (n + 1) end in
          attempt 0;
          go (k + 1) r
      | "e" :: h :: r ->
          let m = id h in
          (match Mux.c_find (z m) !st with
           | Some cr when cr.Mux.cstat = Mux.SAlloc -> check_guards m
           | _ -> ());
          if step k "e" (Mux.LEnq (z m)) then (refresh m; say "."); go (k + 1) r
      | "ans" :: h :: r -> if step k "ans" (Mux.LAnswer (z (id h))) then say "."; go (k + 1) r
      | "f" :: h :: r -> if step k "f" (Mux.LForget (z (id h))) then say "."; go (k + 1) r
      | "stray" :: dest :: idx :: r ->
          if step k "stray" (Mux.LStray (z (int_of_string dest), z (int_of_string idx))) then say ".";
          go (k + 1) r
      | "dl" :: dest :: idx :: r ->
          let key = (z (int_of_string dest), z (int_of_string idx)) in
          let rec pos n = function
            | [] -> None
            | (kk, _) :: rest -> if kk = key then Some n else pos (n + 1) rest in
          (match pos 0 (!st).Mux.inflight with
           | None -> failed := Some (Printf.sprintf "!%d:dl-nothing-in-flight" k)
           | Some n ->
               let holder = Mux.t_find key (!st).Mux.pending in
               if step k "dl" (Mux.LDeliver (nat_of_int n)) then begin
                 (match holder with Some m -> refresh (zi m) | None -> ());
                 say (match holder with Some m -> "d:" ^ hname (zi m) | None -> "d:-") end);
          go (k + 1) r
      | "t" :: h :: r ->
          let m = id h in
          let box = match Mux.c_find (z m) !st with Some cr -> cr.Mux.cbox | None -> None in
          if step k "t" (Mux.LTake (z m)) then begin
            refresh m;
            say (match box with
                 | Some (Mux.OResp (Some p)) -> "t:R" ^ hname (zi p)
                 | Some (Mux.OResp None) -> "t:R-"
                 | Some Mux.OErr -> "t:E"
                 | _ -> "t:?") end;
          go (k + 1) r
      | "x" :: h :: r -> if step k "x" (Mux.LCancel (z (id h))) then (refresh (id h); say "."); go (k + 1) r
      | "close" :: r ->
          let n = Stdlib.List.length (!st).Mux.pending in
          let holders = Stdlib.List.map (fun (_, m) -> zi m) (!st).Mux.pending in
          if step k "close" Mux.LClose then (Stdlib.List.iter refresh holders; say (Printf.sprintf "c:%d" n));
          go (k + 1) r
      | "setctr" :: n :: r ->
          let s = !st in
          st := { s with Mux.counter = z_of_string n }; say "."; go (k + 1) r
      | op :: _ -> failwith ("c09: bad op " ^ op) in
    go 0 ops;
    (match !failed with Some f -> say f | None -> ());
    let orphans = Stdlib.List.filter_map (fun m ->
      if Mux.orphan_b !st (z m) then Some (hname m) else None) !live in
    let orphans = Stdlib.List.sort compare orphans in
    Printf.sprintf "%s| own=%b pend=%d reuse_ok=%b window_ok=%b first_reuse=%s orphans=%s"
      (Buffer.contents out) (Mux.own_b !st) (Stdlib.List.length (!st).Mux.pending) !reuse_ok !window_ok !first_reuse
      (if orphans = [] then "-" else String.concat "," orphans)
  | _ -> failwith "c09: empty line"

let () = register "main" run
