(* C10 driver: replays a history of one client (callers, Send, Receive, Exit/Close, Abort, peer) through
   the extracted LTS of Model/CallLife.v.

   input : <mask: 31|15|31old|15old> <armed flags, e.g. 0110> <op> <op> ...
     (31, 15: the transports since 576bf91 and 8ffdf9e -- onExit always cancels, a store after Close hands the close error
      to the caller; "old": the transports before)
     callers are numbered from 0 in the order of the flags; connections from 0 in dialling order;
     who = s<c> (Send of connection c) | r<c> (Receive) | a<j> (j-th Transport.Abort closer)
     B k        LBegin           G k  LGetConn  -> G:<c>:<idx>      D k  LDial -> D:<c>:<idx>      DF k LDialFail
     S k        LStore           Q k  LEnqueue                      T k  LTake -> T:<R|E>
     X k        LCancelDel (an LFire / LUserCancel is inserted if the context is not done yet)
     E k        LEnd             F k  LFire     U k  LUserCancel
     DB k       LDirectBegin (http, fasthttp, mock)   DR k <R|E>  LDirectRet   DX k  LDirectCancel (LFire / LUserCancel inserted like X)
     so c | sf c | sc c          LSendOk / LSendFail / LSendCtx
     rr c idx   LRecvReply of the oldest reply in flight with that index (LRecvPoll inserted if needed) -> rr:<k|->
     oe w err   LOnExit; the steps that bring the goroutine there are inserted:
                Send: SIdle -err=0-> LSendCtx, SHold -err=1-> LSendFail; Receive: (LRecvPoll) LRecvFail for err=1, LRecvCtx for err=0
     cs w | ct w | cd w          LCloseSock / LCleanTake -> ct:<n> / LCleanDone  (cs inserted before ct/cd when needed)
     pr c idx   LPeerReply       pg c LPeerGone
     ac | as    LAbortCancel / LAbortSwap (-> as:<j|-> the closer it created);  asc = as, then LCloseSock of that closer
   output: one token per op; "!<k>:<op>" and stop when an op (or an inserted step) is not enabled; then
     "| pcs=<one token per caller> stuck=<k,..> pend=<n> pool=<c|-> late_ok=<b> reuse_ok=<b> alive=<senders>/<receivers> zombies=<c,..>" *)
open Common

let z = z_of_int
let zi = int_of_z
let n_ = nat_of_int
let ni = int_of_nat

let who_of s =
  let c = int_of_string (String.sub s 1 (String.length s - 1)) in
  match s.[0] with
  | 's' -> CallLife.WS (n_ c) | 'r' -> CallLife.WR (n_ c) | 'a' -> CallLife.WA (n_ c)
  | _ -> failwith ("who " ^ s)

let pc_token = function
  | CallLife.CStart -> "start" | CallLife.CGet -> "get"
  | CallLife.CAlloc (c, i) -> Printf.sprintf "alloc:%d:%d" (ni c) (zi i)
  | CallLife.CStored (c, i) -> Printf.sprintf "stored:%d:%d" (ni c) (zi i)
  | CallLife.CEnq (c, i) -> Printf.sprintf "enq:%d:%d" (ni c) (zi i)
  | CallLife.CDirect -> "direct"
  | CallLife.CRet r | CallLife.CDone r ->
      (match r with CallLife.RResp -> "R" | CallLife.RErr -> "E" | CallLife.RCancel -> "C")

let run line =
  match split_ws line with
  | maskname :: flags :: ops ->
    let old = String.length maskname > 2 in
    let g = { CallLife.mask = (if String.sub maskname 0 2 = "15" then Mux.mask15 else Mux.mask31);
              fix_cancel = not old; fix_store = not old } in
    let flags = if flags = "-" then "" else flags in
    let armed = Stdlib.List.init (String.length flags) (fun i -> flags.[i] = '1') in
    let st = ref (CallLife.init armed) in
    let out = Buffer.create 256 in
    let say s = Buffer.add_string out s; Buffer.add_char out ' ' in
    let failed = ref None in
    let late_ok = ref true and reuse_ok = ref true in
    let step k opname l =
      if !failed <> None then false else begin
        if not (CallLife.no_late_store_step !st l) then late_ok := false;
        if not (CallLife.no_reuse_step g !st l) then reuse_ok := false;
        match CallLife.step g !st l with
        | Some s' -> st := s'; true
        | None -> failed := Some (Printf.sprintf "!%d:%s" k opname); false end in
    let conn c = Stdlib.List.nth_opt (!st).CallLife.conns c in
    let caller k = Stdlib.List.nth_opt (!st).CallLife.callers k in
    let who_conn = function
      | CallLife.WS c | CallLife.WR c -> Some (ni c)
      | CallLife.WA j -> (match Stdlib.List.nth_opt (!st).CallLife.aborters (ni j) with Some (c, _) -> Some (ni c) | None -> None) in
    let who_pc w = match w with
      | CallLife.WS c -> (match conn (ni c) with Some cn -> (match cn.CallLife.ksender with CallLife.SExit e -> Some e | _ -> None) | None -> None)
      | CallLife.WR c -> (match conn (ni c) with Some cn -> (match cn.CallLife.kreceiver with CallLife.RExit e -> Some e | _ -> None) | None -> None)
      | CallLife.WA j -> (match Stdlib.List.nth_opt (!st).CallLife.aborters (ni j) with Some (_, e) -> Some e | None -> None) in
    let ensure_close_sock k w =
      match who_pc w with
      | Some CallLife.ECloseSock -> ignore (step k "cs(implicit)" (CallLife.LCloseSock w))
      | _ -> () in
    let rec go k = function
      | _ when !failed <> None -> ()
      | [] -> ()
      | "B" :: a :: r -> if step k "B" (CallLife.LBegin (n_ (int_of_string a))) then say "."; go (k + 1) r
      | ("G" | "D" as op) :: a :: r ->
          let kk = int_of_string a in
          let l = if op = "G" then CallLife.LGetConn (n_ kk) else CallLife.LDial (n_ kk) in
          if step k op l then
            (match caller kk with
             | Some cl -> (match cl.CallLife.pc with
                           | CallLife.CAlloc (c, i) -> say (Printf.sprintf "%s:%d:%d" op (ni c) (zi i))
                           | _ -> say "?")
             | None -> say "?");
          go (k + 1) r
      | "DF" :: a :: r -> if step k "DF" (CallLife.LDialFail (n_ (int_of_string a))) then say "."; go (k + 1) r
      | "S" :: a :: r -> if step k "S" (CallLife.LStore (n_ (int_of_string a))) then say "."; go (k + 1) r
      | "Q" :: a :: r -> if step k "Q" (CallLife.LEnqueue (n_ (int_of_string a))) then say "."; go (k + 1) r
      | "T" :: a :: r ->
          let kk = int_of_string a in
          let b = match caller kk with Some cl -> cl.CallLife.box | None -> None in
          if step k "T" (CallLife.LTake (n_ kk)) then
            say (match b with Some CallLife.RResp -> "T:R" | Some CallLife.RErr -> "T:E" | _ -> "T:?");
          go (k + 1) r
      | "X" :: a :: r ->
          let kk = int_of_string a in
          (match caller kk with
           | Some cl when not cl.CallLife.cancelled ->
               if cl.CallLife.armed then ignore (step k "F(implicit)" (CallLife.LFire (n_ kk)))
               else ignore (step k "U(implicit)" (CallLife.LUserCancel (n_ kk)))
           | _ -> ());
          if step k "X" (CallLife.LCancelDel (n_ kk)) then say "."; go (k + 1) r
      | "DB" :: a :: r -> if step k "DB" (CallLife.LDirectBegin (n_ (int_of_string a))) then say "."; go (k + 1) r
      | "DR" :: a :: o :: r ->
          let res = if o = "R" then CallLife.RResp else CallLife.RErr in
          if step k "DR" (CallLife.LDirectRet (n_ (int_of_string a), res)) then say "."; go (k + 1) r
      | "DX" :: a :: r ->
          let kk = int_of_string a in
          (match caller kk with
           | Some cl when not cl.CallLife.cancelled ->
               if cl.CallLife.armed then ignore (step k "F(implicit)" (CallLife.LFire (n_ kk)))
               else ignore (step k "U(implicit)" (CallLife.LUserCancel (n_ kk)))
           | _ -> ());
          if step k "DX" (CallLife.LDirectCancel (n_ kk)) then say "."; go (k + 1) r
      | "E" :: a :: r -> if step k "E" (CallLife.LEnd (n_ (int_of_string a))) then say "."; go (k + 1) r
      | "F" :: a :: r -> if step k "F" (CallLife.LFire (n_ (int_of_string a))) then say "."; go (k + 1) r
      | "U" :: a :: r -> if step k "U" (CallLife.LUserCancel (n_ (int_of_string a))) then say "."; go (k + 1) r
      | "so" :: a :: r -> if step k "so" (CallLife.LSendOk (n_ (int_of_string a))) then say "."; go (k + 1) r
      | "sf" :: a :: r -> if step k "sf" (CallLife.LSendFail (n_ (int_of_string a))) then say "."; go (k + 1) r
      | "sc" :: a :: r -> if step k "sc" (CallLife.LSendCtx (n_ (int_of_string a))) then say "."; go (k + 1) r
      | "rr" :: a :: idx :: r ->
          let c = int_of_string a and idx = z (int_of_string idx) in
          (match conn c with
           | None -> failed := Some (Printf.sprintf "!%d:rr-no-conn" k)
           | Some cn ->
               if cn.CallLife.kreceiver = CallLife.RHead then ignore (step k "rp(implicit)" (CallLife.LRecvPoll (n_ c)));
               (match conn c with
                | Some cn ->
                    let rec pos n = function [] -> None | i :: rest -> if i = idx then Some n else pos (n + 1) rest in
                    (match pos 0 cn.CallLife.kinflight with
                     | None -> if !failed = None then failed := Some (Printf.sprintf "!%d:rr-nothing-in-flight" k)
                     | Some n ->
                         let holder = Mux.a_find BinInt.Z.eqb idx cn.CallLife.ktab in
                         if step k "rr" (CallLife.LRecvReply (n_ c, n_ n)) then
                           say (match holder with Some h -> Printf.sprintf "rr:%d" (ni h) | None -> "rr:-"))
                | None -> ()));
          go (k + 1) r
      | "oe" :: w :: err :: r ->
          let w = who_of w and err = (err = "1") in
          (match w with
           | CallLife.WS c ->
               (match conn (ni c) with
                | Some cn ->
                    (match cn.CallLife.ksender, err with
                     | CallLife.SIdle, false -> ignore (step k "sc(implicit)" (CallLife.LSendCtx c))
                     | CallLife.SHold, true -> ignore (step k "sf(implicit)" (CallLife.LSendFail c))
                     | CallLife.SExit _, _ -> ()
                     | _, _ -> failed := Some (Printf.sprintf "!%d:oe-sender-cannot-exit-that-way" k))
                | None -> ())
           | CallLife.WR c ->
               (match conn (ni c) with
                | Some cn ->
                    (match cn.CallLife.kreceiver, err with
                     | CallLife.RHead, false -> ignore (step k "rc(implicit)" (CallLife.LRecvCtx c))
                     | CallLife.RHead, true ->
                         ignore (step k "rp(implicit)" (CallLife.LRecvPoll c));
                         ignore (step k "rf(implicit)" (CallLife.LRecvFail c))
                     | CallLife.RRead, true -> ignore (step k "rf(implicit)" (CallLife.LRecvFail c))
                     | CallLife.RExit _, _ -> ()
                     | _, _ -> failed := Some (Printf.sprintf "!%d:oe-receiver-cannot-exit-that-way" k))
                | None -> ())
           | CallLife.WA _ -> ());
          if step k "oe" (CallLife.LOnExit w) then say "."; go (k + 1) r
      | "cs" :: w :: r -> if step k "cs" (CallLife.LCloseSock (who_of w)) then say "."; go (k + 1) r
      | "ct" :: w :: r ->
          let w = who_of w in
          ensure_close_sock k w;
          let n = match who_conn w with
            | Some c -> (match conn c with Some cn -> Stdlib.List.length cn.CallLife.ktab | None -> 0) | None -> 0 in
          if step k "ct" (CallLife.LCleanTake w) then say (Printf.sprintf "ct:%d" n); go (k + 1) r
      | "cd" :: w :: r ->
          let w = who_of w in
          ensure_close_sock k w;
          if step k "cd" (CallLife.LCleanDone w) then say "."; go (k + 1) r
      | "pr" :: a :: idx :: r ->
          if step k "pr" (CallLife.LPeerReply (n_ (int_of_string a), z (int_of_string idx))) then say "."; go (k + 1) r
      | "pg" :: a :: r -> if step k "pg" (CallLife.LPeerGone (n_ (int_of_string a))) then say "."; go (k + 1) r
      | "ac" :: r -> if step k "ac" CallLife.LAbortCancel then say "."; go (k + 1) r
      | "as" :: r ->
          let before = Stdlib.List.length (!st).CallLife.aborters in
          if step k "as" CallLife.LAbortSwap then
            say (if Stdlib.List.length (!st).CallLife.aborters > before then Printf.sprintf "as:%d" before else "as:-");
          go (k + 1) r
      | "asc" :: r ->
          (* Transport.Abort: swap the pool, then conn.Close runs once.Do(close the socket) at once *)
          let before = Stdlib.List.length (!st).CallLife.aborters in
          if step k "as" CallLife.LAbortSwap then begin
            if Stdlib.List.length (!st).CallLife.aborters > before then begin
              ignore (step k "cs(abort)" (CallLife.LCloseSock (CallLife.WA (n_ before))));
              say (Printf.sprintf "as:%d" before) end
            else say "as:-" end;
          go (k + 1) r
      | op :: _ -> failwith ("c10: bad op " ^ op) in
    go 0 ops;
    (match !failed with Some f -> say f | None -> ());
    let s = !st in
    let pcs = String.concat "," (Stdlib.List.map (fun cl -> pc_token cl.CallLife.pc) s.CallLife.callers) in
    let idxs l = Stdlib.List.mapi (fun i x -> (i, x)) l in
    let stuck = Stdlib.List.filter_map (fun (i, _) -> if CallLife.stuck_b s (n_ i) then Some (string_of_int i) else None)
                  (idxs s.CallLife.callers) in
    let senders = Stdlib.List.length (Stdlib.List.filter (fun cn ->
                    cn.CallLife.ksender <> CallLife.SExit CallLife.EDone) s.CallLife.conns) in
    let receivers = Stdlib.List.length (Stdlib.List.filter (fun cn ->
                    cn.CallLife.kreceiver <> CallLife.RExit CallLife.EDone) s.CallLife.conns) in
    let zombies = Stdlib.List.filter_map (fun (i, _) ->
                    if CallLife.sender_parked_forever s (n_ i) then Some (string_of_int i) else None) (idxs s.CallLife.conns) in
    let lst l = if l = [] then "-" else String.concat "," l in
    Printf.sprintf "%s| pcs=%s stuck=%s pend=%d pool=%s late_ok=%b reuse_ok=%b alive=%d/%d zombies=%s"
      (Buffer.contents out) (if pcs = "" then "-" else pcs) (lst stuck) (ni (CallLife.pending_total s))
      (match s.CallLife.pool with Some c -> string_of_int (ni c) | None -> "-")
      !late_ok !reuse_ok senders receivers (lst zombies)
  | _ -> failwith "c10: bad line"

let () = register "main" run
