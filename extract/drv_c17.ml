(* C17 driver.  One line in, one line out.

   sem <cap> <tmo> <n> <ev>...       ev = E<i> | A<i> | T<i> | C<i> (caller's context cancelled) | Fo<i> | Fe<i> | Fp<i> | R<i>
       replays the schedule through Sem.run_upto from Sem.sem_init n
       -> "ok|stuck@<k> chan=<z> running=<z> holders=<z> maxrun=<z> alldone=<b> pcs=<one letter per request>
           chans=<channel length after each enabled step, comma separated>"
          letters: i idle, w waiting, r running, l releasing, T timed out, O/E/P finished that way

   rate <interval> <maxpermits|inf> <timeout> (<last> <now> <tokens>)...
       each triple is one call of Rate.acquire from the given loaded value
       -> per call "G<wait>:<next'>" or "R:<next'>"

   rateq <pps> <maxpermits|inf> <timeout> (<last> <now> <tokens>)...
       the same with the interval 1e9/pps kept as a rational (Rate.q_acquire), for any rate

   conc <interval> <maxpermits|inf> <timeout> <next0> <threads> <lab>...   lab = L<i>:<now>:<tokens> | S<i>
       runs Rate.rrun from Rate.rinit next0 threads
       -> "none" or "ok next=<z> idle=<b> tokens=<z> log=<tid>:<now>:<tok>:<last>:<G<wait>|R>,..." (oldest first) *)
open Common

let int_after s k = int_of_string (String.sub s k (String.length s - k))

let sem_label s =
  match s.[0] with
  | 'E' -> (int_after s 1, Sem.LEnter)
  | 'A' -> (int_after s 1, Sem.LAcquire)
  | 'T' -> (int_after s 1, Sem.LTimeout)
  | 'C' -> (int_after s 1, Sem.LCancel)
  | 'R' -> (int_after s 1, Sem.LRelease)
  | 'F' ->
    let o = (match s.[1] with 'o' -> Sem.OOk | 'e' -> Sem.OErr | 'p' -> Sem.OPanic | _ -> failwith ("c17 outcome " ^ s)) in
    (int_after s 2, Sem.LEnd o)
  | _ -> failwith ("c17 event " ^ s)

let pc_letter = function
  | Sem.PIdle -> "i" | Sem.PWaiting -> "w" | Sem.PRunning -> "r" | Sem.PReleasing _ -> "l"
  | Sem.PDone Sem.RTimeout -> "T"
  | Sem.PDone (Sem.ROut Sem.OOk) -> "O" | Sem.PDone (Sem.ROut Sem.OErr) -> "E" | Sem.PDone (Sem.ROut Sem.OPanic) -> "P"

let z_gt a b = (BinInt.Z.compare a b = Datatypes.Gt)

let run_sem cap tmo n evs =
  let c = { Sem.cap = z_of_string cap; Sem.tmo = z_of_string tmo } in
  let s0 = Sem.sem_init (nat_of_int (int_of_string n)) in
  let sched = Stdlib.List.map (fun e -> let (i, l) = sem_label e in (nat_of_int i, l)) evs in
  let (s, stuck) = Sem.run_upto c s0 sched Datatypes.O in
  (* second pass, step by step, for the largest number of running requests seen *)
  let maxrun = ref (Sem.running s0) in
  let cur = ref (Some s0) in
  let chans = Buffer.create 256 in
  Stdlib.List.iter (fun (i, l) ->
    match !cur with
    | None -> ()
    | Some st ->
      (match Sem.step c st i l with
       | None -> cur := None
       | Some st' ->
         let r = Sem.running st' in
         if z_gt r !maxrun then maxrun := r;
         if Buffer.length chans > 0 then Buffer.add_char chans ',';
         Buffer.add_string chans (string_of_z st'.Sem.chan);
         cur := Some st')) sched;
  Printf.sprintf "%s chan=%s running=%s holders=%s maxrun=%s alldone=%b pcs=%s chans=%s"
    (match stuck with None -> "ok" | Some k -> "stuck@" ^ string_of_int (int_of_nat k))
    (string_of_z s.Sem.chan) (string_of_z (Sem.running s)) (string_of_z (Sem.holders s))
    (string_of_z !maxrun) (Sem.all_done s)
    (String.concat "" (Stdlib.List.map pc_letter s.Sem.threads))
    (Buffer.contents chans)

let rcfg_of i m t =
  { Rate.interval = z_of_string i;
    Rate.max_permits = (if m = "inf" then None else Some (z_of_string m));
    Rate.rtimeout = z_of_string t }

let verdict_str = function
  | Rate.Granted w -> "G" ^ string_of_z w
  | Rate.TimedOut -> "R"

let run_rate i m t rest =
  let c = rcfg_of i m t in
  let rec go = function
    | last :: now :: tok :: r ->
      let (nx, v) = Rate.acquire c (z_of_string last) (z_of_string now) (z_of_string tok) in
      (verdict_str v ^ ":" ^ string_of_z nx) :: go r
    | [] -> []
    | _ -> failwith "c17 rate: bad triple" in
  String.concat " " (go rest)

(* rateq <pps> <maxpermits|inf> <timeout> (<last> <now> <tokens>)...   the rational-interval model *)
let run_rateq pps m t rest =
  let c = { Rate.pps = z_of_string pps;
            Rate.qmax = (if m = "inf" then None else Some (z_of_string m));
            Rate.qtimeout = z_of_string t } in
  let rec go = function
    | last :: now :: tok :: r ->
      let (nx, v) = Rate.q_acquire c (z_of_string last) (z_of_string now) (z_of_string tok) in
      (verdict_str v ^ ":" ^ string_of_z nx) :: go r
    | [] -> []
    | _ -> failwith "c17 rateq: bad triple" in
  String.concat " " (go rest)

let rate_label s =
  match s.[0] with
  | 'S' -> (int_after s 1, Rate.LStore)
  | 'L' ->
    (match String.split_on_char ':' (String.sub s 1 (String.length s - 1)) with
     | [i; now; tok] -> (int_of_string i, Rate.LLoad (z_of_string now, z_of_string tok))
     | _ -> failwith ("c17 label " ^ s))
  | _ -> failwith ("c17 label " ^ s)

let run_conc i m t next0 threads labs =
  let c = rcfg_of i m t in
  let s0 = Rate.rinit (z_of_string next0) (nat_of_int (int_of_string threads)) in
  let sched = Stdlib.List.map (fun l -> let (k, lab) = rate_label l in (nat_of_int k, lab)) labs in
  match Rate.rrun c s0 sched with
  | None -> "none"
  | Some s ->
    let ev g = Printf.sprintf "%d:%s:%s:%s:%s" (int_of_nat g.Rate.g_tid) (string_of_z g.Rate.g_now)
        (string_of_z g.Rate.g_tok) (string_of_z g.Rate.g_last) (verdict_str g.Rate.g_verdict) in
    Printf.sprintf "ok next=%s idle=%b tokens=%s log=%s" (string_of_z s.Rate.rnext) (Rate.all_idle s)
      (string_of_z (Rate.log_granted_tokens s.Rate.rlog))
      (String.concat "," (Stdlib.List.rev_map ev s.Rate.rlog))

let run line =
  match split_ws line with
  | "sem" :: cap :: tmo :: n :: evs -> run_sem cap tmo n evs
  | "rate" :: i :: m :: t :: rest -> run_rate i m t rest
  | "rateq" :: p :: m :: t :: rest -> run_rateq p m t rest
  | "conc" :: i :: m :: t :: next0 :: threads :: labs -> run_conc i m t next0 threads labs
  | _ -> failwith "c17: bad line"

let () = register "main" run
