(* C13 driver: one command per line, one answer per line.  Byte strings are lower-case hex, "-"
   is the empty string.  Transports: mock http fasthttp tcp unix ws udp.  A table of comparison
   sites is given for the transport at hand as letters: B (bytes in hand: len(body), n-8),
   D (declared length field), C (ContentLength); "-" for none.
     A <tr> <sites> <get 0/1> <flag 0/1> <max> <decl|-> <sent> <valid 0/1>
         (sites: the comparisons on the path of THIS class of request; get: method GET; flag: index word
          with its top bit set)
         -> "v=<P:n|413|INBAND|ERR|400|STARVE|MALFORMED> io=<n|-> fn=<0|1> client=<...> alt=<...> covers=<0|1>
             framed=<n|-> truthful=<0|1>"
     T                      -> the pinned and the original (pre-fix) table, "tr=letters ..." twice, separated by "|"
     H sock <len> <idx> | H udp <len> <idx> | H ws <idx>     -> header hex
     R sock <idx> | R udp <idx> | R ws <idx>                  -> the reject frame the model's server writes
     D sock <hex> | D udp <hex> | D ws <hex> | D http <status> -> what the transport's client makes of it
     V sock <max> <hex> | V ws <max> <hex> | V udp <max> <hex> | V http <max> <decl|-> <hex>
         -> byte-level verdict on the first request (fresh connection, zero UDP buffer) *)
open Common

let byte_tab : Byte.byte array =
  Array.init 256 (fun i -> match Byte0.of_N (n_of_int i) with Some b -> b | None -> failwith "byte_tab")

let int_of_byte (b : Byte.byte) : int = int_of_n (Byte0.to_N b)

let hexval c =
  match c with
  | '0'..'9' -> Char.code c - 48
  | 'a'..'f' -> Char.code c - 87
  | 'A'..'F' -> Char.code c - 55
  | _ -> failwith "hex digit"

let bytes_of_hex (s : string) : Byte.byte list =
  if s = "-" then [] else begin
    let n = String.length s in
    if n mod 2 <> 0 then failwith "odd hex";
    let acc = ref [] in
    let i = ref (n - 2) in
    while !i >= 0 do
      acc := byte_tab.(hexval s.[!i] * 16 + hexval s.[!i + 1]) :: !acc;
      i := !i - 2
    done;
    !acc
  end

let hex_of_bytes (l : Byte.byte list) : string =
  match l with
  | [] -> "-"
  | _ ->
    let buf = Buffer.create 64 in
    Stdlib.List.iter (fun b -> Buffer.add_string buf (Printf.sprintf "%02x" (int_of_byte b))) l;
    Buffer.contents buf

let transport_of = function
  | "mock" -> Limit.Mock | "http" -> Limit.NetHttp | "fasthttp" -> Limit.FastHttp
  | "tcp" -> Limit.Tcp | "unix" -> Limit.Unix | "ws" -> Limit.Websocket | "udp" -> Limit.Udp
  | s -> failwith ("transport " ^ s)

let name_of = function
  | Limit.Mock -> "mock" | Limit.NetHttp -> "http" | Limit.FastHttp -> "fasthttp"
  | Limit.Tcp -> "tcp" | Limit.Unix -> "unix" | Limit.Websocket -> "ws" | Limit.Udp -> "udp"

let quantities_of (s : string) : Limit.quantity list =
  if s = "-" then [] else
  Stdlib.List.map (function
    | 'B' -> Limit.QBodyLen | 'D' -> Limit.QDeclared | 'C' -> Limit.QContentLength
    | c -> failwith (Printf.sprintf "quantity %c" c)) (Stdlib.List.init (String.length s) (String.get s))

let letters_of (qs : Limit.quantity list) : string =
  if qs = [] then "-" else
  String.concat "" (Stdlib.List.map (function
    | Limit.QBodyLen -> "B" | Limit.QDeclared -> "D" | Limit.QContentLength -> "C") qs)

let decl_of s = if s = "-" then None else Some (z_of_string s)

let verdict_str = function
  | Limit.Process n -> "P:" ^ string_of_z n
  | Limit.Reject413 -> "413"
  | Limit.RejectInBand -> "INBAND"
  | Limit.RejectError -> "ERR"
  | Limit.Reject400 -> "400"
  | Limit.Starve -> "STARVE"
  | Limit.Malformed -> "MALFORMED"

let outcome_str = function
  | Limit.OResult -> "result"
  | Limit.OTooLarge -> "too-large"
  | Limit.OInvalidResponse b -> "invalid-response:" ^ hex_of_bytes b
  | Limit.OHttpError s -> "http-error:" ^ string_of_z s
  | Limit.OOtherError -> "other-error"
  | Limit.ONothing -> "nothing"

let b01 b = if b then "1" else "0"

let zero_buffer n = Stdlib.List.init n (fun _ -> byte_tab.(0))

let run line =
  match split_ws line with
  | ["A"; tr; sites; get; flag; max; decl; sent; valid] ->
    let tr = transport_of tr and qs = quantities_of sites in
    let table = fun _ _ _ -> qs in
    let k = { Limit.r_get = (get = "1"); r_flag = (flag = "1") } in
    let max = z_of_string max and decl = decl_of decl and sent = z_of_string sent in
    let (v, log) = Limit.serve table tr max k decl sent (valid = "1") in
    let io = match log with Limit.EvIOPlugin n :: _ -> string_of_z n | _ -> "-" in
    let fn = if Stdlib.List.mem Limit.EvInvoke log then "1" else "0" in
    let framed = match Limit.framed tr k decl sent with Some n -> string_of_z n | None -> "-" in
    (* the other thing the caller may get when the server's teardown overtakes its answer (tcp, unix) *)
    let alt = outcome_str (Limit.caller_outcome false tr v true Limit.TeardownFirst) in
    Printf.sprintf "v=%s io=%s fn=%s client=%s alt=%s covers=%s framed=%s truthful=%s"
      (verdict_str v) io fn (outcome_str (Limit.client_decode (Limit.reply_of v))) alt
      (b01 (Limit.covers tr (decl = None) qs)) framed (b01 (Limit.truthful tr k decl sent))
  | ["T"] ->
    let show tab = String.concat " " (Stdlib.List.map (fun tr -> name_of tr ^ "=" ^ letters_of (tab tr Limit.plain false)) Limit.all_transports) in
    show Limit.pinned_sites ^ " | " ^ show Limit.original_sites
  | ["H"; "sock"; len; idx] -> hex_of_bytes (Frame.sock_make_header (z_of_string len) (z_of_string idx))
  | ["H"; "udp"; len; idx] -> hex_of_bytes (Frame.udp_make_header (z_of_string len) (z_of_string idx))
  | ["H"; "ws"; idx] -> hex_of_bytes (Frame.ws_make_header (z_of_string idx))
  | ["R"; "sock"; idx] -> hex_of_bytes (Limit.sock_reject_frame (z_of_string idx))
  | ["R"; "udp"; idx] -> hex_of_bytes (Limit.udp_reject_dgram (z_of_string idx))
  | ["R"; "ws"; idx] -> hex_of_bytes (Limit.ws_reject_msg (z_of_string idx))
  | ["D"; "sock"; h] -> outcome_str (Limit.sock_client (bytes_of_hex h))
  | ["D"; "udp"; h] -> outcome_str (Limit.udp_client (bytes_of_hex h))
  | ["D"; "ws"; h] -> outcome_str (Limit.ws_client (bytes_of_hex h))
  | ["D"; "http"; s] -> outcome_str (Limit.client_decode (Limit.RpHttp (z_of_string s)))
  | ["V"; "sock"; max; h] -> verdict_str (Limit.sock_server_verdict (z_of_string max) (bytes_of_hex h))
  | ["V"; "ws"; max; h] -> verdict_str (Limit.ws_server_verdict (z_of_string max) (bytes_of_hex h))
  | ["V"; "udp"; max; h] ->
    let d = bytes_of_hex h in
    verdict_str (Limit.udp_server_verdict (z_of_string max) (zero_buffer (Stdlib.List.length d + 64)) d)
  | ["V"; "http"; max; decl; h] -> verdict_str (Limit.http_server_verdict (z_of_string max) (decl_of decl) (bytes_of_hex h))
  | _ -> failwith ("c13: bad line: " ^ line)

let () = register "main" run
