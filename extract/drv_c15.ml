(* C15 driver.
   input  : SEQ  P <n> <entry>*n O <m> <op>*m
            CONC P <n> <entry>*n O <m> <mutop>*m
     entry: <kind> <codeI> <codeO> <inst> <beh> <nm> <mop>*nm
            kind fi fo t ti to pi po bad ; beh P S E A F K Z
            a call whose context is done carries the marker 9001 / 9002 as its first token,
            then 8001 / 8002 when the method called is fail / boom, then 7001..7007 for a scripted
            transport fault
     mop  : U|X c|s <k> <ix>*k          op : mop | C <k> <tok>*k
   output : SEQ  : outcome of each op joined by " | ", then
                   " || final CI=.. CO=.. SO=.. SI=.. || lists CI=.. .. || specagree=<bool>"
            CONC : the four chains in each shared state of the atomised script, joined by " | " *)
open Common

let n_of_string s = n_of_int (int_of_string s)
let sn n = string_of_int (int_of_n n)

let beh_of = function
  | "P" -> Onion.BPass | "S" -> Onion.BShortOk | "E" -> Onion.BShortErr
  | "A" -> Onion.BAlter | "F" -> Onion.BErrAfter | "K" -> Onion.BCancel | "Z" -> Onion.BShortClosed | s -> failwith ("beh " ^ s)

let node_of = function "c" -> Onion.NClient | "s" -> Onion.NService | s -> failwith ("node " ^ s)

let rec take k l = if k = 0 then ([], l) else
  match l with x :: r -> let (a, b) = take (k - 1) r in (x :: a, b) | [] -> failwith "c15: short line"

(* parses one U/X operation whose tag has already been read *)
let parse_mop tag rest =
  match rest with
  | nd :: k :: rest ->
    let (ixs, rest) = take (int_of_string k) rest in
    let ixs = Stdlib.List.map (fun s -> nat_of_int (int_of_string s)) ixs in
    let n = node_of nd in
    ((if tag = "U" then Onion.MUse (n, ixs) else Onion.MUnuse (n, ixs)), rest)
  | _ -> failwith "c15: bad mop"

let rec parse_mops k rest =
  if k = 0 then ([], rest) else
  match rest with
  | tag :: rest -> let (m, rest) = parse_mop tag rest in
    let (ms, rest) = parse_mops (k - 1) rest in (m :: ms, rest)
  | [] -> failwith "c15: short mops"

let parse_entry rest =
  match rest with
  | kind :: ci :: co :: inst :: beh :: nm :: rest ->
    let (mids, rest) = parse_mops (int_of_string nm) rest in
    let mk c = { Onion.code = n_of_string c; inst = n_of_string inst; hb = beh_of beh; hmid = mids } in
    let v = match kind with
      | "fi" -> Onion.VInvokeFn (mk ci)
      | "fo" -> Onion.VIOFn (mk co)
      | "t" -> Onion.VStruct (Some (mk ci, mk co), None)
      | "ti" -> Onion.VStruct (Some (mk ci, mk co), Some (Onion.SInv, mk "0"))
      | "to" -> Onion.VStruct (Some (mk ci, mk co), Some (Onion.SIO, mk "0"))
      | "pi" -> Onion.VStruct (None, Some (Onion.SInv, mk ci))
      | "po" -> Onion.VStruct (None, Some (Onion.SIO, mk co))
      | "bad" -> Onion.VStruct (None, None)
      | s -> failwith ("kind " ^ s) in
    (v, rest)
  | _ -> failwith "c15: bad entry"

let rec parse_pool k rest =
  if k = 0 then ([], rest) else
  let (v, rest) = parse_entry rest in
  let (vs, rest) = parse_pool (k - 1) rest in (v :: vs, rest)

let rec parse_ops k rest =
  if k = 0 then ([], rest) else
  match rest with
  | "C" :: n :: rest ->
    let (toks, rest) = take (int_of_string n) rest in
    let (ops, rest) = parse_ops (k - 1) rest in
    (Onion.OCall (Stdlib.List.map n_of_string toks) :: ops, rest)
  | tag :: rest ->
    let (m, rest) = parse_mop tag rest in
    let (ops, rest) = parse_ops (k - 1) rest in (Onion.OM m :: ops, rest)
  | [] -> failwith "c15: short ops"

let toks l = "(" ^ String.concat "," (Stdlib.List.map sn l) ^ ")"
let layer_s = function Onion.LCI -> "CI" | Onion.LCO -> "CO" | Onion.LSO -> "SO" | Onion.LSI -> "SI"
let res_s = function
  | Onion.ROk t -> "ok" ^ toks t | Onion.RErr e -> "err(" ^ sn e ^ ")" | Onion.RWire e -> "werr(" ^ sn e ^ ")"
  | Onion.RPanic -> "panic" | Onion.RStuck -> "stuck"
let ev_s = function
  | Onion.EEnter (l, i, r) -> "+" ^ layer_s l ^ "." ^ sn i ^ toks r
  | Onion.EExit (l, i, x) -> "-" ^ layer_s l ^ "." ^ sn i ^ "=" ^ res_s x
  | Onion.ECore r -> "*" ^ toks r
let status_s = function
  | Onion.SOk -> "ok" | Onion.SPanicInvalid -> "panic-invalid"
  | Onion.SPanicIndex -> "panic-index" | Onion.SBadIndex -> "bad-index"
let out_s = function
  | Onion.OutStatus st -> status_s st
  | Onion.OutCall (t, x) -> "call:" ^ String.concat ";" (Stdlib.List.map ev_s t) ^ "=>" ^ res_s x

let insts l = String.concat "," (Stdlib.List.map sn l)
let chains s =
  String.concat " " (Stdlib.List.map (fun l ->
    layer_s l ^ "=" ^ insts (Onion.clo_insts (Onion.read_handler l s))) Onion.layers)
let lists s =
  String.concat " " (Stdlib.List.map (fun l ->
    layer_s l ^ "=" ^ insts (Stdlib.List.map (fun h -> h.Onion.inst) (Onion.layer_pm l s).Onion.handlers)) Onion.layers)

let run line =
  match split_ws line with
  | mode :: "P" :: n :: rest ->
    let (pool, rest) = parse_pool (int_of_string n) rest in
    (match rest with
     | "O" :: m :: rest ->
       let (ops, rest) = parse_ops (int_of_string m) rest in
       if rest <> [] then failwith "c15: trailing tokens";
       if mode = "SEQ" then begin
         let (outs, s) = Onion.run pool ops Onion.sys_init in
         let (souts, t) = Onion.spec_run pool ops Onion.ssys_init in
         let agree = (outs = souts) && (t = Onion.abs s) in
         Printf.sprintf "%s || final %s || lists %s || specagree=%b"
           (String.concat " | " (Stdlib.List.map out_s outs)) (chains s) (lists s) agree
       end else begin
         (* the atomic manager operations of the mutator's Use/Unuse sequence *)
         let script = Stdlib.List.concat (Stdlib.List.map (function
           | Onion.OM (Onion.MUse (nd, ixs)) ->
             (match Onion.resolve pool ixs with
              | Some vs -> (match Onion.atomize true nd vs with Some a -> a | None -> [])
              | None -> failwith "c15: bad index")
           | Onion.OM (Onion.MUnuse (nd, ixs)) ->
             (match Onion.resolve pool ixs with
              | Some vs -> (match Onion.atomize false nd vs with Some a -> a | None -> [])
              | None -> failwith "c15: bad index")
           | Onion.OCall _ -> []) ops) in
         String.concat " | " (Stdlib.List.map chains (Onion.script_states script Onion.sys_init))
       end
     | _ -> failwith "c15: expected O")
  | _ -> failwith "c15: bad line"

let () = register "main" run
