(* C08 driver.  One input line = one S-expression describing a remote call (values as the Go walker printed
   them, the oracle tables of the harness for the abstract io decoder); one output line of tab-separated
   key=value fields.  The helpers up to [tuple_of] are the same as in drv_c07.ml.  See checks/C08.py. *)
open Common

(* ---- bytes ---- *)
let byte_tab : Byte.byte array =
  Array.init 256 (fun i -> match Byte0.of_N (n_of_int i) with Some b -> b | None -> failwith "byte")
let int_of_byte (b : Byte.byte) : int = int_of_n (Byte0.to_N b)

let bytes_of_hex (s : string) : Byte.byte list =
  let n = String.length s / 2 in
  let rec go i acc = if i < 0 then acc else
    go (i - 1) (byte_tab.(int_of_string ("0x" ^ String.sub s (2 * i) 2)) :: acc) in
  go (n - 1) []

let hex_of_bytes (l : Byte.byte list) : string =
  let b = Buffer.create 64 in
  Stdlib.List.iter (fun x -> Buffer.add_string b (Printf.sprintf "%02x" (int_of_byte x))) l;
  Buffer.contents b

let bytes_of_string (s : string) : Byte.byte list =
  Stdlib.List.init (String.length s) (fun i -> byte_tab.(Char.code s.[i]))

(* ---- S-expressions ---- *)
type sx = A of string | L of sx list

let parse_sx (s : string) : sx =
  let n = String.length s in
  let pos = ref 0 in
  let rec skip () = if !pos < n && s.[!pos] = ' ' then (incr pos; skip ()) in
  let rec one () =
    skip ();
    if !pos >= n then failwith "sexp: eof";
    if s.[!pos] = '(' then begin
      incr pos;
      let items = ref [] in
      let rec loop () =
        skip ();
        if !pos >= n then failwith "sexp: unclosed";
        if s.[!pos] = ')' then incr pos
        else (items := one () :: !items; loop ()) in
      loop ();
      L (Stdlib.List.rev !items)
    end else begin
      let st = !pos in
      while !pos < n && s.[!pos] <> ' ' && s.[!pos] <> '(' && s.[!pos] <> ')' do incr pos done;
      A (String.sub s st (!pos - st))
    end in
  one ()

let xbytes = function
  | A t when String.length t >= 1 && t.[0] = 'x' -> bytes_of_hex (String.sub t 1 (String.length t - 1))
  | _ -> failwith "sexp: expected x<hex>"

let ikind = function
  | "KInt" -> Enc.KInt | "KInt8" -> Enc.KInt8 | "KInt16" -> Enc.KInt16 | "KInt32" -> Enc.KInt32
  | "KInt64" -> Enc.KInt64 | "KUint" -> Enc.KUint | "KUint8" -> Enc.KUint8 | "KUint16" -> Enc.KUint16
  | "KUint32" -> Enc.KUint32 | "KUint64" -> Enc.KUint64 | "KUintptr" -> Enc.KUintptr
  | s -> failwith ("ikind " ^ s)
let ikind_name = function
  | Enc.KInt -> "KInt" | Enc.KInt8 -> "KInt8" | Enc.KInt16 -> "KInt16" | Enc.KInt32 -> "KInt32"
  | Enc.KInt64 -> "KInt64" | Enc.KUint -> "KUint" | Enc.KUint8 -> "KUint8" | Enc.KUint16 -> "KUint16"
  | Enc.KUint32 -> "KUint32" | Enc.KUint64 -> "KUint64" | Enc.KUintptr -> "KUintptr"

let fval = function
  | L [A "f"; A "nan"] -> Enc.FNaN
  | L [A "f"; A "inf"; A n] -> Enc.FInf (n = "1")
  | L [A "f"; A "fin"; t] -> Enc.FFin (xbytes t)
  | _ -> failwith "fval"

(* the heap of the case: cells given by the walker, plus cells allocated for unfolded values *)
let heap : (BinNums.coq_N * Enc.gval) list ref = ref []
let next_addr = ref 1000000
let cyc_mark = Enc.GUuid (bytes_of_string "cyc")
(* a typed nil held in an interface{} (nil slice / map / pointer): not a nil interface for reflect *)
let tnil_mark = Enc.GBigRat (Some BinNums.Z0, bytes_of_string "tnil")    (* written as l0; by the encoder model: any parsable bytes do *)

let rec gval (s : sx) : Enc.gval =
  match s with
  | L [A "nil"] -> Enc.GNil
  | L [A "bool"; A b] -> Enc.GBool (b = "1")
  | L [A "int"; A k; A z] -> Enc.GInt (ikind k, z_of_string z)
  | L (A "f" :: _) -> Enc.GFloat (fval s)
  | L [A "cx"; re; im; A z] -> Enc.GComplex (fval re, fval im, z = "1")
  | L [A "str"; t] -> Enc.GString (xbytes t)
  | L [A "bytes"; t] -> Enc.GBytes (xbytes t)
  | L (A "b2d" :: rows) ->
      Enc.GBytes2d (Stdlib.List.map (function A "nil" -> None | t -> Some (xbytes t)) rows)
  | L (A "slice" :: vs) -> Enc.GSlice (Stdlib.List.map gval vs)
  | L (A "list" :: vs) -> Enc.GList (Stdlib.List.map gval vs)
  | L (A "map" :: vs) -> Enc.GMap (Stdlib.List.map gval vs)
  | L (A "struct" :: name :: L (A "fields" :: fs) :: vs) ->
      Enc.GStruct (xbytes name, Stdlib.List.map xbytes fs, Stdlib.List.map gval vs)
  | L (A "anon" :: L (A "fields" :: fs) :: vs) ->
      Enc.GAnon (Stdlib.List.map xbytes fs, Stdlib.List.map gval vs)
  | L [A "time"; A y; A mo; A d; A h; A mi; A sec; A ns; A utc] ->
      Enc.GTime (z_of_string y, z_of_string mo, z_of_string d, z_of_string h, z_of_string mi,
                 z_of_string sec, z_of_string ns, utc = "1")
  | L [A "uuid"; t] -> Enc.GUuid (xbytes t)
  | L [A "bigint"; A z] -> Enc.GBigInt (z_of_string z)
  | L [A "bigfloat"; t] -> Enc.GBigFloat (xbytes t)
  | L [A "bigrat"; A "int"; A z] -> Enc.GBigRat (Some (z_of_string z), [])
  | L [A "bigrat"; A "frac"; t] -> Enc.GBigRat (None, xbytes t)
  | L [A "err"; t] -> Enc.GError (xbytes t)
  | L [A "cyc"] -> cyc_mark
  | L [A "tnil"] -> tnil_mark
  | L [A "ptr"; A a] -> Enc.GPtr (n_of_int (int_of_string a))
  | L [A "ptr"; v] ->
      (* unfolded form: allocate a cell *)
      let a = !next_addr in incr next_addr;
      let pv = gval v in
      heap := (n_of_int a, pv) :: !heap;
      Enc.GPtr (n_of_int a)
  | _ -> failwith "gval: unknown form"

let rec hlook a = function
  | [] -> None
  | (a', v) :: r -> if a = a' then Some v else hlook a r

(* unfolded text of a value, exactly as the Go walker prints it in inline mode *)
let rec show (seen : BinNums.coq_N list) (v : Enc.gval) : string =
  let sp l = String.concat "" (Stdlib.List.map (fun x -> " " ^ x) l) in
  let hx b = "x" ^ hex_of_bytes b in
  let fl = function
    | Enc.FNaN -> "(f nan)" | Enc.FInf n -> if n then "(f inf 1)" else "(f inf 0)"
    | Enc.FFin t -> "(f fin " ^ hx t ^ ")" in
  match v with
  | Enc.GNil -> "(nil)"
  | Enc.GBool b -> if b then "(bool 1)" else "(bool 0)"
  | Enc.GInt (k, z) -> "(int " ^ ikind_name k ^ " " ^ string_of_z z ^ ")"
  | Enc.GFloat f -> fl f
  | Enc.GComplex (re, im, z) -> "(cx " ^ fl re ^ " " ^ fl im ^ " " ^ (if z then "1" else "0") ^ ")"
  | Enc.GString s -> "(str " ^ hx s ^ ")"
  | Enc.GBytes b -> "(bytes " ^ hx b ^ ")"
  | Enc.GBytes2d rows -> "(b2d" ^ sp (Stdlib.List.map (function None -> "nil" | Some b -> hx b) rows) ^ ")"
  | Enc.GSlice vs -> "(slice" ^ sp (Stdlib.List.map (show seen) vs) ^ ")"
  | Enc.GList vs -> "(list" ^ sp (Stdlib.List.map (show seen) vs) ^ ")"
  | Enc.GMap vs -> "(map" ^ sp (Stdlib.List.map (show seen) vs) ^ ")"
  | Enc.GStruct (name, fs, vs) ->
      "(struct " ^ hx name ^ " (fields" ^ sp (Stdlib.List.map hx fs) ^ ")" ^ sp (Stdlib.List.map (show seen) vs) ^ ")"
  | Enc.GAnon (fs, vs) ->
      "(anon (fields" ^ sp (Stdlib.List.map hx fs) ^ ")" ^ sp (Stdlib.List.map (show seen) vs) ^ ")"
  | Enc.GTime (y, mo, d, h, mi, s, ns, utc) ->
      Printf.sprintf "(time %s %s %s %s %s %s %s %d)" (string_of_z y) (string_of_z mo) (string_of_z d)
        (string_of_z h) (string_of_z mi) (string_of_z s) (string_of_z ns) (if utc then 1 else 0)
  | Enc.GUuid t -> if v = cyc_mark then "(cyc)" else "(uuid " ^ hx t ^ ")"
  | Enc.GBigInt z -> "(bigint " ^ string_of_z z ^ ")"
  | Enc.GBigFloat t -> "(bigfloat " ^ hx t ^ ")"
  | Enc.GBigRat (Some z, _) -> if v = tnil_mark then "(nil)" else "(bigrat int " ^ string_of_z z ^ ")"
  | Enc.GBigRat (None, t) -> "(bigrat frac " ^ hx t ^ ")"
  | Enc.GError m -> "(err " ^ hx m ^ ")"
  | Enc.GPtr a ->
      if Stdlib.List.mem a seen then "(cyc)"
      else (match hlook a !heap with
            | Some pv -> "(ptr " ^ show (a :: seen) pv ^ ")"
            | None -> "(ptr ?)")

let show v = show [] v

(* ---- types ---- *)
let rec pty = function
  | A "i" -> Codec.TIface
  | A "s" -> Codec.TSurplus
  | A "l" -> Codec.TIfaceSlice
  | L [A "n"; A k] -> Codec.TNamed (n_of_int (int_of_string k))
  | L (A "t" :: ts) -> Codec.TTuple (Stdlib.List.map pty ts)
  | _ -> failwith "pty"

let rec show_pty = function
  | Codec.TIface -> "i" | Codec.TSurplus -> "s" | Codec.TIfaceSlice -> "l"
  | Codec.TNamed k -> "n" ^ string_of_int (int_of_n k)
  | Codec.TTuple ts -> "(t " ^ String.concat " " (Stdlib.List.map show_pty ts) ^ ")"

(* a surplus position is read into interface{} *)
let same_ty a b =
  let norm = function Codec.TSurplus -> Codec.TIface | t -> t in
  norm a = norm b

(* ---- the case ---- *)
let field name = function
  | L items ->
      (try Stdlib.List.find_map (function L (A n :: rest) when n = name -> Some rest | _ -> None) items
       with _ -> None)
  | _ -> None

let get name s = match field name s with Some r -> r | None -> failwith ("missing field " ^ name)
let geto name s = match field name s with Some r -> r | None -> []
let atom = function A a -> a | _ -> failwith "atom expected"
let flag = function A "1" -> true | A "0" -> false | _ -> failwith "flag expected"

let dopts l =
  match l with
  | [a; b; c; d; e] ->
      { Codec.o_long = n_of_int (int_of_string (atom a)); o_real = n_of_int (int_of_string (atom b));
        o_map = n_of_int (int_of_string (atom c)); o_struct = n_of_int (int_of_string (atom d));
        o_list = n_of_int (int_of_string (atom e)) }
  | _ -> failwith "dopts"

(* an oracle entry: (ty value) or (ty ERR) *)
type oracle = { oty : Codec.pty; oval : Enc.gval option }
let oracle_of = function
  | L [t; A "ERR"] -> { oty = pty t; oval = None }
  | L [t; v] -> { oty = pty t; oval = Some (gval v) }
  | _ -> failwith "oracle entry"

let hdr_oracle = function
  | L [k; A "ERR"] -> (xbytes k, None)
  | L [k; v] -> (xbytes k, Some (gval v))
  | _ -> failwith "header oracle entry"

let fuel = nat_of_int 100000

exception Type_mismatch of string

let tuple_of (tbl : oracle list) (ts : Codec.pty list) : Enc.gval option =
  (* element i of the list is read into ts[i]: the oracle entry i must have been computed for that type *)
  let rec go i ts tbl acc =
    match ts, tbl with
    | [], _ -> Some (Enc.GSlice (Stdlib.List.rev acc))
    | _ :: _, [] -> raise (Type_mismatch (Printf.sprintf "no oracle entry for position %d" i))
    | t :: tr, o :: orr ->
        if not (same_ty t o.oty) then
          raise (Type_mismatch (Printf.sprintf "position %d: model reads into %s, the property expects %s"
                                  i (show_pty t) (show_pty o.oty)));
        (match o.oval with
         | None -> None
         | Some v -> go (i + 1) tr orr (v :: acc)) in
  go 0 ts tbl []


let run_case (s : sx) : string =
  heap := []; next_addr := 1000000;
  let b = Buffer.create 1024 in
  let add k v = Buffer.add_string b (k ^ "=" ^ v ^ "\t") in
  (* the client's decoder options carry a marker (+100 on the opaque list option) so that the one abstract
     io decoder handed to the model can tell the two sides apart *)
  let mark d = { d with Codec.o_list = n_of_int (int_of_n d.Codec.o_list + 100) } in
  let co = match get "copts" s with
    | sm :: rest -> { Codec.c_simple = flag sm; c_dec = mark (dopts rest) } | _ -> failwith "copts" in
  let so = match get "sopts" s with
    | sm :: dbg :: rest -> { Codec.s_simple = flag sm; s_debug = flag dbg; s_dec = dopts rest } | _ -> failwith "sopts" in
  Stdlib.List.iter (function
    | L [A a; v] -> heap := (n_of_int (int_of_string a), gval v) :: !heap
    | _ -> failwith "heap cell") (geto "heap" s);
  let lower_tbl = Stdlib.List.map (function L [a; c] -> (xbytes a, xbytes c) | _ -> failwith "lower") (geto "lower" s) in
  let lower (x : Byte.byte list) = match Stdlib.List.assoc_opt x lower_tbl with
    | Some y -> y | None -> failwith ("no ToLower entry for " ^ hex_of_bytes x) in
  let behave = ref [] in
  let methods = Stdlib.List.map (function
    | L [A id; name; ms; cx; L (A "params" :: ps); ve; L (A "results" :: rs); er; A bh] ->
        behave := (n_of_int (int_of_string id), (bh, Stdlib.List.length rs)) :: !behave;
        { Codec.m_id = n_of_int (int_of_string id); m_name = xbytes name; m_missing = flag ms; m_ctx = flag cx;
          m_params = Stdlib.List.map pty ps;
          m_velem = (match ve with L [A "velem"; t] -> Some (pty t) | _ -> None);
          m_results = Stdlib.List.map pty rs; m_err = flag er }
    | _ -> failwith "method") (geto "methods" s) in
  let svc = Stdlib.List.fold_left (fun r m -> Codec.radd lower m r) [] methods in
  let args = Stdlib.List.map gval (geto "args" s) in
  let pairs l = Stdlib.List.map (function L [k; v] -> (xbytes k, gval v) | _ -> failwith "header") l in
  let hdrs = pairs (geto "hdrs" s) in
  let orargs = Stdlib.List.map oracle_of (geto "orargs" s) in
  let orres = Stdlib.List.map oracle_of (geto "orres" s) in
  let orhdrs = Stdlib.List.map hdr_oracle (geto "orhdrs" s) in
  let zeros = Stdlib.List.map oracle_of (geto "zeros" s) in
  let rtypes = Stdlib.List.map pty (geto "rtypes" s) in
  let stack = (match field "stack" s with Some [x] -> xbytes x | _ -> []) in
  let decerr = (match field "decerr" s with Some [x] -> xbytes x | _ -> []) in
  let is_client d = int_of_n d.Codec.o_list >= 100 in
  let hdr_table tbl =
    if Stdlib.List.exists (fun (_, v) -> v = None) tbl then None
    else Some (Stdlib.List.map (fun (k, v) -> (k, match v with Some x -> x | None -> Enc.GNil)) tbl) in
  let io_dec_hdrs d _ _ = if is_client d then Some [] else hdr_table orhdrs in
  let io_dec d _ (t : Codec.pty) _ : Enc.gval option =
    let tbl = if is_client d then orres else orargs in
    match t with
    | Codec.TTuple ts -> tuple_of tbl ts
    | Codec.TIfaceSlice -> tuple_of tbl (Stdlib.List.map (fun _ -> Codec.TIface) tbl)
    | t ->
        (match tuple_of tbl [t] with
         | Some (Enc.GSlice [v]) -> Some v
         | _ -> None) in
  let zero t = match Stdlib.List.find_opt (fun o -> same_ty o.oty t) zeros with
    | Some { oval = Some v; _ } -> v | _ -> failwith ("no zero value for " ^ show_pty t) in
  let show_vals vs = "[" ^ String.concat ";" (Stdlib.List.map show vs) ^ "]" in
  let scripted () : Call.fout =
    match field "result" s with
    | Some [L (A "values" :: vs)] -> Call.FRet (Stdlib.List.map gval vs, None)
    | Some [L [A "error"; m]] -> Call.FRet ([], Some (xbytes m))
    | Some [L [A "panic"; m]] -> Call.FPanic (xbytes m)
    | _ -> failwith "result" in
  let rec firstn n l = if n <= 0 then [] else match l with [] -> [] | x :: r -> x :: firstn (n - 1) r in
  let impl (id : BinNums.coq_N) (a : Enc.gval list) : Call.fout =
    match Stdlib.List.assoc_opt id !behave with
    | Some ("conc", _) ->
        (* the functions of the concurrent family: f_k(x, s) = ("f<k>(<x>,<s>)", x*100+k) *)
        (match a with
         | [Enc.GInt (_, x); Enc.GString str] ->
             let k = int_of_n id in
             let text = bytes_of_string ("f" ^ string_of_int k ^ "(" ^ string_of_z x ^ ",") @ str @ bytes_of_string ")" in
             Call.FRet ([Enc.GString text; Enc.GInt (Enc.KInt, BinInt.Z.add (BinInt.Z.mul x (z_of_int 100)) (z_of_int k))], None)
         | _ -> Call.FPanic (bytes_of_string "conc: unexpected arguments"))
    | Some ("echo", nres) ->
        (match scripted () with
         | Call.FRet (_, None) -> Call.FRet (firstn nres a, None)
         | other -> other)
    | _ -> scripted () in
  let tr_req bts = [bts] in
  let tr_resp bts = bts in
  let show_log (l : Call.log) =
    "[" ^ String.concat ";" (Stdlib.List.map (fun (id, a) -> string_of_int (int_of_n id) ^ ":" ^ show_vals a) l) ^ "]" in
  let via = atom (Stdlib.List.hd (get "via" s)) in
  (try
    if via = "invoke" then begin
      let call = xbytes (Stdlib.List.hd (get "call" s)) in
      add "name" (hex_of_bytes call);
      let (r, l) = Call.invoke fuel !heap lower io_dec io_dec_hdrs zero impl stack decerr tr_req tr_resp
                     co so svc [] rtypes call args hdrs in
      (match r with
       | Call.RRes vs -> add "r" "res"; add "vals" (show_vals vs)
       | Call.RErr (m, t) -> add "r" "err"; add "emsg" (hex_of_bytes m); add "timeout" (if t then "1" else "0")
       | Call.RFail -> add "r" "fail");
      add "log" (show_log l)
    end else begin
      let p = get "proxy" s in
      let pf name = match Stdlib.List.find_map (function L (A n :: rest) when n = name -> Some rest | _ -> None) p with
        | Some r -> r | None -> failwith ("proxy field " ^ name) in
      let path = Stdlib.List.map xbytes (pf "path") in
      let fieldp = Stdlib.List.fold_left (fun acc f -> Call.field_path acc f) [] path in
      let tag = (match pf "tag" with [x] -> xbytes x | _ -> []) in
      let ns = (match pf "ns" with [x] -> xbytes x | _ -> []) in
      let pctx = flag (Stdlib.List.hd (pf "ctx")) in
      let variadic = flag (Stdlib.List.hd (pf "variadic")) in
      let nfixed = int_of_string (atom (Stdlib.List.hd (pf "nfixed"))) in
      let psig = { Call.p_variadic = variadic; p_outs = rtypes; p_err = flag (Stdlib.List.hd (pf "err")) } in
      (* the Go call  proxy.F(ctx?, a1..an, tail...)  as the reflect.MakeFunc closure sees it: the variadic tail is one slice *)
      let rec split n l = if n <= 0 then ([], l) else match l with [] -> ([], []) | x :: r -> let (a, c) = split (n - 1) r in (x :: a, c) in
      let ins =
        if variadic then
          let (fixed, tail) = split nfixed args in
          Stdlib.List.map (fun v -> Call.AVal v) fixed @ [Call.AVal (match tail with [] -> Enc.GNil | _ -> Enc.GSlice tail)]
        else Stdlib.List.map (fun v -> Call.AVal v) args in
      let ins = if pctx then Call.ACtx :: ins else ins in
      add "name" (hex_of_bytes (Call.mangle ns tag fieldp));
      let (r, l) = Call.proxy_call fuel !heap lower io_dec io_dec_hdrs zero impl stack decerr tr_req tr_resp
                     co so svc [] psig ns tag fieldp ins hdrs in
      (match r with
       | Call.PRet (vs, e) ->
           add "p" "ret"; add "vals" (show_vals vs);
           (match e with Some m -> add "perr" (hex_of_bytes m) | None -> add "perr" "none")
       | Call.PPanic m -> add "p" "panic"; add "pmsg" (hex_of_bytes m));
      add "log" (show_log l)
    end
  with Type_mismatch m -> add "r" ("TYPE-MISMATCH:" ^ String.map (fun c -> if c = ' ' then '_' else c) m));
  Buffer.contents b

let run line = run_case (parse_sx line)

let () = register "main" run
