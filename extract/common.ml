(* Hand-written glue between text lines and the extracted datatypes (trusted). *)
open BinNums

let rec pos_of_int (n : int) : positive =
  if n <= 1 then Coq_xH
  else if n land 1 = 0 then Coq_xO (pos_of_int (n lsr 1))
  else Coq_xI (pos_of_int (n lsr 1))

let z_of_int (n : int) : coq_Z =
  if n = 0 then Z0 else if n > 0 then Zpos (pos_of_int n) else Zneg (pos_of_int (-n))

let n_of_int (n : int) : coq_N = if n = 0 then N0 else Npos (pos_of_int n)

let ten = z_of_int 10

(* arbitrary-precision decimal <-> Z using the extracted arithmetic *)
let z_of_string (s : string) : coq_Z =
  let neg = String.length s > 0 && s.[0] = '-' in
  let acc = ref Z0 in
  String.iteri (fun i c ->
    if i = 0 && (c = '-' || c = '+') then ()
    else if c >= '0' && c <= '9' then
      acc := BinInt.Z.add (BinInt.Z.mul !acc ten) (z_of_int (Char.code c - 48))
    else failwith ("z_of_string: " ^ s)) s;
  if neg then BinInt.Z.opp !acc else !acc

let rec int_of_pos (p : positive) : int =
  match p with Coq_xH -> 1 | Coq_xO q -> 2 * int_of_pos q | Coq_xI q -> 2 * int_of_pos q + 1

let int_of_z (z : coq_Z) : int =
  match z with Z0 -> 0 | Zpos p -> int_of_pos p | Zneg p -> - (int_of_pos p)

let int_of_n (n : coq_N) : int = match n with N0 -> 0 | Npos p -> int_of_pos p

let string_of_z (z : coq_Z) : string =
  let neg, z = (match z with Zneg p -> true, Zpos p | _ -> false, z) in
  if z = Z0 then "0" else begin
    let buf = Buffer.create 24 in
    let cur = ref z in
    while !cur <> Z0 do
      let (q, r) = BinInt.Z.div_eucl !cur ten in
      Buffer.add_char buf (Char.chr (48 + int_of_z r));
      cur := q
    done;
    let s = Buffer.contents buf in
    let n = String.length s in
    let rev = String.init n (fun i -> s.[n - 1 - i]) in
    if neg then "-" ^ rev else rev
  end

let rec nat_of_int (n : int) : Datatypes.nat =
  if n <= 0 then Datatypes.O else Datatypes.S (nat_of_int (n - 1))

let rec int_of_nat (n : Datatypes.nat) : int =
  match n with Datatypes.O -> 0 | Datatypes.S m -> 1 + int_of_nat m

let split_ws (s : string) : string list =
  Stdlib.List.filter (fun x -> x <> "") (String.split_on_char ' ' (String.trim s))

(* registry of line-oriented model runners: name -> (input line -> output line) *)
let runners : (string, string -> string) Hashtbl.t = Hashtbl.create 16
let register name f = Hashtbl.replace runners name f
