(* C11 driver.
   input : a cell name  <transport>:<server|client>:<pool|nopool>:<fault>   (Panic.cell_name)
           or the word  cells      -> all applicable cell names, space separated
           or the word  accounted  -> table_accounted goroutines_present #unresolved format_shielded udp_max_body format_total
   output: <verdict>|<contained 0/1>|<escaped 0/1>|<recovering frame or ->|<stack, innermost first, comma separated>|<calls during teardown succeed 0/1>
   The verdict is computed by the extracted model over the extracted copy of Gen/RecoverTable.v. *)
open Common

let char_of_ascii (a : Ascii.ascii) : char =
  match a with
  | Ascii.Ascii (b0, b1, b2, b3, b4, b5, b6, b7) ->
    let bit b k = if b then 1 lsl k else 0 in
    Char.chr (bit b0 0 + bit b1 1 + bit b2 2 + bit b3 3 + bit b4 4 + bit b5 5 + bit b6 6 + bit b7 7)

let ascii_of_char (c : char) : Ascii.ascii =
  let n = Char.code c in
  let b k = (n lsr k) land 1 = 1 in
  Ascii.Ascii (b 0, b 1, b 2, b 3, b 4, b 5, b 6, b 7)

let rec ml_of_coq (s : String0.string) : string =
  match s with
  | String0.EmptyString -> ""
  | String0.String (a, r) -> String.make 1 (char_of_ascii a) ^ ml_of_coq r

let coq_of_ml (s : string) : String0.string =
  let r = ref String0.EmptyString in
  for i = String.length s - 1 downto 0 do r := String0.String (ascii_of_char s.[i], !r) done;
  !r

let b01 b = if b then "1" else "0"

let run line =
  let t = RecoverTable.table in
  match String.trim line with
  | "cells" -> String.concat " " (Stdlib.List.map (fun c -> ml_of_coq (Panic.cell_name c)) Panic.cells)
  | "accounted" ->
    Printf.sprintf "%s %s %d %s %d %s" (b01 (Panic.table_accounted t)) (b01 (Panic.goroutines_present t))
      (Stdlib.List.length (Panic.unresolved_entries t)) (b01 (Panic.format_shielded t)) (int_of_n Panic.udp_max_body)
      (b01 (Panic.format_total t))
  | name ->
    (match Panic.find_cell (coq_of_ml name) with
     | None -> "NOCELL"
     | Some c ->
       let v = Panic.verdict_of t c in
       Printf.sprintf "%s|%s|%s|%s|%s|%s" (ml_of_coq (Panic.verdict_name v)) (b01 (Panic.contained v))
         (b01 (Panic.escaped c))
         (match Panic.recovering_frame t c with Some f -> ml_of_coq f | None -> "-")
         (String.concat "," (Stdlib.List.map ml_of_coq (Panic.stack_names t c)))
         (b01 (Panic.during_teardown_ok t c)))

let () = register "main" run
