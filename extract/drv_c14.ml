(* C14 driver.  One input line -> one output line.

   eseq # <get> <choice> <free> @ op @ op ... # ...      encoder sessions
        get = pool | new:<wid or ->     choice = -1 (new) or index in the model pool (newest first)
        ops as in harness/cmd/c14 (E/W <value tokens>, T <byte>, F R B S0 S1, SW <wid|->, Y Q G)
        -> sessions separated by " # ", observations separated by spaces
           fl:<err>:<wid|->:<hex>  by:<hex>  bo:0|1  er:<err>  u
   dseq # <get> <choice> <free> @ op ...                  decoder sessions
        get = pool | newdec:<hex> | newreader:<hex> ; ops D R S0 S1 RB<hex> RR<hex> BF O<l.r.m.s.li> G Q P
        -> d:<value>:<err>:<c0|c1>  d:HANG  er:<err>  bo:  op:<l.r.m.s.li>  u
   own <simple> <fast 0|1> <dty> <wtok>                   ownership of a decoded value -> owned|view
   api <name> <fast>                                      -> view|owned
   reg <locked> t:<f,f> ... ; v... ; <sched items i*  ixN>  registry LTS
        -> per thread tokens, "|"-separated ; finished ; isolated *)
open Common

let hex_of_bytes (l : Byte.byte list) : string =
  String.concat "" (Stdlib.List.map (fun b -> Printf.sprintf "%02x" (int_of_n (Byte0.to_N b))) l)

let byte_of_int (i : int) : Byte.byte =
  match Byte0.of_N (n_of_int i) with Some b -> b | None -> failwith "byte"

let bytes_of_hex (s : string) : Byte.byte list =
  let n = String.length s / 2 in
  Stdlib.List.init n (fun i -> byte_of_int (int_of_string ("0x" ^ String.sub s (2 * i) 2)))

(* split a token list at a separator token *)
let split_on (sep : string) (l : string list) : string list list =
  let rec go acc cur = function
    | [] -> Stdlib.List.rev (Stdlib.List.rev cur :: acc)
    | x :: r when x = sep -> go (Stdlib.List.rev cur :: acc) [] r
    | x :: r -> go acc (x :: cur) r in
  go [] [] l

(* ---------------------------------------------------------------- values *)
let rec parse_val (toks : string list) : Pool.coq_val * string list =
  match toks with
  | [] -> failwith "value: eof"
  | t :: r ->
    let body = String.sub t 1 (String.length t - 1) in
    (match t.[0] with
     | 'N' -> (Pool.VNil, r)
     | 'I' -> (Pool.VInt (z_of_string body), r)
     | 'S' -> (Pool.VStr (bytes_of_hex body), r)
     | 'L' -> let (vs, r') = parse_vals (int_of_string body) r in (Pool.VList vs, r')
     | 'O' ->
       (match String.split_on_char '.' body with
        | [c; a; n] ->
          let (vs, r') = parse_vals (int_of_string n) r in
          (Pool.VObj (nat_of_int (int_of_string c), n_of_int (int_of_string a), vs), r')
        | _ -> failwith "value: O")
     | 'X' -> (Pool.VBad, r)
     | _ -> failwith ("value: " ^ t))
and parse_vals n toks =
  if n = 0 then ([], toks)
  else let (v, r) = parse_val toks in let (vs, r') = parse_vals (n - 1) r in (v :: vs, r')

let eerr = function
  | None -> "-"
  | Some Pool.EUnsupported -> "unsupported"
  | Some Pool.EEOF -> "EOF"
  | Some Pool.EInvalidTag -> "tag"
  | Some _ -> "other"

let writer_of = function "-" -> None | s -> Some (n_of_int (int_of_string s))

let parse_eop (toks : string list) =
  match toks with
  | "E" :: r -> Pool.EEncode (fst (parse_val r))
  | "W" :: r -> Pool.EWrite (fst (parse_val r))
  | ["T"; b] -> Pool.EWriteTag (byte_of_int (int_of_string b))
  | ["F"] -> Pool.EFlush
  | ["R"] -> Pool.EReset
  | ["B"] -> Pool.EResetBuffer
  | ["S0"] -> Pool.ESimple false
  | ["S1"] -> Pool.ESimple true
  | ["SW"; w] -> Pool.ESetWriter (writer_of w)
  | ["Y"] -> Pool.EBytes
  | ["Q"] -> Pool.EIsSimple
  | ["G"] -> Pool.EGetError
  | _ -> failwith ("eop: " ^ String.concat " " toks)

let show_eobs = function
  | Pool.OFlushed (e, None) -> "fl:" ^ eerr e ^ ":-:"
  | Pool.OFlushed (e, Some (w, b)) -> "fl:" ^ eerr e ^ ":" ^ string_of_int (int_of_n w) ^ ":" ^ hex_of_bytes b
  | Pool.OBytes b -> "by:" ^ hex_of_bytes b
  | Pool.OBool b -> if b then "bo:1" else "bo:0"
  | Pool.OErr e -> "er:" ^ eerr e
  | Pool.OUnit -> "u"

let choice_of (s : string) = let k = int_of_string s in if k < 0 then None else Some (nat_of_int k)

let prefixed p s = String.length s >= String.length p && String.sub s 0 (String.length p) = p
let after p s = String.sub s (String.length p) (String.length s - String.length p)

(* "eseq:abcd" / "dseq:abcd": the repairs present in the tree under test (one 0/1 flag each):
   a ResetBuffer resets off, b FreeEncoder detaches Writer, c Decoder.Reset always resets the
   reference list, d ResetReader drops a caller's slice *)
let variant_of (head : string) : Pool.variant =
  match String.index_opt head ':' with
  | None -> Pool.as_found
  | Some i ->
    let f = String.sub head (i + 1) (String.length head - i - 1) in
    let b k = String.length f > k && f.[k] = '1' in
    { Pool.v_resetbuffer_off = b 0; v_free_writer = b 1; v_reset_refer_always = b 2; v_resetreader_drops = b 3 }

let run_eseq (toks : string list) : string =
  let vr = variant_of (Stdlib.List.hd toks) in
  let sessions = Stdlib.List.tl (split_on "#" toks) in
  let pool = ref [] in
  let outs = Stdlib.List.map (fun sess ->
    match split_on "@" sess with
    | [get; choice; free] :: ops ->
      let e0 =
        if get = "pool" then begin
          let (e, p) = Pool.eget Pool.crefer0 Pool.ccls0 !pool (choice_of choice) in
          pool := p; e end
        else Pool.c_new_encoder (writer_of (after "new:" get)) in
      let st = ref e0 in
      let obs = Stdlib.List.map (fun op ->
        let (s', o) = Pool.cv_enc_step vr !st (parse_eop op) in st := s'; show_eobs o) ops in
      if free = "1" then pool := Pool.cv_free_enc vr !st :: !pool;
      String.concat " " obs
    | _ -> failwith "eseq: bad session header") sessions in
  String.concat " # " outs

(* ---------------------------------------------------------------- decoders *)
let rec show_dval = function
  | Pool.DNil -> "nil"
  | Pool.DInt z -> "i" ^ string_of_z z
  | Pool.DLong (ty, z) -> if int_of_n ty = 0 then "i" ^ string_of_z z else "l" ^ string_of_int (int_of_n ty) ^ ":" ^ string_of_z z
  | Pool.DReal (ty, txt) -> "r" ^ string_of_int (int_of_n ty) ^ ":" ^ String.concat "" (Stdlib.List.map (fun b -> String.make 1 (Char.chr (int_of_n (Byte0.to_N b)))) txt)
  | Pool.DBool b -> if b then "b1" else "b0"
  | Pool.DStr s -> "s" ^ hex_of_bytes s
  | Pool.DList vs -> "[" ^ String.concat "," (Stdlib.List.map show_dval vs) ^ "]"
  | Pool.DRefTo v -> "&" ^ show_dval v
  | Pool.DPanic -> "PANIC"

let parse_dop (op : string) =
  match op with
  | "D" -> Pool.DDecode ()
  | "R" -> Pool.DReset
  | "S0" -> Pool.DSimple false
  | "S1" -> Pool.DSimple true
  | "BF" -> Pool.DResetBuffer
  | "G" -> Pool.DGetError
  | "Q" -> Pool.DIsSimple
  | "P" -> Pool.DGetOpts
  | _ when prefixed "RB" op -> Pool.DResetBytes (bytes_of_hex (after "RB" op))
  | _ when prefixed "RR" op -> Pool.DResetReader (bytes_of_hex (after "RR" op))
  | _ when prefixed "O" op ->
    (match Stdlib.List.map (fun x -> n_of_int (int_of_string x)) (String.split_on_char '.' (after "O" op)) with
     | [l; r; m; s; li] -> Pool.DSetOpts { Pool.o_long = l; o_real = r; o_map = m; o_struct = s; o_list = li }
     | _ -> failwith "dop: O")
  | _ -> failwith ("dop: " ^ op)

let show_dobs = function
  | Pool.ODecoded (v, e, c) -> "d:" ^ show_dval v ^ ":" ^ eerr e ^ (if c then ":c1" else ":c0")
  | Pool.ODHang -> "d:HANG"
  | Pool.ODErr e -> "er:" ^ eerr e
  | Pool.ODBool b -> if b then "bo:1" else "bo:0"
  | Pool.ODOpts o ->
    Printf.sprintf "op:%d.%d.%d.%d.%d" (int_of_n o.Pool.o_long) (int_of_n o.Pool.o_real) (int_of_n o.Pool.o_map)
      (int_of_n o.Pool.o_struct) (int_of_n o.Pool.o_list)
  | Pool.ODUnit -> "u"

let run_dseq (toks : string list) : string =
  let vr = variant_of (Stdlib.List.hd toks) in
  let sessions = Stdlib.List.tl (split_on "#" toks) in
  let pool = ref [] in
  let outs = Stdlib.List.map (fun sess ->
    match split_on "@" sess with
    | [get; choice; free] :: ops ->
      let d0 =
        if get = "pool" then begin
          let (d, p) = Pool.dget [] () !pool (choice_of choice) in
          pool := p; d end
        else if prefixed "newdec:" get then Pool.c_new_decoder (bytes_of_hex (after "newdec:" get))
        else Pool.c_new_decoder_from_reader (bytes_of_hex (after "newreader:" get)) in
      let st = ref d0 in
      let obs = Stdlib.List.map (fun op ->
        match op with
        | [o] -> let (s', ob) = Pool.cv_dec_step vr !st (parse_dop o) in st := s'; show_dobs ob
        | _ -> failwith "dseq: op") ops in
      if free = "1" then pool := Pool.cv_free_dec vr !st :: !pool;
      String.concat " " obs
    | _ -> failwith "dseq: bad session header") sessions in
  String.concat " # " outs

(* ---------------------------------------------------------------- ownership *)
let rec parse_dty (toks : string list) : Pool.dty * string list =
  match toks with
  | "str" :: r -> (Pool.TString, r)
  | "bytes" :: r -> (Pool.TBytes, r)
  | "arr" :: r -> (Pool.TByteArray, r)
  | "scalar" :: r -> (Pool.TScalar, r)
  | "iface" :: r -> (Pool.TIface, r)
  | "slice" :: r -> let (e, r') = parse_dty r in (Pool.TSlice e, r')
  | "ptr" :: r -> let (e, r') = parse_dty r in (Pool.TPtr e, r')
  | "map" :: r -> let (k, r1) = parse_dty r in let (v, r2) = parse_dty r1 in (Pool.TMap (k, v), r2)
  | t :: r when prefixed "struct" t ->
    let n = int_of_string (after "struct" t) in
    let rec go n r = if n = 0 then ([], r) else let (x, r1) = parse_dty r in let (xs, r2) = go (n - 1) r1 in (x :: xs, r2) in
    let (fs, r') = go n r in (Pool.TStruct fs, r')
  | _ -> failwith "dty"

let rec parse_wtok (toks : string list) : Pool.wtok * string list =
  match toks with
  | "digit" :: r -> (Pool.WDigit, r) | "null" :: r -> (Pool.WNull, r) | "empty" :: r -> (Pool.WEmpty, r)
  | "bool" :: r -> (Pool.WBool, r) | "num" :: r -> (Pool.WNum, r) | "naninf" :: r -> (Pool.WNaNInf, r)
  | "char" :: r -> (Pool.WChar, r) | "s" :: r -> (Pool.WStr, r) | "b" :: r -> (Pool.WBytes, r)
  | "guid" :: r -> (Pool.WGuid, r) | "time" :: r -> (Pool.WTime, r)
  | t :: r when prefixed "list" t ->
    let (ws, r') = parse_wtoks (int_of_string (after "list" t)) r in (Pool.WList ws, r')
  | t :: r when prefixed "obj" t ->
    let (ws, r') = parse_wtoks (int_of_string (after "obj" t)) r in (Pool.WObj ws, r')
  | t :: r when prefixed "map" t ->
    let (ws, r') = parse_wtoks (2 * int_of_string (after "map" t)) r in
    let rec pairs = function a :: b :: l -> (a, b) :: pairs l | _ -> [] in
    (Pool.WMap (pairs ws), r')
  | t :: r when prefixed "ref" t -> (Pool.WRefTo (nat_of_int (int_of_string (after "ref" t))), r)
  | _ -> failwith "wtok"
and parse_wtoks n toks =
  if n = 0 then ([], toks)
  else let (w, r) = parse_wtok toks in let (ws, r') = parse_wtoks (n - 1) r in (w :: ws, r')

let run_own = function
  | simple :: fast :: rest ->
    let (ty, r1) = parse_dty rest in
    let (w, _) = parse_wtok r1 in
    let m = { Pool.om_simple = (simple = "1"); om_fast = (fun _ -> fast = "1") } in
    let res = Pool.own_decode m (nat_of_int 40) ty w [] (nat_of_int 0) in
    if Pool.all_owned res.Pool.or_val && Stdlib.List.for_all Pool.all_owned res.Pool.or_refs then "owned" else "view"
  | _ -> failwith "own"

let run_api = function
  | [name; fast] ->
    let f = (fast = "1") in
    let show = function Pool.View -> "view" | Pool.Owned -> "owned" in
    (match name with
     | "UnsafeNext" -> show (Pool.view_api_own Pool.UnsafeNext f)
     | "UnsafeUntil" -> show (Pool.view_api_own Pool.UnsafeUntil f)
     | "ReadUnsafeString" -> show (Pool.view_api_own Pool.ReadUnsafeString f)
     | "EncoderBuffer" -> show (Pool.view_api_own Pool.EncoderBuffer f)
     | "EncoderUnsafeString" -> show (Pool.view_api_own Pool.EncoderUnsafeString f)
     | "Next" -> show (Pool.safe_api_own Pool.ApiNext f)
     | "Until" -> show (Pool.safe_api_own Pool.ApiUntil f)
     | "ReadSafeString" -> show (Pool.safe_api_own Pool.ApiReadSafeString f)
     | "ReadString" -> show (Pool.safe_api_own Pool.ApiReadString f)
     | "ReadBytes" -> show (Pool.safe_api_own Pool.ApiReadBytes f)
     | "ReadStringAsBytes" -> show (Pool.safe_api_own Pool.ApiReadStringAsBytes f)
     | "EncoderBytes" -> show (Pool.safe_api_own Pool.EncoderBytes f)
     | "EncoderString" -> show (Pool.safe_api_own Pool.EncoderString f)
     | _ -> failwith ("api: " ^ name))
  | _ -> failwith "api"

(* ---------------------------------------------------------------- registry *)
let rec parse_sval (toks : string list) : Registry.sval * string list =
  match toks with
  | t :: r when prefixed "v" t ->
    (match String.split_on_char '.' (after "v" t) with
     | [ty; n] ->
       let rec kids n r =
         if n = 0 then ([], r)
         else match r with
           | k :: r1 when prefixed "k" k ->
             let (v, r2) = parse_sval r1 in
             let (ks, r3) = kids (n - 1) r2 in
             ((nat_of_int (int_of_string (after "k" k)), v) :: ks, r3)
           | _ -> failwith "sval: kid" in
       let (ks, r') = kids (int_of_string n) r in
       (Registry.SV (nat_of_int (int_of_string ty), ks), r')
     | _ -> failwith "sval")
  | _ -> failwith "sval: token"

let show_tok = function
  | Registry.Full t -> "F" ^ string_of_int (int_of_nat t)
  | Registry.Half t -> "H" ^ string_of_int (int_of_nat t)
  | Registry.Stuck -> "STUCK"

let run_reg (toks : string list) : string =
  match split_on ";" toks with
  | [hd; vals; sched] ->
    let locked = (Stdlib.List.hd hd = "1") in
    let te = Stdlib.List.map (fun t ->
      let body = after "t:" t in
      if body = "" then [] else Stdlib.List.map (fun x -> nat_of_int (int_of_string x)) (String.split_on_char ',' body))
      (Stdlib.List.tl hd) in
    let rec pv toks = if toks = [] then [] else let (v, r) = parse_sval toks in v :: pv r in
    let vs = pv vals in
    let st = ref (Registry.init vs) in
    let isolated = ref true in
    let blocked = ref false in
    let step1 i =
      if not (Registry.others_built (!st).Registry.sh (nat_of_int i)) then
        (match Registry.step te false !st (nat_of_int i) with Some _ -> isolated := false | None -> ());
      match Registry.step te locked !st (nat_of_int i) with
      | Some s' -> st := s'; true
      | None -> false in
    Stdlib.List.iter (fun item ->
      if String.contains item '*' then begin
        let i = int_of_string (String.sub item 0 (String.index item '*')) in
        while step1 i do () done
      end else begin
        match String.split_on_char 'x' item with
        | [i; n] -> for _ = 1 to int_of_string n do if not (step1 (int_of_string i)) then blocked := true done
        | _ -> failwith "sched item"
      end) sched;
    let outs = Stdlib.List.map (fun th -> String.concat " " (Stdlib.List.map show_tok th.Registry.out)) (!st).Registry.threads in
    let seqs = Stdlib.List.map (fun v -> String.concat " " (Stdlib.List.map show_tok (Registry.seq_out v))) vs in
    Printf.sprintf "%s ; finished=%b isolated=%b blocked=%b ; %s" (String.concat " | " outs)
      (Registry.finished !st) !isolated !blocked (String.concat " | " seqs)
  | _ -> failwith "reg: sections"

let run line =
  match split_ws line with
  | h :: r when prefixed "eseq" h -> run_eseq (h :: r)
  | h :: r when prefixed "dseq" h -> run_dseq (h :: r)
  | "own" :: r -> run_own r
  | "api" :: r -> run_api r
  | "reg" :: r -> run_reg r
  | _ -> failwith "c14: bad line"

let () = register "main" run
