(* C16 driver.
   R <mode> <n> <retry> <idem 0|1> <carry 0|1> <min ns> <max ns> { <outs|-> <idem -|0|1> <retry -|int> <retried int> }*
       mode: failover failtry failfast default;  outs: letters O E P, attempt k carries payload k,
       every attempt after the script fails with error 999
     -> per call "urls=<i,..> res=<R|E|P><k>|X retried=<n> url=<i> nf=<n> ns=<n> iv=<ns,..>" joined by " | "
        (iv = the intervals OnRetry returned, oldest first),
        then " lit=<bool>" (the literal recursion with fuel budget+1 gave the same observations)
   RI <index> <rest as R>      the same, the shared failover index starts at <index> instead of 0
   F <outs> <order i,j,..|->   forking: server i carries payload i
     -> "res=<..|none> invoked=<sorted> lts=<bool>"
   B <outs> <order>            broadcast
     -> "res=<first error|nil> slots=<R i|nil,..> invoked=<sorted> lts=<bool>" *)
open Common

let outcome_of k = function
  | 'O' -> Cluster.Ok (z_of_int k) | 'E' -> Cluster.Err (z_of_int k) | 'P' -> Cluster.Panic (z_of_int k)
  | c -> failwith (Printf.sprintf "outcome %c" c)

let script_of (s : string) : Datatypes.nat -> Cluster.outcome =
  let s = if s = "-" then "" else s in
  fun k -> let i = int_of_nat k in
    if i < String.length s then outcome_of i s.[i] else Cluster.Err (z_of_int 999)

let string_of_result = function
  | Cluster.RResp r -> "R" ^ string_of_z r
  | Cluster.RErr e -> "E" ^ string_of_z e
  | Cluster.RPanicErr p -> "P" ^ string_of_z p
  | Cluster.RPanicRaw p -> "X" ^ string_of_z p
  | Cluster.RCrash -> "X"

let commas f l = String.concat "," (Stdlib.List.map f l)

let string_of_obs (o : Cluster.obs) =
  let s = o.Cluster.fin in
  Printf.sprintf "urls=%s res=%s retried=%s url=%s nf=%d ns=%d iv=%s"
    (commas string_of_z o.Cluster.attempts) (string_of_result o.Cluster.res)
    (string_of_z s.Cluster.retried) (string_of_z s.Cluster.url)
    (int_of_nat s.Cluster.nfail) (int_of_nat s.Cluster.nsucc)
    (commas string_of_z (Stdlib.List.rev s.Cluster.ivs))

let run_retry ?(ix = "0") mode n retry idem carry mn mx rest =
  let r = z_of_string retry and i = (idem = "1") in
  let mn = z_of_string mn and mx = z_of_string mx in
  let c = match mode with
    | "failover" -> Cluster.coq_new (Cluster.failover_config r i mn mx)
    | "failtry" -> Cluster.coq_new (Cluster.failtry_config r i mn mx)
    | "failfast" -> Cluster.coq_new (Cluster.failfast_config r i)
    | "default" -> Cluster.new_default
    | m -> failwith ("mode " ^ m) in
  let rec calls = function
    | outs :: ci :: cr :: crd :: tl ->
      { Cluster.it_idem = (match ci with "-" -> None | "1" -> Some true | _ -> Some false);
        it_retry = (match cr with "-" -> None | x -> Some (z_of_string x));
        it_retried = z_of_string crd; script = script_of outs } :: calls tl
    | [] -> []
    | _ -> failwith "c16: bad call" in
  let cs = calls rest in
  let nz = z_of_string n in
  let ix = z_of_string ix in
  let obs = Cluster.run_calls c nz (carry = "1") ix None cs in
  let lit = Cluster.run_calls_lit c nz (carry = "1") ix None cs in
  let same = (Stdlib.List.map (fun o -> Some (string_of_obs o)) obs)
             = (Stdlib.List.map (function None -> None | Some o -> Some (string_of_obs o)) lit) in
  Printf.sprintf "%s lit=%b" (String.concat " | " (Stdlib.List.map string_of_obs obs)) same

let parse_fan outs order =
  let outs = Stdlib.List.init (String.length outs) (fun i -> outcome_of i outs.[i]) in
  let order = if order = "-" then [] else
      Stdlib.List.map (fun x -> nat_of_int (int_of_string x)) (String.split_on_char ',' order) in
  (outs, order)

let sorted_ints l = commas string_of_int (Stdlib.List.sort compare (Stdlib.List.map int_of_nat l))

(* every goroutine is started (in URL order), then they complete in [order] *)
let schedule n order = Stdlib.List.init n nat_of_int @ order

let run_fork outs order =
  let (outs, order) = parse_fan outs order in
  let n = Stdlib.List.length outs in
  let d = Cluster.forking outs order in
  let res = match d with None -> "none" | Some r -> string_of_result r in
  match Cluster.fork_lts outs (schedule n order) with
  | None -> Printf.sprintf "res=%s invoked=? lts=false" res
  | Some s ->
    let agree = (s.Cluster.sh.Cluster.f_done = d) && (s.Cluster.completed = order) in
    Printf.sprintf "res=%s invoked=%s lts=%b" res (sorted_ints s.Cluster.invoked) agree

let run_bcast outs order =
  let (outs, order) = parse_fan outs order in
  let n = Stdlib.List.length outs in
  let b = Cluster.bcast_run outs order in
  let res = match b.Cluster.b_err with None -> "nil" | Some r -> string_of_result r in
  let slots = commas (function None -> "nil" | Some r -> "R" ^ string_of_z r) b.Cluster.b_slots in
  match Cluster.bcast_lts outs (schedule n order) with
  | None -> Printf.sprintf "res=%s slots=%s invoked=? lts=false" res slots
  | Some s ->
    let agree = (s.Cluster.sh = b) && Cluster.all_done s.Cluster.pcs
                = (Stdlib.List.length order = n) in
    Printf.sprintf "res=%s slots=%s invoked=%s lts=%b" res slots (sorted_ints s.Cluster.invoked) agree

(* without URLs both plugins call next once and return whatever it does *)
let run_pass outs =
  let o = outcome_of 0 outs.[0] in
  Printf.sprintf "res=%s invoked=-1 lts=true" (string_of_result (Cluster.passthrough o))

let run line =
  match split_ws line with
  | "R" :: mode :: n :: retry :: idem :: carry :: mn :: mx :: rest -> run_retry mode n retry idem carry mn mx rest
  | "RI" :: ix :: mode :: n :: retry :: idem :: carry :: mn :: mx :: rest ->
    run_retry ~ix mode n retry idem carry mn mx rest
  | [ "F0"; outs ] -> run_pass outs
  | [ "B0"; outs ] -> run_pass outs
  | [ "F"; outs; order ] -> run_fork outs order
  | [ "B"; outs; order ] -> run_bcast outs order
  | _ -> failwith "c16: bad line"

let () = register "main" run
