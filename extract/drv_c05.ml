(* C05 driver.
   input : <B|R> <cap> <chunks> <cmd> <cmd> ...
     chunks: comma separated hex strings, "-" is an empty chunk (a (0,nil) read), "." no chunk at all
             (for B the chunks are concatenated into the input slice; cap is ignored)
     cmds  : nb sk nx:<n> un:<hh> rm ri ru rt rd rb st:<n> rs
   output: one token per executed command  <value>/<err>, then PANIC:<site> or FUEL if the run stopped,
           then "guard=1 | guard=0:<index of the command>:<input|refill|end>" and "spec=<0|1>"  (spec: the specification functions give the same trace);
           when spec=0 the specification's own trace follows after " | " *)
open Common

let byte_tab : Byte.byte array =
  Array.init 256 (fun i -> match Byte0.of_N (n_of_int i) with Some b -> b | None -> failwith "byte")
let int_of_byte (b : Byte.byte) : int = int_of_n (Byte0.to_N b)

let hexval c = match c with
  | '0'..'9' -> Char.code c - 48 | 'a'..'f' -> Char.code c - 87 | 'A'..'F' -> Char.code c - 55
  | _ -> failwith "hex"

let bytes_of_hex (s : string) : Byte.byte list =
  let n = String.length s / 2 in
  let rec go i acc = if i < 0 then acc else go (i - 1) (byte_tab.(hexval s.[2*i] * 16 + hexval s.[2*i+1]) :: acc) in
  go (n - 1) []

let hex_of_bytes (l : Byte.byte list) : string =
  let b = Buffer.create 64 in
  Stdlib.List.iter (fun x -> Buffer.add_string b (Printf.sprintf "%02x" (int_of_byte x))) l;
  Buffer.contents b

let chunks_of (s : string) : Byte.byte list list =
  if s = "." then [] else
  Stdlib.List.map (fun c -> if c = "-" then [] else bytes_of_hex c) (String.split_on_char ',' s)

let cmd_of (t : string) : DecStream.cmd =
  match String.split_on_char ':' t with
  | ["nb"] -> DecStream.CNextByte | ["sk"] -> DecStream.CSkip
  | ["nx"; n] -> DecStream.CNext (z_of_string n)
  | ["un"; h] -> DecStream.CUntil (Stdlib.List.hd (bytes_of_hex h))
  | ["rm"] -> DecStream.CRemains | ["ri"] -> DecStream.CReadInt64 | ["ru"] -> DecStream.CReadUint64
  | ["rt"] -> DecStream.CReadTime | ["rd"] -> DecStream.CReadDateTime | ["rb"] -> DecStream.CReadBytes
  | ["st"; n] -> DecStream.CStr (z_of_string n) | ["rs"] -> DecStream.CReadStringAsBytes
  | ["d2"] -> DecStream.CRead2Digit | ["d3"] -> DecStream.CRead3Digit | ["d4"] -> DecStream.CRead4Digit
  | _ -> failwith ("c05: bad command " ^ t)

let string_of_value = function
  | DecStream.VUnit -> "u"
  | DecStream.VByte b -> Printf.sprintf "b:%02x" (int_of_byte b)
  | DecStream.VBytes None -> "x:nil"
  | DecStream.VBytes (Some l) -> "x:" ^ hex_of_bytes l
  | DecStream.VNum z -> "n:" ^ string_of_z z
  | DecStream.VTime (l, t) ->
    "t:" ^ String.concat "," (Stdlib.List.map (fun n -> string_of_z (BinInt.Z.of_N n)) l)
    ^ Printf.sprintf ":%02x" (int_of_byte t)

let string_of_err = function
  | None -> "-" | Some DecStream.EEOF -> "EOF" | Some DecStream.EInvalidUTF8 -> "UTF8"
  | Some DecStream.ENegLen -> "other:hprose/io:_negative_length"

let string_of_site = function
  | DecStream.PIndex -> "index" | DecStream.PNextNeg -> "next-neg" | DecStream.PNextMake -> "next-make" | DecStream.PSlice -> "slice"
  | DecStream.PStrWindow -> "str-window" | DecStream.PStrExtra -> "str-extra"
  | DecStream.PStrMake -> "str-make" | DecStream.PStrFast -> "str-fast"

let run line =
  match split_ws line with
  | mode :: cap :: chunks :: cmds ->
    let cs = chunks_of chunks in
    let d = if mode = "B" then DecStream.bytes_mode (Stdlib.List.concat cs)
            else DecStream.reader_mode (nat_of_int (int_of_string cap)) cs in
    let cl = Stdlib.List.map cmd_of cmds in
    let (tr, fin) = DecStream.run_list cl d in
    let toks = Stdlib.List.map (fun (v, e) -> string_of_value v ^ "/" ^ string_of_err e) tr in
    let stop = (match fin with
      | DecStream.Ok _ -> [] | DecStream.Panic s -> ["PANIC:" ^ string_of_site s] | DecStream.OutOfFuel -> ["FUEL"]) in
    let g = DecStream.guard_list cl d in
    let (str, sfin) = DecStream.s_run_list cl (DecStream.abs d) in
    let agree = (str = tr) && (match fin, sfin with
      | DecStream.Ok d1, DecStream.Ok s1 -> DecStream.abs d1 = s1
      | DecStream.Panic _, DecStream.Panic _ -> true
      | _ -> false) in
    let why = (match DecStream.why_list cl d Datatypes.O with
      | None -> "" | Some (i, r) ->
        Printf.sprintf ":%d:%s" (int_of_nat i)
          (match int_of_nat r with 1 -> "input" | 2 -> "refill" | 3 -> "end" | _ -> "?")) in
    let stoks = if agree then [] else
      "|" :: (Stdlib.List.map (fun (v, e) -> string_of_value v ^ "/" ^ string_of_err e) str)
      @ (match sfin with DecStream.Ok _ -> [] | DecStream.Panic s -> ["PANIC:" ^ string_of_site s] | DecStream.OutOfFuel -> ["FUEL"]) in
    String.concat " " (toks @ stop @ [Printf.sprintf "guard=%d%s spec=%d" (if g then 1 else 0) why (if agree then 1 else 0)] @ stoks)
  | _ -> failwith "c05: bad line"

let () = register "main" run
