(* modelrun <runner>: one input line -> one output line *)
let () =
  if Array.length Sys.argv < 2 then (prerr_endline "usage: modelrun <runner>"; exit 2);
  let f = try Hashtbl.find Common.runners Sys.argv.(1)
    with Not_found -> (prerr_endline ("unknown runner " ^ Sys.argv.(1)); exit 2) in
  (try
    while true do
      let line = input_line stdin in
      (try print_string (f line) with e -> print_string ("MODEL-ERROR " ^ Printexc.to_string e));
      print_newline ()
    done
  with End_of_file -> ());
  flush stdout
