(* modelrun-<name>: one input line -> one output line; the driver registers itself as "main" *)
let () =
  let f = try Hashtbl.find Common.runners "main"
    with Not_found -> (prerr_endline "no runner registered"; exit 2) in
  (try
    while true do
      let line = input_line stdin in
      (try print_string (f line) with e -> print_string ("MODEL-ERROR " ^ Printexc.to_string e));
      print_newline ()
    done
  with End_of_file -> ());
  flush stdout
