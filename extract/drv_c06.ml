(* C06 driver.  One S-expression per line:
     (case (opts <simple> <long> <real> <simap> <structval> <listslice> (reg x<name>...))
           (tenv (x<name> (x<alias> <type>)...)...)
           (type <type>) (wire <wire>) (orc (x<fn> x<arg> x<result>)...))
   output: key=value fields (hex=..., out=..., val=...).  *)
open Common

let byte_tab : Byte.byte array =
  Array.init 256 (fun i -> match Byte0.of_N (n_of_int i) with Some b -> b | None -> failwith "byte")
let int_of_byte (b : Byte.byte) : int = int_of_n (Byte0.to_N b)

let bytes_of_hex (s : string) : Byte.byte list =
  let n = String.length s / 2 in
  let rec go i acc = if i < 0 then acc else
    go (i - 1) (byte_tab.(int_of_string ("0x" ^ String.sub s (2 * i) 2)) :: acc) in
  go (n - 1) []

let hex_of_bytes (l : Byte.byte list) : string =
  let b = Buffer.create 64 in
  Stdlib.List.iter (fun x -> Buffer.add_string b (Printf.sprintf "%02x" (int_of_byte x))) l;
  Buffer.contents b

type sx = A of string | L of sx list

let parse_sx (s : string) : sx =
  let n = String.length s in
  let pos = ref 0 in
  let rec skip () = if !pos < n && s.[!pos] = ' ' then (incr pos; skip ()) in
  let rec one () =
    skip ();
    if !pos >= n then failwith "sexp: eof";
    if s.[!pos] = '(' then begin
      incr pos;
      let items = ref [] in
      let rec loop () =
        skip ();
        if !pos >= n then failwith "sexp: unclosed";
        if s.[!pos] = ')' then incr pos
        else (items := one () :: !items; loop ()) in
      loop ();
      L (Stdlib.List.rev !items)
    end else begin
      let st = !pos in
      while !pos < n && s.[!pos] <> ' ' && s.[!pos] <> '(' && s.[!pos] <> ')' do incr pos done;
      A (String.sub s st (!pos - st))
    end in
  one ()

let xbytes = function
  | A t when String.length t >= 1 && t.[0] = 'x' -> bytes_of_hex (String.sub t 1 (String.length t - 1))
  | _ -> failwith "sexp: expected x<hex>"

let ikind = function
  | "KInt" -> Enc.KInt | "KInt8" -> Enc.KInt8 | "KInt16" -> Enc.KInt16 | "KInt32" -> Enc.KInt32
  | "KInt64" -> Enc.KInt64 | "KUint" -> Enc.KUint | "KUint8" -> Enc.KUint8 | "KUint16" -> Enc.KUint16
  | "KUint32" -> Enc.KUint32 | "KUint64" -> Enc.KUint64 | "KUintptr" -> Enc.KUintptr
  | s -> failwith ("ikind " ^ s)

let ikind_name = function
  | Enc.KInt -> "KInt" | Enc.KInt8 -> "KInt8" | Enc.KInt16 -> "KInt16" | Enc.KInt32 -> "KInt32"
  | Enc.KInt64 -> "KInt64" | Enc.KUint -> "KUint" | Enc.KUint8 -> "KUint8" | Enc.KUint16 -> "KUint16"
  | Enc.KUint32 -> "KUint32" | Enc.KUint64 -> "KUint64" | Enc.KUintptr -> "KUintptr"

let rec gtype (s : sx) : DecVal.gtype =
  match s with
  | L [A "bool"] -> DecVal.TBool
  | L [A "int"; A k] -> DecVal.TInt (ikind k)
  | L [A "f32"] -> DecVal.TF32 | L [A "f64"] -> DecVal.TF64
  | L [A "c64"] -> DecVal.TC64 | L [A "c128"] -> DecVal.TC128
  | L [A "string"] -> DecVal.TString | L [A "bytes"] -> DecVal.TBytes
  | L [A "bigint"] -> DecVal.TBigInt | L [A "bigfloat"] -> DecVal.TBigFloat | L [A "bigrat"] -> DecVal.TBigRat
  | L [A "time"] -> DecVal.TTime | L [A "uuid"] -> DecVal.TUuid
  | L [A "slice"; e] -> DecVal.TSlice (gtype e)
  | L [A "array"; A n; e] -> DecVal.TArray (nat_of_int (int_of_string n), gtype e)
  | L [A "map"; k; v] -> DecVal.TMap (gtype k, gtype v)
  | L [A "ptr"; e] -> DecVal.TPtr (gtype e)
  | L [A "iface"] -> DecVal.TIface
  | L [A "struct"; n] -> DecVal.TStruct (xbytes n)
  | L [A "list"] -> DecVal.TList
  | _ -> failwith "gtype"

let rec show_type (t : DecVal.gtype) : string =
  match t with
  | DecVal.TBool -> "(bool)" | DecVal.TInt k -> "(int " ^ ikind_name k ^ ")"
  | DecVal.TF32 -> "(f32)" | DecVal.TF64 -> "(f64)" | DecVal.TC64 -> "(c64)" | DecVal.TC128 -> "(c128)"
  | DecVal.TString -> "(string)" | DecVal.TBytes -> "(bytes)"
  | DecVal.TBigInt -> "(bigint)" | DecVal.TBigFloat -> "(bigfloat)" | DecVal.TBigRat -> "(bigrat)"
  | DecVal.TTime -> "(time)" | DecVal.TUuid -> "(uuid)"
  | DecVal.TSlice e -> "(slice " ^ show_type e ^ ")"
  | DecVal.TArray (n, e) -> "(array " ^ string_of_int (int_of_nat n) ^ " " ^ show_type e ^ ")"
  | DecVal.TMap (k, v) -> "(map " ^ show_type k ^ " " ^ show_type v ^ ")"
  | DecVal.TPtr e -> "(ptr " ^ show_type e ^ ")"
  | DecVal.TIface -> "(iface)"
  | DecVal.TStruct n -> "(struct x" ^ hex_of_bytes n ^ ")"
  | DecVal.TList -> "(list)"

let nn (a : string) = n_of_int (int_of_string a)
let frac = function L l -> Stdlib.List.map (function A a -> nn a | _ -> failwith "frac") l | _ -> failwith "frac"

let rec wire (s : sx) : Wire.wire =
  match s with
  | L [A "n"] -> Wire.WNull | L [A "e"] -> Wire.WEmpty | L [A "t"] -> Wire.WTrue | L [A "f"] -> Wire.WFalse
  | L [A "N"] -> Wire.WNaN
  | L [A "I"; A n] -> Wire.WInf (n = "1")
  | L [A "dig"; A d] -> Wire.WDigit (nn d)
  | L [A "i"; A z] -> Wire.WInt (z_of_string z)
  | L [A "l"; A z] -> Wire.WLong (z_of_string z)
  | L [A "d"; t] -> Wire.WDouble (xbytes t)
  | L [A "u"; t] -> Wire.WChar (xbytes t)
  | L [A "s"; t] -> Wire.WStr (xbytes t)
  | L [A "b"; t] -> Wire.WBytes (xbytes t)
  | L [A "g"; t] -> Wire.WGuid (xbytes t)
  | L [A "D"; A y; A mo; A d; A utc] -> Wire.WDate (nn y, nn mo, nn d, None, utc = "1")
  | L [A "DT"; A y; A mo; A d; A h; A mi; A sec; fr; A utc] ->
      Wire.WDate (nn y, nn mo, nn d, Some (((nn h, nn mi), nn sec), frac fr), utc = "1")
  | L [A "T"; A h; A mi; A sec; fr; A utc] -> Wire.WTime (nn h, nn mi, nn sec, frac fr, utc = "1")
  | L (A "a" :: ws) -> Wire.WList (Stdlib.List.map wire ws)
  | L (A "m" :: ws) -> Wire.WMap (Stdlib.List.map wire ws)
  | L [A "c"; name; L fs; next] -> Wire.WClass (xbytes name, Stdlib.List.map xbytes fs, wire next)
  | L (A "o" :: A k :: ws) -> Wire.WObj (nn k, Stdlib.List.map wire ws)
  | L [A "r"; A k] -> Wire.WRef (nn k)
  | L [A "E"; w] -> Wire.WErr (wire w)
  | _ -> failwith "wire"

let show_fval = function
  | Enc.FNaN -> "nan" | Enc.FInf neg -> if neg then "inf1" else "inf0" | Enc.FFin t -> "x" ^ hex_of_bytes t

let sz z = string_of_z z

let rec show (v : DecVal.xval) : string =
  match v with
  | DecVal.XNil -> "(nil)"
  | DecVal.XBool b -> if b then "(bool 1)" else "(bool 0)"
  | DecVal.XInt (k, z) -> "(int " ^ ikind_name k ^ " " ^ sz z ^ ")"
  | DecVal.XF32 f -> "(f32 " ^ show_fval f ^ ")"
  | DecVal.XF64 f -> "(f64 " ^ show_fval f ^ ")"
  | DecVal.XC64 (a, b) -> "(c64 " ^ show_fval a ^ " " ^ show_fval b ^ ")"
  | DecVal.XC128 (a, b) -> "(c128 " ^ show_fval a ^ " " ^ show_fval b ^ ")"
  | DecVal.XStr s -> "(str x" ^ hex_of_bytes s ^ ")"
  | DecVal.XBytes s -> "(bytes x" ^ hex_of_bytes s ^ ")"
  | DecVal.XBigInt z -> "(bigint " ^ sz z ^ ")"
  | DecVal.XBigFloat t -> "(bigfloat x" ^ hex_of_bytes t ^ ")"
  | DecVal.XBigRat t -> "(bigrat x" ^ hex_of_bytes t ^ ")"
  | DecVal.XTime (y, mo, d, h, mi, s, ns, utc) ->
      Printf.sprintf "(time %s %s %s %s %s %s %s %d)" (sz y) (sz mo) (sz d) (sz h) (sz mi) (sz s) (sz ns) (if utc then 1 else 0)
  | DecVal.XUuid t -> "(uuid x" ^ hex_of_bytes t ^ ")"
  | DecVal.XArr vs -> "(arr" ^ shows vs ^ ")"
  | DecVal.XStruct (n, vs) -> "(struct x" ^ hex_of_bytes n ^ shows vs ^ ")"
  | DecVal.XIface (t, x) -> "(iface " ^ show_type t ^ " " ^ show x ^ ")"
  | DecVal.XPtr x -> "(ptr " ^ show x ^ ")"
  | DecVal.XSlice vs -> "(slice" ^ shows vs ^ ")"
  | DecVal.XMap kvs ->
      let items = Stdlib.List.map (fun (k, x) -> "(" ^ show k ^ " " ^ show x ^ ")") kvs in
      "(map" ^ String.concat "" (Stdlib.List.map (fun s -> " " ^ s) (Stdlib.List.sort compare items)) ^ ")"
  | DecVal.XList vs -> "(list" ^ shows vs ^ ")"
  | DecVal.XCycle k -> "(cyc " ^ string_of_int (int_of_nat k) ^ ")"
  | DecVal.XPtrTo (c, _) -> "(heap-ptr " ^ string_of_int (int_of_nat c) ^ ")"
  | DecVal.XSliceH (c, _) -> "(heap-slice " ^ string_of_int (int_of_nat c) ^ ")"
  | DecVal.XMapH c -> "(heap-map " ^ string_of_int (int_of_nat c) ^ ")"
  | DecVal.XListH c -> "(heap-list " ^ string_of_int (int_of_nat c) ^ ")"
and shows vs = String.concat "" (Stdlib.List.map (fun x -> " " ^ show x) vs)

let fval_of = function
  | "nan" -> Enc.FNaN | "inf0" -> Enc.FInf false | "inf1" -> Enc.FInf true
  | t when String.length t >= 1 && t.[0] = 'x' -> Enc.FFin (bytes_of_hex (String.sub t 1 (String.length t - 1)))
  | _ -> failwith "fval"

(* the Go value as printed by harness/cmd/c06/walk.go *)
let rec xval (s : sx) : DecVal.xval =
  match s with
  | L [A "nil"] -> DecVal.XNil
  | L [A "bool"; A b] -> DecVal.XBool (b = "1")
  | L [A "int"; A k; A z] -> DecVal.XInt (ikind k, z_of_string z)
  | L [A "f32"; A f] -> DecVal.XF32 (fval_of f)
  | L [A "f64"; A f] -> DecVal.XF64 (fval_of f)
  | L [A "c64"; A a; A b] -> DecVal.XC64 (fval_of a, fval_of b)
  | L [A "c128"; A a; A b] -> DecVal.XC128 (fval_of a, fval_of b)
  | L [A "str"; t] -> DecVal.XStr (xbytes t)
  | L [A "bytes"; t] -> DecVal.XBytes (xbytes t)
  | L [A "bigint"; A z] -> DecVal.XBigInt (z_of_string z)
  | L [A "bigfloat"; t] -> DecVal.XBigFloat (xbytes t)
  | L [A "bigrat"; t] -> DecVal.XBigRat (xbytes t)
  | L [A "time"; A y; A mo; A d; A h; A mi; A sec; A ns; A utc] ->
      DecVal.XTime (z_of_string y, z_of_string mo, z_of_string d, z_of_string h, z_of_string mi, z_of_string sec,
                    z_of_string ns, utc = "1")
  | L [A "uuid"; t] -> DecVal.XUuid (xbytes t)
  | L (A "arr" :: vs) -> DecVal.XArr (Stdlib.List.map xval vs)
  | L (A "struct" :: n :: vs) -> DecVal.XStruct (xbytes n, Stdlib.List.map xval vs)
  | L [A "iface"; t; v] -> DecVal.XIface (gtype t, xval v)
  | L [A "ptr"; v] -> DecVal.XPtr (xval v)
  | L (A "slice" :: vs) -> DecVal.XSlice (Stdlib.List.map xval vs)
  | L (A "map" :: kvs) -> DecVal.XMap (Stdlib.List.map (function L [k; v] -> (xval k, xval v) | _ -> failwith "map entry") kvs)
  | L (A "list" :: vs) -> DecVal.XList (Stdlib.List.map xval vs)
  | L [A "cyc"; A k] -> DecVal.XCycle (nat_of_int (int_of_string k))
  | _ -> failwith "xval"

let verdict_name = function
  | DecSpec.VOk -> "ok" | DecSpec.VWrongValue -> "wrongvalue" | DecSpec.VMissingError -> "missingerror"
  | DecSpec.VSpuriousError -> "spuriouserror" | DecSpec.VPanic -> "panic" | DecSpec.VUnspec -> "unspec"
  | DecSpec.VSpecMiss (_, _) -> "specmiss"

let eclass_name = function
  | DecVal.ECast -> "cast" | DecVal.EParse -> "parse" | DecVal.ENaNInf -> "naninf" | DecVal.ETagError -> "tagerror"
  | DecVal.EInvalidTag -> "invalidtag" | DecVal.EOther -> "other"

let psite_name = function
  | DecVal.PRefIndex -> "refindex" | DecVal.PClassIndex -> "classindex" | DecVal.PMem -> "mem"
  | DecVal.PUnhashable -> "unhashable" | DecVal.PObjAsMapField -> "objasmapfield"
  | DecVal.PObjIntoIIMap -> "objintoiimap" | DecVal.PMapCopy -> "mapcopy" | DecVal.PShape -> "shape"

let longty = function
  | "int" -> DecVal.LtInt | "uint" -> DecVal.LtUint | "int64" -> DecVal.LtInt64 | "uint64" -> DecVal.LtUint64
  | "bigint" -> DecVal.LtBigInt | s -> failwith ("longty " ^ s)
let realty = function
  | "f64" -> DecVal.RlF64 | "f32" -> DecVal.RlF32 | "bigfloat" -> DecVal.RlBigFloat | s -> failwith ("realty " ^ s)

let fuel = nat_of_int 100000

let field name = function
  | L (A "case" :: items) ->
      (try Stdlib.List.find (function L (A n :: _) when n = name -> true | _ -> false) items
       with Not_found -> failwith ("missing " ^ name))
  | _ -> failwith "case"

let run line =
  let c = parse_sx line in
  let opts = match field "opts" c with
    | L [A "opts"; A simple; A lng; A real; A simap; A sv; A ls; L (A "reg" :: regs)] ->
        { DecVal.o_simple = (simple = "1"); o_long = longty lng; o_real = realty real; o_simap = (simap = "1");
          o_structval = (sv = "1"); o_listslice = (ls = "1"); o_registered = Stdlib.List.map xbytes regs }
    | _ -> failwith "opts" in
  let te = match field "tenv" c with
    | L (A "tenv" :: defs) ->
        Stdlib.List.map (function
          | L (name :: fields) ->
              (xbytes name, Stdlib.List.map (function L [a; t] -> (xbytes a, gtype t) | _ -> failwith "field") fields)
          | _ -> failwith "sdef") defs
    | _ -> failwith "tenv" in
  let t = match field "type" c with L [A "type"; t] -> gtype t | _ -> failwith "type" in
  let w = match field "wire" c with L [A "wire"; w] -> wire w | _ -> failwith "wire" in
  let tbl : (string, Byte.byte list) Hashtbl.t = Hashtbl.create 64 in
  (match field "orc" c with
   | L (A "orc" :: es) ->
       Stdlib.List.iter (function
         | L [A f; A a; A r] -> Hashtbl.replace tbl (f ^ " " ^ a) (xbytes (A r))
         | _ -> failwith "orc entry") es
   | _ -> failwith "orc");
  let orc fn arg = Hashtbl.find_opt tbl ("x" ^ hex_of_bytes fn ^ " x" ^ hex_of_bytes arg) in
  let b = Buffer.create 256 in
  let add k v = Buffer.add_string b (k ^ "=" ^ v ^ " ") in
  let bytes = Wire.emit w in
  add "hex" (hex_of_bytes bytes);
  add "tok" (if Wire.tok_ok w then "1" else "0");
  add "reparse" (match Wire.parse_all bytes with Some w' -> if w' = w then "1" else "0" | None -> "fail");
  add "den" (match WireSem.denote_top w with Some _ -> "1" | None -> "0");
  let outcome = DecVal.dec_top orc opts te fuel t w in
  (* the property's own oracle: representable on the denotation *)
  let rep = match WireSem.denote_top w with
    | Some d -> Some (DecSpec.representable orc opts te DecSpec.spec_fuel t d)
    | None -> None in
  (match rep with
   | Some (DecSpec.RSome v) -> add "rep" "some"; add "repval" (String.concat "_" (String.split_on_char ' ' (show v)))
   | Some DecSpec.RNone -> add "rep" "none"
   | Some DecSpec.RUnspec -> add "rep" "unspec"
   | Some (DecSpec.RMissO (fn, arg)) -> add "rep" "miss"; add "rfn" (hex_of_bytes fn); add "rarg" ("x" ^ hex_of_bytes arg)
   | None -> add "rep" "noden");
  (match rep with
   | Some r ->
       add "mv" (verdict_name (DecSpec.judge r outcome));
       (* the implementation's observed behaviour, when given *)
       (try
         (match field "go" c with
          | L [A "go"; A "ok"; v] -> add "gv" (verdict_name (DecSpec.judge r (DecVal.OOk (xval v))))
          | L [A "go"; A "err"] -> add "gv" (verdict_name (DecSpec.judge r (DecVal.OErr DecVal.EOther)))
          | L [A "go"; A "panic"] -> add "gv" (verdict_name (DecSpec.judge r (DecVal.OPanic DecVal.PShape)))
          | _ -> ())
       with Failure _ -> ())
   | None -> ());
  (match outcome with
   | DecVal.OOk v -> add "out" "ok"; add "val" (String.concat "_" (String.split_on_char ' ' (show v)))
   | DecVal.OErr e -> add "out" "err"; add "cls" (eclass_name e)
   | DecVal.OPanic p -> add "out" "panic"; add "site" (psite_name p)
   | DecVal.OFuel -> add "out" "fuel"
   | DecVal.OOracle (fn, arg) -> add "out" "miss"; add "fn" (hex_of_bytes fn); add "arg" ("x" ^ hex_of_bytes arg)
   | DecVal.OUnmodelled n -> add "out" "unk"; add "why" (string_of_int (int_of_n n)));
  Buffer.contents b

let () = register "main" run
