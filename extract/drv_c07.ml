(* C07 driver.  One input line = one S-expression describing a case (values as the Go walker printed
   them, the oracle tables of the harness for the abstract io decoder, Go's bytes); one output line of
   key=value fields.  See checks/C07.py for both formats. *)
open Common

(* ---- bytes ---- *)
let byte_tab : Byte.byte array =
  Array.init 256 (fun i -> match Byte0.of_N (n_of_int i) with Some b -> b | None -> failwith "byte")
let int_of_byte (b : Byte.byte) : int = int_of_n (Byte0.to_N b)

let bytes_of_hex (s : string) : Byte.byte list =
  let n = String.length s / 2 in
  let rec go i acc = if i < 0 then acc else
    go (i - 1) (byte_tab.(int_of_string ("0x" ^ String.sub s (2 * i) 2)) :: acc) in
  go (n - 1) []

let hex_of_bytes (l : Byte.byte list) : string =
  let b = Buffer.create 64 in
  Stdlib.List.iter (fun x -> Buffer.add_string b (Printf.sprintf "%02x" (int_of_byte x))) l;
  Buffer.contents b

let bytes_of_string (s : string) : Byte.byte list =
  Stdlib.List.init (String.length s) (fun i -> byte_tab.(Char.code s.[i]))

(* ---- S-expressions ---- *)
type sx = A of string | L of sx list

let parse_sx (s : string) : sx =
  let n = String.length s in
  let pos = ref 0 in
  let rec skip () = if !pos < n && s.[!pos] = ' ' then (incr pos; skip ()) in
  let rec one () =
    skip ();
    if !pos >= n then failwith "sexp: eof";
    if s.[!pos] = '(' then begin
      incr pos;
      let items = ref [] in
      let rec loop () =
        skip ();
        if !pos >= n then failwith "sexp: unclosed";
        if s.[!pos] = ')' then incr pos
        else (items := one () :: !items; loop ()) in
      loop ();
      L (Stdlib.List.rev !items)
    end else begin
      let st = !pos in
      while !pos < n && s.[!pos] <> ' ' && s.[!pos] <> '(' && s.[!pos] <> ')' do incr pos done;
      A (String.sub s st (!pos - st))
    end in
  one ()

let xbytes = function
  | A t when String.length t >= 1 && t.[0] = 'x' -> bytes_of_hex (String.sub t 1 (String.length t - 1))
  | _ -> failwith "sexp: expected x<hex>"

let ikind = function
  | "KInt" -> Enc.KInt | "KInt8" -> Enc.KInt8 | "KInt16" -> Enc.KInt16 | "KInt32" -> Enc.KInt32
  | "KInt64" -> Enc.KInt64 | "KUint" -> Enc.KUint | "KUint8" -> Enc.KUint8 | "KUint16" -> Enc.KUint16
  | "KUint32" -> Enc.KUint32 | "KUint64" -> Enc.KUint64 | "KUintptr" -> Enc.KUintptr
  | s -> failwith ("ikind " ^ s)
let ikind_name = function
  | Enc.KInt -> "KInt" | Enc.KInt8 -> "KInt8" | Enc.KInt16 -> "KInt16" | Enc.KInt32 -> "KInt32"
  | Enc.KInt64 -> "KInt64" | Enc.KUint -> "KUint" | Enc.KUint8 -> "KUint8" | Enc.KUint16 -> "KUint16"
  | Enc.KUint32 -> "KUint32" | Enc.KUint64 -> "KUint64" | Enc.KUintptr -> "KUintptr"

let fval = function
  | L [A "f"; A "nan"] -> Enc.FNaN
  | L [A "f"; A "inf"; A n] -> Enc.FInf (n = "1")
  | L [A "f"; A "fin"; t] -> Enc.FFin (xbytes t)
  | _ -> failwith "fval"

(* the heap of the case: cells given by the walker, plus cells allocated for unfolded values *)
let heap : (BinNums.coq_N * Enc.gval) list ref = ref []
let next_addr = ref 1000000
let cyc_mark = Enc.GUuid (bytes_of_string "cyc")

let rec gval (s : sx) : Enc.gval =
  match s with
  | L [A "nil"] -> Enc.GNil
  | L [A "bool"; A b] -> Enc.GBool (b = "1")
  | L [A "int"; A k; A z] -> Enc.GInt (ikind k, z_of_string z)
  | L (A "f" :: _) -> Enc.GFloat (fval s)
  | L [A "cx"; re; im; A z] -> Enc.GComplex (fval re, fval im, z = "1")
  | L [A "str"; t] -> Enc.GString (xbytes t)
  | L [A "bytes"; t] -> Enc.GBytes (xbytes t)
  | L (A "b2d" :: rows) ->
      Enc.GBytes2d (Stdlib.List.map (function A "nil" -> None | t -> Some (xbytes t)) rows)
  | L (A "slice" :: vs) -> Enc.GSlice (Stdlib.List.map gval vs)
  | L (A "list" :: vs) -> Enc.GList (Stdlib.List.map gval vs)
  | L (A "map" :: vs) -> Enc.GMap (Stdlib.List.map gval vs)
  | L (A "struct" :: name :: L (A "fields" :: fs) :: vs) ->
      Enc.GStruct (xbytes name, Stdlib.List.map xbytes fs, Stdlib.List.map gval vs)
  | L (A "anon" :: L (A "fields" :: fs) :: vs) ->
      Enc.GAnon (Stdlib.List.map xbytes fs, Stdlib.List.map gval vs)
  | L [A "time"; A y; A mo; A d; A h; A mi; A sec; A ns; A utc] ->
      Enc.GTime (z_of_string y, z_of_string mo, z_of_string d, z_of_string h, z_of_string mi,
                 z_of_string sec, z_of_string ns, utc = "1")
  | L [A "uuid"; t] -> Enc.GUuid (xbytes t)
  | L [A "bigint"; A z] -> Enc.GBigInt (z_of_string z)
  | L [A "bigfloat"; t] -> Enc.GBigFloat (xbytes t)
  | L [A "bigrat"; A "int"; A z] -> Enc.GBigRat (Some (z_of_string z), [])
  | L [A "bigrat"; A "frac"; t] -> Enc.GBigRat (None, xbytes t)
  | L [A "err"; t] -> Enc.GError (xbytes t)
  | L [A "cyc"] -> cyc_mark
  | L [A "ptr"; A a] -> Enc.GPtr (n_of_int (int_of_string a))
  | L [A "ptr"; v] ->
      (* unfolded form: allocate a cell *)
      let a = !next_addr in incr next_addr;
      let pv = gval v in
      heap := (n_of_int a, pv) :: !heap;
      Enc.GPtr (n_of_int a)
  | _ -> failwith "gval: unknown form"

let rec hlook a = function
  | [] -> None
  | (a', v) :: r -> if a = a' then Some v else hlook a r

(* unfolded text of a value, exactly as the Go walker prints it in inline mode *)
let rec show (seen : BinNums.coq_N list) (v : Enc.gval) : string =
  let sp l = String.concat "" (Stdlib.List.map (fun x -> " " ^ x) l) in
  let hx b = "x" ^ hex_of_bytes b in
  let fl = function
    | Enc.FNaN -> "(f nan)" | Enc.FInf n -> if n then "(f inf 1)" else "(f inf 0)"
    | Enc.FFin t -> "(f fin " ^ hx t ^ ")" in
  match v with
  | Enc.GNil -> "(nil)"
  | Enc.GBool b -> if b then "(bool 1)" else "(bool 0)"
  | Enc.GInt (k, z) -> "(int " ^ ikind_name k ^ " " ^ string_of_z z ^ ")"
  | Enc.GFloat f -> fl f
  | Enc.GComplex (re, im, z) -> "(cx " ^ fl re ^ " " ^ fl im ^ " " ^ (if z then "1" else "0") ^ ")"
  | Enc.GString s -> "(str " ^ hx s ^ ")"
  | Enc.GBytes b -> "(bytes " ^ hx b ^ ")"
  | Enc.GBytes2d rows -> "(b2d" ^ sp (Stdlib.List.map (function None -> "nil" | Some b -> hx b) rows) ^ ")"
  | Enc.GSlice vs -> "(slice" ^ sp (Stdlib.List.map (show seen) vs) ^ ")"
  | Enc.GList vs -> "(list" ^ sp (Stdlib.List.map (show seen) vs) ^ ")"
  | Enc.GMap vs -> "(map" ^ sp (Stdlib.List.map (show seen) vs) ^ ")"
  | Enc.GStruct (name, fs, vs) ->
      "(struct " ^ hx name ^ " (fields" ^ sp (Stdlib.List.map hx fs) ^ ")" ^ sp (Stdlib.List.map (show seen) vs) ^ ")"
  | Enc.GAnon (fs, vs) ->
      "(anon (fields" ^ sp (Stdlib.List.map hx fs) ^ ")" ^ sp (Stdlib.List.map (show seen) vs) ^ ")"
  | Enc.GTime (y, mo, d, h, mi, s, ns, utc) ->
      Printf.sprintf "(time %s %s %s %s %s %s %s %d)" (string_of_z y) (string_of_z mo) (string_of_z d)
        (string_of_z h) (string_of_z mi) (string_of_z s) (string_of_z ns) (if utc then 1 else 0)
  | Enc.GUuid t -> if v = cyc_mark then "(cyc)" else "(uuid " ^ hx t ^ ")"
  | Enc.GBigInt z -> "(bigint " ^ string_of_z z ^ ")"
  | Enc.GBigFloat t -> "(bigfloat " ^ hx t ^ ")"
  | Enc.GBigRat (Some z, _) -> "(bigrat int " ^ string_of_z z ^ ")"
  | Enc.GBigRat (None, t) -> "(bigrat frac " ^ hx t ^ ")"
  | Enc.GError m -> "(err " ^ hx m ^ ")"
  | Enc.GPtr a ->
      if Stdlib.List.mem a seen then "(cyc)"
      else (match hlook a !heap with
            | Some pv -> "(ptr " ^ show (a :: seen) pv ^ ")"
            | None -> "(ptr ?)")

let show v = show [] v

(* ---- types ---- *)
let rec pty = function
  | A "i" -> Codec.TIface
  | A "s" -> Codec.TSurplus
  | A "l" -> Codec.TIfaceSlice
  | L [A "n"; A k] -> Codec.TNamed (n_of_int (int_of_string k))
  | L (A "t" :: ts) -> Codec.TTuple (Stdlib.List.map pty ts)
  | _ -> failwith "pty"

let rec show_pty = function
  | Codec.TIface -> "i" | Codec.TSurplus -> "s" | Codec.TIfaceSlice -> "l"
  | Codec.TNamed k -> "n" ^ string_of_int (int_of_n k)
  | Codec.TTuple ts -> "(t " ^ String.concat " " (Stdlib.List.map show_pty ts) ^ ")"

(* a surplus position is read into interface{} *)
let same_ty a b =
  let norm = function Codec.TSurplus -> Codec.TIface | t -> t in
  norm a = norm b

(* ---- the case ---- *)
let field name = function
  | L items ->
      (try Stdlib.List.find_map (function L (A n :: rest) when n = name -> Some rest | _ -> None) items
       with _ -> None)
  | _ -> None

let get name s = match field name s with Some r -> r | None -> failwith ("missing field " ^ name)
let geto name s = match field name s with Some r -> r | None -> []
let atom = function A a -> a | _ -> failwith "atom expected"
let flag = function A "1" -> true | A "0" -> false | _ -> failwith "flag expected"

let dopts l =
  match l with
  | [a; b; c; d; e] ->
      { Codec.o_long = n_of_int (int_of_string (atom a)); o_real = n_of_int (int_of_string (atom b));
        o_map = n_of_int (int_of_string (atom c)); o_struct = n_of_int (int_of_string (atom d));
        o_list = n_of_int (int_of_string (atom e)) }
  | _ -> failwith "dopts"

(* an oracle entry: (ty value) or (ty ERR) *)
type oracle = { oty : Codec.pty; oval : Enc.gval option }
let oracle_of = function
  | L [t; A "ERR"] -> { oty = pty t; oval = None }
  | L [t; v] -> { oty = pty t; oval = Some (gval v) }
  | _ -> failwith "oracle entry"

let hdr_oracle = function
  | L [k; A "ERR"] -> (xbytes k, None)
  | L [k; v] -> (xbytes k, Some (gval v))
  | _ -> failwith "header oracle entry"

let fuel = nat_of_int 100000

exception Type_mismatch of string

let tuple_of (tbl : oracle list) (ts : Codec.pty list) : Enc.gval option =
  (* element i of the list is read into ts[i]: the oracle entry i must have been computed for that type *)
  let rec go i ts tbl acc =
    match ts, tbl with
    | [], _ -> Some (Enc.GSlice (Stdlib.List.rev acc))
    | _ :: _, [] -> raise (Type_mismatch (Printf.sprintf "no oracle entry for position %d" i))
    | t :: tr, o :: orr ->
        if not (same_ty t o.oty) then
          raise (Type_mismatch (Printf.sprintf "position %d: model reads into %s, the property expects %s"
                                  i (show_pty t) (show_pty o.oty)));
        (match o.oval with
         | None -> None
         | Some v -> go (i + 1) tr orr (v :: acc)) in
  go 0 ts tbl []

let run_case (s : sx) : string =
  heap := []; next_addr := 1000000;
  let b = Buffer.create 1024 in
  let add k v = Buffer.add_string b (k ^ "=" ^ v ^ "\t") in
  let codec = atom (Stdlib.List.hd (get "codec" s)) in
  let co = match get "copts" s with
    | sm :: rest -> { Codec.c_simple = flag sm; c_dec = dopts rest } | _ -> failwith "copts" in
  let so = match get "sopts" s with
    | sm :: dbg :: rest -> { Codec.s_simple = flag sm; s_debug = flag dbg; s_dec = dopts rest } | _ -> failwith "sopts" in
  Stdlib.List.iter (function
    | L [A a; v] -> heap := (n_of_int (int_of_string a), gval v) :: !heap
    | _ -> failwith "heap cell") (geto "heap" s);
  let lower_tbl = Stdlib.List.map (function L [a; c] -> (xbytes a, xbytes c) | _ -> failwith "lower") (geto "lower" s) in
  let lower (x : Byte.byte list) = match Stdlib.List.assoc_opt x lower_tbl with
    | Some y -> y | None -> failwith ("no ToLower entry for " ^ hex_of_bytes x) in
  let methods = Stdlib.List.map (function
    | L [A id; name; ms; cx; L (A "params" :: ps); ve; L (A "results" :: rs); er] ->
        { Codec.m_id = n_of_int (int_of_string id); m_name = xbytes name; m_missing = flag ms; m_ctx = flag cx;
          m_params = Stdlib.List.map pty ps;
          m_velem = (match ve with L [A "velem"; t] -> Some (pty t) | _ -> None);
          m_results = Stdlib.List.map pty rs; m_err = flag er }
    | _ -> failwith "method") (geto "methods" s) in
  let svc = Stdlib.List.fold_left (fun r m -> Codec.radd lower m r) [] methods in
  let call = xbytes (Stdlib.List.hd (get "call" s)) in
  let args = Stdlib.List.map gval (geto "args" s) in
  let pairs l = Stdlib.List.map (function L [k; v] -> (xbytes k, gval v) | _ -> failwith "header") l in
  let hdrs = pairs (geto "hdrs" s) in
  let rhdrs = pairs (geto "rhdrs" s) in
  let orargs = Stdlib.List.map oracle_of (geto "orargs" s) in
  let orres = Stdlib.List.map oracle_of (geto "orres" s) in
  let orhdrs = Stdlib.List.map hdr_oracle (geto "orhdrs" s) in
  let orrhdrs = Stdlib.List.map hdr_oracle (geto "orrhdrs" s) in
  let zeros = Stdlib.List.map oracle_of (geto "zeros" s) in
  let rtypes = Stdlib.List.map pty (geto "rtypes" s) in
  let hp () = !heap in
  let client_side = ref false in
  let hdr_table tbl =
    if Stdlib.List.exists (fun (_, v) -> v = None) tbl then None
    else Some (Stdlib.List.map (fun (k, v) -> (k, match v with Some x -> x | None -> Enc.GNil)) tbl) in
  let io_dec_hdrs _ _ _ = hdr_table (if !client_side then orrhdrs else orhdrs) in
  let io_dec _ _ (t : Codec.pty) _ : Enc.gval option =
    let tbl = if !client_side then orres else orargs in
    match t with
    | Codec.TTuple ts -> tuple_of tbl ts
    | Codec.TIfaceSlice -> tuple_of tbl (Stdlib.List.map (fun _ -> Codec.TIface) tbl)
    | t ->
        (match tuple_of tbl [t] with
         | Some (Enc.GSlice [v]) -> Some v
         | _ -> None) in
  let zero t = match Stdlib.List.find_opt (fun o -> same_ty o.oty t) zeros with
    | Some { oval = Some v; _ } -> v | _ -> failwith ("no zero value for " ^ show_pty t) in
  let show_vals vs = "[" ^ String.concat ";" (Stdlib.List.map show vs) ^ "]" in
  let show_hdrs h =
    let l = Stdlib.List.map (fun (k, v) -> hex_of_bytes k ^ ":" ^ show v) h in
    "[" ^ String.concat ";" (Stdlib.List.sort compare l) ^ "]" in
  let trace_checks ops tr =
    let sc = Codec.scopes ops and ds = Codec.dscopes tr in
    add "aligned" (if Stdlib.List.map (Stdlib.List.map snd) ds = sc then "1" else "0");
    add "closed" (if Stdlib.List.for_all Codec.scope_closed sc then "1" else "0");
    add "readable" (if Stdlib.List.for_all (Stdlib.List.for_all Codec.readable) ds then "1" else "0") in
  let result : (Enc.gval, Codec.errv) Datatypes.sum option =
    match field "result" s with
    | Some [L (A "values" :: vs)] -> Some (Datatypes.Coq_inl (Codec.shape (Stdlib.List.map gval vs)))
    | Some [L [A "error"; m]] -> Some (Datatypes.Coq_inr (Codec.EPlain (xbytes m)))
    | Some [L [A "panic"; m; st]] -> Some (Datatypes.Coq_inr (Codec.EPanicE (xbytes m, xbytes st)))
    | _ -> None in
  if codec = "hprose" then begin
    (* ---- request *)
    (match Codec.client_encode fuel (hp ()) co call args hdrs with
     | Codec.CEOk ops ->
         let bytes = Codec.emit_ops ops in
         add "req" (hex_of_bytes bytes);
         client_side := false;
         let report prefix input =
           (try
             let (r, tr) = Codec.service_decode lower io_dec io_dec_hdrs so svc input in
             (match r with
              | Codec.SDOk rq ->
                  add (prefix ^ "sd") "ok"; add (prefix ^ "name") (hex_of_bytes rq.Codec.rq_name);
                  add (prefix ^ "method") (string_of_int (int_of_n rq.Codec.rq_method.Codec.m_id));
                  add (prefix ^ "hdrs") (show_hdrs rq.Codec.rq_headers);
                  add (prefix ^ "args") (show_vals rq.Codec.rq_args)
              | Codec.SDNoMethod (h, name) ->
                  add (prefix ^ "sd") "nomethod"; add (prefix ^ "name") (hex_of_bytes name);
                  add (prefix ^ "msg") (hex_of_bytes (Codec.cant_find name));
                  add (prefix ^ "hdrs") (show_hdrs h)
              | Codec.SDDecodeError -> add (prefix ^ "sd") "decerr"
              | Codec.SDInvalid -> add (prefix ^ "sd") "invalid"
              | Codec.SDEmpty _ -> add (prefix ^ "sd") "empty");
             Some tr
           with Type_mismatch m -> add (prefix ^ "sd") ("TYPE-MISMATCH:" ^ String.map (fun c -> if c = ' ' then '_' else c) m); None) in
         (match report "" bytes with
          | Some tr -> trace_checks ops tr
          | None -> ());
         (* the same reader on the bytes the implementation produced (result checking) *)
         (match field "goreq" s with
          | Some [A h] when h <> "-" && h <> hex_of_bytes bytes ->
              let gb = bytes_of_hex h in
              (match report "go_" gb with
               | Some tr ->
                   let ds = Codec.dscopes tr in
                   add "go_closed" (if Stdlib.List.for_all (fun sc -> Codec.scope_closed (Stdlib.List.map snd sc)) ds then "1" else "0");
                   add "go_readable" (if Stdlib.List.for_all (Stdlib.List.for_all Codec.readable) ds then "1" else "0")
               | None -> ())
          | _ -> ())
     | Codec.CEFail _ -> add "req" "fail");
    (* ---- response *)
    (match result with
     | None -> ()
     | Some r ->
         (match Codec.service_encode fuel (hp ()) so r rhdrs with
          | Codec.CEOk ops ->
              let bytes = Codec.emit_ops ops in
              add "resp" (hex_of_bytes bytes);
              client_side := true;
              let report prefix input =
                (try
                  let (r, tr) = Codec.client_decode io_dec io_dec_hdrs zero co rtypes input in
                  (match r with
                   | Codec.CDRes (h, vs) ->
                       add (prefix ^ "cd") "res"; add (prefix ^ "rhdrs") (show_hdrs h); add (prefix ^ "vals") (show_vals vs)
                   | Codec.CDErr (h, msg, t) ->
                       add (prefix ^ "cd") "err"; add (prefix ^ "rhdrs") (show_hdrs h);
                       add (prefix ^ "emsg") (hex_of_bytes msg); add (prefix ^ "timeout") (if t then "1" else "0")
                   | Codec.CDDecodeError -> add (prefix ^ "cd") "decerr"
                   | Codec.CDInvalid -> add (prefix ^ "cd") "invalid");
                  Some tr
                with Type_mismatch m -> add (prefix ^ "cd") ("TYPE-MISMATCH:" ^ String.map (fun c -> if c = ' ' then '_' else c) m); None) in
              (match report "" bytes with
               | Some tr ->
                   let sc = Codec.scopes ops and ds = Codec.dscopes tr in
                   (* with no declared return type the client does not read the result at all *)
                   add "r_aligned" (if rtypes = [] || Stdlib.List.map (Stdlib.List.map snd) ds = sc then "1" else "0");
                   add "r_closed" (if Stdlib.List.for_all Codec.scope_closed sc then "1" else "0");
                   add "r_readable" (if Stdlib.List.for_all (Stdlib.List.for_all Codec.readable) ds then "1" else "0")
               | None -> ());
              (match field "goresp" s with
               | Some [A h] when h <> "-" && h <> hex_of_bytes bytes -> ignore (report "go_" (bytes_of_hex h))
               | _ -> ())
          | Codec.CEFail _ -> add "resp" "fail"))
  end else begin
    (* ---- JSON-RPC: the JSON text is the oracle; values travel as position tokens *)
    let token i = Enc.GString (bytes_of_string ("#" ^ string_of_int i)) in
    let index_of = function
      | Enc.GString t ->
          let str = String.concat "" (Stdlib.List.map (fun x -> String.make 1 (Char.chr (int_of_byte x))) t) in
          if String.length str > 1 && str.[0] = '#' then int_of_string_opt (String.sub str 1 (String.length str - 1)) else None
      | _ -> None in
    let counter = z_of_string (atom (Stdlib.List.hd (get "counter" s))) in
    let q = Codec.jrequest_of counter call args hdrs in
    let jmarshal_req _ = [] in
    let junmarshal_req _ =
      Some { q with
             Codec.jq_headers = (match q.Codec.jq_headers with
                                 | None -> None
                                 | Some _ -> hdr_table orhdrs);
             Codec.jq_params = (match q.Codec.jq_params with
                                | None -> None
                                | Some l -> Some (Stdlib.List.mapi (fun i _ -> token i) l)) } in
    client_side := false;
    let jconv (t : Codec.pty) (v : Enc.gval) : Enc.gval option =
      let tbl = if !client_side then orres else orargs in
      match index_of v with
      | Some i ->
          (match Stdlib.List.nth_opt tbl i with
           | Some o ->
               if not (same_ty t o.oty) then
                 raise (Type_mismatch (Printf.sprintf "position %d: model reads into %s, the property expects %s"
                                         i (show_pty t) (show_pty o.oty)));
               o.oval
           | None -> raise (Type_mismatch (Printf.sprintf "no oracle entry for position %d" i)))
      | None -> failwith "jconv: not a token" in
    let resolve tbl v = match index_of v with
      | Some i -> (match Stdlib.List.nth_opt tbl i with Some { oval = Some x; _ } -> x | _ -> v)
      | None -> v in
    add "jid" (string_of_z q.Codec.jq_id);
    add "jhas_params" (if q.Codec.jq_params = None then "0" else "1");
    add "jhas_hdrs" (if q.Codec.jq_headers = None then "0" else "1");
    let (_, reqb) = Codec.jclient_encode jmarshal_req counter call args hdrs in
    let id_for_response = ref q.Codec.jq_id in
    (try
      (match Codec.jservice_decode lower junmarshal_req jconv svc reqb with
       | Codec.JSOk (id, rq) ->
           add "sd" "ok"; add "sd_id" (string_of_z id); id_for_response := id;
           add "name" (hex_of_bytes rq.Codec.rq_name);
           add "method" (string_of_int (int_of_n rq.Codec.rq_method.Codec.m_id));
           add "hdrs" (show_hdrs rq.Codec.rq_headers);
           add "args" (show_vals (Stdlib.List.map (resolve orargs) rq.Codec.rq_args))
       | Codec.JSErr (_, e) ->
           add "sd" "err"; add "msg" (hex_of_bytes (Codec.jerr_text e));
           (match e with Codec.JProto (c, _) -> add "code" (string_of_z c) | _ -> ()))
    with Type_mismatch m -> add "sd" ("TYPE-MISMATCH:" ^ String.map (fun c -> if c = ' ' then '_' else c) m));
    (match field "result" s with
     | None -> ()
     | Some rs ->
         let nres = (match rs with [L (A "values" :: vs)] -> Stdlib.List.length vs | _ -> 0) in
         let r = (match rs with
           | [L (A "values" :: vs)] -> Datatypes.Coq_inl (Codec.shape (Stdlib.List.map gval vs))
           | [L [A "error"; m]] -> Datatypes.Coq_inr (Codec.JPlain (xbytes m))
           | [L [A "panic"; m; st]] -> Datatypes.Coq_inr (Codec.JPanic (xbytes m, xbytes st))
           | [L [A "proto"; A c; m]] -> Datatypes.Coq_inr (Codec.JProto (z_of_string c, xbytes m))
           | _ -> failwith "result") in
         let p = Codec.jresponse_of !id_for_response r rhdrs in
         add "jr_has_result" (if p.Codec.jp_result = None then "0" else "1");
         (match p.Codec.jp_error with
          | Some e ->
              add "jr_code" (string_of_z e.Codec.je_code); add "jr_message" (hex_of_bytes e.Codec.je_message);
              add "jr_has_data" (if e.Codec.je_data = None then "0" else "1")
          | None -> add "jr_error" "0");
         let jmarshal_resp _ = [] in
         let junmarshal_resp _ =
           Some { p with
                  Codec.jp_headers = (match p.Codec.jp_headers with None -> None | Some _ -> hdr_table orrhdrs);
                  Codec.jp_result = (match p.Codec.jp_result with
                                     | None -> None
                                     | Some _ ->
                                         (* several declared types read the elements of the list one by one *)
                                         if Stdlib.List.length rtypes >= 2 && nres >= 2
                                         then Some (Enc.GSlice (Stdlib.List.init nres token))
                                         else Some (token 0)) } in
         client_side := true;
         (try
           (match Codec.jclient_decode junmarshal_resp jconv rtypes (Codec.jservice_encode jmarshal_resp !id_for_response r rhdrs) with
            | Codec.JCRes (id, h, vs) ->
                add "cd" "res"; add "cd_id" (string_of_z id); add "rhdrs" (show_hdrs h); add "vals" (show_vals vs)
            | Codec.JCErr (id, h, e) ->
                add "cd" "err"; add "cd_id" (string_of_z id); add "rhdrs" (show_hdrs h);
                add "emsg" (hex_of_bytes (Codec.jerr_text e));
                add "ekind" (match e with Codec.JProto _ -> "jsonrpc" | Codec.JPanic _ -> "panicerror" | Codec.JPlain _ -> "other")
            | Codec.JCDecodeError -> add "cd" "decerr"
            | Codec.JCPanic -> add "cd" "panic")
         with Type_mismatch m -> add "cd" ("TYPE-MISMATCH:" ^ String.map (fun c -> if c = ' ' then '_' else c) m)))
  end;
  Buffer.contents b

let run line = run_case (parse_sx line)

let () = register "main" run
