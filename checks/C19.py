"""C19 push broker: proof (Props/C19.v) + correspondence of Model/Push.v with the real Broker.

  seq     scripted histories (subscribe / unsubscribe / unicast / multicast / broadcast / Push /
          poll / poll time-out / heartbeat expiry) run one operation at a time against a real
          core.Service + push.Broker through real clients; the observed log is replayed through the
          extracted LTS (every logged result must be the model's result).
  stress  several publishers with unique payloads against polling consumers, with and without
          poll time-outs and subscribe/unsubscribe churn; property oracle only.
  subrace 2-3 subscribe calls of one client id and topic racing with each other and with a publisher,
          thousands of rounds; oracle: exactly one of them reports true, every accepted publish is handed
          over exactly once (the atomic check-and-insert of subscribe: C19_subscription_cache_stable,
          C19_refuted_subscribe_store).
  forced  racing orders forced at the verif yield points of broker.go (only when the tree under
          test has the hook: hooks/c19-push.patch), replayed through the LTS step by step.

The property's own oracle (written from the property text, in Python, not from the Coq model) is
evaluated on every observation."""
import json
import os
import hv

MS = 10**6
KNOWN_KEY = "publish-after-timed-out-poll-is-lost"
SUBRACE_KEY = "racing-subscribes-replace-cache-accepted-message-lost"


# ------------------------------------------------------------------------------- generation

class Guide:
    """What a broker that meets the property would do; only used to shape the scripts
    (where to wait for a time-out, whom to publish to) - never for a verdict."""

    def __init__(self):
        self.subs = set()
        self.cache = {}
        self.pending = {}

    def sub(self, c, t):
        if (c, t) not in self.subs:
            self.subs.add((c, t))
            self.cache[(c, t)] = []

    def unsub(self, c, t):
        if (c, t) in self.subs:
            self.subs.discard((c, t))
            self.cache.pop((c, t), None)
            self.pending[c] = False

    def publish(self, t, cs):
        for c in cs:
            if (c, t) in self.subs:
                if self.pending.get(c):
                    self.pending[c] = False
                else:
                    self.cache[(c, t)].append(1)

    def poll(self, c):
        mine = [k for k in self.subs if k[0] == c]
        if not mine:
            return "N"
        if any(self.cache[k] for k in mine):
            for k in mine:
                self.cache[k] = []
            return "B"
        self.pending[c] = True
        return "W"


def gen_seq_case(rng, cid, fam):
    nclients = rng.choice([1, 1, 2, 2, 3])
    ntopics = rng.choice([1, 1, 2])
    clients = list(range(1, nclients + 1))
    topics = [7, 8][:ntopics]
    g = Guide()
    ops = []
    msg = [100 * (cid % 900)]
    timeouts = [0]

    def nm():
        msg[0] += 1
        return msg[0]

    def do_sub(c, t):
        ops.append({"op": "sub", "c": c, "t": t})
        g.sub(c, t)

    def do_unsub(c, t):
        ops.append({"op": "unsub", "c": c, "t": t})
        g.unsub(c, t)

    def do_pub(t=None, kind=None, to=None):
        t = t or rng.choice(topics)
        kind = kind or rng.choice(["uni", "uni", "uni", "multi", "bcast"])
        via = "push" if rng.random() < 0.25 else ""
        if kind == "uni":
            c = to or rng.choice(clients)
            ops.append({"op": "uni", "t": t, "m": nm(), "c": c, "via": via})
            g.publish(t, [c])
        elif kind == "multi":
            cs = sorted(rng.sample(clients + [9], rng.randint(1, len(clients) + 1)))
            if len(cs) < 2 and via == "push":
                via = ""
            ops.append({"op": "multi", "t": t, "m": nm(), "cs": cs, "via": via})
            g.publish(t, cs)
        else:
            ops.append({"op": "bcast", "t": t, "m": nm(), "via": via})
            g.publish(t, sorted({c for (c, _) in g.subs}))

    def do_poll(c, wait=None):
        if g.pending.get(c):
            return
        if fam == "hb":
            # give the heartbeat goroutine that the previous poll started the time to register its signal
            # before this poll pops it (the other order is the forced scenario heartbeat-after-repoll)
            ops.append({"op": "sleep", "ms": 3})
        ops.append({"op": "poll", "c": c})
        r = g.poll(c)
        if wait is None:
            wait = rng.random() < 0.5
        if wait and timeouts[0] < 4:
            ops.append({"op": "await", "c": c})
            if r == "W":
                timeouts[0] += 1
            g.pending[c] = False

    def do_await(c):
        if timeouts[0] < 4 or not g.pending.get(c):
            ops.append({"op": "await", "c": c})
            if g.pending.get(c):
                timeouts[0] += 1
            g.pending[c] = False

    tmo = rng.choice([30, 40, 50])
    hb = 10000
    if fam == "window":
        for c in clients:
            for t in topics:
                if rng.random() < 0.85 or (c == 1 and t == topics[0]):
                    do_sub(c, t)
        for _ in range(rng.randint(1, 3)):
            c = rng.choice(clients)
            do_poll(c, wait=True)
            for _ in range(rng.randint(1, 3)):
                do_pub(to=c if rng.random() < 0.7 else None)
            do_poll(c, wait=True)
    elif fam == "traffic":
        tmo = 150
        for c in clients:
            for t in topics:
                do_sub(c, t)
        for _ in range(rng.randint(3, 9)):
            x = rng.random()
            if x < 0.45:
                do_poll(rng.choice(clients), wait=False)
            else:
                do_pub()
        for c in clients:
            if g.pending.get(c):
                do_pub(kind="uni", to=c, t=rng.choice(topics))
    elif fam == "subs":
        tmo = rng.choice([40, 150])
        for _ in range(rng.randint(6, 16)):
            x = rng.random()
            c, t = rng.choice(clients), rng.choice(topics)
            if x < 0.25:
                do_sub(c, t)
            elif x < 0.40:
                do_unsub(c, t)
            elif x < 0.65:
                do_poll(c)
            else:
                do_pub()
    elif fam == "hb":
        tmo, hb = 40, 150
        c, t = 1, topics[0]
        do_sub(c, t)
        if nclients > 1:
            do_sub(2, t)
        pat = rng.choice(["timeout-then-silent", "delivered-then-silent", "keeps-polling"])
        if pat == "timeout-then-silent":
            do_poll(c, wait=True)
            ops.append({"op": "hbwait"})
            g.unsub(c, t)
            do_pub(t=t, kind="uni", to=c)
            do_poll(c, wait=True)
        elif pat == "delivered-then-silent":
            do_pub(t=t, kind="uni", to=c)
            do_poll(c, wait=True)
            ops.append({"op": "hbwait"})
            g.unsub(c, t)
            do_pub(t=t, kind="bcast")
            do_poll(c, wait=True)
        else:
            # the client polls all the time (each poll ends by its 40 ms time-out, the next one starts at
            # once): more than one heartbeat period passes, it must stay subscribed
            timeouts[0] = -8
            for _ in range(5):
                do_poll(c, wait=True)
            do_poll(c, wait=False)
            do_pub(t=t, kind="uni", to=c)
            do_await(c)
    else:  # mixed
        tmo = rng.choice([40, 50, 150])
        for _ in range(rng.randint(8, 22)):
            x = rng.random()
            c, t = rng.choice(clients), rng.choice(topics)
            if x < 0.15:
                do_sub(c, t)
            elif x < 0.22:
                do_unsub(c, t)
            elif x < 0.50:
                do_poll(c)
            elif x < 0.60 and g.pending.get(c):
                do_await(c)
            else:
                do_pub()
    return {"id": cid, "kind": "seq", "fam": fam, "timeout_ms": tmo, "heartbeat_ms": hb, "ops": ops}


WITNESS_OPS = [{"op": "sub", "c": 1, "t": 7}, {"op": "poll", "c": 1}, {"op": "await", "c": 1},
               {"op": "uni", "t": 7, "m": 42, "c": 1}, {"op": "poll", "c": 1}, {"op": "await", "c": 1}]


def gen_cases(ctx, hook):
    quick = ctx.tier == "quick"
    cases = []
    cid = 1
    # the history of C19_refuted_timeout_window first
    cases.append({"id": cid, "kind": "seq", "fam": "witness", "timeout_ms": 40, "heartbeat_ms": 10000,
                  "ops": [dict(o) for o in WITNESS_OPS]})
    fams = [("window", 60, 500), ("traffic", 60, 500), ("subs", 50, 400), ("hb", 12, 60), ("mixed", 70, 700)]
    for fam, nq, nt in fams:
        for _ in range(nq if quick else nt):
            cid += 1
            cases.append(gen_seq_case(ctx.rng, cid, fam))
    for k in range(8 if quick else 40):
        cid += 1
        cases.append({"id": cid, "kind": "stress", "mode": "traffic", "timeout_ms": 3000, "heartbeat_ms": 20000,
                      "clients": ctx.rng.choice([1, 2, 3]), "topics": ctx.rng.choice([1, 2, 2]),
                      "publishers": ctx.rng.choice([2, 3, 4]), "per_pub": ctx.rng.choice([40, 80, 150]),
                      "churn": k % 3 == 2, "seed": ctx.rng.randrange(1 << 30)})
    for k in range(3 if quick else 10):
        # a short heartbeat: consumers that poll all the time are never taken offline, whatever the heartbeat goroutines do
        cid += 1
        cases.append({"id": cid, "kind": "stress", "mode": "traffic", "timeout_ms": 3000, "heartbeat_ms": ctx.rng.choice([300, 400]),
                      "clients": ctx.rng.choice([1, 2]), "topics": 1, "publishers": 2, "per_pub": 700,
                      "churn": False, "seed": ctx.rng.randrange(1 << 30), "pace_us": 1000})
    for k in range(4 if quick else 16):
        cid += 1
        cases.append({"id": cid, "kind": "stress", "mode": "timeouts", "timeout_ms": ctx.rng.choice([10, 15, 20]),
                      "heartbeat_ms": 20000, "clients": ctx.rng.choice([1, 2]), "topics": ctx.rng.choice([1, 2]),
                      "publishers": ctx.rng.choice([2, 3]), "per_pub": ctx.rng.choice([20, 30]),
                      "churn": False, "seed": ctx.rng.randrange(1 << 30)})
    for k in range(2 if quick else 6):
        cid += 1
        cases.append({"id": cid, "kind": "subrace", "timeout_ms": 1, "heartbeat_ms": 20000, "subscribers": 2 + k % 2,
                      "duration_ms": 1500 if quick else 4000})
    if hook:
        for sc in FORCED_SCENARIOS + (["subscribe-race"] if subscribe_point_present() else []):
            for rep in range(1 if quick else 3):
                cid += 1
                cases.append({"id": cid, "kind": "forced", "scenario": sc, "timeout_ms": 40, "heartbeat_ms": 10000})
    return cases


# ------------------------------------------------------------------------------ seq: model side

def normalise_log(case, log):
    """A poll that the script thread logged as waiting (it had not returned within 4 ms) but that
    returned by itself before the next operation started was an immediate return: fold its R into
    its L.  Returns (events, ambiguous)."""
    ev = [dict(e) for e in log]
    out = []
    skip = set()
    for i, e in enumerate(ev):
        if i in skip:
            continue
        if e["e"] == "L" and e["r"] == "W":
            j = i + 1
            if j < len(ev) and ev[j]["e"] in ("R",) and ev[j]["c"] == e["c"] and ev[j]["r"] != "E":
                # nothing was logged in between: it completed on its own
                e = dict(e)
                e["r"] = ev[j]["r"]
                skip.add(j)
        out.append(e)
    # ambiguity: an operation that touches client c's responder was logged before c's time-out was
    # noticed but may have run after the timer fired
    amb = False
    tmo = case["timeout_ms"] * MS
    if case["heartbeat_ms"] < 1000:
        # with a short heartbeat the verdicts assume that timers fire roughly when they are due; a process
        # that was not scheduled for a long time (loaded machine) makes the heartbeat overtake the polls
        for e in out:
            late = e["t1"] - e["t0"] - (tmo if e["e"] in ("T", "R") else 0) - (
                (case["heartbeat_ms"] + 80) * MS if e["e"] == "H" else 0)
            if e["e"] in ("T", "R", "H", "S", "U", "P1", "PM", "PB") and late > 40 * MS:
                amb = True
    last_l = {}
    for i, e in enumerate(out):
        if e["e"] == "L":
            last_l[e["c"]] = i
        if e["e"] == "T":
            deadline = e["t0"] + tmo
            for x in out[last_l.get(e["c"], 0) + 1:i]:
                if x["e"] in ("P1", "PM", "PB", "U", "H", "S") and x["t1"] >= deadline - 6 * MS:
                    amb = True
    return out, amb


def seq_model_line(events):
    toks = []
    for e in events:
        k = e["e"]
        if k in ("S", "U"):
            toks += [k, str(e["c"]), str(e["t"])]
        elif k == "P1":
            toks += ["P1", str(e["t"]), str(e["m"]), str(e["c"])]
        elif k == "PM":
            toks += ["PM", str(e["t"]), str(e["m"]), ",".join(str(x) for x in e["cs"])]
        elif k == "PB":
            toks += ["PB", str(e["t"]), str(e["m"])]
        elif k in ("L", "T", "R"):
            toks += [k, str(e["c"])]
        elif k == "H":
            toks += ["H"]
    return " ".join(toks)


def parse_model(out):
    if out.startswith("MODEL-ERROR"):
        return None, None, out
    head, _, tail = out.partition("|")
    toks = head.split()
    info = {}
    hz = "0"
    for part in tail.split():
        if part.startswith("hz="):
            hz = part[3:]
    return toks, hz, tail.strip()


def seq_compare(events, mtoks):
    """-> None or text of the first disagreement."""
    obs = [e["r"] for e in events]
    exp = []
    i = 0
    for e in events:
        if e["e"] == "H":
            exp.append(None)          # the model prints the number of heartbeats fired; nothing is observed
        else:
            exp.append(e["r"])
    if len(mtoks) != len(events):
        return "model produced %d results for %d logged events" % (len(mtoks), len(events))
    for k, (e, m) in enumerate(zip(events, mtoks)):
        if e["e"] == "H":
            continue
        if e["r"] != m:
            return "event %d (%s%s): implementation %s, model %s" % (
                k, e["e"], " client %d" % e["c"] if "c" in e and e["e"] not in ("PM", "PB") else "", e["r"], m)
    return None


def parse_batch(r):
    """B7:1.2;8:3 -> {7:[1,2], 8:[3]}"""
    out = {}
    if not r.startswith("B"):
        return out
    for part in r[1:].split(";"):
        if not part:
            continue
        t, _, ms = part.partition(":")
        out[int(t)] = [int(x) for x in ms.split(".") if x != ""]
    return out


def parse_pub(r):
    out = {}
    for part in r.split(","):
        if ":" in part:
            c, _, v = part.partition(":")
            out[int(c)] = (v == "T")
    return out


def seq_oracle(case, events):
    """The property text on one sequential history.  -> list of (key, text)."""
    subs = set()                 # (c, t) currently subscribed, from the results of S / U / H
    epoch = {}                   # (c, t) -> epoch number
    accepted = {}                # (c, t, epoch) -> [ (m, index) ]
    delivered = {}               # (c, t, epoch) -> [m]
    seen = {}                    # (c, m, t) delivered
    pending = {}                 # c -> index of its L event while the poll is waiting
    poll_of = {}                 # index of L -> final result event index
    last_poll_end = {}           # c -> 'E' / 'B' / 'N' of the last completed poll
    finds = []
    ever = set()

    def deliver(c, r, idx):
        for t, ms in parse_batch(r).items():
            if (c, t) not in subs:
                finds.append(("delivered-after-unsubscribe" if (c, t) in ever else "delivered-to-non-subscriber",
                              "client %d was handed messages %s of topic %d at event %d while not subscribed to it"
                              % (c, ms, t, idx)))
                continue
            k = (c, t, epoch[(c, t)])
            for m in ms:
                if (c, t, m) in seen:
                    finds.append(("duplicate-delivery", "message %d of topic %d handed to client %d twice (events %d and %d)"
                                  % (m, t, c, seen[(c, t, m)], idx)))
                seen[(c, t, m)] = idx
                acc = [x for x, _ in accepted.get(k, [])]
                if m not in acc:
                    finds.append(("delivered-not-accepted", "client %d got message %d under topic %d which no publish to "
                                  "(client %d, topic %d) had reported as accepted" % (c, m, t, c, t)))
                delivered.setdefault(k, []).append(m)

    for idx, e in enumerate(events):
        k = e["e"]
        if k == "S":
            if e["r"] == "T":
                if (e["c"], e["t"]) in subs:
                    finds.append(("subscribe-twice-true", "second subscribe of client %d to topic %d returned true" % (e["c"], e["t"])))
                subs.add((e["c"], e["t"]))
                ever.add((e["c"], e["t"]))
                epoch[(e["c"], e["t"])] = epoch.get((e["c"], e["t"]), 0) + 1
            elif e["r"] == "F" and (e["c"], e["t"]) not in subs:
                finds.append(("subscribe-refused", "subscribe of client %d to topic %d returned false although it was not subscribed"
                              % (e["c"], e["t"])))
        elif k == "U":
            if e["r"] == "T":
                subs.discard((e["c"], e["t"]))
            elif (e["c"], e["t"]) in subs:
                finds.append(("unsubscribe-refused", "unsubscribe of client %d from topic %d returned false although it was subscribed"
                              % (e["c"], e["t"])))
        elif k == "H":
            # heartbeat period passed without a poll: whoever had a heartbeat armed is offline now; the
            # oracle does not know who - it forgets every subscription of clients without a waiting poll
            for (c, t) in list(subs):
                if c not in pending:
                    subs.discard((c, t))
                    epoch[(c, t)] = epoch.get((c, t), 0) + 1000   # results for this pair are not judged any more
        elif k in ("P1", "PM", "PB"):
            res = parse_pub(e["r"])
            if e["r"].startswith("ERR"):
                finds.append(("publish-error", "publish failed: %s" % e["r"]))
            for c, ok in res.items():
                key = (c, e["t"])
                if ok and key not in subs and epoch.get(key, 0) < 1000:
                    finds.append(("accepted-for-non-subscriber", "publish of %d to client %d topic %d reported success "
                                  "although the client is not subscribed" % (e["m"], c, e["t"])))
                if (not ok) and key in subs:
                    finds.append(("refused-for-subscriber", "publish of %d to subscribed client %d topic %d reported failure"
                                  % (e["m"], c, e["t"])))
                if ok and key in subs:
                    accepted.setdefault((c, e["t"], epoch[key]), []).append((e["m"], idx))
        elif k == "L":
            c = e["c"]
            if e["r"] == "W":
                pending[c] = idx
            elif e["r"] == "!":
                pass
            else:
                poll_of[idx] = idx
                last_poll_end[c] = e["r"][0]
                if e["r"].startswith("ERR"):
                    finds.append(("poll-error", "poll of client %d failed: %s" % (c, e["r"])))
                deliver(c, e["r"], idx)
        elif k in ("T", "R"):
            c = e["c"]
            if c in pending:
                poll_of[pending.pop(c)] = idx
            last_poll_end[c] = e["r"][0]
            deliver(c, e["r"], idx)

    # order and loss, per subscription epoch
    for (c, t, ep), acc in accepted.items():
        if ep >= 1000:
            continue
        got = delivered.get((c, t, ep), [])
        order = [m for m, _ in acc]
        pos = {m: i for i, m in enumerate(order)}
        seq = [pos[m] for m in got if m in pos]
        if seq != sorted(seq):
            finds.append(("order-not-preserved", "client %d topic %d: accepted in order %s, handed over in order %s"
                          % (c, t, order, got)))
        for m, ai in acc:
            # still subscribed, and did a poll of c that started after the acceptance complete?
            cut = None
            for j in range(ai + 1, len(events)):
                ej = events[j]
                if ej["e"] == "U" and ej["c"] == c and ej["t"] == t and ej["r"] == "T":
                    cut = j
                    break
                if ej["e"] == "H":
                    cut = j
                    break
            later = [j for j in sorted(poll_of) if j > ai and events[j]["c"] == c and (cut is None or poll_of[j] < cut)]
            waiting = [j for j in sorted(poll_of) if j < ai and poll_of[j] > ai and events[j]["c"] == c
                       and (cut is None or poll_of[j] < cut)]
            timed_out_waiting = bool(waiting) and events[poll_of[waiting[-1]]]["r"] == "E"
            if timed_out_waiting and (m in got or not later):
                finds.append(("waiting-poll-not-woken", "publish of %d to client %d topic %d reported success while the client's poll "
                              "was waiting, yet that poll ended by its time-out without the message" % (m, c, t)))
            if m in got or not later:
                continue       # delivered, or the client has not polled since: the message may still be cached
            prev = [j for j in sorted(poll_of) if poll_of[j] < ai and events[j]["c"] == c]
            after_timeout = bool(prev) and events[poll_of[prev[-1]]]["r"] == "E" and not waiting
            if after_timeout:
                finds.append((KNOWN_KEY, "publish of %d to client %d topic %d reported success at event %d, after the client's "
                              "previous poll had ended by its time-out and before its next poll; the next poll(s) of the "
                              "client returned without it: the message is lost" % (m, c, t, ai)))
            elif timed_out_waiting:
                finds.append(("publish-racing-with-poll-timeout-is-lost", "publish of %d to client %d topic %d reported success "
                              "while the client's poll was waiting; that poll ended by its time-out without the message "
                              "and no later poll returned it" % (m, c, t)))
            else:
                finds.append(("accepted-message-lost", "publish of %d to client %d topic %d reported success at event %d; "
                              "the client polled afterwards (events %s) and never got it" % (m, c, t, ai, later)))
    return finds


# ------------------------------------------------------------------------------ stress oracle

def stress_oracle(case, obs):
    finds = []
    eps = 2 * MS
    subs0 = {(s["c"], s["t"]) for s in obs.get("subs", []) if s["op"] == "sub" and s["r"] == "T"}
    churned = {(s["c"], s["t"]) for s in obs.get("subs", []) if s["op"] == "unsub"}
    polls = {}
    for p in obs.get("polls", []):
        polls.setdefault(p["c"], []).append(p)
    for c in polls:
        polls[c].sort(key=lambda p: p["k"])
    pubs = obs.get("pubs", [])
    acc = {}
    pub_of = {}
    for pb in pubs:
        if pb["r"].startswith("ERR"):
            finds.append(("publish-error", "publish failed: %s" % pb["r"]))
            continue
        for c, ok in parse_pub(pb["r"]).items():
            key = (c, pb["t"])
            if ok:
                if key not in subs0:
                    finds.append(("accepted-for-non-subscriber", "publish %d to client %d topic %d reported success; the client "
                                  "never subscribed to it" % (pb["m"], c, pb["t"])))
                acc.setdefault(key, []).append(pb)
                pub_of[(c, pb["t"], pb["m"])] = pb
            elif key in subs0 and key not in churned:
                finds.append(("refused-for-subscriber", "publish %d to subscribed client %d topic %d reported failure"
                              % (pb["m"], c, pb["t"])))
    got = {}
    for c, pl in polls.items():
        for p in pl:
            if p["r"] not in ("B", "E", "N"):
                finds.append(("poll-error", "poll %d of client %d failed" % (p["k"], c)))
            for t, ms in (p.get("by") or {}).items():
                t = int(t)
                for m in ms or []:
                    got.setdefault((c, t), []).append((m, p))
    stats = {"accepted": sum(len(v) for v in acc.values()), "delivered": sum(len(v) for v in got.values()),
             "timeouts": sum(1 for pl in polls.values() for p in pl if p["r"] == "E"), "lost": 0, "lost_explained": 0}
    for (c, t), items in got.items():
        ms = [m for m, _ in items]
        if (c, t) not in subs0:
            finds.append(("delivered-to-non-subscriber", "client %d was handed %s under topic %d, to which it never subscribed"
                          % (c, ms[:5], t)))
            continue
        dup = {m for m in ms if ms.count(m) > 1}
        if dup:
            finds.append(("duplicate-delivery", "client %d topic %d: message(s) %s handed over more than once"
                          % (c, t, sorted(dup)[:5])))
        for m in ms:
            if (c, t, m) not in pub_of:
                finds.append(("delivered-not-accepted", "client %d got %d under topic %d; no publish to it reported success"
                              % (c, m, t)))
        known = [pub_of[(c, t, m)] for m in ms if (c, t, m) in pub_of]
        # per publisher order, and real-time order across publishers
        lastseq = {}
        for pb in known:
            if pb["p"] in lastseq and lastseq[pb["p"]] > pb["seq"]:
                finds.append(("order-not-preserved", "client %d topic %d: publisher %d's message #%d handed over after its #%d"
                              % (c, t, pb["p"], pb["seq"], lastseq[pb["p"]])))
                break
            lastseq[pb["p"]] = pb["seq"]
        mx = None
        for pb in known:
            if mx is not None and pb["t1"] < mx["t0"]:
                finds.append(("order-not-preserved", "client %d topic %d: message %d, whose publish had returned before the publish "
                              "of %d began, was handed over after it" % (c, t, pb["m"], mx["m"])))
                break
            if mx is None or pb["t0"] > mx["t0"]:
                mx = pb
    for (c, t), items in acc.items():
        if (c, t) not in subs0 or (c, t) in churned:
            continue
        have = {m for m, _ in got.get((c, t), [])}
        for pb in items:
            if pb["m"] in have:
                continue
            stats["lost"] += 1
            pl = polls.get(c, [])
            explained = False
            for i, p in enumerate(pl):
                if p["r"] == "E" and p["t1"] <= pb["t1"] + eps:
                    nxt = pl[i + 1]["t0"] if i + 1 < len(pl) else None
                    if nxt is None or nxt >= pb["t0"] - eps:
                        explained = True
            if explained:
                stats["lost_explained"] += 1
                finds.append((KNOWN_KEY, "stress: publish %d to client %d topic %d reported success in the window around a poll "
                              "time-out of the client and was never handed over" % (pb["m"], c, t)))
            else:
                finds.append(("accepted-message-lost", "stress (%s): publish %d to client %d topic %d reported success (subscribed "
                              "throughout, polling throughout, no poll time-out nearby) and was never handed over"
                              % (case["mode"], pb["m"], c, t)))
    if obs.get("err"):
        finds.append(("stress-incomplete", "stress run did not finish: " + obs["err"]))
    for n in obs.get("notes", []):
        finds.append(("poll-loop-ended", n))
    return finds, stats


# ------------------------------------------------------------------------------ forced schedules

FORCED_SCENARIOS = ["timeout-while-popped", "publish-before-register", "heartbeat-after-repoll"]

# the model schedule of each scenario, in the driver's low-level tokens, and what the
# implementation must have shown (filled in by forced_expect from the model's own output)
FORCED_MODEL = {
    # sub; poll waits; publisher appends and pops the responder; the poll timer fires; publisher answers
    "timeout-while-popped":
        ("S 1 7 sL 1 pd 0 sP1 7 42 1 w 1 3 pt 0 hbs wd 1 pd 0 sL 1 pd 1 hz",
         {"pub": 7, "poll1": 8, "poll2": 10}),
    # sub; poll finds nothing and stops before registering; a publish completes; the poll registers and
    # waits; its timer fires; the next poll finds the message
    "publish-before-register":
        ("S 1 7 sL 1 p 0 7 sP1 7 42 1 wd 1 pd 0 pt 0 hbs pd 0 sL 1 pd 1 hz",
         {"pub": 4, "poll1": 8, "poll2": 10}),
    # sub; publish; poll returns the batch and starts a heartbeat goroutine that is held before it
    # registers its signal; the client polls again at once; the heartbeat registers, its timer fires
    "heartbeat-after-repoll":
        ("S 1 7 P1 7 42 1 sL 1 pd 0 sL 1 pd 1 hbs H pd 1 P1 7 43 1 hz",
         {"poll1": 3, "poll2": 8, "pub2": 9}),
    # two subscribes of one client and topic: the second has passed the existence check (2 steps) and is
    # held before its insert; the first completes; a publish is accepted; the second inserts; poll
    "subscribe-race":
        ("sS 1 7 sS 1 7 w 1 2 wd 0 P1 7 42 1 wd 1 sL 1 pd 0 hz",
         {"sub1": 3, "pub": 4, "sub2": 5, "poll1": 7}),
}


def subscribe_point_present():
    try:
        return '"subscribe.checked"' in open(os.path.join(hv.REPO, "rpc", "plugins", "push", "broker.go")).read()
    except OSError:
        return False


def hook_present():
    p = os.path.join(hv.REPO, "rpc", "plugins", "push", "verif_on.go")
    try:
        return "VerifYieldHook" in open(p).read()
    except OSError:
        return False


def build_hooked():
    hd = os.path.join(hv.V, "harness")
    out = os.path.join(hv.HBIN, "hv-c19hook")
    with hv.Lock("go" + hv.ALT):
        cmd = ["go", "build", "-tags", "verif c19hook", "-o", out]
        cmd[2:2] = hv.cover_flags()
        if hv.ALT:
            cmd.append("-modfile=" + os.path.join(hv.BUILD, "alt-" + hv.ALT, "go.mod"))
        rc, o, e = hv.sh(cmd + ["./cmd/c19"], cwd=hd, env=hv.GOENV, timeout=1800)
        if rc != 0:
            raise hv.EnvError("hooked harness c19 does not build: " + e[-3000:])
    return out


def forced_eval(case, obs, mout):
    """-> (disagreement or None, [(key, text)])"""
    f = obs.get("forced") or {}
    finds = []
    sc = case["scenario"]
    if obs.get("err"):
        return "forced schedule did not complete: " + obs["err"], finds
    toks, hz, tail = parse_model(mout)
    if toks is None:
        return "model runner failed: " + tail, finds
    pos = FORCED_MODEL[sc][1]
    mp = {k: toks[i] for k, i in pos.items()}
    if "dis" in toks:
        return "the scenario is not a run of the model: " + " ".join(toks), finds
    if sc == "timeout-while-popped":
        want = {"pub": mp["pub"], "poll1": mp["poll1"], "poll2": mp["poll2"]}
        got = {"pub": f.get("pub"), "poll1": f.get("poll1"), "poll2": f.get("poll2")}
        dis = None if got == want else "implementation %s, model %s" % (got, want)
        if f.get("pub") == "1:T" and f.get("poll1") == "E" and f.get("poll2") in ("E", "W"):
            finds.append(("publish-racing-with-poll-timeout-is-lost", "forced: the poll timer fired while the publisher held the "
                          "popped responder; the publish reported success, the poll returned {} and the next poll found nothing"))
        elif f.get("pub") == "1:T" and f.get("poll1") != "B7:42" and f.get("poll2") != "B7:42":
            finds.append(("accepted-message-lost", "forced time-out while the responder is popped: %s" % got))
        return dis, finds
    if sc == "publish-before-register":
        want = {"pub": mp["pub"], "poll1": mp["poll1"], "poll2": mp["poll2"]}
        got = {"pub": f.get("pub"), "poll1": f.get("poll1"), "poll2": f.get("poll2")}
        dis = None if got == want else "implementation %s, model %s" % (got, want)
        if f.get("pub") == "1:T" and f.get("poll1") != "B7:42" and f.get("poll2") != "B7:42":
            finds.append(("publish-before-responder-registration-is-lost", "forced: a publish completed between the poll's empty "
                          "check and the registration of its responder and was not returned by the next poll: %s" % got))
        return dis, finds
    if sc == "subscribe-race":
        want = {k: mp[k] for k in ("sub1", "pub", "sub2", "poll1")}
        got = {k: f.get(k) for k in ("sub1", "pub", "sub2", "poll1")}
        dis = None if got == want else "implementation %s, model %s" % (got, want)
        if f.get("pub") == "1:T" and f.get("poll1") != "B7:42":
            finds.append((SUBRACE_KEY, "forced: a second subscribe of the same client and topic, held between its existence "
                          "check and its insert while the first subscribe completed and a publish was accepted, replaced the "
                          "cache holding the accepted message: %s" % got))
        if f.get("sub1") == "T" and f.get("sub2") == "T":
            finds.append(("racing-subscribes-both-true", "forced: two racing subscribes of one client and topic both reported true"))
        return dis, finds
    if sc == "heartbeat-after-repoll":
        want = {"poll1": mp["poll1"], "poll2": mp["poll2"], "pub2": mp["pub2"]}
        got = {"poll1": f.get("poll1"), "poll2": f.get("poll2"), "pub2": f.get("pub2")}
        dis = None if got == want else "implementation %s, model %s" % (got, want)
        return dis, finds
    return "unknown scenario", finds


# ------------------------------------------------------------------------------------ driver

def short_case(c):
    return {k: v for k, v in c.items() if k not in ("fam",)}


def run_prosumer(ctx, exe):
    """The consumer side of the property (rpc/plugins/push/prosumer.go): a real push.Prosumer subscribes to topics one
    after the other while messages are published; for some topics the broker's OnSubscribe hook publishes a first message
    and lingers, so that the message travels through the poll that is already waiting for another topic while the
    subscribe answer is still on its way.  Per topic: what the callback received = what the publishes reported accepted,
    exactly once and in order."""
    rng = ctx.rng
    cases, cid = [], 800000
    topics = ["a", "b", "c"]

    def scenario(order, welcome, traffic):
        steps, k = [], 0
        for i, t in enumerate(order):
            steps.append(["sub", t])
            steps.append(["sleep", 120])      # the poll that follows the subscription is waiting at the broker
            for _ in range(traffic):
                for u in order[:i + 1]:
                    k += 1
                    steps.append(["push", u, "m%d-%s" % (k, u)])
                if rng.random() < 0.5:
                    steps.append(["sleep", rng.choice([1, 5, 20])])
        steps.append(["sleep", 50])
        for u in order:
            k += 1
            steps.append(["push", u, "last%d-%s" % (k, u)])
        return {"kind": "prosumer", "timeout_ms": rng.choice([300, 1000]), "heartbeat_ms": 10000, "psteps": steps,
                "welcome": welcome, "lag_ms": rng.choice([30, 60])}

    # a subscriber whose poll waits through one or more broker-side poll time-outs before anything is published keeps polling
    for tmo, idle in ((100, 350), (150, 200), (80, 500)):
        cid += 1
        cases.append({"id": cid, "kind": "prosumer", "timeout_ms": tmo, "heartbeat_ms": 10000, "welcome": [], "lag_ms": 0,
                      "psteps": [["sub", "a"], ["sleep", idle], ["push", "a", "after-idle-1"], ["sleep", 30], ["push", "a", "after-idle-2"],
                                 ["sub", "b"], ["sleep", idle], ["push", "b", "b-after-idle"], ["push", "a", "after-idle-3"]]})
    for order in (["a", "b"], ["a", "b", "c"], ["b", "a"]):
        for welcome in ([], order[1:], order, order[-1:]):
            for traffic in (0, 1, 2):
                cid += 1
                c = scenario(order, welcome, traffic)
                c["id"] = cid
                cases.append(c)
    rc, obs, err = hv.run_harness_parallel(exe, cases, nproc=6, timeout=900)
    byid = {o["id"]: o for o in obs if "id" in o}
    for c in cases:
        o = byid.get(c["id"])
        if o is None or o.get("err"):
            ctx.bump("prosumer_env")
            continue
        acc, dl = o.get("accepted") or {}, o.get("delivered") or {}
        ctx.count_case("prosumer|" + json.dumps([c["psteps"], c["welcome"]]), nontrivial=bool(c["welcome"]))
        ctx.bump("seq_family", "prosumer")
        for t in sorted(set(acc) | set(dl)):
            a, d = acc.get(t, []), dl.get(t, [])
            if a == d:
                continue
            lost = [m for m in a if m not in d]
            dup = [m for m in d if d.count(m) > 1]
            alien = [m for m in d if m not in a]
            kind = "lost" if lost else "duplicated" if dup else "never-accepted" if alien else "reordered"
            ctx.report("c19:prosumer:message-%s" % kind,
                       "push.Prosumer subscribed to %s (welcome from OnSubscribe for %s): topic %s accepted %s, the callback received %s"
                       % (c["psteps"] and [s[1] for s in c["psteps"] if s[0] == "sub"], c["welcome"], t, a[:8], d[:8]),
                       {"case": c, "observation": o, "failing_input": True})
            break


def run(ctx):
    ctx.level = "proof"
    ctx.assumptions += [
        "one sync.Map / cmap / MessageCache method and one channel operation is one atomic step (sequential consistency); "
        "select with several ready branches chooses any; the poll timer and the heartbeat timer are environment events",
        "sync.Map.Range visits a snapshot of the keys present when it starts, loading each value when it is visited "
        "(the Go 1.23 implementation); the order of the visit is chosen by the schedule",
        "one polling consumer per client id (one poll of a client at a time), as the property's quantifier says",
        "the server-side context of a request is not cancelled when the request ends (socket / websocket / udp "
        "transports; the in-process transport of the harness does the same)",
        "not modelled: Deny, OnSubscribe / OnUnsubscribe callbacks, HeartBeat <= 0",
        "sequential histories: an operation that was logged before a poll time-out was noticed but ended within 6 ms of "
        "the poll's deadline makes the case inconclusive (counted, not judged)",
    ]
    ctx.prove()
    hv.build_harness("c19")
    hv.build_modelrun("c19")
    hook = hook_present()
    exe = "c19"
    if hook:
        build_hooked()
        exe = "c19hook"
    ctx.note("yield_hook_in_tree", hook)
    if not hook:
        ctx.note("forced_note", "the tree under test has no yield hook in rpc/plugins/push: the racing orders "
                 "(time-out while the responder is popped, publish between the empty check and the registration, heartbeat "
                 "registering after the re-poll) are proved about the model but not forced on the implementation "
                 "(apply hooks/c19-push.patch to enable)")
    run_prosumer(ctx, exe)
    cases = gen_cases(ctx, hook)
    rc, obs, err = hv.run_harness_parallel(exe, cases, nproc=8, timeout=2400)
    byid = {o["id"]: o for o in obs if "id" in o}
    if rc != 0 or len(byid) != len(cases):
        first = next((c for c in cases if c["id"] not in byid), None)
        ctx.report("harness-crash", "harness process died (rc=%d) while running %s: %s" % (rc, json.dumps(first)[:300], err[-400:]),
                   {"case": first, "stderr": err[-2000:], "failing_input": True})
        cases = [c for c in cases if c["id"] in byid]

    # ---- which message() does the tree under test have?  The history of C19_refuted_timeout_window is
    # case 1: if its last poll returns the message the tree carries the repair and the histories are
    # replayed through Push.init_fixed (theorems C19_fixed_*), otherwise through Push.init.
    variant = "pinned"
    w = byid.get(1, {}).get("log", [])
    if len(w) >= 5 and w[3]["e"] == "P1" and w[3]["r"] == "1:T" and w[4]["e"] == "L" and w[4]["r"] == "B7:42":
        variant = "fixed"
    ctx.note("model_variant", variant + (" (Push.init: message() as pinned)" if variant == "pinned" else
                                         " (Push.init_fixed: a timed-out poll withdraws its responder; theorems C19_fixed_*)"))
    pre = "F " if variant == "fixed" else ""

    # ---- model runs
    seq = [c for c in cases if c["kind"] == "seq"]
    norm = {}
    lines = []
    for c in seq:
        ev, amb = normalise_log(c, byid[c["id"]].get("log", []))
        norm[c["id"]] = (ev, amb)
        lines.append(pre + seq_model_line(ev))
    mouts = hv.run_model("c19", lines) if lines else []
    forced = [c for c in cases if c["kind"] == "forced" and not byid[c["id"]].get("unsupported")]
    fouts = hv.run_model("c19", [pre + FORCED_MODEL[c["scenario"]][0] for c in forced]) if forced else []

    disagreements = []        # (case, obs, text, hz)
    findings = {}             # key -> (size, case, obs, text)
    agree = 0
    inconclusive = 0

    def add(key, text, case, o, size):
        if key not in findings or size < findings[key][0]:
            findings[key] = (size, case, o, text)

    for c, mout in zip(seq, mouts):
        o = byid[c["id"]]
        ev, amb = norm[c["id"]]
        nontrivial = any(e["e"] in ("T", "R") for e in ev) or any(e["e"] == "L" and e["r"].startswith("B") for e in ev)
        ctx.count_case("seq|%d|%d|%s" % (c["timeout_ms"], c["heartbeat_ms"], json.dumps(c["ops"], sort_keys=True)), nontrivial)
        ctx.bump("seq_family", c["fam"])
        ctx.bump("seq_events", None, len(ev))
        for e in ev:
            ctx.bump("seq_event_kinds", e["e"])
            if e["e"] in ("L", "R", "T"):
                ctx.bump("poll_outcomes", e["r"][0])
        if o.get("err"):
            disagreements.append((c, o, "the script did not complete: " + o["err"], "0"))
            continue
        if amb:
            inconclusive += 1
            continue           # neither compared nor judged
        toks, hz, tail = parse_model(mout)
        if toks is None:
            disagreements.append((c, o, "model runner failed: " + tail, "0"))
            continue
        d = seq_compare(ev, toks)
        if d:
            disagreements.append((c, o, d, hz))
        else:
            agree += 1
            if hz == "1":
                ctx.bump("histories_with_a_hazardous_step_in_the_model")
            if nontrivial and len(ctx.cov["samples"]) < 3:
                ctx.sample({"ops": c["ops"], "timeout_ms": c["timeout_ms"],
                            "observed": " ".join("%s=%s" % (e["e"], e["r"]) for e in ev), "model": tail})
        for key, text in seq_oracle(c, ev):
            add(key, text, c, o, len(c["ops"]))

    for c in cases:
        if c["kind"] != "stress":
            continue
        o = byid[c["id"]]
        finds, stats = stress_oracle(c, o)
        ctx.count_case("stress|%s" % json.dumps(short_case(c), sort_keys=True), stats["delivered"] > 0)
        ctx.bump("stress_mode", c["mode"])
        for k, v in stats.items():
            ctx.bump("stress_" + k, None, v)
        for key, text in finds:
            add(key, text, c, {"stats": stats, "notes": o.get("notes"), "err": o.get("err")}, 1000 + c["per_pub"])

    for c in cases:
        if c["kind"] != "subrace":
            continue
        o = byid[c["id"]]
        r = o.get("race") or {}
        ctx.count_case("subrace|%d|%d" % (c["subscribers"], c["id"]), r.get("accepted", 0) > 0)
        for k in ("rounds", "accepted", "delivered", "lost_count", "dup_count", "two_true_count"):
            ctx.bump("subrace_" + k, None, r.get(k, 0))
        if o.get("err"):
            add("subrace-incomplete", "subscribe race run failed: " + o["err"], c, o, 2000)
        if r.get("lost_count"):
            add(SUBRACE_KEY, "%d subscribes of one client id and topic raced with each other and a publisher: in %d of %d rounds "
                "the publish reported success and the client's polls never returned the message (first: %s)"
                % (c["subscribers"], r["lost_count"], r["rounds"], json.dumps(r["lost"][0])), c, o, 2000)
        if r.get("dup_count"):
            add("duplicate-delivery", "subscribe race: in %d rounds the accepted message was handed over more than once (first: %s)"
                % (r["dup_count"], json.dumps(r["dup"][0])), c, o, 2000)
        if r.get("two_true_count"):
            add("racing-subscribes-both-true", "%d subscribes of one client id and topic raced: in %d of %d rounds not exactly one "
                "of them reported true (first: %s)" % (c["subscribers"], r["two_true_count"], r["rounds"],
                                                       json.dumps(r["two_true"][0])), c, o, 2000)

    for c, mout in zip(forced, fouts):
        o = byid[c["id"]]
        ctx.count_case("forced|%s" % c["scenario"], True)
        ctx.bump("forced_scenarios", c["scenario"])
        d, finds = forced_eval(c, o, mout)
        if c["scenario"] == "heartbeat-after-repoll" and (o.get("forced") or {}).get("poll2") == "N":
            ctx.note("observed_heartbeat_registered_after_repoll",
                     "forced: the heartbeat goroutine started by a delivery registered its signal only after the client's "
                     "next poll had begun; it was never cancelled, fired, took every topic of the polling client offline "
                     "(the waiting poll returned nil, the next publish was refused). No accepted message is lost by this, "
                     "so it is recorded as an observation, not as a violation of C19; the model shows the same run")
        if d:
            disagreements.append((c, o, d, "1"))
        else:
            agree += 1
        for key, text in finds:
            add(key, text, c, o, 5)

    ctx.note("rule", "seeded random scripts over 1-3 clients x 1-2 topics: families window (poll time-out, then publishes, then "
             "poll), traffic (publishes waking waiting polls, cached messages taken by the next poll), subs (subscribe / "
             "unsubscribe around traffic), hb (heartbeat expiry, clients that keep polling), mixed; publishes are unicast / "
             "multicast / broadcast over RPC or Broker.Push. non-trivial = some poll waited or returned a batch. stress: 2-4 "
             "publishers x 20-150 unique payloads against 1-3 polling consumers, with long and with 10-20 ms poll time-outs "
             "and subscription churn. subrace: thousands of rounds of 2-3 racing subscribes of one client id and topic plus a "
             "publisher, then polls. distinct by full case text")
    ctx.note("exhaustive", False)
    ctx.note("traces_validated_against_impl", agree)
    ctx.note("inconclusive_timing_cases", inconclusive)
    ctx.note("disagreeing_cases", len(disagreements))

    for key, (size, c, o, text) in sorted(findings.items()):
        wit = {KNOWN_KEY: "C19_refuted_timeout_window (C19_exactly_once_partial: second kind of hazardous step)",
               "publish-racing-with-poll-timeout-is-lost": "C19_exactly_once_partial (first kind of hazardous step)",
               SUBRACE_KEY: "C19_refuted_subscribe_store (C19_subscription_cache_stable is what the atomic insert gives)",
               "racing-subscribes-both-true": "C19_refuted_subscribe_store"}.get(key)
        ctx.report(key, text, {"case": short_case(c), "observation": o, "failing_input": True, "coq_witness": wit})
    if disagreements and not findings:
        c, o, d, hz = disagreements[0]
        ctx.report("correspondence:" + c["kind"], "Model/Push.v no longer matches the broker (theorems C19_* not transferred): " + d,
                   {"case": short_case(c), "observation": o, "failing_input": False, "disagreement": d,
                    "correspondence": "Push.step (replay of the observed history) vs push.Broker",
                    "disagreeing_cases": len(disagreements)})
    elif disagreements:
        ctx.note("first_disagreement", disagreements[0][2])


def replay(ctx, path):
    r = json.load(open(path))
    case = dict(r["case"])
    case.setdefault("id", 1)
    hv.build_harness("c19")
    hv.build_modelrun("c19")
    exe = "c19"
    if case["kind"] == "forced":
        if not hook_present():
            print("the tree under test has no yield hook; apply hooks/c19-push.patch")
            return 3
        build_hooked()
        exe = "c19hook"
    rc, obs, err = hv.run_harness(exe, [case])
    if not obs:
        print("harness crashed:", err[-500:])
        return 1
    o = obs[0]
    if case["kind"] == "seq":
        ev, amb = normalise_log(case, o.get("log", []))
        print("observed:", " ".join("%s%s=%s" % (e["e"], e.get("c", ""), e["r"]) for e in ev))
        print("model   :", hv.run_model("c19", [seq_model_line(ev)])[0])
        why = seq_oracle(case, ev)
    elif case["kind"] == "stress":
        why, stats = stress_oracle(case, o)
        print("stats:", stats)
    elif case["kind"] == "subrace":
        r = o.get("race") or {}
        print("race:", json.dumps({k: v for k, v in r.items() if k.endswith("count") or k in ("rounds", "accepted", "sub_true")}))
        why = [(k, r[k]) for k in ("lost_count", "dup_count", "two_true_count") if r.get(k)]
    else:
        m = hv.run_model("c19", [FORCED_MODEL[case["scenario"]][0]])[0]
        print("observed:", json.dumps(o.get("forced")))
        print("model   :", m)
        d, why = forced_eval(case, o, m)
        if d:
            why = why + [("correspondence", d)]
    print("property oracle:", why[:3])
    return 1 if why else 0
