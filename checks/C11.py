"""C11 faults are contained: proof (Props/C11.v over the regenerated Gen/RecoverTable.v) +
correspondence of Model/Panic.v with the real library: every fault cell is executed in a child
process of the harness (real service on the cell's transport, real clients, raw and scripted
peers), and what the child and its sentinel calls show is compared with the model's verdict
for the cell.  The property's own oracle (process alive, other connections and later calls
unaffected, the faulty call ends in an error) is evaluated on every cell independently of the
model."""
import json
import os
import hv

TRANSPORT_MUX = {"tcp", "unix", "websocket", "udp"}      # one multiplexed connection per client

PANIC_VALUES_QUICK = ["string", "error", "custom", "nil"]
PLUGINS_QUICK = ["under:ratelimiter", "under:concurrentlimiter", "via:circuitbreaker", "via:cluster-forking", "via:oneway"]
PLUGINS_MORE = ["under:log", "under:timeout-disabled", "via:cluster-failover", "via:loadbalance", "via:log"]
HOSTILE_QUICK = ["hostile-error-nilptr", "hostile-error-panics"]
HOSTILE_MORE = ["hostile-error-runtime", "hostile-stringer-panics", "hostile-error-pointer-panics", "hostile-deep-format"]
MAX_REQUEST_LENGTH = 2048      # what the harness sets Service.MaxRequestLength to in the oversize-request cells
PANIC_VALUES_MORE = ["int", "pointer", "wrapped-error", "nil-error-pointer", "func", "slice",
                     "runtime-index", "runtime-nilmap", "runtime-nilptr", "runtime-divide"]


def variants(transport, side, fault, tier):
    q = tier == "quick"
    if fault == "service-panic":
        # the plugin dimension: the same panic below every standard plugin that wraps the execution on the service side
        # (under:) and seen by a client through every standard plugin that wraps the call on the client side (via:)
        plug = PLUGINS_QUICK if q else PLUGINS_QUICK + PLUGINS_MORE
        return (PANIC_VALUES_QUICK if q else PANIC_VALUES_QUICK + PANIC_VALUES_MORE) + plug
    if fault == "panic-under-timeout-plugin":
        return ["string"] if q else PANIC_VALUES_QUICK + ["runtime-index", "hostile-error-panics", "self-hostile"]
    if fault == "subscriber-panic":
        return ["string"] if q else PANIC_VALUES_QUICK + ["runtime-nilmap"]
    if fault == "hostile-panic-value":
        return HOSTILE_QUICK if q else HOSTILE_QUICK + HOSTILE_MORE
    if fault == "nested-hostile-panic-value":
        return ["nested-hostile", "self-hostile"]
    if fault in ("invoke-plugin-panic", "missing-method-panic"):
        return ["string"] if q else PANIC_VALUES_QUICK + ["runtime-index", "int"]
    if fault == "io-plugin-panic":
        return ["string", "error"] if q else PANIC_VALUES_QUICK + ["runtime-nilmap", "pointer"]
    if fault == "decode-error":
        return ["unknown-method", "type-mismatch"] if q else ["unknown-method", "type-mismatch", "garbage", "truncated", "too-few-args"]
    if fault == "decode-panic":
        return ["codec-panic", "neg-count"] if q else ["codec-panic", "neg-count", "bad-ref", "bad-class"]
    if fault == "frame-short":
        more = {"tcp": ["one-byte", "eleven-bytes"], "unix": ["one-byte", "eleven-bytes"],
                "udp": ["seven-bytes", "empty"], "websocket": ["empty", "three-bytes"]}.get(transport, [])
        return [""] if q else [""] + more
    if fault == "frame-bad-crc":
        return [""]
    if fault == "frame-length":
        if transport == "websocket":
            return ["declares-more"]
        return ["declares-more"] if q else ["declares-more", "declares-less"]
    if fault == "oversize-request":
        if side == "server":
            # every size around MaxRequestLength: the limit itself must pass, limit+1 must be refused
            lo, hi = (MAX_REQUEST_LENGTH - 1, MAX_REQUEST_LENGTH + 1) if q else (MAX_REQUEST_LENGTH - 8, MAX_REQUEST_LENGTH + 8)
            return [""] + ["size=%d" % n for n in range(lo, hi + 1)]
        return [""] + ["size=%d" % n for n in range(UDP_WINDOW[0], UDP_WINDOW[1] + 1)]
    if fault == "oversize-response":
        return [""] + ["size=%d" % n for n in range(UDP_WINDOW[0], UDP_WINDOW[1] + 1)]
    if fault == "bad-payload":
        return ["truncated", "wrong-tag"] if q else ["truncated", "wrong-tag", "empty", "error-truncated"]
    if fault == "provider-panic":
        return ["string"] if q else ["string", "error", "custom", "nil", "runtime-index", "provider-plugin", "provider-missing"]
    return [""]


UDP_WINDOW = (65490, 65520)    # every encoded size in the window around the datagram limit (model: udp_max_body)
LIMITS = {"udp_max_body": None}  # filled from the model


def size_of(case, o):
    """(requested size, actual encoded size, limit) of a sized case, or None"""
    v = case.get("variant") or ""
    if not v.startswith("size="):
        return None
    want = int(v[5:])
    ch = (o or {}).get("child") or {}
    if case["fault"] == "oversize-response":
        return want, ch.get("resp_len") or want, LIMITS["udp_max_body"]
    limit = LIMITS["udp_max_body"] if case["side"] == "client" else MAX_REQUEST_LENGTH
    return want, ch.get("req_len") or want, limit


def parse_cell(name):
    t, s, p, f = name.split(":")
    return {"cell": name, "transport": t, "side": s, "pool": p == "pool", "fault": f}


def gen_cases(ctx, cells):
    cases = []
    cid = 0
    for name in cells:
        c = parse_cell(name)
        for v in variants(c["transport"], c["side"], c["fault"], ctx.tier):
            cid += 1
            d = dict(c)
            d.update({"id": cid, "variant": v})
            cases.append(d)
    return cases


def ok(x):
    return x == "ok"


def observed_class(o):
    """What the child process and its sentinels show, as one of the model's verdict names
    (plus Hang / Env / the two extra symptoms the model has no name for)."""
    ch = o.get("child")
    if o.get("killed"):
        return "Hang"
    if o.get("exit") == 4 or (ch and any(n.startswith("env:") for n in ch.get("notes") or [])):
        return "Env"
    if o.get("died") or ch is None or not ch.get("done"):
        return "ProcessDies" if o.get("exit") not in (0, 3) or o.get("panic_line") else "Env"
    if not ok(ch["after_fresh"]) or not ok(ch["after_other"]):
        return "ServerStops"
    if not ok(ch["inflight_other"]):
        return "OtherConnAffected"
    if not ok(ch["after_same"]):
        return "LaterCallsFail"
    if ch.get("during", "n/a") not in ("ok", "n/a"):
        return "TeardownCallsFail"
    if ch["inflight_same"] not in ("ok", "n/a"):
        return "ConnClosed"
    return "CallError"


TIMEOUT_WORDS = ("deadline exceeded", "err:timeout", "i/o timeout", "timed out", "hang", "Client.Timeout")


def is_timeout(x):
    return any(w in (x or "") for w in TIMEOUT_WORDS)


def timing_only(o):
    """The only thing wrong with this observation is that calls ran into a deadline: the process is alive, the scenario
    finished (or the whole child had to be killed for taking too long), and every sentinel that is not ok failed with
    a timeout and nothing else.  Under machine load that says nothing about the library; such a case is re-run alone
    with longer deadlines.  A dead process, a refused connection, a closed connection or a wrong result never qualify."""
    if o is None:
        return False
    if o.get("killed"):
        return True
    ch = o.get("child")
    if ch is None or o.get("died"):
        return False
    if not ch.get("done"):
        return any("watchdog" in n for n in ch.get("notes") or [])
    bad = [ch.get(k, "n/a") for k in ("inflight_same", "inflight_other", "after_same", "after_other", "after_fresh", "during")]
    bad = [x for x in bad if x not in ("ok", "n/a")]
    if is_timeout(ch.get("fault")):
        bad.append(ch["fault"])
    bad += [v for v in (ch.get("before") or {}).values() if v != "ok"]
    return bool(bad) and all(is_timeout(x) for x in bad)


def same_conn_observable(case):
    """Is there a shared connection on which a call is in flight, so that ConnClosed and
    CallError can be told apart from outside?"""
    if case["transport"] not in TRANSPORT_MUX:
        return False
    return True


def agrees(case, model, seen, o=None, m=None):
    sz = size_of(case, o)
    if sz is not None and sz[2] is not None and sz[1] <= sz[2]:
        return seen == "CallError" and ((o.get("child") or {}).get("fault") == "ok")
    if seen == "TeardownCallsFail":
        return m is not None and not m["during_teardown_ok"]
    if model == seen:
        return True
    if model == "ConnClosed" and seen == "CallError" and not same_conn_observable(case):
        return True
    return False


FAULT_MUST_ERR = {"panic-under-timeout-plugin", "service-panic", "hostile-panic-value", "nested-hostile-panic-value", "invoke-plugin-panic", "io-plugin-panic", "missing-method-panic", "decode-error",
                  "decode-panic", "oversize-request", "oversize-response", "bad-payload", "provider-panic"}


def property_oracle(case, o):
    """The property text on the observed behaviour, independent of the model.  Returns
    (symptom, description) or None."""
    ch = o.get("child")
    if o.get("killed"):
        return ("hang", "the scenario never finished (child killed after the deadline)")
    if o.get("died") or ch is None or not ch.get("done"):
        if o.get("exit") in (3, 4) and not o.get("panic_line"):
            return None     # environment trouble is counted separately
        return ("process-dies", "the process terminated: %s; innermost library frame %s; goroutine started by %s"
                % (o.get("panic_line") or "exit %s" % o.get("exit"), o.get("origin") or "?", o.get("created_by") or "(not a library goroutine)"))
    if not (ok(ch["before"].get("same", "ok")) and ok(ch["before"].get("other", "ok"))):
        return None         # the scenario did not even start healthy: environment
    if not ok(ch["after_fresh"]):
        return ("server-stops", "a new client cannot complete a call after the fault: %s" % ch["after_fresh"])
    if not ok(ch["after_other"]):
        return ("server-stops", "the client on another connection cannot complete a call after the fault: %s" % ch["after_other"])
    if not ok(ch["inflight_other"]):
        return ("other-connection-affected", "a call in flight on another connection failed: %s" % ch["inflight_other"])
    if not ok(ch["after_same"]):
        return ("later-calls-fail", "the same client cannot complete a call after the fault: %s" % ch["after_same"])
    if ch.get("during", "n/a") not in ("ok", "n/a"):
        return ("calls-during-teardown-fail", "a call issued by the same client while the faulty connection was being torn down "
                "(from inside Transport.OnClose) failed instead of going over a fresh connection: %s" % ch["during"])
    f = ch["fault"]
    if f == "hang" or f.startswith("callerpanic:"):
        return ("faulty-call-" + ("hangs" if f == "hang" else "panics-in-caller"), "the faulty call itself: %s" % f)
    sz = size_of(case, o)
    if sz is not None and sz[2] is not None and sz[1] <= sz[2]:
        # a message of exactly the limit or less is no fault at all: it must go through, and nothing else may happen
        if f != "ok":
            return ("within-limit-refused", "a message of %d encoded bytes (limit %d) was not delivered: %s" % (sz[1], sz[2], f))
        if ch["inflight_same"] not in ("ok", "n/a"):
            return ("within-limit-disturbs", "a message of %d encoded bytes (limit %d) cost the connection: %s" % (sz[1], sz[2], ch["inflight_same"]))
        return None
    if case.get("variant") == "via:oneway":
        return None if f == "ok" else ("oneway-call-reports", "a oneway call returned %s" % f)
    if case["fault"] in FAULT_MUST_ERR and not f.startswith("err:"):
        return ("faulty-call-no-error", "the faulty call did not end in an error: %s" % f)
    return None


def key_of(case, symptom):
    # the reverse provider's handling of a provided function is the same code on every transport
    tr = case["transport"]
    if case["side"] == "client" and case["fault"] in ("provider-panic", "hostile-panic-value", "nested-hostile-panic-value"):
        tr = "reverse-provider"
    elif case["fault"] == "subscriber-panic":
        tr = "push-prosumer"          # the same code on every transport
    elif case["fault"] == "panic-under-timeout-plugin":
        tr = "execute-timeout-plugin"
    return "%s:%s:%s:%s" % (tr, case["side"], case["fault"], symptom)


def run_cases(cases, nproc=16):
    rc, obs, err = hv.run_harness_parallel("c11", cases, nproc=nproc, timeout=1500)
    return {o["id"]: o for o in obs}, err


def model_verdicts(names):
    lines = hv.run_model("c11", ["accounted"] + names)
    acc = lines[0].split()
    if len(acc) < 5:
        raise hv.EnvError("modelrun-c11: unexpected output: %s" % lines[0])
    LIMITS["udp_max_body"] = int(acc[4])
    out = {}
    for n, ln in zip(names, lines[1:]):
        parts = ln.split("|")
        if len(parts) < 6:
            raise hv.EnvError("modelrun-c11: unexpected output for %s: %s" % (n, ln))
        out[n] = {"verdict": parts[0], "contained": parts[1] == "1", "escaped": parts[2] == "1",
                  "frame": parts[3], "stack": parts[4], "during_teardown_ok": parts[5] == "1"}
    return acc, out


def run(ctx):
    ctx.level = "proof"
    ctx.assumptions += [
        "Go's rule as encoded in Model/Panic.v: recover() stops a panic only when called directly by a deferred "
        "function of the panicking goroutine; an unrecovered panic in any goroutine ends the process (checked empirically, Go 1.23)",
        "goroutines that are not the library's: net/http's connection goroutine recovers and closes that connection; "
        "fasthttp's worker, the application's WorkerPool and the goroutine calling the client API have no recover",
        "panic(nil) is observed with GODEBUG=panicnil=0 (Go >= 1.21 semantics; with the legacy setting every "
        "`if e := recover(); e != nil` handler, including net/http's, cannot see it)",
        "fmt.Sprintf shields ONE level of panics raised by a value's Error()/String() method (placeholder text) and re-panics on a "
        "nested one; against values whose method panics with a value whose method panics again (or with itself) the model relies "
        "on the deferred recover inside PanicError.Error/String that the table shows (format_total)",
        "runtime fatal errors (out of memory, concurrent map writes, stack overflow) are not panics and are out of scope",
        "what the recovering function does with the panic (error for the call / close the connection / end the serve loop) "
        "and the error paths of malformed frames are hand-written in the model and validated by the correspondence run only",
    ]
    # coq/Gen is shared by every check and every VERIF_REPO: regenerate immediately before proving, serialise
    # C11 runs among themselves, and afterwards make sure nobody else rewrote the table meanwhile (another
    # check's regen_gen for another tree) -- otherwise the proof and the extracted model were about the wrong tree
    hv.build_harness("c11")
    with hv.Lock("c11-gen"):
        for attempt in range(3):
            gen = hv.regen_gen()
            ctx.proof_broken = None
            ctx.prove()
            hv.build_modelrun("c11")
            again = (hv.regen_gen().get("RecoverTable") or {})
            if not again.get("rewritten"):
                break
            ctx.bump("table_rewritten_during_prove")
        names = hv.run_model("c11", ["cells"])[0].split()
        acc, model = model_verdicts(names)
    ctx.note("gotables", {k: v for k, v in (gen.get("RecoverTable") or {}).items() if k != "unresolved_list"})
    unresolved = (gen.get("RecoverTable") or {}).get("unresolved_list") or []
    if unresolved:
        ctx.note("gotables_unresolved", unresolved[:20])
    ctx.note("model_table_accounted", {"table_accounted": acc[0] == "1", "goroutines_present": acc[1] == "1", "unresolved": int(acc[2]),
                                       "format_shielded": acc[3] == "1", "udp_max_body": int(acc[4]),
                                       "format_total": len(acc) > 5 and acc[5] == "1"})
    ctx.note("cells", len(names))
    run_corpus(ctx)
    cases = gen_cases(ctx, names)
    if os.environ.get("C11_SELFTEST_TIMING"):
        # driver self-test: give a few cases deadlines nobody can meet in the first pass; they must be retried and pass
        first = [dict(c, slow=-1) if c["id"] % 97 == 1 else c for c in cases]
        byid, err = run_cases(first)
    else:
        byid, err = run_cases(cases)
    # anything lost to a crashed executor (not child) is re-run once, serially
    missing = [c for c in cases if c["id"] not in byid]
    if missing:
        again, _ = run_cases(missing, nproc=4)
        byid.update(again)
    inconclusive = 0
    disagreements = []
    validated = 0
    for c in cases:
        o = byid.get(c["id"])
        m = model[c["cell"]]
        if o is None:
            inconclusive += 1
            ctx.bump("inconclusive", "no-observation")
            continue
        seen = observed_class(o)
        ctx.bump("observed", seen)
        ctx.bump("model_verdicts", m["verdict"].split(":")[0])
        ctx.bump("by_transport", c["transport"])
        ctx.bump("by_fault", c["fault"])
        nontrivial = seen != "CallError" or c["fault"] not in ("decode-error",)
        ctx.count_case("%s|%s" % (c["cell"], c["variant"]), nontrivial=nontrivial)
        if seen == "Env":
            # one retry: loopback port clashes and the like
            again, _ = run_cases([c], nproc=1)
            o = again.get(c["id"], o)
            byid[c["id"]] = o
            seen = observed_class(o)
            if seen == "Env":
                inconclusive += 1
                ctx.bump("inconclusive", "environment")
                continue
        why = property_oracle(c, o)
        if (why is not None or not agrees(c, m["verdict"], seen, o, m)) and timing_only(o):
            # nothing but deadlines: re-run the case alone, with longer deadlines, up to three times; it counts only if it
            # reproduces every time (a genuine failure seen in a re-run is taken at once)
            ctx.bump("inconclusive_timing_retries")
            for attempt in (1, 2, 3):
                c2 = dict(c)
                c2["slow"] = 2 * attempt
                again, _ = run_cases([c2], nproc=1)
                o2 = again.get(c["id"])
                if o2 is None:
                    continue
                o, seen, why = o2, observed_class(o2), property_oracle(c, o2)
                byid[c["id"]] = o
                ctx.bump("timing_retry_attempts")
                if not timing_only(o) or (why is None and agrees(c, m["verdict"], seen, o, m)):
                    break
            if seen == "Env":
                inconclusive += 1
                ctx.bump("inconclusive", "environment")
                continue
        # a decode-panic trigger that no longer panics says nothing about containment
        if c["fault"] == "decode-panic" and c["variant"] != "codec-panic" and seen == "CallError" and why is None \
                and not agrees(c, m["verdict"], seen, o, m) and "runtime error" not in (o["child"]["fault"] or ""):
            inconclusive += 1
            ctx.bump("inconclusive", "trigger-did-not-panic")
            continue
        if why is not None:
            sym, text = why
            k = key_of(c, sym)
            ctx.report(k, "%s [%s]: %s (model: %s)" % (c["cell"], c["variant"] or "-", text, m["verdict"]),
                       {"case": c, "observed": seen, "model": m, "observation": o, "failing_input": True,
                        "coq_witness": witness_name(c) if m["escaped"] else None})
        sz = size_of(c, o)
        if sz is not None:
            ctx.bump("sized_cases", "within-limit" if (sz[2] is not None and sz[1] <= sz[2]) else "over-limit")
            if sz[0] != sz[1]:
                ctx.bump("sized_cases", "requested-size-not-met")
        if (o.get("child") or {}).get("during", "n/a") != "n/a":
            ctx.bump("teardown_sentinels", (o["child"]["during"] or "")[:3])
        if not agrees(c, m["verdict"], seen, o, m):
            disagreements.append((c, m, seen, o, why))
        else:
            validated += 1
            if seen in ("ProcessDies", "ServerStops", "ConnClosed") and len(ctx.cov["samples"]) < 6:
                ctx.sample({"cell": c["cell"], "variant": c["variant"], "model": m["verdict"], "recovering_frame": m["frame"],
                            "observed": seen, "panic": o.get("panic_line"), "origin": o.get("origin"),
                            "fault_call": (o.get("child") or {}).get("fault")})
    ctx.cov.setdefault("inconclusive_timing_retries", 0)
    ctx.note("traces_validated_against_impl", validated)
    ctx.note("inconclusive_cases", inconclusive)
    ctx.note("disagreements", len(disagreements))
    ctx.note("rule", "every applicable cell of 7 transports x {server,client} x pool off/on x 13 fault classes (the cell list "
             "comes from the model) x the tier's variants (panic values, payloads, frame shapes); each in its own child "
             "process with sentinel calls before, in flight (same and other connection) and after (same, other, fresh client); "
             "distinct by (cell, variant); non-trivial = everything except plain decode errors answered with an error")
    ctx.note("exhaustive", True)
    # disagreements that the oracle did not already turn into a finding: the model no longer matches the code
    unexplained = [d for d in disagreements if d[4] is None]
    for c, m, seen, o, why in disagreements:
        if why is not None:
            continue
    if unexplained and not ctx.violations:
        c, m, seen, o, why = unexplained[0]
        ctx.report("correspondence:%s" % c["cell"],
                   "Model/Panic.v says %s for %s [%s] but the library shows %s (theorems C11_* not transferred)"
                   % (m["verdict"], c["cell"], c["variant"] or "-", seen),
                   {"case": c, "observed": seen, "model": m, "observation": o, "failing_input": False,
                    "correspondence": "Panic.verdict_of vs the child process and its sentinels",
                    "disagreeing_cases": [(d[0]["cell"], d[0]["variant"], d[1]["verdict"], d[2]) for d in unexplained[:20]]})
    elif unexplained:
        ctx.note("disagreeing_cases_without_property_failure",
                 [(d[0]["cell"], d[0]["variant"], d[1]["verdict"], d[2]) for d in unexplained[:20]])
    # a broken obligation with no failing input beyond the cells the model itself refutes
    if ctx.proof_broken is not None and ctx.violations and all((v[2].get("model") or {}).get("escaped") for v in ctx.violations):
        ob = ctx.proof_broken
        ctx.report("broken-obligation:%s" % ob.get("lemma"),
                   "proof obligation %s (%s:%s) no longer checks over the regenerated table and no fault cell outside the "
                   "refuted ones fails: %s" % (ob.get("lemma"), ob.get("file"), ob.get("line"), (ob.get("message") or "")[:300]),
                   {"failing_input": False, "obligation": ob,
                    "model_table_accounted": ctx.cov.get("model_table_accounted"),
                    "gotables_unresolved": unresolved[:10]})
    if ctx.tier == "thorough":
        legacy_probe(ctx, names)


def run_corpus(ctx):
    """corpus first: the replays of the repaired findings must now show a contained fault"""
    import glob
    files = sorted(glob.glob(os.path.join(hv.V, "corpus", "C11-*.json")))
    cases = []
    for i, f in enumerate(files):
        r = json.load(open(f))
        if r.get("status") != "fixed":
            continue        # an open finding is reported through its cell, not as a regression of a repair
        c = dict(r["case"])
        c["id"] = 800000 + i
        cases.append((f, r, c))
    if not cases:
        return
    byid, _ = run_cases([c for _, _, c in cases], nproc=8)
    passed = 0
    for f, r, c in cases:
        o = byid.get(c["id"])
        why = property_oracle(c, o) if o is not None else ("no-observation", "the corpus case produced no observation")
        if o is not None and observed_class(o) == "Env":
            again, _ = run_cases([c], nproc=1)
            o = again.get(c["id"], o)
            why = property_oracle(c, o)
        if why is not None and timing_only(o):
            ctx.bump("inconclusive_timing_retries")
            for attempt in (1, 2, 3):
                c2 = dict(c)
                c2["slow"] = 2 * attempt
                again, _ = run_cases([c2], nproc=1)
                if c["id"] not in again:
                    continue
                o = again[c["id"]]
                why = property_oracle(c, o)
                ctx.bump("timing_retry_attempts")
                if why is None or not timing_only(o):
                    break
        if why is None:
            passed += 1
        else:
            ctx.report(key_of(c, why[0]), "corpus case %s (repaired by %s) fails again: %s" % (os.path.basename(f), r.get("fixed_by"), why[1]),
                       {"case": c, "observation": o, "failing_input": True, "corpus": os.path.basename(f)})
    ctx.note("corpus", {"cases": len(cases), "passed": passed})


def witness_name(c):
    return {"panic-under-timeout-plugin": "C11_contained_refuted_panic_under_timeout_plugin",
            "subscriber-panic": "C11_contained_refuted_subscriber_panic"}.get(
        c["fault"], "C11_contained_refuted_%s_%s_%s" % (c["transport"], c["side"], c["fault"].replace("-", "_")))


def legacy_probe(ctx, names):
    """Informational: panic(nil) under GODEBUG=panicnil=1 (the pre-1.21 semantics the harness module's go 1.13
    line would select by default).  recover() returns nil, so no handler notices the panic."""
    cases = []
    for i, t in enumerate(["mock", "tcp", "udp", "http"]):
        cases.append({"id": 900000 + i, "cell": "%s:server:nopool:service-panic" % t, "transport": t, "side": "server",
                      "pool": False, "fault": "service-panic", "variant": "nil", "godebug": "panicnil=1"})
    byid, _ = run_cases(cases, nproc=4)
    ctx.note("legacy_panicnil_probe", {c["cell"]: (observed_class(byid[c["id"]]), (byid[c["id"]].get("child") or {}).get("fault"))
                                       for c in cases if c["id"] in byid})


def replay(ctx, path):
    r = json.load(open(path))
    if "case" not in r:
        print("replay names a broken obligation, not an input:", json.dumps(r.get("obligation"))[:600])
        return 1
    hv.build_harness("c11")
    rc, obs, err = hv.run_harness("c11", [r["case"]])
    if not obs:
        print("no observation:", err[-300:])
        return 1
    o = obs[0]
    print(json.dumps(o)[:3000])
    why = property_oracle(r["case"], o)
    print("observed:", observed_class(o), " property oracle:", why)
    return 1 if why else 0
