"""C16 cluster plugin: proof (Props/C16.v) + correspondence of Model/Cluster.v with the real
plugin (Cluster.Handler with the failover/failtry/failfast configs, Forking, Broadcast)
installed with Client.Use on a real core.Client in front of a scripted IO handler that
records every attempt and the URL it is sent to."""
import itertools
import json
import hv

MODES = ("failover", "failtry", "failfast")


# --------------------------------------------------------------------------- cases

def call(outs, idem=None, retry=None, retried=None):
    c = {"outs": outs}
    if idem is not None:
        c["idem"] = idem
    if retry is not None:
        c["retry"] = retry
    if retried is not None:
        c["retried"] = retried
    return c


def scripts(length):
    return ["".join(p) for p in itertools.product("OEP", repeat=length)]


def eff_retry(case, cl):
    """retry budget in force for a call, as the documentation of the plugin states it"""
    if cl.get("retry") is not None:
        return cl["retry"]
    if case["mode"] == "default":
        return 10
    return 10 if case["retry"] < 0 else case["retry"]


def eff_idem(case, cl):
    if cl.get("idem") is not None:
        return cl["idem"]
    return False if case["mode"] == "default" else case["idem"]


def gen_cases(ctx):
    quick = ctx.tier == "quick"
    rng = ctx.rng
    cases = []

    def add(c):
        c["id"] = len(cases) + 1
        cases.append(c)

    def retry_case(mode, n, retry, idem, calls, reuse=False, gen="", backoff=(0, 0)):
        add({"kind": "retry", "mode": mode, "n": n, "retry": retry, "idem": idem, "calls": calls,
             "reuse": reuse, "gen": gen, "min_ns": backoff[0], "max_ns": backoff[1]})

    max_retry = 3 if quick else 4
    max_n = 4 if quick else 5
    # A. exhaustive outcome sequences of length retry+2, one call per fresh plugin
    for mode in MODES:
        for n in range(1, max_n + 1):
            for retry in range(0, max_retry + 1):
                for idem in (False, True):
                    for ov in (None, True, False):
                        # per-call override only matters when it differs; keep all three anyway
                        if not quick or n in (1, 2, 4) or ov is None:
                            for s in scripts(retry + 2):
                                retry_case(mode, n, retry, idem, [call(s, idem=ov)], gen="exh-single")
    # A'. the same scripts as one long sequence of calls through ONE plugin (the failover
    # index persists from call to call and visits every value)
    for mode in MODES:
        for n in range(1, max_n + 1):
            for retry in range(0, max_retry + 1):
                for idem, ov in ((True, None), (False, True), (True, False), (False, None)):
                    ss = scripts(retry + 2)
                    rng.shuffle(ss)
                    retry_case(mode, n, retry, idem, [call(s, idem=ov) for s in ss], gen="exh-shared")
    # B. per-call retry override, negative values, preset "retried" item
    for mode in MODES:
        for n in (1, 2, 3, 4):
            for cfg_retry in (0, 2):
                for ov_retry in (0, 1, 3, -1, -5):
                    L = max(ov_retry, 0) + 2
                    ss = scripts(L) if L <= 4 else [x + y for x in scripts(3) for y in ("EE", "PO", "OE")]
                    retry_case(mode, n, cfg_retry, True, [call(s, retry=ov_retry) for s in ss], gen="retry-item")
                    retry_case(mode, n, cfg_retry, False, [call(s, retry=ov_retry, idem=True) for s in ss[:40]],
                               gen="retry-item")
            for retried0 in (1, 2, 3, 7, -1):
                ss = scripts(4)
                retry_case(mode, n, 3, True, [call(s, retried=retried0) for s in ss], gen="retried-item")
    # B'. non-zero back-off (nanoseconds, so a whole case still takes microseconds): interval
    # below the cap, exactly at it, above it, negative / zero (failover while retried <=
    # number of URLs), max < min, max 0; retry budgets beyond max/min.  Observed: attempts,
    # URLs, result, retried item and the intervals the real OnRetry returned — never a clock.
    backoffs = [(1000, 2000), (1000, 3500), (1000, 1000), (2000, 1000), (50000, 100000), (1, 5), (3000, 0), (7, 20)]
    for mode in ("failtry", "failover"):
        for bo in backoffs:
            for n in ((1, 2) if mode == "failtry" else (1, 2, 3, 4)):
                for retry in (0, 1, 2, 3, 5, 8):
                    calls = [call("")]
                    if retry <= 2:
                        calls += [call(s) for s in scripts(retry + 2)]
                    else:
                        for k in range(0, retry + 2):
                            calls.append(call("E" * k + "O"))
                            calls.append(call(("PE" * 6)[:k] + "O"))
                        calls.append(call("P" * (retry + 2)))
                    calls += [call("EEO", idem=False), call("", retry=retry + 3), call("EPEPEPEPEPEPEO", retry=12),
                              call("", retried=2)]
                    retry_case(mode, n, retry, True, calls, gen="backoff", backoff=bo)
                retry_case(mode, n, -1, True, [call(""), call("EEEEEEEEEO"), call("P" * 12)], gen="backoff", backoff=bo)
                retry_case(mode, n, 4, True, [call("EEO"), call(""), call("EO"), call("")], reuse=True, gen="backoff",
                           backoff=bo)
    # negative plugin retry (New turns it into 10): success at every position, all failing
    for mode in MODES:
        for n in (1, 2, 3, 4):
            for neg in (-1, -7):
                calls = []
                for k in range(0, 13):
                    for fill in ("E", "P", "EP"):
                        calls.append(call((fill * 13)[:k] + "O"))
                calls += [call("E" * 13), call("P" * 13), call("EP" * 7), call("")]
                retry_case(mode, n, neg, True, calls, gen="negative-retry")
                retry_case(mode, n, neg, False, [call("EEO"), call("PO", idem=True), call("EEEEEEEEEEEEP", idem=True)],
                           gen="negative-retry")
    # degenerate sizes for every strategy: no URL at all (failover's OnFailure indexes urls[0])
    # and exactly one URL, retry 0 and small budgets, every outcome incl. panic, plugin
    # default and per-call overrides
    for mode in MODES + ("default",):
        for n in (0, 1):
            for retry in ((10,) if mode == "default" else (0, 1, 2, -1)):
                for idem in ((False,) if mode == "default" else (False, True)):
                    calls = [call(s) for s in ("O", "E", "P", "EO", "PO", "EE", "PP", "EP", "PE", "")]
                    calls += [call(s, idem=True, retry=0) for s in ("O", "E", "P")]
                    calls += [call(s, idem=True, retry=1) for s in ("EO", "PO", "PP", "EE")]
                    calls += [call(s, idem=False) for s in ("E", "P", "O")]
                    retry_case(mode, n, retry, idem, calls, gen="degenerate")
                    for s1 in ("O", "E", "P", "PO", "EP"):
                        retry_case(mode, n, retry, idem, [call(s1)], gen="degenerate")
    # C. sequences of calls sharing one plugin: all triples over a small script alphabet
    alpha = ["O", "EO", "PO", "EEO", "EPE", "EEEO", "PEPE"]
    for n in range(1, 5):
        for retry in (1, 2, 3):
            for trip in itertools.product(alpha, repeat=3):
                retry_case("failover", n, retry, True, [call(s) for s in trip], gen="shared-triples")
        for trip in itertools.product(alpha[:5], repeat=3):
            retry_case("failover", n, 2, False, [call(trip[0]), call(trip[1], idem=True), call(trip[2])],
                       gen="shared-triples")
            retry_case("failtry", n, 2, True, [call(s) for s in trip], reuse=True, gen="reused-context")
            retry_case("failover", n, 3, True, [call(s) for s in trip], reuse=True, gen="reused-context")
    # D. seeded random longer runs
    for _ in range(400 if quick else 6000):
        mode = rng.choice(MODES)
        n = rng.randint(1, 6)
        retry = rng.randint(0, 8)
        w = rng.choice([(1, 1, 1), (1, 3, 2), (1, 6, 3), (2, 1, 1)])
        calls = []
        for _ in range(rng.randint(3, 12)):
            L = rng.randint(0, retry + 3)
            outs = "".join(rng.choices("OEP", weights=w, k=L))
            calls.append(call(outs,
                              idem=rng.choice([None, None, True, False]),
                              retry=rng.choice([None, None, None, 0, 1, 2, 5, -1]),
                              retried=rng.choice([None, None, None, 1, 2])))
        retry_case(mode, n, rng.choice([retry, retry, -1]) if retry <= 3 else retry, rng.random() < 0.7, calls,
                   reuse=rng.random() < 0.25, gen="random",
                   backoff=rng.choice([(0, 0), (0, 0), (1000, 2500), (10, 10), (500, 3000), (2000, 1500)]))
    # E. forking / broadcast: all outcome vectors x all completion orders
    fan_n = 4 if quick else 5
    for kind in ("fork", "bcast"):
        for o in "OEP":
            add({"kind": kind, "n": 0, "outs": o, "order": [], "gen": "no-url"})
        for n in range(1, fan_n + 1):
            perms = list(itertools.permutations(range(n)))
            for outs in scripts(n):
                if n <= 4 or not quick:
                    chosen = perms
                else:
                    chosen = rng.sample(perms, 24)
                for order in chosen:
                    add({"kind": kind, "n": n, "outs": outs, "order": list(order), "gen": "exh-fan"})
        for _ in range(60 if quick else 1500):
            n = rng.randint(5, 9)
            outs = "".join(rng.choices("OEP", weights=rng.choice([(1, 1, 1), (1, 5, 5), (0, 1, 1)]), k=n))
            order = list(range(n))
            rng.shuffle(order)
            add({"kind": kind, "n": n, "outs": outs, "order": order, "gen": "random-fan"})
    # cluster.New() without a config = FailoverConfig(): retry 10, not idempotent, default
    # back-off (no sleep while retried <= number of URLs, so the retry item stays <= n).
    # Generated last and kept small: a tree whose default config really sleeps would
    # otherwise eat the time budget before the other cases are compared.
    for n in (1, 2, 3, 4):
        calls = [call(s) for s in ("O", "EO", "PO", "EE")]
        for r in range(0, n + 1):
            ss = scripts(r + 2)
            rng.shuffle(ss)
            calls += [call(s, idem=True, retry=r) for s in ss[:6]]
        retry_case("default", n, 10, False, calls, gen="default-config")
    return cases


# --------------------------------------------------------------------------- model side

def model_line(c):
    if c["kind"] == "retry":
        parts = ["R", c["mode"], str(c["n"]), str(c["retry"]), "1" if c["idem"] else "0",
                 "1" if c.get("reuse") else "0", str(c.get("min_ns", 0)), str(c.get("max_ns", 0))]
        for cl in c["calls"]:
            parts += [cl["outs"] or "-",
                      "-" if cl.get("idem") is None else ("1" if cl["idem"] else "0"),
                      "-" if cl.get("retry") is None else str(cl["retry"]),
                      str(cl.get("retried") or 0)]
        return " ".join(parts)
    tag = "F" if c["kind"] == "fork" else "B"
    if c["n"] == 0:
        return "%s0 %s" % (tag, c["outs"])
    return "%s %s %s" % (tag, c["outs"], ",".join(map(str, c["order"])) or "-")


def project(c, ob):
    """the implementation's behaviour in the model's output vocabulary"""
    if c["kind"] == "retry":
        return " | ".join("urls=%s res=%s retried=%d url=%d nf=%d ns=%d iv=%s" % (
            ",".join(map(str, o["urls"])), o["res"], o["retried"], o["url"], o["nf"], o["ns"],
            ",".join(map(str, o.get("iv") or [])))
            for o in ob.get("calls", []))
    inv = ",".join(map(str, sorted(ob.get("invoked", []))))
    if c["kind"] == "fork" or c["n"] == 0:
        return "res=%s invoked=%s" % (ob.get("res"), inv)
    return "res=%s slots=%s invoked=%s" % (ob.get("res"), ",".join(ob.get("slots") or []), inv)


# --------------------------------------------------------------------------- the property itself

RUNAWAY_CAP = 64  # harness: from this attempt on the scripted handler answers with a success


def outcome_at(outs, k):
    if k >= RUNAWAY_CAP:
        return ("O", k)
    return (outs[k], k) if k < len(outs) else ("E", 999)


def oracle_call(case, cl, o, earlier_failures=0):
    """Property text on ONE observed call. Returns None or (key, sentence).
    earlier_failures = failed attempts of the earlier calls through the same plugin (only
    used to tell the known wrap-around defect from other same-server retries in the key)."""
    n = case["n"]
    if n < 1:
        return None  # the property speaks about configured servers
    urls = o["urls"]
    m = len(urls)
    idem = eff_idem(case, cl)
    retry = eff_retry(case, cl)
    if o["res"] == "X":
        return ("panic-escapes", "a panic escaped from the plugin: %s" % o.get("msg"))
    if m == 0:
        return ("never-sent", "a result was returned although the call was never sent")
    if not idem and m > 1:
        return ("non-idempotent-resent", "a call not marked idempotent was sent %d times" % m)
    if case["mode"] == "failfast" and m > 1:
        return ("failfast-resent", "failfast sent the call %d times" % m)
    # "retried" is the plugin's own bookkeeping item; a caller that presets it to a negative
    # number hands out extra budget himself, which the property does not speak about
    if m > max(retry, 0) + 1 and (cl.get("retried") or 0) >= 0:
        return ("budget-exceeded", "an idempotent call with retry=%d was attempted %d times" % (retry, m))
    for k in range(m - 1):
        if outcome_at(cl["outs"], k)[0] == "O":
            return ("attempt-after-success", "attempt %d succeeded but %d more attempts were made" % (k, m - 1 - k))
    kind, ident = outcome_at(cl["outs"], m - 1)
    want = {"O": "R", "E": "E", "P": "P"}[kind] + str(ident)
    if o["res"] != want:
        if kind == "O":
            return ("wrong-response", "attempt %d succeeded but the caller got %s instead of its response" % (m - 1, o["res"]))
        return ("wrong-error", "the last attempt (%d) failed with %s but the caller got %s" % (m - 1, want, o["res"]))
    for u in urls:
        if not 0 <= u < n:
            return ("url-not-configured", "an attempt was sent to URL index %d, not one of the %d configured" % (u, n))
    if case["mode"] in ("failover", "default") and n >= 2:
        for k in range(m - 1):
            if urls[k + 1] == urls[k]:
                if k == 0 and urls[0] == 0 and earlier_failures is not None and earlier_failures % n == n - 1:
                    return ("failover:first-retry-goes-back-to-urls[0]-that-just-failed",
                            "failover: attempt 0 failed on server 0 and the retry was sent to server 0 again "
                            "although %d servers are configured (the failover index, shared by all calls of "
                            "the plugin, wrapped to 0 while every call starts at urls[0])" % n)
                return ("failover:retry-on-same-server",
                        "failover: attempt %d failed on server %d and attempt %d went to the same server"
                        % (k, urls[k], k + 1))
    return None


def oracle_all(case, ob):
    """every distinct property failure of the case (first occurrence per key)"""
    if case["kind"] != "retry":
        r = oracle_fan(case, ob)
        return [r] if r is not None else []
    out, seen = [], set()
    failures = 0
    for ci, (cl, o) in enumerate(zip(case["calls"], ob.get("calls", []))):
        r = oracle_call(case, cl, o, failures)
        failures += len(o["urls"]) - (1 if o["res"].startswith("R") else 0)
        if r is not None and r[0] not in seen:
            seen.add(r[0])
            out.append((r[0], "call %d: %s" % (ci, r[1]), ci))
    if len(ob.get("calls", [])) != len(case["calls"]):
        out.append(("calls-missing", "only %d of %d calls observed" % (len(ob.get("calls", [])), len(case["calls"])), 0))
    return out


def oracle(case, ob):
    rs = oracle_all(case, ob)
    return rs[0] if rs else None


def oracle_fan(case, ob):
    n, outs, order = case["n"], case["outs"], case["order"]
    if n < 1:
        return None
    res = ob.get("res") or "?"
    inv = sorted(ob.get("invoked", []))
    if res == "HANG":
        return ("%s:caller-never-released" % ("forking" if case["kind"] == "fork" else "broadcast"),
                "%s: every goroutine was released and has finished but the call never returned (servers invoked: %s)"
                % (case["kind"], inv), 0)
    if case["kind"] == "fork":
        oks = [i for i in order if outs[i] == "O"]
        if oks:
            if res != "R%d" % oks[0]:
                return ("forking:not-first-success",
                        "forking: server %d was the first to succeed but the caller got %s" % (oks[0], res), 0)
        else:
            if res[0] not in "EP":
                return ("forking:no-error-when-all-fail", "forking: every server failed but the caller got %s" % res, 0)
        if any(x < 0 or x >= n for x in inv) or len(set(inv)) != len(inv):
            return ("forking:bad-invocations", "forking: invocations %s for %d servers" % (inv, n), 0)
        return None
    if inv != list(range(n)):
        return ("broadcast:not-each-once", "broadcast: servers invoked %s, expected each of %d exactly once" % (inv, n), 0)
    slots = ob.get("slots") or []
    want = ["R%d" % i if outs[i] == "O" else "nil" for i in range(n)]
    if slots != want:
        return ("broadcast:wrong-slots", "broadcast: result slots %s, expected %s" % (slots, want), 0)
    fails = [i for i in order if outs[i] != "O"]
    if (res == "nil") != (not fails):
        return ("broadcast:error-iff-some-failure", "broadcast: err=%s with failing servers %s" % (res, fails), 0)
    return None


def minimise(case, key, ci):
    """ddmin over the call sequence, then over the letters of the scripts, re-running the
    implementation; keeps a candidate only if the oracle still reports the same key"""
    if case["kind"] != "retry":
        return case, None
    cur = dict(case, calls=case["calls"][: ci + 1])

    def still_fails(cands):
        for i, c in enumerate(cands):
            c["id"] = i + 1
        rc, obs, err = hv.run_harness("c16", cands)
        byid = {o["id"]: o for o in obs}
        for c in cands:
            ob = byid.get(c["id"])
            if ob is not None:
                if any(r[0] == key for r in oracle_all(c, ob)):
                    return c, ob
        return None

    hit = still_fails([dict(cur)])
    if hit is None:
        return dict(case), None
    cur, ob = hit
    chunk = max(1, len(cur["calls"]) // 2)
    while chunk >= 1 and len(cur["calls"]) > 1:
        calls = cur["calls"]
        cands = [dict(cur, calls=calls[:i] + calls[i + chunk:]) for i in range(0, len(calls), chunk)
                 if len(calls[:i] + calls[i + chunk:]) >= 1]
        hit = still_fails(cands) if cands else None
        if hit is not None:
            cur, ob = hit
            chunk = min(chunk, max(1, len(cur["calls"]) // 2))
        elif chunk == 1:
            break
        else:
            chunk //= 2
    changed = True
    while changed:
        changed = False
        cands = []
        for i, cl in enumerate(cur["calls"]):
            for j in range(len(cl["outs"])):
                ncl = dict(cl, outs=cl["outs"][:j] + cl["outs"][j + 1:])
                cands.append(dict(cur, calls=cur["calls"][:i] + [ncl] + cur["calls"][i + 1:]))
        hit = still_fails(cands) if cands else None
        if hit is not None:
            cur, ob = hit
            changed = True
    return cur, ob


def nontrivial(c, ob):
    if c["kind"] == "retry":
        return any(len(o["urls"]) > 1 or o["res"][0] in "EPX" for o in ob.get("calls", []))
    return c["n"] >= 2 and any(x != "O" for x in c["outs"])


def canon(c):
    d = {k: v for k, v in c.items() if k not in ("id", "gen")}
    return json.dumps(d, sort_keys=True)


# --------------------------------------------------------------------------- concurrent bursts

def burst_cases(ctx):
    """Bursts of concurrently failing idempotent calls through one failover plugin (their
    failures race inside getIndex), each followed by sequential probe calls.  How a burst
    interleaved is unknown; C16_get_index_concurrent says the index is back in [0,n) once
    the burst is over, so the probes must behave like the sequential model started from
    SOME index in [0,n)."""
    quick = ctx.tier == "quick"
    cases = []
    for n in (2, 3, 4):
        probes = [call("", retry=n + 1),
                  dict(call("", retry=n), health="D" + "U" * (n - 1)),
                  dict(call("", retry=n), health="D" * (n - 1) + "U"),
                  call("EO"),
                  dict(call("", retry=n - 1), health="D" + "U" * (n - 1)),
                  call("PEO"),
                  dict(call("", retry=n + 2), health="DU" + "D" * (n - 2))]
        for rep in range(3 if quick else 12):
            cases.append({"id": len(cases) + 1, "kind": "burst", "n": n, "retry": 3, "idem": True, "mode": "failover",
                          "goroutines": 32 if rep % 3 != 2 else 8, "iters": 200, "rounds": 8 if quick else 20,
                          "min_ns": 0, "max_ns": 0, "calls": probes, "gen": "burst"})
    return cases


def derived_call(cl, o):
    """attempt-indexed script of a probe: for health probes what the servers actually visited answered"""
    if not cl.get("health"):
        return cl
    h = cl["health"]
    d = {k: v for k, v in cl.items() if k != "health"}
    d["outs"] = "".join("O" if 0 <= u < len(h) and h[u] == "U" else "E" for u in o["urls"])
    return d


def burst_model_line(c, calls, ix):
    line = model_line(dict(c, kind="retry", calls=calls, reuse=False))
    return "RI %d %s" % (ix, line[2:])


def oracle_round(c, probes, calls, obs_round, ix):
    out, seen = [], set()
    failures = ix
    n = c["n"]
    for ci, (cl0, cl, o) in enumerate(zip(probes, calls, obs_round)):
        r = oracle_call(c, cl, o, failures)
        if failures is not None:
            failures += len(o["urls"]) - (1 if o["res"].startswith("R") else 0)
        h = cl0.get("health") or ""
        rs = [r] if r is not None else []
        if "U" in h and not o["res"].startswith("R"):
            retry = eff_retry(c, cl0)
            if retry >= n or (retry >= n - 1 and h.count("U") >= 2):
                rs.append(("failover:healthy-server-never-tried",
                           "failover: %d of %d servers are healthy (%s) and retry=%d, but the call failed with %s after "
                           "trying servers %s" % (h.count("U"), n, h, retry, o["res"], o["urls"])))
        for r in rs:
            if r[0] not in seen:
                seen.add(r[0])
                out.append((r[0], "probe %d: %s" % (ci, r[1]), ci))
    return out


def run_bursts(ctx):
    cases = burst_cases(ctx)
    rc, obs, err = hv.run_harness("c16", cases, timeout=600)
    byid = {o["id"]: o for o in obs}
    if rc != 0 or len(byid) != len(cases):
        first = next((c for c in cases if c["id"] not in byid), None)
        ctx.report("harness-crash-burst", "harness process died (rc=%d) while running burst case %s: %s" % (rc, first, err[-400:]),
                   {"case": first, "stderr": err[-2000:], "failing_input": True})
        cases = [c for c in cases if c["id"] in byid]
    lines, index = [], []
    for c in cases:
        for r, obs_round in enumerate(byid[c["id"]].get("rounds", [])):
            calls = [derived_call(cl, o) for cl, o in zip(c["calls"], obs_round)]
            for ix in range(c["n"]):
                lines.append(burst_model_line(c, calls, ix))
                index.append((c, r, ix, calls, obs_round))
    model = hv.run_model("c16", lines) if lines else []
    matched = {}
    cands = {}
    for (c, r, ix, calls, obs_round), ml in zip(index, model):
        mm = ml.rpartition(" lit=")[0]
        cands.setdefault((c["id"], r), []).append(mm)
        if mm == project(dict(c, kind="retry"), {"calls": obs_round}):
            matched[(c["id"], r)] = ix
    rounds = agree = 0
    unexplained = None
    for c in cases:
        ctx.count_case(canon(c), nontrivial=True)
        ctx.bump("by_generator", "burst")
        ctx.bump("by_kind", "burst")
        for r, obs_round in enumerate(byid[c["id"]].get("rounds", [])):
            rounds += 1
            calls = [derived_call(cl, o) for cl, o in zip(c["calls"], obs_round)]
            ix = matched.get((c["id"], r))
            seen = project(dict(c, kind="retry"), {"calls": obs_round})
            if ix is not None:
                agree += 1
                ctx.bump("burst_index_after_burst", "n=%d ix=%d" % (c["n"], ix))
            fails = oracle_round(c, c["calls"], calls, obs_round, ix)
            for key, why, ci in fails:
                ctx.report(key, "after a burst of %dx%d concurrent failing calls, %s" % (c["goroutines"], c["iters"], why),
                           {"case": {k: v for k, v in c.items() if k not in ("gen", "id")}, "round": r, "observed": seen,
                            "model_for_each_start_index": cands.get((c["id"], r)), "failing_input": True,
                            "note": "the burst is a race: replaying may need several rounds"})
            if ix is None and not fails and unexplained is None:
                unexplained = (c, r, seen)
    ctx.note("burst_rounds", rounds)
    ctx.note("burst_rounds_matching_the_model_from_some_index", agree)
    if unexplained is not None and not any(v[0].startswith("failover:") for v in ctx.violations):
        c, r, seen = unexplained
        ctx.report("correspondence-burst", "after a burst of concurrent failures the probes do not behave like Model/Cluster.v "
                   "started from any index in [0,n) (C16_get_index_concurrent not transferred)",
                   {"case": {k: v for k, v in c.items() if k not in ("gen", "id")}, "round": r, "observed": seen,
                    "model_for_each_start_index": cands.get((c["id"], r)), "failing_input": False})


# --------------------------------------------------------------------------- run

def run(ctx):
    ctx.level = "proof"
    ctx.assumptions += [
        "the back-off interval OnRetry returns is modelled (min*retried resp. min*(retried-len(urls)), clamped to max) and "
        "compared with what the real closure returns; the sleep itself is not observed (no verdict depends on a clock); "
        "int64 overflow of minInterval*retried is out of reach",
        "sequential families: calls through one plugin are sequential; burst family: concurrent calls, atomic.AddInt64 / "
        "StoreInt64 are the atomic steps of the getIndex LTS (sequential consistency); the index is far from int64 overflow",
        "Forking/Broadcast: the completion effect of a goroutine (atomic.AddInt64 + once.Do, or the slot write + once.Do) "
        "is one atomic step of the LTS; sync.Once / WaitGroup / channel close behave as documented",
        "completion order is forced by releasing the scripted handler per URL and waiting until the released goroutine "
        "has exited (runtime.NumGoroutine); a case whose wait times out is counted inconclusive",
    ]
    ctx.prove()
    hv.build_harness("c16")
    hv.build_modelrun("c16")
    cases = gen_cases(ctx)
    rc, obs, err = hv.run_harness("c16", cases, timeout=600 if ctx.tier == "quick" else 3000)
    byid = {o["id"]: o for o in obs}
    if rc != 0 or len(byid) != len(cases):
        done = set(byid)
        first = next((c for c in cases if c["id"] not in done), None)
        ctx.report("harness-crash", "harness process died (rc=%d) while running %s: %s" % (rc, first, err[-400:]),
                   {"case": first, "stderr": err[-2000:], "failing_input": True})
        cases = [c for c in cases if c["id"] in done]
    # a case whose completion order could not be forced in time is run once more; if that
    # persists it is not luck: say so instead of skipping it silently
    again = [c for c in cases if byid[c["id"]].get("inconclusive")]
    if again:
        rc2, obs2, err2 = hv.run_harness("c16", again[:20], timeout=300)
        for o in obs2:
            if not o.get("inconclusive"):
                byid[o["id"]] = o
        still = [c for c in again[:20] if byid[c["id"]].get("inconclusive")]
        if still:
            ctx.report("fan-out-order-cannot-be-forced",
                       "the scripted completion order could not be forced twice in a row (a goroutine the plugin should have "
                       "started never finished): %s" % json.dumps({k: v for k, v in still[0].items() if k != "gen"}),
                       {"case": {k: v for k, v in still[0].items() if k != "gen"}, "observation": byid[still[0]["id"]],
                        "failing_input": False, "persistently_inconclusive": len(still)})
    model = hv.run_model("c16", [model_line(c) for c in cases])
    inconclusive = 0
    disagreements = []
    agreeing = []
    ncalls = 0
    for c, ml in zip(cases, model):
        ob = byid[c["id"]]
        if ob.get("inconclusive"):
            inconclusive += 1
            continue
        ctx.count_case(canon(c), nontrivial=nontrivial(c, ob))
        ctx.bump("by_generator", c.get("gen", "?"))
        ctx.bump("by_kind", c["kind"] if c["kind"] != "retry" else c["mode"])
        seen = project(c, ob)
        if c["kind"] == "retry":
            ncalls += len(c["calls"])
            for o in ob.get("calls", []):
                ctx.bump("attempts_per_call", str(len(o["urls"])))
                ctx.bump("observed_result_class", o["res"][0])
            mm, _, lit = ml.rpartition(" lit=")
            if lit != "true":
                ctx.report("model-vs-literal", "structural and literal recursion disagree (contradicts C16_terminates): " + ml[:200],
                           {"case": c, "model": ml, "failing_input": False})
        else:
            ncalls += 1
            ctx.bump("observed_result_class", (ob.get("res") or "?")[0])
            mm, _, lts = ml.rpartition(" lts=")
            if lts != "true":
                ctx.report("model-vs-lts", "completion-order model and goroutine LTS disagree (contradicts C16_forking_lts / "
                           "C16_broadcast_each_once): " + ml[:200], {"case": c, "model": ml, "failing_input": False})
        if mm != seen:
            disagreements.append((c, ob, mm, seen))
        else:
            agreeing.append((c, ob))
            if nontrivial(c, ob) and rng_pick(ctx, c):
                ctx.sample({"case": {k: v for k, v in c.items() if k != "gen"}, "observed": seen, "model": mm})
    ctx.note("calls_executed", ncalls)
    ctx.note("inconclusive_timing_cases", inconclusive)
    ctx.note("traces_validated_against_impl", len(agreeing))
    ctx.note("disagreeing_cases", len(disagreements))
    ctx.note("rule", "a case = one plugin instance + a sequence of calls (or one forking/broadcast call); exhaustive O/E/P "
             "outcome sequences of length retry+2 for retry 0..%d x plugin idempotent flag x per-call override x 1..%d servers x "
             "{failover,failtry,failfast}, both on fresh plugins and as one long sequence through one plugin; per-call retry/"
             "retried items incl. negative; non-zero back-off (ns) below / at / above the cap, negative, max<min, budgets beyond "
             "max/min; negative plugin retry; New() default; triples of calls sharing a plugin; reused "
             "ClientContext; forking/broadcast over all outcome vectors x all completion orders for 1..4 servers (+ sampled "
             "larger); seeded random runs. non-trivial = some attempt failed (retry kinds) / >=2 servers and some failure "
             "(fan-out); distinct by the whole case" % ((3, 4) if ctx.tier == "quick" else (4, 5)))
    ctx.note("exhaustive", True)

    reported = set()

    def report_oracle(c, ob, mm, seen, r):
        key, why, ci = r
        if key in reported:
            return
        reported.add(key)
        small, sob = minimise(c, key, ci)
        small = {k: v for k, v in small.items() if k not in ("gen", "id")}
        if sob is not None:
            why = next(r[1] for r in oracle_all(dict(small), sob) if r[0] == key)
            seen = project(small, sob)
            mm = hv.run_model("c16", [model_line(small)])[0]
        ctx.report(key, why, {"case": small, "observed": seen, "model": mm, "failing_input": True,
                              "found_in_case": c["id"], "found_by_generator": c.get("gen")})

    # property failures that also occur on cases where model and code agree are not what
    # makes the two disagree
    agreeing_keys = set()
    agreeing_hits = []
    for c, ob in agreeing:
        for r in oracle_all(c, ob):
            if r[0] not in agreeing_keys:
                agreeing_keys.add(r[0])
                agreeing_hits.append((c, ob, r))
    # disagreeing cases first: is the property itself violated on one of them?
    explained = False
    for c, ob, mm, seen in disagreements:
        for r in oracle_all(c, ob):
            if r[0] not in agreeing_keys:
                explained = True
            report_oracle(c, ob, mm, seen, r)
    if disagreements and not explained:
        c, ob, mm, seen = disagreements[0]
        ctx.report("correspondence", "Model/Cluster.v no longer matches cluster.go (theorems C16_* not transferred)",
                   {"case": {k: v for k, v in c.items() if k != "gen"}, "observed": seen, "model": mm,
                    "failing_input": False,
                    "correspondence": "Cluster.run_calls / forking / bcast_run vs Cluster.Handler / Forking / Broadcast",
                    "disagreeing_cases": len(disagreements)})
    elif disagreements:
        # a property failure was found; still name the broken correspondence in the evidence
        ctx.note("correspondence_broken_example", {"case": disagreements[0][0]["id"], "observed": disagreements[0][3][:300],
                                                   "model": disagreements[0][2][:300]})
    # the property oracle on every agreeing case too (independent of the model)
    for c, ob, r in agreeing_hits:
        report_oracle(c, ob, project(c, ob), project(c, ob), r)
    run_bursts(ctx)


def rng_pick(ctx, c):
    return len(ctx.cov["samples"]) < 6 and c["id"] % 977 == 3


def replay(ctx, path):
    r = json.load(open(path))
    hv.build_harness("c16")
    case = dict(r["case"])
    case.setdefault("id", 1)
    rc, obs, err = hv.run_harness("c16", [case])
    print(json.dumps(obs))
    if not obs:
        print("harness crashed:", err[-500:])
        return 1
    if case["kind"] == "burst":
        bad = []
        for rnd, obs_round in enumerate(obs[0].get("rounds", [])):
            calls = [derived_call(cl, o) for cl, o in zip(case["calls"], obs_round)]
            bad += [(rnd,) + f for f in oracle_round(case, case["calls"], calls, obs_round, None)
                    if f[0] != "failover:retry-on-same-server" or True]
        print("property oracle (start index unknown):", bad[:3])
        return 1 if bad else 0
    why = oracle(case, obs[0])
    print("property oracle:", why)
    return 1 if why else 0
