"""C10 every call terminates: proof (Props/C10.v) + correspondence of Model/CallLife.v with the real multiplexed
transports (socket, websocket, udp) and Client.Transport / Client.Abort.

  fault   one real client against a scripted raw-socket peer (tcp, unix, ws, udp): N concurrent callers; when all
          requests have arrived the peer answers some of them and then fails in a scripted way: closes, resets,
          sends the first bytes of a header / of a body and closes, sends a frame with a bad checksum, or falls
          silent (the callers then have short deadlines or are cancelled).  Then a follow-up call must succeed on
          a fresh connection (or on the same one when the connection survived).
  abort   callers pending, some cancelled by their context, then Client.Abort; afterwards another call.
  sched   (only when the tree under test carries hooks/c09c10-transports.patch) forced orders of registration,
          enqueue, onExit, close, clean, abort and cancel at the yield points, among them the witness schedule of
          C10_prompt_on_close_refuted / C10_no_stuck_caller_refuted.

Every observation is turned into a label sequence and replayed through the extracted LTS (every step must be
enabled; outcomes, pending entries, pooled connection, goroutines alive must agree).  "Stuck" is decided
structurally (connection closed, cleaner finished, entry still pending, caller parked in its select, confirmed
after a generous wait and again later), never by a stopwatch alone.  The property's own oracle is evaluated on
every observation."""
import json
import os
import hv

TRANSPORTS = ["tcp", "unix", "ws", "udp"]
DIRECT = ["http", "fasthttp", "mock"]          # transports without a pending table: the call waits inside Transport(ctx, ...)


def hook_present():
    """the tree under test carries the whole of hooks/c09c10-transports.patch: the hook files AND the call lines"""
    for pkg in ("socket", "websocket", "udp"):
        try:
            if "VerifEventHook" not in open(os.path.join(hv.REPO, "rpc", pkg, "verif_on.go")).read():
                return False
            src = open(os.path.join(hv.REPO, "rpc", pkg, "transport.go")).read()
            for needle in ('verifYield("before-store"', 'verifEvent("store"', 'verifEvent("loadAndDelete"', 'verifEvent("clean-done"',
                           'verifYieldErr("before-onExit"', 'verifYield("dequeued"'):
                if needle not in src:
                    return False
        except OSError:
            return False
    return True


def build_hooked(name):
    hd = os.path.join(hv.V, "harness")
    out = os.path.join(hv.HBIN, "hv-%shook" % name)
    with hv.Lock("go" + hv.ALT):
        cmd = ["go", "build", "-tags", "verif c09c10hook", "-o", out]
        cmd[2:2] = hv.cover_flags()
        if hv.ALT:
            cmd.append("-modfile=" + os.path.join(hv.BUILD, "alt-" + hv.ALT, "go.mod"))
        rc, o, e = hv.sh(cmd + ["./cmd/" + name], cwd=hd, env=hv.GOENV, timeout=1800)
        if rc != 0:
            raise hv.EnvError("hooked harness %s does not build: %s" % (name, e[-3000:]))
    return out


# ------------------------------------------------------------------------------------ generation

BADCRC = "00000000" + "80000005" + "00000001" + "6869"       # 12-byte header with a wrong checksum (+2 bytes)


def fault_steps(transport, fault):
    """peer steps that end the connection (or silence it)"""
    if fault == "close":
        return [["peer_close"]]
    if fault == "rst":
        return [["peer_rst"]]
    if fault == "midheader":
        return [["peer_partial", "K", 5]]
    if fault == "midbody":
        return [["peer_partial", "K", 8 + 4 + 6 if transport == "ws" else 12 + 6]]
    if fault == "garbage":
        return [["peer_raw", "0102030405" if transport == "udp" else BADCRC, "keep"]]
    return []          # silent


def faults_for(transport):
    if transport == "udp":
        return ["garbage", "silent"]
    if transport == "ws":
        return ["close", "midbody", "silent"]
    if transport == "unix":
        return ["close", "midheader", "midbody", "garbage", "silent"]
    return ["close", "rst", "midheader", "midbody", "garbage", "silent"]


def gen_fault_case(rng, transport, fault):
    n = rng.choice([1, 2, 3, 5, 8])
    ks = list(range(n))
    answered = [k for k in ks if rng.random() < 0.4] if fault != "silent" or rng.random() < 0.5 else []
    no_deadline = rng.random() < 0.5
    steps = []
    for k in ks:
        if fault == "silent" and k not in answered:
            steps.append(["call", k, 200 if not no_deadline else -1])
        else:
            steps.append(["call", k, -1 if no_deadline else 0])
    steps.append(["await_recv", n, 3000])
    seq = list(answered)
    rng.shuffle(seq)
    for k in seq:
        steps.append(["reply", k])
    for k in seq:
        steps.append(["await_ret", k, 3000])
    victims = [k for k in ks if k not in answered]
    fs = fault_steps(transport, fault)
    for s in fs:
        if s[0] == "peer_partial":
            s[1] = victims[0] if victims else ks[0]
    steps += fs
    if fault == "silent":
        if no_deadline:
            steps.append(["sleep", 30])
            for k in victims:
                steps.append(["cancel", k])
        for k in victims:
            steps.append(["await_ret", k, 3000])
    else:
        for k in victims:
            steps.append(["await_ret", k, 3000])
    steps += [["sleep", 40], ["probe", "after-fault"]]
    f = n
    steps += [["call", f, 0], ["await_recv", n + 1, 3000], ["reply", f], ["await_ret", f, 3000], ["sleep", 20], ["probe", "end"]]
    return {"fam": "fault", "transport": transport, "peer": "script", "steps": steps, "hook": False, "fault": fault,
            "n": n, "answered": answered, "victims": victims, "follow": f, "no_deadline": no_deadline}


def gen_abort_case(rng, transport):
    n = rng.choice([1, 2, 4, 6])
    ks = list(range(n))
    steps = [["call", k, rng.choice([-1, 0])] for k in ks]
    steps.append(["await_recv", n, 3000])
    answered = [k for k in ks if rng.random() < 0.3]
    for k in answered:
        steps.append(["reply", k])
    for k in answered:
        steps.append(["await_ret", k, 3000])
    cancelled = [k for k in ks if k not in answered and rng.random() < 0.3]
    for k in cancelled:
        steps.append(["cancel", k])
    for k in cancelled:
        steps.append(["await_ret", k, 3000])
    steps.append(["abort"])
    for k in ks:
        if k not in answered and k not in cancelled:
            steps.append(["await_ret", k, 3000])
    steps += [["sleep", 150], ["probe", "after-abort"], ["sleep", 150], ["probe", "after-abort-2"]]
    f = n
    steps += [["call", f, 0], ["await_recv", n + 1, 3000], ["reply", f], ["await_ret", f, 3000], ["sleep", 20], ["probe", "end"]]
    return {"fam": "abort", "transport": transport, "peer": "script", "steps": steps, "hook": False, "n": n,
            "answered": answered, "cancelled": cancelled, "follow": f}


def kill_steps(transport):
    return [["peer_raw", "0102030405", "keep"]] if transport == "udp" else [["peer_close"]]


def gen_sched_case(rng, transport, template, deadline):
    """forced schedules (hook).  Caller 0 is the racing caller; callers 1.. are ordinary pending callers."""
    others = rng.choice([0, 0, 1, 2])
    tmo = 400 if deadline else -1
    steps = []
    ks = list(range(1, 1 + others))
    kill = kill_steps(transport)
    if others:
        steps += [["call", k, -1] for k in ks] + [["await_recv", others, 3000]]
    else:
        # the connection must exist before it can die: a first call that completes
        steps += [["call", 9, 0], ["await_recv", 1, 3000], ["reply", 9], ["await_ret", 9, 3000]]
    nreq = others if others else 1
    if template == "late-store":          # the witness: store after the last clean-done
        steps += [["hold", "k0", "before-store"], ["call", 0, tmo], ["await_yield", "k0", "before-store", 3000]]
        steps += kill
        steps += [["await_yield", "recv", "after-clean", 3000], ["await_yield", "send", "before-onExit", 3000], ["sleep", 40],
                  ["release", "k0", "before-store"], ["await_yield", "k0", "before-enqueue", 3000], ["sleep", 60],
                  ["probe", "race-1"], ["sleep", 250], ["probe", "race-2"]]
    elif template == "store-before-clean":   # registered while the cleaner waits before rangeAndClean
        steps += [["hold", "recv", "before-clean"], ["hold", "k0", "before-store"], ["call", 0, tmo],
                  ["await_yield", "k0", "before-store", 3000]]
        steps += kill
        steps += [["await_yield", "recv", "before-clean", 3000], ["release", "k0", "before-store"],
                  ["await_yield", "k0", "before-enqueue", 3000], ["sleep", 30], ["release", "recv", "before-clean"],
                  ["await_ret", 0, 3000], ["sleep", 40], ["probe", "race-1"]]
    elif template == "store-before-onexit":  # registered while the failing Receive waits before onExit
        steps += [["hold", "recv", "before-onExit"], ["hold", "k0", "before-store"], ["call", 0, tmo],
                  ["await_yield", "k0", "before-store", 3000]]
        steps += kill
        steps += [["await_yield", "recv", "before-onExit", 3000], ["release", "k0", "before-store"],
                  ["await_yield", "k0", "before-enqueue", 3000], ["sleep", 30], ["release", "recv", "before-onExit"],
                  ["await_ret", 0, 3000], ["sleep", 40], ["probe", "race-1"]]
    elif template == "abort-before-store":   # Client.Abort while the caller holds the connection but has not registered
        steps += [["hold", "k0", "before-store"], ["call", 0, tmo], ["await_yield", "k0", "before-store", 3000],
                  ["abort"], ["sleep", 60], ["release", "k0", "before-store"], ["await_ret", 0, 3000], ["sleep", 60], ["probe", "race-1"]]
    elif template == "cancel-after-store":   # the context is cancelled between registration and the select
        steps += [["hold", "k0", "after-store"], ["call", 0, tmo], ["await_yield", "k0", "after-store", 3000],
                  ["cancel", 0], ["release", "k0", "after-store"], ["await_ret", 0, 3000], ["sleep", 30], ["probe", "race-1"]]
    for k in ks:
        steps.append(["await_ret", k, 1500])
    steps += [["cancel", 0], ["await_ret", 0, 2000]]
    for k in ks:
        steps += [["cancel", k], ["await_ret", k, 2000]]
    steps += [["sleep", 40], ["probe", "after-race"]]
    f = 20
    steps += [["call", f, 0], ["await_req", f, 3000], ["reply", f], ["await_ret", f, 3000], ["sleep", 20], ["probe", "end"]]
    return {"fam": "sched", "transport": transport, "peer": "script", "steps": steps, "hook": True, "template": template,
            "deadline": deadline, "others": others, "follow": f}


def corpus_cases(ctx, hook):
    """corpus/C10-*.json: inputs that failed once (repaired defects).  They run first and must pass."""
    import glob
    out = []
    for n, f in enumerate(sorted(glob.glob(os.path.join(hv.V, "corpus", "C10-*.json")))):
        r = json.load(open(f))
        c = dict(r["case"])
        if c.get("hook") and not hook:
            continue
        c["id"] = 900000 + n
        c["corpus"] = os.path.basename(f)
        c["fixed_by"] = r.get("fixed_by")
        out.append(c)
    return out


def gen_client_abort_case(rng, transport):
    """Client.Abort with N >= 2 calls pending on a real Service whose handler sleeps 3 s: every pending call must return at
    once (its context is cancelled; the transports of rpc/http, fasthttp and mock have an Abort that does nothing)."""
    n = rng.choice([2, 3, 4])
    steps = [["call", k, rng.choice([-1, 0]), 3000] for k in range(n)]
    steps += [["await_svc", n, 3000], ["sleep", 20], ["abort"]]
    steps += [["await_ret", k, 1500] for k in range(n)]
    steps += [["probe", "after-abort"]]
    f = n
    steps += [["call", f, 0, 0], ["await_ret", f, 3000], ["sleep", 20], ["probe", "end"]]
    c = {"fam": "client-abort", "transport": transport, "peer": "service", "steps": steps, "hook": False, "n": n, "follow": f,
         "pending_at_abort": list(range(n))}
    if transport in ("tcp", "unix") and rng.random() < 0.6:
        # the reader of the aborted connection learns of the close only 150 ms later: the call that follows the Abort
        # must not be given that connection
        c["late_read_err_ms"] = 150
        # ... and the census of goroutines waits until that reader has had the time to notice
        c["steps"] = [s for s in steps if s != ["probe", "after-abort"]]
        c["steps"][-2] = ["sleep", 400]
    return c


def gen_oversize_request_case(rng):
    """udp (hook: pending entries are counted): requests that do not fit one datagram are refused with an error; each of them
    must leave nothing behind in the connection's table of pending calls, and the next ordinary call works"""
    m = rng.choice([1, 2, 3])
    steps = []
    for k in range(m):
        steps += [["call_big", k, rng.choice([65500, 66000, 70000, 200000])], ["await_ret", k, 2000]]
    f = m
    steps += [["call", f, 0, 0], ["await_recv", 1, 3000], ["reply", f], ["await_ret", f, 3000], ["sleep", 20], ["probe", "end"]]
    return {"fam": "oversize-request", "transport": "udp", "peer": "script", "steps": steps, "hook": True, "n": m, "follow": f,
            "answered": [], "victims": []}


def gen_late_exit_case(transport):
    """hook: connection #1 dies while its Send is held with a request in hand (a slow Write); a new call dials #2; only then
    does the Send of #1 get out and run the exit handler: #2 must stay pooled (the next call uses it), and after the final
    Abort every connection that was opened is closed."""
    steps = [["call", 9, 0], ["await_recv", 1, 3000], ["reply", 9], ["await_ret", 9, 3000],
             ["hold", "send@0", "dequeued"], ["call", 0, 2500], ["await_yield", "send@0", "dequeued", 3000]]
    steps += kill_steps(transport)
    steps += [["await_ret", 0, 3000], ["await_yield", "recv", "after-clean", 3000],
              ["call", 1, 2500], ["await_recv", 2, 3000], ["reply", 1], ["await_ret", 1, 3000],
              ["release", "send@0", "dequeued"], ["await_yield", "send@0", "after-clean", 3000], ["sleep", 30],
              ["call", 2, 2500], ["await_recv", 3, 3000], ["reply", 2], ["await_ret", 2, 3000], ["sleep", 20], ["probe", "end"]]
    return {"fam": "late-exit", "transport": transport, "peer": "script", "steps": steps, "hook": True, "follow": 2,
            "answered": [9, 1, 2], "expect_dials": 2}


def gen_queued_case(rng, transport, kill):
    """hook: Send is held with caller 0's request in hand (a write that does not return); callers 1.. are registered and
    parked in their FIRST select, queued behind it; then the connection is lost (peer closes / resets / sends a frame with a
    bad checksum) or Client.Abort is called: every registered caller, queued or sent, returns at once."""
    q = rng.choice([1, 1, 2, 3])
    tmo = rng.choice([-1, 0])
    # a first call that completes: the connection exists and (udp) the peer knows the client's address
    steps = [["call", 9, 0], ["await_recv", 1, 3000], ["reply", 9], ["await_ret", 9, 3000],
             ["hold", "send", "dequeued"], ["call", 0, tmo], ["await_yield", "send", "dequeued", 3000]]
    for k in range(1, 1 + q):
        steps += [["call", k, tmo], ["await_yield", "k%d" % k, "before-enqueue", 3000]]
    steps += [["sleep", 20]]
    if kill == "abort":
        steps += [["abort"]]
    elif kill == "close":
        steps += [["peer_close"]]
    elif kill == "rst":
        steps += [["peer_rst"]]
    else:
        steps += [["peer_raw", "0102030405" if transport == "udp" else BADCRC, "keep"]]
    for k in range(0, 1 + q):
        steps += [["await_ret", k, 1500]]
    steps += [["probe", "queued"], ["release", "send", "dequeued"], ["sleep", 60]]
    f = 1 + q
    steps += [["call", f, 0], ["await_req", f, 3000], ["reply", f], ["await_ret", f, 3000], ["sleep", 20], ["probe", "end"]]
    return {"fam": "queued", "transport": transport, "peer": "script", "steps": steps, "hook": True, "kill": kill,
            "registered": list(range(0, 1 + q)), "follow": f}


def kills_for(transport):
    if transport == "udp":
        return ["garbage", "abort"]
    if transport == "ws":
        return ["close", "abort"]
    if transport == "unix":
        return ["close", "garbage", "abort"]
    return ["close", "rst", "garbage", "abort"]


def gen_cases(ctx, hook):
    rng = ctx.rng
    quick = ctx.tier == "quick"
    cases = []

    def add(c):
        c["id"] = len(cases) + 1
        cases.append(c)
    for t in TRANSPORTS:
        for f in faults_for(t):
            for _ in range(2 if quick else 10):
                add(gen_fault_case(rng, t, f))
        for _ in range(2 if quick else 10):
            add(gen_abort_case(rng, t))
    for t in DIRECT + ["tcp", "ws", "udp"]:
        for _ in range(1 if quick else 4):
            add(gen_client_abort_case(rng, t))
    if hook:
        for _ in range(3 if quick else 12):
            add(gen_oversize_request_case(rng))
        for t in ("tcp", "ws", "udp", "unix"):
            add(gen_late_exit_case(t))
        for t in ("tcp", "unix", "ws", "udp"):
            for kl in kills_for(t):
                for _ in range(1 if quick else 3):
                    add(gen_queued_case(rng, t, kl))
        for t in ("tcp", "ws", "udp", "unix"):
            for tpl in ("late-store", "store-before-clean", "store-before-onexit", "abort-before-store", "cancel-after-store"):
                for dl in (False, True):
                    for _ in range(1 if quick else 4):
                        add(gen_sched_case(rng, t, tpl, dl))
    return cases


# ------------------------------------------------------------------------------------ log -> model ops

def caller_ids(case):
    ks = sorted({int(s[1]) for s in case["steps"] if s and s[0] == "call"})
    return {k: n for n, k in enumerate(ks)}


def ops_from_log(case, obs):
    """The op line of extract/drv_c10.ml and, per op, what the implementation showed (or None)."""
    log = obs["log"]
    t = case["transport"]
    idmap = caller_ids(case)
    armed = {}
    for s in case["steps"]:
        if s and s[0] == "call":
            tm = s[2] if len(s) > 2 else 0
            armed[idmap[int(s[1])]] = "0" if tm < 0 else "1"
    flags = "".join(armed[i] for i in range(len(idmap))) or "-"
    ops = ["15" if t == "udp" else "31", flags]
    if case.get("peer") == "service" and t not in DIRECT:
        return service_ops(case, obs, ops, idmap)
    shown = []

    marks = {}          # probe name -> number of tokens emitted before it

    def op(tokens, what=None):
        ops.extend(str(x) for x in tokens)
        shown.append(what)
    shown_marks = marks
    hooked = any(e["e"].startswith("t:") or e["e"].startswith("y:") for e in log)
    res = obs["results"]
    if t in DIRECT:
        for e in log:
            m = idmap.get(e["k"])
            if e["e"] == "call-begin" and m is not None:
                op(["B", m])
                op(["DB", m])
            elif e["e"] == "user-cancel" and m is not None:
                op(["U", m])
            elif e["e"] == "abort-begin":
                op(["ac"])
                op(["asc"])
            elif e["e"] == "call-ret" and m is not None:
                out = e["s"]
                if out.startswith("own") or out.startswith("other") or out.startswith("resp"):
                    op(["DR", m, "R"])
                elif out.startswith("error"):
                    op(["DR", m, "E"])
                else:
                    op(["DX", m])
                op(["E", m])
        return ops, shown
    state = {}          # model caller -> "begun" | "conn" | "stored" | "enq" | "ret"
    cur_conn = {}       # model caller -> conn
    at = {}             # (conn, idx) -> model caller (latest)
    holding = {}        # conn -> sender holds a request
    ended = set()

    def ret_ops(m, out):
        if m in ended:
            return
        ended.add(m)
        st = state.get(m)
        state[m] = "ret"
        if out.startswith("own") or out.startswith("other") or out.startswith("resp"):
            op(["T", m], ("T", "R"))
            op(["E", m])
        elif out.startswith("error"):
            if st in (None, "begun"):
                op(["DF", m])
                op(["E", m])
            else:
                op(["T", m], ("T", "E"))
                op(["E", m])
        else:   # canceled / timeout: the delete was seen (hook) or is implied
            if st in (None, "begun"):
                op(["DF", m])      # the dial was interrupted
                op(["E", m])
            else:
                if not hooked or st != "cancelled":
                    op(["X", m])
                op(["E", m])

    if hooked:
        conn_seen = set()
        early_q = set()
        drawn = set()
        bs_by_conn = {}
        for e in log:
            if e["e"] == "y:before-store" and idmap.get(e["k"]) is not None:
                bs_by_conn.setdefault(e["c"], []).append((e["i"], idmap[e["k"]]))
        nabort = 0
        abort_of = {}      # conn -> aborter index of the current Abort
        for e in log:
            kind, k, c, i = e["e"], e["k"], e["c"], e["i"]
            m = idmap.get(k)
            if kind == "call-begin" and m is not None:
                op(["B", m])
                state[m] = "begun"
            elif kind == "y:before-store" and m is not None:
                # concurrent callers reach the yield in any order; the counter was drawn in index order
                for i2, m2 in sorted(bs_by_conn.get(c, [])):
                    if i2 > i or m2 in drawn or state.get(m2) != "begun":
                        continue
                    drawn.add(m2)
                    if c in conn_seen:
                        op(["G", m2], ("G", c, i2))
                    else:
                        conn_seen.add(c)
                        op(["D", m2], ("D", c, i2))
                    state[m2] = "conn"
                    cur_conn[m2] = c
                    at[(c, i2)] = m2
            elif kind == "t:store" and m is not None:
                op(["S", m])
                state[m] = "stored"
            elif kind == "y:after-store" and m is not None and state.get(m) == "conn":
                # no store event: the connection had been closed and store handed the close error to the caller
                # instead of registering (the event hook sits behind the closeErr test)
                op(["S", m])
                state[m] = "stored"
            elif kind == "y:dequeued":
                mm = at.get((c, i))
                if mm is not None and (mm, c, i) in early_q:
                    continue           # already replayed before the caller's delete (see below)
                if mm is not None:
                    op(["Q", mm])
                    state[mm] = "enq"
                    if write_ok(log, e["q"], c):
                        op(["so", c])
                    else:
                        holding[c] = True
            elif kind == "peer-recv":
                pass
            elif kind in ("peer-send", "peer-stray"):
                op(["pr", client_conn_of_peer(case, obs, c), i])
            elif kind in ("peer-close", "peer-garbage", "peer-partial"):
                op(["pg", client_conn_of_peer(case, obs, c)])
            elif kind == "t:loadAndDelete":
                op(["rr", c, i], ("rr", e.get("x", 0)))
            elif kind == "y:before-onExit":
                role = e.get("r")
                if role == "send":
                    holding[c] = False
                    op(["oe", "s%d" % c, i])
                elif role == "recv":
                    op(["oe", "r%d" % c, i])
            elif kind == "y:before-clean":
                role = e.get("r")
                if role == "abort":
                    abort_of[c] = nabort      # its socket was closed right after the swap (op asc)
                    nabort += 1
                elif role == "send":
                    op(["cs", "s%d" % c])
                elif role == "recv":
                    op(["cs", "r%d" % c])
            elif kind in ("t:clean", "t:clean-done"):
                role = e.get("r")
                w = {"send": "s%d" % c, "recv": "r%d" % c, "abort": "a%d" % abort_of.get(c, 0)}.get(role)
                if w:
                    if kind == "t:clean":
                        op(["ct", w], ("ct", i))
                    else:
                        op(["cd", w])
            elif kind == "t:delete" and m is not None:
                # Send logs "dequeued" on its own goroutine after the rendezvous: if that comes later in the log, the caller
                # had in fact handed its request over before it looked at its context again
                later = [x for x in log if x["e"] == "y:dequeued" and x["c"] == c and x["i"] == i and x["q"] > e["q"]]
                if state.get(m) == "stored" and later and at.get((c, i)) == m:
                    op(["Q", m])
                    if write_ok(log, later[0]["q"], c):
                        op(["so", c])
                    else:
                        holding[c] = True
                    early_q.add((m, c, i))
                op(["X", m])
                state[m] = "cancelled"
            elif kind == "user-cancel" and m is not None:
                if state.get(m) in ("begun", "conn", "stored", "enq"):
                    op(["U", m])
            elif kind == "abort-begin":
                op(["ac"])
                op(["asc"])
            elif kind == "call-ret" and m is not None:
                ret_ops(m, e["s"])
            elif kind == "probe":
                marks[e.get("s")] = len(ops)
        shown.append(("marks", marks))
        return ops, shown

    # ---- hook-free: a linearisation consistent with what the peer and the callers saw
    peer_conns = set()
    dead = set()
    # requests reach the peer in the order Send wrote them, indices are drawn in counter order: a caller that drew a
    # smaller index on the same connection has drawn it earlier
    arrivals = {}
    for e in log:
        if e["e"] == "peer-recv" and idmap.get(e["k"]) is not None:
            arrivals.setdefault(e["c"], []).append((e["i"], idmap[e["k"]]))
    got_conn = set()

    def draw(c, upto):
        for i, mm in sorted(arrivals.get(c, [])):
            if i > upto or mm in got_conn or state.get(mm) != "begun":
                continue
            got_conn.add(mm)
            if c in peer_conns:
                op(["G", mm], ("G", c, i))
            else:
                peer_conns.add(c)
                op(["D", mm], ("D", c, i))
            state[mm] = "conn"
            cur_conn[mm] = c
    for e in log:
        kind, k, c, i = e["e"], e["k"], e["c"], e["i"]
        m = idmap.get(k)
        if kind == "call-begin" and m is not None:
            op(["B", m])
            state[m] = "begun"
        elif kind == "peer-recv" and m is not None:
            draw(c, i)
            op(["S", m])
            op(["Q", m])
            op(["so", c])
            state[m] = "enq"
        elif kind in ("peer-send", "peer-stray"):
            op(["pr", c, i])
            op(["rr", c, i])
        elif kind in ("peer-close", "peer-garbage", "peer-partial"):
            if c not in dead:
                dead.add(c)
                op(["pg", c])
                # Receive notices, unpools, closes, cleans; Send leaves by its context
                op(["oe", "r%d" % c, 1])
                op(["ct-or-cd", "r%d" % c])
                op(["oe", "s%d" % c, 0])
        elif kind == "user-cancel" and m is not None:
            if state.get(m) in ("begun", "conn", "enq"):
                op(["U", m])
        elif kind == "abort-begin":
            op(["ac"])
            op(["as"], ("as",))
            op(["abort-close"])
        elif kind == "call-ret" and m is not None:
            ret_ops(m, e["s"])
    return ops, shown


def service_ops(case, obs, ops, idmap):
    """a real Service behind a multiplexed transport (family client-abort): the frames are not visible; with the hook the
    client-side events are, otherwise a linearisation by the service's log"""
    # reuse the general converters by presenting the service's log as a peer's: indices in the order of the calls
    log = obs["log"]
    if any(e["e"].startswith("y:") for e in log):
        fake = dict(case)
        fake["peer"] = "script"
        o2 = dict(obs)
        # the service's receive/send events carry no index: translate them with the indices seen at the store events
        idx = {e["k"]: (e["c"], e["i"]) for e in log if e["e"] == "t:store"}
        new = []
        for e in log:
            if e["e"] == "svc-recv" and e["k"] in idx:
                e = dict(e, e="peer-recv", c=idx[e["k"]][0], i=idx[e["k"]][1])
            elif e["e"] == "svc-send" and e["k"] in idx:
                e = dict(e, e="peer-send", c=idx[e["k"]][0], i=idx[e["k"]][1])
            new.append(e)
        o2["log"] = new
        return ops_from_log(fake, o2)
    return ops, []


def write_ok(log, q, c):
    """Send took a request at log position q: did its write succeed?  It did unless the next thing Send does on that
    connection is to leave with an error."""
    for x in log:
        if x["q"] <= q or x["c"] != c or x.get("r") != "send":
            continue
        if x["e"] == "y:before-onExit":
            return not x["i"]
        if x["e"] == "y:dequeued":
            return True
    return True


def client_conn_of_peer(case, obs, pc):
    """peer-side connection numbers and client-side connection ids both count dials in order"""
    return pc


def expand_macros(ops):
    """'ct-or-cd w' = clean the table if it is not empty, then finish; 'abort-close' = the closer created by the
    last 'as' (if any) closes the socket and cleans; then the Receive of that connection fails and cleans again.
    Both depend on the model state, so they are expanded by running the model prefix."""
    return ops


# the two macros are expanded against the model: run the prefix, look at the summary
def run_model_expanding(lines):
    """lines: list of token lists possibly containing macros.  Returns list of (final tokens, output)."""
    results = [None] * len(lines)
    work = [(n, list(toks)) for n, toks in enumerate(lines)]
    for _ in range(12):
        todo = [(n, toks) for n, toks in work if any(t in ("ct-or-cd", "abort-close") for t in toks)]
        if not todo:
            break
        prefixes = []
        for n, toks in todo:
            j = next(i for i, t in enumerate(toks) if t in ("ct-or-cd", "abort-close"))
            prefixes.append(" ".join(toks[:j]))
        outs = hv.run_model("c10", prefixes)
        for (n, toks), out in zip(todo, outs):
            j = next(i for i, t in enumerate(toks) if t in ("ct-or-cd", "abort-close"))
            summ = dict(x.split("=", 1) for x in out.partition("|")[2].split())
            head = out.partition("|")[0].split()
            if toks[j] == "ct-or-cd":
                w = toks[j + 1]
                conn = int(w[1:])
                pend_here = conn_pending(toks[:j], out, conn)
                rep = (["ct", w] if pend_here else []) + ["cd", w]
                toks[j:j + 2] = rep
            else:
                last_as = [t for t in head if t.startswith("as:")]
                if last_as and last_as[-1] != "as:-":
                    a = "a" + last_as[-1][3:]
                    # which connection?  the one pooled before the swap: the highest dialled so far
                    conn = max([int(t.split(":")[1]) for t in head if t.startswith("D:")] or [0])
                    pend_here = conn_pending(toks[:j], out, conn)
                    rep = ["cs", a] + (["ct", a] if pend_here else []) + ["cd", a, "oe", "r%d" % conn, "1", "cd", "r%d" % conn,
                                                                      "oe", "s%d" % conn, "0"]
                else:
                    rep = []
                toks[j:j + 1] = rep
    final = [" ".join(toks) for _, toks in work]
    outs = hv.run_model("c10", final) if final else []
    return list(zip(final, outs))


def conn_pending(prefix_toks, out, conn):
    """does connection conn have pending entries after the prefix?  from the pcs in the summary"""
    summ = dict(x.split("=", 1) for x in out.partition("|")[2].split())
    for pc in summ.get("pcs", "").split(","):
        if pc.startswith("stored:%d:" % conn) or pc.startswith("enq:%d:" % conn):
            return True
    return False


def parse_model(out):
    head, _, tail = out.partition("|")
    return head.split(), dict(x.split("=", 1) for x in tail.split())


def outcome_class(r):
    if r is None:
        return "none"
    if r.startswith("own") or r.startswith("other") or r.startswith("resp"):
        return "R"
    if r.startswith("error"):
        return "E"
    return "C"


def compare(case, obs, line, out, shown=None):
    if len(line.split()) <= 2:
        return None           # nothing to replay (a real Service behind a multiplexed transport seen without the hook)
    toks, summ = parse_model(out)
    bad = [t for t in toks if t.startswith("!")]
    if bad:
        return "model: step not enabled %s in [%s]" % (bad[0], line[:600])
    # the indices the implementation drew (seen by the peer / at the before-store yield) are the model's
    drawn_model = [t for t in toks if t.startswith("D:") or t.startswith("G:")]
    drawn_impl = [w for w in (shown or []) if w and w[0] in ("D", "G")]
    if shown is not None and len(drawn_model) == len(drawn_impl):
        for tm, (kind, c, i) in zip(drawn_model, drawn_impl):
            if tm != "%s:%d:%d" % (kind, c, i):
                return "the implementation drew index %d on connection %d (%s), the model %s" % (i, c, kind, tm)
    idmap = caller_ids(case)
    pcs = summ.get("pcs", "-").split(",")
    res = obs["results"]
    for k, m in idmap.items():
        want = outcome_class(res.get(str(k)))
        have = pcs[m] if m < len(pcs) else "?"
        if want == "none":
            continue
        if have != want:
            return "caller %d returned %r (%s), the model has it at %s" % (k, res.get(str(k)), want, have)
    named = [p for p in (obs.get("probes") or []) if p["name"] != "teardown"]
    last = named[-1] if named else None
    if last and case["transport"] not in DIRECT:
        if last.get("pending") is not None and last.get("pooled", -1) >= 0:
            total = sum(last["pending"].values())
            if total != int(summ.get("pend", 0)):
                return "pending entries at the end: implementation %d, model %s" % (total, summ.get("pend"))
            pooled_model = 0 if summ.get("pool") == "-" else 1
            if last["pooled"] != pooled_model:
                return "pooled connections at the end: implementation %d, model %d" % (last["pooled"], pooled_model)
        alive = summ.get("alive", "0/0").split("/")
        if (last["send_g"], last["recv_g"]) != (int(alive[0]), int(alive[1])):
            return "goroutines alive at the end: implementation Send=%d Receive=%d, model %s" % (last["send_g"], last["recv_g"], summ.get("alive"))
    return None


# ------------------------------------------------------------------------------------ the property's oracle

def hv_is_env(r):
    return any(x in r for x in ("too many open files", "cannot assign requested address", "no buffer space", "address already in use",
                                "connection refused"))


def oracle(case, obs):
    """From the property text, on the observation alone."""
    t = case["transport"]
    res = obs["results"]
    log = obs["log"]
    probes = {p["name"]: p for p in (obs.get("probes") or [])}
    waited = {e["k"]: e.get("x", 0) for e in log if e["e"] == "await-ret"}
    # 1. promptly with an error when the connection is lost while the call is pending: structural
    for name in ("race-1",):
        p1, p2 = probes.get("race-1"), probes.get("race-2")
        if p1 and p2 and case.get("template") == "late-store":
            parked1 = p1.get("parked") or {}
            parked2 = p2.get("parked") or {}
            if "0" in parked1 and "0" in parked2 and "0" not in res_at(log, "race-2"):
                closed = any(e["e"] == "t:clean-done" for e in log)
                pend = sum((p2.get("pending") or {}).values())
                if closed and pend > 0 and p2.get("pooled") == 0:
                    dl = "armed (it will end in 'deadline exceeded' although the connection is long gone)" if case.get("deadline") \
                        else "none: it waits for ever"
                    return ("c10:registered-after-clean-never-failed",
                            "%s: the connection was closed and rangeAndClean had returned when the caller registered its entry: nobody "
                            "fails it. Structural: connection not pooled, cleaner finished, %d entry pending, caller goroutine parked in "
                            "select at two probes 250 ms apart; deadline %s" % (t, pend, dl))
    # 1b. Client.Abort: every call that was pending returns at once -- before the server (which sleeps 3 s) answers it
    if case["fam"] == "client-abort":
        ret = {e["k"]: e["q"] for e in log if e["e"] == "call-ret"}
        sent = {e["k"]: e["q"] for e in log if e["e"] == "svc-send"}
        abort_end = next((e["q"] for e in log if e["e"] == "abort-end"), None)
        late = [k for k in case["pending_at_abort"] if not waited.get(k) or (k in sent and sent[k] < ret.get(k, 10**12))]
        if late and abort_end is not None:
            return ("c10:%s:abort-does-not-interrupt-pending-calls" % t,
                    "%s: Client.Abort with %d calls pending: %s not back 1.5 s after Abort returned (they came back only when the server, "
                    "which sleeps 3 s, answered: %s)" % (t, case["n"], ", ".join("caller %d" % k for k in late),
                                                        {k: res.get(str(k), "still pending")[:40] for k in late}))
    # 1e. a caller registered on a connection that is lost returns at once with the connection's error, whether its request
    #     was still queued behind another write (first select) or already sent (second select)
    if case["fam"] == "queued":
        for k in case["registered"]:
            r = res_until(log, "queued").get(k)
            where = "queued behind a blocked write (first select)" if k != case["registered"][0] else "in Send's hands (second select)"
            if r is None:
                return ("c10:registered-caller-not-failed-when-connection-lost",
                        "%s (%s): caller %d, %s, had not returned 1.5 s after the connection was lost" % (t, case["kill"], k, where))
            if case["kill"] != "abort" and not r.startswith("error"):
                return ("c10:registered-caller-not-failed-when-connection-lost",
                        "%s (%s): caller %d, %s, returned %r instead of the connection's error" % (t, case["kill"], k, where, r[:60]))
    if case["fam"] == "sched" and case.get("template") in ("late-store", "store-before-clean", "store-before-onexit"):
        r = res.get("0", "")
        if not r.startswith("error"):
            return ("c10:registered-caller-not-failed-when-connection-lost",
                    "%s (%s): the caller that registered around the loss of its connection returned %r instead of the connection's error"
                    % (t, case["template"], r[:60]))
    # 1c. the exit handler of a dead connection leaves the replacement connection pooled
    if case["fam"] == "late-exit":
        dials = sum(1 for e in log if e["e"] == "peer-accept")
        if dials > case["expect_dials"]:
            return ("c10:healthy-pooled-connection-evicted",
                    "%s: the late exit of the dead connection's Send goroutine removed the replacement connection from the pool: the next "
                    "call dialled connection #%d" % (t, dials))
    # 2. every call returns (the scripts wait generously; a call that did not return although the script cancelled it is stuck)
    for k in sorted({int(s[1]) for s in case["steps"] if s and s[0] == "call"}):
        if str(k) not in res:
            return ("c10:%s:call-never-returned" % group(t), "%s: caller %d never returned (cancelled at the end of the script)" % (t, k))
    # 3. answered calls return their response; after a failure the client stays usable
    for k in case.get("answered", []):
        if res.get(str(k)) != "own" and t == "udp" and not reply_seen_arriving(obs, k):
            obs.setdefault("_inconclusive", []).append(k)      # UDP may have dropped the reply: no verdict
            continue
        if res.get(str(k)) != "own":
            return ("c10:%s:answered-call-failed" % group(t), "%s: caller %d was answered before the fault but returned %r" % (t, k, res.get(str(k))))
    f = case.get("follow")
    if f is not None and res.get(str(f)) != "own" and t == "udp" and not reply_seen_arriving(obs, f):
        obs.setdefault("_inconclusive", []).append(f)
    elif f is not None and res.get(str(f)) != "own" and not hv_is_env(res.get(str(f), "")):
        return ("c10:%s:unusable-after-failure" % group(t), "%s: the call after the failure returned %r" % (t, res.get(str(f))))
    # 4. the victims of a lost connection get an error, not their deadline
    if case["fam"] == "fault" and case["fault"] not in ("silent",):
        for k in case.get("victims", []):
            r = res.get(str(k), "")
            if not r.startswith("error"):
                return ("c10:%s:lost-connection-not-reported" % group(t), "%s (%s): caller %d pending when the connection was lost returned %r"
                        % (t, case["fault"], k, r))
    # 5. nothing accumulates: pending entries and goroutines after quiescence
    end = probes.get("end")
    if end:
        if end.get("pending") is not None and sum(end["pending"].values()) != 0:
            return ("c10:%s:pending-entries-left" % group(t), "%s: %d pending entries after every call returned" % (t, sum(end["pending"].values())))
        # one pooled connection (the follow-up's) = one Send and one Receive; anything more was left behind
        extra_s, extra_r = end["send_g"] - 1, end["recv_g"] - 1
        if extra_s > 0 or extra_r > 0:
            aborted = any(e["e"] == "abort-begin" for e in log)
            if aborted and extra_r <= 0:
                return ("c10:abort-leaves-send-goroutine",
                        "%s: after Client.Abort and quiescence %d Send goroutine(s) of closed connections are still parked in their select "
                        "(Transport.Abort empties the pool, so onExit never cancels their context)" % (t, extra_s))
            return ("c10:%s:goroutines-left" % group(t), "%s: %d Send and %d Receive goroutines of dead connections left" % (t, extra_s, extra_r))
    # 1d. teardown: after the final Client.Abort every connection ever opened is closed and no Send/Receive goroutine is left
    td = probes.get("teardown")
    if td and t not in DIRECT:
        if td["opened"] != td["closed"]:
            return ("c10:connection-left-open-after-abort", "%s: %d connections opened, %d closed after the final Client.Abort and quiescence "
                    "(an orphaned socket with its goroutines)" % (t, td["opened"], td["closed"]))
        if td["send_g"] > 0 or td["recv_g"] > 0:
            return ("c10:goroutines-left-after-abort", "%s: %d Send and %d Receive goroutines of this client alive after the final Client.Abort "
                    "and quiescence" % (t, td["send_g"], td["recv_g"]))
    return None


def reply_seen_arriving(obs, k):
    """the client's Receive handled a reply with the index of caller k's request after the peer sent it (hook event)"""
    log = obs["log"]
    snd = next((e for e in log if e["e"] == "peer-send" and e["k"] == k), None)
    if snd is None:
        return False
    return any(e["e"] == "t:loadAndDelete" and e["i"] == snd["i"] and e["q"] > snd["q"] for e in log)


def group(t):
    return {"tcp": "socket", "unix": "socket", "ws": "websocket", "udp": "udp"}.get(t, t)


def res_until(log, probe_name):
    """caller -> outcome, for the callers that had returned when the named probe was taken"""
    out = {}
    for e in log:
        if e["e"] == "probe" and e.get("s") == probe_name:
            break
        if e["e"] == "call-ret":
            out[e["k"]] = e["s"]
    return out


def res_at(log, probe_name):
    """callers that had returned when the named probe was taken"""
    out = set()
    for e in log:
        if e["e"] == "probe" and e.get("s") == probe_name:
            break
        if e["e"] == "call-ret":
            out.add(str(e["k"]))
    return out


# ------------------------------------------------------------------------------------ driver

def run(ctx):
    ctx.level = "proof"
    ctx.assumptions += [
        "one critical section of a mutex, one channel operation, one atomic add is one atomic step (sequential consistency); select with "
        "several ready branches chooses any; timers, context cancellation and the peer are environment events; wall-clock latency is not modelled",
        "the per-entry channel sends of rangeAndClean are merged with the critical section that took the entries; getConn and the "
        "AddInt32 that follows are one step",
        "a write may succeed until the client closes the socket and may fail once the peer is gone (superset of what TCP does)",
        "panics inside Send/Receive (conn.Exit's ineffective recover, C11) are not modelled",
        "without the hook the interleaving inside the client is not visible: the replay is a linearisation consistent with the peer's "
        "log and the callers' returns; scenarios are built so that it is determined",
        "goroutines are counted structurally (stacks inside (*conn).Send / Receive / Transport of the transport package), relative to the "
        "start of the case",
    ]
    ctx.prove()
    hv.build_harness("c10")
    hv.build_modelrun("c10")
    hook = hook_present()
    exe = "c10"
    if hook:
        build_hooked("c10")
        exe = "c10hook"
    ctx.note("transport_hooks_in_tree", hook)
    if not hook:
        ctx.note("hook_note", "the tree under test has no verif hooks in rpc/{socket,websocket,udp}: racing orders cannot be forced and the "
                 "pending table cannot be counted; the witness schedule of C10_prompt_on_close_refuted / C10_no_stuck_caller_refuted is "
                 "proved for the model but not replayed on the implementation. Apply hooks/c09c10-transports.patch to enable")
    corpus = corpus_cases(ctx, hook)
    ctx.note("corpus_cases", len(corpus))
    cases = corpus + gen_cases(ctx, hook)
    rc, obs, err = hv.run_harness_parallel(exe, cases, 8, timeout=1500)
    byid = {o["id"]: o for o in obs if "fatal" not in o}
    if len(byid) != len(cases):
        missing = [c for c in cases if c["id"] not in byid]
        ctx.report("harness-crash", "executor died on case %s: %s" % (json.dumps(missing[0])[:300], err[-400:]),
                   {"case": missing[0], "stderr": err[-2000:], "failing_input": True})
        cases = [c for c in cases if c["id"] in byid]
    evaluate(ctx, cases, byid)
    run_fan(ctx, exe)


def run_fan(ctx, exe):
    """Calls that a plugin hands to several servers on COPIES of the call's context (cluster.Forking, cluster.Broadcast):
    the copy must keep the call's timeout.  Servers that accept, read and never answer; the call has to come back with an
    error no later than about its timeout (bound: timeout + 2.5 s), whether the timeout is the client's or the call's own."""
    cases, cid = [], 700000
    for plugin in ("forking", "broadcast", "none"):
        for per_call in (False, True):
            for servers, silent in ((1, [0]), (2, [0, 1]), (3, [0, 1, 2]), (2, [1]), (3, [0, 2])):
                if plugin == "none" and servers > 1:
                    continue
                if plugin == "forking" and len(silent) < servers:
                    continue      # forking returns the first success: a healthy server answers
                cid += 1
                cases.append({"id": cid, "kind": "fan", "plugin": plugin, "servers": servers, "silent": silent,
                              "timeout_ms": ctx.rng.choice([150, 250, 400]), "per_call": per_call})
    rc, obs, err = hv.run_harness_parallel(exe, cases, 8, timeout=600)
    byid = {o["id"]: o for o in obs if "fatal" not in o}
    for c in cases:
        o = byid.get(c["id"])
        if o is None or o.get("env"):
            ctx.bump("fan_env")
            continue
        ctx.count_case("fan|" + json.dumps({k: c[k] for k in ("plugin", "servers", "silent", "per_call")}, sort_keys=True), True)
        ctx.bump("family", "fan:" + c["plugin"])
        where = "%s over %d server(s), silent %s, %s timeout %d ms" % (c["plugin"], c["servers"], c["silent"],
                                                                       "per-call" if c["per_call"] else "client", c["timeout_ms"])
        if not o["returned"] or o["elapsed_ms"] > c["timeout_ms"] + 2500:
            ctx.report("c10:fan-out-call-outlives-its-timeout:" + c["plugin"],
                       "a call handed to silent servers through %s %s" % (where, "returned after %d ms" % o["elapsed_ms"]
                                                                          if o["returned"] else "had not returned %d ms later" % o["elapsed_ms"]),
                       {"case": c, "observation": o, "failing_input": True})
        elif not o.get("err"):
            ctx.report("c10:fan-out-call-succeeds-without-answer:" + c["plugin"], "a call over %s returned no error although a "
                       "server it depends on never answered" % where, {"case": c, "observation": o, "failing_input": True})


def evaluate(ctx, cases, byid):
    todo = []
    early_hits = []
    env = 0
    for c in cases:
        o = byid[c["id"]]
        if o.get("env") or any(hv_is_env(r) for r in o["results"].values()):
            env += 1
            continue
        if o.get("note") and not o.get("log"):
            continue
        serr = [e for e in o["log"] if e["e"] == "script-error"]
        if serr:
            ctx.bump("script_errors")
            if any("no request of caller" in e.get("s", "") for e in serr):
                # the peer was healthy and waiting, the caller had begun: its request never arrived
                early_hits.append((c, o, "c10:request-not-delivered",
                                   "%s: %s although the connection was healthy and the caller was waiting" % (c["transport"], serr[0]["s"]), ""))
            continue
        ops, shown = ops_from_log(c, o)
        todo.append((c, o, ops, shown))
    ran = run_model_expanding([ops for _, _, ops, _ in todo])
    disagreements, hits = [], list(early_hits)
    prefix_jobs = []
    agree = 0
    for (c, o, _, shown), (line, out) in zip(todo, ran):
        fam = c["fam"]
        ctx.count_case(json.dumps([c["transport"], fam, c["steps"]], sort_keys=True), True)
        ctx.bump("family", fam + (":" + c["fault"] if fam == "fault" else "") + (":" + c["template"] if fam == "sched" else ""))
        ctx.bump("transport", c["transport"])
        ctx.bump("events", None, len(o["log"]))
        for r in o["results"].values():
            ctx.bump("outcomes", r.split(":")[0])
        d = out if out.startswith("MODEL-ERROR") else compare(c, o, line, out, shown)
        w = oracle(c, o)
        if o.get("_inconclusive"):
            ctx.bump("inconclusive_udp_replies_possibly_dropped", None, len(o["_inconclusive"]))
        toks, summ = ([], {}) if out.startswith("MODEL-ERROR") else parse_model(out)
        if d:
            disagreements.append((c, o, d, out))
        else:
            agree += 1
            if len(ctx.cov["samples"]) < 4 and fam != "fault":
                ctx.sample({"family": fam, "transport": c["transport"], "template": c.get("template"), "results": o["results"],
                            "model": out[-200:]})
        if w:
            hits.append((c, o, w[0], w[1], out))
        marks = next((x[1] for x in shown if x and x[0] == "marks"), {})
        if not d and "race-2" in marks:
            prefix_jobs.append((c, o, line.split()[:marks["race-2"]]))
        if summ:
            if summ.get("late_ok") == "false":
                ctx.bump("late_store_guard_violated")
            if summ.get("stuck", "-") != "-":
                ctx.bump("model_stuck_callers")
            if summ.get("zombies", "-") != "-":
                ctx.bump("model_parked_senders")
    # at the second race probe: the model calls a caller stuck exactly when the implementation shows it stuck
    if prefix_jobs:
        outs = hv.run_model("c10", [" ".join(t) for _, _, t in prefix_jobs])
        for (c, o, _), out in zip(prefix_jobs, outs):
            summ = parse_model(out)[1]
            p2 = next(p for p in o["probes"] if p["name"] == "race-2")
            idmap = caller_ids(c)
            impl = sorted(str(idmap[int(k)]) for k in (p2.get("parked") or {}) if int(k) in idmap and k not in res_at(o["log"], "race-2")
                          and sum((p2.get("pending") or {}).values()) > 0 and p2.get("pooled") == 0)
            model = sorted(x for x in summ.get("stuck", "-").split(",") if x != "-")
            ctx.bump("stuck_verdicts_compared")
            if impl != model:
                disagreements.append((c, o, "at probe race-2 the implementation shows stuck callers %s, the model %s" % (impl, model), out))
            elif impl:
                ctx.bump("stuck_confirmed_structurally")
    ctx.note("environment_trouble_cases", env)
    ctx.note("traces_validated_against_impl", agree)
    ctx.note("disagreeing_cases", len(disagreements))
    ctx.note("rule", "seeded scenarios per transport: 1..8 concurrent callers, a subset answered, then the peer closes / resets / stops in "
             "mid-header / mid-body / sends a bad frame / falls silent (deadlines or cancellation); Client.Abort with pending and cancelled "
             "callers; a follow-up call after every failure; with the hook: forced orders of registration vs onExit / close / clean / abort / "
             "cancel at the yield points, with and without deadline. every case non-trivial (a fault or a race in each); distinct by step list")
    ctx.note("exhaustive", False)
    seen = set()
    where = {}
    for c, o, key, text, out in hits:
        where.setdefault(key, set()).add(group(c["transport"]))
    ctx.note("corpus_passed", sum(1 for c in cases if c.get("corpus")) - len({c["corpus"] for c, _, _, _, _ in hits if c.get("corpus")}))
    hits.sort(key=lambda h: 0 if h[0].get("corpus") else 1)
    for c, o, key, text, out in hits:
        if key in seen:
            continue
        seen.add(key)
        text += " [seen in rpc/: %s]" % ", ".join(sorted(where[key]))
        if c.get("corpus"):
            text = "corpus case %s (repaired by %s) fails again: %s" % (c["corpus"], c.get("fixed_by"), text)
        wit = None
        if "registered-after-clean" in key:
            wit = "C10_prompt_on_close_old_refuted, C10_no_stuck_caller_old_refuted"
        if "abort-leaves-send" in key:
            wit = "C10_threads_exit_old_refuted"
        ctx.report(key, text, {"case": c, "observation": slim(o), "model": out[-400:], "failing_input": True, "coq_witness": wit})
    if disagreements and not hits:
        c, o, d, out = disagreements[0]
        ctx.report("correspondence:" + c["fam"], "Model/CallLife.v no longer matches the implementation (theorems C10_* not transferred): " + d,
                   {"case": c, "observation": slim(o), "model": out[-600:], "failing_input": False, "disagreement": d,
                    "correspondence": "CallLife.step vs conn.Transport/Send/Receive/Exit/Close/rangeAndClean, Transport.getConn/Abort, Client.Transport/Abort",
                    "disagreeing_cases": len(disagreements)})
    elif disagreements:
        ctx.note("first_disagreement", disagreements[0][2][:600])


def slim(o):
    o = dict(o)
    if len(o.get("log", [])) > 400:
        o["log"] = o["log"][:200] + o["log"][-200:]
    return o


def replay(ctx, path):
    r = json.load(open(path))
    case = r["case"]
    hv.build_harness("c10")
    hv.build_modelrun("c10")
    exe = "c10"
    if hook_present():
        build_hooked("c10")
        exe = "c10hook"
    elif case.get("hook"):
        print("the tree under test has no transport hooks; apply hooks/c09c10-transports.patch")
        return 3
    rc, obs, err = hv.run_harness(exe, [case], timeout=600)
    if not obs:
        print("harness crashed:", err[-500:])
        return 1
    o = obs[0]
    print(json.dumps(slim(o))[:3000])
    ops, shown = ops_from_log(case, o)
    (line, out), = run_model_expanding([ops])
    print("model:", out[-500:])
    print("replay agrees with model:", compare(case, o, line, out, shown) or "yes")
    w = oracle(case, o)
    print("property oracle:", w)
    return 1 if w else 0
