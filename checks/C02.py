"""C02: reference mode preserves shared and cyclic graphs; every back-reference resolves to the item meant.
Proof: Props/C02.v.  Tie: reference probes for every referable construct, pointer graphs with sharing and
cycles through the real Marshal/Unmarshal, the stream read back by the proved reader and resolved."""
import json
import hv, iogen, iorun, iosuite, ioeval


def build_cases(ctx, reg):
    g = iogen.Gen(ctx.rng, reg)
    quick = ctx.tier == "quick"
    cases = iosuite.corpus_cases("C02")
    cases += iosuite.probe_family(g)
    cases += iosuite.slices2d_family(g)
    cases += iosuite.sequences_family(g, 30 if quick else 400)
    cases += iosuite.graphs_family(g, 25 if quick else 400)
    cases += iosuite.strings_family(g)
    cases += iosuite.registered(g, reg, 10 if quick else 150)
    cases += iosuite.registered(g, reg, 6 if quick else 100, cycles=True, modes=["ref"])
    for c in cases:
        c["modes"] = ["ref"]
    return cases


def run(ctx):
    ctx.level = "proof"
    ctx.assumptions += [
        "oracles: strconv/big float text, uuid text and clock fields are taken from the standard library by the harness walker",
        "the Go value is described to the model by reflection (harness/cmd/io/walk.go), including pointer identities",
        "maps with two or more entries are compared by denotation only (iteration order is arbitrary)",
    ]
    ctx.prove()
    reg = iorun.prepare(ctx)
    cases = build_cases(ctx, reg)
    recs, crashes = iorun.run_cases(ctx, cases)
    ioeval.run_property(ctx, recs, crashes, ioeval.c02, "C02")
    ctx.note("rule", "type-exhaustive scalar matrix (17 kinds x boundary values x 10 container positions), string shapes x positions, "
             "all specialised map key/value pairs, times, reference probes for every referable construct, pointer graphs, random values "
             "of the registered struct types; x {simple, reference} mode; non-trivial = more than 3 output bytes; distinct by (mode,type,value)")


def replay(ctx, path):
    r = json.load(open(path))
    reg = iorun.prepare(ctx)
    c = dict(r["case"])
    recs, crashes = iorun.run_cases(ctx, [c])
    bad = 0
    for rec in recs:
        for m, d in rec["modes"].items():
            f = ioeval.c02(rec, m, d)
            print(m, d["go"].get("hex"), f)
            bad += len(f)
    return 1 if bad or crashes else 0
